"""Build targets of the core family (C11 options, C15 signals, C18 expression trees)."""
from vlib import build

# mp::Equal / std::hash<mp::Expr> live in src/expr.cc; it needs the kind table
# (expr-info.cc) and the formatting library only
EXPR_SRCS = ["src/expr.cc", "src/expr-info.cc", "src/format.cc"]

# BasicSolver::ParseOptions and friends: src/solver.cc and what it pulls in
OPT_SRCS = ["src/solver.cc", "src/option.cc", "src/format.cc", "src/os.cc", "src/posix.cc", "src/rstparser.cc",
            "src/utils_string.cc", "src/utils_file.cc", "src/utils_clock.cc", "src/expr-info.cc", "src/nl-reader.cc"]

TARGETS = {
    # SignalHandler lives in src/solver.cc too; no sanitizer: signal handlers and fork per schedule
    "h_signals": lambda: build("h_signals", OPT_SRCS, "plain", harness_srcs=["h_signals.cc"]),
    "h_options": lambda: build("h_options", OPT_SRCS, "asan", harness_srcs=["h_options.cc"]),
    "h_exprtree": lambda: build("h_exprtree", EXPR_SRCS, "asan", harness_srcs=["h_exprtree.cc"]),
}
