"""Build targets of the numeric family (C13 piecewise-linear approximation, C16 GSL bindings)."""
import os
from vlib import build, ROOT

_SHIM = os.path.join(ROOT, "harness", "gsl_shim")

TARGETS = {
    # the real approximator + fmt (mp::Error / fmt::format); production flags, -O1
    "h_pl": lambda: build("h_pl", ["src/mp/flat/piecewise_linear.cpp", "src/format.cc"], "plain",
                          harness_srcs=["h_pl.cc"]),
    # amplgsl.cc compiled against the funcadd.h shim (ASL is absent) and the system GSL
    "h_gsl": lambda: build("h_gsl", ["src/gsl/amplgsl.cc"], "plain", harness_srcs=["h_gsl.cc"],
                           libs=["-lgsl", "-lgslcblas", "-lm"], extra_flags=["-I" + _SHIM]),
}
