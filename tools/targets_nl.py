"""Build targets of the NL family (C03 round trip, C02 reader robustness).
Both are built from /repo's current tree with ASan+UBSan and production defines."""
from vlib import build

# the real writer (NLW2) and the real reader; nothing else is linked
_WRITER = ["nl-writer2/src/nl-writer2.cc", "nl-writer2/src/dtoa.cc", "nl-writer2/src/nl-utils.cc"]
_READER = ["src/nl-reader.cc", "src/expr-info.cc", "src/format.cc", "src/posix.cc", "src/os.cc"]
_PROBLEM = ["src/problem.cc", "src/expr.cc"]

TARGETS = {
    "h_nlrt": lambda: build("h_nlrt", _WRITER + _READER, "asan", harness_srcs=["h_nlrt.cc"]),
    "h_nlread": lambda: build("h_nlread", _READER + _PROBLEM, "asan", harness_srcs=["h_nlread.cc"]),
}
