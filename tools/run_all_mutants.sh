#!/bin/sh
# tools/run_all_mutants.sh [ids...]  -> runs every mutants/<id>/*.diff and seeded/<id>-*/patch.diff against
# the quick check of <id>; prints one line per change; exit 1 if any survived or did not apply.
cd "$(dirname "$0")/.."
ids="$*"; [ -n "$ids" ] || ids=$(ls mutants)
bad=0
for id in $ids; do
  for m in mutants/$id/*.diff seeded/$id-*/patch.diff; do
    [ -f "$m" ] || continue
    out=$(tools/run_mutant.sh $id $m 2>&1); rc=$?
    if [ $rc -eq 0 ]; then echo "caught   $m"; else echo "SURVIVED $m (rc=$rc) $(echo "$out" | tail -1 | cut -c1-160)"; bad=1; fi
  done
done
exit $bad
