#!/usr/bin/env python3
import os, sys
sys.path.insert(0, os.path.dirname(os.path.abspath(__file__)))
from vlib import *
import targets
ok = True
for name in targets.ALL:
    try:
        targets.get(name)
    except Broken as b:
        ok = False
        log("prebuild failed for %s: %s" % (name, str(b)[-2000:]))
sys.exit(0 if ok else 1)
