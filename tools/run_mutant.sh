#!/bin/sh
# tools/run_mutant.sh <property id> <patch.diff> [quick|thorough]
# Applies the patch to a scratch copy of /repo's sources (outside /repo and /verif),
# runs the property's check against that copy with separate build/output dirs,
# prints the check's verdict lines, removes the copy.  Exit 0 iff the check
# raised a VIOLATION (i.e. the mutant was caught).
pid="$1"; patch="$(readlink -f "$2")"; tier="${3:-quick}"
here="$(cd "$(dirname "$0")/.." && pwd)"
scratch="$(mktemp -d /tmp/verif-mut-XXXXXX)"
trap 'rm -rf "$scratch"' EXIT
mkdir -p "$scratch/repo"
rsync -a --exclude _build --exclude .git --exclude doc --exclude thirdparty/benchmark /repo/ "$scratch/repo/"
if ! (cd "$scratch/repo" && patch -p1 -s < "$patch"); then echo "PATCH FAILED"; exit 3; fi
VERIF_REPO="$scratch/repo" VERIF_BUILD="$scratch/build" "$here/check" "$pid" "$tier" > "$scratch/log" 2>&1
rc=$?
grep -E "VIOLATION|KNOWN-FINDING|BROKEN" "$scratch/log" | head -${VERIF_MUT_LINES:-5}
echo "check exit=$rc"
[ "$rc" = 1 ] && exit 0
[ "$rc" = 0 ] && { echo "MUTANT SURVIVED"; exit 1; }
tail -20 "$scratch/log"; exit 2
