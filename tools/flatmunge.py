"""Format munging between the generator's abstract models (GenNL.tla JSON), the
NL concretiser (nlgen) and the TLA+ semantics module FlatSem.tla:
  * doubles recorded from the real ModelAPI calls -> exact pairs <<a, b>> with
    value = a/D + b*eps (or "not on the grid" => the case is inconclusive)
  * bounds -> scaled integers / +-Inf sentinels
  * structural indices (last variable of a constraint, which functional
    constraint defines a variable) that let the TLA+ witness search prune.
No semantic judgement is made here.
"""
import math

INF = 500000000
EPS = 2.0 ** -14          # passed to the driver as cvt:cmp:eps; exactly representable
AUXW = 64                 # aux variables are searched on [-AUXW, AUXW] (unscaled) at most


class NonGrid(Exception):
    pass


def pair(v, D):
    """v = a/D + b*EPS with integers a, b (|b| small) or raise NonGrid."""
    if isinstance(v, str):
        if v == "inf":
            return [INF, 0]
        if v == "-inf":
            return [-INF, 0]
        raise NonGrid(v)
    if abs(v) >= 1e300:
        return [INF if v > 0 else -INF, 0]
    a = round(v * D)
    r = v - a / D
    b = round(r / EPS)
    if abs(v - (a / D + b * EPS)) > 1e-11 * max(1.0, abs(v)) or abs(b) > 4096 or abs(a) > 4000000:
        raise NonGrid(v)
    return [int(a), int(b)]


def sbound(v, D, lower):
    if isinstance(v, str):
        if v == "inf":
            return INF
        if v == "-inf":
            return -INF
        raise NonGrid(v)
    if abs(v) >= 1e20:
        return INF if v > 0 else -INF
    x = v * D
    return int(math.ceil(x - 1e-9)) if lower else int(math.floor(x + 1e-9))


# ---------------------------------------------------------------- generator model -> nlgen

def expr_to_nlgen(e):
    k = e["k"]
    if k == "n":
        return ["n", e["v"]]
    if k == "h":                       # half-integer constant v2/2
        return ["n", e["v2"] / 2.0]
    if k == "v":
        return ["v", e["i"]]
    if k == "d":
        return ["d", e["i"]]
    if k == "pl":
        return ["pl", list(e["s"]), list(e["b"]), expr_to_nlgen(e["a"][0])]
    if e["op"] == 1078:                # abstract (1/2)^a
        return ["o", 78, ["n", 0.5], expr_to_nlgen(e["a"][0])]
    return ["o", e["op"]] + [expr_to_nlgen(a) for a in e["a"]]


def num(x):
    return None if isinstance(x, str) else x


def gen_to_nlgen(m):
    out = {"vars": [{"lb": num(v["lb"]), "ub": num(v["ub"]), "int": v["int"]} for v in m["vars"]],
           "cons": [], "lcons": [expr_to_nlgen(e) for e in m.get("lcons", [])], "objs": [], "dvars": []}
    for c in m.get("cons", []):
        out["cons"].append({"lb": num(c["lb"]), "ub": num(c["ub"]), "lin": [list(t) for t in c["lin"]],
                            "expr": expr_to_nlgen(c["e"]) if c["has"] else None})
    for o in m.get("objs", []):
        out["objs"].append({"max": o["max"], "lin": [list(t) for t in o["lin"]],
                            "expr": expr_to_nlgen(o["e"]) if o["has"] else None})
    for d in m.get("dvars", []):
        out["dvars"].append({"lin": [list(t) for t in d["lin"]], "expr": expr_to_nlgen(d["e"]) if d["has"] else None})
    if m.get("compl"):          # [[con, var], ...]; both bounds of the generated variables are finite -> flags 3
        out["compl"] = {int(c): [int(v), 3] for c, v in m["compl"]}
    sf = list(m.get("suffixes") or [])
    for gi, g in enumerate(m.get("sos") or []):   # SOS sets by suffixes: sosno > 0 SOS1, < 0 SOS2; ref = reference values
        no = (gi + 1) * (1 if g["kind"] == 1 else -1)
        sf.append({"kind": 0, "name": "sosno", "vals": {int(v): no for v, _ in g["items"]}})
        sf.append({"kind": 0, "name": "ref", "real": True, "vals": {int(v): r for v, r in g["items"]}})
    if sf:
        out["suffixes"] = sf
    if m.get("names"):
        out["names"] = m["names"]
    return out


def remap_expr(e, perm):
    k = e["k"]
    if k == "v":
        return {"k": "v", "i": perm[e["i"]]}
    if k in ("n", "d", "h"):
        return dict(e)
    r = dict(e)
    r["a"] = [remap_expr(a, perm) for a in e["a"]]
    return r


def permute_gen(m, perm, cons_order=None):
    """Rename variables old -> perm[old] (and optionally reorder algebraic constraints)."""
    nv = len(m["vars"])
    inv = [0] * nv
    for old, new in enumerate(perm):
        inv[new] = old
    r = dict(m)
    r["vars"] = [m["vars"][inv[j]] for j in range(nv)]
    def rl(lin):
        return sorted([[perm[v], c] for v, c in lin])
    cons = [dict(c, lin=rl(c["lin"]), e=remap_expr(c["e"], perm)) for c in m.get("cons", [])]
    if cons_order is not None:
        cons = [cons[i] for i in cons_order]
    r["cons"] = cons
    r["lcons"] = [remap_expr(e, perm) for e in m.get("lcons", [])]
    r["objs"] = [dict(o, lin=rl(o["lin"]), e=remap_expr(o["e"], perm)) for o in m.get("objs", [])]
    r["dvars"] = [dict(d, lin=rl(d["lin"]), e=remap_expr(d["e"], perm)) for d in m.get("dvars", [])]
    cnew = {old: new for new, old in enumerate(cons_order)} if cons_order is not None else None
    r["compl"] = [[(cnew[c] if cnew else c), perm[v]] for c, v in (m.get("compl") or [])]
    r["sos"] = [dict(g, items=[[perm[v], ref] for v, ref in g["items"]]) for g in (m.get("sos") or [])]
    return r


def has_op(e, ops):
    if e["k"] == "o":
        return e["op"] in ops or any(has_op(a, ops) for a in e["a"])
    if e["k"] == "pl":
        return has_op(e["a"][0], ops)
    return False


def model_exprs(m):
    for c in m.get("cons", []):
        if c["has"]:
            yield c["e"]
    for e in m.get("lcons", []):
        yield e
    for o in m.get("objs", []):
        if o["has"]:
            yield o["e"]
    for d in m.get("dvars", []):
        if d["has"]:
            yield d["e"]


def has_half(e):
    if e["k"] == "h":
        return True
    if e["k"] in ("o", "pl"):
        return any(has_half(a) for a in e["a"])
    return False


def choose_D(m):
    return 2 if any(has_op(e, {3}) or has_half(e) for e in model_exprs(m)) else 1


# ---------------------------------------------------------------- generator model -> FlatSem NL record

def scale_expr(e, D, unscaled=False):
    k = e["k"]
    if k == "n":
        return {"k": "n", "v": e["v"] if unscaled else e["v"] * D}
    if k == "h":
        assert D % 2 == 0 and not unscaled
        return {"k": "n", "v": e["v2"] * D // 2}
    if k in ("v", "d"):
        return dict(e)
    if k == "pl":
        return {"k": "pl", "s": list(e["s"]), "b": [b * D for b in e["b"]], "a": [scale_expr(e["a"][0], D)]}
    args = []
    for j, a in enumerate(e["a"]):
        # exponent of pow (o76) is a count, not a value
        args.append(scale_expr(a, D, unscaled=(e["op"] == 76 and j == 1) or (e["op"] == 78 and j == 0)))
    return {"k": "o", "op": e["op"], "a": args}


def nl_record(m, D):
    def b(x, lower):
        return (-INF if lower else INF) if isinstance(x, str) or x is None else x * D
    rec = {"vars": [{"lb": v["lb"] * D, "ub": v["ub"] * D, "int": v["int"]} for v in m["vars"]],
           "cons": [], "lcons": [scale_expr(e, D) for e in m.get("lcons", [])], "objs": [], "dvars": [], "sos": []}
    compl = {int(c): [int(v)] for c, v in (m.get("compl") or [])}
    for i, c in enumerate(m.get("cons", [])):
        r = {"lb": b(c["lb"], True), "ub": b(c["ub"], False), "lin": [list(t) for t in c["lin"]],
             "has": c["has"], "e": scale_expr(c["e"], D), "compl": False}
        if i in compl:
            cv = compl[i][0]
            r.update(compl=True, cv=cv, cvlb=rec["vars"][cv]["lb"], cvub=rec["vars"][cv]["ub"])
        rec["cons"].append(r)
    for o in m.get("objs", []):
        rec["objs"].append({"max": o["max"], "lin": [list(t) for t in o["lin"]], "has": o["has"], "e": scale_expr(o["e"], D)})
    for d in m.get("dvars", []):
        rec["dvars"].append({"lin": [list(t) for t in d["lin"]], "has": d["has"], "e": scale_expr(d["e"], D)})
    for g in m.get("sos") or []:
        rec["sos"].append({"kind": g["kind"], "items": [[int(v), int(ref)] for v, ref in g["items"]]})
    return rec


# ---------------------------------------------------------------- recorded ModelAPI calls -> FlatSem delivered record

def m_lin(lin, D):
    return [[pair(c, D), v] for c, v in lin]


def m_quad(q, D):
    if q and D != 1:
        raise NonGrid("quadratic terms with D != 1")
    return [[pair(c, D), v1, v2] for c, v1, v2 in q]


def m_alg(d, D):
    return {"k": "alg", "lin": m_lin(d["lin"], D), "quad": m_quad(d["quad"], D), "cmp": d["cmp"],
            "lb": pair(d["lb"], D), "ub": pair(d["ub"], D)}


def m_expr(e, D):
    return {"lin": m_lin(e["lin"], D), "quad": m_quad(e["quad"], D), "c": pair(e["c"], D)}


def con_vars(c):
    k = c["k"]
    if k == "alg":
        return [v for _, v in c["lin"]] + [v for _, v1, v2 in c["quad"] for v in (v1, v2)]
    if k == "ind":
        return [c["b"]] + con_vars(c["con"])
    if k in ("linfunc", "quadfunc"):
        return [c["res"]] + con_vars(dict(c["expr"], k="alg"))
    if k == "cond":
        return [c["res"]] + con_vars(c["con"])
    if k == "func":
        return ([c["res"]] if c["res"] >= 0 else []) + list(c["args"])
    if k == "sos":
        return list(c["vars"])
    if k == "compl":
        return [c["var"]] + con_vars(dict(c["expr"], k="alg"))
    return []


def m_con(ev, D, vars_):
    d = ev["d"]
    k = d["k"]
    if k == "alg":
        r = m_alg(d, D)
    elif k == "ind":
        r = {"k": "ind", "b": d["b"], "bv": d["bv"], "con": m_alg(d["con"], D)}
    elif k in ("linfunc", "quadfunc"):
        r = {"k": k, "res": d["res"], "expr": m_expr(d["expr"], D)}
    elif k == "cond":
        r = {"k": "cond", "res": d["res"], "ctx": d["ctx"], "con": m_alg(d["con"], D)}
    elif k == "func":
        r = {"k": "func", "res": d["res"], "ctx": d["ctx"], "args": list(d["args"])}
        if isinstance(d["params"], dict):
            r["pl"] = {"x": [pair(x, D) for x in d["params"]["x"]], "y": [pair(y, D) for y in d["params"]["y"]]}
            if any(p[1] != 0 for p in r["pl"]["x"] + r["pl"]["y"]):
                raise NonGrid("pl eps")
            r["params"] = []
        else:
            # parameters that are plain numbers (exponent, cone scalings) vs. values (numberof's k)
            if ev["type"] in ("QuadraticConeConstraint", "RotatedQuadraticConeConstraint"):
                # the cone is over the scaled arguments c_j * x_j; a common positive factor of all c_j does not
                # change it (both sides of the defining inequality scale by its square): make them integers
                sc = next((f for f in (1, 2, 4, 8, 16) if all(abs(p_ * f - round(p_ * f)) < 1e-9 for p_ in d["params"])), None)
                if sc is None:
                    raise NonGrid("cone scaling")
                r["params"] = [pair(p_ * sc, 1) for p_ in d["params"]]
            elif ev["type"] == "PowConstraint":
                r["params"] = [pair(p, 1) for p in d["params"]]
            elif ev["type"] == "ExpAConstraint":      # base as [numerator, denominator]
                if d["params"][0] not in (2, 0.5) or D != 1:
                    raise NonGrid("expa base")
                r["params"] = [[2, 1] if d["params"][0] == 2 else [1, 2]]
            else:
                r["params"] = [pair(p, D) for p in d["params"]]
    elif k == "sos":
        r = {"k": "sos", "t": d["t"], "vars": list(d["vars"]), "w": [pair(w, 1) for w in d["w"]]}
    elif k == "compl":
        v = d["var"]
        r = {"k": "compl", "var": v, "expr": m_expr(d["expr"], D), "vlb": vars_[v]["lb"], "vub": vars_[v]["ub"]}
    else:
        raise NonGrid("unknown constraint kind " + k)
    r["type"] = ev["type"]
    r["name"] = ev.get("name") or ""
    r["mv"] = max(con_vars(r) + [-1]) + 1
    return r


DET_FUNCS = {"MaxConstraint", "MinConstraint", "AbsConstraint", "AndConstraint", "OrConstraint", "NotConstraint",
             "IfThenConstraint", "ImplicationConstraint", "AllDiffConstraint", "NumberofConstConstraint",
             "NumberofVarConstraint", "CountConstraint", "PowConstraint",
             # determined too, but the value may be off the grid (then no value: FlatSem!FuncValSet)
             "PLConstraint", "DivConstraint", "ExpAConstraint"}


def tighten_clipped(vars_, cons, D):
    """Search domains only: an auxiliary variable whose bounds were clipped to +-AUXW gets the bounds that a delivered
    linear row implies from the (unclipped) bounds of the row's other variables, and is no longer "clipped" on a side
    whose implied bound lies inside the clip: every value that can satisfy the delivered model is then inside the
    search domain, so "no witness" is a fact and not an artefact of the clip.  (Interval arithmetic on exact integers;
    rows with epsilon parts are not used.)"""
    BIG = 400000000
    side = [{"lo": v["clipped"] and v["lb"] == -AUXW * D, "hi": v["clipped"] and v["ub"] == AUXW * D} for v in vars_]
    def fin(i):
        return not side[i]["lo"] and not side[i]["hi"] and abs(vars_[i]["lb"]) < BIG and abs(vars_[i]["ub"]) < BIG
    for _ in range(6):
        changed = False
        for c in cons:
            if c.get("k") != "alg" or c.get("quad") or any(t[0][1] != 0 for t in c["lin"]):
                continue
            if c["lb"][1] != 0 or c["ub"][1] != 0:
                continue
            coef = {}
            for (a_, _e), v in c["lin"]:
                coef[v] = coef.get(v, 0) + a_
            hi = c["ub"][0] * D if abs(c["ub"][0]) < BIG else None
            lo = c["lb"][0] * D if abs(c["lb"][0]) < BIG else None
            for v, av in coef.items():
                if av == 0 or not (side[v]["lo"] or side[v]["hi"]):
                    continue
                others = [j for j in coef if j != v]
                if not all(fin(j) for j in others):
                    continue
                mn = sum(min(coef[j] * vars_[j]["lb"], coef[j] * vars_[j]["ub"]) for j in others)
                mx = sum(max(coef[j] * vars_[j]["lb"], coef[j] * vars_[j]["ub"]) for j in others)
                new_ub = new_lb = None
                fl = lambda p_, q_: p_ // q_              # floor(p/q), q > 0
                ce = lambda p_, q_: -((-p_) // q_)        # ceil(p/q), q > 0
                if hi is not None:                      # av * x <= hi - mn
                    r = hi - mn
                    if av > 0: new_ub = fl(r, av)
                    else: new_lb = ce(-r, -av)           # x >= r / av  (av < 0)
                if lo is not None:                      # av * x >= lo - mx
                    r2 = lo - mx
                    if av > 0:
                        cand = ce(r2, av)
                        new_lb = cand if new_lb is None else max(new_lb, cand)
                    else:
                        cand = fl(-r2, -av)              # x <= r2 / av  (av < 0)
                        new_ub = cand if new_ub is None else min(new_ub, cand)
                if new_ub is not None and side[v]["hi"] and new_ub <= vars_[v]["ub"]:
                    vars_[v]["ub"] = new_ub; side[v]["hi"] = False; changed = True
                if new_lb is not None and side[v]["lo"] and new_lb >= vars_[v]["lb"]:
                    vars_[v]["lb"] = new_lb; side[v]["lo"] = False; changed = True
        if not changed:
            break
    for i, v in enumerate(vars_):
        v["clipped"] = side[i]["lo"] or side[i]["hi"]


def delivered_record(rec, D, n0):
    """rec: list of recorded events of one conversion.  Returns (record, ng_reason|None)."""
    vars_, cons, objs = [], [], []
    ng = None
    for ev in rec:
        try:
            if ev["e"] == "Vars":
                for i in range(ev["n"]):
                    lb, ub = sbound(ev["lb"][i], D, True), sbound(ev["ub"][i], D, False)
                    clipped = False
                    if i >= n0:
                        w = AUXW * D
                        if lb < -w:
                            lb, clipped = -w, True
                        if ub > w:
                            ub, clipped = w, True
                    vars_.append({"lb": lb, "ub": ub, "int": bool(ev["ty"][i]), "clipped": clipped})
            elif ev["e"] == "Obj":
                objs.append({"max": bool(ev["max"]), "lin": m_lin(ev["lin"], D), "quad": m_quad(ev["quad"], D)})
            elif ev["e"] == "Con":
                cons.append(m_con(ev, D, vars_))
        except NonGrid as ex:
            ng = ng or str(ex)
            if ev["e"] == "Con":
                cons.append({"k": "unknown", "type": ev["type"], "mv": 0, "name": ""})
    tighten_clipped(vars_, cons, D)
    # structural indices for the witness search (ordering heuristic; no semantics)
    n = len(vars_)
    cvars = [set(con_vars(c)) if c["k"] != "unknown" else set() for c in cons]
    assigned = set(range(min(n0, n)))
    remaining = [i for i in range(n0, n)]
    done_cons = set(j for j, vs in enumerate(cvars) if vs <= assigned)
    chk0 = [j + 1 for j in sorted(done_cons) if cons[j]["k"] != "unknown"]
    steps = []
    space = 1
    def dom_size(i):
        v = vars_[i]
        step = D if v["int"] else 1
        return max(0, (v["ub"] - v["lb"]) // step + 1)
    while remaining:
        pick = None
        for j, c in enumerate(cons):
            if j in done_cons or c["k"] == "unknown":
                continue
            res = c.get("res", -1)
            if res is not None and res in remaining:
                rest = cvars[j] - {res}
                if rest <= assigned:
                    if (c["k"] == "func" and c["type"] in DET_FUNCS and
                            (c["type"] != "PowConstraint" or (D == 1 and c["params"][0][1] == 0 and c["params"][0][0] >= 0))) \
                            or c["k"] in ("cond", "linfunc", "quadfunc"):
                        pick = (res, j + 1, "func")
                        break
            if c["k"] == "alg" and not c["quad"] and c["lb"] == c["ub"] and c["lb"][1] == 0:
                un = cvars[j] - assigned
                if len(un) == 1:
                    u = next(iter(un))
                    coef = [cf for cf, v in c["lin"] if v == u]
                    if sum(cf[0] for cf in coef) != 0 and all(cf[1] == 0 for cf in coef):
                        pick = (u, j + 1, "lineq")
                        break
        if pick is None:
            u = min(remaining, key=lambda i: (dom_size(i), i))
            pick = (u, 0, "")
            space *= max(1, dom_size(u))
        u = pick[0]
        remaining.remove(u)
        assigned.add(u)
        newly = [j for j, vs in enumerate(cvars) if j not in done_cons and vs <= assigned]
        done_cons.update(newly)
        steps.append({"v": u + 1, "det": pick[1], "dk": pick[2], "chk": [j + 1 for j in newly if cons[j]["k"] != "unknown"]})
    return {"vars": vars_, "cons": cons, "objs": objs, "steps": steps, "chk0": chk0}, ng, space
