"""Shared by the converter-family checks (C01, C06, C07, C04, C19, C20): generate
models with TLC (GenNL.tla), choose acceptance/option configurations, run the
real driver, and turn what was recorded into FlatSem records."""
import json, os, random, re
from vlib import *
import drv, nlgen, flatmunge as fm

EPS_OPT = "cvt:cmp:eps=%r" % fm.EPS
SEARCH_BUDGET = 300000      # free-choice combinations x points a witness search may take


def generate():
    r = tlc("GenNL", "GenNL.cfg", cwd=os.path.join(SPECS, "flat"), workers=NPROC)
    tlc_must_pass(r, "GenNL")
    gen = printed_json(r, "CASE")
    if len(gen) < 1000:
        raise Broken("GenNL produced only %d cases" % len(gen))
    gen.sort(key=lambda g: (g["kind"], g["op"], g["sh"], g["pat"], g["use"], g["k"]))
    return gen, r


def acc_options(exe):
    rc, so, se = run_harness(exe, ["-c"], timeout=60)
    opts = {}
    for line in so.splitlines():
        m = re.match(r"^\s*\d+\.\s+(\S+)\s*:\s*(\w+); (\w+); (.*)$", line)
        if m:
            opts[m.group(1)] = {"conv": m.group(2) == "Convertible", "opt": m.group(4).split()[0]}
    if len(opts) < 40:
        raise Broken("could not list acceptance options (-c)")
    return opts

FUNC_TYPES = ["AbsConstraint", "AllDiffConstraint", "AndConstraint", "CondLinConEQ", "CondLinConGE", "CondLinConGT",
              "CondLinConLE", "CondLinConLT", "CondQuadConEQ", "CondQuadConGE", "CondQuadConGT", "CondQuadConLE",
              "CondQuadConLT", "CountConstraint", "DivConstraint", "IfThenConstraint", "ImplicationConstraint",
              "MaxConstraint", "MinConstraint", "NotConstraint", "NumberofConstConstraint", "NumberofVarConstraint",
              "OrConstraint", "PLConstraint", "PowConstraint", "ComplementarityLinear", "ComplementarityQuadratic"]
IND_TYPES = ["IndicatorConstraintLinEQ", "IndicatorConstraintLinGE", "IndicatorConstraintLinLE",
             "IndicatorConstraintQuadEQ", "IndicatorConstraintQuadGE", "IndicatorConstraintQuadLE"]
QUAD_TYPES = ["QuadConEQ", "QuadConGE", "QuadConLE", "QuadConRange", "QuadraticConeConstraint",
              "RotatedQuadraticConeConstraint", "QuadraticFunctionalConstraint"]
OTHER_TYPES = ["LinConRange", "SOS2Constraint", "LinearFunctionalConstraint"]


def configs(exe):
    a = acc_options(exe)
    def off(types, level=0):
        return ["%s=%d" % (a[t]["opt"], level) for t in types if t in a]
    cones_off = off(["QuadraticConeConstraint", "RotatedQuadraticConeConstraint", "ExponentialConeConstraint",
                     "PowerConeConstraint", "GeometricConeConstraint"])
    cf = [
        ("native", []),
        ("native-nocones", cones_off),
        ("mip-ind", off(FUNC_TYPES) + cones_off + off(["LinearFunctionalConstraint", "QuadraticFunctionalConstraint"])),
        ("mip-bigm", off(FUNC_TYPES) + off(IND_TYPES) + cones_off + off(["LinearFunctionalConstraint", "QuadraticFunctionalConstraint", "LinConRange"])),
        ("mip-linear", off(FUNC_TYPES) + off(IND_TYPES) + off(QUAD_TYPES) + off(OTHER_TYPES) + cones_off + ["cvt:quadcon=0", "cvt:quadobj=0"]),
        ("mip-ind-nopre", off(FUNC_TYPES) + cones_off + off(["LinearFunctionalConstraint", "QuadraticFunctionalConstraint"]) + ["cvt:pre:all=0"]),
        ("level1", off(FUNC_TYPES, 1) + cones_off),
    ]
    return cf, a


def random_config(a, rnd):
    types = [t for t in FUNC_TYPES + IND_TYPES + OTHER_TYPES + ["QuadConRange"] if t in a]
    opts = ["%s=%d" % (a[t]["opt"], rnd.choice([0, 0, 1, 2])) for t in types if rnd.random() < 0.6]
    for o, vals in (("cvt:pre:all", [0, 1]), ("cvt:pre:eqresult", [0, 1]), ("cvt:pre:eqbinary", [0, 1]),
                    ("cvt:pre:unnest", [0, 1]), ("cvt:uenc:ratio", [0, 1, 10]), ("cvt:uenc:negctx:max", [0, 1, 5]),
                    ("cvt:socp", [0, 1, 2]), ("cvt:socp2qc", [0, 1, 2]), ("cvt:quadcon", [0, 1]), ("cvt:quadobj", [0, 1]),
                    ("cvt:sos", [0, 1]), ("cvt:sos2", [0, 1])):
        if rnd.random() < 0.25:
            opts.append("%s=%d" % (o, rnd.choice(vals)))
    return opts


def compose(g1, g2):
    """One model with the constraints of both (same variables; the objective of the first)."""
    m1, m2 = g1["m"], g2["m"]
    assert m1["vars"] == m2["vars"] and not (m1["dvars"] or m2["dvars"] or m1["compl"] or m2["compl"] or m1["sos"] or m2["sos"])
    m = dict(m1, cons=m1["cons"] + m2["cons"], lcons=m1["lcons"] + m2["lcons"])
    return {"kind": "pair", "op": g1["op"] + "+" + g2["op"], "sh": g1["sh"] + "+" + g2["sh"], "pat": g1["pat"],
            "use": g1["use"] + "+" + g2["use"], "k": "%s+%s" % (g1["k"], g2["k"]), "m": m}


def same_op_pairs(gen, n, sd):
    """n compositions of two models with the SAME root operator and domain pattern but different uses, in both
    orders: the constraint lists of one type then hold constraints with different fates (nested and delivered,
    root and turned into bounds / unused, reformulated)."""
    rnd = random.Random(sd)
    groups = {}
    for g in gen:
        if g["kind"] in ("num", "log"):
            groups.setdefault((g["kind"], g["op"], tuple(g["pat"])), []).append(g)
    keys = sorted(k for k, v in groups.items() if len({g["use"] for g in v}) > 1)
    out = []
    while len(out) < n:
        v = groups[keys[rnd.randrange(len(keys))]]
        g1, g2 = rnd.sample(v, 2)
        if g1["use"] == g2["use"]:
            continue
        out.append(compose(g1, g2))
        out.append(compose(g2, g1))
    return out[:n]


def sample(gen, cfgs_a, n, sd, stratify=True, pairs=True, pair_every=4):
    """n (model, config) pairs; every operator x use and every operator x pattern at least once when n allows."""
    cfgs, a = cfgs_a
    rnd = random.Random(sd)
    picks = []
    if stratify:
        seen = set()
        order = list(range(len(gen)))
        rnd.shuffle(order)
        for keyf in (lambda g: (g["kind"], g["op"], g["use"]), lambda g: (g["kind"], g["op"], tuple(g["pat"])), lambda g: (g["kind"], g["op"], g["sh"])):
            for i in order:
                k = keyf(gen[i])
                if k not in seen:
                    seen.add(k)
                    picks.append(i)
    while len(picks) < n:
        picks.append(rnd.randrange(len(gen)))
    rnd.shuffle(picks)
    picks = picks[:n]
    # a quarter of the models are compositions: the constraints of two generated models over the same
    # three variables in one model (shared subexpressions, mixed contexts, several constraints of a type)
    bypat = {}
    for i, g in enumerate(gen):
        if g["kind"] in ("num", "log", "nest", "cone"):
            bypat.setdefault(tuple(g["pat"]), []).append(i)
    glist = []
    for j, i in enumerate(picks):
        g = gen[i]
        if pairs and j % pair_every == pair_every - 1 and g["kind"] in ("num", "log", "nest", "cone"):
            g = compose(g, gen[rnd.choice(bypat[tuple(g["pat"])])])
        glist.append(g)
    cases = []
    for j, g in enumerate(glist):
        r = rnd.random()
        if r < 0.75:
            name, opts = cfgs[j % len(cfgs)]
        else:
            name, opts = "random", random_config(a, rnd)
        cases.append({"id": j, "gen": g, "cfgname": name, "opts": list(opts)})
    return cases


def prepare(case):
    """abstract generated model -> file-order model, nlgen model, D"""
    g = case["gen"]["m"]
    ng0 = fm.gen_to_nlgen(g)
    order, perm, _ = nlgen.order_vars(ng0)
    corder = [i for i, c in enumerate(g["cons"]) if c["has"]] + [i for i, c in enumerate(g["cons"]) if not c["has"]]
    g = dict(g, compl=g.get("compl") or [], sos=g.get("sos") or [])
    pm = fm.permute_gen(g, perm, corder)
    case["pm"] = pm
    case["D"] = fm.choose_D(pm)
    if case.get("half_grid") and not any(fm.has_op(e, {2, 76, 77}) for e in fm.model_exprs(pm)):
        case["D"] = 2          # candidate points on the half-integer grid (no products in the model)
    case["model"] = fm.gen_to_nlgen(pm)
    return case


def run_and_record(exe, pid, cases, extra_opts=(), answer=None, keep=False):
    for c in cases:
        prepare(c)
        c["opts_full"] = [EPS_OPT] + list(c["opts"]) + list(extra_opts)
        if c.get("decoy"):
            # C12: the NL file gets a second, linear objective of the opposite sense before ("first") or after
            # ("last") the generated one; the case's options select the generated one, which alone is judged
            real = c["model"]["objs"]
            dec = {"max": not real[0]["max"], "lin": [[0, 7]], "expr": None}
            c["model"] = dict(c["model"], objs=[dec] + real if c["decoy"] == "first" else real + [dec])
    runs = drv.run_cases(exe, pid, [{"id": c["id"], "model": c["model"], "opts": c["opts_full"],
                                      "answer": answer if answer is not None else "status 0 ok\n"} for c in cases], keep=keep)
    recs = []
    stats = {"converted": 0, "refused": 0, "infeasible": 0, "nongrid": 0, "hang": 0, "crash": 0}
    for c, r in zip(cases, runs):
        c["run"] = r
        if r["nlinfo"]["perm"] != list(range(len(c["model"]["vars"]))):
            raise Broken("variable order not canonical for case %s" % c["id"])
        D = c["D"]
        n0 = len(c["model"]["vars"])
        nlrec = fm.nl_record(c["pm"], D)
        if any(o.replace(" ", "") in ("cvt:sos=0", "sos=0") for o in c["opts_full"]):
            nlrec["sos"] = []      # the user told the driver to ignore the .sosno/.ref suffixes
        rec = {"e": "Case", "id": c["id"], "D": D, "nl": nlrec, "ng": False,
               "code": -1, "msgNonEmpty": False, "toobig": False}
        converted = any(ev["e"] == "FinishProblemModificationPhase" for ev in r["rec"])
        s = r["sol"]
        if r["hang"] or r["rc"] < 0 or r["rc"] in (97, 98, 99, 134, 139):
            stats["hang" if r["hang"] else "crash"] += 1
            recs.append({"e": "Crash", "id": c["id"], "rc": r["rc"], "hang": r["hang"]})
            continue
        if converted:
            d, ng, space = fm.delivered_record(r["rec"], D, n0)
            npts = 1
            for v in rec["nl"]["vars"]:
                npts *= (v["ub"] - v["lb"]) // (D if v["int"] else 1) + 1
            rec.update(outcome="converted", toobig=bool(space * npts > SEARCH_BUDGET), **{"del": d})
            if rec["toobig"]:
                stats["toobig"] = stats.get("toobig", 0) + 1
            if ng:
                rec["ng"] = True
                stats["nongrid"] += 1
            stats["converted"] += 1
        else:
            code = s["code"] if s and s["code"] is not None else -1
            msg = (s["msg"] if s else "") or r["stderr"] or r["stdout"]
            rec.update(toobig=False, outcome="infeasible" if 200 <= code <= 299 else "refused", code=code if code >= 0 else (500 if r["rc"] != 0 else -1),
                       msgNonEmpty=bool(msg.strip()), **{"del": {"vars": [], "cons": [], "objs": [], "steps": [], "chk0": []}})
            stats[rec["outcome"]] += 1
            c["refusal_msg"] = msg[:300]
        recs.append(rec)
    return recs, stats
