#!/bin/bash
# tools/coverage.sh [ids...] - development aid: run the driver-based quick checks on a gcov build of the
# harnesses (every target is built with the coverage flavor) and list, per file of ampl/mp, how many lines the generated cases reach.  Output:
# /tmp/verif-cov/cov.info (lcov) and a per-file summary on stdout.  Not part of any check.
cd "$(dirname "$0")/.."
export VERIF_DRV_FLAVOR=cov VERIF_FORCE_FLAVOR=cov VERIF_BUILD=/tmp/verif-cov
ids="$*"; [ -n "$ids" ] || ids="C01 C02 C03 C04 C05 C06 C07 C08 C09 C10 C11 C12 C13 C14 C15 C16 C18 C19 C20"
find /tmp/verif-cov -name "*.gcda" -delete 2>/dev/null
for id in $ids; do echo "== $id"; ./check $id quick 2>&1 | grep -v KNOWN | tail -2; done
lcov --capture --directory /tmp/verif-cov/obj/cov --output-file /tmp/verif-cov/cov.info --quiet 2>/dev/null
lcov --extract /tmp/verif-cov/cov.info '/repo/include/mp/*' '/repo/src/*' '/repo/nl-writer2/*' --output-file /tmp/verif-cov/mp.info --quiet 2>/dev/null
lcov --list /tmp/verif-cov/mp.info 2>/dev/null
