"""Shared machinery for /verif checks: build harnesses from /repo's working tree,
run TLC, validate traces, write evidence, handle known findings.

Everything judgemental lives in the TLA+ specs under /verif/specs; this module
only moves files around and maps tool exit codes.
"""
import concurrent.futures as cf
import hashlib
import json
import os
import re
import shutil
import subprocess
import sys
import time

ROOT = os.path.dirname(os.path.dirname(os.path.abspath(__file__)))
REPO = os.environ.get("VERIF_REPO", "/repo")
# VERIF_BUILD redirects every output (objects, binaries, out/, evidence/) so that a
# run against a mutated copy of the sources (VERIF_REPO) never disturbs the real one
BUILD = os.environ.get("VERIF_BUILD") or os.path.join(ROOT, ".build")
OUT = os.path.join(BUILD, "out") if os.environ.get("VERIF_BUILD") else os.path.join(ROOT, "out")
SPECS = os.path.join(ROOT, "specs")
EVID = os.path.join(BUILD, "evidence") if os.environ.get("VERIF_BUILD") else os.path.join(ROOT, "evidence")
NPROC = os.cpu_count() or 4

DEFS = ["-DNDEBUG", "-DMP_DATE=20240320", '-DMP_SYSINFO="Linux x86_64"',
        "-DMP_USE_ATOMIC", "-DMP_USE_HASH", "-DMP_USE_UNIQUE_PTR",
        "-DAMPL_MP_VERIF"]
INCS = ["-I" + REPO + "/include", "-I" + REPO + "/src",
        "-I" + REPO + "/nl-writer2/include", "-I" + ROOT + "/harness"]

FLAVORS = {
    # production defines (NDEBUG) + sanitizers; compiled with clang++ (COMPILER below): GCC 12 drops the ASan check
    # of a load in some loops at any optimisation level above -O0 (a one-byte read behind the terminating NUL in
    # TextReader::ReadString went unreported - seeded change C02-3); clang 14 at -O1 reports it
    "asan": ["-O1", "-g1", "-fsanitize=address,undefined",
             "-fno-sanitize-recover=undefined", "-fno-omit-frame-pointer"],
    # the converter's CRTP bases cast `this` to the final class while it is still under
    # construction (an idiom; UBSan's vptr check objects to it): not what any property is about
    "asan-novptr": ["-O1", "-g1", "-fsanitize=address,undefined", "-fno-sanitize=vptr",
                    "-fno-sanitize-recover=undefined", "-fno-omit-frame-pointer"],
    "plain": ["-O1"],
    "o0": ["-O0"],
    # development aid (tools/coverage.sh): which lines of ampl/mp do the generated cases reach
    "cov": ["-O0", "-g", "--coverage", "-fprofile-update=atomic"],
}

LIBMP_SRCS = [
    "src/expr-info.cc", "src/expr.cc", "src/format.cc", "src/nl-reader.cc",
    "src/option.cc", "src/os.cc", "src/posix.cc", "src/problem.cc",
    "src/rstparser.cc", "src/sol.cc", "src/solver.cc", "src/std_constr.cc",
    "src/utils_clock.cc", "src/utils_file.cc", "src/utils_string.cc",
    "src/mp/flat/encodings.cpp", "src/mp/flat/piecewise_linear.cpp",
]
NLW2_SRCS = [
    "nl-writer2/src/dtoa.cc", "nl-writer2/src/nl-solver.cc",
    "nl-writer2/src/nl-utils.cc", "nl-writer2/src/nl-writer2.cc",
    "nl-writer2/src/nl-model-c.cc", "nl-writer2/src/nl-solver-c.cc",
]


class Broken(Exception):
    """The machinery itself failed (tool error, build error). Exit code 2."""


def log(*a):
    print(*a, flush=True)


def sh(cmd, **kw):
    return subprocess.run(cmd, **kw)


def _ccenv():
    env = dict(os.environ)
    env["CCACHE_DIR"] = os.path.join(ROOT, ".build", "ccache")
    env["CCACHE_BASEDIR"] = REPO
    env["CCACHE_MAXSIZE"] = "4G"
    env["CCACHE_SLOPPINESS"] = "time_macros"
    env["CCACHE_NOHASHDIR"] = "1"
    return env


COMPILER = {"asan": "clang++", "asan-novptr": "clang++"}      # flavor -> C++ compiler (default g++)


def _compile_one(src, obj, flags, cxx="g++"):
    os.makedirs(os.path.dirname(obj), exist_ok=True)
    tmp = "%s.%d.tmp.o" % (obj, os.getpid())
    cmd = ["ccache", cxx, "-std=c++17", "-w"] + flags + DEFS + INCS + ["-c", src, "-o", tmp]
    t0 = time.time()
    p = sh(cmd, env=_ccenv(), capture_output=True, text=True)
    if p.returncode == 0:
        os.replace(tmp, obj)      # atomic: concurrent checks may build the same object
    return src, p.returncode, p.stderr[-4000:], time.time() - t0


def build(target, srcs, flavor="asan", libs=(), extra_flags=(), harness_srcs=()):
    """Compile `srcs` (paths relative to /repo) and `harness_srcs` (relative to
    /verif/harness) with ccache -- content-hashed, so whatever is in /repo's
    working tree *now* is what gets built -- and link /verif/.build/bin/<target>.
    Returns the executable path."""
    flavor = os.environ.get("VERIF_FORCE_FLAVOR", flavor)     # tools/coverage.sh: every harness as a gcov build
    flags = FLAVORS[flavor] + list(extra_flags)
    objdir = os.path.join(BUILD, "obj", flavor)
    jobs = []
    for s in srcs:
        o = os.path.join(objdir, "repo", s.replace("/", "__") + ".o")
        jobs.append((os.path.join(REPO, s), o))
    for s in harness_srcs:
        tag = hashlib.sha1(" ".join(extra_flags).encode()).hexdigest()[:6] if extra_flags else "x"
        o = os.path.join(objdir, "harness", s.replace("/", "__") + "." + tag + ".o")
        jobs.append((os.path.join(ROOT, "harness", s), o))
    t0 = time.time()
    with cf.ThreadPoolExecutor(max_workers=NPROC) as ex:
        res = list(ex.map(lambda j: _compile_one(j[0], j[1], flags, COMPILER.get(flavor, "g++")), jobs))
    for src, rc, err, dt in res:
        if rc != 0:
            raise Broken("compile failed: %s\n%s" % (src, err))
    objs = [o for _, o in jobs]
    h = hashlib.sha1()
    for o in objs:
        with open(o, "rb") as f:
            h.update(hashlib.sha1(f.read()).digest())
    h.update(" ".join([COMPILER.get(flavor, "g++")] + flags + list(libs)).encode())
    exe = os.path.join(BUILD, "bin", target)
    stamp = exe + ".stamp"
    os.makedirs(os.path.dirname(exe), exist_ok=True)
    want = h.hexdigest()
    have = open(stamp).read() if os.path.exists(stamp) and os.path.exists(exe) else ""
    if want != have:
        link_flags = [f for f in flags if f.startswith("-fsanitize") or f.startswith("-fno-sanitize") or f == "--coverage"]
        tmpexe = "%s.%d.tmp" % (exe, os.getpid())
        cmd = [COMPILER.get(flavor, "g++")] + link_flags + objs + ["-o", tmpexe] + list(libs) + ["-ldl", "-lpthread"]
        p = sh(cmd, capture_output=True, text=True)
        if p.returncode != 0:
            raise Broken("link failed: %s\n%s" % (target, p.stderr[-4000:]))
        os.replace(tmpexe, exe)
        open(stamp, "w").write(want)
    log("[build] %s (%s) %d TUs %.1fs" % (target, flavor, len(jobs), time.time() - t0))
    return exe


# --------------------------------------------------------------------------
# TLC
# --------------------------------------------------------------------------

class TLCResult:
    def __init__(self):
        self.rc = None
        self.out = ""
        self.generated = 0
        self.distinct = 0
        self.depth = 0
        self.printed = []       # values printed with PrintT as raw strings
        self.violated = None    # name of violated invariant / property
        self.coverage = {}      # action -> (taken, generated)
        self.wall = 0.0
        self.error_trace = ""

    @property
    def ok(self):
        return self.rc == 0


_TLC_JAR = "/opt/veriftools/tla/tla2tools.jar:/opt/veriftools/tla/CommunityModules-deps.jar"


def tlc(module, cfg=None, cwd=None, env=None, workers=None, simulate=None, depth=None,
        seed=None, coverage=False, timeout=1100, xmx="8g", deadlock=True, dfs=False,
        extra=()):
    """Run TLC on <cwd>/<module>.tla with <cfg>. Returns TLCResult.
    rc 0 = no error; 12/13 = safety/liveness violation; other = tool failure."""
    cwd = cwd or SPECS
    import uuid
    meta = os.path.join(BUILD, "tlc", "%s-%d-%s" % (module, os.getpid(), uuid.uuid4().hex[:12]))
    os.makedirs(meta, exist_ok=True)
    jopts = ["-XX:+UseParallelGC", "-Xmx" + xmx, "-Xss64m",
             "-DTLA-Library=" + os.path.join(SPECS, "lib")]
    if dfs:
        jopts.append("-Dtlc2.tool.queue.IStateQueue=StateDeque")
    cmd = ["java"] + jopts + ["-cp", _TLC_JAR, "tlc2.TLC", "-metadir", meta,
                              "-workers", str(workers or "auto"), "-noGenerateSpecTE"]
    if cfg:
        cmd += ["-config", cfg]
    if simulate:
        cmd += ["-simulate", "num=%d" % simulate]
    if depth:
        cmd += ["-depth", str(depth)]
    if seed is not None:
        cmd += ["-seed", str(seed)]
    if coverage:
        cmd += ["-coverage", "1"]
    if not deadlock:
        cmd += ["-deadlock"]
    cmd += list(extra) + [module + ".tla"]
    e = dict(os.environ)
    if env:
        e.update({k: str(v) for k, v in env.items()})
    r = TLCResult()
    t0 = time.time()
    try:
        p = sh(cmd, cwd=cwd, env=e, capture_output=True, text=True, timeout=timeout)
        r.rc, r.out = p.returncode, p.stdout + p.stderr
    except subprocess.TimeoutExpired as ex:
        r.rc, r.out = 124, (ex.stdout or b"").decode(errors="replace") if isinstance(ex.stdout, bytes) else (ex.stdout or "")
    r.wall = time.time() - t0
    shutil.rmtree(meta, ignore_errors=True)
    m = None
    for m in re.finditer(r"(\d+) states generated, (\d+) distinct states found", r.out):
        pass
    if m:
        r.generated, r.distinct = int(m.group(1)), int(m.group(2))
    m = re.search(r"depth of the complete state graph search is (\d+)", r.out)
    if m:
        r.depth = int(m.group(1))
    m = re.search(r"Invariant (\S+) is violated", r.out)
    if m:
        r.violated = m.group(1)
    m = re.search(r"(Action property|Temporal properties|property) (\S+)? ?(was|were) violated", r.out)
    if m and not r.violated:
        r.violated = m.group(2) or "temporal"
    if r.violated:
        i = r.out.find("Error: ")
        r.error_trace = r.out[i:i + 6000]
    for m in re.finditer(r"^<(\w+) line \d+, col \d+ to line \d+, col \d+ of module \w+>: (\d+):(\d+)", r.out, re.M):
        a = m.group(1)
        t, g = int(m.group(2)), int(m.group(3))
        o = r.coverage.get(a, (0, 0))
        r.coverage[a] = (o[0] + t, o[1] + g)
    return r


def tlc_must_pass(res, what):
    """Map a TLCResult of a *design* check: violation of the spec's own invariant
    on the abstract model is a broken spec (exit 2), not a code violation."""
    if res.rc != 0:
        raise Broken("%s: TLC rc=%s violated=%s\n%s" % (what, res.rc, res.violated, res.out[-3000:]))


def printed_json(res, tag):
    """Extract records printed by the spec as  PrintT(<<"TAG", ToJson(x)>>) ."""
    out = []
    pat = re.compile(r'^<<"' + re.escape(tag) + r'", "(.*)">>$')
    for line in res.out.splitlines():
        m = pat.match(line)
        if m:
            s = m.group(1).replace('\\"', '"').replace("\\\\", "\\")
            out.append(json.loads(s))
    return out


# --------------------------------------------------------------------------
# trace validation
# --------------------------------------------------------------------------

def validate_trace(trace_module, cfg, trace_path, cwd=None, env=None, timeout=1100, xmx="8g",
                   dfs=False):
    """Validate an ndjson trace against a Trace*.tla spec.  The spec must define
    a POSTCONDITION that fails (TLC rc != 0) unless every line was consumed, and
    must PrintT(<<"REJECT", ToJson(...)>>)-style info is optional.  Returns
    (accepted: bool, TLCResult).  Tool failures raise Broken."""
    e = {"TRACE": trace_path}
    if env:
        e.update(env)
    r = tlc(trace_module, cfg=cfg, cwd=cwd, env=e, workers=1, timeout=timeout, xmx=xmx,
            deadlock=False, dfs=dfs)
    if r.rc == 0:
        return True, r
    # rc 12 = safety violation (invariant), 13 = liveness; postcondition failure
    # is reported as rc 1 with "Postcondition ... violated" hmm: check text.
    if r.violated or "ostcondition" in r.out or "TRACE-REJECTED" in r.out:
        return False, r
    raise Broken("trace validation tool failure (%s) rc=%s\n%s" % (trace_module, r.rc, r.out[-3000:]))


def validate_parallel(trace_module, cfg, records, cwd, tag, chunks=None, timeout=1100, xmx="3g"):
    """For trace specs whose records are independent (one observation per line):
    split the records over several TLC processes.  Returns (list of TLCResult)."""
    chunks = chunks or NPROC
    n = len(records)
    if n == 0:
        return []
    chunks = max(1, min(chunks, n))
    d = os.path.join(BUILD, "traces")
    os.makedirs(d, exist_ok=True)
    paths = []
    for k in range(chunks):
        p = os.path.join(d, "%s-%d-%d.ndjson" % (tag, os.getpid(), k))
        with open(p, "w") as f:
            for r in records[k::chunks]:
                f.write(json.dumps(r) + "\n")
        paths.append(p)
    def one(p):
        return tlc(trace_module, cfg=cfg, cwd=cwd, env={"TRACE": p}, workers=1, timeout=timeout, xmx=xmx, deadlock=False)
    with cf.ThreadPoolExecutor(max_workers=chunks) as ex:
        res = list(ex.map(one, paths))
    for p, r in zip(paths, res):
        if r.rc != 0 or len(printed_json(r, "DONE")) != 1:
            raise Broken("trace validation failed (%s, %s) rc=%s\n%s" % (trace_module, p, r.rc, r.out[-3000:]))
        os.remove(p)
    return res


# --------------------------------------------------------------------------
# evidence / findings / verdicts
# --------------------------------------------------------------------------

def seed():
    try:
        return int(os.environ.get("VERIF_SEED", "1"))
    except ValueError:
        return 1


def write_evidence(pid, tier, coverage, wall, violations=0, assumptions=(), level="model_checking"):
    os.makedirs(EVID, exist_ok=True)
    ev = {"property_id": pid, "tier": tier, "seed": seed(), "level": level,
          "coverage": coverage, "assumptions": list(assumptions),
          "wall_s": round(wall, 2), "violations": violations}
    with open(os.path.join(EVID, pid + ".json"), "w") as f:
        json.dump(ev, f, indent=1, sort_keys=True)
        f.write("\n")


def known_findings(pid):
    p = os.path.join(ROOT, "known_findings.json")
    if not os.path.exists(p):
        return []
    with open(p) as f:
        kf = json.load(f)
    return [k for k in kf.get("known", []) if k["property"] == pid]


def outdir(pid):
    d = os.path.join(OUT, pid)
    os.makedirs(d, exist_ok=True)
    return d


def save_violation(pid, name, payload):
    d = outdir(pid)
    p = os.path.join(d, "viol-%s.json" % name)
    with open(p, "w") as f:
        json.dump(payload, f, indent=1)
    return p


class Verdict:
    """Collects violations; matches them against known findings; prints the
    interface lines and returns the exit code."""

    def __init__(self, pid):
        self.pid = pid
        self.viol = []      # (key, description, payload)
        self.known = known_findings(pid)
        import glob
        for f in glob.glob(os.path.join(outdir(pid), "viol-*.json")):   # replay files of earlier runs
            os.remove(f)

    def violation(self, key, desc, payload=None):
        self.viol.append((key, desc, payload or {}))

    def finish(self):
        """Returns (exit_code, n_new_violations)."""
        new = []
        hit = {}
        try:    # full list of this run's violation keys (for triage; not an interface file)
            with open(os.path.join(outdir(self.pid), "violation-keys.json"), "w") as f:
                json.dump(sorted(set(k for k, _, _ in self.viol)), f, indent=0)
        except OSError:
            pass
        for key, desc, payload in self.viol:
            k = next((k for k in self.known if re.fullmatch(k["match"], key)), None)
            if k is not None:
                hit.setdefault(k["id"], (k, []))[1].append(key)
            else:
                new.append((key, desc, payload))
        for kid, (k, keys) in sorted(hit.items()):
            log("KNOWN-FINDING: property=%s %s [%s; %d case(s), e.g. %s]" %
                (self.pid, k["what"], kid, len(keys), keys[0]))
        seen = set()
        for key, desc, payload in new[:20]:
            if key in seen:
                continue
            seen.add(key)
            safe = re.sub(r"[^A-Za-z0-9_.-]+", "_", key)[:80]
            p = save_violation(self.pid, safe, {"key": key, "desc": desc, "payload": payload})
            log("VIOLATION property=%s replay=%s" % (self.pid, p))
            log("  " + desc[:600])
        if len(new) > 20:
            log("  ... %d more violations" % (len(new) - 20))
        return (1 if new else 0), len(new)


def run_harness(exe, args, timeout=600, env=None, stdin=None, cwd=None):
    e = dict(os.environ)
    e["ASAN_OPTIONS"] = "abort_on_error=0:detect_leaks=0:exitcode=99:allocator_may_return_null=1"
    e["UBSAN_OPTIONS"] = "print_stacktrace=1:halt_on_error=1:exitcode=98"
    if env:
        e.update(env)
    try:
        p = sh([exe] + list(args), capture_output=True, text=True, timeout=timeout, env=e,
               input=stdin, cwd=cwd)
        return p.returncode, p.stdout, p.stderr
    except subprocess.TimeoutExpired as ex:
        return 124, "", "timeout"


def sanitize_trace(path, rc=0, stderr=""):
    """Make a harness-written ndjson file loadable whatever happened to the
    harness: an unparsable (truncated) line becomes an explicit Crash record,
    and a non-zero exit status appends one.  Returns the parsed lines."""
    out = []
    if os.path.exists(path):
        for line in open(path, errors="replace"):
            line = line.strip()
            if not line:
                continue
            try:
                out.append(json.loads(line))
            except ValueError:
                out.append({"e": "Crash", "what": "unparsable trace line", "text": line[:120]})
    if rc != 0:
        out.append({"e": "Crash", "what": "harness exit status %s" % rc, "stderr": (stderr or "")[-1500:]})
    with open(path, "w") as f:
        for e in out:
            f.write(json.dumps(e) + "\n")
    return out


def main_wrapper(pid, fn):
    """fn(tier) -> exit code. Maps Broken to exit 2."""
    tier = os.environ.get("VERIF_TIER", "quick")
    if len(sys.argv) > 1 and sys.argv[1] in ("quick", "thorough"):
        tier = sys.argv[1]
    try:
        rc = fn(tier)
    except Broken as b:
        log("BROKEN property=%s: %s" % (pid, b))
        rc = 2
    sys.exit(rc)
