#!/bin/sh
# tools/mkmutant.sh <out.diff> <repo-relative file> <sed expression>   -> unified diff a/.. b/..
d=$(mktemp -d /tmp/mk-XXXX); mkdir -p $d/a/$(dirname $2) $d/b/$(dirname $2)
cp /repo/$2 $d/a/$2; cp /repo/$2 $d/b/$2; sed -i "$3" $d/b/$2
(cd $d && diff -u a/$2 b/$2 > out.diff); cp $d/out.diff $1; rm -rf $d
[ -s $1 ] || { echo "EMPTY DIFF $1"; exit 1; }
