"""Normalise the records of a cvt:writegraph export (JSON Lines) into the event
vocabulary of specs/valcvt/Graph.tla.  Pure re-encoding: which variables a
constraint record mentions, which node ranges a link record names."""
import json, re


def con_vars(d):
    """all variable indices mentioned in a constraint's 'data' record"""
    out = []
    def walk(x, key=None):
        if isinstance(x, dict):
            for k, v in x.items():
                if k in ("vars", "vars1", "vars2", "args") and isinstance(v, list):
                    out.extend(int(i) for i in v if isinstance(i, (int, float)))
                elif k in ("res_var", "bin_var", "compl_var", "var") and isinstance(v, (int, float)):
                    if v >= 0:
                        out.append(int(v))
                else:
                    walk(v, k)
        elif isinstance(x, list):
            for v in x:
                walk(v, key)
    walk(d)
    return out


def node_ranges(nodes):
    res = []
    for nd in nodes:
        for name, rng in nd.items():
            if isinstance(rng, list):
                lo, hi = int(rng[0]), int(rng[1])
            else:
                lo = hi = int(rng)
            m = re.fullmatch(r"dest_cons\((\d+)\)", name)
            res.append({"n": name if not m else "dest_cons", "lo": lo, "hi": hi, "grp": int(m.group(1)) if m else -1})
    return res


def normalise(text):
    evs = []
    for ln, line in enumerate(text.split("\n")):
        if not line.strip():
            continue
        try:
            r = json.loads(line)
            if not isinstance(r, dict):
                raise ValueError("not an object")
        except ValueError:
            evs.append({"k": "badjson", "line": ln + 1})
            continue
        if "COMMENT" in r:
            evs.append({"k": "comment"})
        elif "VAR_index" in r:
            evs.append({"k": "var", "i": int(r["VAR_index"]), "nl": int(r.get("is_from_nl", 0))})
        elif "NL_OBJECTIVE_index" in r:
            evs.append({"k": "nlobj", "i": int(r["NL_OBJECTIVE_index"])})
        elif "OBJECTIVE_index" in r:
            evs.append({"k": "obj", "i": int(r["OBJECTIVE_index"])})
        elif "NL_CON_TYPE" in r:
            evs.append({"k": "nlcon", "i": int(r["index"])})
        elif "NL_COMMON_EXPR_index" in r:
            evs.append({"k": "comment"})
        elif "CON_GROUP" in r:
            evs.append({"k": "group", "t": r["CON_TYPE"], "g": int(r["CON_GROUP_index"])})
        elif "CON_TYPE" in r and "data" in r:
            evs.append({"k": "con", "t": r["CON_TYPE"], "i": int(r["index"]), "vars": con_vars(r["data"])})
        elif "CON_TYPE" in r and "final" in r:
            evs.append({"k": "status", "t": r["CON_TYPE"], "i": int(r["index"]), "unused": int(r["unused"]),
                        "bridged": int(r["bridged"]), "final": int(r["final"])})
        elif "link_index" in r:
            evs.append({"k": "link", "src": node_ranges(r["src_nodes"]), "dest": node_ranges(r["dest_nodes"])})
        else:
            evs.append({"k": "other:" + ",".join(sorted(r.keys()))[:60]})
    return evs


def api_con_vars(d):
    """variables of a constraint as received by the recording ModelAPI (rec 'd' record), same order rule as con_vars"""
    out = []
    k = d["k"]
    def alg(a):
        return [v for _, v in a["lin"]] + [x for _, v1, v2 in a["quad"] for x in ()] 
    if k == "alg":
        out = [v for _, v in d["lin"]] + [v1 for _, v1, _ in d["quad"]] + [v2 for _, _, v2 in d["quad"]]
    elif k == "ind":
        out = [d["b"]] + [v for _, v in d["con"]["lin"]] + [v1 for _, v1, _ in d["con"]["quad"]] + [v2 for _, _, v2 in d["con"]["quad"]]
    elif k in ("linfunc", "quadfunc"):
        e = d["expr"]
        out = [d["res"]] + [v for _, v in e["lin"]] + [v1 for _, v1, _ in e["quad"]] + [v2 for _, _, v2 in e["quad"]]
    elif k == "cond":
        out = [d["res"]] + [v for _, v in d["con"]["lin"]] + [v1 for _, v1, _ in d["con"]["quad"]] + [v2 for _, _, v2 in d["con"]["quad"]]
    elif k == "func":
        out = ([d["res"]] if d["res"] >= 0 else []) + list(d["args"])
    elif k == "sos":
        out = list(d["vars"])
    elif k == "compl":
        e = d["expr"]
        out = [v for _, v in e["lin"]] + [v1 for _, v1, _ in e["quad"]] + [v2 for _, _, v2 in e["quad"]] + [d["var"]]
    return sorted(out)
