#!/bin/bash
# $1 = round suffix letter (c), $2 = round number (3); rest = ids
L=$1; N=$2; shift 2
for p in "$@"; do ( w=/tmp/seed-${p}$L; s=/verif/seeded/$p-$N; cd $w
  git diff --quiet && git apply $s/patch.diff
  timeout 1500 bash $s/demo/run.sh $w >/tmp/seed-out/$p.$L.with.log 2>&1; a=$?
  [ -d $w/_build ] || cmake -G Ninja -B $w/_build -S $w -DCMAKE_BUILD_TYPE=Release >/dev/null 2>&1
  python3 /verif/tools/baseline_check.py $w/_build > /tmp/seed-out/$p.$L.baseline.log 2>&1; c=$?
  git apply -R $s/patch.diff
  timeout 1500 bash $s/demo/run.sh $w >/tmp/seed-out/$p.$L.without.log 2>&1; b=$?
  echo "$p-$N demo-with=$a demo-without=$b baseline-rc=$c $(tail -1 /tmp/seed-out/$p.$L.baseline.log | head -c 120)" ) & done; wait
