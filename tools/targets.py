"""Harness build targets (all built from /repo's current working tree)."""
from vlib import build, LIBMP_SRCS, NLW2_SRCS

DRV_SRCS = ["drv/main.cc", "drv/scripted_backend.cc", "drv/scripted_modelapi_connect.cc", "drv/model_mgr_std_pb.cc"]

def get(name):
    if name == "h_safeint":
        return build("h_safeint", [], "asan", harness_srcs=["h_safeint.cc"])
    if name == "h_drv":
        return build("h_drv", LIBMP_SRCS, "plain", harness_srcs=DRV_SRCS)
    raise KeyError(name)

ALL = ["h_safeint", "h_drv"]
