import os
"""Harness build targets (all built from /repo's current working tree).
Each family registers its targets in tools/targets_<family>.py as
    TARGETS = {"h_name": lambda: build("h_name", [repo srcs], "asan", harness_srcs=[...], libs=[...])}
"""
import glob, importlib, os, sys
from vlib import build, LIBMP_SRCS, NLW2_SRCS

DRV_SRCS = ["drv/main.cc", "drv/scripted_backend.cc", "drv/scripted_modelapi_connect.cc", "drv/model_mgr_std_pb.cc"]

TARGETS = {
    "h_sizes": lambda: build("h_sizes", ["src/expr.cc", "src/expr-info.cc", "src/format.cc", "src/problem.cc", "src/nl-reader.cc", "src/posix.cc", "src/os.cc"], "asan", harness_srcs=["h_sizes.cc"]),
    "h_zzi": lambda: build("h_zzi", ["src/mp/flat/encodings.cpp"], "asan", harness_srcs=["h_zzi.cc"]),
    "h_safeint": lambda: build("h_safeint", [], "asan", harness_srcs=["h_safeint.cc"]),
    "h_drv": lambda: build("h_drv", LIBMP_SRCS, "plain", harness_srcs=DRV_SRCS),
    # the same driver under ASan+UBSan (memory errors on the driver paths: names files, suffix output, ...)
    "h_drv_cov": lambda: build("h_drv_cov", LIBMP_SRCS, "cov", harness_srcs=DRV_SRCS),
    "h_drv_asan": lambda: build("h_drv_asan", LIBMP_SRCS, "asan-novptr", harness_srcs=DRV_SRCS),
}

_here = os.path.dirname(os.path.abspath(__file__))
for _f in sorted(glob.glob(os.path.join(_here, "targets_*.py"))):
    _m = importlib.import_module(os.path.basename(_f)[:-3])
    TARGETS.update(_m.TARGETS)

def get(name):
    # VERIF_DRV_FLAVOR=cov: run the driver-based checks on the coverage build (tools/coverage.sh)
    if name in ("h_drv", "h_drv_asan") and os.environ.get("VERIF_DRV_FLAVOR") == "cov":
        name = "h_drv_cov"
    return TARGETS[name]()

ALL = sorted(t for t in TARGETS if t != "h_drv_cov")   # the coverage build is a development aid
