from vlib import build, LIBMP_SRCS
TARGETS = {
    "h_bounds": lambda: build("h_bounds", LIBMP_SRCS, "plain", harness_srcs=["h_bounds.cc"]),
}
