#!/bin/sh
# validate MANIFEST.json and every evidence file against the schemas
cd "$(dirname "$0")/.."
python3-vt - <<'PY'
import json, jsonschema, glob, sys
ok = True
try:
    jsonschema.validate(json.load(open('MANIFEST.json')), json.load(open('/root/.vp/MANIFEST.schema.json'))); print('MANIFEST ok')
except Exception as e:
    ok = False; print('MANIFEST INVALID', str(e)[:500])
es = json.load(open('/root/.vp/EVIDENCE.schema.json'))
for f in sorted(glob.glob('evidence/*.json')):
    try:
        jsonschema.validate(json.load(open(f)), es); print(f, 'ok')
    except Exception as e:
        ok = False; print(f, 'INVALID', str(e)[:500])
sys.exit(0 if ok else 1)
PY
