"""Build targets of the SOL / easy-model family (C05, C14, C08)."""
from vlib import build

# the SOL writer (include/mp/sol.h is a template; src/sol.cc has WriteMessage) and what it needs
_SOLW = ["src/sol.cc", "src/format.cc", "src/posix.cc", "src/os.cc"]
# the SOL reader is header-only (sol-reader2.hpp) on top of nl-utils.cc
_SOLR = ["nl-writer2/src/nl-utils.cc"]
# easy model API: NLModel/NLSolver (+ the NL writer), and mp's NL reader to read the files back
_EASY = ["nl-writer2/src/nl-solver.cc", "nl-writer2/src/nl-utils.cc", "nl-writer2/src/nl-writer2.cc",
         "nl-writer2/src/dtoa.cc", "nl-writer2/src/nl-model-c.cc", "nl-writer2/src/nl-solver-c.cc",
         "src/nl-reader.cc", "src/expr-info.cc", "src/format.cc", "src/posix.cc", "src/os.cc", "src/sol.cc"]

TARGETS = {
    "h_solrt": lambda: build("h_solrt", _SOLW + _SOLR, "asan", harness_srcs=["h_solrt.cc"]),
    "h_solread": lambda: build("h_solread", _SOLW + ["nl-writer2/src/nl-solver.cc", "nl-writer2/src/nl-utils.cc", "nl-writer2/src/nl-writer2.cc", "nl-writer2/src/dtoa.cc",
                                                        "nl-writer2/src/nl-solver-c.cc", "nl-writer2/src/nl-model-c.cc"],
                               "asan", harness_srcs=["h_solread.cc"]),
    "h_easy": lambda: build("h_easy", _EASY, "asan", harness_srcs=["h_easy.cc"], libs=["-lstdc++fs"]),
}
