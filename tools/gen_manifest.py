#!/usr/bin/env python3
"""Single source of truth for MANIFEST.json.  Run after adding a check."""
import json, os
ROOT = os.path.dirname(os.path.dirname(os.path.abspath(__file__)))
ALL = ["C%02d" % i for i in range(1, 21)]

CHECKS = {
 "C10": dict(
   engine="driver",
   technique="TLA+ spec SolveCodes.tla (documented ranges, predicates, run as a state machine); every code -200..999 is run through a real driver with a scripted backend and each run is trace-validated by TLC; MCSolveCodes design check",
   text="Complete enumeration of the status-code space (1200 codes; all 8 primal/dual/objective answer shapes in the thorough tier, boundary codes + sample in quick) executed end-to-end through BackendApp/StdBackend/.sol writer; TLC validates each run (library predicates, IIS/ray steps taken, objective shown, code written to .sol, -! table incl. the place of driver-specific codes registered at the first / last code of a class) against the specification. Also: every code with two objectives under obj:multi=1 (native multi-objective backend), and codes 2..999 delivered by exception (StdBackend::Abort); and the further solutions written under sol:stub by a MULTISOL backend (each <stub>N.sol readable and carrying the reported code).",
   note="Trusts the scripted backend to behave like a solver driver (it only calls SetStatus / Abort and returns the scripted vectors), the strict .sol parser in tools/nlgen.py, TLC.",
   design="5/C10"),
 "C17": dict(
   engine="core",
   technique="TLA+ spec SafeInt.tla (+BigInt.tla) as oracle; TLC validates the trace recorded from the real templates (complete 8-bit enumeration, 16-bit boundaries, wide types via byte-limb arithmetic); TLC design check MCSafeInt cross-checks the oracle; use sites: SizeUse.tla (node size of the expression factory from a file-provided count; MCSizeUse design check with a wrapping-arithmetic self-test) and TLC validation of the allocation requests recorded from every Begin* of the real ExprFactory (h_sizes)",
   text="Every operand pair of the 8-bit signed/unsigned instantiations of the same templates is executed and each result is validated by TLC against the specification (exhaustive); 16-bit, int, unsigned, long, size_t at boundary and seeded pairs; all narrowing source/target pairs. Complete for the small instantiations, sampled for the wide ones. Use sites: 312 calls of BeginSum/Count/NumberOf/Call/Iterated/IteratedLogical/Pairwise/PLTerm with counts 1 .. 2^31-1 around every power of two from 2^24: the bytes requested from operator new cover the node, or OverflowError / bad_alloc is raised; the same for blocks of variables / common expressions added to a non-empty mp::Problem (old + n has to fit an int).",
   note="Trusts g++'s instantiation of the templates for int8_t/int16_t to follow the same code paths as for int/long (integer promotion differs, which is why wide types are also run under UBSan), TLC, and the BigInt module (cross-checked against TLC's native integers by MCSafeInt).",
   design="5/C17"),
}

def main():
    import glob
    for f in sorted(glob.glob(os.path.join(ROOT, "checks", "c*.meta.json"))):
        meta = json.load(open(f))
        CHECKS[meta["property_id"]] = meta
    checks = []
    for pid in ALL:
        if pid not in CHECKS: continue
        c = CHECKS[pid]
        checks.append({
            "property_id": pid,
            "quick_cmd": "./check %s quick" % pid,
            "thorough_cmd": "./check %s thorough" % pid,
            "evidence_file": "evidence/%s.json" % pid,
            "replay_cmd_template": "./check %s --replay {path}" % pid,
            "engine": c.get("engine", "core"),
            "level_claimed": {"category": c.get("category", "model_checking"), "text": c["text"], "design_ref": "DESIGN.md section " + c["design"]},
            "level_note": c["note"],
            "technique": c["technique"],
        })
    na = [{"property_id": p, "reason": NA.get(p, "check not built yet in this round; see DESIGN.md Appendix B for the order")} for p in ALL if p not in CHECKS]
    m = {
        "version": 1,
        "setup_cmd": "./setup.sh",
        "hooks": {"guard": "AMPL_MP_VERIF",
                  "enable": "harnesses compile /repo sources with -DAMPL_MP_VERIF (tools/vlib.py DEFS)",
                  "baseline_off_cmd": "python3 tools/baseline_check.py",
                  "source_commits": HOOK_COMMITS, "add_only": True},
        "engines": ENGINES + [
            {"name": "core", "path": "specs/core", "serves_properties": ["C11", "C15", "C17", "C18"], "kind_free_text": "TLA+ specs + TLC trace validation of h_core harnesses (ASan/UBSan)"},
            {"name": "driver", "path": "harness/drv", "serves_properties": ["C09", "C10", "C12"], "kind_free_text": "real BackendApp driver with recording ModelAPI + scripted backend; runs validated by TLC against specs/core, specs/driver"},
        ],
        "checks": checks,
        "not_applicable": na,
        "notes": "All checks: ./check <id> quick|thorough. Specs under specs/, harnesses under harness/, design in DESIGN.md.",
    }
    with open(os.path.join(ROOT, "MANIFEST.json"), "w") as f:
        json.dump(m, f, indent=1); f.write("\n")

NA = {}
HOOK_COMMITS = ["df8d1dc verif hook: call-out after each store of SignalHandler ctor / SetHandler / dtor"]
ENGINES = [
    {"name": "flat", "path": "specs/flat", "serves_properties": ["C01", "C06", "C07"], "kind_free_text": "FlatSem/Reform/Bounds/SolCheck TLA+ specs; cases generated by TLC (GenNL, GenBounds); real converter driven through h_drv / h_bounds; records validated by TLC"},
    {"name": "nl", "path": "specs/nl", "serves_properties": ["C02", "C03", "C05", "C08", "C14"], "kind_free_text": "NLModel/NLProtocol/SolFormat/EasyModel TLA+ specs; TLC-generated models and solutions; real NL/SOL writers and readers under ASan/UBSan; callback traces validated by TLC"},
    {"name": "num", "path": "specs/pl", "serves_properties": ["C13", "C16"], "kind_free_text": "PLShape / FuncCall TLA+ specs for the discrete clauses; real PLApproximate and amplgsl bindings (funcadd.h shim)"},
]
if __name__ == "__main__":
    main()
