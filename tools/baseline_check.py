#!/usr/bin/env python3
"""Rebuild /repo/_build (guard AMPL_MP_VERIF is OFF there) and compare the
passing gtest cases + ctest entries with /root/.vp/BASELINE.json stable_pass."""
import glob, json, os, subprocess, sys, tempfile
import xml.etree.ElementTree as ET
B = sys.argv[1] if len(sys.argv) > 1 else "/repo/_build"
r = subprocess.run(["cmake", "--build", B, "-j16"], capture_output=True, text=True)
if r.returncode != 0:
    print(r.stdout[-3000:], r.stderr[-3000:]); sys.exit(2)
passed = set()
ct = subprocess.run(["ctest", "--test-dir", B, "-j8", "--timeout", "900"], capture_output=True, text=True)
for line in ct.stdout.splitlines():
    if "Passed" in line and "Test" in line:
        name = line.split(":", 1)[1].split()[0]
        passed.add("%s::%s" % (name, name))
tests = [l.split(":")[1].strip() for l in subprocess.run(["ctest", "--test-dir", B, "-N"], capture_output=True, text=True).stdout.splitlines() if l.strip().startswith("Test") and "#" in l]
for t in tests:
    exe = os.path.join(B, "bin", t)
    if not os.path.exists(exe): continue
    with tempfile.TemporaryDirectory() as td:
        x = os.path.join(td, "r.xml")
        try:
            subprocess.run([exe, "--gtest_output=xml:" + x], capture_output=True, timeout=900, cwd=os.path.join(B, "bin"))
        except subprocess.TimeoutExpired:
            continue
        try:
            root = ET.parse(x).getroot()
        except Exception:
            continue
        for s_ in root.iter("testsuite"):
            for c in s_.iter("testcase"):
                if c.find("failure") is None and c.get("status") == "run":
                    passed.add("%s::%s" % (s_.get("name"), c.get("name")))
base = json.load(open("/root/.vp/BASELINE.json"))
missing = [t for t in base["stable_pass"] if t not in passed]
print("baseline stable_pass=%d, passing now=%d, missing=%d" % (len(base["stable_pass"]), len(passed), len(missing)))
for m in missing[:50]: print("  MISSING", m)
sys.exit(1 if missing else 0)
