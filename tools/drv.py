"""Run the scripted driver (h_drv) on many cases in parallel and collect what
is observable: exit status, stdout/stderr, the recorded ModelAPI/backend
events, and the .sol file parsed strictly."""
import concurrent.futures as cf
import json, os, shutil, subprocess, time
from vlib import BUILD, NPROC
import nlgen


def run_case(exe, rundir, case, timeout=60, keep=False):
    """case: {"id", "model" (nlgen dict) | "nl_text"/"nl_bytes", "answer": str|None,
              "opts": [..], "env": {..}, "args": [..] (default ["-AMPL"])}"""
    d = os.path.join(rundir, str(case["id"]))
    shutil.rmtree(d, ignore_errors=True)
    os.makedirs(d)
    # the stub as AMPL passes it (no .nl); "stub_name" may contain dots and a sub-directory ("run.2/m.v2")
    stub = os.path.join(d, case.get("stub_name", "m"))
    os.makedirs(os.path.dirname(stub), exist_ok=True)
    info = None
    if "model" in case:
        info = nlgen.write_nl(case["model"], stub)
    elif "nl_bytes" in case and not case.get("no_nl"):
        with open(stub + ".nl", "wb") as f:
            f.write(case["nl_bytes"])
    if case.get("mk_sol_dir"):          # make the result path unwritable (works for root too)
        os.makedirs(stub + ".sol")
    if case.get("sol_symlink"):         # result path that opens but cannot be written (e.g. /dev/full)
        os.symlink(case["sol_symlink"], stub + ".sol")
    for name, txt in case.get("extra_files", {}).items():
        with open(os.path.join(d, name), "w") as f:
            f.write(txt)
    for ext, txt in case.get("files", {}).items():
        with open(stub + ext, "w", newline="") as f:
            f.write(txt)
    env = dict(os.environ)
    env.setdefault("ASAN_OPTIONS", "abort_on_error=0:detect_leaks=0:exitcode=99:allocator_may_return_null=1")
    env.setdefault("UBSAN_OPTIONS", "print_stacktrace=1:halt_on_error=1:exitcode=98")
    env["VERIF_REC"] = os.path.join(d, "rec.ndjson")
    if case.get("answer") is not None:
        with open(os.path.join(d, "ans.txt"), "w") as f:
            f.write(case["answer"])
        env["VERIF_ANSWER"] = os.path.join(d, "ans.txt")
    else:
        env.pop("VERIF_ANSWER", None)
    for k in ("mp_options", "scripted_options", "h_drv_options"):
        env.pop(k, None)
    env.update(case.get("env", {}))
    args = [exe, stub] + case.get("args", ["-AMPL"]) + list(case.get("opts", []))
    t0 = time.time()
    try:
        if case.get("ignore_signals"):      # started with SIGINT / SIGTERM ignored (as a shell's background job is):
            # through a shell that ignores them and execs the driver (no preexec_fn: this runs in threads)
            args = ["/bin/sh", "-c", "trap '' INT TERM; exec \"$0\" \"$@\""] + args
        p = subprocess.run(args, capture_output=True, timeout=timeout, env=env, cwd=d)
        rc, so, se = p.returncode, p.stdout.decode("latin-1"), p.stderr.decode("latin-1")
        hang = False
    except subprocess.TimeoutExpired:
        rc, so, se, hang = -999, "", "", True
    res = {"id": case["id"], "rc": rc, "stdout": so, "stderr": se, "hang": hang, "nlinfo": info,
           "wall": time.time() - t0, "dir": d}
    rec = []
    rp = env["VERIF_REC"]
    if os.path.exists(rp):
        for line in open(rp, errors="replace"):
            line = line.strip()
            if line:
                try:
                    rec.append(json.loads(line))
                except ValueError:
                    rec.append({"e": "BadRecLine", "text": line[:200]})
    res["rec"] = rec
    sp = stub + ".sol"
    if os.path.isfile(sp):
        res["sol_present"] = True
        try:
            res["sol"] = nlgen.parse_sol(sp)
            res["sol_error"] = None
        except Exception as ex:
            res["sol"] = None
            res["sol_error"] = "%s: %s" % (type(ex).__name__, ex)
    else:
        res["sol_present"] = False
        res["sol"] = None
        res["sol_error"] = None
    # further solution files of the run (sol:stub=<prefix>): <prefix>1.sol, <prefix>2.sol, ...
    if case.get("collect_sols"):
        import glob
        alts = []
        for ap in sorted(glob.glob(os.path.join(d, case["collect_sols"] + "*.sol"))):
            try:
                alts.append({"name": os.path.basename(ap), "sol": nlgen.parse_sol(ap), "error": None})
            except Exception as ex:
                alts.append({"name": os.path.basename(ap), "sol": None, "error": "%s: %s" % (type(ex).__name__, ex)})
        res["alt"] = alts
    gp = os.path.join(d, "graph.jsonl")
    if os.path.exists(gp):
        res["graph_text"] = open(gp, errors="replace").read()
    if not keep:
        shutil.rmtree(d, ignore_errors=True)
    return res


def run_cases(exe, pid, cases, timeout=60, keep=False, workers=None):
    rundir = os.path.join(BUILD, "run", pid)
    os.makedirs(rundir, exist_ok=True)
    with cf.ThreadPoolExecutor(max_workers=workers or NPROC) as ex:
        return list(ex.map(lambda c: run_case(exe, rundir, c, timeout, keep), cases))
