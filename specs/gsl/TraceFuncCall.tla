--------------------------- MODULE TraceFuncCall ---------------------------
(* Trace validation for C16: every call made by harness/h_gsl.cc to a function *)
(* pointer registered by the real amplgsl.cc must be a run of the FuncCall     *)
(* machine (Case -> Ret(nan) -> Ret(val)) whose outcome violates no clause.  Hang / Crash mean  *)
(* the call did not return.  A line the spec cannot explain is printed as BAD  *)
(* and validation continues.                                                   *)
EXTENDS FuncCall, Json, IOUtils, TLC
Lines == ndJsonDeserialize(IOEnv.TRACE)
VARIABLES l, s, nskip
vars == <<l, s, nskip>>
E == Lines[l]
Bad(what) == PrintT(<<"BAD", ToJson([line |-> l, id |-> s.c.id, what |-> what])>>)
Step == l' = l + 1

CaseOf(e) == [id |-> e.id, fn |-> e.fn, ar |-> e.ar, ip |-> e.ip, rnd |-> e.rnd, str |-> e.str,
              cls |-> e.cls, mode |-> e.mode, digc |-> e.digc]
OutOf(e) == [val |-> e.val, err |-> e.err, dn |-> e.dn, hn |-> e.hn, du |-> e.du, hu |-> e.hu, det |-> e.det,
             dl |-> e.dl, dr |-> e.dr, hl |-> e.hl, hr |-> e.hr, hlr |-> e.hlr, hrr |-> e.hrr]

TCase == /\ E.e = "Case" /\ Step /\ UNCHANGED nskip
         /\ s' = Issue(CaseOf(E))
         /\ \/ s.pc = "idle" /\ WellFormedCase(CaseOf(E))
            \/ Bad([k |-> "case", pc |-> s.pc])
TRet == /\ E.e = "Ret" /\ Step /\ UNCHANGED nskip
        /\ IF CanReturn(s, E.id, E.fill)
             THEN /\ s' = Return(s)
                  /\ LET wrong == Violated(s.c, OutOf(E))
                     IN wrong = {} \/ Bad([k |-> "outcome", wrong |-> wrong, fill |-> E.fill])
             ELSE s' = s /\ Bad([k |-> "order", ev |-> "Ret"])
TDead == /\ E.e \in {"Hang", "Crash"} /\ Step /\ UNCHANGED nskip
         /\ s' = Idle
         /\ Bad([k |-> "noreturn", ev |-> E.e])
\* the harness gave up on a function after many hangs: the call was not made (counted)
TSkipped == /\ E.e = "Skipped" /\ Step /\ s' = Idle /\ nskip' = nskip + 1
            /\ s.pc = "called" \/ Bad([k |-> "order", ev |-> "Skipped"])
TOther == /\ E.e \notin {"Case", "Ret", "Hang", "Crash", "Skipped"} /\ Step /\ UNCHANGED <<s, nskip>>
          /\ E.e = "Meta" \/ Bad([k |-> "event", ev |-> E.e])

Init == l = 1 /\ s = Idle /\ nskip = 0
Next == l <= Len(Lines) /\ (TCase \/ TRet \/ TDead \/ TSkipped \/ TOther)
Spec == Init /\ [][Next]_vars
Finished == (l = Len(Lines) + 1) => PrintT(<<"DONE", ToJson([n |-> Len(Lines), open |-> s.pc # "idle", skipped |-> nskip])>>)
=============================================================================
