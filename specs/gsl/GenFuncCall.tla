---------------------------- MODULE GenFuncCall ----------------------------
(* Case generator for C16.  Input: the distinct SIGNATURES of the registered   *)
(* functions (arity, integer-valued positions), written by checks/c16.py from  *)
(* the real registration data (Addfunc) and the GSL C prototypes, as JSON      *)
(* (IOEnv.SIGS).  Output: for each signature the argument-CLASS tuples x       *)
(* request modes, one CASE record each.  checks/c16.py gives every function    *)
(* the cases of its signature (quick: a seeded sample) and concretises the     *)
(* classes to doubles.                                                         *)
(*   arity <= 2 : the full product of classes                                  *)
(*   arity >= 3 : every tuple with at most two (arity > 4: one) irregular       *)
(*                positions, the other                                          *)
(*                positions sharing one regular class (half / one / two);      *)
(*                plus every position in the same irregular class              *)
(* "nonint" (a non-integer where an integer is expected) only occurs at        *)
(* integer-valued positions.  Modes: v, d, h with all partials requested, and  *)
(* for signatures with integer positions also d, h with those positions        *)
(* marked constant (digc).                                                     *)
EXTENDS FuncCall, TLC, Json, IOUtils

Sigs == JsonDeserialize(IOEnv.SIGS)          \* << [ar |-> 2, ip |-> <<1>>], ... >>

ClassesAt(sg, i) == IF \E k \in 1..Len(sg.ip) : sg.ip[k] = i THEN Classes ELSE Classes \ {"nonint"}
IrregularAt(sg, i) == ClassesAt(sg, i) \ Regular

Tuples(sg) ==
  IF sg.ar <= 2
    THEN {t \in [1..sg.ar -> Classes] : \A i \in 1..sg.ar : t[i] \in ClassesAt(sg, i)}
    ELSE UNION { UNION { { [i \in 1..sg.ar |-> IF i \in D THEN asg[i] ELSE base] :
                             asg \in {f \in [D -> Classes] : \A i \in D : f[i] \in IrregularAt(sg, i)} } :
                         D \in {S \in SUBSET (1..sg.ar) : Cardinality(S) <= (IF sg.ar <= 4 THEN 2 ELSE 1)} } :
                 base \in Regular }
         \* ... and the tuples in which every position has the same irregular class (nine large arguments make a long
         \* error text, nine NaN, ...)
         \cup {[i \in 1..sg.ar |-> c] : c \in (Classes \ Regular) \ {"nonint"}}

ModesOf(sg) == {<<m, FALSE>> : m \in Modes} \cup
               (IF Len(sg.ip) > 0 THEN {<<"d", TRUE>>, <<"h", TRUE>>} ELSE {})

VARIABLE g
Init == \E k \in 1..Len(Sigs) : \E t \in Tuples(Sigs[k]) : \E md \in ModesOf(Sigs[k]) :
          g = [sig |-> k, cls |-> t, mode |-> md[1], digc |-> md[2]]
Next == UNCHANGED g
\* every generated case is a well-formed case of FuncCall
AsCase == [id |-> 0, fn |-> "sig", ar |-> Sigs[g.sig].ar, ip |-> Sigs[g.sig].ip, rnd |-> FALSE, str |-> FALSE,
           cls |-> g.cls, mode |-> g.mode, digc |-> g.digc]
Emit == WellFormedCase(AsCase) /\ PrintT(<<"CASE", ToJson(g)>>)
=============================================================================
