----------------------------- MODULE MCFuncCall -----------------------------
(* Design check of FuncCall.  An IDEAL binding (reports every NaN argument,    *)
(* every non-integer at an integer position, every requested partial w.r.t. an *)
(* integer argument; otherwise either reports an error of its choice or        *)
(* returns clean numbers) answers every small case and must violate no clause; *)
(* then ONE defect is injected into its answer and the clause guarding against *)
(* it must reject the outcome.  Exhaustive over arity <= 2, a reduced class    *)
(* set, all modes, random / non-random.                                        *)
EXTENDS FuncCall, TLC
VARIABLES pc, c, o, expect
vars == <<pc, c, o, expect>>

MCClasses == {"NaN", "zero", "one", "nonint"}
SigsMC == { [ar |-> 0, ip |-> <<>>], [ar |-> 1, ip |-> <<>>], [ar |-> 1, ip |-> <<1>>],
            [ar |-> 2, ip |-> <<>>], [ar |-> 2, ip |-> <<1>>], [ar |-> 2, ip |-> <<1, 2>>] }
NoOut == [val |-> "fin", err |-> "none", dn |-> <<>>, hn |-> <<>>, du |-> <<>>, hu |-> <<>>, det |-> TRUE,
          dl |-> <<>>, dr |-> <<>>, hl |-> <<>>, hr |-> <<>>, hlr |-> <<>>, hrr |-> <<>>]
\* measured agreement: not measured ("unk" everywhere) or measured and confirmed on both sides
Same(n, v) == [i \in 1..n |-> v]
NH(k) == (k.ar * (k.ar + 1)) \div 2

CasesMC == { k \in [id : {1}, fn : {"f"}, ar : 0..2, ip : {<<>>, <<1>>, <<1, 2>>}, rnd : BOOLEAN, str : {FALSE},
                    cls : UNION {[1..n -> MCClasses] : n \in 0..2}, mode : Modes, digc : BOOLEAN] :
               /\ [ar |-> k.ar, ip |-> k.ip] \in SigsMC
               /\ WellFormedCase(k) }

Init == pc = "idle" /\ c = NoCase /\ o = NoOut /\ expect = "none"
IssueStep == pc = "idle" /\ pc' = "called" /\ c' \in CasesMC /\ UNCHANGED <<o, expect>>

MustReport(k) == \/ \E i \in 1..k.ar : k.cls[i] = "NaN"
                 \/ \E i \in IntPos(k) : k.cls[i] = "nonint"
MustReportDeriv(k) == WantD(k) /\ \E i \in IntPos(k) : ~Const(k, i)
\* flag vectors of length n with at most one TRUE (keeps the outcome space small)
AtMostOne(n) == {[i \in 1..n |-> FALSE]} \cup {[i \in 1..n |-> i = j] : j \in 1..n}
Outcomes(k) == [val : {"fin", "inf", "nan"}, err : {"none", "eval", "deriv", "hes"},
                dn : IF WantD(k) THEN AtMostOne(k.ar) ELSE {<<>>},
                hn : IF WantH(k) THEN AtMostOne(NH(k)) ELSE {<<>>},
                du : IF WantD(k) THEN AtMostOne(k.ar) ELSE {<<>>},
                hu : IF WantH(k) THEN {[i \in 1..NH(k) |-> FALSE]} ELSE {<<>>},
                det : BOOLEAN,
                dl : IF WantD(k) THEN {Same(k.ar, "unk"), Same(k.ar, "ok")} ELSE {<<>>},
                dr : IF WantD(k) THEN {Same(k.ar, "unk"), Same(k.ar, "ok")} ELSE {<<>>},
                hl : IF WantH(k) THEN {Same(NH(k), "unk")} ELSE {<<>>},
                hr : IF WantH(k) THEN {Same(NH(k), "unk"), Same(NH(k), "ok")} ELSE {<<>>},
                hlr : IF WantH(k) THEN {Same(NH(k), "unk")} ELSE {<<>>},
                hrr : IF WantH(k) THEN {Same(NH(k), "unk")} ELSE {<<>>}]
\* a clean, error-free answer
CleanOuts(k) == {r \in Outcomes(k) : /\ r.err = "none" /\ r.val # "nan" /\ r.det
                                      /\ \A i \in 1..Len(r.dn) : ~r.dn[i] /\ ~r.du[i]
                                      /\ \A j \in 1..Len(r.hn) : ~r.hn[j]}
Clean(k, r) == /\ r.val # "nan"
               /\ WantD(k) => \A i \in 1..k.ar : ~Const(k, i) => (~r.dn[i] /\ ~r.du[i])
               /\ WantH(k) => \A j \in 1..k.ar : \A i \in 1..j : (~Const(k, i) /\ ~Const(k, j)) => ~r.hn[HesIdx(i, j)]
\* what an ideal binding may answer
Ideal(k, r) == /\ ~k.rnd => r.det
               /\ MustReport(k) => r.err = "eval"
               /\ (~MustReport(k) /\ MustReportDeriv(k)) => r.err \in {"eval", "deriv"}
               /\ r.err = "deriv" => WantD(k)
               /\ r.err = "hes" => WantH(k)
               /\ r.err = "none" => Clean(k, r)
ReturnStep == /\ pc = "called" /\ pc' = "returned" /\ UNCHANGED <<c, expect>>
              /\ o' \in {r \in Outcomes(c) : Ideal(c, r)}

\* one defect in the binding
Corrupt ==
  /\ pc = "returned" /\ pc' = "corrupt" /\ UNCHANGED c
  /\ \/ \* check_result dropped: NaN returned silently
        o.err = "none" /\ o' = [o EXCEPT !.val = "nan"] /\ expect' = "value"
     \/ \* a partial left unwritten / NaN, no error
        /\ o.err = "none" /\ WantD(c) /\ \E i \in 1..c.ar : ~Const(c, i) /\ o' = [o EXCEPT !.dn[i] = TRUE]
        /\ expect' = "derivs"
     \/ \* a partial not written at all (whatever the caller's memory held comes back)
        /\ o.err = "none" /\ WantD(c) /\ \E i \in 1..c.ar : ~Const(c, i) /\ o' = [o EXCEPT !.du[i] = TRUE]
        /\ expect' = "derivs"
     \/ /\ o.err = "none" /\ WantH(c)
        /\ \E j \in 1..c.ar : \E i \in 1..j : ~Const(c, i) /\ ~Const(c, j) /\ o' = [o EXCEPT !.hu[HesIdx(i, j)] = TRUE]
        /\ expect' = "hes"
     \/ /\ o.err = "none" /\ WantH(c)
        /\ \E j \in 1..c.ar : \E i \in 1..j : ~Const(c, i) /\ ~Const(c, j) /\ o' = [o EXCEPT !.hn[HesIdx(i, j)] = TRUE]
        /\ expect' = "hes"
     \/ \* check_args dropped and the NaN does not propagate
        /\ (\E i \in 1..c.ar : c.cls[i] = "NaN") /\ ~(\E i \in IntPos(c) : c.cls[i] = "nonint") /\ ~MustReportDeriv(c)
        /\ o' \in CleanOuts(c)
        /\ expect' = "nanarg"
     \/ \* check_int_arg dropped: the argument is truncated silently
        /\ (\E i \in IntPos(c) : c.cls[i] = "nonint") /\ ~(\E i \in 1..c.ar : c.cls[i] = "NaN") /\ ~MustReportDeriv(c)
        /\ o' \in CleanOuts(c)
        /\ expect' = "nonint"
     \/ \* check_deriv_arg / check_const_arg dropped: a 'derivative' w.r.t. an integer comes back
        /\ MustReportDeriv(c) /\ ~MustReport(c)
        /\ o' \in CleanOuts(c)
        /\ expect' = "intderiv"
     \/ \* a wrong formula, or a derivative returned at a kink: one side contradicts
        /\ o.err = "none" /\ WantD(c) /\ \E i \in 1..c.ar : ~Const(c, i) /\ (o' = [o EXCEPT !.dl[i] = "bad"] \/ o' = [o EXCEPT !.dr[i] = "bad"])
        /\ expect' = "agree"
     \/ /\ o.err = "none" /\ WantH(c)
        /\ \E j \in 1..c.ar : \E i \in 1..j : ~Const(c, i) /\ ~Const(c, j) /\ o' = [o EXCEPT !.hr[HesIdx(i, j)] = "bad", !.hrr[HesIdxR(c.ar, i, j)] = "bad"]
        /\ expect' = "agree"
     \/ \* hidden state
        ~c.rnd /\ o' = [o EXCEPT !.det = FALSE] /\ expect' = "determinism"
     \/ \* partials array of the wrong length
        WantD(c) /\ c.ar > 0 /\ o' = [o EXCEPT !.dn = <<>>, !.du = <<>>] /\ expect' = "shape"

Next == IssueStep \/ ReturnStep \/ Corrupt \/ (pc = "corrupt" /\ UNCHANGED vars)
Spec == Init /\ [][Next]_vars

IdealSatisfies == pc = "returned" => Violated(c, o) = {}
CorruptionCaught == pc = "corrupt" => expect \in Violated(c, o)
\* a single injected defect trips only its own clause (clauses are independent), except
\* that a NaN value / partial may accompany others by construction
Targeted == (pc = "corrupt" /\ expect \in {"nanarg", "nonint", "intderiv", "determinism"}) => Violated(c, o) = {expect}
=============================================================================
