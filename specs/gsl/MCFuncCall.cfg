SPECIFICATION Spec
INVARIANT IdealSatisfies
INVARIANT CorruptionCaught
INVARIANT Targeted
CHECK_DEADLOCK FALSE
