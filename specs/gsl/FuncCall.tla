------------------------------ MODULE FuncCall ------------------------------
(* Call protocol of an imported AMPL function (property C16, the GSL bindings  *)
(* src/gsl/amplgsl.cc): what the outcome of ONE call must look like, given     *)
(* what was asked.  Decided here: no silent NaN (value, requested first and    *)
(* second partials) when no error is reported; a NaN argument, a non-integer   *)
(* where an integer is expected, and a derivative requested w.r.t. an integer- *)
(* valued argument are reported as errors; two identical calls give identical  *)
(* bits (non-random functions); the call returns.                              *)
(* Agreement with numerical differentiation is decided on MEASUREMENTS (clause *)
(* "agree"): for calls whose arguments are all plain values (0, -1, 0.25..3)   *)
(* the harness compares each returned partial with left- and right-sided       *)
(* Richardson difference quotients of the binding's own values (second         *)
(* partials: of its own first partials) and logs a class per partial and side: *)
(* "ok" (within 1e-3 relative), "bad" (the quotient is stable under step       *)
(* halving and differs by more than 1e-2 relative), "unk" otherwise.  A "bad"  *)
(* with no error reported means the returned derivative is wrong there or does *)
(* not exist (kink: the two sides differ) -- sampled observation, not a proof. *)
(*                                                                             *)
(* A case  c:  fn, ar (arity), ip (integer-valued argument positions, 1-based, *)
(*   from the C prototype of the GSL function of the same name), rnd, str      *)
(*   (random / string valued, from the registration flags), cls (argument      *)
(*   class per position), mode ("v" value, "d" +first, "h" +first+second       *)
(*   partials), digc (TRUE: the integer positions are marked constant in       *)
(*   arglist.dig, i.e. no partial w.r.t. them is requested).                   *)
(* An outcome o:  val in {"fin","inf","nan","str","nullstr"}, err in           *)
(*   {"none","eval","deriv","hes"} (Errmsg NULL / plain / ' prefix / " prefix),*)
(*   dn, hn (is-NaN flag per first partial / per upper-triangle second         *)
(*   partial), du, hu (flag: the partial was not written, observed by the      *)
(*   caller pre-filling the arrays with a sentinel), det.  Every case is       *)
(*   observed under two caller memory states: fill "nan" (arrays pre-filled    *)
(*   with NaN; du, hu all FALSE) and fill "val" (sentinel); both outcomes must *)
(*   satisfy the protocol.                                                     *)
EXTENDS Integers, Sequences, FiniteSets

Classes == {"NaN", "nbig", "m1", "ntiny", "zero", "tiny", "half", "one", "two", "big", "nonint"}
Regular == {"half", "one", "two"}
Modes   == {"v", "d", "h"}
Clauses == {"value", "derivs", "hes", "nanarg", "nonint", "intderiv", "determinism", "shape", "agree"}
Plain   == {"zero", "half", "one", "two", "m1"}       \* argument classes at which agreement is measured
AgreeClasses == {"ok", "bad", "unk"}

IntPos(c)   == {c.ip[i] : i \in 1..Len(c.ip)}
Const(c, i) == c.digc /\ i \in IntPos(c)         \* partial w.r.t. argument i not requested
HesIdx(i, j) == i + ((j - 1) * j) \div 2          \* 1-based index of (i,j), i <= j, upper triangle
\* the other reading of "upper triangle" (by rows; the repository's gsl-test indexes that way);
\* identical for fewer than three arguments
HesIdxR(n, i, j) == ((i - 1) * (2 * n - i)) \div 2 + (j - i) + 1

WantD(c) == c.mode \in {"d", "h"}
WantH(c) == c.mode = "h"

\* the outcome record has the shape the request implies
ShapeOK(c, o) == /\ o.err \in {"none", "eval", "deriv", "hes"}
                 /\ o.val \in (IF c.str THEN {"str"} ELSE {"fin", "inf", "nan"})
                 /\ Len(o.dn) = (IF WantD(c) THEN c.ar ELSE 0) /\ Len(o.du) = Len(o.dn)
                 /\ Len(o.hn) = (IF WantH(c) THEN (c.ar * (c.ar + 1)) \div 2 ELSE 0) /\ Len(o.hu) = Len(o.hn)
                 /\ Len(o.dl) = Len(o.dn) /\ Len(o.dr) = Len(o.dn) /\ Len(o.hl) = Len(o.hn) /\ Len(o.hr) = Len(o.hn)
                 /\ Len(o.hlr) = Len(o.hn) /\ Len(o.hrr) = Len(o.hn)
                 /\ \A q \in {o.dl, o.dr, o.hl, o.hr, o.hlr, o.hrr} : \A i \in 1..Len(q) : q[i] \in AgreeClasses

\* Errmsg = NULL => nothing that was asked for is NaN or left unwritten (an arbitrary number)
ValueOK(c, o)  == o.err = "none" => o.val # "nan"
DerivsOK(c, o) == (o.err = "none" /\ WantD(c) /\ Len(o.dn) = c.ar /\ Len(o.du) = c.ar) =>
                    \A i \in 1..c.ar : ~Const(c, i) => (~o.dn[i] /\ ~o.du[i])
HesOK(c, o)    == (o.err = "none" /\ WantH(c) /\ Len(o.hn) = (c.ar * (c.ar + 1)) \div 2 /\ Len(o.hu) = Len(o.hn)) =>
                    \A j \in 1..c.ar : \A i \in 1..j :
                       (~Const(c, i) /\ ~Const(c, j)) => (~o.hn[HesIdx(i, j)] /\ ~o.hu[HesIdx(i, j)])
\* Errmsg = NULL => no requested partial is contradicted by numerical differentiation on either side
\* (second partials: under at least one of the two readings of the layout)
AgreeOK(c, o) == (/\ o.err = "none" /\ Len(o.dl) = Len(o.dn) /\ Len(o.dr) = Len(o.dn)
                  /\ \A q \in {o.hl, o.hr, o.hlr, o.hrr} : Len(q) = Len(o.hn)) =>
                   /\ \A i \in 1..Len(o.dl) : ~Const(c, i) => (o.dl[i] # "bad" /\ o.dr[i] # "bad")
                   /\ Len(o.hl) = (c.ar * (c.ar + 1)) \div 2 =>
                        \/ \A j \in 1..c.ar : \A i \in 1..j :
                              (~Const(c, i) /\ ~Const(c, j)) => (o.hl[HesIdx(i, j)] # "bad" /\ o.hr[HesIdx(i, j)] # "bad")
                        \/ \A j \in 1..c.ar : \A i \in 1..j :
                              (~Const(c, i) /\ ~Const(c, j)) => (o.hlr[HesIdxR(c.ar, i, j)] # "bad" /\ o.hrr[HesIdxR(c.ar, i, j)] # "bad")
\* what cannot be computed is reported
\* (an error whose message starts with ' concerns the derivatives only and says that the value is fine: it does
\* not report an argument for which there is no value)
\* (for a NaN argument the statement asks for "an error message": when the derivative request already failed on an
\* integer argument the bindings set only that message - the literal demand, kept as it is)
NaNArgOK(c, o) == (\E i \in 1..c.ar : c.cls[i] = "NaN") => o.err # "none"
NonIntOK(c, o) == (\E i \in IntPos(c) : c.cls[i] = "nonint") => o.err = "eval"
IntDerivOK(c, o) == (WantD(c) /\ \E i \in IntPos(c) : ~Const(c, i)) => o.err # "none"
DetOK(c, o) == ~c.rnd => o.det

Holds(cl, c, o) == CASE cl = "value"       -> ValueOK(c, o)
                     [] cl = "derivs"      -> DerivsOK(c, o)
                     [] cl = "hes"         -> HesOK(c, o)
                     [] cl = "nanarg"      -> NaNArgOK(c, o)
                     [] cl = "nonint"      -> NonIntOK(c, o)
                     [] cl = "intderiv"    -> IntDerivOK(c, o)
                     [] cl = "determinism" -> DetOK(c, o)
                     [] cl = "shape"       -> ShapeOK(c, o)
                     [] cl = "agree"       -> AgreeOK(c, o)
Violated(c, o) == {cl \in Clauses : ~Holds(cl, c, o)}

-----------------------------------------------------------------------------
(* The call as a machine: idle -Case-> called -Ret(nan)-> called -Ret(val)->    *)
(* idle, or called -Hang|Crash-> idle (the call did not return).                *)
NoCase == [id |-> -1, fn |-> "", ar |-> 0, ip |-> <<>>, rnd |-> FALSE, str |-> FALSE,
           cls |-> <<>>, mode |-> "v", digc |-> FALSE]
Fills == <<"nan", "val">>                       \* the order in which the outcomes are observed
Idle == [pc |-> "idle", c |-> NoCase, k |-> 0]
Issue(c) == [pc |-> "called", c |-> c, k |-> 0]
CanReturn(s, id, fill) == s.pc = "called" /\ s.c.id = id /\ s.k < Len(Fills) /\ fill = Fills[s.k + 1]
Return(s) == IF s.k + 1 = Len(Fills) THEN Idle ELSE [s EXCEPT !.k = s.k + 1]
WellFormedCase(c) == /\ c.ar >= 0 /\ Len(c.cls) = c.ar
                     /\ \A i \in 1..c.ar : c.cls[i] \in Classes
                     /\ IntPos(c) \subseteq 1..c.ar
                     /\ \A i \in 1..c.ar : c.cls[i] = "nonint" => i \in IntPos(c)
                     /\ c.mode \in Modes
                     /\ c.digc => (WantD(c) /\ IntPos(c) # {})
=============================================================================
