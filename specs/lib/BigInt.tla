------------------------------- MODULE BigInt -------------------------------
(* Arbitrary-precision integers for TLC (whose own integers are 32-bit).      *)
(* A magnitude is a little-endian sequence of bytes 0..255 without leading    *)
(* (i.e. trailing-in-the-sequence) zeros; a BigInt is [neg, d] with neg=FALSE *)
(* for zero.  Schoolbook algorithms, written for clarity and exactness.       *)
EXTENDS Integers, Sequences

RECURSIVE Trim(_)
Trim(d) == IF d = <<>> THEN <<>>
           ELSE IF d[Len(d)] = 0 THEN Trim(SubSeq(d, 1, Len(d) - 1)) ELSE d

Digit(d, i) == IF i <= Len(d) THEN d[i] ELSE 0
MaxI(a, b) == IF a >= b THEN a ELSE b

RECURSIVE MagCmpFrom(_, _, _)
\* compare from the most significant byte i downwards: -1, 0, 1
MagCmpFrom(a, b, i) ==
  IF i = 0 THEN 0
  ELSE IF Digit(a, i) < Digit(b, i) THEN -1
  ELSE IF Digit(a, i) > Digit(b, i) THEN 1
  ELSE MagCmpFrom(a, b, i - 1)
MagCmp(a, b) == MagCmpFrom(a, b, MaxI(Len(a), Len(b)))

RECURSIVE MagAddFrom(_, _, _, _)
MagAddFrom(a, b, i, carry) ==
  IF i > MaxI(Len(a), Len(b))
    THEN IF carry = 0 THEN <<>> ELSE <<carry>>
    ELSE LET s == Digit(a, i) + Digit(b, i) + carry
         IN <<s % 256>> \o MagAddFrom(a, b, i + 1, s \div 256)
MagAdd(a, b) == Trim(MagAddFrom(a, b, 1, 0))

RECURSIVE MagSubFrom(_, _, _, _)
\* a - b for a >= b
MagSubFrom(a, b, i, borrow) ==
  IF i > Len(a) THEN <<>>
  ELSE LET s == Digit(a, i) - Digit(b, i) - borrow
       IN IF s < 0 THEN <<s + 256>> \o MagSubFrom(a, b, i + 1, 1)
                   ELSE <<s>> \o MagSubFrom(a, b, i + 1, 0)
MagSub(a, b) == Trim(MagSubFrom(a, b, 1, 0))

RECURSIVE MagMulByte(_, _, _, _)
MagMulByte(a, m, i, carry) ==
  IF i > Len(a) THEN (IF carry = 0 THEN <<>> ELSE <<carry % 256>> \o
                        (IF carry \div 256 = 0 THEN <<>> ELSE <<carry \div 256>>))
  ELSE LET s == a[i] * m + carry
       IN <<s % 256>> \o MagMulByte(a, m, i + 1, s \div 256)

RECURSIVE MagMulFrom(_, _, _)
MagMulFrom(a, b, j) ==
  IF j > Len(b) THEN <<>>
  ELSE MagAdd([k \in 1..(j - 1) |-> 0] \o MagMulByte(a, b[j], 1, 0),
              MagMulFrom(a, b, j + 1))
MagMul(a, b) == Trim(MagMulFrom(a, b, 1))

Big(neg, d) == LET t == Trim(d) IN [neg |-> (neg /\ t # <<>>), d |-> t]
BigZero == [neg |-> FALSE, d |-> <<>>]
BigNeg(x) == Big(~x.neg, x.d)

BigAdd(x, y) ==
  IF x.neg = y.neg THEN Big(x.neg, MagAdd(x.d, y.d))
  ELSE IF MagCmp(x.d, y.d) >= 0 THEN Big(x.neg, MagSub(x.d, y.d))
  ELSE Big(y.neg, MagSub(y.d, x.d))
BigSub(x, y) == BigAdd(x, BigNeg(y))
BigMul(x, y) == Big(x.neg # y.neg, MagMul(x.d, y.d))

\* x <= y
BigLeq(x, y) ==
  IF x.neg /\ ~y.neg THEN TRUE
  ELSE IF ~x.neg /\ y.neg THEN FALSE
  ELSE IF ~x.neg THEN MagCmp(x.d, y.d) <= 0
  ELSE MagCmp(x.d, y.d) >= 0

RECURSIVE NatToMag(_)
NatToMag(n) == IF n = 0 THEN <<>> ELSE <<n % 256>> \o NatToMag(n \div 256)
BigOfInt(n) == IF n < 0 THEN Big(TRUE, NatToMag(-n)) ELSE Big(FALSE, NatToMag(n))

\* 2^(8k) - 1 and 2^(8k-1) as magnitudes
AllOnes(k) == [i \in 1..k |-> 255]
TopBit(k) == [i \in 1..k |-> IF i = k THEN 128 ELSE 0]

\* bounds of a W-bit type (W a multiple of 8)
BigMax(W, signed) == IF signed THEN Big(FALSE, MagSub(TopBit(W \div 8), <<1>>))
                               ELSE Big(FALSE, AllOnes(W \div 8))
BigMin(W, signed) == IF signed THEN Big(TRUE, TopBit(W \div 8)) ELSE BigZero
BigInRange(x, W, signed) == BigLeq(BigMin(W, signed), x) /\ BigLeq(x, BigMax(W, signed))
=============================================================================
