----------------------------- MODULE GenBounds -----------------------------
(* Case generator for C06: functional constraint type x argument-domain       *)
(* patterns x parameters.  One initial state per case; Emit prints it.        *)
EXTENDS Integers, Sequences, FiniteSets, TLC, Json
Inf == 500000000
Dom0(name) ==
  CASE name = "b01"  -> [lb |-> 0,  ub |-> 1,  int |-> TRUE]
    [] name = "f0"   -> [lb |-> 0,  ub |-> 0,  int |-> TRUE]
    [] name = "f1"   -> [lb |-> 1,  ub |-> 1,  int |-> TRUE]
    [] name = "pm2"  -> [lb |-> -2, ub |-> 2,  int |-> TRUE]
    [] name = "i03"  -> [lb |-> 0,  ub |-> 3,  int |-> TRUE]
    [] name = "i13"  -> [lb |-> 1,  ub |-> 3,  int |-> TRUE]
    [] name = "neg"  -> [lb |-> -3, ub |-> -1, int |-> TRUE]
    [] name = "fix2" -> [lb |-> 2,  ub |-> 2,  int |-> TRUE]
    [] name = "c02"  -> [lb |-> 0,  ub |-> 2,  int |-> FALSE]
    [] name = "cpm1" -> [lb |-> -1, ub |-> 1,  int |-> FALSE]
    [] name = "cneg" -> [lb |-> -2, ub |-> -1, int |-> FALSE]
    [] name = "cfix" -> [lb |-> 1,  ub |-> 1,  int |-> FALSE]
    [] name = "ge0i" -> [lb |-> 0,  ub |-> Inf, int |-> TRUE]
    [] name = "le0c" -> [lb |-> -Inf, ub |-> 0, int |-> FALSE]
    [] name = "free" -> [lb |-> -Inf, ub |-> Inf, int |-> FALSE]
    [] name = "gem2" -> [lb |-> -2, ub |-> Inf, int |-> FALSE]
    [] name = "freei" -> [lb |-> -Inf, ub |-> Inf, int |-> TRUE]    \* free integer
    [] name = "le0i" -> [lb |-> -Inf, ub |-> 0, int |-> TRUE]
    [] name = "im31" -> [lb |-> -3, ub |-> 1,  int |-> TRUE]      \* zero inside, |lb| > ub
    [] name = "cm21" -> [lb |-> -2, ub |-> 1,  int |-> FALSE]
    [] name = "im13" -> [lb |-> -1, ub |-> 3,  int |-> TRUE]      \* zero inside, |lb| < ub
\* domains with half-integer ends (lb, ub in half units): a continuous variable fixed at 5/2, and [1/2, 5/2]
HalfDom(name) == CASE name = "cfixh" -> [lb |-> 5, ub |-> 5, int |-> FALSE, half |-> TRUE]
                   [] name = "cfrac" -> [lb |-> 1, ub |-> 5, int |-> FALSE, half |-> TRUE]
Dom(name) == IF name \in {"cfixh", "cfrac"} THEN HalfDom(name)
             ELSE [lb |-> Dom0(name).lb, ub |-> Dom0(name).ub, int |-> Dom0(name).int, half |-> FALSE]
NumDoms == {"b01", "pm2", "i03", "i13", "neg", "fix2", "c02", "cpm1", "cneg", "cfix", "ge0i", "le0c", "free", "gem2"}
AsymDoms == {"im31", "cm21", "im13"}
SmallDoms == {"b01", "pm2", "i13", "neg", "fix2", "c02", "cpm1", "ge0i", "free"}
IntDoms == {"b01", "pm2", "i03", "i13", "neg", "fix2", "ge0i"}
BinDoms == {"b01", "f0", "f1"}

Base(type, doms) == [type |-> type, doms |-> [j \in 1..Len(doms) |-> Dom(doms[j])], names |-> doms,
                     k |-> 0, c0 |-> 0, c2 |-> 0, cs |-> 1, lin |-> <<>>, quad |-> <<>>, px |-> <<>>, py |-> <<>>]

Cases ==
  {Base(t, <<a>>) : t \in {"Abs"}, a \in NumDoms \cup AsymDoms}
  \cup {Base("Not", <<a>>) : a \in BinDoms}
  \* sums / products whose range is already the whole line after some terms, the other terms continuous or
  \* with a fractional coefficient: the result is not integer-valued (both term orders)
  \cup {[Base("LinFunc", <<a, b>>) EXCEPT !.lin = l, !.cs = cs] : a \in {"c02", "cpm1", "cfixh", "i03"}, b \in {"freei", "free"},
          l \in {<<1, 1>>, <<1, -1>>}, cs \in {1, 2}}
  \cup {[Base("LinFunc", <<b, a>>) EXCEPT !.lin = <<1, 1>>] : a \in {"c02", "cfixh"}, b \in {"freei"}}
  \cup {[Base("LinFunc", <<a, b, c>>) EXCEPT !.lin = <<1, 1, -1>>] : a \in {"c02", "i03"}, b \in {"ge0i"}, c \in {"ge0i"}}
  \cup {[Base("LinFunc", <<a, b, c>>) EXCEPT !.lin = <<1, 1, 1>>] : a \in {"c02"}, b \in {"ge0i"}, c \in {"le0i"}}
  \cup {[Base("QuadFunc", <<a, b>>) EXCEPT !.lin = <<1, 0>>, !.quad = << <<1, 2, 2>> >>] : a \in {"c02", "cfixh"}, b \in {"freei"}}
  \cup {[Base("QuadFunc", <<a, b>>) EXCEPT !.lin = <<0, 0>>, !.quad = << <<1, 1, 1>>, <<1, 2, 2>> >>] : a \in {"c02", "cpm1"}, b \in {"freei"}}
  \* a fractional constant among integer arguments: the result is not integer-valued
  \cup {Base(t, <<a, b>>) : t \in {"Max", "Min"}, a \in IntDoms \cup {"c02"}, b \in {"cfixh", "cfrac"}}
  \cup {Base(t, <<b, a>>) : t \in {"Max", "Min"}, a \in IntDoms, b \in {"cfixh"}}
  \cup {Base(t, <<a, b, c>>) : t \in {"Max", "Min"}, a \in {"i03", "pm2"}, b \in {"cfixh", "fix2"}, c \in {"i13", "cfixh"}}
  \cup {Base("IfThen", <<a, b, c>>) : a \in BinDoms, b \in {"cfixh", "cfrac", "i03"}, c \in {"cfixh", "i13", "fix2"}}
  \cup {Base("Abs", <<a>>) : a \in {"cfixh", "cfrac"}}
  \cup {[Base("LinFunc", <<a, b>>) EXCEPT !.lin = <<1, 1>>] : a \in IntDoms, b \in {"cfixh"}}
  \* functions decided on measured samples (Bounds!Transc); k = index into the parameter menu of checks/c06.py
  \cup {Base(t, <<a>>) : t \in {"Exp", "Log", "Sin", "Cos", "Tan", "Asin", "Acos", "Atan", "Sinh", "Cosh", "Tanh",
                                 "Asinh", "Acosh", "Atanh"}, a \in NumDoms \cup AsymDoms}
  \cup {[Base(t, <<a>>) EXCEPT !.k = k] : t \in {"ExpA", "LogA"}, a \in NumDoms \cup AsymDoms, k \in 0..2}
  \cup {[Base("PowR", <<a>>) EXCEPT !.k = k] : a \in NumDoms \cup AsymDoms, k \in 0..3}
  \cup {[Base("Pow", <<a>>) EXCEPT !.k = e] : a \in NumDoms \cup AsymDoms, e \in {-2, -1, 0, 1, 2, 3, 4}}
  \cup {Base(t, <<a, b>>) : t \in {"Max", "Min", "Div"}, a \in AsymDoms, b \in {"im31", "cm21", "c02", "neg"}}
  \cup {[Base("QuadFunc", <<a, b>>) EXCEPT !.lin = <<0, 0>>, !.quad = q] : a \in AsymDoms, b \in AsymDoms \cup {"c02", "neg"},
          q \in { << <<1, 1, 2>> >>, << <<1, 1, 1>> >>, << <<-1, 2, 2>> >> }}
  \cup {[Base("PL", <<a>>) EXCEPT !.px = p[1], !.py = p[2]] : a \in NumDoms \ {"free", "le0c"},
          p \in {<< <<0, 1, 3>>, <<0, 2, 1>> >>, << <<-2, 0, 2>>, <<3, -1, 3>> >>, << <<-1, 1>>, <<-2, 2>> >>}}
  \cup {Base(t, <<a, b>>) : t \in {"Max", "Min", "Div"}, a \in NumDoms, b \in NumDoms}
  \cup {Base(t, <<a, b, c>>) : t \in {"Max", "Min"}, a \in SmallDoms, b \in SmallDoms, c \in SmallDoms}
  \cup {Base(t, <<a, b>>) : t \in {"And", "Or"}, a \in BinDoms, b \in BinDoms}
  \cup {Base(t, <<a, b, c>>) : t \in {"And", "Or", "Implication", "Count"}, a \in BinDoms, b \in BinDoms, c \in BinDoms}
  \cup {Base("IfThen", <<a, b, c>>) : a \in BinDoms, b \in NumDoms, c \in NumDoms}
  \cup {Base(t, <<a, b, c>>) : t \in {"AllDiff", "NumberofVar"}, a \in IntDoms, b \in IntDoms, c \in IntDoms}
  \cup {[Base("NumberofConst", <<a, b, c>>) EXCEPT !.k = k] : a \in IntDoms, b \in IntDoms, c \in {"b01", "pm2"}, k \in {0, 2}}
  \cup {[Base("LinFunc", <<a, b>>) EXCEPT !.lin = l, !.c0 = c0] : a \in NumDoms, b \in NumDoms,
          l \in {<<1, 1>>, <<2, -1>>, <<-1, -3>>}, c0 \in {0, 3}}
  \cup {[Base("QuadFunc", <<a, b>>) EXCEPT !.lin = q[1], !.quad = q[2], !.c0 = q[3]] : a \in NumDoms, b \in NumDoms,
          q \in { << <<0, 0>>, << <<1, 1, 2>> >>, 0 >>,          \* x*y
                  << <<0, 0>>, << <<1, 1, 1>> >>, 0 >>,          \* x^2
                  << <<0, -1>>, << <<1, 1, 1>> >>, 1 >>,         \* x^2 - y + 1
                  << <<1, 0>>, << <<-2, 1, 2>> >>, 0 >> }}       \* -2xy + x
  \cup {[Base("LinFunc", <<a, b>>) EXCEPT !.lin = <<1, 1>>, !.cs = 2] : a \in NumDoms, b \in NumDoms}          \* (x + y)/2
  \cup {[Base("QuadFunc", <<a, b>>) EXCEPT !.lin = <<0, 0>>, !.quad = q, !.cs = 2] : a \in NumDoms, b \in NumDoms,
          q \in { << <<1, 1, 2>> >>, << <<1, 1, 1>>, <<2, 2, 2>> >> }}                                               \* xy/2 ; x^2/2 + y^2
  \cup {[Base(t, <<a, b>>) EXCEPT !.lin = l, !.c2 = r] : t \in {"CondLinLT", "CondLinLE", "CondLinEQ", "CondLinGE", "CondLinGT"},
          a \in SmallDoms, b \in SmallDoms, l \in {<<1, 0>>, <<1, -1>>, <<2, 1>>}, r \in {-1, 0, 2, 3}}   \* rhs = r/2
  \cup {[Base(t, <<a, b>>) EXCEPT !.quad = << <<1, 1, 2>> >>, !.lin = <<0, 0>>, !.c2 = r] : t \in {"CondQuadLE", "CondQuadEQ", "CondQuadGE"},
          a \in SmallDoms, b \in SmallDoms, r \in {0, 2}}

VARIABLE c
Init == c \in Cases
Next == UNCHANGED c
Emit == PrintT(<<"CASE", ToJson(c)>>)
=============================================================================
