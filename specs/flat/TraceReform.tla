----------------------------- MODULE TraceReform -----------------------------
(* Validation of recorded conversions against Reform (C01).  One record per   *)
(* conversion: the NL model that was read, the model the ModelAPI received    *)
(* (or the refusal), the scale.                                               *)
EXTENDS Reform, Json, IOUtils
Lines == ndJsonDeserialize(IOEnv.TRACE)
VARIABLES l
vars == <<l>>
E == Lines[l]
Init == l = 1
Next == /\ l <= Len(Lines) /\ l' = l + 1
        /\ IF E.e = "Case"
             THEN LET r == CaseVerdict(E)
                  IN PrintT(<<"VERDICT", ToJson([line |-> l, id |-> E.id, v |-> r.v, pts |-> r.pts])>>)
             ELSE E.e = "Meta" \/ PrintT(<<"VERDICT", ToJson([line |-> l, id |-> -1, v |-> "crash", pts |-> {}])>>)
Spec == Init /\ [][Next]_vars
Finished == (l = Len(Lines) + 1) => PrintT(<<"DONE", ToJson([n |-> Len(Lines)])>>)
=============================================================================
