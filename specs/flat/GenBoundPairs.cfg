INIT PInit
NEXT Next
INVARIANT Emit
CHECK_DEADLOCK FALSE
