---------------------------- MODULE TraceSolPrec ----------------------------
(* one line per run of the real driver: the case and whether the solution     *)
(* check reported a violation                                                 *)
EXTENDS SolPrec, Json, IOUtils, TLC, Sequences
Lines == ndJsonDeserialize(IOEnv.TRACE)
VARIABLE l
E == Lines[l]
Init == l = 1
Next == /\ l <= Len(Lines) /\ l' = l + 1
        /\ CASE E.e = "Run" -> (E.warn = Violated(E.c))
                               \/ PrintT(<<"BAD", ToJson([line |-> l, id |-> E.id, want |-> Violated(E.c), rounded |-> Rounded(E.c)])>>)
             [] E.e = "Crash" -> PrintT(<<"BAD", ToJson([line |-> l, id |-> E.id, want |-> FALSE, rounded |-> 0])>>)
             [] OTHER -> TRUE
Spec == Init /\ [][Next]_<<l>>
Finished == (l = Len(Lines) + 1) => PrintT(<<"DONE", ToJson([n |-> Len(Lines)])>>)
=============================================================================
