------------------------------ MODULE GenPrec ------------------------------
EXTENDS SolPrec, TLC, Json
Values == {114900, 124900, 504900, 1149000, 11490000, 114900000, 100000, 1000000, 10000000, 999600, 99960, 9996,
           5560, 123456, 987654000, 1234567, 250400, 2504000, 70, 8, 0}
VARIABLES c
Init == c \in [m : Values \cup {-v : v \in Values}, opt : {"prec", "round", "none"}, n : {-1, 0, 1, 2, 3, 5},
               rel : {"le", "ge"}, side : {"mid", "viol", "fine"}]
        /\ (c.opt = "prec" => c.n >= 1) /\ (c.opt = "none" => c.n = 1)
        \* not near a tie: the digit after the last kept one is never 5 in Values
Next == UNCHANGED c
Emit == PrintT(<<"CASE", ToJson([c |-> c, r |-> Rounded(c), t2 |-> T2(c), violated |-> Violated(c)])>>)
=============================================================================
