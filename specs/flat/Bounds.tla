------------------------------- MODULE Bounds -------------------------------
(* Property C06: when the converter introduces a variable for the value of a  *)
(* functional expression, its bounds contain every value the expression takes *)
(* over the arguments' domains, it is integer only if the expression is       *)
(* integer-valued there, and a constant / existing variable replaces the      *)
(* expression only if it really equals it.                                    *)
(*                                                                            *)
(* Arithmetic: argument values are D-scaled integers (D in {1,2}; continuous  *)
(* arguments take half-integer values when D = 2).  Every function value in   *)
(* the fragment is a rational with denominator dividing Q = 840, so values    *)
(* are compared as integers V = value*Q.  Recorded bounds b arrive as         *)
(* lbQ = ceil((b - tol)*Q), ubQ = floor((b + tol)*Q) or the +-Inf sentinels.  *)
(*                                                                            *)
(* Functions that need reals (exp, a^x, log, log_a, x^a with fractional a,    *)
(* sin .. atanh; Transc below) are decided on MEASUREMENTS: the harness        *)
(* evaluates the function (libm) at sample points of the argument domain      *)
(* (ends, middle, a fixed menu incl. multiples of pi/2, integers only for      *)
(* integer arguments) and logs per point the margins of the value to the      *)
(* assigned bounds in units of 1e-6 * max(1,|f|) (floor; lo: f - lb, hi:       *)
(* ub - f; for a constant / alias answer: against that value) and whether the *)
(* value is an integer.  TranscBad: a margin below -1 or integrality claimed   *)
(* at a non-integer value.  Sampled observation, not a proof over the reals.  *)
EXTENDS Integers, Sequences, FiniteSets, TLC

Q == 840
Inf == 500000000
Skip == 400000000          \* "this point is outside the exactly representable fragment"
Abs(v) == IF v < 0 THEN -v ELSE v
Min2(a, b) == IF a <= b THEN a ELSE b
Max2(a, b) == IF a >= b THEN a ELSE b
B2I(b) == IF b THEN 1 ELSE 0
RECURSIVE SeqSum(_)
SeqSum(s) == IF s = <<>> THEN 0 ELSE Head(s) + SeqSum(Tail(s))
RECURSIVE SeqMin(_)
SeqMin(s) == IF Len(s) = 1 THEN s[1] ELSE Min2(s[1], SeqMin(Tail(s)))
RECURSIVE SeqMax(_)
SeqMax(s) == IF Len(s) = 1 THEN s[1] ELSE Max2(s[1], SeqMax(Tail(s)))
RECURSIVE IntPow(_, _)
IntPow(b, m) == IF m = 0 THEN 1 ELSE b * IntPow(b, m - 1)
SDiv(n, d) == IF d > 0 THEN n \div d ELSE (-n) \div (-d)
Divides(d, n) == d # 0 /\ n % Abs(d) = 0

\* candidate (scaled) values of one argument: dom = [lb, ub (unscaled ints or +-Inf), int]
SampleInf == {-7, -3, -2, -1, 0, 1, 2, 3, 7}
Cand(dom, D) ==
  LET step == IF dom.int THEN D ELSE 1
      \* (dom.half: the ends are given in half units; D is even then)
      lo == IF dom.lb <= -Inf THEN -7 * D ELSE IF dom.half THEN dom.lb * (D \div 2) ELSE dom.lb * D
      hi == IF dom.ub >= Inf THEN 7 * D ELSE IF dom.half THEN dom.ub * (D \div 2) ELSE dom.ub * D
      all == {k \in lo..hi : k % step = 0}
  IN IF dom.lb <= -Inf \/ dom.ub >= Inf \/ hi - lo > 16 * D
       THEN {k \in all : k \in {lo, lo + step, hi - step, hi} \/ (SDiv(k, D) * D = k /\ SDiv(k, D) \in SampleInf)}
       ELSE all

RECURSIVE BoxFrom(_, _, _)
BoxFrom(doms, i, D) ==
  IF i > Len(doms) THEN {<<>>}
  ELSE {<<k>> \o r : k \in Cand(doms[i], D), r \in BoxFrom(doms, i + 1, D)}
Box(c) == BoxFrom(c.doms, 1, c.D)

Truth(v) == v # 0
\* linear / quadratic data: p = <<const, lin coefs (one per argument), quad = <<c, i, j>>* >>
LinPart(c, a) == SeqSum([j \in 1..Len(c.lin) |-> c.lin[j] * a[j]])
QuadPart(c, a) == SeqSum([j \in 1..Len(c.quad) |-> c.quad[j][1] * a[c.quad[j][2]] * a[c.quad[j][3]]])
\* value*Q of  lin(a)/D + quad(a)/D^2 + const      (rhs for comparisons is c.c2 / 2, i.e. halves allowed)
\* coefficients are c.lin[j] / c.cs and c.quad[j][1] / c.cs  (cs in {1, 2}: halves allowed)
AlgQ(c, a) == LinPart(c, a) * (Q \div (c.D * c.cs)) + QuadPart(c, a) * (Q \div (c.D * c.D * c.cs))

\* V = value*Q of the function at scaled argument vector a, or Skip
ValQ(c, a) ==
  LET D == c.D   n == Len(a)   unit == Q \div D
  IN CASE c.type = "Max" -> SeqMax(a) * unit
       [] c.type = "Min" -> SeqMin(a) * unit
       [] c.type = "Abs" -> Abs(a[1]) * unit
       [] c.type = "And" -> Q * B2I(\A j \in 1..n : Truth(a[j]))
       [] c.type = "Or" -> Q * B2I(\E j \in 1..n : Truth(a[j]))
       [] c.type = "Not" -> Q * B2I(~Truth(a[1]))
       [] c.type = "IfThen" -> (IF Truth(a[1]) THEN a[2] ELSE a[3]) * unit
       [] c.type = "Implication" -> Q * B2I(IF Truth(a[1]) THEN Truth(a[2]) ELSE Truth(a[3]))
       [] c.type = "AllDiff" -> Q * B2I(\A i, j \in 1..n : i # j => a[i] # a[j])
       [] c.type = "NumberofConst" -> Q * Cardinality({j \in 1..n : a[j] = c.k * D})
       [] c.type = "NumberofVar" -> Q * Cardinality({j \in 2..n : a[j] = a[1]})
       [] c.type = "Count" -> Q * Cardinality({j \in 1..n : Truth(a[j])})
       [] c.type = "Div" -> IF a[2] = 0 THEN Skip
                            ELSE IF Divides(a[2], a[1] * Q) THEN SDiv(a[1] * Q, a[2]) ELSE Skip
       [] c.type = "Pow" ->
            IF c.k >= 0 THEN IntPow(a[1], c.k) * (Q \div IntPow(D, c.k))
            ELSE IF a[1] = 0 THEN Skip
            ELSE LET den == IntPow(a[1], -c.k)  num == Q * IntPow(D, -c.k)
                 IN IF Divides(den, num) THEN SDiv(num, den) ELSE Skip
       [] c.type = "LinFunc" -> AlgQ(c, a) + c.c0 * Q
       [] c.type = "QuadFunc" -> AlgQ(c, a) + c.c0 * Q
       [] c.type \in {"CondLinLT", "CondLinLE", "CondLinEQ", "CondLinGE", "CondLinGT", "CondQuadLE", "CondQuadEQ", "CondQuadGE"} ->
            LET b == 2 * AlgQ(c, a)   r == c.c2 * Q       \* compare 2*body with 2*rhs
                t == CASE c.type \in {"CondLinLT"} -> b < r
                       [] c.type \in {"CondLinLE", "CondQuadLE"} -> b <= r
                       [] c.type \in {"CondLinEQ", "CondQuadEQ"} -> b = r
                       [] c.type \in {"CondLinGE", "CondQuadGE"} -> b >= r
                       [] c.type \in {"CondLinGT"} -> b > r
            IN Q * B2I(t)
       [] c.type = "PL" ->
            \* breakpoints c.px (unscaled ints, increasing), values c.py (ints); outside: end slopes continue
            LET np == Len(c.px)  t == a[1]
                X(i) == c.px[i] * D     Y(i) == c.py[i] * Q
                seg == IF t <= X(1) THEN 1 ELSE IF t >= X(np) THEN np - 1
                       ELSE CHOOSE i \in 1..(np - 1) : X(i) <= t /\ t <= X(i + 1)
                num == (Y(seg + 1) - Y(seg)) * (t - X(seg))
                den == X(seg + 1) - X(seg)
            IN IF Divides(den, num) THEN Y(seg) + SDiv(num, den) ELSE Skip

\* functions decided on measured samples: r.samples = << [lo, hi, isint, defd], ... >>
Transc == {"Exp", "ExpA", "Log", "LogA", "PowR", "Sin", "Cos", "Tan", "Asin", "Acos", "Atan",
           "Sinh", "Cosh", "Tanh", "Asinh", "Acosh", "Atanh"}
TranscBad(c, r) == {i \in 1..Len(r.samples) :
                      LET s == r.samples[i] IN s.defd /\ (s.lo < -1 \/ s.hi < -1 \/ (r.kind = "var" /\ r.int /\ ~s.isint))}
TranscVerdict(c, r) ==
  IF r.kind \in {"throw", "unknowntype"} THEN [v |-> "refused", at |-> {}]
  ELSE IF \A i \in 1..Len(r.samples) : ~r.samples[i].defd THEN [v |-> "vacuous", at |-> {}]
  ELSE LET b == TranscBad(c, r) IN IF b = {} THEN [v |-> "ok", at |-> {}] ELSE [v |-> "unsound", at |-> b]

\* verdict for one case: c = the generated case, r = what the converter answered
\* (kind "const" valQ | "alias" var j (0-based argument) | "var" lbQ ubQ int | "throw")
Values(c) == {ValQ(c, a) : a \in Box(c)} \ {Skip}
Bad(c, r) ==
  LET unit == Q \div c.D
  IN CASE r.kind = "const" -> {a \in Box(c) : ValQ(c, a) # Skip /\ ValQ(c, a) # r.valQ}
       [] r.kind = "alias" -> {a \in Box(c) : ValQ(c, a) # Skip /\ ValQ(c, a) # a[r.var + 1] * unit}
       [] r.kind = "var" -> {a \in Box(c) : LET v == ValQ(c, a) IN
                                v # Skip /\ (v < r.lbQ \/ v > r.ubQ \/ (r.int /\ v % Q # 0))}
       [] OTHER -> {}
Verdict(c, r) ==
  IF c.type \in Transc THEN TranscVerdict(c, r)
  ELSE IF r.kind \in {"throw", "unknowntype"} THEN [v |-> "refused", at |-> {}]
  ELSE IF Values(c) = {} THEN [v |-> "vacuous", at |-> {}]
  ELSE LET b == Bad(c, r) IN IF b = {} THEN [v |-> "ok", at |-> {}] ELSE [v |-> "unsound", at |-> b]

\* Two requests c1 then c2 to ONE converter over the same argument variables (same doms, same D).  When the
\* second is answered with the variable that was introduced for the first ("an expression is replaced by an
\* existing variable only when it really equals it on the whole domain"), the two expressions must have the
\* same value at every point of the box where both are exactly representable.
PairBad(c1, c2) == {a \in Box(c1) : LET v1 == ValQ(c1, a)  v2 == ValQ(c2, a) IN v1 # Skip /\ v2 # Skip /\ v1 # v2}
PairVerdict(c1, c2, same) ==
  IF ~same THEN [v |-> "distinct", at |-> {}]
  ELSE LET b == PairBad(c1, c2) IN IF b = {} THEN [v |-> "ok", at |-> {}] ELSE [v |-> "unsound", at |-> b]
=============================================================================
