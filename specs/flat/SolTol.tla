------------------------------- MODULE SolTol -------------------------------
(* Property C07, the tolerance clause: "... satisfies the original model's     *)
(* variable bounds, integrality, algebraic ... constraints within the          *)
(* configured absolute/relative/integrality tolerances".                       *)
(*                                                                             *)
(* The documented rule (Violation::Check, sol:chk:feastol / feastolrel /       *)
(* inttol): a discrepancy v against a reference value b (the bound, the        *)
(* right-hand side, the recomputed objective) is a violation iff               *)
(*      v > feastol  and  (b = 0  or  v/|b| > feastolrel);                     *)
(* integrality: |x - round(x)| > inttol (absolute only).                       *)
(*                                                                             *)
(* All magnitudes are powers of two so that the doubles involved are exact     *)
(* and the rule is decided on exponents:  v = 2^-d,  feastol = 2^-a,           *)
(* feastolrel = 2^-r (or 0: rz), |b| = 2^k (or 0: bz), inttol = 2^-i.          *)
(* A case c:  what in Whats (which item is off by v, the rest of the point is  *)
(* exact), the exponents, mode (sol:chk:mode), fail (sol:chk:fail).            *)
EXTENDS Integers

Whats == {"ub", "lb", "con_ub", "con_lb", "int", "obj"}

AbsExceeded(d, a) == d < a                          \* 2^-d > 2^-a
RelExceeded(c) == c.bz \/ c.rz \/ (c.d + c.k < c.r) \* b = 0, or 2^-d / 2^k > 2^-r
OffByMoreThanTolerance(c) ==
  IF c.what = "int" THEN c.d < c.i
  ELSE AbsExceeded(c.d, c.a) /\ RelExceeded(c)

\* sol:chk:mode bits: 1 variables, 2 constraints, 16 objectives; 32.. the same with recomputed
\* expression values (for this linear model the same checks)
Bit(m, b) == (m \div b) % 2 = 1
Looked(c) == CASE c.what \in {"ub", "lb", "int"} -> Bit(c.mode, 1) \/ Bit(c.mode, 32)
               [] c.what \in {"con_ub", "con_lb"} -> Bit(c.mode, 2) \/ Bit(c.mode, 64)
               [] c.what = "obj" -> Bit(c.mode, 16) \/ Bit(c.mode, 512)

Reported(c) == Looked(c) /\ OffByMoreThanTolerance(c)
ExpectedWarn(c) == Reported(c) /\ ~c.fail
ExpectedCode(c) == IF Reported(c) /\ c.fail THEN 150 ELSE 0

Verdict(c, o) ==
  IF ~o.solPresent THEN "no-sol"
  ELSE IF o.warn # ExpectedWarn(c) THEN (IF ExpectedWarn(c) THEN "missed-violation" ELSE "false-violation")
  ELSE IF o.code # ExpectedCode(c) THEN "wrong-code"
  ELSE "ok"
=============================================================================
