---------------------------- MODULE TraceSolCheck ----------------------------
(* Two kinds of records.                                                       *)
(* "Canon": a converted model; TLC answers with candidate points and their     *)
(*   canonical auxiliary values (spec -> code direction: these become the      *)
(*   scripted solver answers).                                                 *)
(* "Check": what the real driver reported for one candidate; TLC decides       *)
(*   whether that is what C07 demands.                                         *)
EXTENDS SolCheck, Json, IOUtils
Lines == ndJsonDeserialize(IOEnv.TRACE)
VARIABLES l
E == Lines[l]

CanonOut(c) ==
  LET D == c.D  m == c.nl  d == c.del
      pts == {p \in Candidates(m, D) : NLExact(m, p, D)}
  IN {[p |-> p, x |-> CHOOSE x \in Canon(d, p, D) : TRUE,
       viol |-> Violated(m, p, D),
       obj |-> IF Len(m.objs) > 0 THEN NLObj(m, 1, p, D) ELSE 0]
      : p \in {q \in pts : Canon(d, q, D) # {}}}

CheckVerdict(c) ==
  LET D == c.D  m == c.nl
      ew == ExpectedWarn(m, c.p, D, c.mode, c.st, c.chkinfeas, c.fail)
      ec == ExpectedCode(m, c.p, D, c.mode, c.st, c.chkinfeas, c.fail)
  IN IF ~c.solPresent THEN "no-sol"
     ELSE IF c.warn # ew THEN (IF ew THEN "missed-violation" ELSE "false-violation")
     ELSE IF c.code # ec THEN "wrong-code"
     ELSE "ok"

Init == l = 1
Next == /\ l <= Len(Lines) /\ l' = l + 1
        /\ CASE E.e = "Canon" -> PrintT(<<"CANON", ToJson([id |-> E.id, pts |-> CanonOut(E)])>>)
             [] E.e = "Check" -> PrintT(<<"VERDICT", ToJson([id |-> E.id, v |-> CheckVerdict(E)])>>)
             [] E.e = "Meta" -> TRUE
             [] OTHER -> PrintT(<<"VERDICT", ToJson([id |-> -1, v |-> "crash"])>>)
Spec == Init /\ [][Next]_<<l>>
Finished == (l = Len(Lines) + 1) => PrintT(<<"DONE", ToJson([n |-> Len(Lines)])>>)
=============================================================================
