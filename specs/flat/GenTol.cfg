INIT Init
NEXT Next
INVARIANT Emit
CHECK_DEADLOCK FALSE
