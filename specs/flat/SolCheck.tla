------------------------------ MODULE SolCheck ------------------------------
(* Property C07: the built-in solution check reports a violation iff the      *)
(* candidate point violates the original model (bounds, integrality,          *)
(* algebraic and logical constraints), given the true values of all           *)
(* expressions; with sol:chk:fail the run ends with code 150 exactly then.    *)
EXTENDS FlatSem, TLC

\* candidate points: the domain grid plus, per variable, one step outside each bound
\* (others at their lower bound) and - when D = 2 - a half-integer value for integer variables
RECURSIVE GridFrom(_, _, _)
GridFrom(vars, i, D) ==
  IF i > Len(vars) THEN {<<>>}
  ELSE LET step == IF vars[i].int THEN D ELSE 1
       IN {<<k>> \o r : k \in {k \in vars[i].lb..vars[i].ub : k % step = 0}, r \in GridFrom(vars, i + 1, D)}
Base(vars) == [i \in 1..Len(vars) |-> vars[i].lb]
Outside(vars, D) ==
  UNION {{[Base(vars) EXCEPT ![i] = vars[i].lb - D], [Base(vars) EXCEPT ![i] = vars[i].ub + D]} : i \in 1..Len(vars)}
  \cup (IF D = 2 THEN {[Base(vars) EXCEPT ![i] = vars[i].lb + 1] : i \in {j \in 1..Len(vars) : vars[j].int}} ELSE {})
Candidates(m, D) == GridFrom(m.vars, 1, D) \cup Outside(m.vars, D)

InDomain(m, p, D) ==
  \A i \in 1..Len(p) : /\ m.vars[i].lb <= p[i] /\ p[i] <= m.vars[i].ub
                       /\ m.vars[i].int => p[i] % D = 0

\* the point violates the model
Violated(m, p, D) == ~(InDomain(m, p, D) /\ NLSat(m, p, D))

\* what a correct run reports: warn (the "Tolerance violations" warning), code
\* st = scripted solver status, chkinfeas / fail = options, mode = sol:chk:mode
CheckRuns(st, chkinfeas) == ~(200 <= st /\ st <= 299) \/ chkinfeas
ExpectedWarn(m, p, D, mode, st, chkinfeas, fail) ==
  mode # 0 /\ CheckRuns(st, chkinfeas) /\ ~fail /\ Violated(m, p, D)
ExpectedCode(m, p, D, mode, st, chkinfeas, fail) ==
  IF mode # 0 /\ CheckRuns(st, chkinfeas) /\ fail /\ Violated(m, p, D) THEN 150 ELSE st
=============================================================================
