------------------------ MODULE TraceBoundsDelivered ------------------------
(* Property C06 on the DELIVERED model: the bounds and the type an auxiliary   *)
(* variable finally has (after preprocessing and after bounds were propagated  *)
(* down from root constraints) still contain the value of the expression it    *)
(* stands for at every FEASIBLE point of the original model: propagation may   *)
(* cut off values that no feasible point attains, never one that some feasible *)
(* point needs.  One record per converted model (the same records as C01/C07:  *)
(* nl = the NL model, del = the delivered model); the canonical value of every *)
(* auxiliary variable (FlatSem!Canon: the mathematical value of its defining   *)
(* expression) is compared with its delivered bounds at every feasible grid    *)
(* point.  Defined when every auxiliary variable is the result of a functional *)
(* constraint (native acceptance); otherwise the record is "undetermined".     *)
EXTENDS SolCheck, Json, IOUtils
Lines == ndJsonDeserialize(IOEnv.TRACE)
VARIABLES l
E == Lines[l]

CutOffs(c) ==
  LET D == c.D  m == c.nl  d == c.del  n0 == Len(m.vars)
      pts == {p \in GridFrom(m.vars, 1, D) : NLExact(m, p, D) /\ NLSat(m, p, D)}
      outside(p) == LET x == CHOOSE x \in Canon(d, p, D) : TRUE
                    IN {i \in (n0 + 1)..Len(d.vars) :
                          \* (clipped: the recorder cut a huge bound down for the search of C01; not the real bound)
                          \/ (~d.vars[i].clipped /\ (x[i] < d.vars[i].lb \/ x[i] > d.vars[i].ub))
                          \/ (d.vars[i].int /\ x[i] % D # 0)}
  IN [feasible |-> Cardinality(pts),
      determined |-> Cardinality({p \in pts : Canon(d, p, D) # {}}),
      cut |-> {<<p, outside(p)>> : p \in {q \in pts : Canon(d, q, D) # {} /\ outside(q) # {}}}]

Verdict(c) ==
  LET r == CutOffs(c)
  IN [id |-> c.id,
      v |-> IF r.cut # {} THEN "cutoff" ELSE IF r.determined = 0 THEN "undetermined" ELSE "ok",
      feasible |-> r.feasible, determined |-> r.determined,
      at |-> IF r.cut = {} THEN <<>> ELSE LET w == CHOOSE w \in r.cut : TRUE IN <<w[1], w[2]>>]

Init == l = 1
Next == /\ l <= Len(Lines) /\ l' = l + 1
        /\ CASE E.e = "Deliv" -> PrintT(<<"VERDICT", ToJson(Verdict(E))>>)
             [] E.e = "Meta" -> TRUE
             [] OTHER -> PrintT(<<"VERDICT", ToJson([id |-> -1, v |-> "crash", feasible |-> 0, determined |-> 0, at |-> <<>>])>>)
Spec == Init /\ [][Next]_<<l>>
Finished == (l = Len(Lines) + 1) => PrintT(<<"DONE", ToJson([n |-> Len(Lines)])>>)
=============================================================================
