SPECIFICATION Spec
INVARIANT Finished
CHECK_DEADLOCK FALSE
