----------------------------- MODULE TraceSolTol -----------------------------
(* One record per driver run: the generated case and what the real solution    *)
(* check reported for it; TLC decides with SolTol!Verdict.                     *)
EXTENDS SolTol, Json, IOUtils, TLC, Sequences
Lines == ndJsonDeserialize(IOEnv.TRACE)
VARIABLES l
E == Lines[l]
Init == l = 1
Next == /\ l <= Len(Lines) /\ l' = l + 1
        /\ CASE E.e = "Tol" -> PrintT(<<"VERDICT", ToJson([id |-> E.id, v |-> Verdict(E.c, E.o)])>>)
             [] E.e = "Meta" -> TRUE
             [] OTHER -> PrintT(<<"VERDICT", ToJson([id |-> -1, v |-> "crash"])>>)
Spec == Init /\ [][Next]_<<l>>
Finished == (l = Len(Lines) + 1) => PrintT(<<"DONE", ToJson([n |-> Len(Lines)])>>)
=============================================================================
