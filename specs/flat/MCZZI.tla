------------------------------- MODULE MCZZI -------------------------------
(* design check (the encoding of ZZI.tla is an SOS2 encoding for d = 2..8),   *)
(* self-test (with the repeated last line replaced by 0 it is not), and the   *)
(* generator of call histories: up to three sets of 3..10 members converted   *)
(* one after the other by the same converter                                  *)
EXTENDS ZZI, TLC, Json
VARIABLE h
Init == h \in UNION {[1..n -> 2..9] : n \in 1..3}
Next == UNCHANGED h
Correct == \A d \in 2..9 : EncodingCorrect(d)
ASSUME Correct
\* self-test: without the repeated last line in the upper row the last segment of a 3-member set is cut off
ASSUME ~EncodesSOS2(2, SpecLo(2), <<<<0, 1, 0>>>>)
Emit == PrintT(<<"CASE", ToJson([h |-> h])>>)
=============================================================================
