------------------------------- MODULE GenNL -------------------------------
(* Case generator for the converter properties (C01, C06, C07, C04, C19, C20).*)
(* TLC enumerates abstract NL models of the exactly-reformulable fragment:    *)
(* one operator at the root of a small expression over three variables,       *)
(* crossed with argument shapes, variable-domain patterns and the way the     *)
(* expression is used (algebraic constraint, logical constraint, under not,   *)
(* objective, nested in another operator, shared by two users).  Each initial *)
(* state is one model; the invariant Emit prints it as JSON for the           *)
(* concretiser (tools/nlgen.py), which only serialises.                       *)
(* With -simulate the Grow actions build deeper random trees instead.         *)
EXTENDS Integers, Sequences, FiniteSets, TLC, Json

CONSTANT Layer      \* "exhaustive" | "grow"

N(c) == [k |-> "n", v |-> c]
V(i) == [k |-> "v", i |-> i]
O1(op, a) == [k |-> "o", op |-> op, a |-> <<a>>]
O2(op, a, b) == [k |-> "o", op |-> op, a |-> <<a, b>>]
O3(op, a, b, c) == [k |-> "o", op |-> op, a |-> <<a, b, c>>]
ON(op, s) == [k |-> "o", op |-> op, a |-> s]
PL(s, b, a) == [k |-> "pl", s |-> s, b |-> b, a |-> <<a>>]

\* variable-domain patterns: [lb, ub, int]
Dom(name) ==
  CASE name = "bin"  -> [lb |-> 0,  ub |-> 1,  int |-> TRUE]
    [] name = "pm2"  -> [lb |-> -2, ub |-> 2,  int |-> TRUE]
    [] name = "i03"  -> [lb |-> 0,  ub |-> 3,  int |-> TRUE]
    [] name = "i13"  -> [lb |-> 1,  ub |-> 3,  int |-> TRUE]
    [] name = "neg"  -> [lb |-> -3, ub |-> -1, int |-> TRUE]
    [] name = "fix"  -> [lb |-> 2,  ub |-> 2,  int |-> TRUE]
    [] name = "c02"  -> [lb |-> 0,  ub |-> 2,  int |-> FALSE]
    [] name = "cpm1" -> [lb |-> -1, ub |-> 1,  int |-> FALSE]
Patterns == { <<"pm2", "i03", "bin">>, <<"i03", "neg", "c02">>, <<"bin", "bin", "bin">>,
              <<"c02", "cpm1", "i13">>, <<"i13", "fix", "pm2">>, <<"neg", "pm2", "cpm1">>,
              <<"cpm1", "c02", "c02">> }

\* argument shapes: how the operands of the root operator are built from x0, x1, x2
Shapes == {"vars", "affine", "mixed", "const2"}
Arg(shape, j) ==   \* j-th numeric operand (1..3)
  CASE shape = "vars"   -> V(j - 1)
    [] shape = "affine" -> IF j = 1 THEN O2(0, O2(2, N(2), V(0)), N(-1))            \* 2*x0 - 1
                           ELSE IF j = 2 THEN O2(1, V(1), V(2))                       \* x1 - x2
                           ELSE O1(16, V(2))                                          \* -x2
    [] shape = "mixed"  -> IF j = 1 THEN V(0) ELSE IF j = 2 THEN N(1) ELSE O2(0, V(1), V(2))
    [] shape = "const2" -> IF j = 2 THEN N(2) ELSE V(j - 1)
\* logical operands
LArg(shape, j) ==
  CASE shape = "vars"   -> O2(28, V(j - 1), N(1))                                     \* x >= 1
    [] shape = "affine" -> IF j = 1 THEN O2(23, O2(0, V(0), V(1)), N(1))              \* x0 + x1 <= 1
                           ELSE IF j = 2 THEN O2(24, V(1), N(1))                      \* x1 = 1
                           ELSE O2(29, V(2), V(0))                                    \* x2 > x0
    [] shape = "mixed"  -> IF j = 1 THEN O2(22, V(0), V(1))                           \* x0 < x1
                           ELSE IF j = 2 THEN O1(34, O2(24, V(2), N(0)))              \* not (x2 = 0)
                           ELSE O2(30, V(0), N(2))                                    \* x0 != 2
    [] shape = "const2" -> IF j = 2 THEN O2(23, V(1), N(2)) ELSE O2(28, V(j - 1), N(0))

\* numeric root operators
NumOps == {"add", "sub", "mul", "mulc", "neg", "abs", "min2", "max2", "min3", "max3", "if", "count",
           "numberofc", "numberofv", "pl", "divc", "sqr", "pow3", "sum3", "absdiff", "maxabs"}
NumExpr(op, sh) ==
  LET a == Arg(sh, 1)  b == Arg(sh, 2)  c == Arg(sh, 3)
  IN CASE op = "add"  -> O2(0, a, b)
       [] op = "sub"  -> O2(1, a, b)
       [] op = "mul"  -> O2(2, a, b)
       [] op = "mulc" -> O2(2, N(-2), a)
       [] op = "neg"  -> O1(16, a)
       [] op = "abs"  -> O1(15, a)
       [] op = "min2" -> ON(11, <<a, b>>)
       [] op = "max2" -> ON(12, <<a, b>>)
       [] op = "min3" -> ON(11, <<a, b, c>>)
       [] op = "max3" -> ON(12, <<a, b, c>>)
       [] op = "if"   -> O3(35, LArg(sh, 1), b, c)
       [] op = "count" -> ON(59, <<LArg(sh, 1), LArg(sh, 2), LArg(sh, 3)>>)
       [] op = "numberofc" -> ON(60, <<N(1), a, b, c>>)
       [] op = "numberofv" -> ON(60, <<a, b, c>>)
       [] op = "pl"   -> PL(<<-1, 1, 2>>, <<0, 1>>, V(0))
       [] op = "divc" -> O2(3, a, N(2))
       [] op = "sqr"  -> O1(77, a)
       [] op = "pow3" -> O2(76, a, N(3))
       [] op = "sum3" -> ON(54, <<a, b, c>>)
       [] op = "less" -> O2(6, a, b)
       [] op = "absdiff" -> O1(15, O2(1, a, b))
       [] op = "maxabs"  -> ON(12, <<O1(15, a), b>>)

LogOps == {"lt", "le", "eq", "ge", "gt", "ne", "and", "or", "not", "iff", "impl", "implelse", "forall", "exists",
           "alldiff", "nalldiff", "atleast", "atmost", "exactly", "natleast", "natmost", "nexactly", "eqmax", "ifeq"}
LogExpr(op, sh) ==
  LET a == Arg(sh, 1)  b == Arg(sh, 2)  c == Arg(sh, 3)
      p == LArg(sh, 1) q == LArg(sh, 2) r == LArg(sh, 3)
      cnt == ON(59, <<p, q, r>>)
  IN CASE op = "lt" -> O2(22, a, b)  [] op = "le" -> O2(23, a, b)  [] op = "eq" -> O2(24, a, b)
       [] op = "ge" -> O2(28, a, b)  [] op = "gt" -> O2(29, a, b)  [] op = "ne" -> O2(30, a, b)
       [] op = "and" -> O2(21, p, q) [] op = "or" -> O2(20, p, q)  [] op = "not" -> O1(34, p)
       [] op = "iff" -> O2(73, p, q)
       [] op = "impl" -> O3(72, p, q, N(1))            \* p ==> q   (else true)
       [] op = "implelse" -> O3(72, p, q, r)           \* p ==> q else r
       [] op = "forall" -> ON(70, <<p, q, r>>)
       [] op = "exists" -> ON(71, <<p, q, r>>)
       [] op = "alldiff" -> ON(74, <<a, b, c>>)
       [] op = "nalldiff" -> ON(75, <<a, b, c>>)
       [] op = "atleast" -> O2(62, N(2), cnt)
       [] op = "atmost" -> O2(63, N(1), cnt)
       [] op = "exactly" -> O2(66, N(1), cnt)
       [] op = "natleast" -> O2(67, N(2), cnt)
       [] op = "natmost" -> O2(68, N(1), cnt)
       [] op = "nexactly" -> O2(69, N(1), cnt)
       [] op = "eqmax" -> O2(24, ON(12, <<a, b>>), c)  \* max(a,b) = c
       [] op = "ifeq" -> O2(23, O3(35, p, a, b), N(1)) \* (if p then a else b) <= 1

\* how a numeric expression E is used
NumUses == {"con_le", "con_ge", "con_eq", "con_range", "objmin", "objmax", "lcon_lt", "lcon_ne", "lcon_noteq",
            "shared", "inabs", "inor"}
\* how a logical expression B is used
LogUses == {"lcon", "lnot", "lor", "countcon", "ifobj", "liff", "shared"}

NoCon == [lb |-> "-inf", ub |-> "inf", lin |-> <<>>, has |-> FALSE, e |-> N(0)]
Con(lb, ub, e) == [lb |-> lb, ub |-> ub, lin |-> <<>>, has |-> TRUE, e |-> e]
LinCon(lb, ub, lin) == [lb |-> lb, ub |-> ub, lin |-> lin, has |-> FALSE, e |-> N(0)]
Obj(max, e) == [max |-> max, lin |-> <<>>, has |-> TRUE, e |-> e]
LinObj(max, lin) == [max |-> max, lin |-> lin, has |-> FALSE, e |-> N(0)]
SumObj == LinObj(FALSE, << <<0, 1>>, <<1, 2>>, <<2, -1>> >>)       \* a fixed linear objective x0 + 2 x1 - x2

Model(pat, cons, lcons, objs) ==
  [vars |-> [j \in 1..3 |-> Dom(pat[j])], cons |-> cons, lcons |-> lcons, objs |-> objs, dvars |-> <<>>]

NumModel(op, sh, pat, use, k) ==
  LET E == NumExpr(op, sh)
  IN CASE use = "con_le" -> Model(pat, <<Con("-inf", k, E)>>, <<>>, <<SumObj>>)
       [] use = "con_ge" -> Model(pat, <<Con(k, "inf", E)>>, <<>>, <<SumObj>>)
       [] use = "con_eq" -> Model(pat, <<Con(k, k, E)>>, <<>>, <<>>)
       [] use = "con_range" -> Model(pat, <<Con(k - 1, k + 1, E)>>, <<>>, <<SumObj>>)
       [] use = "objmin" -> Model(pat, <<LinCon(k, "inf", << <<0, 1>>, <<1, 1>> >>)>>, <<>>, <<Obj(FALSE, E)>>)
       [] use = "objmax" -> Model(pat, <<LinCon("-inf", k + 2, << <<0, 1>>, <<2, 1>> >>)>>, <<>>, <<Obj(TRUE, E)>>)
       [] use = "lcon_lt" -> Model(pat, <<>>, <<O2(22, E, N(k))>>, <<SumObj>>)
       [] use = "lcon_ne" -> Model(pat, <<>>, <<O2(30, E, N(k))>>, <<>>)
       [] use = "lcon_noteq" -> Model(pat, <<>>, <<O1(34, O2(24, E, N(k)))>>, <<SumObj>>)
       [] use = "shared" -> Model(pat, <<Con(k, "inf", E)>>, <<O2(20, O2(23, E, N(k + 1)), O2(28, V(2), N(1)))>>, <<Obj(FALSE, E)>>)
       [] use = "inabs" -> Model(pat, <<Con("-inf", k + 1, O1(15, O2(1, E, N(1))))>>, <<>>, <<SumObj>>)
       [] use = "inor" -> Model(pat, <<>>, <<O2(20, O2(28, E, N(k)), O2(23, V(2), N(0)))>>, <<SumObj>>)

LogModel(op, sh, pat, use) ==
  LET B == LogExpr(op, sh)
  IN CASE use = "lcon" -> Model(pat, <<>>, <<B>>, <<SumObj>>)
       [] use = "lnot" -> Model(pat, <<>>, <<O1(34, B)>>, <<SumObj>>)
       [] use = "lor" -> Model(pat, <<>>, <<O2(20, B, O2(28, V(2), N(1)))>>, <<>>)
       [] use = "countcon" -> Model(pat, <<Con(1, "inf", ON(59, <<B, O2(23, V(2), N(0))>>))>>, <<>>, <<SumObj>>)
       [] use = "ifobj" -> Model(pat, <<LinCon(1, "inf", << <<0, 1>>, <<1, 1>> >>)>>, <<>>, <<Obj(FALSE, O3(35, B, V(0), O2(0, V(1), N(1))))>>)
       [] use = "liff" -> Model(pat, <<>>, <<O2(73, B, O2(28, V(2), N(1)))>>, <<SumObj>>)
       [] use = "shared" -> Model(pat, <<>>, <<O2(20, B, O2(24, V(2), N(0))), O3(72, O2(28, V(2), N(1)), O1(34, B), N(1))>>, <<SumObj>>)

VARIABLES kind, op, sh, pat, use, k
vars == <<kind, op, sh, pat, use, k>>

Init ==
  /\ Layer = "exhaustive"
  /\ pat \in Patterns /\ sh \in Shapes
  /\ \/ (kind = "num" /\ op \in NumOps /\ use \in NumUses /\ k \in {0, 1, 2})
     \/ (kind = "log" /\ op \in LogOps /\ use \in LogUses /\ k = 0)
Next == UNCHANGED vars

CaseId == <<kind, op, sh, pat, use, k>>
TheModel == IF kind = "num" THEN NumModel(op, sh, pat, use, k) ELSE LogModel(op, sh, pat, use)
Emit == PrintT(<<"CASE", ToJson([kind |-> kind, op |-> op, sh |-> sh, pat |-> pat, use |-> use, k |-> k, m |-> TheModel])>>)
=============================================================================
