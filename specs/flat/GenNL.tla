------------------------------- MODULE GenNL -------------------------------
(* Case generator for the converter properties (C01, C06, C07, C04, C19, C20).*)
(* TLC enumerates abstract NL models of the exactly-reformulable fragment:    *)
(* one operator at the root of a small expression over three variables,       *)
(* crossed with argument shapes, variable-domain patterns and the way the     *)
(* expression is used (algebraic constraint, logical constraint, under not,   *)
(* objective, nested in another operator, shared by two users).  Each initial *)
(* state is one model; the invariant Emit prints it as JSON for the           *)
(* concretiser (tools/nlgen.py), which only serialises.                       *)
(* With -simulate the Grow actions build deeper random trees instead.         *)
EXTENDS Integers, Sequences, FiniteSets, TLC, Json

CONSTANT Layer      \* "exhaustive" | "grow"

N(c) == [k |-> "n", v |-> c]
V(i) == [k |-> "v", i |-> i]
O1(op, a) == [k |-> "o", op |-> op, a |-> <<a>>]
O2(op, a, b) == [k |-> "o", op |-> op, a |-> <<a, b>>]
O3(op, a, b, c) == [k |-> "o", op |-> op, a |-> <<a, b, c>>]
ON(op, s) == [k |-> "o", op |-> op, a |-> s]
PL(s, b, a) == [k |-> "pl", s |-> s, b |-> b, a |-> <<a>>]

\* variable-domain patterns: [lb, ub, int]
Dom(name) ==
  CASE name = "bin"  -> [lb |-> 0,  ub |-> 1,  int |-> TRUE]
    [] name = "pm2"  -> [lb |-> -2, ub |-> 2,  int |-> TRUE]
    [] name = "i03"  -> [lb |-> 0,  ub |-> 3,  int |-> TRUE]
    [] name = "i13"  -> [lb |-> 1,  ub |-> 3,  int |-> TRUE]
    [] name = "neg"  -> [lb |-> -3, ub |-> -1, int |-> TRUE]
    [] name = "fix"  -> [lb |-> 2,  ub |-> 2,  int |-> TRUE]
    [] name = "c02"  -> [lb |-> 0,  ub |-> 2,  int |-> FALSE]
    [] name = "cpm1" -> [lb |-> -1, ub |-> 1,  int |-> FALSE]
Patterns == { <<"pm2", "i03", "bin">>, <<"i03", "neg", "c02">>, <<"bin", "bin", "bin">>,
              <<"c02", "cpm1", "i13">>, <<"i13", "fix", "pm2">>, <<"neg", "pm2", "cpm1">>,
              <<"cpm1", "c02", "c02">> }

\* argument shapes: how the operands of the root operator are built from x0, x1, x2
Shapes == {"vars", "affine", "mixed", "const2"}
Arg(shape, j) ==   \* j-th numeric operand (1..3)
  CASE shape = "vars"   -> V(j - 1)
    [] shape = "affine" -> IF j = 1 THEN O2(0, O2(2, N(2), V(0)), N(-1))            \* 2*x0 - 1
                           ELSE IF j = 2 THEN O2(1, V(1), V(2))                       \* x1 - x2
                           ELSE O1(16, V(2))                                          \* -x2
    [] shape = "mixed"  -> IF j = 1 THEN V(0) ELSE IF j = 2 THEN N(1) ELSE O2(0, V(1), V(2))
    [] shape = "const2" -> IF j = 2 THEN N(2) ELSE V(j - 1)
\* logical operands
LArg(shape, j) ==
  CASE shape = "vars"   -> O2(28, V(j - 1), N(1))                                     \* x >= 1
    [] shape = "affine" -> IF j = 1 THEN O2(23, O2(0, V(0), V(1)), N(1))              \* x0 + x1 <= 1
                           ELSE IF j = 2 THEN O2(24, V(1), N(1))                      \* x1 = 1
                           ELSE O2(29, V(2), V(0))                                    \* x2 > x0
    [] shape = "mixed"  -> IF j = 1 THEN O2(22, V(0), V(1))                           \* x0 < x1
                           ELSE IF j = 2 THEN O1(34, O2(24, V(2), N(0)))              \* not (x2 = 0)
                           ELSE O2(30, V(0), N(2))                                    \* x0 != 2
    [] shape = "const2" -> IF j = 2 THEN O2(23, V(1), N(2)) ELSE O2(28, V(j - 1), N(0))

\* numeric root operators
NumOps == {"plneg", "plpos",             \* piecewise-linear terms whose breakpoints all lie on one side of 0
           "pl1",                        \* a piecewise-linear term with a single breakpoint (three points on a bounded domain)
           "div", "ifc", "countn",       \* division by an expression, if-then-else with constant branches, count of numeric operands
           "add", "sub", "mul", "mulc", "neg", "abs", "min2", "max2", "min3", "max3", "if", "count",
           "numberofc", "numberofv", "pl", "divc", "sqr", "pow3", "sum3", "absdiff", "maxabs"}
NumExprA(op, a, b, c, p, q, r) ==
  CASE op = "add"  -> O2(0, a, b)
    [] op = "sub"  -> O2(1, a, b)
    [] op = "mul"  -> O2(2, a, b)
    [] op = "mulc" -> O2(2, N(-2), a)
    [] op = "neg"  -> O1(16, a)
    [] op = "abs"  -> O1(15, a)
    [] op = "min2" -> ON(11, <<a, b>>)
    [] op = "max2" -> ON(12, <<a, b>>)
    [] op = "min3" -> ON(11, <<a, b, c>>)
    [] op = "max3" -> ON(12, <<a, b, c>>)
    [] op = "if"   -> O3(35, p, b, c)
    [] op = "count" -> ON(59, <<p, q, r>>)
    [] op = "div"  -> O2(3, a, b)                    \* points where b = 0 are outside the function's domain (not evaluated)
    [] op = "ifc"  -> O3(35, p, N(3), N(-1))
    [] op = "countn" -> ON(59, <<a, b, q>>)          \* a numeric operand counts when it is not 0
    [] op = "numberofc" -> ON(60, <<N(1), a, b, c>>)
    [] op = "numberofv" -> ON(60, <<a, b, c>>)
    [] op = "pl"   -> PL(<<-1, 1, 2>>, <<0, 1>>, V(0))
    [] op = "pl1"  -> PL(<<-1, 2>>, <<1>>, a)
    [] op = "plneg" -> PL(<<1, -2, 3>>, <<-3, -2>>, a)
    [] op = "plpos" -> PL(<<2, -1, 1>>, <<1, 2>>, a)
    [] op = "divc" -> O2(3, a, N(2))
    [] op = "sqr"  -> O1(77, a)
    [] op = "pow3" -> O2(76, a, N(3))
    [] op = "sum3" -> ON(54, <<a, b, c>>)
    [] op = "absdiff" -> O1(15, O2(1, a, b))
    [] op = "maxabs"  -> ON(12, <<O1(15, a), b>>)
NumExpr(op, sh) == NumExprA(op, Arg(sh, 1), Arg(sh, 2), Arg(sh, 3), LArg(sh, 1), LArg(sh, 2), LArg(sh, 3))
\* depth-2 composition: the first operand of op1 (numeric or logical) is itself a root operator over x0, x1, x2
NestOuter == {"add", "mulc", "neg", "abs", "min2", "max2", "if", "count", "sum3", "maxabs"}
NestInner == {"sub", "mul", "abs", "min2", "max3", "if", "numberofc", "divc", "sqr", "absdiff"}
NestExpr(op1, op2) ==
  LET inner == NumExpr(op2, "vars")
  IN NumExprA(op1, inner, V(1), O2(0, V(2), N(1)), O2(28, inner, N(1)), O2(23, V(1), N(1)), O2(24, inner, V(2)))

\* half-integer constant v2/2 (the model is then evaluated on the half-integer grid, D = 2)
H(v2) == [k |-> "h", v2 |-> v2]
\* comparisons of the first operand with 3/2: an integer-valued operand never equals it, strict and
\* non-strict forms must be rounded differently
HalfOps == {"lth", "leh", "eqh", "geh", "gth", "neh"}
\* conjunction / disjunction with a constant operand (folded by the converter's preprocessing)
ConstOps == {"andc1", "andc0", "orc1", "orc0", "and3c"}
LogOps == HalfOps \cup ConstOps \cup
          {"lt", "le", "eq", "ge", "gt", "ne", "and", "or", "not", "iff", "impl", "implelse", "forall", "exists",
           "alldiff", "nalldiff", "atleast", "atmost", "exactly", "natleast", "natmost", "nexactly", "eqmax", "ifeq"}
LogExpr(op, sh) ==
  LET a == Arg(sh, 1)  b == Arg(sh, 2)  c == Arg(sh, 3)
      p == LArg(sh, 1) q == LArg(sh, 2) r == LArg(sh, 3)
      cnt == ON(59, <<p, q, r>>)
  IN CASE op = "lt" -> O2(22, a, b)  [] op = "le" -> O2(23, a, b)  [] op = "eq" -> O2(24, a, b)
       [] op = "andc1" -> O2(21, p, N(1)) [] op = "andc0" -> O2(21, p, N(0))
       [] op = "orc1" -> O2(20, p, N(1))  [] op = "orc0" -> O2(20, p, N(0))
       [] op = "and3c" -> ON(70, <<p, N(1), q>>)
       [] op = "lth" -> O2(22, a, H(3)) [] op = "leh" -> O2(23, a, H(3)) [] op = "eqh" -> O2(24, a, H(3))
       [] op = "geh" -> O2(28, a, H(3)) [] op = "gth" -> O2(29, a, H(3)) [] op = "neh" -> O2(30, a, H(3))
       [] op = "ge" -> O2(28, a, b)  [] op = "gt" -> O2(29, a, b)  [] op = "ne" -> O2(30, a, b)
       [] op = "and" -> O2(21, p, q) [] op = "or" -> O2(20, p, q)  [] op = "not" -> O1(34, p)
       [] op = "iff" -> O2(73, p, q)
       [] op = "impl" -> O3(72, p, q, N(1))            \* p ==> q   (else true)
       [] op = "implelse" -> O3(72, p, q, r)           \* p ==> q else r
       [] op = "forall" -> ON(70, <<p, q, r>>)
       [] op = "exists" -> ON(71, <<p, q, r>>)
       [] op = "alldiff" -> ON(74, <<a, b, c>>)
       [] op = "nalldiff" -> ON(75, <<a, b, c>>)
       [] op = "atleast" -> O2(62, N(2), cnt)
       [] op = "atmost" -> O2(63, N(1), cnt)
       [] op = "exactly" -> O2(66, N(1), cnt)
       [] op = "natleast" -> O2(67, N(2), cnt)
       [] op = "natmost" -> O2(68, N(1), cnt)
       [] op = "nexactly" -> O2(69, N(1), cnt)
       [] op = "eqmax" -> O2(24, ON(12, <<a, b>>), c)  \* max(a,b) = c
       [] op = "ifeq" -> O2(23, O3(35, p, a, b), N(1)) \* (if p then a else b) <= 1

\* how a numeric expression E is used
NumUses == {"con_le", "con_ge", "con_eq", "con_range", "objmin", "objmax", "lcon_lt", "lcon_ne", "lcon_noteq",
            "shared", "inabs", "inor", "lcon_lth", "iff_gth"}
\* uses with a half-integer constant need the half-integer grid, on which products are not evaluated
HalfUses == {"lcon_lth", "iff_gth"}
NoHalfOps == {"mul", "sqr", "pow3"}
\* how a logical expression B is used
\* sharednest / sharednestor / sharedroot / sharedrootnot: B occurs twice, and one occurrence is dissolved by the
\* converter (an and nested in an and / an or nested in an or is inlined; a root-level conjunction is fixed true, a
\* negated root-level disjunction fixed false) while the other one still needs B's defining constraint
LogUses == {"lcon", "lnot", "lor", "countcon", "ifobj", "liff", "shared", "sharednest", "sharednestor", "sharedroot", "sharedrootnot"}

NoCon == [lb |-> "-inf", ub |-> "inf", lin |-> <<>>, has |-> FALSE, e |-> N(0)]
Con(lb, ub, e) == [lb |-> lb, ub |-> ub, lin |-> <<>>, has |-> TRUE, e |-> e]
LinCon(lb, ub, lin) == [lb |-> lb, ub |-> ub, lin |-> lin, has |-> FALSE, e |-> N(0)]
Obj(max, e) == [max |-> max, lin |-> <<>>, has |-> TRUE, e |-> e]
LinObj(max, lin) == [max |-> max, lin |-> lin, has |-> FALSE, e |-> N(0)]
SumObj == LinObj(FALSE, << <<0, 1>>, <<1, 2>>, <<2, -1>> >>)       \* a fixed linear objective x0 + 2 x1 - x2

Model(pat, cons, lcons, objs) ==
  [vars |-> [j \in 1..3 |-> Dom(pat[j])], cons |-> cons, lcons |-> lcons, objs |-> objs, dvars |-> <<>>,
   compl |-> <<>>, sos |-> <<>>]

NumModel(op, sh, pat, use, k) ==
  LET E == NumExpr(op, sh)
  IN CASE use = "con_le" -> Model(pat, <<Con("-inf", k, E)>>, <<>>, <<SumObj>>)
       [] use = "con_ge" -> Model(pat, <<Con(k, "inf", E)>>, <<>>, <<SumObj>>)
       [] use = "con_eq" -> Model(pat, <<Con(k, k, E)>>, <<>>, <<>>)
       [] use = "con_range" -> Model(pat, <<Con(k - 1, k + 1, E)>>, <<>>, <<SumObj>>)
       [] use = "objmin" -> Model(pat, <<LinCon(k, "inf", << <<0, 1>>, <<1, 1>> >>)>>, <<>>, <<Obj(FALSE, E)>>)
       [] use = "objmax" -> Model(pat, <<LinCon("-inf", k + 2, << <<0, 1>>, <<2, 1>> >>)>>, <<>>, <<Obj(TRUE, E)>>)
       [] use = "lcon_lt" -> Model(pat, <<>>, <<O2(22, E, N(k))>>, <<SumObj>>)
       [] use = "lcon_ne" -> Model(pat, <<>>, <<O2(30, E, N(k))>>, <<>>)
       [] use = "lcon_noteq" -> Model(pat, <<>>, <<O1(34, O2(24, E, N(k)))>>, <<SumObj>>)
       [] use = "shared" -> Model(pat, <<Con(k, "inf", E)>>, <<O2(20, O2(23, E, N(k + 1)), O2(28, V(2), N(1)))>>, <<Obj(FALSE, E)>>)
       [] use = "inabs" -> Model(pat, <<Con("-inf", k + 1, O1(15, O2(1, E, N(1))))>>, <<>>, <<SumObj>>)
       [] use = "inor" -> Model(pat, <<>>, <<O2(20, O2(28, E, N(k)), O2(23, V(2), N(0)))>>, <<SumObj>>)
       [] use = "lcon_lth" -> Model(pat, <<>>, <<O2(22, E, H(2 * k + 1))>>, <<SumObj>>)                            \* E < k + 1/2
       [] use = "iff_gth" -> Model(pat, <<>>, <<O2(73, O2(28, V(2), N(1)), O2(29, E, H(2 * k + 1)))>>, <<SumObj>>)  \* x2 >= 1 <==> E > k + 1/2

LogModel(op, sh, pat, use) ==
  LET B == LogExpr(op, sh)
  IN CASE use = "lcon" -> Model(pat, <<>>, <<B>>, <<SumObj>>)
       [] use = "lnot" -> Model(pat, <<>>, <<O1(34, B)>>, <<SumObj>>)
       [] use = "lor" -> Model(pat, <<>>, <<O2(20, B, O2(28, V(2), N(1)))>>, <<>>)
       [] use = "countcon" -> Model(pat, <<Con(1, "inf", ON(59, <<B, O2(23, V(2), N(0))>>))>>, <<>>, <<SumObj>>)
       [] use = "ifobj" -> Model(pat, <<LinCon(1, "inf", << <<0, 1>>, <<1, 1>> >>)>>, <<>>, <<Obj(FALSE, O3(35, B, V(0), O2(0, V(1), N(1))))>>)
       [] use = "liff" -> Model(pat, <<>>, <<O2(73, B, O2(28, V(2), N(1)))>>, <<SumObj>>)
       [] use = "shared" -> Model(pat, <<>>, <<O2(20, B, O2(24, V(2), N(0))), O3(72, O2(28, V(2), N(1)), O1(34, B), N(1))>>, <<SumObj>>)
       [] use = "sharednest" -> Model(pat, <<>>, <<O2(20, B, O2(23, V(2), N(0))),
                                                   O2(20, O2(21, B, O2(28, V(2), N(1))), O2(24, V(1), N(0)))>>, <<SumObj>>)
       [] use = "sharednestor" -> Model(pat, <<>>, <<O2(20, O2(21, B, O2(23, V(2), N(0))), O2(24, V(1), N(0))),
                                                     O2(20, O2(20, B, O2(28, V(2), N(1))), O2(21, O2(24, V(1), N(0)), O2(23, V(2), N(0))))>>, <<SumObj>>)
       [] use = "sharedroot" -> Model(pat, <<>>, <<O2(20, B, O2(23, V(2), N(0))), B>>, <<SumObj>>)
       [] use = "sharedrootnot" -> Model(pat, <<>>, <<O2(20, B, O2(23, V(2), N(0))), O1(34, B)>>, <<SumObj>>)

\* defined variables: d0 = E, used by a constraint, a logical constraint and the objective; d1 linear only
DVModel(op, sh, pat, k) ==
  LET E == NumExpr(op, sh)  D0 == [k |-> "d", i |-> 0]  D1 == [k |-> "d", i |-> 1]
  IN [vars |-> [j \in 1..3 |-> Dom(pat[j])],
      cons |-> <<Con("-inf", k + 1, D0), Con(-3, "inf", O2(0, D1, D0))>>,
      lcons |-> <<O2(20, O2(28, D0, N(k)), O2(28, V(2), N(1)))>>,
      objs |-> <<Obj(FALSE, O2(0, D0, V(2)))>>,
      dvars |-> <<[lin |-> <<>>, has |-> TRUE, e |-> E], [lin |-> << <<0, 1>>, <<1, -1>> >>, has |-> FALSE, e |-> N(0)]>>,
      compl |-> <<>>, sos |-> <<>>]
\* complementarity: (body E) complements variable x2 within its bounds
ComplModel(op, sh, pat, k) ==
  [Model(pat, <<Con(0, 0, NumExpr(op, sh)), LinCon("-inf", 4, << <<0, 1>>, <<1, 1>> >>)>>, <<>>, <<SumObj>>)
     EXCEPT !.compl = << <<0, 2>> >>]
\* SOS sets given by the suffixes sosno / ref on the three variables; kind 1 or 2
SOSModel(skind, pat, k) ==
  [Model(pat, <<LinCon(k, "inf", << <<0, 1>>, <<1, 1>>, <<2, 1>> >>)>>, <<>>, <<LinObj(TRUE, << <<0, 1>>, <<1, 2>>, <<2, 1>> >>)>>)
     EXCEPT !.sos = <<[kind |-> skind, items |-> << <<0, 1>>, <<1, 2>>, <<2, 3>> >>]>>]

\* second-order cone shapes over x0, x1, x2 (recognised and passed as cones when the solver takes them,
\* as quadratic constraints otherwise); k = 1 shifts the right-hand side so that it is NOT a cone;
\* the patterns include domains where x2 (or x1) may be negative, where the quadratic form is not a cone either
ConeOps == {"soc", "socge", "socc", "rot", "rotge", "soc2"}
ConeCon(op, k) ==
  LET s0 == O1(77, V(0))  s1 == O1(77, V(1))  s2 == O1(77, V(2))
  IN CASE op = "soc"   -> Con("-inf", k, O2(1, O2(0, s0, s1), s2))                                   \* x0^2 + x1^2 <= x2^2
       [] op = "socge" -> Con(0 - k, "inf", O2(1, s2, O2(0, s0, s1)))                                \* x2^2 >= x0^2 + x1^2
       [] op = "socc"  -> Con("-inf", k, O2(1, O2(0, O2(2, N(4), s0), s1), O2(2, N(9), s2)))         \* 4 x0^2 + x1^2 <= 9 x2^2
       [] op = "rot"   -> Con("-inf", k, O2(1, s0, O2(2, O2(2, N(2), V(1)), V(2))))                  \* x0^2 <= 2 x1 x2
       [] op = "rotge" -> Con(0 - k, "inf", O2(1, O2(2, O2(2, N(2), V(1)), V(2)), s0))               \* 2 x1 x2 >= x0^2
       [] op = "soc2"  -> Con("-inf", k, O2(1, s0, s2))                                              \* x0^2 <= x2^2
ConeModel(op, pat, use, k) ==
  IF use = "con" THEN Model(pat, <<ConeCon(op, k)>>, <<>>, <<SumObj>>)
  ELSE Model(pat, <<ConeCon(op, k), LinCon(1, "inf", << <<0, 1>>, <<1, 1>>, <<2, 1>> >>)>>, <<>>, <<LinObj(TRUE, << <<0, 1>>, <<1, 1>>, <<2, -1>> >>)>>)

\* reified comparisons of an operand with constants below, inside and above its range (conditions that are
\* always true / always false / attained at one end are where indicator and big-M linearisations go wrong)
CmpOps == {"lt", "le", "eq", "ge", "gt", "ne"}
CmpExpr(op, a, c) == CASE op = "lt" -> O2(22, a, N(c)) [] op = "le" -> O2(23, a, N(c)) [] op = "eq" -> O2(24, a, N(c))
                       [] op = "ge" -> O2(28, a, N(c)) [] op = "gt" -> O2(29, a, N(c)) [] op = "ne" -> O2(30, a, N(c))
CmpModel(op, sh, pat, use, c) ==
  LET B == CmpExpr(op, Arg(sh, 1), c)
  IN CASE use = "iff"  -> Model(pat, <<>>, <<O2(73, O2(28, V(2), N(1)), B)>>, <<SumObj>>)
       [] use = "or"   -> Model(pat, <<>>, <<O2(20, B, O2(23, V(2), N(0)))>>, <<SumObj>>)
       [] use = "impl" -> Model(pat, <<>>, <<O3(72, O2(28, V(2), N(1)), B, N(1))>>, <<SumObj>>)

\* products whose factors are functional expressions, with either sign of the coefficient: the quadratic term
\* c * F * G sits in a constraint or objective, and which half of F's definition (F <= f(x) or F >= f(x)) the
\* reformulation must keep depends on the sign of c, on the signs of the factors and on the sense of the use
ProdInner == {"max2", "min2", "abs", "if", "count", "numberofc", "absdiff", "maxabs", "min3"}
ProdOther == {"x2", "negx2", "absx2", "same"}
ProdExpr(f, g, c) ==
  LET F == NumExpr(f, "vars")
      G == CASE g = "x2" -> V(2) [] g = "negx2" -> O1(16, V(2)) [] g = "absx2" -> O1(15, V(2)) [] g = "same" -> F
      P == O2(2, F, G)
  IN CASE c = 1 -> P [] c = -1 -> O1(16, P) [] OTHER -> O2(2, N(c), P)
ProdModel(f, g, pat0, use0, k0) ==
  LET c == IF k0 < 0 THEN (IF k0 = -1 THEN -1 ELSE -2) ELSE 1
      E == ProdExpr(f, g, c)
      r == 2 * k0
  IN CASE use0 = "con_le" -> Model(pat0, <<Con("-inf", r, E)>>, <<>>, <<SumObj>>)
       [] use0 = "con_ge" -> Model(pat0, <<Con(r, "inf", E)>>, <<>>, <<SumObj>>)
       [] use0 = "con_eq" -> Model(pat0, <<Con(r, r, E)>>, <<>>, <<>>)
       [] use0 = "objmin" -> Model(pat0, <<LinCon(1, "inf", << <<0, 1>>, <<1, 1>> >>)>>, <<>>, <<Obj(FALSE, E)>>)
       [] use0 = "objmax" -> Model(pat0, <<LinCon("-inf", 3, << <<0, 1>>, <<2, 1>> >>)>>, <<>>, <<Obj(TRUE, E)>>)

\* monotone functions a^F of a functional expression F: 2^F is increasing, (1/2)^F decreasing, so the half of F's
\* definition the reformulation has to keep differs.  Values are on the integer grid where F >= 0 resp. F <= 0
\* (other points are not evaluated).  Operator 1078 is the abstract "(1/2)^a" (written as o78 with base 0.5).
MonoOps == {"exp2", "exph", "exphn"}
MonoInner == {"var", "max2", "min2", "abs", "if", "count", "min3", "maxabs", "absdiff"}
MonoExpr(f, g) ==
  LET F == IF g = "var" THEN V(0) ELSE NumExpr(g, "vars")
  IN CASE f = "exp2" -> O2(78, N(2), F) [] f = "exph" -> O1(1078, F) [] f = "exphn" -> O1(1078, O1(16, F))
MonoModel(f, g, pat0, use0, k0) ==
  LET E == MonoExpr(f, g)
  IN CASE use0 = "con_le" -> Model(pat0, <<Con("-inf", k0, E)>>, <<>>, <<SumObj>>)
       [] use0 = "con_ge" -> Model(pat0, <<Con(k0, "inf", E)>>, <<>>, <<SumObj>>)
       [] use0 = "con_eq" -> Model(pat0, <<Con(k0, k0, E)>>, <<>>, <<>>)
       [] use0 = "objmin" -> Model(pat0, <<LinCon(0, "inf", << <<0, 1>>, <<1, 1>> >>)>>, <<>>, <<Obj(FALSE, E)>>)
       [] use0 = "objmax" -> Model(pat0, <<LinCon("-inf", 2, << <<0, 1>>, <<2, 1>> >>)>>, <<>>, <<Obj(TRUE, E)>>)

\* two equality comparisons of the same variable in one model, x0 = k and 2*x0 = 2k+-1 (never true for an integer
\* x0; after normalisation it reads x0 = k+-1/2): the converter keeps a map from (variable, constant) to the
\* result of the comparison, and the two must not meet in it
EqPairModel(o, order, pat0, k0) ==
  LET A == O2(24, V(0), N(k0))
      B == O2(24, O2(2, N(2), V(0)), N(2 * k0 + (IF o = "up" THEN 1 ELSE -1)))
      IA == O3(72, A, O2(28, V(2), N(1)), N(1))
      IB == O3(72, B, O2(28, V(1), N(1)), N(1))
  IN Model(pat0, <<>>, IF order = "ab" THEN <<IA, IB>> ELSE <<IB, IA>>, <<SumObj>>)

VARIABLES kind, op, sh, pat, use, k
vars == <<kind, op, sh, pat, use, k>>

Init ==
  /\ Layer = "exhaustive"
  /\ pat \in Patterns
  /\ \/ (kind = "num" /\ sh \in Shapes /\ op \in NumOps /\ use \in NumUses /\ k \in {0, 1, 2} /\ (use \in HalfUses => op \notin NoHalfOps))
     \/ (kind = "log" /\ sh \in Shapes /\ op \in LogOps /\ use \in LogUses /\ k = 0)
     \/ (kind = "dvar" /\ sh \in Shapes /\ op \in NumOps /\ use = "dvar" /\ k \in {0, 1, 2})
     \/ (kind = "compl" /\ sh \in Shapes /\ op \in {"add", "sub", "mulc", "neg", "sum3"} /\ use = "compl" /\ k = 0)
     \/ (kind = "sos" /\ op \in {"sos1", "sos2"} /\ sh = "vars" /\ use = "sos" /\ k \in {0, 1, 2})
     \/ (kind = "cmp" /\ op \in CmpOps /\ sh \in {"vars", "affine", "mixed"} /\ use \in {"iff", "or", "impl"} /\ k \in -5..5)
     \/ (kind = "cone" /\ op \in ConeOps /\ sh = "vars" /\ use \in {"con", "con2"} /\ k \in {0, 1})
     \/ (kind = "prod" /\ op \in ProdInner /\ sh \in ProdOther /\ use \in {"con_le", "con_ge", "con_eq", "objmin", "objmax"} /\ k \in {-2, -1, 1, 2})
     \/ (kind = "mono" /\ op \in MonoOps /\ sh \in MonoInner /\ use \in {"con_le", "con_ge", "con_eq", "objmin", "objmax"} /\ k \in {1, 2, 4})
     \/ (kind = "eqpair" /\ op \in {"up", "dn"} /\ sh \in {"ab", "ba"} /\ use = "impl" /\ k \in -1..3)
     \/ (kind = "nest" /\ op \in NestOuter /\ sh \in NestInner /\ use \in {"con_le", "con_ge", "objmin", "lcon_lt", "shared", "inor"} /\ k \in {0, 1})
Next == UNCHANGED vars

CaseId == <<kind, op, sh, pat, use, k>>
NestModel(op1, op2, pat0, use0, k0) ==
  LET E == NestExpr(op1, op2)
  IN CASE use0 = "con_le" -> Model(pat0, <<Con("-inf", k0 + 1, E)>>, <<>>, <<SumObj>>)
       [] use0 = "con_ge" -> Model(pat0, <<Con(k0, "inf", E)>>, <<>>, <<SumObj>>)
       [] use0 = "objmin" -> Model(pat0, <<LinCon(k0, "inf", << <<0, 1>>, <<1, 1>> >>)>>, <<>>, <<Obj(FALSE, E)>>)
       [] use0 = "lcon_lt" -> Model(pat0, <<>>, <<O2(22, E, N(k0 + 1))>>, <<SumObj>>)
       [] use0 = "shared" -> Model(pat0, <<Con(k0, "inf", E)>>, <<O2(20, O2(23, E, N(k0 + 1)), O2(28, V(2), N(1)))>>, <<Obj(FALSE, E)>>)
       [] use0 = "inor" -> Model(pat0, <<>>, <<O2(20, O2(28, E, N(k0)), O2(23, V(2), N(0)))>>, <<SumObj>>)
TheModel == CASE kind = "num" -> NumModel(op, sh, pat, use, k)
              [] kind = "log" -> LogModel(op, sh, pat, use)
              [] kind = "dvar" -> DVModel(op, sh, pat, k)
              [] kind = "compl" -> ComplModel(op, sh, pat, k)
              [] kind = "sos" -> SOSModel(IF op = "sos1" THEN 1 ELSE 2, pat, k)
              [] kind = "nest" -> NestModel(op, sh, pat, use, k)
              [] kind = "cone" -> ConeModel(op, pat, use, k)
              [] kind = "cmp" -> CmpModel(op, sh, pat, use, k)
              [] kind = "prod" -> ProdModel(op, sh, pat, use, k)
              [] kind = "mono" -> MonoModel(op, sh, pat, use, k)
              [] kind = "eqpair" -> EqPairModel(op, sh, pat, k)
Emit == PrintT(<<"CASE", ToJson([kind |-> kind, op |-> op, sh |-> sh, pat |-> pat, use |-> use, k |-> k, m |-> TheModel])>>)
=============================================================================
