------------------------------- MODULE Reform -------------------------------
(* Property C01 for one (NL model, delivered model) pair: same feasible set   *)
(* projected onto the original variables, same best objective value; a       *)
(* refusal carries a diagnostic; "infeasible" is only claimed for infeasible  *)
(* models.                                                                    *)
EXTENDS FlatSem, TLC

\* all grid points of the original variables' domains (scaled)
RECURSIVE PointsFrom(_, _, _)
PointsFrom(vars, i, D) ==
  IF i > Len(vars) THEN {<<>>}
  ELSE LET step == IF vars[i].int THEN D ELSE 1
           dom == {k \in vars[i].lb..vars[i].ub : k % step = 0}
           rest == PointsFrom(vars, i + 1, D)
       IN {<<k>> \o r : k \in dom, r \in rest}
Points(m, D) == PointsFrom(m.vars, 1, D)

AnyClipped(d) == \E i \in 1..Len(d.vars) : d.vars[i].clipped
\* The witness search tries grid values only.  For an auxiliary variable that is continuous, not fixed and not
\* determined by a constraint from the variables assigned before it (a weight of a convex combination, say) the
\* search is therefore incomplete: "no witness on the grid" says nothing about the reals.
FreeContinuous(d) == \E k \in 1..Len(d.steps) :
                        LET st == d.steps[k]  v == d.vars[st.v]
                        IN st.det = 0 /\ ~v.int /\ v.lb < v.ub
\* ... and a continuous variable computed from a linear equality in which its coefficient is not +-1 may get a
\* value off the grid (x = 3 * lambda, x = 1): the search then has no candidate although a real one exists
OffGridLinEq(d) == \E k \in 1..Len(d.steps) :
                      LET st == d.steps[k]  v == d.vars[st.v]
                      IN /\ st.det > 0 /\ st.dk = "lineq" /\ ~v.int /\ v.lb < v.ub
                         /\ LET c == d.cons[st.det]
                                ai == SeqSum([j \in 1..Len(c.lin) |-> IF c.lin[j][2] + 1 = st.v THEN c.lin[j][1][1] ELSE 0])
                            IN ai \notin {1, -1}
Incomplete(d) == AnyClipped(d) \/ FreeContinuous(d) \/ OffGridLinEq(d)

\* verdict for one point: "ok", "skip" (not exactly representable), "inconclusive", or a violation tag
PointVerdict(m, d, p, D) ==
  IF ~NLExact(m, p, D) THEN "skip"
  ELSE LET nl == NLSat(m, p, D)
           w == HasWitness(d, p, D)
       IN IF nl /\ ~w THEN (IF Incomplete(d) THEN "inconclusive" ELSE "cut-off")          \* feasible point lost
          ELSE IF ~nl /\ w THEN "extra"                                                     \* infeasible point admitted
          ELSE IF ~nl THEN "ok"
          ELSE IF Len(m.objs) = 0 \/ Len(d.objs) = 0
                 THEN (IF Len(m.objs) = Len(d.objs) THEN "ok" ELSE "obj-count")
          ELSE LET vals == ObjValues(d, 1, Start(d, p), D, 1)
                   best == Best(vals, d.objs[1].max)
                   orig == <<D * NLObj(m, 1, p, D), 0>>
               IN IF d.objs[1].max # m.objs[1].max THEN "obj-sense"
                  ELSE IF PEq(best, orig) THEN "ok"
                  ELSE IF (d.objs[1].max /\ PLt(best, orig)) \/ (~d.objs[1].max /\ PLt(orig, best))
                         THEN (IF Incomplete(d) THEN "inconclusive" ELSE "obj-worse")
                  ELSE "obj-better"

Known(d, D) == \A j \in 1..Len(d.cons) : ConKnown(d.cons[j], D)

\* outcome: "converted" | "refused" (exception with code/message) | "infeasible" (code 200..299)
CaseVerdict(c) ==
  LET D == c.D  m == c.nl
  IN IF c.outcome = "refused"
       \* C01 asks for a diagnostic; the class of the result code is C09's business
       THEN IF c.msgNonEmpty THEN [v |-> "ok", pts |-> {}] ELSE [v |-> "bad-refusal", pts |-> {}]
     ELSE IF c.outcome = "infeasible"
       THEN LET feas == {p \in Points(m, D) : NLExact(m, p, D) /\ NLSat(m, p, D)}
            IN IF feas = {} THEN [v |-> "ok", pts |-> {}] ELSE [v |-> "false-infeasible", pts |-> feas]
     ELSE IF c.ng \/ c.toobig \/ ~Known(c.del, D) THEN [v |-> "inconclusive", pts |-> {}]
     ELSE LET pv == [p \in Points(m, D) |-> PointVerdict(m, c.del, p, D)]
              bad == {p \in DOMAIN pv : pv[p] \notin {"ok", "skip", "inconclusive"}}
          IN IF bad # {} THEN [v |-> "violation", pts |-> {<<p, pv[p]>> : p \in bad}]
             ELSE IF \E p \in DOMAIN pv : pv[p] = "inconclusive" THEN [v |-> "inconclusive", pts |-> {}]
             ELSE IF \A p \in DOMAIN pv : pv[p] = "skip" THEN [v |-> "inconclusive", pts |-> {}]
             ELSE [v |-> "ok", pts |-> {}]
=============================================================================
