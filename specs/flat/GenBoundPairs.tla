--------------------------- MODULE GenBoundPairs ---------------------------
(* Case generator for C06, reuse of an existing result variable: two          *)
(* conditional comparisons of ONE variable asked of one converter, one after  *)
(* the other.  The coefficient / right-hand-side menus contain pairs that     *)
(* normalise to the same comparison (2x <= 4 and x <= 2), pairs that are      *)
(* equal only on an integer domain (x <= 2 and x < 3), and pairs that are     *)
(* close but different (x == 3 and 2x == 5); and every ordered pair of a small *)
(* family of functional constraints over the same two variables.  One initial *)
(* state per pair.                                                            *)
EXTENDS GenBounds
PairDoms == {"i03", "pm2", "i13", "b01", "c02", "im13", "freei", "ge0i"}
TypePairs == {<<"CondLinEQ", "CondLinEQ">>, <<"CondLinLE", "CondLinLT">>, <<"CondLinLE", "CondLinLE">>,
              <<"CondLinGE", "CondLinGT">>, <<"CondLinLE", "CondLinGE">>, <<"CondLinEQ", "CondLinLE">>,
              <<"CondLinLT", "CondLinGE">>}
CoefPairs == {<<1, 1>>, <<1, 2>>, <<2, 1>>, <<2, 2>>, <<1, -1>>, <<-2, 2>>}
Rhs2 == {2, 3, 4, 5, 6, 10}            \* right-hand sides in halves: 1, 3/2, 2, 5/2, 3, 5
One(t, a, cf, r) == [Base(t, <<a>>) EXCEPT !.lin = <<cf>>, !.c2 = r]
OnePairs == {[c1 |-> One(tp[1], a, cp[1], r1), c2 |-> One(tp[2], a, cp[2], r2)] :
                tp \in TypePairs, a \in PairDoms, cp \in CoefPairs, r1 \in Rhs2, r2 \in Rhs2}
\* two variables: every ordered pair of a small family of functional constraints over the same <<a, b>>
\* (the general constraint map: same type with other coefficients / constant / right-hand side, other type
\* over the same arguments)
TwoDoms == {"i03", "c02", "b01", "pm2"}
Fam(a, b) ==
  {[Base("LinFunc", <<a, b>>) EXCEPT !.lin = l, !.c0 = c0] : l \in {<<1, 1>>, <<1, -1>>, <<2, 2>>, <<1, 2>>}, c0 \in {0, 1}}
  \cup {Base(t, <<a, b>>) : t \in {"Max", "Min"}}
  \cup {[Base("CondLinLE", <<a, b>>) EXCEPT !.lin = <<1, 1>>, !.c2 = r] : r \in {2, 4}}
  \cup {[Base("CondLinEQ", <<a, b>>) EXCEPT !.lin = <<1, -1>>, !.c2 = r] : r \in {0, 2}}
  \cup {[Base("QuadFunc", <<a, b>>) EXCEPT !.lin = <<0, 0>>, !.quad = q] : q \in { << <<1, 1, 2>> >>, << <<1, 1, 1>>, <<1, 2, 2>> >> }}
  \cup (IF a = "b01" /\ b = "b01" THEN {Base(t, <<a, b>>) : t \in {"And", "Or"}} ELSE {})
TwoPairs == UNION {{[c1 |-> A, c2 |-> B] : A \in Fam(a, b), B \in Fam(a, b)} : a \in TwoDoms, b \in TwoDoms}
PairCases == OnePairs \cup TwoPairs
PInit == c \in PairCases
=============================================================================
