------------------------------ MODULE SolPrec ------------------------------
(* C07, options sol:chk:prec (AMPL solution_precision: the point is rounded   *)
(* to N significant digits before it is checked) and sol:chk:round (rounded   *)
(* to R decimals).  A violation is reported iff the ROUNDED point violates    *)
(* the model (include/mp/flat/converter.h: the check's point; utils-math.h:   *)
(* round_to_digits).                                                          *)
(*                                                                            *)
(* Values are integers in units of 10^-6 (|value| < 2000, at most 7           *)
(* significant digits, never within 10^-4 relative of a rounding tie), the    *)
(* constraint threshold in units of 5 * 10^-7 (half units), so that it can    *)
(* sit exactly between a value and its rounding.                              *)
EXTENDS Integers
Abs(x) == IF x < 0 THEN -x ELSE x
RECURSIVE NDigits(_)
NDigits(a) == IF a < 10 THEN 1 ELSE 1 + NDigits(a \div 10)
RECURSIVE P10(_)
P10(k) == IF k <= 0 THEN 1 ELSE 10 * P10(k - 1)
\* round a >= 0 to a multiple of 10^k, ties away from zero
RoundAt(a, k) == IF k <= 0 THEN a ELSE ((a + 5 * P10(k - 1)) \div P10(k)) * P10(k)
Sgn(m) == IF m < 0 THEN -1 ELSE 1
\* N significant digits
RoundPrec(m, n) == IF m = 0 THEN 0 ELSE Sgn(m) * RoundAt(Abs(m), NDigits(Abs(m)) - n)
\* R decimals after the comma (before it if negative): the unit is 10^-6
RoundDec(m, r) == Sgn(m) * RoundAt(Abs(m), 6 - r)
Rounded(c) == CASE c.opt = "prec" -> RoundPrec(c.m, c.n) [] c.opt = "round" -> RoundDec(c.m, c.n) [] OTHER -> c.m

\* the constraint of a case:  x <= t  ("le") or  x >= t  ("ge"), t = t2 half units
\* side "keeps": the unrounded value satisfies it, the rounded one may not; "heals": the other way round;
\* "viol": violated either way; "fine": satisfied either way
T2(c) == LET r == Rounded(c)  lo == IF r < c.m THEN r ELSE c.m  hi == IF r < c.m THEN c.m ELSE r
         IN CASE c.side = "mid"  -> c.m + r                 \* exactly between the two (equal to both if no change)
              [] c.side = "viol" -> IF c.rel = "le" THEN 2 * lo - 4000 ELSE 2 * hi + 4000
              [] c.side = "fine" -> IF c.rel = "le" THEN 2 * hi + 4000 ELSE 2 * lo - 4000
Violated(c) == LET r == Rounded(c) IN IF c.rel = "le" THEN 2 * r > T2(c) ELSE 2 * r < T2(c)
\* (the margins: a changed value moves by at least 10^-4 relative, the threshold is at least half of that away)
=============================================================================
