------------------------------ MODULE TraceZZI ------------------------------
(* one line per SOS2 set converted by the real encoder object: the history    *)
(* index and the lower / upper coefficient rows it returned for k = 1..r.     *)
(* The judgement is semantic (ZZI!EncodesSOS2): the real code may keep its    *)
(* matrix differently from the paper's as long as the rows encode SOS2.       *)
EXTENDS ZZI, Json, IOUtils, TLC
Lines == ndJsonDeserialize(IOEnv.TRACE)
VARIABLE l
E == Lines[l]
Init == l = 1
Next == /\ l <= Len(Lines) /\ l' = l + 1
        /\ CASE E.e = "Set" -> (Len(E.lo) = Log2Up(E.d) /\ Len(E.hi) = Log2Up(E.d)
                                /\ (\A k \in 1..Len(E.lo) : Len(E.lo[k]) = E.d + 1 /\ Len(E.hi[k]) = E.d + 1)
                                /\ EncodesSOS2(E.d, E.lo, E.hi))
                               \/ PrintT(<<"BAD", ToJson([line |-> l, hist |-> E.hist, pos |-> E.pos, d |-> E.d, lo |-> E.lo, hi |-> E.hi])>>)
             [] E.e = "Crash" -> PrintT(<<"BAD", ToJson([line |-> l, hist |-> 0, pos |-> 0, d |-> 0, lo |-> <<>>, hi |-> <<>>])>>)
             [] OTHER -> TRUE
Spec == Init /\ [][Next]_<<l>>
Finished == (l = Len(Lines) + 1) => PrintT(<<"DONE", ToJson([n |-> Len(Lines)])>>)
=============================================================================
