-------------------------------- MODULE ZZI --------------------------------
(* The logarithmic ("ZZI", Huchette & Vielma) encoding that turns an SOS2 set *)
(* lambda_0 .. lambda_d (from a piecewise-linear term) into linear rows when  *)
(* the solver takes no SOS2 (include/mp/flat/redef/MIP/sos2.h,                *)
(* src/mp/flat/encodings.cpp): with r = ceil(log2 d) integer variables y_k,   *)
(*   sum_i C^r_k(i) lambda_i  <=  y_k  <=  sum_i C^r_k(i+1) lambda_i          *)
(* where C^r_k(0) = 0, C^r_k(1 .. 2^r) is column k of the encoding matrix and *)
(* C^r_k(2^r + 1) repeats its last line.  The real object keeps ONE matrix    *)
(* and extends it when a larger set comes: what it returns must not depend on *)
(* which sets were converted before.                                          *)
EXTENDS Integers, Sequences, FiniteSets
RECURSIVE P2(_), Log2Up(_), C(_, _, _)
P2(r) == IF r = 0 THEN 1 ELSE 2 * P2(r - 1)
Log2Up(d) == IF d <= 1 THEN 0 ELSE 1 + Log2Up((d + 1) \div 2)      \* ceil(log2 d)
\* column k (1..r) of C^r at line v (1..2^r)
C(r, k, v) ==
  IF r = 1 THEN (IF v = 2 THEN 1 ELSE 0)
  ELSE LET h == P2(r - 1)
       IN IF k = r THEN (IF v > h THEN 1 ELSE 0)
          ELSE IF v <= h THEN C(r - 1, k, v) ELSE C(r - 1, k, v - h) + C(r - 1, k, h)
\* the extended column: line 0 is 0, line 2^r + 1 repeats line 2^r
Ext(r, k, v) == IF v = 0 THEN 0 ELSE IF v = P2(r) + 1 THEN C(r, k, P2(r)) ELSE C(r, k, v)
ExtCol(r, k, v0, v1) == [i \in 1..(v1 - v0 + 1) |-> Ext(r, k, v0 + i - 1)]

\* the calls sos2.h makes for a set with d + 1 members
CallsFor(d) == LET r == Log2Up(d)
               IN UNION {{<<r, k, 0, d>>, <<r, k, 1, d + 1>>} : k \in 1..r}

----------------------------------------------------------------------------
(* What the rows must do, whatever matrix they come from: with lower-row      *)
(* coefficients lo[k] and upper-row coefficients hi[k] (k = 1..r, one entry   *)
(* per member), integers y_k with  lo[k].lambda <= y_k <= hi[k].lambda  exist *)
(* exactly for the lambda with at most two non-zero members, and those next   *)
(* to each other.  lambda in quarters (0..4, sum 4): one, two, three or four  *)
(* non-zero members.                                                          *)
Dot(c, lam) == LET S[i \in 0..Len(lam)] == IF i = 0 THEN 0 ELSE c[i] * lam[i] + S[i - 1] IN S[Len(lam)]
Vec(n, pos) == [i \in 1..n |-> IF \E p \in pos : p[1] = i THEN (CHOOSE p \in pos : p[1] = i)[2] ELSE 0]
Lambdas(d) ==
  LET n == d + 1 IN
  {Vec(n, {<<i, 4>>}) : i \in 1..n}
  \cup {Vec(n, {<<i, a>>, <<j, 4 - a>>}) : <<i, j, a>> \in {<<i, j, a>> \in (1..n) \X (1..n) \X (1..3) : i < j}}
  \cup {Vec(n, {<<i, t[1]>>, <<j, t[2]>>, <<k, t[3]>>}) :
          <<i, j, k, t>> \in {<<i, j, k, t>> \in (1..n) \X (1..n) \X (1..n) \X {<<1, 1, 2>>, <<1, 2, 1>>, <<2, 1, 1>>} : i < j /\ j < k}}
  \cup {Vec(n, {<<i, 1>>, <<j, 1>>, <<k, 1>>, <<m, 1>>}) :
          <<i, j, k, m>> \in {<<i, j, k, m>> \in (1..n) \X (1..n) \X (1..n) \X (1..n) : i < j /\ j < k /\ k < m}}
Adjacent(lam) == LET nz == {i \in 1..Len(lam) : lam[i] # 0}
                 IN \E i \in nz : nz \subseteq {i, i + 1}
Encodable(lo, hi, lam) == \A k \in 1..Len(lo) : \E y \in 0..Len(lam) : Dot(lo[k], lam) <= 4 * y /\ 4 * y <= Dot(hi[k], lam)
EncodesSOS2(d, lo, hi) == \A lam \in Lambdas(d) : Encodable(lo, hi, lam) <=> Adjacent(lam)
\* the spec's own matrix
SpecLo(d) == [k \in 1..Log2Up(d) |-> ExtCol(Log2Up(d), k, 0, d)]
SpecHi(d) == [k \in 1..Log2Up(d) |-> ExtCol(Log2Up(d), k, 1, d + 1)]
EncodingCorrect(d) == EncodesSOS2(d, SpecLo(d), SpecHi(d))
=============================================================================
