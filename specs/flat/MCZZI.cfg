INIT Init
NEXT Next
INVARIANT Emit
