------------------------------ MODULE FlatSem ------------------------------
(* The single semantic definition shared by C01, C06, C07:                    *)
(*  (i)  the value of an NL expression tree at a point,                       *)
(*  (ii) whether a point satisfies an NL model,                               *)
(*  (iii) whether an assignment satisfies a flat constraint / delivered model *)
(*        for every constraint type the converter can hand to a solver API.   *)
(*                                                                            *)
(* NUMBERS.  TLC has 32-bit integers and no reals.  Every case carries a      *)
(* scale D (1, 2 or 4).  A variable value x is the integer xs = D*x.  A       *)
(* constant k (coefficient, right-hand side, parameter) is a pair <<a, b>>    *)
(* with k = a/D + b*eps, eps being the converter's strict-comparison          *)
(* tolerance treated as a positive infinitesimal (pairs compare               *)
(* lexicographically).  A linear form sum k_i*x_i then has the exact value    *)
(* <<sum a_i*xs_i, sum b_i*xs_i>> in units of (1/D^2, eps/D); right-hand      *)
(* sides are brought to the same units by multiplying both parts by D.        *)
(* Quadratic terms are only evaluated when D = 1.  Infinite bounds are the    *)
(* sentinels below.                                                           *)
EXTENDS Integers, Sequences, FiniteSets

Inf == 500000000
PosInf == <<Inf, 0>>
NegInf == <<-Inf, 0>>

PLe(p, q) == p[1] < q[1] \/ (p[1] = q[1] /\ p[2] <= q[2])
PLt(p, q) == p[1] < q[1] \/ (p[1] = q[1] /\ p[2] < q[2])
PEq(p, q) == p[1] = q[1] /\ p[2] = q[2]
PAdd(p, q) == <<p[1] + q[1], p[2] + q[2]>>
PScale(k, p) == IF p[1] >= Inf THEN PosInf ELSE IF p[1] <= -Inf THEN NegInf ELSE <<k * p[1], k * p[2]>>
Abs(v) == IF v < 0 THEN -v ELSE v
Min2(a, b) == IF a <= b THEN a ELSE b
Max2(a, b) == IF a >= b THEN a ELSE b
B2I(b) == IF b THEN 1 ELSE 0
\* TLC's \div and % want a positive divisor
SDiv(n, d) == IF d > 0 THEN n \div d ELSE (-n) \div (-d)
Divides(d, n) == d # 0 /\ n % Abs(d) = 0

RECURSIVE SeqSum(_)
SeqSum(s) == IF s = <<>> THEN 0 ELSE Head(s) + SeqSum(Tail(s))
RECURSIVE SeqMin(_)
SeqMin(s) == IF Len(s) = 1 THEN s[1] ELSE Min2(s[1], SeqMin(Tail(s)))
RECURSIVE SeqMax(_)
SeqMax(s) == IF Len(s) = 1 THEN s[1] ELSE Max2(s[1], SeqMax(Tail(s)))
AllDistinct(s) == \A i, j \in 1..Len(s) : i # j => s[i] # s[j]
CountIf(s, P(_)) == Cardinality({i \in 1..Len(s) : P(s[i])})

-----------------------------------------------------------------------------
(* Part 1.  NL expression trees.                                              *)
(* Nodes are records: [k |-> "n", v |-> c] (constant, already scaled by D),   *)
(* [k |-> "v", i |-> index0] (variable), [k |-> "d", i |-> index0] (defined   *)
(* variable), [k |-> "o", op |-> opcode, a |-> <<args>>],                     *)
(* [k |-> "pl", s |-> slopes, b |-> breakpoints(scaled), a |-> <<arg>>].      *)
(* Numeric values are D-scaled integers; logical values are BOOLEAN.          *)
(* NG is the "not on the grid" poison: a product or quotient whose exact      *)
(* value is not a multiple of 1/D.  Exact(e, x, ...) says no NG occurs.       *)

Logical(op) == op \in {20, 21, 22, 23, 24, 28, 29, 30, 34, 62, 63, 66, 67, 68, 69, 70, 71, 72, 73, 74, 75}

\* AMPL piecewise-linear term: slopes s[1..n+1], breakpoints b[1..n] (scaled),
\* f(0) = 0.  Value (scaled by D) at scaled argument t, with integer slopes.
RECURSIVE PLInt(_, _, _, _)
\* integral of the slope function from lo to hi (lo <= hi), scaled ints
PLSlopeAt(s, b, t) ==   \* slope on the piece containing points just right of t
  LET k == Cardinality({i \in 1..Len(b) : b[i] <= t}) IN s[k + 1]
PLInt(s, b, lo, hi) ==
  IF lo >= hi THEN 0
  ELSE LET nxt == {b[i] : i \in {j \in 1..Len(b) : b[j] > lo /\ b[j] < hi}}
           stop == IF nxt = {} THEN hi ELSE CHOOSE m \in nxt : \A o \in nxt : m <= o
       IN PLSlopeAt(s, b, lo) * (stop - lo) + PLInt(s, b, stop, hi)
PLValue(s, b, t) == IF t >= 0 THEN PLInt(s, b, 0, t) ELSE -PLInt(s, b, t, 0)

RECURSIVE IntPow(_, _)
IntPow(b, m) == IF m = 0 THEN 1 ELSE b * IntPow(b, m - 1)

RECURSIVE EvalN(_, _, _, _), EvalL(_, _, _, _), ExactE(_, _, _, _)

\* numeric value (scaled by D) of expression e at point x (x[i+1] = scaled value
\* of variable i); dv = sequence of defined-variable records [lin, e]
LinPart(lin, x) == SeqSum([j \in 1..Len(lin) |-> lin[j][2] * x[lin[j][1] + 1]])
DVal(d, x, dv, D) == LinPart(d.lin, x) + (IF d.has THEN EvalN(d.e, x, dv, D) ELSE 0)

EvalN(e, x, dv, D) ==
  CASE e.k = "n" -> e.v
    [] e.k = "v" -> x[e.i + 1]
    [] e.k = "d" -> DVal(dv[e.i + 1], x, dv, D)
    [] e.k = "pl" -> PLValue(e.s, e.b, EvalN(e.a[1], x, dv, D))
    [] e.k = "o" ->
       LET A(j) == EvalN(e.a[j], x, dv, D)
           L(j) == EvalL(e.a[j], x, dv, D)
           n == Len(e.a)
       IN CASE e.op = 0 -> A(1) + A(2)
            [] e.op = 1 -> A(1) - A(2)
            [] e.op = 2 -> (A(1) * A(2)) \div D
            [] e.op = 3 -> SDiv(D * A(1), A(2))                       \* exactness checked by ExactE
            [] e.op = 6 -> Max2(A(1) - A(2), 0)                       \* less
            [] e.op = 11 -> SeqMin([j \in 1..n |-> A(j)])
            [] e.op = 12 -> SeqMax([j \in 1..n |-> A(j)])
            [] e.op = 15 -> Abs(A(1))
            [] e.op = 16 -> -A(1)
            [] e.op = 35 -> IF L(1) THEN A(2) ELSE A(3)
            [] e.op = 54 -> SeqSum([j \in 1..n |-> A(j)])
            [] e.op = 59 -> D * Cardinality({j \in 1..n : L(j)})      \* count
            [] e.op = 60 -> D * Cardinality({j \in 2..n : A(j) = A(1)}) \* numberof
            [] e.op = 77 -> (A(1) * A(1)) \div D                      \* sqr
            [] e.op = 76 -> IntPow(A(1), e.a[2].v)   \* pow, constant integer exponent (D = 1 only)
            [] e.op = 78 -> IntPow(2, A(2))          \* 2^a for a >= 0 (D = 1 only; ExactE)
            [] e.op = 1078 -> IntPow(2, -A(1))       \* (1/2)^a for a <= 0 (D = 1 only; ExactE)

EvalL(e, x, dv, D) ==
  LET A(j) == EvalN(e.a[j], x, dv, D)
      L(j) == EvalL(e.a[j], x, dv, D)
      n == Len(e.a)
      \* logical-count forms: a[1] numeric, a[2] a count (o59) expression
      cnt == A(2)
  IN CASE e.k = "n" -> e.v # 0
       \* a numeric expression used as a condition is true when it is not 0
       [] e.k \in {"v", "d", "pl"} -> EvalN(e, x, dv, D) # 0
       [] e.op \in {0, 1, 2, 3, 6, 11, 12, 15, 16, 35, 54, 59, 60, 76, 77, 78, 1078} -> EvalN(e, x, dv, D) # 0
       [] e.op = 20 -> L(1) \/ L(2)
       [] e.op = 21 -> L(1) /\ L(2)
       [] e.op = 22 -> A(1) < A(2)
       [] e.op = 23 -> A(1) <= A(2)
       [] e.op = 24 -> A(1) = A(2)
       [] e.op = 28 -> A(1) >= A(2)
       [] e.op = 29 -> A(1) > A(2)
       [] e.op = 30 -> A(1) # A(2)
       [] e.op = 34 -> ~L(1)
       [] e.op = 62 -> A(1) <= cnt        \* atleast
       [] e.op = 63 -> A(1) >= cnt        \* atmost
       [] e.op = 66 -> A(1) = cnt         \* exactly
       [] e.op = 67 -> ~(A(1) <= cnt)
       [] e.op = 68 -> ~(A(1) >= cnt)
       [] e.op = 69 -> A(1) # cnt
       [] e.op = 70 -> \A j \in 1..n : L(j)
       [] e.op = 71 -> \E j \in 1..n : L(j)
       [] e.op = 72 -> IF L(1) THEN L(2) ELSE L(3)
       [] e.op = 73 -> L(1) <=> L(2)
       [] e.op = 74 -> AllDistinct([j \in 1..n |-> A(j)])
       [] e.op = 75 -> ~AllDistinct([j \in 1..n |-> A(j)])

\* no product / quotient leaves the 1/D grid, no division by zero, integer PL data
ExactE(e, x, dv, D) ==
  CASE e.k \in {"n", "v"} -> TRUE
    [] e.k = "d" -> (~dv[e.i + 1].has) \/ ExactE(dv[e.i + 1].e, x, dv, D)
    [] e.k = "pl" -> ExactE(e.a[1], x, dv, D)
    [] e.k = "o" ->
       /\ \A j \in 1..Len(e.a) : ExactE(e.a[j], x, dv, D)
       /\ CASE e.op = 2 -> (EvalN(e.a[1], x, dv, D) * EvalN(e.a[2], x, dv, D)) % D = 0
            [] e.op = 77 -> (EvalN(e.a[1], x, dv, D) * EvalN(e.a[1], x, dv, D)) % D = 0
            [] e.op = 3 -> LET q == EvalN(e.a[2], x, dv, D)
                           IN Divides(q, D * EvalN(e.a[1], x, dv, D))
            [] e.op = 76 -> D = 1 /\ e.a[2].k = "n" /\ e.a[2].v >= 0
            [] e.op = 78 -> D = 1 /\ e.a[1].k = "n" /\ e.a[1].v = 2 /\ EvalN(e.a[2], x, dv, D) \in 0..20
            [] e.op = 1078 -> D = 1 /\ -EvalN(e.a[1], x, dv, D) \in 0..20
            [] OTHER -> TRUE

-----------------------------------------------------------------------------
(* Part 2.  NL model: [vars, cons, lcons, objs, dvars, compl, sos].           *)
(* cons[i] = [lb, ub (scaled ints or +-Inf), lin, has, e]; a point x (scaled) *)
(* satisfies the model iff every algebraic body is within its range, every    *)
(* logical constraint is true, complementarity and SOS conditions hold.       *)

ConBody(c, x, dv, D) == LinPart(c.lin, x) + (IF c.has THEN EvalN(c.e, x, dv, D) ELSE 0)

\* complementarity  body _|_ var :  var at lb => body >= 0, var at ub => body <= 0, else body = 0
\* (cons carrying a complementarity condition have compl = [var, lb, ub] with scaled bounds)
ComplOK(c, x, dv, D) ==
  LET b == ConBody(c, x, dv, D)   v == x[c.cv + 1]
  IN /\ c.cvlb <= v /\ v <= c.cvub
     /\ (v > c.cvlb /\ v < c.cvub) => b = 0
     /\ (v = c.cvlb /\ v < c.cvub) => b >= 0
     /\ (v = c.cvub /\ v > c.cvlb) => b <= 0

\* SOS given by suffixes: group g = sequence of [v, ref] ; kind 1 or 2
SOSOK(g, x) ==
  LET nz == {j \in 1..Len(g.items) : x[g.items[j][1] + 1] # 0}
      \* position of item j in the order of reference values
      pos(j) == Cardinality({i \in 1..Len(g.items) : g.items[i][2] < g.items[j][2]})
  IN IF g.kind = 1 THEN Cardinality(nz) <= 1
     ELSE /\ Cardinality(nz) <= 2
          /\ \A i, j \in nz : Abs(pos(i) - pos(j)) <= 1

NLExact(m, x, D) ==
  /\ \A i \in 1..Len(m.cons) : (~m.cons[i].has) \/ ExactE(m.cons[i].e, x, m.dvars, D)
  /\ \A i \in 1..Len(m.lcons) : ExactE(m.lcons[i], x, m.dvars, D)
  /\ \A i \in 1..Len(m.objs) : (~m.objs[i].has) \/ ExactE(m.objs[i].e, x, m.dvars, D)

NLSat(m, x, D) ==
  /\ \A i \in 1..Len(m.cons) :
       LET c == m.cons[i] IN
       IF c.compl THEN ComplOK(c, x, m.dvars, D)
       ELSE LET b == ConBody(c, x, m.dvars, D) IN c.lb <= b /\ b <= c.ub
  /\ \A i \in 1..Len(m.lcons) : EvalL(m.lcons[i], x, m.dvars, D)
  /\ \A i \in 1..Len(m.sos) : SOSOK(m.sos[i], x)

NLObj(m, k, x, D) == LinPart(m.objs[k].lin, x) + (IF m.objs[k].has THEN EvalN(m.objs[k].e, x, m.dvars, D) ELSE 0)

-----------------------------------------------------------------------------
(* Part 3.  Flat (delivered) constraints.  x is the full assignment of the    *)
(* delivered variables (scaled ints, 1-based).  lin = <<<<coefPair, var0>>>>, *)
(* quad = <<<<coefPair, v1, v2>>>>.                                           *)

LinVal(lin, x) ==
  <<SeqSum([j \in 1..Len(lin) |-> lin[j][1][1] * x[lin[j][2] + 1]]),
    SeqSum([j \in 1..Len(lin) |-> lin[j][1][2] * x[lin[j][2] + 1]])>>
QuadVal(q, x) ==
  <<SeqSum([j \in 1..Len(q) |-> q[j][1][1] * x[q[j][2] + 1] * x[q[j][3] + 1]]),
    SeqSum([j \in 1..Len(q) |-> q[j][1][2] * x[q[j][2] + 1] * x[q[j][3] + 1]])>>
\* body value in units (1/D^2, eps/D); quadratic terms only for D = 1
BodyVal(c, x) == PAdd(LinVal(c.lin, x), QuadVal(c.quad, x))
\* bring a constant pair to body units
RhsU(p, D) == PScale(D, p)

\* algebraic constraint with range / comparison kind cmp in {-2,-1,0,1,2,-100}
AlgSat(c, x, D) ==
  LET b == BodyVal(c, x)  lo == RhsU(c.lb, D)  hi == RhsU(c.ub, D)
  IN CASE c.cmp = -2 -> PLt(b, hi)
       [] c.cmp = 2 -> PLt(lo, b)
       [] OTHER -> PLe(lo, b) /\ PLe(b, hi)

Truth(v) == v # 0          \* a 0/1 variable's scaled value is 0 or D

\* r = expr, for an affine / quadratic expression e = [lin, quad, c]: the scaled
\* result r (value r/D = D*r/D^2) against body + constant, both in body units
ExprEq(r, e, x, D) == PEq(<<D * r, 0>>, PAdd(BodyVal(e, x), RhsU(e.c, D)))

\* piecewise-linear constraint with points (X_i, Y_i) given as pairs (only the
\* a-part is used; a PL with eps parts is reported inconclusive by the caller):
\* r = pl(t) ; outside the breakpoints the first / last segment's slope continues
PLConSat(p, t, r, D) ==
  LET n == Len(p.x)
      X(i) == p.x[i][1]   Y(i) == p.y[i][1]       \* scaled by D already (a/D -> a)
      seg == IF n = 1 THEN 0
             ELSE IF t <= X(1) THEN 1
             ELSE IF t >= X(n) THEN n - 1
             ELSE CHOOSE i \in 1..(n - 1) : X(i) <= t /\ t <= X(i + 1)
  IN IF n = 1 THEN r = Y(1) + 0 * t     \* degenerate
     ELSE (r - Y(seg)) * (X(seg + 1) - X(seg)) = (Y(seg + 1) - Y(seg)) * (t - X(seg))

\* functional constraint types (result r = f(args)); tn = type name
FuncVal(c, x, D) ==
  LET a == [j \in 1..Len(c.args) |-> x[c.args[j] + 1]]
      n == Len(c.args)
  IN CASE c.type = "MaxConstraint" -> SeqMax(a)
       [] c.type = "MinConstraint" -> SeqMin(a)
       [] c.type = "AbsConstraint" -> Abs(a[1])
       [] c.type = "AndConstraint" -> D * B2I(\A j \in 1..n : Truth(a[j]))
       [] c.type = "OrConstraint" -> D * B2I(\E j \in 1..n : Truth(a[j]))
       [] c.type = "NotConstraint" -> D * B2I(~Truth(a[1]))
       [] c.type = "IfThenConstraint" -> IF Truth(a[1]) THEN a[2] ELSE a[3]
       [] c.type = "ImplicationConstraint" -> D * B2I(IF Truth(a[1]) THEN Truth(a[2]) ELSE Truth(a[3]))
       [] c.type = "AllDiffConstraint" -> D * B2I(AllDistinct(a))
       [] c.type = "NumberofConstConstraint" -> D * Cardinality({j \in 1..n : a[j] = c.params[1][1]})
       [] c.type = "NumberofVarConstraint" -> D * Cardinality({j \in 2..n : a[j] = a[1]})
       [] c.type = "CountConstraint" -> D * Cardinality({j \in 1..n : Truth(a[j])})
       [] c.type = "PowConstraint" -> IntPow(a[1], c.params[1][1])      \* D = 1, integer exponent >= 0

\* value of a piecewise-linear function given by points (same segment choice as PLConSat): {} when off the grid
PLVal(p, t) ==
  LET n == Len(p.x)
      X(i) == p.x[i][1]   Y(i) == p.y[i][1]
      seg == IF n = 1 THEN 0
             ELSE IF t <= X(1) THEN 1
             ELSE IF t >= X(n) THEN n - 1
             ELSE CHOOSE i \in 1..(n - 1) : X(i) <= t /\ t <= X(i + 1)
  IN IF n = 1 THEN {Y(1)}
     ELSE LET num == (Y(seg + 1) - Y(seg)) * (t - X(seg))   den == X(seg + 1) - X(seg)
          IN IF Divides(den, num) THEN {Y(seg) + SDiv(num, den)} ELSE {}
\* the value a functional constraint determines for its result, as a set (empty: none on the grid)
FuncValSet(c, x, D) ==
  IF c.type = "PLConstraint" THEN PLVal(c.pl, x[c.args[1] + 1])
  ELSE IF c.type = "DivConstraint"
    THEN LET a1 == x[c.args[1] + 1]  a2 == x[c.args[2] + 1]
         IN IF a2 # 0 /\ Divides(a2, D * a1) THEN {SDiv(D * a1, a2)} ELSE {}
  ELSE IF c.type = "ExpAConstraint"      \* base as [numerator, denominator]: 2/1 or 1/2; D = 1
    THEN LET t == x[c.args[1] + 1]
             e == IF c.params[1] = <<2, 1>> THEN t ELSE -t
         IN IF D = 1 /\ c.params[1] \in {<<2, 1>>, <<1, 2>>} /\ e \in 0..20 THEN {IntPow(2, e)} ELSE {}
  ELSE {FuncVal(c, x, D)}

FuncComputable(c, D) ==
  c.type \in {"MaxConstraint", "MinConstraint", "AbsConstraint", "AndConstraint", "OrConstraint",
              "NotConstraint", "IfThenConstraint", "ImplicationConstraint", "AllDiffConstraint",
              "NumberofConstConstraint", "NumberofVarConstraint", "CountConstraint"}
  \/ (c.type = "PowConstraint" /\ D = 1 /\ c.params[1][2] = 0 /\ c.params[1][1] >= 0)

\* is the delivered constraint c satisfied by assignment x ?
ConSat(c, x, D) ==
  CASE c.k = "alg" -> AlgSat(c, x, D)
    [] c.k = "ind" -> (x[c.b + 1] = D * c.bv) => AlgSat(c.con, x, D)
    [] c.k = "linfunc" -> ExprEq(x[c.res + 1], c.expr, x, D)
    [] c.k = "quadfunc" -> ExprEq(x[c.res + 1], c.expr, x, D)
    [] c.k = "cond" -> Truth(x[c.res + 1]) <=> AlgSat(c.con, x, D)
    [] c.k = "func" ->
         IF FuncComputable(c, D) THEN x[c.res + 1] = FuncVal(c, x, D)
         ELSE IF c.type = "DivConstraint"
                THEN x[c.args[2] + 1] # 0 /\ x[c.res + 1] * x[c.args[2] + 1] = D * x[c.args[1] + 1]
         ELSE IF c.type = "PLConstraint" THEN PLConSat(c.pl, x[c.args[1] + 1], x[c.res + 1], D)
         ELSE IF c.type = "ExpAConstraint" THEN x[c.res + 1] \in FuncValSet(c, x, D)
         ELSE IF c.type = "QuadraticConeConstraint"
                THEN LET t(j) == c.params[j][1] * x[c.args[j] + 1]
                     IN t(1) >= 0 /\ t(1) * t(1) >= SeqSum([j \in 1..(Len(c.args) - 1) |-> t(j + 1) * t(j + 1)])
         ELSE IF c.type = "RotatedQuadraticConeConstraint"
                THEN LET t(j) == c.params[j][1] * x[c.args[j] + 1]
                     IN t(1) >= 0 /\ t(2) >= 0 /\ 2 * t(1) * t(2) >= SeqSum([j \in 1..(Len(c.args) - 2) |-> t(j + 2) * t(j + 2)])
         ELSE FALSE
    [] c.k = "sos" ->
         LET nz == {j \in 1..Len(c.vars) : x[c.vars[j] + 1] # 0}
             pos(j) == Cardinality({i \in 1..Len(c.vars) : PLt(c.w[i], c.w[j])})
         IN IF c.t = 1 THEN Cardinality(nz) <= 1
            ELSE Cardinality(nz) <= 2 /\ \A i, j \in nz : Abs(pos(i) - pos(j)) <= 1
    [] c.k = "compl" ->
         LET b == PAdd(BodyVal(c.expr, x), RhsU(c.expr.c, D))
             v == x[c.var + 1]  zero == <<0, 0>>
         IN /\ (v > c.vlb /\ v < c.vub) => PEq(b, zero)
            /\ (v = c.vlb /\ v < c.vub) => PLe(zero, b)
            /\ (v = c.vub /\ v > c.vlb) => PLe(b, zero)

\* constraint kinds the semantics above can evaluate (others make a case inconclusive)
ConKnown(c, D) ==
  \/ c.k \in {"alg", "ind", "linfunc", "quadfunc", "cond", "sos", "compl"}
  \/ /\ c.k = "func"
     /\ \/ FuncComputable(c, D)
        \/ c.type \in {"DivConstraint", "PLConstraint"}
        \/ (c.type = "ExpAConstraint" /\ D = 1)
        \/ (c.type \in {"QuadraticConeConstraint", "RotatedQuadraticConeConstraint"} /\ D = 1)

-----------------------------------------------------------------------------
(* Part 4.  Existence of auxiliary values and best objective (C01).           *)
(* d = delivered model [vars : Seq([lb, ub (scaled, finite), int, clipped]),  *)
(*                      cons : Seq(constraint), objs : Seq([max, lin, quad]), *)
(*                      steps : Seq([v, det, dk, chk])].                      *)
(* Backtracking over the auxiliary variables in the order given by steps      *)
(* (a structural heuristic computed by the recorder: small domains first,     *)
(* variables that are determined by an already-assigned functional constraint *)
(* or linear equality as soon as possible).  At step k variable steps[k].v    *)
(* is assigned; steps[k].chk lists the constraints all of whose variables are *)
(* then assigned - they are checked immediately (pruning).  If det > 0 the    *)
(* variable takes only the value computed from constraint det (dk = "func":   *)
(* it is the result of a computable functional constraint; dk = "lineq": it   *)
(* is the last unassigned variable of a linear equality - the candidate is    *)
(* computed from the integer parts and the equality itself is in chk).        *)

FullDom(d, i, D) ==
  LET v == d.vars[i]  step == IF v.int THEN D ELSE 1
  IN {k \in v.lb..v.ub : k % step = 0}

SolveLinEq(c, i, x, D) ==
  \* sum a_j xs_j = D * rhs_a ; all variables but i assigned in x (x[i] = 0)
  LET rest == SeqSum([j \in 1..Len(c.lin) |-> IF c.lin[j][2] + 1 = i THEN 0 ELSE c.lin[j][1][1] * x[c.lin[j][2] + 1]])
      ai == SeqSum([j \in 1..Len(c.lin) |-> IF c.lin[j][2] + 1 = i THEN c.lin[j][1][1] ELSE 0])
      num == D * c.lb[1] - rest
  IN IF Divides(ai, num) THEN {SDiv(num, ai)} ELSE {}

StepDom(d, st, x, D) ==
  LET full == FullDom(d, st.v, D)
  IN IF st.det = 0 THEN full
     ELSE LET c == d.cons[st.det]
          IN IF st.dk = "lineq" THEN SolveLinEq(c, st.v, x, D) \cap full
             ELSE IF c.k \in {"linfunc", "quadfunc"}
               THEN LET sum == PAdd(BodyVal(c.expr, x), RhsU(c.expr.c, D))
                    IN IF sum[2] = 0 /\ sum[1] % D = 0 THEN {sum[1] \div D} \cap full ELSE {}
             ELSE IF c.k = "cond" THEN {D * B2I(AlgSat(c.con, x, D))} \cap full
             ELSE FuncValSet(c, x, D) \cap full

StepOK(d, st, x, D) == \A j \in 1..Len(st.chk) : ConSat(d.cons[st.chk[j]], x, D)

RECURSIVE Feasible(_, _, _, _)
Feasible(d, k, x, D) ==
  IF k > Len(d.steps) THEN TRUE
  ELSE LET st == d.steps[k]
       IN \E v \in StepDom(d, st, x, D) :
            LET x2 == [x EXCEPT ![st.v] = v]
            IN StepOK(d, st, x2, D) /\ Feasible(d, k + 1, x2, D)

\* delivered objective value (pair) at a full assignment
DObj(o, x) == PAdd(LinVal(o.lin, x), QuadVal(o.quad, x))

RECURSIVE ObjValues(_, _, _, _, _)
\* set of objective-n values (pairs) over all feasible completions
ObjValues(d, k, x, D, n) ==
  IF k > Len(d.steps) THEN {DObj(d.objs[n], x)}
  ELSE LET st == d.steps[k]
       IN UNION { LET x2 == [x EXCEPT ![st.v] = v]
                  IN IF StepOK(d, st, x2, D) THEN ObjValues(d, k + 1, x2, D, n) ELSE {}
                  : v \in StepDom(d, st, x, D) }

Best(S, max) == IF max THEN CHOOSE p \in S : \A q \in S : PLe(q, p)
                       ELSE CHOOSE p \in S : \A q \in S : PLe(p, q)

\* the point p (original variables) extended with placeholders for the auxiliaries
Start(d, p) == [i \in 1..Len(d.vars) |-> IF i <= Len(p) THEN p[i] ELSE 0]
\* original variables' values must respect the delivered bounds too
OrigInBounds(d, p) == \A i \in 1..Len(p) : d.vars[i].lb <= p[i] /\ p[i] <= d.vars[i].ub
\* constraints that involve only original variables are checked on the point itself (d.chk0)
HasWitness(d, p, D) ==
  /\ OrigInBounds(d, p)
  /\ \A j \in 1..Len(d.chk0) : ConSat(d.cons[d.chk0[j]], Start(d, p), D)
  /\ Feasible(d, 1, Start(d, p), D)

-----------------------------------------------------------------------------
(* Part 5.  Canonical auxiliary values (C07): every auxiliary variable set to *)
(* the mathematical value of the expression that defines it.  Only defined    *)
(* when every step is determined by a functional constraint (the "native"     *)
(* acceptance configurations) or is a fixed variable nothing defines; the      *)
(* values need not respect the bounds.                                        *)
StepVal(d, st, x, D) ==
  \* a fixed variable that no constraint defines stands for a constant (the converter creates such
  \* variables for expressions it folded): its value is its only feasible value
  IF st.det = 0 /\ d.vars[st.v].lb = d.vars[st.v].ub THEN {d.vars[st.v].lb}
  ELSE IF st.det = 0 \/ st.dk # "func" THEN {}
  ELSE LET c == d.cons[st.det]
       IN IF c.k \in {"linfunc", "quadfunc"}
            THEN LET sum == PAdd(BodyVal(c.expr, x), RhsU(c.expr.c, D))
                 IN IF sum[2] = 0 /\ sum[1] % D = 0 THEN {sum[1] \div D} ELSE {}
          ELSE IF c.k = "cond" THEN {D * B2I(AlgSat(c.con, x, D))}
          ELSE FuncValSet(c, x, D)
RECURSIVE CanonFrom(_, _, _, _)
\* returns {} (not canonical) or {x}
CanonFrom(d, k, x, D) ==
  IF k > Len(d.steps) THEN {x}
  ELSE LET st == d.steps[k]  vs == StepVal(d, st, x, D)
       IN IF vs = {} THEN {} ELSE CanonFrom(d, k + 1, [x EXCEPT ![st.v] = CHOOSE v \in vs : TRUE], D)
Canon(d, p, D) == CanonFrom(d, 1, Start(d, p), D)
=============================================================================
