------------------------------- MODULE GenTol -------------------------------
(* Case generator for the tolerance clause of C07 (SolTol.tla): every item    *)
(* kind x reference magnitude x tolerance settings x discrepancy just below,  *)
(* at and just above each threshold x check modes x fail.                     *)
EXTENDS SolTol, TLC, Json

As == {4, 12, 20}                 \* feastol = 2^-a
Rs == {<<TRUE, 0>>, <<FALSE, 3>>, <<FALSE, 12>>, <<FALSE, 24>>}    \* feastolrel = 0 | 2^-r
Bs == {<<TRUE, 0>>, <<FALSE, 0>>, <<FALSE, 1>>, <<FALSE, 2>>}      \* |b| = 0 | 2^k
Is == {5, 17}                     \* inttol = 2^-i
Modes == {1, 2, 16, 515, 1023, 0, 32, 64, 512}

Ds(what, a, rz, r, k, i) ==
  LET around(t) == {t - 1, t, t + 1}
      s == IF what = "int" THEN around(i)
           ELSE around(a) \cup (IF rz THEN {} ELSE around(r - k))
  IN {d \in s : d >= 2 /\ d <= 30}

VARIABLE c
Init ==
  \E w \in Whats, m \in Modes, f \in BOOLEAN :
  \E a \in (IF w = "int" THEN {12} ELSE As), rr \in (IF w = "int" THEN {<<TRUE, 0>>} ELSE Rs), i \in (IF w = "int" THEN Is ELSE {5}) :
  \E bb \in Bs, ng \in BOOLEAN :
    /\ (bb[1] \/ w = "int") => ~ng
    /\ \E d \in Ds(w, a, rr[1], rr[2], bb[2], i) :
         c = [what |-> w, a |-> a, rz |-> rr[1], r |-> rr[2], bz |-> bb[1], k |-> bb[2], i |-> i, d |-> d, neg |-> ng, mode |-> m, fail |-> f]
Next == UNCHANGED c
Emit == PrintT(<<"CASE", ToJson(c)>>)
=============================================================================
