----------------------------- MODULE TraceBounds -----------------------------
(* One record per (case, converter answer); TLC decides soundness (Bounds).   *)
EXTENDS Bounds, Json, IOUtils
Lines == ndJsonDeserialize(IOEnv.TRACE)
VARIABLES l
E == Lines[l]
Init == l = 1
Next == /\ l <= Len(Lines) /\ l' = l + 1
        /\ IF E.e = "Case"
             THEN LET r == Verdict(E.c, E.r)
                  IN PrintT(<<"VERDICT", ToJson([id |-> E.id, v |-> r.v, at |-> r.at])>>)
             ELSE IF E.e = "Pair"
             THEN LET r == PairVerdict(E.c1, E.c2, E.same)
                  IN PrintT(<<"VERDICT", ToJson([id |-> E.id, v |-> r.v, at |-> r.at])>>)
             ELSE E.e = "Meta" \/ PrintT(<<"VERDICT", ToJson([id |-> -1, v |-> "crash", at |-> {}])>>)
Spec == Init /\ [][Next]_<<l>>
Finished == (l = Len(Lines) + 1) => PrintT(<<"DONE", ToJson([n |-> Len(Lines)])>>)
=============================================================================
