----------------------------- MODULE MCEasyModel -----------------------------
(* Design check of EasyModel.tla itself, exhaustive over small models:        *)
(*  n in 1..MaxN columns, every type pattern, every Hessian entry list of     *)
(*  length <= 2 (so duplicates, off-diagonal-only, outer-only / inner-only    *)
(*  variables all occur), linear part given or not.                           *)
(* One state per model; every invariant quantifies over all permutations.     *)
(* (Two levels -- Init picks the columns, Next the objective -- only so that   *)
(* TLC's workers share the models; invariants hold vacuously before `ready'.)  *)
EXTENDS EasyModel, TLC
CONSTANT MaxN
VARIABLES n, type, Q, hasC, ready

Entries(k) == {<<i, j, 3>> : i \in 0..(k - 1), j \in 0..(k - 1)}
\* entry lists are grouped by the outer index (as the API's row starts require)
QSeqs(k) == {<<>>} \cup {<<e>> : e \in Entries(k)}
            \cup UNION {{<<e, <<g[1], g[2], 5>> >> : g \in {f \in Entries(k) : e[1] <= f[1]}} : e \in Entries(k)}

Init == /\ n \in 1..MaxN /\ type \in [1..n -> Types] /\ Q = <<>> /\ hasC = FALSE /\ ready = FALSE
Next == /\ ~ready /\ ready' = TRUE /\ Q' \in QSeqs(n) /\ hasC' \in BOOLEAN /\ UNCHANGED <<n, type>>

M == [n |-> n, type |-> type, Q |-> Q, hasC |-> hasC, c0 |-> 3,
      c |-> [j \in 1..n |-> IF hasC THEN 2 * j - 3 ELSE 0]]
Perms == {p \in [1..n -> 0..(n - 1)] : IsPerm(p, n)}
Headers == [nlvo : 0..(n + 1), nlio : 0..n, nbin : 0..n, nint : 0..n]
H == Header(M)

\* a legal image exists, and the two formulations of legality agree
Exists == ~ready \/ (LegalImage(M, CanonPi(M), H) /\ BlockOrdered(M, CanonPi(M)))
Agree == ~ready \/ LET m == M  cv == ClassVec(m)  h == Header(m)
         IN \A p \in Perms : LegalImageCV(cv, p, h) <=> BlockOrdered(m, p)
\* the header of a legal image is determined by the model: counts = block sizes
\* (independent of the linear part: checked once per (type, Q))
HeaderUnique == ~ready \/ hasC \/ LET cv == ClassVec(M)  h0 == H
                        IN \A p \in Perms : \A h \in Headers :
                             LegalImageCV(cv, p, h) => (h.nlvo = h0.nlvo /\ h.nlio = h0.nlio /\ h.nbin = h0.nbin /\ h.nint = h0.nint)
Legal == LET cv == ClassVec(M)  h == H IN {p \in Perms : LegalImageCV(cv, p, h)}
\* legal images differ only by the order inside the blocks
UniqueUpToBlocks == ~ready \/ hasC \/ LET L == Legal  m == M IN \A p, q \in L :
                      \A c \in {"nc", "ni", "lc", "lb", "li"} :
                         {p[j + 1] : j \in {k \in Cols(m) : Class(m, k) = c}} = {q[j + 1] : j \in {k \in Cols(m) : Class(m, k) = c}}
\* the nonlinear variables occupy exactly the first nlvo positions of a legal image
NonlinearPrefix == ~ready \/ LET m == M  h == H  nl == NLVars(m) IN \A p \in Legal :
                      /\ {p[j + 1] : j \in nl} = 0..(h.nlvo - 1)
                      /\ VarsOf(CanonTree(m, p)) = (IF Len(Q) = 0 THEN {} ELSE 0..(h.nlvo - 1))
\* the canonical written objective is the given function, whatever legal image is used
EvalIsObj == ~ready \/ LET m == M IN \A p \in Legal :
                /\ TreeOK(CanonTree(m, p), n) /\ LinOK(CanonLin(m, p), n)
                /\ SameObjective(m, p, CanonLin(m, p), CanonTree(m, p))
\* permutation / inverse consistency (independent of the model: checked once per n)
PermInverse == ~ready \/ (hasC \/ Q # <<>> \/ \E j \in 1..n : type[j] # "cont") \/ \A p \in Perms :
                 /\ IsInversePair(p, Inverse(p), n) /\ Inverse(Inverse(p)) = p
                 /\ \A x \in [1..n -> {5, 6, 7}] : XCaller(p, XNL(p, x)) = x /\ XNL(p, XCaller(p, x)) = x
\* the spec discriminates: a header that counts Hessian ENTRIES instead of
\* distinct variables is rejected whenever the two differ, and an image that
\* leaves a variable of the nonlinear expression outside the block (a header
\* computed from the inner indices only) is rejected
EntryCountRejected == ~ready \/ hasC \/ (Len(Q) # H.nlvo => LET cv == ClassVec(M)  h == [H EXCEPT !.nlvo = Len(Q)]
                                                  IN \A p \in Perms : ~LegalImageCV(cv, p, h))
InnerOnlyRejected == ~ready \/
  LET inner == {Q[k][2] : k \in 1..Len(Q)}
      m2 == [M EXCEPT !.Q = [k \in 1..Len(Q) |-> <<Q[k][2], Q[k][2], Q[k][3]>>]]      \* marks inner indices only
  IN hasC \/ ((inner # NLVars(M)) => LET cv == ClassVec(M)  h == Header(m2) IN \A p \in Perms : ~LegalImageCV(cv, p, h))
=============================================================================
