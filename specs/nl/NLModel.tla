------------------------------ MODULE NLModel ------------------------------
(* The abstract NL model: what an NL file *means*, independent of text /    *)
(* binary encoding and of writer options.  Shared by C03 (round trip), C02  *)
(* (source of valid inputs) and the generators.                             *)
(*                                                                          *)
(* Numbers are ATOMS: indices into a table of doubles owned by the harness. *)
(* TLC never sees a double; "read back with the identical value" is atom    *)
(* equality.  The harness maps every double it reads back to the atom with  *)
(* the same bits (up to the sign of zero) or to AOther.                     *)
(*                                                                          *)
(* A model is a record                                                      *)
(*   cls      variable ordering classes: counts bc,bi (nonlinear in both,   *)
(*            continuous/integer), cc,ci (constraints only), oc,oi          *)
(*            (objectives only), lc (linear continuous), lb, li (linear     *)
(*            binary / integer)                                             *)
(*   vars     <<[lb, ub]>>               atoms; ANInf / APInf = no bound    *)
(*   cons     <<[lb, ub, k, cv, lin, expr]>>  algebraic; k > 0: complements *)
(*            variable cv with flags k; lin = <<<<var, atom>>>>             *)
(*   lcons    <<[expr]>>                 logical constraints                *)
(*   objs     <<[max, lin, expr]>>       max in {0,1}                       *)
(*   dvs      <<[lin, expr, grp]>>       defined variables in definition    *)
(*            order; grp 0 = shared, c > 0 = only in constraint c-1,        *)
(*            -o < 0 = only in objective o-1; index = NumVars + position    *)
(*   dvcls    [b, c, o]  how the header classifies the shared ones          *)
(*   funcs    <<[name, nargs, type]>>                                       *)
(*   x0, d0   <<<<index, atom>>>>        initial primal / dual values       *)
(*   sufs     <<[name, kind, real, vals]>>  kind 0..3 = var/con/obj/problem *)
(*            vals = <<<<index, value>>>>, value an int or (real) an atom   *)
(*   colnames, rownames  sequences of strings (empty = no name file)        *)
(*   opts     [n, o, vbtol]  AMPL options of the header                     *)
(*   flags    header flags                                                  *)
(* Expression trees:                                                        *)
(*   [k |-> "num", a |-> atom]      [k |-> "var", i |-> index]  (index >=   *)
(*   NumVars refers to a defined variable)   [k |-> "bool", v |-> BOOLEAN]  *)
(*   [k |-> "str", s |-> string]    [k |-> "op", op |-> name, args |-> <<>>]*)
(*   [k |-> "call", f |-> index, args |-> <<>>]                             *)
(*   [k |-> "pl", s |-> slopes, b |-> breakpoints, v |-> index]             *)
EXTENDS Integers, Sequences, FiniteSets, TLC

\* ---------------------------------------------------------------- atoms
AZero  == 0      \* +0.0
APInf  == 1
ANInf  == 2
AOne   == 3
ANegZ  == 4      \* -0.0: written as such, read back as "zero" (identity up to the sign of zero)
ADMax  == 5      \* DBL_MAX
ANDMax == 6      \* -DBL_MAX
NReserved == 7
AOther == -1     \* a double that is not in the table
NormA(a) == IF a = ANegZ THEN AZero ELSE a
\* what kind of number an atom is, for diagnostics
AtomClass(a) == CASE a = AZero -> "zero" [] a = APInf -> "pinf" [] a = ANInf -> "ninf" [] a = ADMax -> "dblmax"
                  [] a = ANDMax -> "ndblmax" [] a = AOther -> "other" [] OTHER -> "a"

\* ------------------------------------------------------- operator table
\* The NL format's operator numbering ("Writing .nl Files", Table 1 + AMPL
\* extensions) with the arity class of each.  Writer and reader each have a
\* private copy of this table; the round trip is judged on the NAMES.
OpTable == <<
  <<"ADD", 0, "binary">>, <<"SUB", 1, "binary">>, <<"MUL", 2, "binary">>,
  <<"DIV", 3, "binary">>, <<"MOD", 4, "binary">>, <<"POW", 5, "binary">>,
  <<"LESS", 6, "binary">>, <<"MIN", 11, "vararg">>, <<"MAX", 12, "vararg">>,
  <<"FLOOR", 13, "unary">>, <<"CEIL", 14, "unary">>, <<"ABS", 15, "unary">>,
  <<"MINUS", 16, "unary">>, <<"OR", 20, "binlog">>, <<"AND", 21, "binlog">>,
  <<"LT", 22, "rel">>, <<"LE", 23, "rel">>, <<"EQ", 24, "rel">>,
  <<"GE", 28, "rel">>, <<"GT", 29, "rel">>, <<"NE", 30, "rel">>,
  <<"NOT", 34, "not">>, <<"IF", 35, "if">>, <<"TANH", 37, "unary">>,
  <<"TAN", 38, "unary">>, <<"SQRT", 39, "unary">>, <<"SINH", 40, "unary">>,
  <<"SIN", 41, "unary">>, <<"LOG10", 42, "unary">>, <<"LOG", 43, "unary">>,
  <<"EXP", 44, "unary">>, <<"COSH", 45, "unary">>, <<"COS", 46, "unary">>,
  <<"ATANH", 47, "unary">>, <<"ATAN2", 48, "binary">>, <<"ATAN", 49, "unary">>,
  <<"ASINH", 50, "unary">>, <<"ASIN", 51, "unary">>, <<"ACOSH", 52, "unary">>,
  <<"ACOS", 53, "unary">>, <<"SUM", 54, "sum">>, <<"TRUNC_DIV", 55, "binary">>,
  <<"PRECISION", 56, "binary">>, <<"ROUND", 57, "binary">>, <<"TRUNC", 58, "binary">>,
  <<"COUNT", 59, "count">>, <<"NUMBEROF", 60, "numberof">>,
  <<"NUMBEROF_SYM", 61, "numberofsym">>, <<"ATLEAST", 62, "logcount">>,
  <<"ATMOST", 63, "logcount">>, <<"PLTERM", 64, "pl">>, <<"IFSYM", 65, "ifsym">>,
  <<"EXACTLY", 66, "logcount">>, <<"NOT_ATLEAST", 67, "logcount">>,
  <<"NOT_ATMOST", 68, "logcount">>, <<"NOT_EXACTLY", 69, "logcount">>,
  <<"FORALL", 70, "iterlog">>, <<"EXISTS", 71, "iterlog">>,
  <<"IMPLICATION", 72, "impl">>, <<"IFF", 73, "binlog">>,
  <<"ALLDIFF", 74, "pairwise">>, <<"NOT_ALLDIFF", 75, "pairwise">>,
  <<"POW_CONST_EXP", 76, "binary">>, <<"POW2", 77, "unary">>,
  <<"POW_CONST_BASE", 78, "binary">> >>

OpsOf(c) == {OpTable[i][1] : i \in {j \in 1..Len(OpTable) : OpTable[j][3] = c}}
UnaryOps    == OpsOf("unary")
BinaryOps   == OpsOf("binary")
VarArgOps   == OpsOf("vararg")
BinLogOps   == OpsOf("binlog")
RelOps      == OpsOf("rel")
LogCountOps == OpsOf("logcount")
IterLogOps  == OpsOf("iterlog")
PairwiseOps == OpsOf("pairwise")
AllOps      == {OpTable[i][1] : i \in 1..Len(OpTable)}
OpRow(op)   == OpTable[CHOOSE i \in 1..Len(OpTable) : OpTable[i][1] = op]
OpCode(op)  == OpRow(op)[2]
\* class of an operator; precomputed sets make this cheap for TLC
Cls(op) == IF op \in UnaryOps THEN "unary" ELSE IF op \in BinaryOps THEN "binary"
           ELSE IF op \in RelOps THEN "rel" ELSE IF op \in BinLogOps THEN "binlog"
           ELSE IF op \in LogCountOps THEN "logcount" ELSE IF op \in VarArgOps THEN "vararg"
           ELSE IF op \in IterLogOps THEN "iterlog" ELSE IF op \in PairwiseOps THEN "pairwise"
           ELSE IF op \in AllOps THEN OpRow(op)[3] ELSE "none"

NumericClasses == {"unary", "binary", "vararg", "sum", "count", "numberof", "numberofsym", "if"}
LogicalClasses == {"binlog", "rel", "not", "logcount", "iterlog", "impl", "pairwise"}
\* least number of arguments of the iterated forms
MinArgs(c) == CASE c \in {"sum", "iterlog"} -> 3
                [] c \in {"vararg", "count", "numberof", "numberofsym", "pairwise"} -> 1
                [] OTHER -> 0
\* contexts of the arguments of an operator of class c applied to n arguments
ArgCtx(c, n) ==
  CASE c = "unary"    -> <<"num">>
    [] c = "binary"   -> <<"num", "num">>
    [] c = "rel"      -> <<"num", "num">>
    [] c = "not"      -> <<"log">>
    [] c = "binlog"   -> <<"log", "log">>
    [] c = "logcount" -> <<"num", "cnt">>
    [] c = "if"       -> <<"log", "num", "num">>
    [] c = "ifsym"    -> <<"log", "sym", "sym">>
    [] c = "impl"     -> <<"log", "log", "log">>
    [] c \in {"vararg", "sum", "numberof", "pairwise"} -> [i \in 1..n |-> "num"]
    [] c \in {"count", "iterlog"} -> [i \in 1..n |-> "log"]
    [] c = "numberofsym" -> [i \in 1..n |-> "sym"]
    [] OTHER -> <<>>
FixedArity(c) == c \in {"unary", "binary", "rel", "not", "binlog", "logcount", "if", "ifsym", "impl"}

\* ------------------------------------------------------ sizes of a model
SumSeq(s) == LET RECURSIVE S(_) S(i) == IF i = 0 THEN 0 ELSE s[i] + S(i - 1) IN S(Len(s))
NumVars(m) == m.cls.bc + m.cls.bi + m.cls.cc + m.cls.ci + m.cls.oc + m.cls.oi +
              m.cls.lc + m.cls.lb + m.cls.li
NumDVs(m) == Len(m.dvs)
NumAllCons(m) == Len(m.cons) + Len(m.lcons)
SufItems(m, kind) == CASE kind = 0 -> NumVars(m) [] kind = 1 -> NumAllCons(m)
                       [] kind = 2 -> Len(m.objs) [] OTHER -> 1
NoExpr == [k |-> "num", a |-> AZero]       \* "no nonlinear part"
Count(s, P(_)) == Cardinality({i \in 1..Len(s) : P(s[i])})
MaxOf(S) == IF S = {} THEN 0 ELSE CHOOSE x \in S : \A y \in S : y <= x

\* ------------------------------------------------- well-formed trees
\* lim = [nv, nref, nf]: variables, variables + referable defined variables, functions
RECURSIVE WFTree(_, _, _)
WFArgs(args, ctxs, lim) == /\ Len(args) = Len(ctxs)
                           /\ \A i \in 1..Len(args) : WFTree(args[i], ctxs[i], lim)
WFTree(t, ctx, lim) ==
  CASE t.k = "num"  -> ctx \in {"num", "sym"}
    [] t.k = "bool" -> ctx = "log"
    [] t.k = "str"  -> ctx = "sym"
    [] t.k = "var"  -> ctx \in {"num", "sym"} /\ t.i \in 0..(lim.nref - 1)
    [] t.k = "pl"   -> /\ ctx \in {"num", "sym"}
                       /\ Len(t.b) >= 1 /\ Len(t.s) = Len(t.b) + 1
                       /\ t.v \in 0..(lim.nref - 1)
    [] t.k = "call" -> /\ ctx \in {"num", "sym"} /\ t.f \in 0..(lim.nf - 1)
                       /\ \A i \in 1..Len(t.args) : WFTree(t.args[i], "sym", lim)
    [] t.k = "op"   ->
         LET c == Cls(t.op) IN
         /\ c # "none" /\ c # "pl"
         /\ CASE ctx = "num" -> c \in NumericClasses
              [] ctx = "sym" -> c \in NumericClasses \cup {"ifsym"}
              [] ctx = "log" -> c \in LogicalClasses
              [] ctx = "cnt" -> c = "count"
         /\ (~FixedArity(c)) => Len(t.args) >= MinArgs(c)
         /\ WFArgs(t.args, ArgCtx(c, Len(t.args)), lim)
    [] OTHER -> FALSE

WFLin(lin, nv) == /\ \A i \in 1..Len(lin) : lin[i][1] \in 0..(nv - 1)
                  /\ \A i, j \in 1..Len(lin) : i # j => lin[i][1] # lin[j][1]

\* position reported for a defined variable (the writer derives it from the group)
DVPos(m, grp) == IF grp >= 0 THEN grp ELSE NumAllCons(m) - grp

WFModel(m) ==
  LET nv == NumVars(m)
      lim(nref) == [nv |-> nv, nref |-> nref, nf |-> Len(m.funcs)]
      all == lim(nv + NumDVs(m))
  IN
  /\ nv >= 1 /\ Len(m.vars) = nv
  /\ \A f \in DOMAIN m.cls : m.cls[f] >= 0
  /\ \A i \in 1..Len(m.cons) :
       LET c == m.cons[i] IN
       /\ c.k \in 0..3 /\ (c.k > 0 => c.cv \in 0..(nv - 1))
       /\ WFLin(c.lin, nv) /\ WFTree(c.expr, "num", all)
  /\ \A i \in 1..Len(m.lcons) : WFTree(m.lcons[i].expr, "log", all)
  /\ \A i \in 1..Len(m.objs) :
       /\ m.objs[i].max \in {0, 1} /\ WFLin(m.objs[i].lin, nv)
       /\ WFTree(m.objs[i].expr, "num", all)
  /\ \A i \in 1..Len(m.dvs) :
       LET d == m.dvs[i] IN
       /\ WFLin(d.lin, nv) /\ WFTree(d.expr, "num", lim(nv + i - 1))
       /\ d.grp \in (-Len(m.objs))..NumAllCons(m)
       /\ \A j \in 1..(i - 1) :       \* definition order = writer's group order
            LET g == m.dvs[j].grp IN
            \/ g = 0 \/ (g > 0 /\ d.grp # 0 /\ (d.grp < 0 \/ d.grp >= g))
            \/ (g < 0 /\ d.grp <= g)
  /\ m.dvcls.b + m.dvcls.c + m.dvcls.o = Count(m.dvs, LAMBDA d : d.grp = 0)
  /\ \A i \in 1..Len(m.funcs) : m.funcs[i].type \in {0, 1}
  /\ \A i \in 1..Len(m.x0) : m.x0[i][1] \in 0..(nv - 1)
  /\ \A i \in 1..Len(m.d0) : m.d0[i][1] \in 0..(Len(m.cons) - 1)
  /\ Len(m.x0) <= nv /\ Len(m.d0) <= Len(m.cons)
  /\ \A i \in 1..Len(m.sufs) :
       LET s == m.sufs[i] IN
       /\ s.kind \in 0..3 /\ Len(s.vals) \in 1..SufItems(m, s.kind)
       /\ \A j \in 1..Len(s.vals) : s.vals[j][1] \in 0..(SufItems(m, s.kind) - 1)
  /\ Len(m.colnames) \in {0, nv}
  /\ Len(m.rownames) \in {0, Len(m.cons) + Len(m.lcons) + Len(m.objs)}
  /\ m.opts.n \in 0..9 /\ Len(m.opts.o) = 9

\* ---------------------------------------------------- the NL header
IsNum0(t) == t.k = "num" /\ t.a = AZero
Finite(a) == a # ANInf /\ a # APInf
\* Jacobian column sizes: entries of column v over all constraints
ColCount(m, v) == SumSeq([i \in 1..Len(m.cons) |->
                            Cardinality({j \in 1..Len(m.cons[i].lin) : m.cons[i].lin[j][1] = v})])
ColSizes(m) == [v \in 1..(NumVars(m) - 1) |-> ColCount(m, v - 1)]

\* fmt: 0 text, 1 binary.  Name lengths are what the writer derives from the
\* name files it writes.
HeaderOf(m, fmt) ==
  LET nlvb == m.cls.bc + m.cls.bi
      nlvc == nlvb + m.cls.cc + m.cls.ci
      isCompl(c) == c.k > 0
      isNL(c) == ~IsNum0(c.expr)
  IN
  [ fmt |-> fmt, nopts |-> m.opts.n, opts |-> m.opts.o, vbtol |-> m.opts.vbtol,
    nv |-> NumVars(m), nac |-> Len(m.cons), no |-> Len(m.objs),
    nr |-> Count(m.cons, LAMBDA c : c.k = 0 /\ Finite(c.lb) /\ Finite(c.ub) /\ c.lb # c.ub),
    neq |-> Count(m.cons, LAMBDA c : c.k = 0 /\ Finite(c.lb) /\ c.lb = c.ub),
    nlc |-> Len(m.lcons),
    nnlc |-> Count(m.cons, isNL), nnlo |-> Count(m.objs, isNL),
    ncc |-> Count(m.cons, isCompl),
    nnlcc |-> Count(m.cons, LAMBDA c : isCompl(c) /\ isNL(c)),
    ncdi |-> 0, ncvnz |-> 0, nnlnet |-> 0, nlinnet |-> 0,
    nlvc |-> nlvc,
    nlvo |-> IF m.cls.oc + m.cls.oi > 0 THEN nlvc + m.cls.oc + m.cls.oi ELSE nlvb,
    nlvb |-> nlvb, nlnv |-> 0, nf |-> Len(m.funcs),
    arith |-> IF fmt = 1 THEN 1 ELSE 0, flags |-> m.flags,
    nbv |-> m.cls.lb, niv |-> m.cls.li,
    nlvbi |-> m.cls.bi, nlvci |-> m.cls.ci, nlvoi |-> m.cls.oi,
    nzc |-> SumSeq([i \in 1..Len(m.cons) |-> Len(m.cons[i].lin)]),
    nzo |-> SumSeq([i \in 1..Len(m.objs) |-> Len(m.objs[i].lin)]),
    maxcn |-> MaxOf({Len(m.rownames[i]) : i \in 1..Len(m.rownames)}),
    maxvn |-> MaxOf({Len(m.colnames[i]) : i \in 1..Len(m.colnames)}),
    nce |-> << m.dvcls.b, m.dvcls.c, m.dvcls.o,
               Count(m.dvs, LAMBDA d : d.grp > 0), Count(m.dvs, LAMBDA d : d.grp < 0) >> ]
=============================================================================
