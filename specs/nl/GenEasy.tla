------------------------------- MODULE GenEasy -------------------------------
(* Case generator for C08: TLC enumerates abstract matrix models             *)
(*   n in 1..MaxN columns x ALL type patterns x Hessian entry patterns       *)
(* and derives the secondary dimensions (linear part given / not given /     *)
(* all-zero, offset, declared Hessian format, text/binary, comments, row     *)
(* matrix, bounds, warm starts, suffixes, names, the solution to be returned) *)
(* by rotation, so that all their values occur in combination with every     *)
(* primary shape class.  One CASE line per state with hc # 0.                 *)
(* Environment: TIER (quick|thorough), SEED (integer).                       *)
EXTENDS EasyModel, TLC, Json, IOUtils
CONSTANT MaxN
VARIABLES n, tc, hc, k

Thorough == IOEnv.TIER = "thorough"
Seed == atoi(IOEnv.SEED)
\* variants (of the secondary dimensions) per primary shape: the LP shapes (no Hessian,
\* pattern 1) are the core of the permutation logic and get more of them
KMax == 8
KOf(h) == IF h = 1 THEN (IF Thorough THEN 8 ELSE 4) ELSE (IF Thorough THEN 2 ELSE 1)

RECURSIVE Pow(_, _)
Pow(b, e) == IF e = 0 THEN 1 ELSE b * Pow(b, e - 1)
RECURSIVE StrOf(_)
StrOf(s) == IF Len(s) = 0 THEN "" ELSE ToString(Head(s)) \o StrOf(Tail(s))

\* ---------------------------------------------------------------- columns
TypeList == <<"cont", "bin", "int">>
Letter == <<"c", "b", "i">>
TypeAt(c, j) == ((c \div Pow(3, j - 1)) % 3) + 1
ContB == << <<-INF, INF>>, <<0, INF>>, <<-2, 3>>, <<-INF, 5>>, <<1, 1>>, <<0, 1>> >>
IntB == << <<0, 5>>, <<-3, 7>>, <<0, INF>>, <<2, 2>>, <<-1, 1>>, <<0, 2>> >>
Bnd(t, j, r2) == IF t = "bin" THEN <<0, 1>>
                 ELSE IF t = "cont" THEN ContB[((r2 + j * 5) % 6) + 1] ELSE IntB[((r2 + j * 5) % 6) + 1]

\* ---------------------------------------------------------------- Hessian entry patterns
\* each: [name, e: sequence of <<i, j>> grouped by non-decreasing outer index i]
AllIJ(m) == [q \in 1..(m * m) |-> <<(q - 1) \div m, (q - 1) % m>>]
Up(m) == SelectSeq(AllIJ(m), LAMBDA e : e[1] < e[2])
Lo(m) == SelectSeq(AllIJ(m), LAMBDA e : e[1] > e[2])
Ne(m) == SelectSeq(AllIJ(m), LAMBDA e : e[1] # e[2])
Members(code, m) == SelectSeq([j \in 1..m |-> j - 1], LAMBDA j : (code \div Pow(2, j)) % 2 = 1)
P(name, e) == [name |-> name, e |-> e]
HPats(m) ==
     << P("none", <<>>) >>
  \o [code \in 1..(Pow(2, m) - 1) |->                       \* diagonal-only, every nonlinear subset
        LET S == Members(code, m) IN P("diag." \o StrOf(S), [q \in 1..Len(S) |-> <<S[q], S[q]>>])]
  \o [q \in 1..Len(Up(m)) |-> P("offup." \o StrOf(Up(m)[q]), <<Up(m)[q]>>)]          \* single entry i<j
  \o [q \in 1..Len(Lo(m)) |-> P("offlo." \o StrOf(Lo(m)[q]), <<Lo(m)[q]>>)]          \* single entry i>j
  \o [q \in 1..Len(Up(m)) |-> LET e == Up(m)[q] IN P("offboth." \o StrOf(e), <<e, <<e[2], e[1]>> >>)]
  \o [a \in 1..m |-> P("dup." \o ToString(a - 1), << <<a - 1, a - 1>>, <<a - 1, a - 1>> >>)]   \* same (i,i) twice
  \o (IF m >= 2 THEN << P("dupoff.01", << <<0, 1>>, <<0, 1>> >>) >> ELSE << P("dup3.0", << <<0, 0>>, <<0, 0>>, <<0, 0>> >>) >>)
  \* a appears only as the outer ("row") index: (a,b),(b,b)
  \o [q \in 1..Len(Ne(m)) |-> LET e == Ne(m)[q] IN
        P("outer." \o StrOf(e), IF e[1] < e[2] THEN <<e, <<e[2], e[2]>> >> ELSE << <<e[2], e[2]>>, e>>)]
  \* b appears only as the inner index: (a,a),(a,b)
  \o [q \in 1..Len(Ne(m)) |-> LET e == Ne(m)[q] IN P("inner." \o StrOf(e), << <<e[1], e[1]>>, e>>)]
  \o (IF m >= 2 THEN << P("full", AllIJ(m)),                                          \* square, both triangles
                        P("triup", SelectSeq(AllIJ(m), LAMBDA e : e[1] <= e[2])),
                        P("trilo", SelectSeq(AllIJ(m), LAMBDA e : e[1] >= e[2])) >> ELSE <<>>)
Vals == <<3, -2, 5, 4, -1, 7, 2, -3, 6, 1, -5, 9, -4, 8, -7, 10>>

\* ---------------------------------------------------------------- enumeration
NPats(m) == Len(HPats(m))
RECURSIVE Base(_)
Base(m) == IF m <= 1 THEN 0 ELSE Base(m - 1) + Pow(3, m - 1) * NPats(m - 1)
IdxOf(h) == Base(n) + tc * NPats(n) + (h - 1)
Idx == IdxOf(hc)
\* quick: n <= 3 and all LP shapes completely, n = 4 QPs every 17th shape (seed-shifted);
\* thorough: everything
Keep(h) == Thorough \/ n <= 3 \/ h = 1 \/ (IdxOf(h) + Seed) % 17 = 0

\* two levels (columns, then objective shape) so that TLC's workers share the work
Init == /\ n \in 1..MaxN /\ tc \in 0..(Pow(3, n) - 1) /\ hc = 0 /\ k = 0
Next == /\ hc = 0 /\ hc' \in {h \in 1..NPats(n) : Keep(h)} /\ k' \in 0..(KOf(hc') - 1) /\ UNCHANGED <<n, tc>>

\* ---------------------------------------------------------------- the case
R == tc * 5 + hc * 7 + k * 11 + n + Seed           \* rotates lin/offset/text/comments/format
R2 == (R * 7919 + Idx * 4729 + 13) % 10007          \* everything else
Coef(i, j, r2) == LET v == ((i * 3 + j * 5 + r2) % 7) - 3 IN IF v = 0 THEN 4 ELSE v
RangeList == << <<2, 2>>, <<-1, 4>>, <<1, INF>>, <<-INF, 3>>, <<-INF, INF>> >>
Row(i, cols, r2) == LET rg == RangeList[((r2 + i) % 5) + 1]
                    IN [lb |-> rg[1], ub |-> rg[2], t |-> [q \in 1..Len(cols) |-> <<cols[q], Coef(i, cols[q], r2)>>]]
RowsOf(rp, r2) ==
  LET all == [j \in 1..n |-> j - 1]
      rev == [j \in 1..n |-> n - j]
  IN CASE rp = 0 -> <<>>
       [] rp = 1 -> << Row(0, <<>>, r2), Row(1, all, r2) >>                         \* an empty row, a dense row
       [] rp = 2 -> [i \in 1..(IF n > 3 THEN 3 ELSE n) |->                           \* sparse rows, unsorted indices
                       Row(i - 1, IF n = 1 THEN <<0>> ELSE <<i % n, i - 1>>, r2)]
       [] rp = 3 -> << Row(0, <<r2 % n>>, r2), Row(1, rev, r2) >>
Codes == <<0, 100, 200, 300, 400, 500, 3, 599>>

CaseRec ==
  LET r == R
      r2 == R2
      lin == r % 3                      \* 0 given, 1 not given (nullptr), 2 given all-zero
      off == (r \div 3) % 2
      text == (r \div 6) % 2 = 1
      comments == (r \div 12) % 2 = 1
      fmt == ((r \div 24) % 2) + 1
      rp == (r2 \div 2) % 4
      type == [j \in 1..n |-> TypeList[TypeAt(tc, j)]]
      letters == [j \in 1..n |-> Letter[TypeAt(tc, j)]]
      bnd == [j \in 1..n |-> Bnd(type[j], j, r2)]
      pat == HPats(n)[hc]
      Q == [q \in 1..Len(pat.e) |-> <<pat.e[q][1], pat.e[q][2], Vals[((q - 1 + r2) % 16) + 1]>>]
      rows == RowsOf(rp, r2)
      nr == Len(rows)
      vreal == (r2 \div 24) % 2 = 1
      sp == (r2 \div 48) % 4
      sufVar == << [name |-> "sst", kind |-> 0, real |-> vreal, v |-> [j \in 1..n |-> (j + r2) % 3]] >>
      sufCon == IF nr >= 1 /\ sp \in {0, 3}
                THEN << [name |-> "sst", kind |-> 1, real |-> ~vreal, v |-> [i \in 1..nr |-> ((i + r2) % 3) + 1]] >> ELSE <<>>
      sufObj == IF sp \in {1, 3} THEN << [name |-> "osfx", kind |-> 2, real |-> (r2 \div 7) % 2 = 1, v |-> <<5>>] >> ELSE <<>>
      sufPrb == IF sp \in {2, 3} THEN << [name |-> "psfx", kind |-> 3, real |-> (r2 \div 7) % 2 = 0, v |-> <<(r2 % 5) + 1>>] >> ELSE <<>>
      wp == (r2 \div 4) % 3
      svreal == (r2 \div 17) % 2 = 1
      tag == "n" \o ToString(n) \o "-" \o letters[1] \o (IF n >= 2 THEN letters[2] ELSE "") \o (IF n >= 3 THEN letters[3] ELSE "")
             \o (IF n >= 4 THEN letters[4] ELSE "")
             \o "-H" \o pat.name \o "-q" \o ToString(Len(Q)) \o "o" \o ToString(off) \o "-f" \o ToString(fmt)
             \o "-L" \o <<"g", "n", "z">>[lin + 1] \o "-" \o (IF text THEN "T" ELSE "B") \o (IF comments THEN "c" ELSE "x")
             \o "-R" \o ToString(rp) \o (IF KOf(hc) > 1 THEN "-k" \o ToString(k) ELSE "")
  IN [id |-> Idx * KMax + k, tag |-> tag,
      n |-> n, type |-> type, lb |-> [j \in 1..n |-> bnd[j][1]], ub |-> [j \in 1..n |-> bnd[j][2]],
      typeNull |-> (\A j \in 1..n : type[j] = "cont") /\ (r2 \div 13) % 2 = 0,
      rows |-> rows,
      sense |-> (r2 \div 3) % 2,
      c0 |-> IF off = 0 THEN 0 ELSE ((r2 % 4) + 1) * (IF r2 % 2 = 0 THEN 1 ELSE -1),
      hasC |-> lin # 1,
      c |-> [j \in 1..n |-> IF lin = 0 THEN ((j * 2 + r2) % 5) - 2 ELSE 0],
      fmt |-> fmt, Q |-> Q,
      x0 |-> CASE wp = 0 -> <<>> [] wp = 1 -> << <<r2 % n, 7>> >> [] wp = 2 -> [q \in 1..n |-> <<n - q, 10 + n - q>>],
      y0 |-> IF nr >= 1 /\ (r2 \div 12) % 2 = 1 THEN [i \in 1..nr |-> <<i - 1, 20 + i>>] ELSE <<>>,
      suf |-> sufVar \o sufCon \o sufObj \o sufPrb,
      hasColNames |-> (r2 \div 3) % 2 = 0,
      colNames |-> [j \in 1..n |-> "x" \o ToString(j - 1) \o letters[j]],
      hasRowNames |-> nr >= 1 /\ (r2 \div 5) % 2 = 0,
      rowNames |-> [i \in 1..nr |-> "row" \o ToString(i - 1)],
      hasObjName |-> (r2 \div 11) % 2 = 0, objName |-> "cost",
      text |-> text, comments |-> comments,
      sol |-> [x |-> [p \in 1..n |-> (((p - 1) * 3 + r2) % 7) - 2],
               y |-> [i \in 1..nr |-> ((i * 2 + r2) % 5) + 1],
               code |-> Codes[(r2 % 8) + 1],
               vsuf |-> [present |-> TRUE, name |-> "sv", real |-> svreal, v |-> [p \in 1..n |-> (p + r2) % (n + 1)]],
               csuf |-> [present |-> nr >= 1, name |-> "sc", real |-> ~svreal, v |-> [i \in 1..nr |-> i + 1]]]]

\* one CASE per generated shape; a malformed case would be a broken generator
Emit == hc = 0 \/ LET c == CaseRec IN Assert(WellFormed(c) /\ PairwiseDistinct(c.sol.x), <<"malformed case", c.tag>>)
                            /\ PrintT(<<"CASE", ToJson(c)>>)
=============================================================================
