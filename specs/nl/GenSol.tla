------------------------------- MODULE GenSol -------------------------------
(* Generator of abstract solutions for C05 (and, as valid base files, C14).   *)
(* Every family below varies some dimensions of the solution record           *)
(* exhaustively; the "mix" family combines all dimensions with a seeded       *)
(* covering sequence.  Each case is printed as  <<"CASE", ToJson(case)>>.     *)
EXTENDS SolFormat, TLC, Json, IOUtils

Seed == atoi(IOEnv.SEED)
NMix == atoi(IOEnv.NMIX)
S(x) == ToString(x)
B(b) == IF b THEN "1" ELSE "0"

DefMsg == [nbs |-> 0, lines |-> <<"Solver 1.0: optimal solution; objective 42">>, crlf |-> FALSE, trail |-> FALSE]
Base == [tag |-> "base", msg |-> DefMsg, opts |-> <<1, 1, 0>>, vbtol |-> NoAtom,
         nvars |-> 2, ncons |-> 1, primal |-> <<4, 13>>, dual |-> <<14>>, objno |-> 1, code |-> 0, sufs |-> <<>>]

\* ---- vectors: every (nvars, nprimal, ncons, ndual), atoms rotating over all finite ones
Rot(c, k) == (c * 7 + k * 3 + Seed) % 30
VecCases ==
  {c \in {[Base EXCEPT !.tag = "vec:nv" \o S(nv) \o ":np" \o S(np) \o ":nc" \o S(nc) \o ":nd" \o S(nd),
                !.nvars = nv, !.ncons = nc,
                !.primal = [i \in 1..np |-> Rot(nv * 16 + np * 4 + nc, i)],
                !.dual = [i \in 1..nd |-> Rot(nc * 16 + nd * 4 + nv, i + 4)]] :
     nv \in 0..3, np \in 0..3, nc \in 0..3, nd \in 0..3} : WellFormed(c)}
\* ---- every atom in every numeric position (non-finite ones: the rejection clause)
RealSuf(a) == [kind |-> 0, real |-> TRUE, iodecl |-> FALSE, out |-> TRUE, name |-> "val",
               table |-> <<>>, vals |-> <<a>>]
AtomCases ==
  {[Base EXCEPT !.tag = "atom:" \o S(a) \o ":primal", !.nvars = 1, !.primal = <<a>>, !.dual = <<>>] : a \in Atoms}
  \cup {[Base EXCEPT !.tag = "atom:" \o S(a) \o ":dual", !.primal = <<>>, !.dual = <<a>>] : a \in Atoms}
  \cup {[Base EXCEPT !.tag = "atom:" \o S(a) \o ":suffix", !.sufs = <<RealSuf(a)>>] : a \in Atoms}
  \cup {[Base EXCEPT !.tag = "atom:" \o S(a) \o ":vbtol", !.opts = <<1, 3, 0, 0, 0>>, !.vbtol = a] : a \in {13, 25, 4}}
\* ---- message shapes
MsgLines == << <<>>,                                                         \* 1 empty message
               <<"Solver 1.0: optimal solution; objective 42">>,             \* 2
               <<"Solver 1.0: infeasible", "", "3 simplex iterations">>,     \* 3 blank line inside
               <<"", "after an empty first line">>,                          \* 4
               <<"text", "">>,                                               \* 5 (with trail) empty last line
               <<" ">>,                                                      \* 6 a line holding one space
               <<"a", " ", "b">>,                                            \* 7
               <<"trailing spaces  ", "  leading spaces">>,                  \* 8
               <<"Options">>,                                                \* 9 text that looks like a section
               <<"objno 0 0", "3", "suffix 0 1 2 0 0">>,                     \* 10
               <<"a", "", "", "b">>,                                         \* 11 two blank lines inside
               <<"@L600", "next">>,                                          \* 12 a 600-character line
               <<"@L511", "next">>,                                          \* 13 a line of exactly 511 characters
               <<"@L510", "next">> >>                                        \* 14
MsgCases ==
  {c \in {[Base EXCEPT !.tag = "msg:s" \o S(k) \o ":crlf" \o B(cr) \o ":nbs" \o S(nb) \o ":trail" \o B(tr),
                       !.msg = [nbs |-> nb, lines |-> MsgLines[k], crlf |-> cr, trail |-> tr]] :
           k \in 1..Len(MsgLines), cr \in BOOLEAN, nb \in {0, 1, 5}, tr \in BOOLEAN} :
     WellFormed(c) /\ (c.msg.crlf => Len(c.msg.lines) > 0)}
\* ---- options: counts 0, 3..9, the vbtol form, with present/absent vectors
OptVals(n, vb) == [i \in 1..n |-> IF i = 2 THEN (IF vb THEN 3 ELSE 1) ELSE (i * 3 + Seed) % 5]
OptCases ==
  {c \in {[Base EXCEPT !.tag = "opt:n" \o S(n) \o ":vbtol" \o B(vb) \o ":np" \o S(np) \o ":nd" \o S(nd),
                       !.opts = OptVals(n, vb), !.vbtol = IF vb THEN 13 + (n % 3) ELSE NoAtom,
                       !.primal = [i \in 1..np |-> 3 + i], !.dual = [i \in 1..nd |-> 14]] :
           n \in {0} \cup 3..9, vb \in BOOLEAN, np \in {0, 2}, nd \in {0, 1}} :
     WellFormed(c)}
\* ---- objective number and solve code
ObjCases ==
  {[Base EXCEPT !.tag = "obj:o" \o S(o) \o ":c" \o S(cd), !.objno = o, !.code = cd] :
     o \in {0, 1, 2, 7}, cd \in {-1, 0, 100, 299, 567, 999, 1999999999}}
\* ---- suffixes: kind x int/real x iodecl x table shape x sparsity pattern
Tables == << <<>>, <<"1 one">>, <<"0 none no status", "1 bas basic">>,
             <<"", "0 non not in the iis", "1 low at lower bound", "">> >>
IntPats == << <<>>, <<0, 0>>, <<7>>, <<0, -1, 0>>, <<2147483646, -2147483646, 3>> >>
RealPats == << <<>>, <<0, 1>>, <<13>>, <<1, 16, 0>>, <<2, 19, 26>> >>
Names == <<"sstatus", "x", "a_long_suffix_name_0123456789", "iis">>
SufCases ==
  {[Base EXCEPT !.tag = "suf:k" \o S(k) \o ":real" \o B(r) \o ":io" \o B(io) \o ":tab" \o S(t) \o ":pat" \o S(p),
                !.sufs = <<[kind |-> k, real |-> r, iodecl |-> io, out |-> TRUE, name |-> Names[k + 1],
                            table |-> Tables[t], vals |-> IF r THEN RealPats[p] ELSE IntPats[p]]>>] :
     k \in 0..3, r \in BOOLEAN, io \in BOOLEAN, t \in 1..4, p \in 1..5}
Mk(k, r, o, nm, t, v) == [kind |-> k, real |-> r, iodecl |-> FALSE, out |-> o, name |-> nm, table |-> Tables[t], vals |-> v]
MultiSufs == << <<Mk(0, FALSE, TRUE, "sstatus", 3, <<1, 4>>), Mk(1, FALSE, TRUE, "sstatus", 3, <<3>>)>>,
                <<Mk(0, TRUE, TRUE, "b", 1, <<13, 0>>), Mk(0, FALSE, TRUE, "a", 1, <<0, 2>>), Mk(0, FALSE, TRUE, "ab", 2, <<5, 5>>)>>,
                <<Mk(3, TRUE, TRUE, "obj", 1, <<22>>), Mk(2, TRUE, TRUE, "obj", 1, <<22>>), Mk(1, TRUE, FALSE, "hidden", 1, <<14>>)>>,
                <<Mk(2, FALSE, FALSE, "nsol", 1, <<3>>)>>,
                <<Mk(0, FALSE, TRUE, "z", 4, <<1, 1>>), Mk(1, TRUE, TRUE, "z", 1, <<15>>), Mk(2, FALSE, TRUE, "z", 1, <<1>>), Mk(3, TRUE, TRUE, "z", 2, <<17>>)>> >>
MultiCases == {[Base EXCEPT !.tag = "sufs:m" \o S(m), !.sufs = MultiSufs[m]] : m \in 1..Len(MultiSufs)}
\* ---- seeded covering combination of all dimensions
P(i, p, n) == ((i * p + Seed * 13 + (i \div n)) % n) + 1
MixCase(i) ==
  LET nv == P(i, 5, 4) - 1   nc == P(i, 7, 4) - 1
      np == IF P(i, 3, 3) = 1 THEN 0 ELSE nv
      nd == IF P(i, 11, 3) = 1 THEN 0 ELSE nc
      n  == <<3, 4, 5, 6, 7, 8, 9>>[P(i, 13, 7)]
      k  == <<2, 3, 7, 8, 10>>[P(i, 17, 5)]
      m  == [nbs |-> <<0, 0, 3>>[P(i, 19, 3)], lines |-> MsgLines[k], crlf |-> P(i, 23, 4) = 1, trail |-> P(i, 29, 2) = 1]
      su == IF P(i, 31, 3) = 1 THEN <<>> ELSE MultiSufs[P(i, 37, Len(MultiSufs))]
  IN [tag |-> "mix:" \o S(i), msg |-> m, opts |-> OptVals(n, FALSE), vbtol |-> NoAtom, nvars |-> nv, ncons |-> nc,
      primal |-> [j \in 1..np |-> Rot(i, j)], dual |-> [j \in 1..nd |-> Rot(i, j + 5)],
      objno |-> P(i, 41, 3) - 1, code |-> <<0, 200, 401, 502>>[P(i, 43, 4)], sufs |-> su]
MixCases == {c \in {MixCase(i) : i \in 1..NMix} : WellFormed(c)}

AllCases == VecCases \cup AtomCases \cup MsgCases \cup OptCases \cup ObjCases \cup SufCases \cup MultiCases \cup MixCases

VARIABLE c
Init == c \in AllCases
Next == UNCHANGED c
\* every generated case is a well-formed solution
Emit == WellFormed(c) /\ PrintT(<<"CASE", ToJson(c)>>)
=============================================================================
