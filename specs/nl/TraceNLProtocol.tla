--------------------------- MODULE TraceNLProtocol ---------------------------
(* Trace validation for C02.  Every record is one NL byte string read by the *)
(* REAL reader in one configuration:                                         *)
(*   Read{input, role, base, size, flags, handler, a, b}                     *)
(*     a = callbacks seen through ReadNLString (memory),                     *)
(*     b = callbacks seen through ReadNLFile (disk); for the mp::Problem     *)
(*     builder and the null handler only the terminal event is observable.   *)
(*   Crash / Hang: the reader died (signal, sanitizer report) or hung.       *)
(* Accepted iff                                                              *)
(*   - the stream of the recording handler is a behaviour of NLProtocol      *)
(*     (every event enabled: header first, indices below the header counts,  *)
(*     announced counts honoured, Begin/End nested) that ends in EndInput or *)
(*     Throw(kind); with a handler that builds nothing a failure must be a   *)
(*     located read error,                                                   *)
(*   - file path and memory path give identical notifications,               *)
(*   - a byte-swapped binary file gives the notifications of its native      *)
(*     twin (role "swap" directly follows role "bin" of the same base).      *)
EXTENDS NLProtocol, Json, IOUtils
Lines == ndJsonDeserialize(IOEnv.TRACE)
VARIABLES l, ref
\* ref[flags]: [base, evs] of the last native binary file read by the recording handler
vars == <<l, ref>>
E == Lines[l]
NoRef == [base |-> "", evs |-> <<>>]
Masked(evs) == IF Len(evs) > 0 /\ evs[1].e = "OnHeader" THEN [evs EXCEPT ![1].arith = 0] ELSE evs

TerminalOK(e, handler) ==
  \/ e.e = "EndInput"
  \/ /\ e.e = "Throw" /\ Located(e)
     /\ e.kind \in (IF handler = "prob" THEN ThrowKinds \cup {"std_exception"}    \* a builder may fail in its own ways
                    ELSE {"ReadError", "BinaryReadError"})                        \* malformed content: a located read error
Problems(e) ==
  LET run == Run(e.a)
      last == IF Len(e.a) > 0 THEN e.a[Len(e.a)] ELSE [e |-> "none"]
  IN
  (IF e.a # e.b THEN {[k |-> "filemem", na |-> Len(e.a), nb |-> Len(e.b),
                       ta |-> last, tb |-> IF Len(e.b) > 0 THEN e.b[Len(e.b)] ELSE [e |-> "none"]]} ELSE {})
  \cup (IF e.handler = "rec" /\ run.at # 0
        THEN {[k |-> "protocol", at |-> run.at, ev |-> e.a[run.at], why |-> run.st.why, h |-> run.st.h]} ELSE {})
  \cup (IF e.handler = "rec" /\ run.at = 0 /\ ~Terminal(run.st) THEN {[k |-> "noterminal", last |-> last]} ELSE {})
  \cup (IF e.handler # "rec" /\ Len(e.a) # 1 THEN {[k |-> "noterminal", last |-> last]} ELSE {})
  \cup (IF Len(e.a) > 0 /\ last.e \in {"EndInput", "Throw"} /\ ~TerminalOK(last, e.handler)
        THEN {[k |-> "terminal", last |-> last]} ELSE {})
  \cup (IF e.role = "swap" /\ e.handler = "rec" /\ (ref[e.flags].base # e.base \/ Masked(e.a) # Masked(ref[e.flags].evs))
        THEN {[k |-> "byteorder", paired |-> ref[e.flags].base = e.base]} ELSE {})
  \* binding sanity: an unmutated file of the real writer is read to the end (a model builder may
  \* still refuse a model, e.g. mp::Problem rejects two suffixes of one name)
  \cup (IF e.role \in {"text", "bin", "swap", "pad"} /\ e.handler # "prob" /\ last.e # "EndInput"
        THEN {[k |-> "validinput", last |-> last]} ELSE {})

Bad(what) == PrintT(<<"BAD", ToJson([line |-> l, what |-> what])>>)
TRead ==
  /\ E.e = "Read" /\ l' = l + 1
  /\ ref' = IF E.role = "bin" /\ E.handler = "rec" THEN [ref EXCEPT ![E.flags] = [base |-> E.base, evs |-> E.a]] ELSE ref
  /\ LET p == Problems(E) IN
     p = {} \/ Bad([k |-> "read", input |-> E.input, role |-> E.role, flags |-> E.flags, handler |-> E.handler, problems |-> p])
TOther == /\ E.e # "Read" /\ l' = l + 1 /\ UNCHANGED ref
          /\ E.e = "Meta" \/ Bad([k |-> "event", ev |-> E.e])
Init == l = 1 /\ ref = [f \in {0, 1} |-> NoRef]
Next == l <= Len(Lines) /\ (TRead \/ TOther)
Spec == Init /\ [][Next]_vars
Finished == (l = Len(Lines) + 1) => PrintT(<<"DONE", ToJson([n |-> Len(Lines)])>>)
=============================================================================
