-------------------------- MODULE TraceSolRoundTrip --------------------------
(* Trace validation for C05.  For every abstract solution c the harness wrote  *)
(* c with the real mp::WriteSolFile and read the file with the real            *)
(* mp::ReadSOLFile; the recorded callbacks must (1) be a run of the SOLHandler *)
(* protocol of SolFormat.tla and (2) deliver exactly Normal(c) -- or, if c      *)
(* holds a non-finite number, end in a documented error code at that number.   *)
(* A case the spec cannot explain is printed as BAD with the set of fields      *)
(* that are wrong; validation continues.                                        *)
EXTENDS SolFormat, Json, IOUtils, TLC
Lines == ndJsonDeserialize(IOEnv.TRACE)
VARIABLES l, cur, evs, open
\* cur: the running case [id, c]; evs: its callbacks so far; open: a case is running
vars == <<l, cur, evs, open>>
E == Lines[l]
NoCase == [id |-> -1, c |-> [tag |-> "none"]]
\* ---- labels for the report (stable across seeds): the shape of the running case
S(x) == ToString(x)
B(b) == IF b THEN "1" ELSE "0"
TextLen(line) == CASE line = "@L600" -> 600 [] line = "@L511" -> 511 [] line = "@L510" -> 510 [] OTHER -> Len(line)
Dims(c) ==
  LET m == c.msg
      t(i) == (IF i = 1 THEN m.nbs ELSE 0) + TextLen(m.lines[i])
      \* the end-of-line sequence (or its LF) starts exactly at a multiple of 511 bytes
      atchunk(i) == t(i) > 0 /\ (t(i) % 511 = 0 \/ (m.crlf /\ (t(i) + 1) % 511 = 0))
  IN [msg |-> "lines" \o S(Len(m.lines)) \o ":crlf" \o B(m.crlf) \o ":blank" \o B(\E i \in 1..Len(m.lines) : m.lines[i] = "")
              \o ":chunk" \o B(\E i \in 1..Len(m.lines) : atchunk(i))
              \o ":nbs" \o S(m.nbs) \o ":trail" \o B(m.trail),
      opt |-> "n" \o S(Len(c.opts)) \o ":vbtol" \o B(c.vbtol # NoAtom),
      vec |-> "nv" \o S(c.nvars) \o ":np" \o S(Len(c.primal)) \o ":nc" \o S(c.ncons) \o ":nd" \o S(Len(c.dual)),
      obj |-> "o" \o S(c.objno) \o ":c" \o S(c.code),
      suf |-> "ns" \o S(Len(c.sufs))]
Bad(w) == PrintT(<<"BAD", ToJson(w @@ [line |-> l, id |-> cur.id, tag |-> cur.c.tag,
                                        dims |-> IF cur.id >= 0 THEN Dims(cur.c) ELSE [msg |-> "-"],
                                        atoms |-> {}])>>)
Step == l' = l + 1

In(a, cands) == \E k \in 1..Len(cands) : cands[k] = a
Named(name) == SelectSeq(evs, LAMBDA x : x.e = name)
IsSufEv(x) == x.e \in {"OnIntSuffix", "OnDblSuffix"}
VecEvents == SelectSeq(evs, LAMBDA x : x.e \in {"OnDualSolution", "OnPrimalSolution", "OnIntSuffix", "OnDblSuffix"})

\* protocol view of a recorded callback
PEv(x) == CASE x.e = "OnAMPLOptions" -> [e |-> x.e, ret |-> 0]
            [] x.e \in {"OnDualSolution", "OnPrimalSolution"} -> [e |-> x.e, offered |-> x.offered, read |-> x.read, status |-> x.status]
            [] IsSufEv(x) -> [e |-> x.e, kind |-> x.kind, offered |-> x.offered, read |-> x.read, status |-> x.status]
            [] OTHER -> [e |-> x.e]
ProtoOK(c, res) ==
  RunProto(ProtoInit(c.nvars, c.ncons),
           [i \in 1..Len(evs) |-> PEv(evs[i])] \o <<[e |-> "Result", code |-> res.code, hasmsg |-> res.hasmsg]>>, 1)

\* a delivered vector against the expected one (complete) / a prefix of it
VecIs(exp, x) == /\ x.offered = Len(exp) /\ x.read = Len(exp) /\ x.status = OK /\ Len(x.vals) = Len(exp)
                 /\ \A i \in 1..Len(exp) : In(exp[i], x.vals[i])
VecFieldOK(exp, name) ==
  IF Len(exp) = 0 THEN Len(Named(name)) = 0
  ELSE Len(Named(name)) = 1 /\ VecIs(exp, Named(name)[1])

SufIs(u, x) ==
  LET real == (u.kind \div 4) % 2 = 1
      n == Cardinality(u.vals)
  IN /\ x.e = (IF real THEN "OnDblSuffix" ELSE "OnIntSuffix")
     /\ x.kind = u.kind /\ x.name = u.name /\ x.table = u.table
     /\ x.offered = n /\ x.read = n /\ x.status = OK /\ Len(x.vals) = n
     /\ \A p \in u.vals : \E k \in 1..n :
          /\ x.vals[k][1] = p[1]
          /\ IF real THEN In(p[2], x.vals[k][2]) ELSE x.vals[k][2] = p[2]
SufsOK(d) ==
  LET got == SelectSeq(evs, IsSufEv)
  IN /\ Len(got) = Cardinality(d.sufs)
     /\ \A u \in d.sufs : Cardinality({k \in 1..Len(got) : got[k].name = u.name /\ got[k].kind % 4 = u.kind % 4}) = 1
     /\ \A u \in d.sufs : \E k \in 1..Len(got) : SufIs(u, got[k])

MsgOK(d) ==
  IF Len(d.msg) = 0 THEN Len(Named("OnSolveMessage")) = 0
  ELSE /\ Len(Named("OnSolveMessage")) = 1
       /\ LET m == Named("OnSolveMessage")[1] IN m.lines = d.msg /\ m.endsnl
NbsOK(d) == Len(Named("OnSolveMessage")) = 1 => Named("OnSolveMessage")[1].nbs = d.nbs
OptsOK(d) ==
  IF ~d.hasopts THEN Len(Named("OnAMPLOptions")) = 0
  ELSE Len(Named("OnAMPLOptions")) = 1 /\ Named("OnAMPLOptions")[1].opts = d.opts
VbtolOK(d) ==
  Len(Named("OnAMPLOptions")) = 1 =>
    LET o == Named("OnAMPLOptions")[1]
    IN /\ o.hasvbtol = (d.vbtol # NoAtom)
       /\ (d.vbtol # NoAtom) => In(d.vbtol, o.vbtol)
IntOK(name, field, v) == Len(Named(name)) = 1 /\ Named(name)[1][field] = v

\* which expected numbers came back as something else: <<expected atom, delivered candidates>>
VecMis(exp, name) ==
  IF Len(Named(name)) = 1 /\ Len(Named(name)[1].vals) = Len(exp)
  THEN {<<exp[i], Named(name)[1].vals[i]>> : i \in {j \in 1..Len(exp) : ~In(exp[j], Named(name)[1].vals[j])}}
  ELSE {}
SufMisOne(u, x) ==
  UNION {{<<p[2], x.vals[j][2]>> : j \in {jj \in 1..Len(x.vals) : x.vals[jj][1] = p[1] /\ ~In(p[2], x.vals[jj][2])}} :
         p \in u.vals}
SufMisFor(d) ==
  LET got == SelectSeq(evs, LAMBDA x : x.e = "OnDblSuffix")
  IN UNION {UNION {SufMisOne(u, got[k]) : k \in {kk \in 1..Len(got) : got[kk].name = u.name /\ got[kk].kind = u.kind}} :
            u \in {uu \in d.sufs : (uu.kind \div 4) % 2 = 1}}
Mismatches(c) == LET d == Normal(c) IN VecMis(d.dual, "OnDualSolution") \cup VecMis(d.primal, "OnPrimalSolution") \cup SufMisFor(d)

WrongOK(c, res) ==
  LET d == Normal(c)
  IN {w \in {"proto", "msg", "nbs", "opts", "vbtol", "dual", "primal", "objno", "code", "sufs"} :
        CASE w = "proto"  -> ~ProtoOK(c, res)
          [] w = "msg"    -> ~MsgOK(d)
          [] w = "nbs"    -> ~NbsOK(d)
          [] w = "opts"   -> ~OptsOK(d)
          [] w = "vbtol"  -> ~VbtolOK(d)
          [] w = "dual"   -> ~VecFieldOK(d.dual, "OnDualSolution")
          [] w = "primal" -> ~VecFieldOK(d.primal, "OnPrimalSolution")
          [] w = "objno"  -> ~IntOK("OnObjno", "n", d.objno)
          [] w = "code"   -> ~IntOK("OnSolveCode", "c", d.code)
          [] w = "sufs"   -> ~SufsOK(d)}

\* A failing result is allowed only at a non-finite number: the last callback is a
\* vector whose next undelivered value is non-finite in c, the values before it
\* are right, and what was delivered earlier is right as well.
ExpectedOf(c, x) ==      \* the expected values of the vector a callback belongs to, in file order
  LET d == Normal(c)
  IN CASE x.e = "OnDualSolution" -> d.dual
       [] x.e = "OnPrimalSolution" -> d.primal
       [] OTHER -> LET us == {u \in d.sufs : u.name = x.name /\ u.kind = x.kind}
                   IN IF us = {} THEN <<>>
                      ELSE LET u == CHOOSE u \in us : TRUE
                               idx == SeqOfSet({p[1] : p \in u.vals})
                           IN [k \in 1..Len(idx) |-> (CHOOSE p \in u.vals : p[1] = idx[k])[2]]
RejectedAtNonFinite(c) ==
  /\ Len(VecEvents) > 0 /\ Len(evs) > 0 /\ evs[Len(evs)] = VecEvents[Len(VecEvents)]
  /\ LET x == evs[Len(evs)]
         exp == ExpectedOf(c, x)
     IN /\ x.status # OK /\ x.read < Len(exp) /\ NonFinite(exp[x.read + 1])
        /\ IF IsSufEv(x) THEN \A k \in 1..x.read : In(exp[k], x.vals[k][2])
           ELSE \A k \in 1..x.read : In(exp[k], x.vals[k])
WrongRejected(c, res) ==
  LET d == Normal(c)
      seen(name) == Len(Named(name)) > 0
      lastv == evs[Len(evs)]
      earlier(name) == seen(name) /\ lastv.e # name
  IN {w \in {"proto", "rejected", "msg", "opts", "dual", "primal"} :
        CASE w = "proto"    -> ~ProtoOK(c, res)
          [] w = "rejected" -> ~(HasNonFinite(c) /\ RejectedAtNonFinite(c))
          [] w = "msg"      -> seen("OnSolveMessage") /\ ~MsgOK(d)
          [] w = "opts"     -> seen("OnAMPLOptions") /\ ~OptsOK(d)
          [] w = "dual"     -> earlier("OnDualSolution") /\ ~VecFieldOK(d.dual, "OnDualSolution")
          [] w = "primal"   -> earlier("OnPrimalSolution") /\ ~VecFieldOK(d.primal, "OnPrimalSolution")}

Callbacks == {"OnSolveMessage", "OnAMPLOptions", "OnDualSolution", "OnPrimalSolution", "OnObjno", "OnSolveCode",
              "OnIntSuffix", "OnDblSuffix"}
TCase == /\ E.e = "Case" /\ Step
         /\ cur' = [id |-> E.id, c |-> E.c] /\ evs' = <<>> /\ open' = TRUE
         /\ (~open) \/ Bad([wrong |-> {"noresult"}, code |-> -1])
TCallback == /\ E.e \in Callbacks /\ Step /\ UNCHANGED <<cur, open>>
             /\ evs' = Append(evs, E)
             /\ open \/ Bad([wrong |-> {"stray"}, code |-> -1])
TWritten == E.e = "Written" /\ Step /\ UNCHANGED <<cur, evs, open>>
TResult == /\ E.e = "Result" /\ Step /\ UNCHANGED <<cur, evs>> /\ open' = FALSE
           /\ LET wrong == IF E.code = OK THEN WrongOK(cur.c, E) ELSE WrongRejected(cur.c, E)
              IN wrong = {} \/ Bad([wrong |-> wrong, code |-> E.code, atoms |-> Mismatches(cur.c)])
TCrash == /\ E.e \in {"Crash", "Hang", "Throw"} /\ Step /\ UNCHANGED <<cur, evs>> /\ open' = FALSE
          /\ Bad([wrong |-> {IF E.e = "Crash" THEN "crash-" \o (IF "cls" \in DOMAIN E THEN E.cls ELSE "harness") ELSE E.e}, code |-> -1])
TAtoms == /\ E.e = "Atoms" /\ Step /\ UNCHANGED <<cur, evs, open>>
          /\ (Len(E.cls) = Cardinality(Atoms) /\ \A a \in Atoms : E.cls[a + 1] = AtomClass(a))
             \/ Bad([wrong |-> {"atoms"}, code |-> -1])
TOther == /\ E.e \notin (Callbacks \cup {"Case", "Written", "Result", "Crash", "Hang", "Throw", "Atoms"})
          /\ Step /\ UNCHANGED <<cur, evs>>
          /\ open' = (IF E.e = "End" THEN FALSE ELSE open)
          /\ CASE E.e = "Meta" -> TRUE
               [] E.e = "End" -> (~open) \/ Bad([wrong |-> {"noresult"}, code |-> -1])
               [] OTHER -> Bad([wrong |-> {"event"}, code |-> -1])

Init == l = 1 /\ cur = NoCase /\ evs = <<>> /\ open = FALSE
Next == l <= Len(Lines) /\ (TCase \/ TCallback \/ TWritten \/ TResult \/ TCrash \/ TAtoms \/ TOther)
Spec == Init /\ [][Next]_vars
Finished == (l = Len(Lines) + 1) => PrintT(<<"DONE", ToJson([n |-> Len(Lines)])>>)
=============================================================================
