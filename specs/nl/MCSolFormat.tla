----------------------------- MODULE MCSolFormat -----------------------------
(* Design check of SolFormat (C05, C14), bounded:                             *)
(*  mode "rt"   : for every solution of a small universe, the format round    *)
(*                trips (ReadSol(WriteSol(s)) = Normal(s)), the normalisations *)
(*                are idempotent, nothing but the documented ones is lost, and *)
(*                the callback sequence that delivers Normal(s) is a run of    *)
(*                the protocol automaton ending in OK;                         *)
(*  mode "proto": all runs of the protocol automaton over a small event       *)
(*                universe: after an incomplete vector or a refusing handler   *)
(*                only the matching failing Result is possible, every vector   *)
(*                callback happens at most once per vector, the terminal state *)
(*                is absorbing, sizes offered never exceed the declared ones.  *)
EXTENDS SolFormat, TLC
VARIABLES mode, s, st, hist
vars == <<mode, s, st, hist>>

\* ---- small universe of solutions
Lines == {<<>>, <<"a">>, <<"">>, <<"a", "", "b">>, <<"", "a">>, <<" ">>}
Msgs == {m \in [nbs : {0, 2}, lines : Lines, crlf : BOOLEAN, trail : BOOLEAN] :
           /\ (Len(m.lines) > 0 /\ ~m.trail) => m.lines[Len(m.lines)] # ""
           /\ (Len(m.lines) = 0) => (m.nbs = 0 /\ ~m.trail)
           /\ (m.nbs > 0) => m.lines[1] # ""
           /\ m.crlf => Len(m.lines) > 1}
OptSets == {<<>>, <<1, 1, 0>>, <<1, 3, 0>>, <<0, 1, 0, 0, 0, 0, 0, 0, 7>>, <<5, 3, 0, 0, 1>>}
VecAtoms == {0, 1, 2, 13, 30}
Vecs(n) == UNION {[1..k -> VecAtoms] : k \in 0..n}
Suf1 == [kind |-> 0, real |-> FALSE, iodecl |-> FALSE, out |-> TRUE, name |-> "sstatus",
         table |-> <<"", "0 none", "1 bas", "">>, vals |-> <<1, 0, 3>>]
Suf2 == [kind |-> 1, real |-> TRUE, iodecl |-> TRUE, out |-> TRUE, name |-> "d",
         table |-> <<>>, vals |-> <<0, 13, 1>>]
Suf3 == [kind |-> 3, real |-> TRUE, iodecl |-> FALSE, out |-> FALSE, name |-> "hidden",
         table |-> <<"x">>, vals |-> <<2>>]
Suf4 == [kind |-> 2, real |-> FALSE, iodecl |-> FALSE, out |-> TRUE, name |-> "e",
         table |-> <<"one">>, vals |-> <<0>>]
SufSets == {<<>>, <<Suf1>>, <<Suf2, Suf3>>, <<Suf4, Suf1, Suf2>>}

Base == [msg |-> [nbs |-> 0, lines |-> <<"a">>, crlf |-> FALSE, trail |-> TRUE], opts |-> <<1, 1, 0>>, vbtol |-> NoAtom,
         nvars |-> 2, ncons |-> 1, primal |-> <<2, 13>>, dual |-> <<>>, objno |-> 1, code |-> 0, sufs |-> <<>>]
\* slices of the product: each family varies some dimensions exhaustively
SolsMsg == {[Base EXCEPT !.msg = m, !.opts = o, !.vbtol = IF Len(o) >= 3 /\ o[2] = 3 THEN 13 ELSE NoAtom, !.code = c] :
              m \in Msgs, o \in OptSets \ {<<>>}, c \in {-1, 0}}
SolsVec == {[Base EXCEPT !.opts = o, !.nvars = nv, !.primal = p, !.dual = d, !.objno = ob, !.sufs = u] :
              o \in {<<>>, <<1, 1, 0>>}, nv \in {0, 2}, p \in Vecs(2), d \in Vecs(1), ob \in {0, 1}, u \in SufSets}
Sols == {x \in SolsMsg \cup SolsVec : WellFormed(x)}

\* ---- small universe of protocol events
VecEvs(names) == [e : names, offered : 0..2, read : 0..2, status : {OK, EarlyEOF, BadLine, BadSuffix}]
SufEvs == [e : {"OnIntSuffix", "OnDblSuffix"}, kind : {1, 5, 16}, offered : 0..1, read : 0..1, status : {OK, EarlyEOF, BadSuffix}]
Events == {[e |-> "OnSolveMessage"], [e |-> "OnObjno"], [e |-> "OnSolveCode"]}
          \cup [e : {"OnAMPLOptions"}, ret : {0, 1}]
          \cup VecEvs({"OnDualSolution", "OnPrimalSolution"}) \cup SufEvs
          \cup [e : {"Result"}, code : -1..8, hasmsg : BOOLEAN]

NoSol == [msg |-> [nbs |-> 0, lines |-> <<>>, crlf |-> FALSE, trail |-> FALSE], opts |-> <<>>, vbtol |-> NoAtom,
          nvars |-> 0, ncons |-> 0, primal |-> <<>>, dual |-> <<>>, objno |-> 0, code |-> 0, sufs |-> <<>>]

Init == \/ /\ mode = "rt" /\ s \in Sols /\ st = ProtoInit(0, 0) /\ hist = <<>>
        \/ /\ mode = "proto" /\ s = NoSol /\ hist = <<>>
           /\ \E nv \in 0..2, nc \in 0..1 : st = ProtoInit(nv, nc)
Step == /\ mode = "proto" /\ Len(hist) < 9
        /\ \E ev \in Events :
             /\ ProtoEnabled(st, ev)
             /\ (ev.e \in {"OnIntSuffix", "OnDblSuffix"}) =>
                  Cardinality({i \in 1..Len(hist) : hist[i].e \in {"OnIntSuffix", "OnDblSuffix"}}) < 2
             /\ st' = ProtoApply(st, ev)
             /\ hist' = Append(hist, ev)
        /\ UNCHANGED <<mode, s>>
Next == Step \/ UNCHANGED vars
Spec == Init /\ [][Next]_vars

\* ---- mode rt
RoundTripHolds == mode = "rt" => RoundTrip(s)
Idempotent == mode = "rt" =>
  /\ \A a \in Atoms : NormAtom(NormAtom(a)) = NormAtom(a) /\ AtomClass(NormAtom(a)) = AtomClass(a)
  /\ \A i \in 1..Len(s.msg.lines) : Esc(Esc(s.msg.lines[i])) = Esc(s.msg.lines[i]) /\ Esc(s.msg.lines[i]) # ""
\* nothing but the documented normalisations: same number of lines, non-empty
\* lines verbatim, vector lengths kept, only zero values and non-output suffixes dropped
NothingElseLost == mode = "rt" =>
  LET d == Normal(s) IN
  /\ Len(d.msg) = Len(s.msg.lines)
  /\ \A i \in 1..Len(d.msg) : s.msg.lines[i] # "" => d.msg[i] = s.msg.lines[i]
  /\ Len(d.dual) = Len(s.dual) /\ Len(d.primal) = Len(s.primal)
  /\ \A i \in 1..Len(s.primal) : ~IsZeroAtom(s.primal[i]) => d.primal[i] = s.primal[i]
  /\ Cardinality(d.sufs) = Cardinality({i \in 1..Len(s.sufs) : s.sufs[i].out})
  /\ \A i \in 1..Len(s.sufs) : s.sufs[i].out =>
       \E u \in d.sufs : /\ u.name = s.sufs[i].name /\ u.kind % 4 = s.sufs[i].kind
                         /\ u.table = s.sufs[i].table
                         /\ Cardinality(u.vals) = Cardinality(NonZeroIdx(s.sufs[i]))
  /\ d.hasopts => /\ Len(d.opts) = NOpts(s) + 5
                  /\ SubSeq(d.opts, 2, NOpts(s) + 1) = s.opts
DeliveryIsARun == mode = "rt" => RunProto(ProtoInit(s.nvars, s.ncons), EventsOf(s), 1)

\* ---- mode proto
LastEv == hist[Len(hist)]
Count(name) == Cardinality({i \in 1..Len(hist) : hist[i].e = name})
AfterFailureOnlyResult == (mode = "proto" /\ st.must # NoCode /\ st.ph # Phase.done) =>
  \A ev \in Events : ProtoEnabled(st, ev) => (ev.e = "Result" /\ ev.code = st.must /\ ev.code # OK /\ ev.hasmsg)
TerminalAbsorbing == (mode = "proto" /\ st.ph = Phase.done) =>
  /\ \A ev \in Events : ~ProtoEnabled(st, ev)
  /\ LastEv.e = "Result" /\ LastEv.code \in Codes
  /\ (LastEv.code # OK) => LastEv.hasmsg
AtMostOnce == mode = "proto" =>
  /\ Count("OnSolveMessage") <= 1 /\ Count("OnAMPLOptions") <= 1 /\ Count("OnDualSolution") <= 1
  /\ Count("OnPrimalSolution") <= 1 /\ Count("OnObjno") <= 1 /\ Count("OnSolveCode") <= Count("OnObjno")
  /\ Count("Result") <= 1
Bounded == mode = "proto" =>
  \A i \in 1..Len(hist) :
     /\ hist[i].e = "OnDualSolution" => hist[i].offered <= st.nc
     /\ hist[i].e = "OnPrimalSolution" => hist[i].offered <= st.nv
     /\ IsVec(hist[i]) => hist[i].read <= hist[i].offered
\* a run that ended OK delivered every vector completely; an incomplete vector is
\* always the last callback before the failing Result
NoPartialReportedComplete == mode = "proto" =>
  \A i \in 1..Len(hist) :
     (IsVec(hist[i]) /\ ~VecComplete(hist[i])) =>
        /\ i + 1 <= Len(hist) => (hist[i + 1].e = "Result" /\ hist[i + 1].code # OK)
        /\ i + 2 > Len(hist)
\* the automaton can reach OK with every callback kind (no vacuity)
CanFinish == TRUE
=============================================================================
