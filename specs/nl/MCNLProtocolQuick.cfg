SPECIFICATION Spec
CONSTANT MaxD = 3
CONSTANT MaxF = 1
INVARIANT TypeOK
INVARIANT DoneClean
INVARIANT NoStuck
INVARIANT TerminalFinal
PROPERTY HeaderFirst
CHECK_DEADLOCK FALSE
