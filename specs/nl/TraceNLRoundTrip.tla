-------------------------- MODULE TraceNLRoundTrip --------------------------
(* Trace validation for C03.  The trace is a list of                        *)
(*   Case{id, tag, m, ...}   an abstract model printed by GenNL.tla         *)
(*   Exec{case, q, fmt, comments, bf, cs, rf, wr, col, row, evs}            *)
(*       one file written by the REAL mp::WriteNLFile from that model with  *)
(*       one writer configuration and read back by the REAL mp::ReadNLFile; *)
(*       evs = every NLHandler callback in call order, numbers as atoms     *)
(*   Crash / Hang            the harness died in a case                     *)
(* For every Exec                                                           *)
(*   (i)   the callback stream is a behaviour of NLProtocol ending in       *)
(*         EndInput (every event enabled),                                  *)
(*   (ii)  the model rebuilt from the callbacks (Rebuild) equals the model  *)
(*         that was fed, item by item; numbers are compared as atoms, i.e.  *)
(*         bit-identical up to the sign of zero; names files come back,     *)
(*   (iii) the binary stream equals the text stream of the same model and   *)
(*         configuration (apart from the header's format / arith fields).   *)
(* A record that is not explained prints BAD and validation continues.      *)
EXTENDS NLProtocol, Json, IOUtils
Lines == ndJsonDeserialize(IOEnv.TRACE)
VARIABLES l, cur, prev
\* cur: the running case; prev: [q, evs] of the last text execution
vars == <<l, cur, prev>>
NoCase == [id |-> -1, tag |-> "none"]
E == Lines[l]

\* ------------------------------------------------------------- rebuild
N(a) == [k |-> "num", a |-> a]
Vr(i) == [k |-> "var", i |-> i]
OpT(op, args) == [k |-> "op", op |-> op, args |-> args]
Fr(k, op, f, args) == [k |-> k, op |-> op, f |-> f, args |-> args, s |-> <<>>, b |-> <<>>]
NoList == [it |-> "none", i |-> 0, n |-> 0, a |-> "", kind |-> 0, real |-> FALSE, terms |-> <<>>]
RB0 == [T |-> <<>>, fs |-> <<>>, items |-> <<>>, lst |-> NoList, nv |-> 0, hdr |-> [e |-> "none"],
        hascs |-> FALSE, cs |-> <<>>, ok |-> TRUE]
Get(rb, id) == IF id = 0 THEN NoExpr
               ELSE IF id >= 1 /\ id <= Len(rb.T) THEN rb.T[id] ELSE [k |-> "dangling", id |-> id]
AddT(rb, id, t) == IF id = Len(rb.T) + 1 THEN [rb EXCEPT !.T = Append(@, t)] ELSE [rb EXCEPT !.ok = FALSE]
Item(rb, it) == [rb EXCEPT !.items = Append(@, it)]
TopF(rb) == rb.fs[Len(rb.fs)]
PopF(rb) == [rb EXCEPT !.fs = SubSeq(@, 1, Len(@) - 1)]
SetTopF(rb, f) == [rb EXCEPT !.fs[Len(rb.fs)] = f]
HasF(rb) == Len(rb.fs) > 0
\* a counted flat list (linear terms / suffix values) that has received everything becomes an item
ListItem(lst) ==
  CASE lst.it \in {"J", "G"} -> [it |-> lst.it, i |-> lst.i, lin |-> lst.terms]
    [] lst.it = "suf" -> [it |-> "suf", name |-> lst.a, kind |-> lst.kind, real |-> lst.real, vals |-> lst.terms]
RStartList(rb, lst) ==
  IF lst.n = 0 /\ lst.it # "dv" THEN Item(rb, ListItem(lst)) ELSE [rb EXCEPT !.lst = lst]
AddToList(rb, x) ==
  LET l2 == [rb.lst EXCEPT !.terms = Append(@, x)] IN
  IF l2.it # "dv" /\ Len(l2.terms) = l2.n THEN [Item(rb, ListItem(l2)) EXCEPT !.lst = NoList]
  ELSE [rb EXCEPT !.lst = l2]
EndFrame(rb, id) ==
  IF ~HasF(rb) THEN [rb EXCEPT !.ok = FALSE]
  ELSE LET f == TopF(rb) IN
       AddT(PopF(rb), id, IF f.k = "call" THEN [k |-> "call", f |-> f.f, args |-> f.args] ELSE OpT(f.op, f.args))

RStep(rb, e) ==
  CASE e.e = "OnHeader" -> [rb EXCEPT !.nv = e.nv, !.hdr = e]
    [] e.e = "OnNumber" -> AddT(rb, e.id, N(e.v))
    [] e.e = "OnVariableRef" -> AddT(rb, e.id, Vr(e.i))
    [] e.e = "OnCommonExprRef" -> AddT(rb, e.id, Vr(e.i + rb.nv))
    [] e.e = "OnBool" -> AddT(rb, e.id, [k |-> "bool", v |-> e.v])
    [] e.e = "OnString" -> AddT(rb, e.id, [k |-> "str", s |-> e.s])
    [] e.e = "OnUnary" -> AddT(rb, e.id, OpT(e.k, <<Get(rb, e.arg)>>))
    [] e.e = "OnNot" -> AddT(rb, e.id, OpT("NOT", <<Get(rb, e.arg)>>))
    [] e.e \in {"OnBinary", "OnBinaryLogical", "OnRelational", "OnLogicalCount"} ->
         AddT(rb, e.id, OpT(e.k, <<Get(rb, e.l), Get(rb, e.r)>>))
    [] e.e = "OnIf" -> AddT(rb, e.id, OpT("IF", <<Get(rb, e.c), Get(rb, e.t), Get(rb, e.f)>>))
    [] e.e = "OnSymbolicIf" -> AddT(rb, e.id, OpT("IFSYM", <<Get(rb, e.c), Get(rb, e.t), Get(rb, e.f)>>))
    [] e.e = "OnImplication" -> AddT(rb, e.id, OpT("IMPLICATION", <<Get(rb, e.c), Get(rb, e.t), Get(rb, e.f)>>))
    [] e.e = "BeginCall" -> [rb EXCEPT !.fs = Append(@, Fr("call", "", e.f, <<>>))]
    [] e.e \in {"BeginVarArg", "BeginIteratedLogical", "BeginPairwise"} -> [rb EXCEPT !.fs = Append(@, Fr("op", e.k, 0, <<>>))]
    [] e.e = "BeginSum" -> [rb EXCEPT !.fs = Append(@, Fr("op", "SUM", 0, <<>>))]
    [] e.e = "BeginCount" -> [rb EXCEPT !.fs = Append(@, Fr("op", "COUNT", 0, <<>>))]
    [] e.e = "BeginNumberOf" -> [rb EXCEPT !.fs = Append(@, Fr("op", "NUMBEROF", 0, <<Get(rb, e.arg0)>>))]
    [] e.e = "BeginSymbolicNumberOf" -> [rb EXCEPT !.fs = Append(@, Fr("op", "NUMBEROF_SYM", 0, <<Get(rb, e.arg0)>>))]
    [] e.e = "AddArg" -> IF HasF(rb) THEN SetTopF(rb, [TopF(rb) EXCEPT !.args = Append(@, Get(rb, e.id))]) ELSE [rb EXCEPT !.ok = FALSE]
    [] e.e \in {"EndCall", "EndVarArg", "EndSum", "EndCount", "EndNumberOf", "EndSymbolicNumberOf",
                "EndIteratedLogical", "EndPairwise"} -> EndFrame(rb, e.id)
    [] e.e = "BeginPLTerm" -> [rb EXCEPT !.fs = Append(@, Fr("pl", "", 0, <<>>))]
    [] e.e = "AddSlope" -> IF HasF(rb) THEN SetTopF(rb, [TopF(rb) EXCEPT !.s = Append(@, e.v)]) ELSE [rb EXCEPT !.ok = FALSE]
    [] e.e = "AddBreakpoint" -> IF HasF(rb) THEN SetTopF(rb, [TopF(rb) EXCEPT !.b = Append(@, e.v)]) ELSE [rb EXCEPT !.ok = FALSE]
    [] e.e = "EndPLTerm" ->
         IF ~HasF(rb) THEN [rb EXCEPT !.ok = FALSE]
         ELSE LET r == Get(rb, e.arg) IN
              AddT(PopF(rb), e.id, [k |-> "pl", s |-> TopF(rb).s, b |-> TopF(rb).b, v |-> IF r.k = "var" THEN r.i ELSE -1])
    [] e.e = "OnVarBounds" -> Item(rb, [it |-> "vb", i |-> e.i, lb |-> e.lb, ub |-> e.ub])
    [] e.e = "OnConBounds" -> Item(rb, [it |-> "cb", i |-> e.i, lb |-> e.lb, ub |-> e.ub])
    [] e.e = "OnComplementarity" -> Item(rb, [it |-> "compl", i |-> e.c, v |-> e.v, flags |-> e.flags])
    [] e.e = "OnObj" -> Item(rb, [it |-> "obj", i |-> e.i, max |-> e.max, t |-> Get(rb, e.expr)])
    [] e.e = "OnAlgebraicCon" -> Item(rb, [it |-> "acon", i |-> e.i, t |-> Get(rb, e.expr)])
    [] e.e = "OnLogicalCon" -> Item(rb, [it |-> "lcon", i |-> e.i, t |-> Get(rb, e.expr)])
    [] e.e = "BeginCommonExpr" -> RStartList(rb, [NoList EXCEPT !.it = "dv", !.i = e.i, !.n = e.nlin])
    [] e.e = "EndCommonExpr" ->
         [Item(rb, [it |-> "dv", i |-> e.i, lin |-> rb.lst.terms, t |-> Get(rb, e.expr), pos |-> e.pos]) EXCEPT !.lst = NoList]
    [] e.e = "OnLinearConExpr" -> RStartList(rb, [NoList EXCEPT !.it = "J", !.i = e.i, !.n = e.n])
    [] e.e = "OnLinearObjExpr" -> RStartList(rb, [NoList EXCEPT !.it = "G", !.i = e.i, !.n = e.n])
    [] e.e = "AddTerm" -> AddToList(rb, <<e.v, e.c>>)
    [] e.e = "OnIntSuffix" -> RStartList(rb, [NoList EXCEPT !.it = "suf", !.a = e.name, !.kind = e.kind, !.n = e.n])
    [] e.e = "OnDblSuffix" -> RStartList(rb, [NoList EXCEPT !.it = "suf", !.a = e.name, !.kind = e.kind, !.n = e.n, !.real = TRUE])
    [] e.e = "SetValue" -> AddToList(rb, <<e.i, e.v>>)
    [] e.e = "OnInitialValue" -> Item(rb, [it |-> "x0", i |-> e.i, a |-> e.x])
    [] e.e = "OnInitialDualValue" -> Item(rb, [it |-> "d0", i |-> e.i, a |-> e.x])
    [] e.e = "OnColumnSizes" -> [rb EXCEPT !.hascs = TRUE]
    [] e.e = "ColSize" -> [rb EXCEPT !.cs = Append(@, e.n)]
    [] e.e = "OnFunction" -> Item(rb, [it |-> "func", i |-> e.i, name |-> e.name, nargs |-> e.nargs, type |-> e.type])
    [] OTHER -> rb          \* EndInput, Throw
RECURSIVE RFold(_, _, _)
RFold(rb, evs, i) == IF i > Len(evs) THEN rb ELSE RFold(RStep(rb, evs[i]), evs, i + 1)
Rebuild(evs) == RFold(RB0, evs, 1)

\* ------------------------------------------------- the model as items
RECURSIVE NormT(_)
NormT(t) == CASE t.k = "num" -> N(NormA(t.a))
              [] t.k = "op" -> OpT(t.op, [j \in 1..Len(t.args) |-> NormT(t.args[j])])
              [] t.k = "call" -> [k |-> "call", f |-> t.f, args |-> [j \in 1..Len(t.args) |-> NormT(t.args[j])]]
              [] t.k = "pl" -> [k |-> "pl", s |-> [j \in 1..Len(t.s) |-> NormA(t.s[j])],
                                b |-> [j \in 1..Len(t.b) |-> NormA(t.b[j])], v |-> t.v]
              [] OTHER -> t
NormLin(lin) == [j \in 1..Len(lin) |-> <<lin[j][1], NormA(lin[j][2])>>]
\* TLC compares a function [j \in 1..n |-> ...] and a tuple as equal values
Expected(m) ==
  [i \in 1..Len(m.vars) |-> [it |-> "vb", i |-> i - 1, lb |-> NormA(m.vars[i].lb), ub |-> NormA(m.vars[i].ub)]]
  \o [i \in 1..Len(m.cons) |->
        IF m.cons[i].k > 0 THEN [it |-> "compl", i |-> i - 1, v |-> m.cons[i].cv, flags |-> m.cons[i].k]
        ELSE [it |-> "cb", i |-> i - 1, lb |-> NormA(m.cons[i].lb), ub |-> NormA(m.cons[i].ub)]]
  \o [i \in 1..Len(m.cons) |-> [it |-> "acon", i |-> i - 1, t |-> NormT(m.cons[i].expr)]]
  \o [i \in 1..Len(m.lcons) |-> [it |-> "lcon", i |-> i - 1, t |-> NormT(m.lcons[i].expr)]]
  \o [i \in 1..Len(m.objs) |-> [it |-> "obj", i |-> i - 1, max |-> m.objs[i].max, t |-> NormT(m.objs[i].expr)]]
  \o [i \in 1..Len(m.dvs) |-> [it |-> "dv", i |-> i - 1, lin |-> NormLin(m.dvs[i].lin), t |-> NormT(m.dvs[i].expr),
                               pos |-> DVPos(m, m.dvs[i].grp)]]
  \o SelectSeq([i \in 1..Len(m.cons) |-> [it |-> "J", i |-> i - 1, lin |-> NormLin(m.cons[i].lin)]], LAMBDA x : x.lin # <<>>)
  \o SelectSeq([i \in 1..Len(m.objs) |-> [it |-> "G", i |-> i - 1, lin |-> NormLin(m.objs[i].lin)]], LAMBDA x : x.lin # <<>>)
  \o [i \in 1..Len(m.x0) |-> [it |-> "x0", i |-> m.x0[i][1], a |-> NormA(m.x0[i][2])]]
  \o [i \in 1..Len(m.d0) |-> [it |-> "d0", i |-> m.d0[i][1], a |-> NormA(m.d0[i][2])]]
  \o [i \in 1..Len(m.funcs) |-> [it |-> "func", i |-> i - 1, name |-> m.funcs[i].name, nargs |-> m.funcs[i].nargs, type |-> m.funcs[i].type]]
  \o [i \in 1..Len(m.sufs) |-> [it |-> "suf", name |-> m.sufs[i].name, kind |-> m.sufs[i].kind, real |-> m.sufs[i].real,
                                vals |-> IF m.sufs[i].real THEN NormLin(m.sufs[i].vals) ELSE m.sufs[i].vals]]

Cnt(s, x) == Cardinality({j \in 1..Len(s) : s[j] = x})
Range(s) == {s[j] : j \in 1..Len(s)}
\* ---- diagnosis of a difference (only used to name what went wrong)
ADiff(what, e, g) == IF e = g THEN {} ELSE {what \o ":" \o AtomClass(e) \o "->" \o AtomClass(g)}
RECURSIVE TreeDiff(_, _)
TreeDiff(e, g) ==
  IF e = g THEN {}
  ELSE IF e.k # g.k THEN {"node:" \o e.k \o "->" \o g.k}
  ELSE CASE e.k = "num" -> ADiff("num", e.a, g.a)
         [] e.k = "var" -> {"var"}
         [] e.k = "bool" -> {"bool"}
         [] e.k = "str" -> {"str"}
         [] e.k = "pl" -> IF Len(e.s) # Len(g.s) \/ Len(e.b) # Len(g.b) THEN {"pl:size"}
                          ELSE IF e.v # g.v THEN {"pl:var"}
                          ELSE UNION {ADiff("pl:slope", e.s[j], g.s[j]) : j \in 1..Len(e.s)}
                               \cup UNION {ADiff("pl:breakpoint", e.b[j], g.b[j]) : j \in 1..Len(e.b)}
         [] e.k \in {"op", "call"} ->
              IF e.k = "op" /\ e.op # g.op THEN {"op:" \o e.op \o "->" \o g.op}
              ELSE IF e.k = "call" /\ e.f # g.f THEN {"call:func"}
              ELSE IF Len(e.args) # Len(g.args) THEN {"arity"}
              ELSE UNION {TreeDiff(e.args[j], g.args[j]) : j \in 1..Len(e.args)}
         [] OTHER -> {"tree"}
LinDiff(what, e, g) ==
  IF e = g THEN {} ELSE IF Len(e) # Len(g) THEN {what \o ":size"}
  ELSE UNION {IF e[j][1] # g[j][1] THEN {what \o ":index"} ELSE ADiff(what \o ":coef", e[j][2], g[j][2]) : j \in 1..Len(e)}
ItemDiff(e, g) ==
  CASE e.it \in {"vb", "cb"} -> ADiff("lb", e.lb, g.lb) \cup ADiff("ub", e.ub, g.ub)
    [] e.it = "compl" -> {"compl"}
    [] e.it \in {"acon", "lcon"} -> TreeDiff(e.t, g.t)
    [] e.it = "obj" -> TreeDiff(e.t, g.t) \cup (IF e.max # g.max THEN {"sense"} ELSE {})
    [] e.it = "dv" -> TreeDiff(e.t, g.t) \cup LinDiff("lin", e.lin, g.lin) \cup (IF e.pos # g.pos THEN {"pos"} ELSE {})
    [] e.it \in {"J", "G"} -> LinDiff("lin", e.lin, g.lin)
    [] e.it \in {"x0", "d0"} -> ADiff("value", e.a, g.a)
    [] e.it = "func" -> {"func"}
    [] OTHER -> {"item"}
SameSlot(x, y) == x.it = y.it /\ (IF x.it = "suf" THEN x.name = y.name /\ x.kind = y.kind /\ x.real = y.real ELSE x.i = y.i)
SufDiff(e, g) == IF Len(e.vals) # Len(g.vals) THEN {"size"}
                 ELSE UNION {IF e.vals[j][1] # g.vals[j][1] THEN {"index"}
                             ELSE IF e.real THEN ADiff("value", e.vals[j][2], g.vals[j][2])
                             ELSE IF e.vals[j][2] # g.vals[j][2] THEN {"intvalue"} ELSE {} : j \in 1..Len(e.vals)}
\* every difference between the expected and the rebuilt items, as short strings "item:what"
Diffs(exp, got) ==
  LET miss == {y \in Range(exp) : Cnt(got, y) < Cnt(exp, y)}
      extra == {y \in Range(got) : Cnt(got, y) > Cnt(exp, y)}
  IN UNION {LET cands == {g \in extra : SameSlot(x, g)} IN
            IF cands = {} THEN {x.it \o ":missing"}
            ELSE LET g == CHOOSE g \in cands : TRUE IN
                 {x.it \o ":" \o d : d \in (IF x.it = "suf" THEN SufDiff(x, g) ELSE ItemDiff(x, g))} : x \in miss}
     \cup {g.it \o ":extra" : g \in {y \in extra : ~\E x \in miss : SameSlot(x, y)}}

\* header fields that must come back as given (the first nopts options; vbtol only when option 2 asks for it)
HdrFields == {"fmt", "nopts", "nv", "nac", "no", "nr", "neq", "nlc", "nnlc", "nnlo", "ncc", "nnlcc", "ncdi", "ncvnz",
              "nnlnet", "nlinnet", "nlvc", "nlvo", "nlvb", "nlnv", "nf", "arith", "flags", "nbv", "niv", "nlvbi", "nlvci",
              "nlvoi", "nzc", "nzo", "maxcn", "maxvn", "nce"}
HdrDiff(exp, got) ==
  IF got.e # "OnHeader" THEN {"missing"}
  ELSE {f \in HdrFields : exp[f] # got[f]}
       \cup {"opts" : z \in {j \in 1..exp.nopts : exp.opts[j] # got.opts[j]}}
       \cup (IF exp.nopts >= 2 /\ exp.opts[2] = 3 /\ NormA(exp.vbtol) # got.vbtol THEN {"vbtol"} ELSE {})

Masked(evs) == IF Len(evs) > 0 /\ evs[1].e = "OnHeader" THEN [evs EXCEPT ![1].fmt = 0, ![1].arith = 0] ELSE evs

\* ---------------------------------------------------------------- actions
Bad(what) == PrintT(<<"BAD", ToJson([line |-> l, id |-> cur.id, tag |-> cur.tag, what |-> what])>>)
Adv == l' = l + 1
TCase == /\ E.e = "Case" /\ Adv /\ cur' = E /\ prev' = [q |-> -1, evs |-> <<>>]
         /\ WFModel(E.m) \/ Bad([k |-> "case", why |-> "model is not well formed"])
ExecProblems(e) ==
  LET m == cur.m
      run == Run(e.evs)
      rb == Rebuild(e.evs)
      exp == Expected(m)
      hd == HdrDiff(HeaderOf(m, e.fmt), rb.hdr)
      diffs == Diffs(exp, rb.items)
      names == (IF e.col # m.colnames THEN {"col"} ELSE {}) \cup (IF e.row # m.rownames THEN {"row"} ELSE {})
      cs == IF e.cs = 0 THEN ~rb.hascs ELSE rb.hascs /\ rb.cs = ColSizes(m)
  IN
  (IF e.wr # 1 THEN {[k |-> "write", code |-> e.wr, msg |-> e.wrmsg]} ELSE {})
  \cup (IF e.wr = 1 /\ run.at # 0 THEN {[k |-> "protocol", at |-> run.at, ev |-> e.evs[run.at].e, why |-> run.st.why]} ELSE {})
  \cup (IF e.wr = 1 /\ run.at = 0 /\ run.st.ph # "done"
        THEN {[k |-> "terminal", ph |-> run.st.ph, last |-> IF Len(e.evs) > 0 THEN e.evs[Len(e.evs)] ELSE [e |-> "none"]]} ELSE {})
  \cup (IF e.wr = 1 /\ hd # {} THEN {[k |-> "header", fields |-> hd]} ELSE {})
  \cup (IF e.wr = 1 /\ (diffs # {} \/ ~rb.ok) THEN {[k |-> "items", diffs |-> diffs, ok |-> rb.ok]} ELSE {})
  \cup (IF e.wr = 1 /\ ~cs THEN {[k |-> "colsizes", got |-> rb.cs, has |-> rb.hascs]} ELSE {})
  \cup (IF e.wr = 1 /\ names # {} THEN {[k |-> "names", which |-> names, col |-> e.col, row |-> e.row]} ELSE {})
  \cup (IF e.fmt = 1 /\ prev.q = e.q /\ Masked(e.evs) # Masked(prev.evs) THEN {[k |-> "textbinary"]} ELSE {})
  \cup (IF e.fmt = 1 /\ prev.q # e.q THEN {[k |-> "textbinary-unpaired"]} ELSE {})
TExec ==
  /\ E.e = "Exec" /\ Adv /\ UNCHANGED cur
  /\ prev' = IF E.fmt = 0 THEN [q |-> E.q, evs |-> E.evs] ELSE [q |-> -1, evs |-> <<>>]
  /\ IF E.case # cur.id THEN Bad([k |-> "order", why |-> "Exec without its Case"])
     ELSE LET p == ExecProblems(E) IN
          p = {} \/ Bad([k |-> "exec", q |-> E.q, fmt |-> E.fmt, comments |-> E.comments, bf |-> E.bf, cs |-> E.cs,
                         rf |-> E.rf, problems |-> p])
TOther == /\ E.e \notin {"Case", "Exec"} /\ Adv /\ UNCHANGED <<cur, prev>>
          /\ E.e = "Meta" \/ Bad([k |-> "event", ev |-> E.e])

Init == l = 1 /\ cur = NoCase /\ prev = [q |-> -1, evs |-> <<>>]
Next == l <= Len(Lines) /\ (TCase \/ TExec \/ TOther)
Spec == Init /\ [][Next]_vars
Finished == (l = Len(Lines) + 1) => PrintT(<<"DONE", ToJson([n |-> Len(Lines)])>>)
=============================================================================
