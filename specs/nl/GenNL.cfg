SPECIFICATION Spec
INVARIANT AllWF
INVARIANT Coverage
INVARIANT Emit
CHECK_DEADLOCK FALSE
