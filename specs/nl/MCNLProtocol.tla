--------------------------- MODULE MCNLProtocol ---------------------------
(* Design check of the NLHandler protocol automaton (NLProtocol.tla) on     *)
(* small headers: TLC fires every callback with in-range, boundary and      *)
(* out-of-range arguments from every reachable state (stack depth <= MaxD,  *)
(* at most MaxF open frames) and checks that                                *)
(*   - the guards are exactly the property's (PropGuard, asserted on every  *)
(*     enabled event: every index below the matching header count, ...),    *)
(*   - no reachable non-terminal state is stuck (some event other than      *)
(*     Throw is enabled), and a completed input leaves nothing open,        *)
(*   - the stack is well formed (depth, counters never negative, a common   *)
(*     expression frame only at the bottom),                                *)
(*   - the first event is OnHeader and nothing follows the terminal event.  *)
(* One named action per callback so that -coverage shows none is vacuous.   *)
(* (This file is long because of the candidate sets; the protocol itself is *)
(* NLProtocol.tla.)                                                         *)
EXTENDS NLProtocol
CONSTANTS MaxD, MaxF
VARIABLE st
vars == <<st>>

\* ids are position based here, which keeps the state space finite
TopId(k) == IF Depth(st) > k /\ At(st, k).t = "v" THEN At(st, k).id ELSE 0
NewId(n) == IF Depth(st) >= n THEN Depth(st) - n + 1 ELSE 1   \* id of a value replacing the n topmost items
Idx == -1..2
Cnt == 0..3
Hdr(nv, nac, nlc, no, nf, a, b) ==
  [e |-> "OnHeader", nv |-> nv, nac |-> nac, nlc |-> nlc, no |-> no, nf |-> nf, nce |-> <<a, 0, b, 0, 0>>]
Headers == {Hdr(0, 0, 0, 0, 0, 0, 0), Hdr(2, 1, 1, 1, 1, 0, 1), Hdr(1, 0, 0, 0, 0, 0, 0),
            Hdr(-1, 0, 0, 0, 0, 0, 0), Hdr(1, 1, 1, 1, 1, 0, -1)}
Ids1 == {TopId(0), TopId(0) + 7}
C_OnHeader ==
  Headers
C_OnObj ==
  {[e |-> "OnObj", i |-> i, max |-> mx, expr |-> x] : i \in Idx, mx \in {0, 2}, x \in {0} \cup Ids1}
C_OnAlgebraicCon ==
  {[e |-> "OnAlgebraicCon", i |-> i, expr |-> x] : i \in Idx, x \in {0} \cup Ids1}
C_OnLogicalCon ==
  {[e |-> "OnLogicalCon", i |-> i, expr |-> x] : i \in Idx, x \in {0} \cup Ids1}
C_BeginCommonExpr ==
  {[e |-> "BeginCommonExpr", i |-> i, nlin |-> n] : i \in Idx, n \in -1..1}
C_EndCommonExpr ==
  {[e |-> "EndCommonExpr", i |-> i, expr |-> x, pos |-> p] : i \in Idx, x \in Ids1, p \in {-1, 5}}
C_OnLinearObjExpr ==
  {[e |-> "OnLinearObjExpr", i |-> i, n |-> n] : i \in Idx, n \in Cnt}
C_OnLinearConExpr ==
  {[e |-> "OnLinearConExpr", i |-> i, n |-> n] : i \in Idx, n \in Cnt}
C_AddTerm ==
  {[e |-> "AddTerm", v |-> v, c |-> 0] : v \in Idx}
C_OnVarBounds ==
  {[e |-> "OnVarBounds", i |-> i, lb |-> 0, ub |-> 0] : i \in Idx}
C_OnConBounds ==
  {[e |-> "OnConBounds", i |-> i, lb |-> 0, ub |-> 0] : i \in Idx}
C_OnComplementarity ==
  {[e |-> "OnComplementarity", c |-> c, v |-> v, flags |-> f] : c \in Idx, v \in Idx, f \in {-1, 3, 4}}
C_OnInitialValue ==
  {[e |-> "OnInitialValue", i |-> i, x |-> 0] : i \in Idx}
C_OnInitialDualValue ==
  {[e |-> "OnInitialDualValue", i |-> i, x |-> 0] : i \in Idx}
C_OnColumnSizes ==
  {[e |-> "OnColumnSizes"]}
C_ColSize ==
  {[e |-> "ColSize", n |-> n] : n \in {-1, 0}}
C_OnFunction ==
  {[e |-> "OnFunction", i |-> i, name |-> "f", nargs |-> -1, type |-> t] : i \in Idx, t \in {1, 2}}
C_OnIntSuffix ==
  {[e |-> "OnIntSuffix", name |-> "s", kind |-> kd, n |-> n] : kd \in -1..4, n \in Cnt}
C_OnDblSuffix ==
  {[e |-> "OnDblSuffix", name |-> "s", kind |-> kd, n |-> n] : kd \in -1..4, n \in Cnt}
C_SetValue ==
  {[e |-> "SetValue", t |-> t, i |-> i, v |-> 0] : t \in {"i", "d"}, i \in Idx}
C_OnNumber ==
  {[e |-> "OnNumber", v |-> 0, id |-> NewId(0)], [e |-> "OnNumber", v |-> 0, id |-> 0]}
C_OnBool ==
  {[e |-> "OnBool", v |-> TRUE, id |-> NewId(0)]}
C_OnString ==
  {[e |-> "OnString", s |-> "a", len |-> 1, id |-> NewId(0)]}
C_OnVariableRef ==
  {[e |-> "OnVariableRef", i |-> i, id |-> NewId(0)] : i \in Idx}
C_OnCommonExprRef ==
  {[e |-> "OnCommonExprRef", i |-> i, id |-> NewId(0)] : i \in Idx}
C_OnUnary ==
  {[e |-> "OnUnary", k |-> k, arg |-> a, id |-> NewId(1)] : k \in {"SIN", "ADD"}, a \in Ids1}
C_OnNot ==
  {[e |-> "OnNot", arg |-> a, id |-> NewId(1)] : a \in Ids1}
C_OnBinary ==
  {[e |-> "OnBinary", k |-> k, l |-> l, r |-> TopId(0), id |-> NewId(2)] : k \in {"ADD", "LT"}, l \in {TopId(1), TopId(1) + 7}}
C_OnBinaryLogical ==
  {[e |-> "OnBinaryLogical", k |-> k, l |-> l, r |-> TopId(0), id |-> NewId(2)] : k \in {"OR", "ADD"}, l \in {TopId(1), TopId(1) + 7}}
C_OnRelational ==
  {[e |-> "OnRelational", k |-> k, l |-> l, r |-> TopId(0), id |-> NewId(2)] : k \in {"LT", "OR"}, l \in {TopId(1), TopId(1) + 7}}
C_OnLogicalCount ==
  {[e |-> "OnLogicalCount", k |-> k, l |-> l, r |-> TopId(0), id |-> NewId(2)] : k \in {"ATMOST", "LT"}, l \in {TopId(1), TopId(1) + 7}}
C_OnIf ==
  {[e |-> "OnIf", c |-> c, t |-> TopId(1), f |-> TopId(0), id |-> NewId(3)] : c \in {TopId(2), TopId(2) + 7}}
C_OnSymbolicIf ==
  {[e |-> "OnSymbolicIf", c |-> c, t |-> TopId(1), f |-> TopId(0), id |-> NewId(3)] : c \in {TopId(2), TopId(2) + 7}}
C_OnImplication ==
  {[e |-> "OnImplication", c |-> c, t |-> TopId(1), f |-> TopId(0), id |-> NewId(3)] : c \in {TopId(2), TopId(2) + 7}}
C_BeginPLTerm ==
  {[e |-> "BeginPLTerm", n |-> n] : n \in 0..1}
C_AddSlope ==
  {[e |-> "AddSlope", v |-> 0]}
C_AddBreakpoint ==
  {[e |-> "AddBreakpoint", v |-> 0]}
C_EndPLTerm ==
  {[e |-> "EndPLTerm", arg |-> a, id |-> NewId(2)] : a \in Ids1}
C_BeginCall ==
  {[e |-> "BeginCall", f |-> f, n |-> n] : f \in Idx, n \in -1..2}
C_BeginVarArg ==
  {[e |-> "BeginVarArg", k |-> k, n |-> n] : k \in {"MIN", "ADD"}, n \in Cnt}
C_BeginIteratedLogical ==
  {[e |-> "BeginIteratedLogical", k |-> k, n |-> n] : k \in {"FORALL", "MIN"}, n \in Cnt}
C_BeginPairwise ==
  {[e |-> "BeginPairwise", k |-> k, n |-> n] : k \in {"ALLDIFF", "OR"}, n \in Cnt}
C_BeginSum ==
  {[e |-> "BeginSum", n |-> n] : n \in Cnt}
C_BeginCount ==
  {[e |-> "BeginCount", n |-> n] : n \in Cnt}
C_BeginNumberOf ==
  {[e |-> "BeginNumberOf", n |-> n, arg0 |-> a] : n \in 0..2, a \in Ids1}
C_BeginSymbolicNumberOf ==
  {[e |-> "BeginSymbolicNumberOf", n |-> n, arg0 |-> a] : n \in 0..2, a \in Ids1}
C_AddArg ==
  {[e |-> "AddArg", id |-> a] : a \in Ids1}
C_EndCall ==
  {[e |-> "EndCall", id |-> NewId(1)]}
C_EndVarArg ==
  {[e |-> "EndVarArg", id |-> NewId(1)]}
C_EndSum ==
  {[e |-> "EndSum", id |-> NewId(1)]}
C_EndCount ==
  {[e |-> "EndCount", id |-> NewId(1)]}
C_EndNumberOf ==
  {[e |-> "EndNumberOf", id |-> NewId(1)]}
C_EndSymbolicNumberOf ==
  {[e |-> "EndSymbolicNumberOf", id |-> NewId(1)]}
C_EndIteratedLogical ==
  {[e |-> "EndIteratedLogical", id |-> NewId(1)]}
C_EndPairwise ==
  {[e |-> "EndPairwise", id |-> NewId(1)]}
C_EndInput ==
  {[e |-> "EndInput"]}
C_Throw ==
  {[e |-> "Throw", kind |-> k, line |-> l, col |-> 1, off |-> l, lines |-> 3, size |-> 3] :
        k \in {"ReadError", "BinaryReadError", "Error", "OverflowError", "bad_alloc", "other"}, l \in {-1, 2, 9}}
Cand == C_OnHeader
        \cup C_OnObj
        \cup C_OnAlgebraicCon
        \cup C_OnLogicalCon
        \cup C_BeginCommonExpr
        \cup C_EndCommonExpr
        \cup C_OnLinearObjExpr
        \cup C_OnLinearConExpr
        \cup C_AddTerm
        \cup C_OnVarBounds
        \cup C_OnConBounds
        \cup C_OnComplementarity
        \cup C_OnInitialValue
        \cup C_OnInitialDualValue
        \cup C_OnColumnSizes
        \cup C_ColSize
        \cup C_OnFunction
        \cup C_OnIntSuffix
        \cup C_OnDblSuffix
        \cup C_SetValue
        \cup C_OnNumber
        \cup C_OnBool
        \cup C_OnString
        \cup C_OnVariableRef
        \cup C_OnCommonExprRef
        \cup C_OnUnary
        \cup C_OnNot
        \cup C_OnBinary
        \cup C_OnBinaryLogical
        \cup C_OnRelational
        \cup C_OnLogicalCount
        \cup C_OnIf
        \cup C_OnSymbolicIf
        \cup C_OnImplication
        \cup C_BeginPLTerm
        \cup C_AddSlope
        \cup C_AddBreakpoint
        \cup C_EndPLTerm
        \cup C_BeginCall
        \cup C_BeginVarArg
        \cup C_BeginIteratedLogical
        \cup C_BeginPairwise
        \cup C_BeginSum
        \cup C_BeginCount
        \cup C_BeginNumberOf
        \cup C_BeginSymbolicNumberOf
        \cup C_AddArg
        \cup C_EndCall
        \cup C_EndVarArg
        \cup C_EndSum
        \cup C_EndCount
        \cup C_EndNumberOf
        \cup C_EndSymbolicNumberOf
        \cup C_EndIteratedLogical
        \cup C_EndPairwise
        \cup C_EndInput
        \cup C_Throw

\* The property's guards, restated directly: whatever is enabled is in range.
InR(i, n) == i \in 0..(n - 1)
PropGuard(e) ==
    LET h == st.h IN
    CASE e.e = "OnHeader" -> st.ph = "start" /\ e.nv >= 0 /\ e.nce[3] >= 0
      [] e.e = "OnObj" -> InR(e.i, h.no)
      [] e.e = "OnAlgebraicCon" -> InR(e.i, h.nac)
      [] e.e = "OnLogicalCon" -> InR(e.i, h.nlc)
      [] e.e \in {"BeginCommonExpr", "EndCommonExpr", "OnCommonExprRef"} -> InR(e.i, h.nce)
      [] e.e = "OnLinearObjExpr" -> InR(e.i, h.no) /\ e.n \in 1..h.nv
      [] e.e = "OnLinearConExpr" -> InR(e.i, h.nac) /\ e.n \in 1..h.nv
      [] e.e = "AddTerm" -> InR(e.v, h.nv) /\ st.pl > 0
      [] e.e \in {"OnVarBounds", "OnInitialValue", "OnVariableRef"} -> InR(e.i, h.nv)
      [] e.e \in {"OnConBounds", "OnInitialDualValue"} -> InR(e.i, h.nac)
      [] e.e = "OnComplementarity" -> InR(e.c, h.nac) /\ InR(e.v, h.nv)
      [] e.e = "OnFunction" -> InR(e.i, h.nf)
      [] e.e = "BeginCall" -> InR(e.f, h.nf) /\ e.n >= 0
      [] e.e \in {"OnIntSuffix", "OnDblSuffix"} ->
           e.n \in 1..(CASE e.kind = 0 -> h.nv [] e.kind = 1 -> h.nac + h.nlc [] e.kind = 2 -> h.no [] e.kind = 3 -> 1)
      [] e.e = "SetValue" -> st.pl > 0 /\ InR(e.i, st.pub)
      [] e.e = "ColSize" -> st.pl > 0
      [] e.e = "AddArg" -> At(st, 1).left > 0
      [] e.e = "EndInput" -> st.stk = <<>> /\ st.pl = 0
      [] e.e = "Throw" -> e.kind # "other" /\ (e.kind \in {"ReadError", "BinaryReadError"} => e.line \in 0..4)
      [] OTHER -> st.ph = "body"
NFrames(s) == Cardinality({k \in 1..Len(s.stk) : s.stk[k].t = "f"})
Init == st = Init0
\* (the pre-conditions written in front of Do in the actions below are conjuncts of the
\* guards inside Step; they only spare TLC the enumeration of hopeless candidates)
Do(C) == \E e \in C : LET s2 == Step(st, e) IN
                      /\ s2.ph # "rej"
                      /\ Assert(PropGuard(e), <<"enabled event violates the property's guard", e, st>>)
                      /\ Depth(s2) <= MaxD /\ NFrames(s2) <= MaxF
                      /\ st' = s2
A_OnHeader == st.ph = "start" /\ Do(C_OnHeader)
A_OnObj == Body(st) /\ Do(C_OnObj)
A_OnAlgebraicCon == Body(st) /\ Do(C_OnAlgebraicCon)
A_OnLogicalCon == Body(st) /\ Do(C_OnLogicalCon)
A_BeginCommonExpr == TopLevel(st) /\ Do(C_BeginCommonExpr)
A_EndCommonExpr == Body(st) /\ Do(C_EndCommonExpr)
A_OnLinearObjExpr == TopLevel(st) /\ Do(C_OnLinearObjExpr)
A_OnLinearConExpr == TopLevel(st) /\ Do(C_OnLinearConExpr)
A_AddTerm == Body(st) /\ Do(C_AddTerm)
A_OnVarBounds == TopLevel(st) /\ Do(C_OnVarBounds)
A_OnConBounds == TopLevel(st) /\ Do(C_OnConBounds)
A_OnComplementarity == TopLevel(st) /\ Do(C_OnComplementarity)
A_OnInitialValue == TopLevel(st) /\ Do(C_OnInitialValue)
A_OnInitialDualValue == TopLevel(st) /\ Do(C_OnInitialDualValue)
A_OnColumnSizes == TopLevel(st) /\ Do(C_OnColumnSizes)
A_ColSize == Body(st) /\ Do(C_ColSize)
A_OnFunction == TopLevel(st) /\ Do(C_OnFunction)
A_OnIntSuffix == TopLevel(st) /\ Do(C_OnIntSuffix)
A_OnDblSuffix == TopLevel(st) /\ Do(C_OnDblSuffix)
A_SetValue == Body(st) /\ Do(C_SetValue)
A_OnNumber == CanBuild(st) /\ Do(C_OnNumber)
A_OnBool == CanBuild(st) /\ Do(C_OnBool)
A_OnString == CanBuild(st) /\ Do(C_OnString)
A_OnVariableRef == CanBuild(st) /\ Do(C_OnVariableRef)
A_OnCommonExprRef == CanBuild(st) /\ Do(C_OnCommonExprRef)
A_OnUnary == CanBuild(st) /\ Do(C_OnUnary)
A_OnNot == CanBuild(st) /\ Do(C_OnNot)
A_OnBinary == CanBuild(st) /\ Do(C_OnBinary)
A_OnBinaryLogical == CanBuild(st) /\ Do(C_OnBinaryLogical)
A_OnRelational == CanBuild(st) /\ Do(C_OnRelational)
A_OnLogicalCount == CanBuild(st) /\ Do(C_OnLogicalCount)
A_OnIf == CanBuild(st) /\ Do(C_OnIf)
A_OnSymbolicIf == CanBuild(st) /\ Do(C_OnSymbolicIf)
A_OnImplication == CanBuild(st) /\ Do(C_OnImplication)
A_BeginPLTerm == CanBuild(st) /\ Do(C_BeginPLTerm)
A_AddSlope == Body(st) /\ Do(C_AddSlope)
A_AddBreakpoint == Body(st) /\ Do(C_AddBreakpoint)
A_EndPLTerm == Body(st) /\ Do(C_EndPLTerm)
A_BeginCall == CanBuild(st) /\ Do(C_BeginCall)
A_BeginVarArg == CanBuild(st) /\ Do(C_BeginVarArg)
A_BeginIteratedLogical == CanBuild(st) /\ Do(C_BeginIteratedLogical)
A_BeginPairwise == CanBuild(st) /\ Do(C_BeginPairwise)
A_BeginSum == CanBuild(st) /\ Do(C_BeginSum)
A_BeginCount == CanBuild(st) /\ Do(C_BeginCount)
A_BeginNumberOf == CanBuild(st) /\ Do(C_BeginNumberOf)
A_BeginSymbolicNumberOf == CanBuild(st) /\ Do(C_BeginSymbolicNumberOf)
A_AddArg == Body(st) /\ Do(C_AddArg)
A_EndCall == Body(st) /\ Do(C_EndCall)
A_EndVarArg == Body(st) /\ Do(C_EndVarArg)
A_EndSum == Body(st) /\ Do(C_EndSum)
A_EndCount == Body(st) /\ Do(C_EndCount)
A_EndNumberOf == Body(st) /\ Do(C_EndNumberOf)
A_EndSymbolicNumberOf == Body(st) /\ Do(C_EndSymbolicNumberOf)
A_EndIteratedLogical == Body(st) /\ Do(C_EndIteratedLogical)
A_EndPairwise == Body(st) /\ Do(C_EndPairwise)
A_EndInput == TopLevel(st) /\ Do(C_EndInput)
A_Throw == st.ph \in {"start", "body"} /\ Do(C_Throw)
Next == \/ A_OnHeader
        \/ A_OnObj
        \/ A_OnAlgebraicCon
        \/ A_OnLogicalCon
        \/ A_BeginCommonExpr
        \/ A_EndCommonExpr
        \/ A_OnLinearObjExpr
        \/ A_OnLinearConExpr
        \/ A_AddTerm
        \/ A_OnVarBounds
        \/ A_OnConBounds
        \/ A_OnComplementarity
        \/ A_OnInitialValue
        \/ A_OnInitialDualValue
        \/ A_OnColumnSizes
        \/ A_ColSize
        \/ A_OnFunction
        \/ A_OnIntSuffix
        \/ A_OnDblSuffix
        \/ A_SetValue
        \/ A_OnNumber
        \/ A_OnBool
        \/ A_OnString
        \/ A_OnVariableRef
        \/ A_OnCommonExprRef
        \/ A_OnUnary
        \/ A_OnNot
        \/ A_OnBinary
        \/ A_OnBinaryLogical
        \/ A_OnRelational
        \/ A_OnLogicalCount
        \/ A_OnIf
        \/ A_OnSymbolicIf
        \/ A_OnImplication
        \/ A_BeginPLTerm
        \/ A_AddSlope
        \/ A_AddBreakpoint
        \/ A_EndPLTerm
        \/ A_BeginCall
        \/ A_BeginVarArg
        \/ A_BeginIteratedLogical
        \/ A_BeginPairwise
        \/ A_BeginSum
        \/ A_BeginCount
        \/ A_BeginNumberOf
        \/ A_BeginSymbolicNumberOf
        \/ A_AddArg
        \/ A_EndCall
        \/ A_EndVarArg
        \/ A_EndSum
        \/ A_EndCount
        \/ A_EndNumberOf
        \/ A_EndSymbolicNumberOf
        \/ A_EndIteratedLogical
        \/ A_EndPairwise
        \/ A_EndInput
        \/ A_Throw
Spec == Init /\ [][Next]_vars

\* ---------------------------------------------------------------- checks
TypeOK ==
  /\ st.ph \in {"start", "body", "done", "thrown"}
  /\ st.pl >= 0 /\ Depth(st) <= MaxD
  /\ \A k \in 1..Len(st.stk) : /\ st.stk[k].left >= 0 /\ st.stk[k].x >= 0
                               /\ (st.stk[k].t = "v" => st.stk[k].id > 0)
                               /\ (st.stk[k].fk = "CE" => k = 1)
  /\ st.ph = "start" => st.stk = <<>> /\ st.pl = 0
DoneClean == st.ph = "done" => st.stk = <<>> /\ st.pl = 0
\* (a common expression that announces linear terms in a problem without variables can
\* only be followed by a failure: the reader does not bound that count by num_vars)
NoStuck == (st.ph \in {"start", "body"} /\ ~(st.pk = "lin" /\ st.pl > 0 /\ st.pub = 0))
           => \/ \E e \in C_OnHeader \cup C_OnNumber \cup C_AddArg \cup C_AddTerm \cup C_ColSize \cup C_SetValue
                          \cup C_AddSlope \cup C_AddBreakpoint \cup C_EndPLTerm \cup C_OnVariableRef : Enabled(st, e)
              \/ \E e \in Cand : e.e # "Throw" /\ Enabled(st, e)
TerminalFinal == st.ph \in {"done", "thrown"} => \A e \in Cand : ~Enabled(st, e)

\* nothing but OnHeader (or a failure) leaves the start state; terminal states are final
HeaderFirst == [][(st.ph = "start" => st'.ph \in {"body", "thrown"})
                  /\ (st.ph \in {"done", "thrown"} => st' = st)]_vars
=============================================================================
