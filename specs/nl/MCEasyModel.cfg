CONSTANT MaxN = 3
INIT Init
NEXT Next
INVARIANT Exists
INVARIANT Agree
INVARIANT HeaderUnique
INVARIANT UniqueUpToBlocks
INVARIANT NonlinearPrefix
INVARIANT EvalIsObj
INVARIANT PermInverse
INVARIANT EntryCountRejected
INVARIANT InnerOnlyRejected
CHECK_DEADLOCK FALSE
