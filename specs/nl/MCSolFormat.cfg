SPECIFICATION Spec
INVARIANT RoundTripHolds
INVARIANT Idempotent
INVARIANT NothingElseLost
INVARIANT DeliveryIsARun
INVARIANT AfterFailureOnlyResult
INVARIANT TerminalAbsorbing
INVARIANT AtMostOnce
INVARIANT Bounded
INVARIANT NoPartialReportedComplete
CHECK_DEADLOCK FALSE
