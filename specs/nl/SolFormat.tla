------------------------------ MODULE SolFormat ------------------------------
(* The AMPL .sol format as a specification (properties C05 and C14).          *)
(*                                                                            *)
(* Part 1: the abstract solution record and the documented normalisations.    *)
(* Part 2: the format itself as an abstract file (a sequence of tokens, one   *)
(*         per line of a text .sol / per item of a binary one), WriteSol,     *)
(*         ReadSol and the RoundTrip property ReadSol(WriteSol(s))=Normal(s). *)
(* Part 3: the SOLHandler protocol: which callback sequences a reader may     *)
(*         produce for ANY file and any declared problem size (C14).          *)
(*                                                                            *)
(* Numbers are ATOMS: indices into a table of doubles owned by the harness.   *)
(* The spec fixes the class of every index (AtomClass); the harness maps each *)
(* double it reads back to the atoms it is equivalent to under the property's *)
(* own equivalence (exact for zero, integers and integral reals below 1e15,   *)
(* one part in 1e15 for other finite values, identity for non-finite ones).   *)
EXTENDS Integers, Sequences, FiniteSets

\* ---------------------------------------------------------------- Part 1: data
Atoms == 0..32
AZero == 0
ANegZero == 1
NoAtom == -1
AtomClass(a) ==
  CASE a \in {0, 1}  -> "zero"
    [] a \in 2..9    -> "sint"      \* nonzero integers that fit a C int
    [] a \in 10..12  -> "bint"      \* integral reals beyond int, below 1e15
    [] a \in 13..29  -> "real"      \* every other finite double (17-digit, subnormal, huge ...)
    [] a = 30        -> "pinf"
    [] a = 31        -> "ninf"
    [] a = 32        -> "nan"
    [] OTHER         -> "other"
IsZeroAtom(a) == a \in {AZero, ANegZero}
NonFinite(a) == a \in 30..32
\* -0 and +0 are the same number
NormAtom(a) == IF a = ANegZero THEN AZero ELSE a

\* A solution s is a record
\*   msg    : [nbs, lines, crlf, trail]  nbs leading backspaces (the driver's
\*            "erase the banner" convention), the text line by line, the line
\*            terminator used in the text (LF / CRLF), whether the last line is terminated
\*   opts   : the echoed AMPL options, 0 or 3..9 integers; opts[2] = 3 announces vbtol
\*   vbtol  : atom or NoAtom
\*   nvars, ncons, primal, dual : declared sizes and the vectors (<<>> = absent)
\*   objno  : 1-based objective number (0 = none), code : solve result code
\*   sufs   : sequence of [kind 0..3, real, iodecl, out, name, table (lines), vals (dense)]
\*            vals are integers for an integer suffix and atoms for a real one
NOpts(s) == Len(s.opts)
HasVbtol(s) == s.vbtol # NoAtom
WellFormed(s) ==
  /\ NOpts(s) \in ({0} \cup 3..9)
  /\ HasVbtol(s) <=> (NOpts(s) >= 3 /\ s.opts[2] = 3)
  \* the count line of the vbtol form is NOpts + 2 and must stay within 3..9
  /\ HasVbtol(s) => NOpts(s) <= 7
  /\ Len(s.primal) <= s.nvars /\ Len(s.dual) <= s.ncons
  \* the text is a sequence of lines; an unterminated empty last line is no line at all
  /\ (Len(s.msg.lines) > 0 /\ ~s.msg.trail) => s.msg.lines[Len(s.msg.lines)] # ""
  /\ (Len(s.msg.lines) = 0) => (s.msg.nbs = 0 /\ ~s.msg.trail)
  /\ (s.msg.nbs > 0) => s.msg.lines[1] # ""
  \* without an Options section the vector lengths are implied by the problem
  /\ (NOpts(s) = 0) => (Len(s.primal) = s.nvars /\ Len(s.dual) = s.ncons)
  /\ \A i, j \in 1..Len(s.sufs) :
       (i # j /\ s.sufs[i].kind = s.sufs[j].kind) => s.sufs[i].name # s.sufs[j].name

\* The only thing the format cannot carry in a message: an empty line ends the
\* message, so an empty line of the text travels as a line holding one space.
Esc(line) == IF line = "" THEN " " ELSE line

IsZeroVal(u, v) == IF u.real THEN IsZeroAtom(v) ELSE v = 0
NormVal(u, v) == IF u.real THEN NormAtom(v) ELSE v
\* suffixes are sparse: zero values are not stored
NonZeroIdx(u) == {i \in 1..Len(u.vals) : ~IsZeroVal(u, u.vals[i])}
SufKindCode(u) == u.kind + (IF u.real THEN 4 ELSE 0) + (IF u.iodecl THEN 8 ELSE 0)
SufDelivered(u) == [kind |-> SufKindCode(u), name |-> u.name, table |-> u.table,
                    vals |-> {<<i - 1, NormVal(u, u.vals[i])>> : i \in NonZeroIdx(u)}]

\* What a reader delivers for s (the documented normalisations and nothing else):
\* message line by line with empty lines escaped, backspaces counted; the options
\* block as [count, options..., ncons, nduals, nvars, nprimals]; objective number
\* 0-based; only output suffixes, kind with the real/iodecl bits, sparse values.
Normal(s) ==
  [ msg     |-> [i \in 1..Len(s.msg.lines) |-> Esc(s.msg.lines[i])],
    nbs     |-> s.msg.nbs,
    hasopts |-> NOpts(s) > 0,
    opts    |-> IF NOpts(s) = 0 THEN <<>>
                ELSE <<NOpts(s) + (IF HasVbtol(s) THEN 2 ELSE 0)>> \o s.opts
                     \o <<s.ncons, Len(s.dual), s.nvars, Len(s.primal)>>,
    vbtol   |-> IF HasVbtol(s) THEN NormAtom(s.vbtol) ELSE NoAtom,
    dual    |-> [i \in 1..Len(s.dual) |-> NormAtom(s.dual[i])],
    primal  |-> [i \in 1..Len(s.primal) |-> NormAtom(s.primal[i])],
    objno   |-> s.objno - 1,
    code    |-> s.code,
    sufs    |-> {SufDelivered(s.sufs[i]) : i \in {j \in 1..Len(s.sufs) : s.sufs[j].out}} ]

\* every atom of s that a reader has to parse as a number
ValueAtoms(s) ==
  {s.dual[i] : i \in 1..Len(s.dual)} \cup {s.primal[i] : i \in 1..Len(s.primal)}
  \cup UNION {{s.sufs[k].vals[i] : i \in NonZeroIdx(s.sufs[k])} :
              k \in {j \in 1..Len(s.sufs) : s.sufs[j].out /\ s.sufs[j].real}}
  \cup (IF HasVbtol(s) THEN {s.vbtol} ELSE {})
HasNonFinite(s) == \E a \in ValueAtoms(s) : NonFinite(a)

\* ---------------------------------------------------------------- Part 2: the file
Tok(t, v) == [t |-> t, v |-> v]
RECURSIVE SeqOfSet(_)
SeqOfSet(S) == IF S = {} THEN <<>>
               ELSE LET m == CHOOSE x \in S : \A y \in S : x <= y
                    IN <<m>> \o SeqOfSet(S \ {m})

MsgToks(m) == [i \in 1..Len(m.lines) |->
                 Tok("line", [bs |-> IF i = 1 THEN m.nbs ELSE 0, text |-> Esc(m.lines[i])])]
OptToks(s) ==
  IF NOpts(s) = 0 THEN <<>>
  ELSE <<Tok("Options", 0), Tok("int", NOpts(s) + (IF HasVbtol(s) THEN 2 ELSE 0))>>
       \o [i \in 1..NOpts(s) |-> Tok("int", s.opts[i])]
       \o <<Tok("int", s.ncons), Tok("int", Len(s.dual)), Tok("int", s.nvars), Tok("int", Len(s.primal))>>
       \o (IF HasVbtol(s) THEN <<Tok("num", NormAtom(s.vbtol))>> ELSE <<>>)
VecToks(v) == [i \in 1..Len(v) |-> Tok("num", NormAtom(v[i]))]
SufToks(u) ==
  LET idx == SeqOfSet(NonZeroIdx(u))
  IN <<Tok("suffix", [kind |-> SufKindCode(u), n |-> Len(idx), tablines |-> Len(u.table)]),
       Tok("name", u.name)>>
     \o [i \in 1..Len(u.table) |-> Tok("tab", u.table[i])]
     \o [i \in 1..Len(idx) |-> Tok("sv", <<idx[i] - 1, NormVal(u, u.vals[idx[i]])>>)]
RECURSIVE AllSufToks(_, _)
AllSufToks(sufs, k) ==
  IF k > Len(sufs) THEN <<>>
  ELSE (IF sufs[k].out THEN SufToks(sufs[k]) ELSE <<>>) \o AllSufToks(sufs, k + 1)

WriteSol(s) ==
  MsgToks(s.msg) \o <<Tok("end", 0)>> \o OptToks(s) \o VecToks(s.dual) \o VecToks(s.primal)
  \o <<Tok("objno", <<s.objno - 1, s.code>>)>> \o AllSufToks(s.sufs, 1)

RECURSIVE ParseSufs(_, _)
ParseSufs(f, p) ==
  IF p > Len(f) THEN {}
  ELSE LET h == f[p].v
       IN {[kind  |-> h.kind, name |-> f[p + 1].v,
            table |-> [i \in 1..h.tablines |-> f[p + 1 + i].v],
            vals  |-> {f[p + 1 + h.tablines + i].v : i \in 1..h.n}]}
          \cup ParseSufs(f, p + 2 + h.tablines + h.n)

\* reading a file for a problem declared with nv variables and nc constraints
ReadSol(f, nv, nc) ==
  LET pe      == CHOOSE p \in 1..Len(f) : f[p].t = "end" /\ \A q \in 1..(p - 1) : f[q].t # "end"
      hasopts == pe < Len(f) /\ f[pe + 1].t = "Options"
      cnt     == IF hasopts THEN f[pe + 2].v ELSE 0
      vb      == hasopts /\ f[pe + 4].v = 3
      nopt    == IF vb THEN cnt - 2 ELSE cnt
      optsq   == IF hasopts THEN [i \in 1..(nopt + 5) |-> f[pe + 1 + i].v] ELSE <<>>
      q0      == IF hasopts THEN pe + 2 + nopt + 5 ELSE pe + 1
      q1      == IF vb THEN q0 + 1 ELSE q0
      nd      == IF hasopts THEN optsq[nopt + 3] ELSE nc
      np      == IF hasopts THEN optsq[nopt + 5] ELSE nv
      qo      == q1 + nd + np
  IN [ msg     |-> [i \in 1..(pe - 1) |-> f[i].v.text],
       nbs     |-> IF pe > 1 THEN f[1].v.bs ELSE 0,
       hasopts |-> hasopts,
       opts    |-> optsq,
       vbtol   |-> IF vb THEN f[q0].v ELSE NoAtom,
       dual    |-> [i \in 1..nd |-> f[q1 + i - 1].v],
       primal  |-> [i \in 1..np |-> f[q1 + nd + i - 1].v],
       objno   |-> f[qo].v[1],
       code    |-> f[qo].v[2],
       sufs    |-> ParseSufs(f, qo + 1) ]

RoundTrip(s) == ReadSol(WriteSol(s), s.nvars, s.ncons) = Normal(s)

\* ---------------------------------------------------------------- Part 3: protocol
\* Result codes of NLW2_SOLReadResultCode
OK == 0
FailOpen == 1
EarlyEOF == 2
BadFormat == 3
BadLine == 4
BadOptions == 5
VecNotFinished == 6
BadSuffix == 7
Codes == 0..7

\* Protocol events (one per handler callback; a vector callback is recorded with
\* how many values the reader offered, how many the handler took, and the
\* reader's status the handler sees afterwards):
\*   [e |-> "OnSolveMessage"], [e |-> "OnAMPLOptions", ret |-> r],
\*   [e |-> "OnDualSolution" | "OnPrimalSolution", offered, read, status],
\*   [e |-> "OnObjno"], [e |-> "OnSolveCode"],
\*   [e |-> "OnIntSuffix" | "OnDblSuffix", kind, offered, read, status],
\*   [e |-> "Result", code, hasmsg]
Phase == [start |-> 0, msg |-> 1, opts |-> 2, dual |-> 3, primal |-> 4, objno |-> 5, code |-> 6, suf |-> 7, done |-> 8]

\* st.must: NoCode, or the code the reader has to end with because a vector
\* was not delivered completely / the handler refused to go on
NoCode == -1
ProtoInit(nv, nc) == [nv |-> nv, nc |-> nc, ph |-> Phase.start, must |-> NoCode, complete |-> {}]

VecComplete(ev) == ev.read = ev.offered /\ ev.status = OK
\* the code a reader must end with after an incomplete vector
VecFailCode(ev) == IF ev.status # OK THEN ev.status ELSE BadFormat
VecShapeOK(ev) == /\ ev.offered >= 0 /\ ev.read >= 0 /\ ev.read <= ev.offered
                  /\ ev.status \in Codes
                  \* a failed read used up one of the offered slots without delivering a value
                  /\ (ev.status \in {EarlyEOF, BadLine}) => ev.read < ev.offered

ProtoEnabled(st, ev) ==
  /\ st.ph # Phase.done
  /\ (st.must # NoCode) => ev.e = "Result"         \* after a failure nothing more is delivered
  /\ CASE ev.e = "OnSolveMessage"   -> st.ph = Phase.start
       [] ev.e = "OnAMPLOptions"    -> st.ph <= Phase.msg
       [] ev.e = "OnDualSolution"   -> st.ph <= Phase.opts /\ ev.offered >= 1 /\ ev.offered <= st.nc /\ VecShapeOK(ev)
       [] ev.e = "OnPrimalSolution" -> st.ph <= Phase.dual /\ ev.offered >= 1 /\ ev.offered <= st.nv /\ VecShapeOK(ev)
       [] ev.e = "OnObjno"          -> st.ph <= Phase.primal
       [] ev.e = "OnSolveCode"      -> st.ph = Phase.objno
       [] ev.e = "OnIntSuffix"      -> st.ph \in {Phase.code, Phase.suf} /\ ev.kind \in 0..15 /\ (ev.kind \div 4) % 2 = 0 /\ VecShapeOK(ev)
       [] ev.e = "OnDblSuffix"      -> st.ph \in {Phase.code, Phase.suf} /\ ev.kind \in 0..15 /\ (ev.kind \div 4) % 2 = 1 /\ VecShapeOK(ev)
       [] ev.e = "Result"           ->
            /\ ev.code \in Codes
            /\ (st.must # NoCode) => ev.code = st.must
            /\ (ev.code = OK) => st.ph # Phase.objno     \* objno and solve code come together
            /\ (ev.code = FailOpen) => st.ph = Phase.start
            /\ (ev.code # OK) => ev.hasmsg
       [] OTHER -> FALSE

IsVec(ev) == ev.e \in {"OnDualSolution", "OnPrimalSolution", "OnIntSuffix", "OnDblSuffix"}
ProtoApply(st, ev) ==
  LET ph == CASE ev.e = "OnSolveMessage"   -> Phase.msg
              [] ev.e = "OnAMPLOptions"    -> Phase.opts
              [] ev.e = "OnDualSolution"   -> Phase.dual
              [] ev.e = "OnPrimalSolution" -> Phase.primal
              [] ev.e = "OnObjno"          -> Phase.objno
              [] ev.e = "OnSolveCode"      -> Phase.code
              [] ev.e \in {"OnIntSuffix", "OnDblSuffix"} -> Phase.suf
              [] OTHER -> Phase.done
      must == IF IsVec(ev) /\ ~VecComplete(ev) THEN VecFailCode(ev)
              ELSE IF ev.e = "OnAMPLOptions" /\ ev.ret # 0 THEN BadOptions
              ELSE st.must
  IN [st EXCEPT !.ph = ph, !.must = must,
                !.complete = IF IsVec(ev) /\ VecComplete(ev) THEN @ \cup {ev.e} ELSE @]

\* the callback sequence by which a reader delivers Normal(s)
EventsOf(s) ==
  LET d == Normal(s)
      vec(name, v) == IF Len(v) = 0 THEN <<>>
                      ELSE <<[e |-> name, offered |-> Len(v), read |-> Len(v), status |-> OK]>>
      sufev(u) == [e |-> IF u.real THEN "OnDblSuffix" ELSE "OnIntSuffix", kind |-> SufKindCode(u),
                   offered |-> Cardinality(NonZeroIdx(u)), read |-> Cardinality(NonZeroIdx(u)), status |-> OK]
      outs == SelectSeq(s.sufs, LAMBDA u : u.out)
  IN (IF Len(d.msg) > 0 THEN <<[e |-> "OnSolveMessage"]>> ELSE <<>>)
     \o (IF d.hasopts THEN <<[e |-> "OnAMPLOptions", ret |-> 0]>> ELSE <<>>)
     \o vec("OnDualSolution", d.dual) \o vec("OnPrimalSolution", d.primal)
     \o <<[e |-> "OnObjno"], [e |-> "OnSolveCode"]>>
     \o [i \in 1..Len(outs) |-> sufev(outs[i])]
     \o <<[e |-> "Result", code |-> OK, hasmsg |-> FALSE]>>

RECURSIVE RunProto(_, _, _)
\* TRUE iff the whole event sequence is accepted and ends in the terminal state
RunProto(st, evs, k) ==
  IF k > Len(evs) THEN st.ph = Phase.done
  ELSE ProtoEnabled(st, evs[k]) /\ RunProto(ProtoApply(st, evs[k]), evs, k + 1)
=============================================================================
