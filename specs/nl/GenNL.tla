------------------------------- MODULE GenNL -------------------------------
(* TLC GENERATES abstract NL models (NLModel.tla) for C03 / C02.            *)
(*  GENMODE = "exh": the exhaustive small layer - one family per dimension  *)
(*     of the model (every operator at every arity class with plain and     *)
(*     nested arguments, every bound kind, every variable ordering class,   *)
(*     sizes 0..3 of every section, every suffix kind, names, options,      *)
(*     defined-variable groups, and every atom of the number table in       *)
(*     every kind of numeric position).                                     *)
(*  GENMODE = "sim": run with -simulate; every step draws one random model  *)
(*     (<= 5 variables, <= 4 constraints, expression depth <= 3) with       *)
(*     TLC's RandomElement, seeded by -seed = VERIF_SEED.                   *)
(* Every case is printed as <<"CASE", json>> with the header and column     *)
(* sizes the specification derives from it (the feeder only copies them).   *)
EXTENDS NLModel, Json, IOUtils

NAtoms == atoi(IOEnv.NATOMS)       \* atoms are 0..NAtoms-1
NFixed == atoi(IOEnv.NFIXED)       \* atoms below NFixed are the hand-picked hard cases
Mode   == IOEnv.GENMODE
NSim   == atoi(IOEnv.NSIM)

RECURSIVE Flatten(_)
Flatten(ss) == IF ss = <<>> THEN <<>> ELSE Head(ss) \o Flatten(Tail(ss))
SeqMap(n, F(_)) == [i \in 1..n |-> F(i)]

\* ------------------------------------------------------------ building blocks
N(a) == [k |-> "num", a |-> a]
Vr(i) == [k |-> "var", i |-> i]
B(v) == [k |-> "bool", v |-> v]
Str(s) == [k |-> "str", s |-> s]
Op(op, args) == [k |-> "op", op |-> op, args |-> args]
Call(f, args) == [k |-> "call", f |-> f, args |-> args]
PL(s, b, v) == [k |-> "pl", s |-> s, b |-> b, v |-> v]
Free == [lb |-> ANInf, ub |-> APInf]
Cls0 == [bc |-> 0, bi |-> 0, cc |-> 0, ci |-> 0, oc |-> 0, oi |-> 0, lc |-> 0, lb |-> 0, li |-> 0]
Con(lb, ub, lin, expr) == [lb |-> lb, ub |-> ub, k |-> 0, cv |-> 0, lin |-> lin, expr |-> expr]
Compl(k, cv, lin, expr) == [lb |-> AZero, ub |-> AZero, k |-> k, cv |-> cv, lin |-> lin, expr |-> expr]
Obj(max, lin, expr) == [max |-> max, lin |-> lin, expr |-> expr]
DV(lin, expr, grp) == [lin |-> lin, expr |-> expr, grp |-> grp]
Fn(name, nargs, type) == [name |-> name, nargs |-> nargs, type |-> type]
Suf(name, kind, real, vals) == [name |-> name, kind |-> kind, real |-> real, vals |-> vals]
Opts0 == [n |-> 0, o |-> <<0, 0, 0, 0, 0, 0, 0, 0, 0>>, vbtol |-> AZero]
A(i) == NReserved + (i % (NAtoms - NReserved))      \* some ordinary atom (not one of the reserved ones)

\* the base model: 3 continuous linear variables, one constraint, one objective
Base == [ cls |-> [Cls0 EXCEPT !.lc = 3], vars |-> <<Free, Free, Free>>,
          cons |-> << Con(AZero, APInf, << <<0, AOne>>, <<2, A(4)>> >>, NoExpr) >>,
          lcons |-> <<>>, objs |-> << Obj(0, << <<1, AOne>> >>, NoExpr) >>,
          dvs |-> <<>>, dvcls |-> [b |-> 0, c |-> 0, o |-> 0], funcs |-> <<>>,
          x0 |-> <<>>, d0 |-> <<>>, sufs |-> <<>>, colnames |-> <<>>, rownames |-> <<>>,
          opts |-> Opts0, flags |-> 0 ]
\* cfgs: "all" = every writer configuration, "fmt" = text/binary only
Case(tag, m, cfgs) == [tag |-> tag, cfgs |-> cfgs, m |-> m]
Finish(c, id) == [id |-> id, tag |-> c.tag, cfgs |-> c.cfgs, m |-> c.m,
                  hdr |-> HeaderOf(c.m, 0), colsz |-> ColSizes(c.m)]

\* -------------------------------------------------- family: operators
\* canonical argument for a context at position j: plain (v = 1) or nested (v = 2)
ArgOf(ctx, j, v) ==
  CASE ctx = "num" -> IF v = 1 THEN (IF j % 2 = 1 THEN Vr((j - 1) % 3) ELSE N(A(4 + j)))
                      ELSE (IF j % 2 = 1 THEN Op("ADD", <<Vr(j % 3), N(A(6 + j))>>)
                            ELSE Op("ABS", <<Op("MINUS", <<Vr(j % 3)>>)>>))
    [] ctx = "log" -> IF v = 1 THEN (IF j % 2 = 1 THEN Op("LE", <<Vr(0), N(A(5))>>) ELSE B(j % 4 = 0))
                      ELSE (IF j % 2 = 1 THEN Op("NOT", <<Op("EQ", <<Vr(1), Vr(2)>>)>>)
                            ELSE Op("AND", <<B(TRUE), Op("GT", <<N(AOne), Vr(0)>>)>>))
    [] ctx = "sym" -> IF j % 2 = 1 THEN Str(IF v = 1 THEN "abc" ELSE "a b")
                      ELSE (IF v = 1 THEN N(A(7)) ELSE Op("IFSYM", <<B(TRUE), Str("x"), Vr(0)>>))
    [] ctx = "cnt" -> Op("COUNT", IF v = 1 THEN <<B(TRUE)>> ELSE <<Op("LT", <<Vr(0), Vr(1)>>), B(FALSE)>>)
OpTree(op, n, v) ==
  LET ctxs == ArgCtx(Cls(op), n) IN Op(op, [j \in 1..Len(ctxs) |-> ArgOf(ctxs[j], j, v)])
Fn2 == << Fn("f", 2, 0), Fn("gsym", -1, 1) >>
PlaceNumeric(t, v) ==
  IF v = 1 THEN [Base EXCEPT !.cons[1].expr = t, !.funcs = Fn2]
  ELSE [Base EXCEPT !.objs[1].expr = t, !.funcs = Fn2]
PlaceLogical(t) == [Base EXCEPT !.lcons = <<[expr |-> t]>>, !.funcs = Fn2]
OpCase(op, n, v) ==
  LET c == Cls(op)
      t == OpTree(op, n, v)
      tag == "op:" \o op \o ":" \o ToString(n) \o ":" \o ToString(v)
  IN Case(tag, IF c \in LogicalClasses THEN PlaceLogical(t)
               ELSE IF c = "ifsym" THEN PlaceNumeric(Call(1, <<t>>), v)
               ELSE PlaceNumeric(t, v), "all")
OpCasesFor(op) ==
  LET c == Cls(op)
      ns == IF FixedArity(c) THEN <<Len(ArgCtx(c, 0))>>
            ELSE IF MinArgs(c) = 1 THEN <<1, 2, 3>> ELSE <<MinArgs(c), MinArgs(c) + 1>>
  IN IF c = "pl" THEN <<>>
     ELSE Flatten([j \in 1..Len(ns) |-> <<OpCase(op, ns[j], 1), OpCase(op, ns[j], 2)>>])
OpCases == Flatten([i \in 1..Len(OpTable) |-> OpCasesFor(OpTable[i][1])])

\* leaves, calls, piecewise-linear terms, defined variable references
DVBase == [Base EXCEPT !.dvs = << DV(<< <<0, A(5)>> >>, Op("SIN", <<Vr(1)>>), 0),
                                   DV(<<>>, Op("ADD", <<Vr(3), N(A(9))>>), 0) >>,
                       !.dvcls = [b |-> 1, c |-> 1, o |-> 0]]
LeafCases == <<
  Case("leaf:num:con", [Base EXCEPT !.cons[1].expr = N(A(5))], "all"),
  Case("leaf:num:obj", [Base EXCEPT !.objs[1].expr = N(A(6))], "all"),
  Case("leaf:var:con", [Base EXCEPT !.cons[1].expr = Vr(2)], "all"),
  Case("leaf:var:obj", [Base EXCEPT !.objs[1].expr = Vr(0)], "all"),
  Case("leaf:dv:con", [DVBase EXCEPT !.cons[1].expr = Vr(4)], "all"),
  Case("leaf:dv:obj", [DVBase EXCEPT !.objs[1].expr = Op("MUL", <<Vr(3), Vr(4)>>)], "all"),
  Case("leaf:bool:T", [Base EXCEPT !.lcons = <<[expr |-> B(TRUE)]>>], "all"),
  Case("leaf:bool:F", [Base EXCEPT !.lcons = <<[expr |-> B(FALSE)]>>], "all"),
  Case("call:0", [Base EXCEPT !.funcs = Fn2, !.cons[1].expr = Call(0, <<>>)], "all"),
  Case("call:1n", [Base EXCEPT !.funcs = Fn2, !.objs[1].expr = Call(1, <<Vr(1)>>)], "all"),
  Case("call:1s", [Base EXCEPT !.funcs = Fn2, !.cons[1].expr = Call(1, <<Str("hello")>>)], "all"),
  Case("call:2", [Base EXCEPT !.funcs = Fn2, !.cons[1].expr = Call(0, <<N(A(8)), Op("EXP", <<Vr(0)>>)>>)], "all"),
  Case("call:3", [Base EXCEPT !.funcs = Fn2, !.objs[1].expr = Call(1, <<Str(""), Str("two words"), Call(0, <<Vr(2), Vr(2)>>)>>)], "all"),
  Case("call:nested", [Base EXCEPT !.funcs = Fn2, !.lcons = <<[expr |-> Op("LT", <<Call(0, <<Vr(0), N(A(4))>>), N(AOne)>>)]>>], "all"),
  Case("pl:1", [Base EXCEPT !.cons[1].expr = PL(<<A(4), A(5)>>, <<A(6)>>, 0)], "all"),
  Case("pl:2", [Base EXCEPT !.objs[1].expr = PL(<<A(7), AZero, AOne>>, <<A(8), A(9)>>, 2)], "all"),
  Case("pl:dv", [DVBase EXCEPT !.cons[1].expr = Op("ADD", <<PL(<<AOne, A(5)>>, <<AZero>>, 3), Vr(1)>>)], "all"),
  Case("pl:3", [Base EXCEPT !.objs[1].expr = PL(<<A(4), A(5), A(6), A(7)>>, <<AOne, A(8), A(9)>>, 1)], "all") >>

\* -------------------------------------------------- family: bounds
Bnds == << <<ANInf, APInf>>, <<ANInf, A(5)>>, <<A(5), APInf>>, <<A(5), A(5)>>, <<A(4), A(6)>>,
           <<AZero, AZero>>, <<A(6), A(4)>>, <<AZero, AOne>> >>
BoundCases ==
  [i \in 1..Len(Bnds) |-> Case("bnd:var:" \o ToString(i),
      [Base EXCEPT !.vars[2] = [lb |-> Bnds[i][1], ub |-> Bnds[i][2]]], "all")]
  \o [i \in 1..Len(Bnds) |-> Case("bnd:con:" \o ToString(i),
      [Base EXCEPT !.cons[1].lb = Bnds[i][1], !.cons[1].ub = Bnds[i][2]], "all")]
  \o [k \in 1..3 |-> Case("bnd:compl:" \o ToString(k),
      [Base EXCEPT !.cons = << Con(AZero, APInf, << <<0, AOne>> >>, NoExpr),
                               Compl(k, k - 1, << <<1, AOne>>, <<2, A(5)>> >>, IF k = 2 THEN Op("SIN", <<Vr(0)>>) ELSE NoExpr) >>],
      "all")]

\* -------------------------------------------------- family: variable classes
ClsNames == <<"bc", "bi", "cc", "ci", "oc", "oi", "lc", "lb", "li">>
VarsOf(n) == [i \in 1..n |-> IF i % 2 = 0 THEN [lb |-> AZero, ub |-> AOne] ELSE Free]
WithCls(cls) ==
  LET nv == cls.bc + cls.bi + cls.cc + cls.ci + cls.oc + cls.oi + cls.lc + cls.lb + cls.li IN
  [Base EXCEPT !.cls = cls, !.vars = VarsOf(nv),
               !.cons = << Con(AZero, APInf, << <<0, AOne>> >>, NoExpr) >>,
               !.objs = << Obj(1, << <<nv - 1, AOne>> >>, NoExpr) >>]
ClassCases ==
  Flatten([i \in 1..9 |-> [n \in 1..3 |->
      Case("cls:" \o ClsNames[i] \o ":" \o ToString(n), WithCls([Cls0 EXCEPT ![ClsNames[i]] = n]), "all")]])
  \o << Case("cls:all1", WithCls([f \in DOMAIN Cls0 |-> 1]), "all"),
        Case("cls:nl", WithCls([Cls0 EXCEPT !.bc = 1, !.bi = 2, !.cc = 1, !.ci = 1, !.lc = 1]), "all"),
        Case("cls:obj", WithCls([Cls0 EXCEPT !.bc = 1, !.oc = 2, !.oi = 1, !.lb = 1, !.li = 2]), "all"),
        Case("cls:mix", WithCls([Cls0 EXCEPT !.bi = 1, !.cc = 2, !.oi = 1, !.lc = 1, !.lb = 2]), "all") >>

\* -------------------------------------------------- family: sizes 0..3
LinOf(nv, n, off) == [j \in 1..n |-> <<(j - 1 + off) % nv, A(3 + j + off)>>]
Sized(nv, nac, nlc, no, ndv, nf) ==
  [Base EXCEPT
     !.cls = [Cls0 EXCEPT !.lc = nv], !.vars = VarsOf(nv),
     !.cons = [i \in 1..nac |-> Con(IF i = 2 THEN ANInf ELSE AZero, IF i = 3 THEN A(5) ELSE APInf,
                                    LinOf(nv, (i % (nv + 1)), i), IF i = 1 THEN NoExpr ELSE Op("MUL", <<Vr(0), Vr(nv - 1)>>))],
     !.lcons = [i \in 1..nlc |-> [expr |-> Op("NE", <<Vr((i - 1) % nv), N(A(3 + i))>>)]],
     !.objs = [i \in 1..no |-> Obj(i % 2, LinOf(nv, (i - 1) % (nv + 1), 0), IF i = 2 THEN Op("POW2", <<Vr(0)>>) ELSE NoExpr)],
     !.dvs = [i \in 1..ndv |-> DV(LinOf(nv, (i - 1) % (nv + 1), 1), IF i = 1 THEN N(A(5)) ELSE Vr(nv + i - 2), 0)],
     !.dvcls = [b |-> ndv, c |-> 0, o |-> 0],
     !.funcs = [i \in 1..nf |-> Fn(<<"f1", "g_2", "hh">>[i], i - 2, i % 2)]]
SizeTuples == << <<1,0,0,0,0,0>>, <<1,1,0,1,0,0>>, <<2,0,0,1,0,0>>, <<3,1,0,0,0,0>>,
                 <<2,2,0,1,0,0>>, <<2,3,0,1,0,0>>, <<2,1,1,1,0,0>>, <<2,1,2,1,0,0>>, <<2,0,3,0,0,0>>,
                 <<2,1,0,0,0,0>>, <<2,1,0,2,0,0>>, <<2,1,0,3,0,0>>, <<2,1,0,1,1,0>>, <<2,1,0,1,2,0>>,
                 <<2,1,0,1,3,0>>, <<2,1,0,1,0,1>>, <<2,1,0,1,0,2>>, <<2,1,0,1,0,3>>,
                 <<3,3,3,3,3,3>>, <<1,3,3,3,3,3>>, <<3,2,1,2,1,2>>, <<1,1,1,1,1,1>>, <<3,0,0,3,0,0>>, <<3,3,0,0,3,0>> >>
SizeCases == [i \in 1..Len(SizeTuples) |->
   LET s == SizeTuples[i] IN
   Case("size:" \o ToString(s[1]) \o ToString(s[2]) \o ToString(s[3]) \o ToString(s[4]) \o ToString(s[5]) \o ToString(s[6]),
        Sized(s[1], s[2], s[3], s[4], s[5], s[6]), "all")]

\* -------------------------------------------------- family: linear parts, initial values
LinCases ==
  [k \in 1..4 |-> LET n == k - 1 IN Case("lin:J:" \o ToString(n), [Base EXCEPT !.cons[1].lin = LinOf(3, n, 1)], "all")]
  \o [k \in 1..4 |-> LET n == k - 1 IN Case("lin:G:" \o ToString(n), [Base EXCEPT !.objs[1].lin = LinOf(3, n, 2)], "all")]
  \o [k \in 1..4 |-> LET n == k - 1 IN Case("lin:V:" \o ToString(n), [DVBase EXCEPT !.dvs[2].lin = LinOf(3, n, 0), !.objs[1].expr = Vr(4)], "all")]
  \o [k \in 1..4 |-> LET n == k - 1 IN Case("init:x:" \o ToString(n), [Base EXCEPT !.x0 = LinOf(3, n, 2)], "all")]
  \o [k \in 1..3 |-> LET n == k - 1 IN Case("init:d:" \o ToString(n),
        [Base EXCEPT !.cons = <<Base.cons[1], Con(A(4), A(4), << <<1, AOne>> >>, NoExpr)>>, !.d0 = LinOf(2, n, 1)], "all")]
  \o << Case("init:both", [Base EXCEPT !.x0 = << <<2, AZero>>, <<0, A(6)>> >>, !.d0 = << <<0, A(7)>> >>], "all") >>

\* -------------------------------------------------- family: suffixes
MinInt == (-2147483647) - 1
IntVals == <<0, 1, -1, 32767, 32768, -32768, -32769, 2147483647, -2147483647, MinInt, 7, 123456789>>
SufBase == [Base EXCEPT !.lcons = <<[expr |-> B(TRUE)]>>,
                        !.objs = <<Base.objs[1], Obj(1, <<>>, NoExpr)>>]     \* 3 vars, 2 cons, 2 objs
SufVals(kind, real, n, off) ==
  [j \in 1..n |-> <<(j - 1 + off) % SufItems(SufBase, kind), IF real THEN A(3 + j + off) ELSE IntVals[1 + ((j + off) % Len(IntVals))]>>]
SufCases ==
  Flatten([kk \in 1..4 |-> LET kind == kk - 1 IN Flatten([r \in 1..2 |->
     [n \in 1..SufItems(SufBase, kind) |->
        Case("suf:" \o ToString(kind) \o (IF r = 1 THEN "i" ELSE "r") \o ToString(n),
             [SufBase EXCEPT !.sufs = << Suf(IF r = 1 THEN "isuf" ELSE "rsuf_x", kind, r = 2, SufVals(kind, r = 2, n, kind)) >>], "all")]])])
  \o << Case("suf:many", [SufBase EXCEPT !.sufs = << Suf("a", 0, FALSE, SufVals(0, FALSE, 3, 0)), Suf("a", 1, FALSE, SufVals(1, FALSE, 1, 1)),
                                                    Suf("b", 0, TRUE, SufVals(0, TRUE, 2, 1)), Suf("objpri", 2, FALSE, SufVals(2, FALSE, 2, 3)),
                                                    Suf("p", 3, TRUE, SufVals(3, TRUE, 1, 5)) >>], "all") >>
  \o [j \in 1..4 |-> Case("suf:ints:" \o ToString(j),
        [SufBase EXCEPT !.sufs = << Suf("iv", 0, FALSE, [q \in 1..3 |-> <<q - 1, IntVals[(j - 1) * 3 + q]>>]) >>], "fmt")]

\* -------------------------------------------------- family: names, options, functions, defined variables
NameCases == <<
  Case("names:col", [Base EXCEPT !.colnames = <<"x", "y[1]", "zed">>], "all"),
  Case("names:row", [Base EXCEPT !.rownames = <<"c1", "total_cost">>], "all"),
  Case("names:both", [Base EXCEPT !.colnames = <<"x['a',2]", "y", "z.w">>, !.rownames = <<"con one", "o">>], "all"),
  Case("names:long", [SufBase EXCEPT !.colnames = <<"a", "bb", "a_rather_long_variable_name[1,2,3]">>,
                                     !.rownames = <<"r1", "l1", "obj1", "objective_number_two">>], "all") >>
OptCases == <<
  Case("opts:0", Base, "all"),
  Case("opts:1", [Base EXCEPT !.opts = [n |-> 1, o |-> <<5, 0, 0, 0, 0, 0, 0, 0, 0>>, vbtol |-> AZero]], "fmt"),
  Case("opts:3", [Base EXCEPT !.opts = [n |-> 3, o |-> <<1, 1, 0, 0, 0, 0, 0, 0, 0>>, vbtol |-> AZero]], "fmt"),
  Case("opts:9", [Base EXCEPT !.opts = [n |-> 9, o |-> <<1, 2, 3, 4, 5, 6, 7, 8, 9>>, vbtol |-> AZero]], "fmt"),
  Case("opts:neg", [Base EXCEPT !.opts = [n |-> 4, o |-> <<-1, 0, 1000000, -7, 0, 0, 0, 0, 0>>, vbtol |-> AZero]], "fmt"),
  Case("opts:flags1", [Base EXCEPT !.flags = 1], "all"),
  Case("opts:vbtol:one", [Base EXCEPT !.opts = [n |-> 3, o |-> <<1, 3, 0, 0, 0, 0, 0, 0, 0>>, vbtol |-> AOne]], "fmt"),
  Case("opts:vbtol:frac", [Base EXCEPT !.opts = [n |-> 3, o |-> <<1, 3, 0, 0, 0, 0, 0, 0, 0>>, vbtol |-> A(5)]], "fmt") >>
  \o [j \in 1..8 |-> Case("opts:vbtol:" \o ToString(j),
        [Base EXCEPT !.opts = [n |-> 2 + (j % 3), o |-> <<1, 3, 0, 0, 0, 0, 0, 0, 0>>, vbtol |-> A(11 * j)]], "fmt")]
FuncCases == <<
  Case("func:types", [Base EXCEPT !.funcs = << Fn("num0", 0, 0), Fn("sym3", 3, 1), Fn("var", -1, 0), Fn("var2", -2, 1) >>,
                                  !.cons[1].expr = Call(2, <<Vr(0), Vr(1), Vr(2)>>)], "all"),
  Case("func:names", [Base EXCEPT !.funcs = << Fn("a", 1, 0), Fn("gsl_sf_bessel_J0", 1, 0), Fn("f.g", 2, 0) >>,
                                  !.objs[1].expr = Call(1, <<Vr(0)>>)], "all") >>
DVCases == <<
  Case("dv:shared", DVBase, "all"),
  Case("dv:con", [Base EXCEPT !.dvs = << DV(<<>>, Op("EXP", <<Vr(0)>>), 1) >>, !.cons[1].expr = Vr(3)], "all"),
  Case("dv:obj", [Base EXCEPT !.dvs = << DV(<< <<1, A(5)>> >>, N(A(6)), -1) >>, !.objs[1].expr = Op("SQRT", <<Vr(3)>>)], "all"),
  Case("dv:lcon", [Base EXCEPT !.lcons = <<[expr |-> Op("GE", <<Vr(3), N(AZero)>>)]>>,
                               !.dvs = << DV(<<>>, Op("MUL", <<Vr(0), Vr(1)>>), 2) >>], "all"),
  Case("dv:groups", [SufBase EXCEPT
         !.dvs = << DV(<<>>, Op("SIN", <<Vr(0)>>), 0), DV(<< <<0, AOne>> >>, Op("COS", <<Vr(3)>>), 0), DV(<<>>, Vr(4), 0),
                    DV(<<>>, Op("ADD", <<Vr(3), Vr(5)>>), 1), DV(<< <<2, A(4)>> >>, N(AZero), 1), DV(<<>>, Op("LOG", <<Vr(1)>>), 2),
                    DV(<<>>, Op("EXP", <<Vr(6)>>), -1), DV(<<>>, Op("ABS", <<Vr(2)>>), -2) >>,
         !.dvcls = [b |-> 1, c |-> 1, o |-> 1],
         !.cons[1].expr = Op("ADD", <<Vr(6), Vr(7)>>), !.lcons = <<[expr |-> Op("LT", <<Vr(8), Vr(5)>>)]>>,
         !.objs = << Obj(0, <<>>, Vr(9)), Obj(1, << <<0, AOne>> >>, Op("MUL", <<Vr(10), Vr(4)>>)) >>], "all") >>

\* -------------------------------------------------- family: every atom in every numeric position
\* 16 atoms per model: each one appears as an expression constant (where the
\* binary format packs short / long / double) and in one non-expression position
AtomModel(c) ==
  LET a(j) == (c * 16 + j) % NAtoms IN
  [Base EXCEPT
     !.cls = [Cls0 EXCEPT !.lc = 4],
     !.vars = [i \in 1..4 |-> [lb |-> a(2 * i - 2), ub |-> a(2 * i - 1)]],
     !.cons = << Con(a(8), a(9), << <<0, a(10)>>, <<3, a(11)>> >>, Op("SUM", [j \in 1..8 |-> N(a(j - 1))])),
                 Con(a(9), a(8), << <<1, a(4)>> >>, PL(<<a(0), a(1), a(2)>>, <<a(3), a(5)>>, 0)) >>,
     !.objs = << Obj(0, << <<2, a(12)>>, <<1, a(13)>> >>, Op("SUM", [j \in 1..8 |-> N(a(j + 7))])) >>,
     !.dvs = << DV(<< <<0, a(6)>> >>, N(a(7)), 0) >>, !.dvcls = [b |-> 1, c |-> 0, o |-> 0],
     !.x0 = << <<0, a(14)>>, <<3, a(15)>> >>, !.d0 = << <<1, a(12)>> >>,
     !.sufs = << Suf("r", 0, TRUE, << <<0, a(13)>>, <<1, a(14)>>, <<2, a(15)>>, <<3, a(10)>> >>),
                 Suf("pr", 3, TRUE, << <<0, a(11)>> >>) >> ]
AtomCases == [k \in 1..((NAtoms + 15) \div 16) |-> Case("atoms:" \o ToString(k - 1), AtomModel(k - 1), "fmt")]

ExhCases == OpCases \o LeafCases \o BoundCases \o ClassCases \o SizeCases \o LinCases \o SufCases
            \o NameCases \o OptCases \o FuncCases \o DVCases \o AtomCases

\* =================================================== random layer
\* Every operator that draws has a parameter, so that TLC re-evaluates it at
\* each use instead of folding it into a constant; values drawn once and used
\* twice are bound by LET (TLC caches a LET definition after its first
\* evaluation); sequences are built with Append so that nothing stays lazy.
R(S) == RandomElement(S)
RAtom(x) == IF R(1..4) = 1 THEN R(0..(NAtoms - 1)) ELSE R(0..(NFixed - 1))
RECURSIVE RAtoms(_), RTree(_, _, _), RArgs(_, _, _, _), RLin(_, _), RBuild(_, _, _)
RAtoms(n) == IF n = 0 THEN <<>> ELSE Append(RAtoms(n - 1), RAtom(n))
ROpOf(classes) == LET i == R({j \in 1..Len(OpTable) : OpTable[j][3] \in classes}) IN OpTable[i][1]
\* lim = [nv, nref, nf]
RNumLeaf(lim) == IF R(1..3) = 1 THEN N(RAtom(0)) ELSE Vr(R(0..(lim.nref - 1)))
RArgs(ctxs, i, d, lim) == IF i > Len(ctxs) THEN <<>> ELSE <<RTree(ctxs[i], d, lim)>> \o RArgs(ctxs, i + 1, d, lim)
RCtxs(n, ctx) == [i \in 1..n |-> ctx]
ROpTree(classes, d, lim) ==
  LET op == ROpOf(classes)
      c == Cls(op)
      n == IF FixedArity(c) THEN 0 ELSE MinArgs(c) + R(0..2)
  IN Op(op, RArgs(ArgCtx(c, n), 1, d - 1, lim))
RTree(ctx, d, lim) ==
  LET r == R(1..10) IN
  CASE ctx = "cnt" -> LET n == R(1..2) IN Op("COUNT", RArgs(RCtxs(n, "log"), 1, d - 1, lim))
    [] ctx = "log" ->
        IF d <= 0 THEN (IF r > 3 THEN Op(ROpOf({"rel"}), <<RNumLeaf(lim), RNumLeaf(lim)>>) ELSE B(R(BOOLEAN)))
        ELSE IF r = 1 THEN B(R(BOOLEAN))
        ELSE ROpTree(LogicalClasses, d, lim)
    [] ctx = "sym" /\ r <= 3 -> Str(R({"", "a", "s t", "longer string"}))
    [] ctx = "sym" /\ r = 4 /\ d > 0 -> Op("IFSYM", RArgs(<<"log", "sym", "sym">>, 1, d - 1, lim))
    [] OTHER ->     \* numeric
        IF d <= 0 \/ r <= 2 THEN RNumLeaf(lim)
        ELSE IF r = 3 THEN LET nb == R(1..3) IN PL(RAtoms(nb + 1), RAtoms(nb), R(0..(lim.nref - 1)))
        ELSE IF r = 4 /\ lim.nf > 0 THEN LET n == R(0..3) IN Call(R(0..(lim.nf - 1)), RArgs(RCtxs(n, "sym"), 1, d - 1, lim))
        ELSE ROpTree(NumericClasses, d, lim)
\* a random subset of the indices 0..n-1 with atoms (v counts up)
RLin(v, n) == IF v >= n THEN <<>>
              ELSE (IF R(1..5) <= 2 THEN << <<v, RAtom(v)>> >> ELSE <<>>) \o RLin(v + 1, n)
RBound(x) == LET r == R(1..6) IN
  CASE r = 1 -> <<ANInf, APInf>> [] r = 2 -> <<ANInf, RAtom(1)>> [] r = 3 -> <<RAtom(2), APInf>>
    [] r = 4 -> LET a == RAtom(3) IN <<a, a>> [] OTHER -> <<RAtom(4), RAtom(5)>>
RExpr(d, lim) == IF R(1..2) = 1 THEN NoExpr ELSE RTree("num", d, lim)
SufNames == {"sosno", "ref", "priority", "x_y", "s"}
RItem(what, i, z) ==
  CASE what = "var" -> LET b == RBound(i) IN [lb |-> b[1], ub |-> b[2]]
    [] what = "con" -> LET b == RBound(i) IN
         IF R(1..5) = 1 THEN Compl(R(1..3), R(0..(z.nv - 1)), RLin(0, z.nv), RExpr(R(1..3), z.all))
         ELSE Con(b[1], b[2], RLin(0, z.nv), RExpr(R(1..3), z.all))
    [] what = "lcon" -> [expr |-> RTree("log", R(1..3), z.all)]
    [] what = "obj" -> Obj(R(0..1), RLin(0, z.nv), RExpr(R(1..3), z.all))
    [] what = "dv" -> DV(IF R(1..2) = 1 THEN <<>> ELSE RLin(0, z.nv),
                         RTree("num", R(1..2), [z.all EXCEPT !.nref = z.nv + i - 1]), z.grps[i])
    [] what = "func" -> Fn(<<"f", "g2", "h_x">>[i], R(-1..3), R(0..1))
    [] what = "suf" -> LET kind == R(0..3)
                           real == R(BOOLEAN)
                           items0 == CASE kind = 0 -> z.nv [] kind = 1 -> z.ncons [] kind = 2 -> z.no [] OTHER -> 1
                           items == IF items0 = 0 THEN 1 ELSE items0     \* (dropped below if there is no such item)
                           first == R(0..(items - 1))
                       IN Suf(R(SufNames), kind, real,
                              << <<first, IF real THEN RAtom(0) ELSE R({0, 1, -1, 7, 32768, -40000, 2147483647, -2147483647})>> >>
                              \o [j \in 1..Cardinality({q \in (first + 1)..(items - 1) : q % 2 = first % 2}) |->
                                    <<first + 2 * j, IF real THEN A(first + 7 * j + i) ELSE j - 2>>])
    [] what = "colname" -> <<"x", "y", "z", "u", "w">>[i] \o R({"", "[1]", "_a"})
    [] what = "rowname" -> R({"r", "c", "obj"}) \o ToString(i)
RBuild(what, n, z) == IF n = 0 THEN <<>> ELSE Append(RBuild(what, n - 1, z), RItem(what, n, z))
RECURSIVE RCls(_)
RCls(n) == IF n = 0 THEN Cls0 ELSE [RCls(n - 1) EXCEPT ![R({"bc", "bi", "cc", "ci", "oc", "oi", "lc", "lc", "lc", "lb", "li"})] = @ + 1]
RECURSIVE Rep(_, _)
Rep(x, n) == IF n = 0 THEN <<>> ELSE Append(Rep(x, n - 1), x)
RModel(seedling) ==
  LET nv == R(1..5)
      nac == R(0..4)
      nlc == R(0..2)
      no == R(0..2)
      nf == R(0..2)
      ncons == nac + nlc
      ns == R(0..2)                                      \* shared defined variables
      gc == IF ncons > 0 /\ R(1..2) = 1 THEN <<R(1..ncons)>> ELSE <<>>
      go == IF no > 0 /\ R(1..2) = 1 THEN <<-R(1..no)>> ELSE <<>>
      grps == Rep(0, ns) \o gc \o go
      sb == R(0..ns)
      all == [nv |-> nv, nref |-> nv + Len(grps), nf |-> nf]
      z == [nv |-> nv, ncons |-> ncons, no |-> no, all |-> all, grps |-> grps]
      nsuf == IF R(1..2) = 1 THEN 0 ELSE R(1..2)
      sufs0 == RBuild("suf", nsuf, z)
      cn == R(1..3) = 1
      rn == R(1..3) = 1
      vb == R(1..4) = 1
  IN [ cls |-> RCls(nv), vars |-> RBuild("var", nv, z), cons |-> RBuild("con", nac, z),
       lcons |-> RBuild("lcon", nlc, z), objs |-> RBuild("obj", no, z),
       dvs |-> RBuild("dv", Len(grps), z), dvcls |-> [b |-> sb, c |-> ns - sb, o |-> 0],
       funcs |-> RBuild("func", nf, z),
       x0 |-> IF R(1..2) = 1 THEN <<>> ELSE RLin(0, nv), d0 |-> IF R(1..2) = 1 THEN <<>> ELSE RLin(0, nac),
       sufs |-> LET ok == SelectSeq(sufs0, LAMBDA s : (s.kind = 1 => ncons > 0) /\ (s.kind = 2 => no > 0)) IN
                IF Len(ok) = 2 /\ ok[1].name = ok[2].name /\ ok[1].kind = ok[2].kind THEN <<ok[1]>> ELSE ok,
       colnames |-> IF cn THEN RBuild("colname", nv, z) ELSE <<>>,
       rownames |-> IF rn THEN RBuild("rowname", ncons + no, z) ELSE <<>>,
       opts |-> IF vb THEN [n |-> 3, o |-> <<1, 3, 0, 0, 0, 0, 0, 0, 0>>, vbtol |-> RAtom(0)]
                ELSE [n |-> R({0, 3}), o |-> <<1, 1, 0, 0, 0, 0, 0, 0, 0>>, vbtol |-> AZero],
       flags |-> R(0..1) ]

\* =================================================== the generator
VARIABLES n, c
vars == <<n, c>>
None == [tag |-> "none"]
Init == n = 0 /\ c = None
NextExh == n < Len(ExhCases) /\ n' = n + 1 /\ c' = ExhCases[n + 1]
NextSim == n < NSim /\ n' = n + 1 /\ c' = Case("sim:" \o ToString(n + 1), RModel(n + 1), "some")
Next == IF Mode = "exh" THEN NextExh ELSE NextSim
Spec == Init /\ [][Next]_vars
Emit == n > 0 => PrintT(<<"CASE", ToJson(Finish(c, n))>>)
\* every generated model is a well-formed NL model
AllWF == n > 0 => WFModel(c.m)

\* ---- the exhaustive layer really covers what it claims (checked once, at its end)
RECURSIVE OpsIn(_), AtomsIn(_)
OpsIn(t) == CASE t.k = "op" -> {t.op} \cup UNION {OpsIn(t.args[j]) : j \in 1..Len(t.args)}
              [] t.k = "call" -> {"call"} \cup UNION {OpsIn(t.args[j]) : j \in 1..Len(t.args)}
              [] OTHER -> {t.k}
AtomsIn(t) == CASE t.k = "num" -> {t.a}
                [] t.k \in {"op", "call"} -> UNION {AtomsIn(t.args[j]) : j \in 1..Len(t.args)}
                [] t.k = "pl" -> {t.s[j] : j \in 1..Len(t.s)} \cup {t.b[j] : j \in 1..Len(t.b)}
                [] OTHER -> {}
TreesOf(m) == {m.cons[i].expr : i \in 1..Len(m.cons)} \cup {m.lcons[i].expr : i \in 1..Len(m.lcons)}
              \cup {m.objs[i].expr : i \in 1..Len(m.objs)} \cup {m.dvs[i].expr : i \in 1..Len(m.dvs)}
LinAtoms(lin) == {lin[j][2] : j \in 1..Len(lin)}
BoundKind(lb, ub) == CASE lb = ANInf /\ ub = APInf -> "free" [] lb = ANInf -> "upper" [] ub = APInf -> "lower"
                       [] lb = ub -> "eq" [] OTHER -> "range"
Coverage ==
  (Mode = "exh" /\ n = Len(ExhCases)) =>
    LET ms == {ExhCases[i].m : i \in 1..Len(ExhCases)}
        ops == UNION {UNION {OpsIn(t) : t \in TreesOf(m)} : m \in ms}
        exprAtoms == UNION {UNION {AtomsIn(t) : t \in TreesOf(m)} : m \in ms}
        otherAtoms == UNION {UNION {{m.vars[i].lb, m.vars[i].ub} : i \in 1..Len(m.vars)}
                             \cup UNION {LinAtoms(m.cons[i].lin) \cup {m.cons[i].lb, m.cons[i].ub} : i \in 1..Len(m.cons)}
                             \cup UNION {LinAtoms(m.objs[i].lin) : i \in 1..Len(m.objs)}
                             \cup LinAtoms(m.x0) \cup LinAtoms(m.d0) : m \in ms}
    IN /\ (AllOps \ {"PLTERM"}) \cup {"pl", "call", "str", "bool", "num", "var"} \subseteq ops
       /\ 0..(NAtoms - 1) \subseteq exprAtoms /\ 0..(NAtoms - 1) \subseteq otherAtoms
       /\ {"free", "upper", "lower", "eq", "range"} \subseteq
            UNION {{BoundKind(m.vars[i].lb, m.vars[i].ub) : i \in 1..Len(m.vars)} : m \in ms}
       /\ {"free", "upper", "lower", "eq", "range"} \subseteq
            UNION {{BoundKind(m.cons[i].lb, m.cons[i].ub) : i \in {j \in 1..Len(m.cons) : m.cons[j].k = 0}} : m \in ms}
       /\ 1..3 \subseteq UNION {{m.cons[i].k : i \in 1..Len(m.cons)} : m \in ms}
       /\ (0..3) \X BOOLEAN \subseteq UNION {{<<m.sufs[i].kind, m.sufs[i].real>> : i \in 1..Len(m.sufs)} : m \in ms}
       /\ \A f \in DOMAIN Cls0 : \E m \in ms : m.cls[f] > 0
       /\ \A k \in 0..3 : /\ (\E m \in ms : Len(m.cons) = k) /\ (\E m \in ms : Len(m.lcons) = k)
                           /\ (\E m \in ms : Len(m.objs) = k) /\ (\E m \in ms : Len(m.dvs) = k)
                           /\ (\E m \in ms : Len(m.funcs) = k) /\ (\E m \in ms : Len(m.x0) = k)
       /\ (\E m \in ms : m.colnames # <<>>) /\ (\E m \in ms : m.rownames # <<>>)
       /\ (\E m \in ms : \E i \in 1..Len(m.dvs) : m.dvs[i].grp > 0)
       /\ (\E m \in ms : \E i \in 1..Len(m.dvs) : m.dvs[i].grp < 0)
=============================================================================
