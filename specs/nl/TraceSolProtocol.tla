--------------------------- MODULE TraceSolProtocol ---------------------------
(* Trace validation for C14: every read of a (hostile) .sol file by the real    *)
(* mp::ReadSOLFile must be a run of the SOLHandler protocol of SolFormat.tla    *)
(* for the DECLARED problem size: each callback enabled in the current state,   *)
(* vectors never offered beyond the declared sizes, suffix names and tables     *)
(* within the lengths stated in the file, nothing delivered after a vector was  *)
(* left incomplete, no more values reported as read than the (truncated binary) *)
(* file completely holds, a terminal Result with a documented code (and a message if *)
(* it is not OK).  Crash / Hang / Throw records are never explained.  The first *)
(* callback of a read that the automaton cannot take is printed as BAD and the  *)
(* rest of that read is skipped.                                                *)
EXTENDS SolFormat, Json, IOUtils, TLC
Lines == ndJsonDeserialize(IOEnv.TRACE)
VARIABLES l, cur, st, k, live
\* cur: the Case record; st: protocol state; k: suffix callbacks so far;
\* live: the read is still being followed (no BAD yet, no Result yet)
vars == <<l, cur, st, k, live>>
E == Lines[l]
NoCase == [id |-> -1, fmt |-> "-", mut |-> "-", cls |-> "-", decl |-> "-", mode |-> "-", nv |-> 0, nc |-> 0, hdrs |-> <<>>,
           avail |-> [dual |-> -1, primal |-> -1, suf |-> <<>>]]
Bad(why) == PrintT(<<"BAD", ToJson([line |-> l, id |-> cur.id, fmt |-> cur.fmt, mut |-> cur.mut, cls |-> cur.cls,
                                    decl |-> cur.decl, mode |-> cur.mode, why |-> why, ev |-> E.e])>>)
Step == l' = l + 1

Callbacks == {"OnSolveMessage", "OnAMPLOptions", "OnDualSolution", "OnPrimalSolution", "OnObjno", "OnSolveCode",
              "OnIntSuffix", "OnDblSuffix"}
IsSuf(x) == x.e \in {"OnIntSuffix", "OnDblSuffix"}
PEv(x) == CASE x.e = "OnAMPLOptions" -> [e |-> x.e, ret |-> x.ret]
            [] x.e \in {"OnDualSolution", "OnPrimalSolution"} -> [e |-> x.e, offered |-> x.offered, read |-> x.read, status |-> x.status]
            [] IsSuf(x) -> [e |-> x.e, kind |-> x.kind, offered |-> x.offered, read |-> x.read, status |-> x.status]
            [] x.e = "Result" -> [e |-> x.e, code |-> x.code, hasmsg |-> x.hasmsg]
            [] OTHER -> [e |-> x.e]

\* suffix names and tables are delivered within the lengths stated in the file
SufWithinHeader(x) ==
  (k + 1 <= Len(cur.hdrs)) =>
     LET h == cur.hdrs[k + 1]
     IN /\ x.namelen <= h.namelen - 1
        /\ x.tablen <= (IF h.tablen > 0 THEN h.tablen - 1 ELSE 0)
        /\ x.offered = h.n
        /\ x.kind = h.kind

\* "a failure never leaves the handler with a partially delivered vector reported as complete":
\* the handler was not told that more values were read than the file completely contains
\* (stated by the harness for truncated binary files read with the true sizes; -1 = not stated)
AvailFor(x) == CASE x.e = "OnDualSolution" -> cur.avail.dual
                 [] x.e = "OnPrimalSolution" -> cur.avail.primal
                 [] IsSuf(x) -> IF k + 1 <= Len(cur.avail.suf) THEN cur.avail.suf[k + 1] ELSE -1
                 [] OTHER -> -1
AvailOK(x) == AvailFor(x) < 0 \/ x.read <= AvailFor(x)

\* why the automaton refuses an event (label for the report; most specific first)
Why(x) ==
  CASE x.e = "OnDualSolution" /\ x.offered > st.nc -> "dual-offered-beyond-declared"
    [] x.e = "OnPrimalSolution" /\ x.offered > st.nv -> "primal-offered-beyond-declared"
    [] x.e # "Result" /\ st.must # NoCode -> "callback-after-incomplete-vector"
    [] x.e = "Result" /\ x.code \notin Codes -> "undocumented-code"
    [] x.e = "Result" /\ st.must # NoCode /\ x.code # st.must -> "incomplete-vector-not-reported"
    [] x.e = "Result" /\ x.code # OK /\ ~x.hasmsg -> "error-without-message"
    [] x.e \in {"OnDualSolution", "OnPrimalSolution", "OnIntSuffix", "OnDblSuffix"} /\ ~VecShapeOK(x) -> "vector-shape"
    [] x.e \in {"OnDualSolution", "OnPrimalSolution"} /\ x.offered < 1 -> "empty-vector-offered"
    [] IsSuf(x) /\ x.kind \notin 0..15 -> "suffix-kind"
    [] OTHER -> "order"

TCase == /\ E.e = "Case" /\ Step
         /\ cur' = E /\ st' = ProtoInit(E.nv, E.nc) /\ k' = 0 /\ live' = TRUE
         /\ (~live) \/ Bad("no-result")
TEvent == /\ E.e \in (Callbacks \cup {"Result"}) /\ Step /\ UNCHANGED cur
          /\ IF ~live THEN UNCHANGED <<st, k, live>> /\ (cur.id >= 0 \/ Bad("stray"))
             ELSE LET ev == PEv(E)
                      ok == ProtoEnabled(st, ev) /\ (IsSuf(E) => SufWithinHeader(E)) /\ AvailOK(E)
                  IN /\ st' = IF ok THEN ProtoApply(st, ev) ELSE st
                     /\ k' = IF IsSuf(E) THEN k + 1 ELSE k
                     /\ live' = (ok /\ E.e # "Result")
                     /\ ok \/ Bad(IF ~ProtoEnabled(st, ev) THEN Why(E)
                                  ELSE IF ~AvailOK(E) THEN "partial-vector-reported-complete" ELSE "suffix-beyond-stated-length")
\* the library's own handler (NLSolver::ReadSolution for a loaded model of the declared size): whatever the file, the
\* returned solution has a primal vector with one entry per variable or none at all, never more duals than the file
\* may hold for this model, variable suffixes of the model's length (a file without an objno line gives a solution
\* without a solve code, which NLSolution reports as "nothing obtained" without any error: not judged)
TEasy == /\ E.e = "Easy" /\ Step /\ UNCHANGED <<cur, st, k>> /\ live' = FALSE
         /\ LET wrong == (IF E.nx \in {0, cur.nv} THEN {} ELSE {"primal-length"}) \cup
                          (IF E.ny <= cur.nc THEN {} ELSE {"dual-length"}) \cup
                          (IF E.sufbad = 0 THEN {} ELSE {"suffix-length"})
            IN (live /\ cur.mode = "easy" /\ wrong = {}) \/ Bad(IF wrong = {} THEN "order" ELSE "easy-" \o (CHOOSE w \in wrong : TRUE))
\* a handler written against the C API, called through NLW2_Read2SOLHandler_C: it is offered no more option values
\* than its fixed-size record holds (MAX_AMPL_OPTIONS = 9), no more dual / primal values than the declared sizes,
\* and a failure comes with a message
TCApi == /\ E.e = "CApi" /\ Step /\ UNCHANGED <<cur, st, k>> /\ live' = FALSE
         /\ LET wrong == (IF E.nopt <= 9 THEN {} ELSE {"options-beyond-record"}) \cup
                          (IF E.dualoff <= cur.nc THEN {} ELSE {"dual-offered-beyond-declared"}) \cup
                          (IF E.primaloff <= cur.nv THEN {} ELSE {"primal-offered-beyond-declared"}) \cup
                          (IF E.ok \/ E.hasmsg THEN {} ELSE {"error-without-message"})
            IN (live /\ cur.mode = "capi" /\ wrong = {}) \/ Bad(IF wrong = {} THEN "order" ELSE "capi-" \o (CHOOSE w \in wrong : TRUE))
TCrash == /\ E.e \in {"Crash", "Hang", "Throw"} /\ Step /\ UNCHANGED <<cur, st, k>> /\ live' = FALSE
          /\ Bad(IF E.e = "Crash" THEN "crash-" \o (IF "cls" \in DOMAIN E THEN E.cls ELSE "harness") ELSE IF E.e = "Throw" THEN "throw-" \o (IF "kind" \in DOMAIN E THEN E.kind ELSE "unknown") ELSE "hang")
TOther == /\ E.e \notin (Callbacks \cup {"Result", "Case", "Crash", "Hang", "Throw", "Easy", "CApi"})
          /\ Step /\ UNCHANGED <<cur, st, k>>
          /\ live' = (IF E.e = "End" THEN FALSE ELSE live)
          /\ CASE E.e = "Meta" -> TRUE
               [] E.e = "End" -> (~live) \/ Bad("no-result")
               [] OTHER -> Bad("event")

Init == l = 1 /\ cur = NoCase /\ st = ProtoInit(0, 0) /\ k = 0 /\ live = FALSE
Next == l <= Len(Lines) /\ (TCase \/ TEvent \/ TEasy \/ TCApi \/ TCrash \/ TOther)
Spec == Init /\ [][Next]_vars
Finished == (l = Len(Lines) + 1) => PrintT(<<"DONE", ToJson([n |-> Len(Lines)])>>)
=============================================================================
