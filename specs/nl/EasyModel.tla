------------------------------ MODULE EasyModel ------------------------------
(* Property C08: the matrix-based ("easy") model API of nl-writer2             *)
(* (mp::NLModel + mp::NLSolver, nl-writer2/src/nl-solver.cc).                  *)
(*                                                                             *)
(* An abstract matrix model m is a record                                      *)
(*   n, type (seq of "cont"|"bin"|"int"), lb, ub   columns (caller order, 0-based ids) *)
(*   rows: seq of [lb, ub, t: seq of <<col, coef>>]   sparse rows with ranges  *)
(*   sense, c0, hasC, c                            linear objective (c may be NOT GIVEN) *)
(*   fmt (1 triangular / 2 square), Q: seq of <<i, j, v>>   Hessian entries    *)
(*   x0, y0: seq of <<index, value>>               sparse warm starts          *)
(*   suf: seq of [name, kind 0..3, real, v (dense)]                            *)
(*   hasColNames/colNames, hasRowNames/rowNames, hasObjName/objName            *)
(* All data are small integers; INF / -INF stand for a missing bound.          *)
(*                                                                             *)
(* ASSUMPTION (documented in nl-model.h: "0.5 @ x.T @ Q @ x"; the shipped      *)
(* example uses a non-symmetric Square Q with Q[3,5]=12 meaning 6*x4*x6):      *)
(*   Obj(m,x) = c0 + sum_j c_j x_j + 1/2 * sum over ALL given entries (i,j,v)  *)
(*              of v*x_i*x_j   (duplicates add), for BOTH declared formats.    *)
(*                                                                             *)
(* NL encodes the type and the nonlinearity of a variable by its POSITION and  *)
(* the header class counts; the legal NL image of m is a permutation pi        *)
(* (caller index -> NL position) plus a header such that the class an NL       *)
(* reader infers for position pi(j) is the class of column j.                  *)
EXTENDS Integers, Sequences, FiniteSets

INF == 1000000                    \* abstract "no bound"
\* observed doubles are logged in units of 1/4 ("q4"), with these sentinels
PINF == 2000000001
NINF == -2000000001
NONGRID == 2000000002
Q4(v) == IF v >= INF THEN PINF ELSE IF v <= -INF THEN NINF ELSE 4 * v

Grid == {-1, 0, 1, 2}
Cols(m) == 0..(m.n - 1)
Types == {"cont", "bin", "int"}

RECURSIVE SumSeq(_)
SumSeq(s) == IF s = <<>> THEN 0 ELSE Head(s) + SumSeq(Tail(s))

\* ---------------------------------------------------------------- rationals
\* <<num, den>>, den a power of two (coefficients 0.5*q occur); not normalised,
\* compared by cross-multiplication (all data are small: no 32-bit overflow)
RInt(i) == <<i, 1>>
RQ4(q) == <<q, 4>>
RAdd(a, b) == IF a[2] >= b[2] THEN <<a[1] + b[1] * (a[2] \div b[2]), a[2]>>
                              ELSE <<a[1] * (b[2] \div a[2]) + b[1], b[2]>>
RMul(a, b) == <<a[1] * b[1], a[2] * b[2]>>
RNeg(a) == <<-a[1], a[2]>>
REq(a, b) == a[1] * b[2] = b[1] * a[2]

\* ---------------------------------------------------------------- the objective
\* x: values in caller order (sequence 1..n)
RECURSIVE LinFrom(_, _, _)
LinFrom(m, x, j) == IF j > m.n THEN 0 ELSE m.c[j] * x[j] + LinFrom(m, x, j + 1)
LinPart(m, x) == IF m.hasC THEN LinFrom(m, x, 1) ELSE 0
\* the sum over all entries of v * x_i * x_j  (= twice the quadratic part)
RECURSIVE QuadFrom(_, _, _)
QuadFrom(m, x, k) == IF k > Len(m.Q) THEN 0
                     ELSE m.Q[k][3] * x[m.Q[k][1] + 1] * x[m.Q[k][2] + 1] + QuadFrom(m, x, k + 1)
QuadSum(m, x) == QuadFrom(m, x, 1)
Obj2(m, x) == 2 * m.c0 + 2 * LinPart(m, x) + QuadSum(m, x)      \* twice the objective value
ObjR(m, x) == <<Obj2(m, x), 2>>

\* ---------------------------------------------------------------- classes and the legal NL image
\* a column is nonlinear iff it occurs in the nonlinear objective expression,
\* i.e. as EITHER index of some Hessian entry
NLVars(m) == {m.Q[k][1] : k \in 1..Len(m.Q)} \cup {m.Q[k][2] : k \in 1..Len(m.Q)}
Class(m, j) ==
  IF j \in NLVars(m) THEN (IF m.type[j + 1] = "cont" THEN "nc" ELSE "ni")
  ELSE CASE m.type[j + 1] = "cont" -> "lc"
         [] m.type[j + 1] = "bin"  -> "lb"
         [] OTHER                  -> "li"
ClassVec(m) == [jj \in 1..m.n |-> Class(m, jj - 1)]
\* NL variable order: nonlinear continuous, nonlinear integer; linear continuous, binary, other integer
Rank(c) == CASE c = "nc" -> 0 [] c = "ni" -> 1 [] c = "lc" -> 2 [] c = "lb" -> 3 [] c = "li" -> 4
Count(m, c) == Cardinality({j \in Cols(m) : Class(m, j) = c})
Header(m) == [nlvo |-> Count(m, "nc") + Count(m, "ni"), nlio |-> Count(m, "ni"),
              nbin |-> Count(m, "lb"), nint |-> Count(m, "li")]

\* what an NL reader infers for position p from the header class counts
\* (cf. NLProblemBuilder::AddVariables; objective-only nonlinearity)
PosClass(p, h, n) ==
  IF p < h.nlvo - h.nlio THEN "nc"
  ELSE IF p < h.nlvo THEN "ni"
  ELSE IF p < n - h.nbin - h.nint THEN "lc"
  ELSE IF p < n - h.nint THEN "lb"
  ELSE "li"
HeaderSane(h, n) == /\ h.nlio >= 0 /\ h.nlio <= h.nlvo /\ h.nbin >= 0 /\ h.nint >= 0
                    /\ h.nlvo + h.nbin + h.nint <= n

IsPerm(pi, n) == Len(pi) = n /\ {pi[j] : j \in 1..n} = 0..(n - 1)
Inverse(pi) == [p \in 1..Len(pi) |-> (CHOOSE j \in 1..Len(pi) : pi[j] = p - 1) - 1]
IsInversePair(pi, pinv, n) == IsPerm(pi, n) /\ Len(pinv) = n /\ \A j \in 1..n : pinv[pi[j] + 1] = j - 1

\* cv: the class vector of the model
LegalImageCV(cv, pi, h) ==
  /\ HeaderSane(h, Len(cv)) /\ IsPerm(pi, Len(cv))
  /\ \A jj \in 1..Len(cv) : PosClass(pi[jj], h, Len(cv)) = cv[jj]
LegalImage(m, pi, h) == LegalImageCV(ClassVec(m), pi, h)
\* the same, stated on the order of the blocks
BlockOrdered(m, pi) ==
  /\ IsPerm(pi, m.n)
  /\ LET cv == ClassVec(m) IN \A jj, kk \in 1..m.n : Rank(cv[jj]) < Rank(cv[kk]) => pi[jj] < pi[kk]
\* one legal image (stable sort by class rank)
CanonPi(m) == LET cv == ClassVec(m) IN [jj \in 1..m.n |->
  Cardinality({kk \in 1..m.n : \/ Rank(cv[kk]) < Rank(cv[jj])
                               \/ Rank(cv[kk]) = Rank(cv[jj]) /\ kk < jj})]

\* moving a point between caller order and NL order
XNL(pi, x) == LET inv == Inverse(pi) IN [p \in 1..Len(pi) |-> x[inv[p] + 1]]
XCaller(pi, xnl) == [j \in 1..Len(pi) |-> xnl[pi[j] + 1]]

\* ---------------------------------------------------------------- expression trees (as logged)
\* [k |-> "num", v |-> q4] | [k |-> "var", i |-> position] | [k |-> op, a |-> <<args>>]
NumNode(q) == [k |-> "num", v |-> q]
VarNode(i) == [k |-> "var", i |-> i]
OpNode(op, args) == [k |-> op, a |-> args]

Small(q) == -4000 <= q /\ q <= 4000
RECURSIVE TreeOK(_, _)
TreeOK(t, n) ==
  CASE t.k = "num" -> Small(t.v)
    [] t.k = "var" -> t.i \in 0..(n - 1)
    [] t.k = "sum" -> \A i \in 1..Len(t.a) : TreeOK(t.a[i], n)
    [] t.k \in {"add", "sub", "mul"} -> Len(t.a) = 2 /\ TreeOK(t.a[1], n) /\ TreeOK(t.a[2], n)
    [] t.k \in {"neg", "pow2"} -> Len(t.a) = 1 /\ TreeOK(t.a[1], n)
    [] OTHER -> FALSE
RECURSIVE VarsOf(_)
VarsOf(t) ==
  CASE t.k = "num" -> {}
    [] t.k = "var" -> {t.i}
    [] OTHER -> UNION {VarsOf(t.a[i]) : i \in 1..Len(t.a)}
\* xnl: values by NL position
RECURSIVE Eval(_, _), EvalArgs(_, _, _)
Eval(t, xnl) ==
  CASE t.k = "num" -> RQ4(t.v)
    [] t.k = "var" -> RInt(xnl[t.i + 1])
    [] t.k = "mul" -> RMul(Eval(t.a[1], xnl), Eval(t.a[2], xnl))
    [] t.k = "sum" -> EvalArgs(t.a, xnl, 1)
    [] t.k = "add" -> RAdd(Eval(t.a[1], xnl), Eval(t.a[2], xnl))
    [] t.k = "sub" -> RAdd(Eval(t.a[1], xnl), RNeg(Eval(t.a[2], xnl)))
    [] t.k = "neg" -> RNeg(Eval(t.a[1], xnl))
    [] t.k = "pow2" -> LET v == Eval(t.a[1], xnl) IN RMul(v, v)
EvalArgs(args, xnl, i) == IF i > Len(args) THEN <<0, 1>> ELSE RAdd(Eval(args[i], xnl), EvalArgs(args, xnl, i + 1))

\* the objective as read back: linear terms <<position, q4 coef>> + nonlinear tree
LinOK(olin, n) == \A k \in 1..Len(olin) : olin[k][1] \in 0..(n - 1) /\ Small(olin[k][2])
RECURSIVE ReadLin4(_, _, _)
ReadLin4(olin, xnl, k) == IF k > Len(olin) THEN 0 ELSE olin[k][2] * xnl[olin[k][1] + 1] + ReadLin4(olin, xnl, k + 1)
ReadObjR(olin, otree, xnl) == RAdd(<<ReadLin4(olin, xnl, 1), 4>>, Eval(otree, xnl))
\* equal as functions on the grid {-1,0,1,2}^n
SameObjective(m, pi, olin, otree) ==
  LET inv == Inverse(pi)
  IN \A x \in [1..m.n -> Grid] : REq(ReadObjR(olin, otree, [p \in 1..m.n |-> x[inv[p] + 1]]), ObjR(m, x))

\* a written image of the objective that the spec accepts (used by the design check)
CanonTree(m, pi) ==
  IF Len(m.Q) = 0 THEN NumNode(4 * m.c0)
  ELSE OpNode("sum", <<NumNode(4 * m.c0)>> \o
         [k \in 1..Len(m.Q) |->
            OpNode("mul", <<NumNode(2 * m.Q[k][3]),
                            OpNode("mul", <<VarNode(pi[m.Q[k][1] + 1]), VarNode(pi[m.Q[k][2] + 1])>>)>>)])
CanonLin(m, pi) == IF m.hasC THEN [j \in 1..m.n |-> <<pi[j], 4 * m.c[j]>>] ELSE <<>>

\* ---------------------------------------------------------------- solutions
\* a .sol for the written problem carries x by NL position; the caller gets
\* x in caller order, duals as they are, variable suffixes un-permuted
SolX(pi, xnl) == XCaller(pi, xnl)
SolObj2(m, pi, xnl) == Obj2(m, XCaller(pi, xnl))

\* ---------------------------------------------------------------- well-formed cases
PairwiseDistinct(s) == \A a, b \in 1..Len(s) : a # b => s[a] # s[b]
WellFormed(m) ==
  /\ m.n >= 1 /\ Len(m.type) = m.n /\ Len(m.lb) = m.n /\ Len(m.ub) = m.n
  /\ \A j \in 1..m.n : /\ m.type[j] \in Types
                       \* the API has type 0/1 only: binary = integer with bounds [0,1]
                       /\ m.type[j] = "bin" => (m.lb[j] = 0 /\ m.ub[j] = 1)
                       /\ m.type[j] = "int" => ~(m.lb[j] = 0 /\ m.ub[j] = 1)
  /\ Len(m.c) = m.n
  /\ \A k \in 1..Len(m.Q) : m.Q[k][1] \in Cols(m) /\ m.Q[k][2] \in Cols(m) /\ m.Q[k][3] # 0
  /\ \A k \in 1..(Len(m.Q) - 1) : m.Q[k][1] <= m.Q[k + 1][1]        \* grouped by the outer index
  /\ \A i \in 1..Len(m.rows) :
       /\ \A k \in 1..Len(m.rows[i].t) : m.rows[i].t[k][1] \in Cols(m) /\ m.rows[i].t[k][2] # 0
       /\ PairwiseDistinct([k \in 1..Len(m.rows[i].t) |-> m.rows[i].t[k][1]])
  /\ PairwiseDistinct([k \in 1..Len(m.x0) |-> m.x0[k][1]]) /\ \A k \in 1..Len(m.x0) : m.x0[k][1] \in Cols(m)
  /\ PairwiseDistinct([k \in 1..Len(m.y0) |-> m.y0[k][1]]) /\ \A k \in 1..Len(m.y0) : m.y0[k][1] \in 0..(Len(m.rows) - 1)
  /\ \A k \in 1..Len(m.suf) : Len(m.suf[k].v) = (CASE m.suf[k].kind = 0 -> m.n [] m.suf[k].kind = 1 -> Len(m.rows) [] OTHER -> 1)
  /\ PairwiseDistinct([k \in 1..Len(m.suf) |-> <<m.suf[k].name, m.suf[k].kind>>])
  /\ m.hasColNames => Len(m.colNames) = m.n
  /\ m.hasRowNames => (Len(m.rowNames) = Len(m.rows) /\ Len(m.rows) >= 1)
=============================================================================
