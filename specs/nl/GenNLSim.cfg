SPECIFICATION Spec
INVARIANT AllWF
INVARIANT Emit
CHECK_DEADLOCK FALSE
