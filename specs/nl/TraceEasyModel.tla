--------------------------- MODULE TraceEasyModel ---------------------------
(* Trace validation for C08.  Per case the harness (harness/h_easy.cc) logs   *)
(*   Case  (the abstract case, verbatim)                                      *)
(*   Perm  (the permutation reported by NLModel::WriteNL)                     *)
(*   NL    (the files written by NLSolver::LoadModel as read back by the real *)
(*          mp::ReadNLFile)            | NLFail (not written / not readable)  *)
(*   Sol   (NLSolver::ReadSolution() of a .sol for the written problem)       *)
(*   Obj   (the one-call NLSolver::Solve(model, solver, opts))                *)
(*   End                                                                      *)
(* and Crash / Hang / Throw when the child died.  Every record must be        *)
(* explained by EasyModel.tla under the REPORTED permutation; what is not is  *)
(* printed as a BAD record naming the wrong fields, and validation continues. *)
(* Observed doubles are q4 integers (units of 1/4, EasyModel!Q4).             *)
EXTENDS EasyModel, Json, IOUtils, TLC
Lines == ndJsonDeserialize(IOEnv.TRACE)
VARIABLES l, ci, pl, seen
\* ci: line of the running Case (0 = none); pl: line of its Perm record (0 = none / unusable)
vars == <<l, ci, pl, seen>>

E == Lines[l]
C == Lines[ci].c
Pi == Lines[pl].perm
Bad(wrong) == PrintT(<<"BAD", ToJson([line |-> l, id |-> IF ci = 0 THEN -1 ELSE C.id,
                                      tag |-> IF ci = 0 THEN "" ELSE C.tag, wrong |-> wrong])>>)
Step == l' = l + 1
ToSet(s) == {s[q] : q \in 1..Len(s)}
Scale4(s) == [q \in 1..Len(s) |-> 4 * s[q]]

TCase == /\ E.e = "Case" /\ Step /\ ci' = l /\ pl' = 0 /\ seen' = {"Case"}
         /\ (WellFormed(E.c) /\ PairwiseDistinct(E.c.sol.x) /\ E.c.sol.nx \in 0..Len(E.c.sol.x)) \/ Bad({"case"})

TPerm == /\ E.e = "Perm" /\ ci # 0 /\ Step /\ UNCHANGED ci /\ seen' = seen \cup {"Perm"}
         /\ LET ok == E.err = "" /\ IsInversePair(E.perm, E.pinv, C.n)
            IN /\ pl' = IF ok THEN l ELSE 0
               /\ ok \/ Bad({"perm"})

\* ---------------------------------------------------------------- the written problem
ZeroFields == {"nlcons", "nlc", "ncompl", "nlvc", "nlvb", "nlib", "nlic", "ncexpr", "nfuncs"}
NLNames == {"hdr.nv", "hdr.nc", "hdr.no", "hdr.other", "hdr.nlo", "hdr.nlvo", "hdr.nlio", "hdr.nbin", "hdr.nint",
            "hdr.nnzc", "hdr.nnzo", "hdr.format", "wfile", "type", "nlblock", "vbounds", "cbounds", "clin", "cnl",
            "colsizes", "osense", "obj", "x0", "y0", "suf", "colnames", "rownames"}
SufExpected(s, pi) ==      \* sparse image of a model suffix: {<<index, q4>>}
  IF s.kind = 0 THEN {<<pi[j], 4 * s.v[j]>> : j \in {jj \in 1..Len(s.v) : s.v[jj] # 0}}
  ELSE {<<i - 1, 4 * s.v[i]>> : i \in {ii \in 1..Len(s.v) : s.v[ii] # 0}}
NLWrong(m, pi, r) ==
  LET h == r.hdr
      n == m.n
      nr == Len(m.rows)
      H == Header(m)
      cv == ClassVec(m)
      sane == h.nv = n /\ Len(r.vlb) = n /\ Len(r.vub) = n
      rowsOK == h.nc = nr /\ Len(r.clb) = nr /\ Len(r.cub) = nr /\ Len(r.clin) = nr /\ Len(r.cnl) = nr
      inv == Inverse(pi)
  IN {w \in NLNames :
       CASE w = "hdr.nv" -> ~sane
         [] w = "hdr.nc" -> ~rowsOK
         [] w = "hdr.no" -> h.no # 1 \/ r.nobj # 1
         [] w = "hdr.other" -> \E f \in ZeroFields : h[f] # 0
         [] w = "hdr.nlo" -> h.nlo # (IF Len(m.Q) = 0 THEN 0 ELSE 1)
         [] w = "hdr.nlvo" -> h.nlvo # H.nlvo
         [] w = "hdr.nlio" -> h.nlio # H.nlio
         [] w = "hdr.nbin" -> h.nbin # H.nbin
         [] w = "hdr.nint" -> h.nint # H.nint
         [] w = "hdr.nnzc" -> h.nnzc # SumSeq([i \in 1..nr |-> Len(m.rows[i].t)])
         [] w = "hdr.nnzo" -> h.nnzo # Len(r.olin)
         [] w = "hdr.format" -> h.binary # ~m.text
         [] w = "wfile" -> ~r.samefile
         \* the class an NL reader infers for the position of column j is the class of column j
         [] w = "type" -> sane /\ ~LegalImageCV(cv, pi, h)
         \* the variables of the nonlinear expression occupy exactly positions 0..nlvo-1
         [] w = "nlblock" -> sane /\ TreeOK(r.otree, n) /\ VarsOf(r.otree) # 0..(h.nlvo - 1)
         [] w = "vbounds" -> sane /\ \E j \in 1..n : r.vlb[pi[j] + 1] # Q4(m.lb[j]) \/ r.vub[pi[j] + 1] # Q4(m.ub[j])
         [] w = "cbounds" -> rowsOK /\ \E i \in 1..nr : r.clb[i] # Q4(m.rows[i].lb) \/ r.cub[i] # Q4(m.rows[i].ub)
         [] w = "clin" -> rowsOK /\ \E i \in 1..nr :
                             \/ Len(r.clin[i]) # Len(m.rows[i].t)
                             \/ ToSet(r.clin[i]) # {<<pi[t[1] + 1], 4 * t[2]>> : t \in ToSet(m.rows[i].t)}
         [] w = "cnl" -> rowsOK /\ \E i \in 1..nr : r.cnl[i].k # "num" \/ r.cnl[i].v # 0
         [] w = "colsizes" -> sane /\ r.colsizes # [p \in 1..(n - 1) |->
                                 Cardinality({i \in 1..nr : \E q \in 1..Len(m.rows[i].t) : m.rows[i].t[q][1] = inv[p]})]
         [] w = "osense" -> r.otype # m.sense
         [] w = "obj" -> sane /\ ~(TreeOK(r.otree, n) /\ LinOK(r.olin, n) /\ SameObjective(m, pi, r.olin, r.otree))
         [] w = "x0" -> Len(r.x0) # Len(m.x0) \/ ToSet(r.x0) # {<<pi[t[1] + 1], 4 * t[2]>> : t \in ToSet(m.x0)}
         [] w = "y0" -> Len(r.y0) # Len(m.y0) \/ ToSet(r.y0) # {<<t[1], 4 * t[2]>> : t \in ToSet(m.y0)}
         \* every model suffix arrives (an all-zero one may be absent), nothing else does
         [] w = "suf" -> \/ \E s \in ToSet(m.suf) :
                              LET got == {g \in ToSet(r.suf) : g.name = s.name /\ g.kind = s.kind}
                                  want == SufExpected(s, pi)
                              IN IF want = {} THEN \E g \in got : Len(g.vals) # 0
                                 ELSE ~(\E g \in got : g.real = s.real /\ Len(g.vals) = Cardinality(want) /\ ToSet(g.vals) = want)
                                      \/ Cardinality(got) # 1
                         \/ \E g \in ToSet(r.suf) : ~\E s \in ToSet(m.suf) : g.name = s.name /\ g.kind = s.kind
                         \/ ~PairwiseDistinct([q \in 1..Len(r.suf) |-> <<r.suf[q].name, r.suf[q].kind>>])
         [] w = "colnames" -> IF m.hasColNames THEN ~(r.hascol /\ r.col = [p \in 1..n |-> m.colNames[inv[p] + 1]])
                              ELSE r.hascol
         \* .row = row names, then the objective name (whatever it is when none was set)
         [] w = "rownames" -> IF m.hasRowNames
                              THEN ~(/\ r.hasrow /\ Len(r.row) = nr + 1 /\ SubSeq(r.row, 1, nr) = m.rowNames
                                     /\ (m.hasObjName => r.row[nr + 1] = m.objName))
                              ELSE r.hasrow}

TNL == /\ E.e = "NL" /\ ci # 0 /\ Step /\ UNCHANGED <<ci, pl>> /\ seen' = seen \cup {"NL"}
       /\ IF pl = 0 THEN Bad({"noperm"})
          ELSE LET wrong == NLWrong(C, Pi, E) IN wrong = {} \/ Bad(wrong)
TNLFail == /\ E.e = "NLFail" /\ ci # 0 /\ Step /\ UNCHANGED <<ci, pl>> /\ seen' = seen \cup {"NL"}
           /\ Bad({IF E.stage = "ReadNLFile" THEN "unreadable" ELSE "loadfail"})

\* ---------------------------------------------------------------- the returned solution
\* ReadSolution: x in caller order, duals as they are, variable suffixes un-permuted, others as is
SolSufWant(m, pi) ==
  LET s == m.sol
  IN {[name |-> s.vsuf.name, kind |-> 0, real |-> s.vsuf.real, v |-> [j \in 1..m.n |-> 4 * s.vsuf.v[pi[j] + 1]]]}
     \cup (IF s.csuf.present THEN {[name |-> s.csuf.name, kind |-> 1, real |-> s.csuf.real, v |-> Scale4(s.csuf.v)]} ELSE {})
\* the .sol file may offer fewer primal values than the model has variables (sol.nx of them, in NL order):
\* the others are 0 in the returned vector, which always has one entry per variable
XOffered(m) == [p \in 1..Len(m.sol.x) |-> IF p <= m.sol.nx THEN m.sol.x[p] ELSE 0]
SolWrong(m, pi, r, pre, withObj) ==
  {w \in {pre \o ".ok", pre \o ".code", pre \o ".x", pre \o ".y", pre \o ".suf", pre \o ".obj"} :
     CASE w = pre \o ".ok"   -> ~r.ok \/ r.err # ""
       [] w = pre \o ".code" -> r.code # m.sol.code
       \* (a file without primal values gives no vector at all)
       [] w = pre \o ".x"    -> r.x # (IF m.sol.nx = 0 /\ Len(m.sol.x) > 0 THEN <<>> ELSE Scale4(SolX(pi, XOffered(m))))
       [] w = pre \o ".y"    -> r.y # Scale4(m.sol.y)
       [] w = pre \o ".suf"  -> Len(r.suf) # Cardinality(SolSufWant(m, pi)) \/ ToSet(r.suf) # SolSufWant(m, pi)
       \* obj = Obj(m, x in caller order); q4 units = 2 * (twice the value)
       \* (not judged when the file has no primal values: there is no point to evaluate the objective at)
       [] w = pre \o ".obj"  -> withObj /\ ~(m.sol.nx = 0 /\ Len(m.sol.x) > 0) /\ r.obj # 2 * SolObj2(m, pi, XOffered(m))}
TSol == /\ E.e \in {"Sol", "Obj"} /\ ci # 0 /\ Step /\ UNCHANGED <<ci, pl>> /\ seen' = seen \cup {E.e}
        /\ IF pl = 0 THEN Bad({"noperm"})
           ELSE LET wrong == SolWrong(C, Pi, E, IF E.e = "Sol" THEN "sol" ELSE "solve", E.e = "Obj")
                IN wrong = {} \/ Bad(wrong)

\* ---------------------------------------------------------------- failures, end of case
Phase == IF "Sol" \in seen THEN "solve" ELSE IF "NL" \in seen THEN "readsol" ELSE IF "Perm" \in seen THEN "load" ELSE "write"
TDied == /\ E.e \in {"Crash", "Hang", "Throw"} /\ Step /\ UNCHANGED <<ci, pl>> /\ seen' = seen \cup {"Died"}
         /\ Bad({(IF E.e = "Crash" THEN "crash." ELSE IF E.e = "Hang" THEN "hang." ELSE "throw.") \o Phase})
TEnd == /\ E.e = "End" /\ Step /\ UNCHANGED <<ci, pl>> /\ seen' = seen \cup {"End"}
        /\ LET missing == {"Perm", "NL", "Sol", "Obj"} \ seen
           IN (missing = {} \/ "Died" \in seen) \/ Bad({"missing." \o x : x \in missing})
TOther == /\ E.e \notin {"Case", "Perm", "NL", "NLFail", "Sol", "Obj", "Crash", "Hang", "Throw", "End"}
          /\ Step /\ UNCHANGED <<ci, pl, seen>>
          /\ E.e = "Meta" \/ Bad({"event"})
\* an event outside a case
TStray == /\ E.e \in {"Perm", "NL", "NLFail", "Sol", "Obj"} /\ ci = 0 /\ Step /\ UNCHANGED <<ci, pl, seen>> /\ Bad({"event"})

Init == l = 1 /\ ci = 0 /\ pl = 0 /\ seen = {}
Next == l <= Len(Lines) /\ (TCase \/ TPerm \/ TNL \/ TNLFail \/ TSol \/ TDied \/ TEnd \/ TOther \/ TStray)
Spec == Init /\ [][Next]_vars
Finished == (l = Len(Lines) + 1) => PrintT(<<"DONE", ToJson([n |-> Len(Lines)])>>)
=============================================================================
