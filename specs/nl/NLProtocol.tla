---------------------------- MODULE NLProtocol ----------------------------
(* The NLHandler callback protocol (C02): what a receiving handler may     *)
(* rely on, as a state machine.  One operator per callback; each returns   *)
(* the successor state, or a Rej(reason) state if the callback is not      *)
(* allowed in the current state.  The machine is written as functions of   *)
(* (state, event) so that the same definitions serve                       *)
(*   - MCNLProtocol   (TLC explores the automaton itself),                 *)
(*   - TraceNLProtocol / TraceNLRoundTrip (an execution of the real reader *)
(*     is a sequence of events that is folded through Step).               *)
(*                                                                         *)
(* State:                                                                  *)
(*   ph    "start" (nothing reported), "body", "done" (EndInput), "thrown" *)
(*         or "rej"                                                        *)
(*   h     the counts of the header reported first                         *)
(*   stk   stack of open Begin* frames and of expression values built but  *)
(*         not yet consumed (the reader is recursive descent, so values    *)
(*         are consumed in LIFO order)                                     *)
(*           value: [t = "v", id, vk]  vk in num/ref/count/log/str/sym     *)
(*           frame: [t = "f", fk, left, ak, x]  left = arguments still to  *)
(*                  come, ak = expected argument kind, x = breakpoints     *)
(*                  still to come (PL) or the index (CE)                   *)
(*   pk,pl,pub  announced-vs-delivered counter of the running flat list    *)
(*         (linear terms, suffix values, column sizes): kind, number still *)
(*         to come, exclusive upper bound of the indices                   *)
(* Guards = the property: first event OnHeader; every index below the      *)
(* matching header count; 1 <= num_terms <= num_vars; every announced      *)
(* count followed by exactly that many; Begin/End properly nested;         *)
(* terminal event EndInput or Throw(kind).                                 *)
EXTENDS NLModel

MaxInt == 2147483647
SatAdd(a, b) == IF a > MaxInt - b THEN MaxInt ELSE a + b

V(id, vk) == [t |-> "v", id |-> id, vk |-> vk, fk |-> "", left |-> 0, ak |-> "", x |-> 0]
F(fk, left, ak, x) == [t |-> "f", id |-> 0, vk |-> "", fk |-> fk, left |-> left, ak |-> ak, x |-> x]
NoH == [nv |-> 0, nac |-> 0, nlc |-> 0, no |-> 0, nf |-> 0, nce |-> 0]
Init0 == [ph |-> "start", h |-> NoH, stk |-> <<>>, pk |-> "none", pl |-> 0, pub |-> 0, why |-> ""]
Rej(st, why) == [st EXCEPT !.ph = "rej", !.why = why]

\* does a value of kind vk fit where an argument of kind ak is expected
Fits(vk, ak) == CASE ak = "num" -> vk \in {"num", "ref", "count"}
                  [] ak = "log" -> vk = "log"
                  [] ak = "sym" -> vk \in {"num", "ref", "count", "str", "sym"}
                  [] ak = "ref" -> vk = "ref"
                  [] ak = "cnt" -> vk = "count"
                  [] OTHER -> FALSE

Depth(st) == Len(st.stk)
At(st, k) == st.stk[Len(st.stk) - k]              \* k = 0: top of the stack
Drop(st, n) == SubSeq(st.stk, 1, Len(st.stk) - n)
IsVal(st, k, id, ak) == /\ Depth(st) > k /\ At(st, k).t = "v" /\ At(st, k).id = id
                        /\ Fits(At(st, k).vk, ak)
IsFrame(st, k, fk) == Depth(st) > k /\ At(st, k).t = "f" /\ At(st, k).fk = fk
\* a counted flat list, or the number part of a piecewise-linear term, is still running
Busy(st) == \/ st.pl > 0
            \/ (IsFrame(st, 0, "PL") /\ (At(st, 0).left > 0 \/ At(st, 0).x > 0))
Body(st) == st.ph = "body"
CanBuild(st) == Body(st) /\ ~Busy(st)              \* an expression callback may come
TopLevel(st) == Body(st) /\ st.pl = 0 /\ st.stk = <<>>
In(i, n) == i >= 0 /\ i < n
Items(h, kind) == CASE kind = 0 -> h.nv [] kind = 1 -> SatAdd(h.nac, h.nlc)
                    [] kind = 2 -> h.no [] OTHER -> 1

Push(st, it) == [st EXCEPT !.stk = Append(@, it)]
Replace(st, n, it) == [st EXCEPT !.stk = Append(Drop(st, n), it)]

\* --------------------------------------------------------------- header
OnHeader(st, e) ==
  IF st.ph # "start" THEN Rej(st, "OnHeader is not the first event")
  ELSE IF ~(/\ e.nv >= 0 /\ e.nac >= 0 /\ e.nlc >= 0 /\ e.no >= 0 /\ e.nf >= 0
            /\ \A i \in 1..5 : e.nce[i] >= 0) THEN Rej(st, "negative count in header")
  ELSE [st EXCEPT !.ph = "body",
          !.h = [nv |-> e.nv, nac |-> e.nac, nlc |-> e.nlc, no |-> e.no, nf |-> e.nf,
                 nce |-> SatAdd(SatAdd(SatAdd(SatAdd(e.nce[1], e.nce[2]), e.nce[3]), e.nce[4]), e.nce[5])]]

\* ---------------------------------------- items with an expression handle
\* expr = 0 is the null handle (a zero constant that the reader drops)
TakeExpr(st, expr, ak, nullok) ==
  \/ (nullok /\ expr = 0 /\ st.stk = <<>>)
  \/ (Depth(st) = 1 /\ IsVal(st, 0, expr, ak))
OnObj(st, e) ==
  IF Body(st) /\ st.pl = 0 /\ In(e.i, st.h.no) /\ e.max \in {0, 1} /\ TakeExpr(st, e.expr, "num", TRUE)
  THEN [st EXCEPT !.stk = <<>>] ELSE Rej(st, "OnObj")
OnAlgebraicCon(st, e) ==
  IF Body(st) /\ st.pl = 0 /\ In(e.i, st.h.nac) /\ TakeExpr(st, e.expr, "num", TRUE)
  THEN [st EXCEPT !.stk = <<>>] ELSE Rej(st, "OnAlgebraicCon")
OnLogicalCon(st, e) ==
  IF Body(st) /\ st.pl = 0 /\ In(e.i, st.h.nlc) /\ TakeExpr(st, e.expr, "log", FALSE)
  THEN [st EXCEPT !.stk = <<>>] ELSE Rej(st, "OnLogicalCon")
BeginCommonExpr(st, e) ==
  IF TopLevel(st) /\ In(e.i, st.h.nce) /\ e.nlin >= 0
  THEN [st EXCEPT !.stk = <<F("CE", 0, "", e.i)>>, !.pk = "lin", !.pl = e.nlin, !.pub = st.h.nv]
  ELSE Rej(st, "BeginCommonExpr")
EndCommonExpr(st, e) ==
  IF /\ Body(st) /\ st.pl = 0 /\ Depth(st) = 2 /\ IsFrame(st, 1, "CE") /\ At(st, 1).x = e.i
     /\ IsVal(st, 0, e.expr, "num") /\ e.pos >= 0
  THEN [st EXCEPT !.stk = <<>>] ELSE Rej(st, "EndCommonExpr")

\* ------------------------------------------------- counted flat lists
StartList(st, pk, n, ub) == [st EXCEPT !.pk = pk, !.pl = n, !.pub = ub]
OnLinearObjExpr(st, e) ==
  IF TopLevel(st) /\ In(e.i, st.h.no) /\ e.n >= 1 /\ e.n <= st.h.nv
  THEN StartList(st, "lin", e.n, st.h.nv) ELSE Rej(st, "OnLinearObjExpr")
OnLinearConExpr(st, e) ==
  IF TopLevel(st) /\ In(e.i, st.h.nac) /\ e.n >= 1 /\ e.n <= st.h.nv
  THEN StartList(st, "lin", e.n, st.h.nv) ELSE Rej(st, "OnLinearConExpr")
AddTerm(st, e) ==
  IF Body(st) /\ st.pk = "lin" /\ st.pl > 0 /\ In(e.v, st.pub)
  THEN [st EXCEPT !.pl = @ - 1] ELSE Rej(st, "AddTerm")
OnColumnSizes(st, e) ==
  IF TopLevel(st) THEN StartList(st, "col", IF st.h.nv > 0 THEN st.h.nv - 1 ELSE 0, 0)
  ELSE Rej(st, "OnColumnSizes")
ColSize(st, e) ==
  IF Body(st) /\ st.pk = "col" /\ st.pl > 0 /\ e.n >= 0
  THEN [st EXCEPT !.pl = @ - 1] ELSE Rej(st, "ColSize")
OnSuffix(st, e, pk) ==
  IF TopLevel(st) /\ e.kind \in 0..3 /\ e.n >= 1 /\ e.n <= Items(st.h, e.kind)
  THEN StartList(st, pk, e.n, Items(st.h, e.kind)) ELSE Rej(st, "OnSuffix")
SetValue(st, e) ==
  IF Body(st) /\ st.pk = (IF e.t = "i" THEN "isuf" ELSE "dsuf") /\ st.pl > 0 /\ In(e.i, st.pub)
  THEN [st EXCEPT !.pl = @ - 1] ELSE Rej(st, "SetValue")

\* ------------------------------------------------ plain indexed items
Plain(st, ok, why) == IF TopLevel(st) /\ ok THEN st ELSE Rej(st, why)
OnVarBounds(st, e) == Plain(st, In(e.i, st.h.nv), "OnVarBounds")
OnConBounds(st, e) == Plain(st, In(e.i, st.h.nac), "OnConBounds")
OnComplementarity(st, e) ==
  Plain(st, In(e.c, st.h.nac) /\ In(e.v, st.h.nv) /\ e.flags \in 0..3, "OnComplementarity")
OnInitialValue(st, e) == Plain(st, In(e.i, st.h.nv), "OnInitialValue")
OnInitialDualValue(st, e) == Plain(st, In(e.i, st.h.nac), "OnInitialDualValue")
OnFunction(st, e) == Plain(st, In(e.i, st.h.nf) /\ e.type \in {0, 1}, "OnFunction")

\* ----------------------------------------------------- expressions
Leaf(st, ok, id, vk, why) == IF CanBuild(st) /\ ok /\ id > 0 THEN Push(st, V(id, vk)) ELSE Rej(st, why)
OnNumber(st, e) == Leaf(st, TRUE, e.id, "num", "OnNumber")
OnBool(st, e) == Leaf(st, TRUE, e.id, "log", "OnBool")
OnString(st, e) == Leaf(st, e.len >= 0, e.id, "str", "OnString")
OnVariableRef(st, e) == Leaf(st, In(e.i, st.h.nv), e.id, "ref", "OnVariableRef")
OnCommonExprRef(st, e) == Leaf(st, In(e.i, st.h.nce), e.id, "ref", "OnCommonExprRef")

\* a callback that consumes the n topmost values (kinds aks, ids ids) and yields one
Combine(st, ok, ids, aks, id, vk, why) ==
  IF /\ CanBuild(st) /\ ok /\ id > 0
     /\ \A j \in 1..Len(ids) : IsVal(st, Len(ids) - j, ids[j], aks[j])
  THEN Replace(st, Len(ids), V(id, vk)) ELSE Rej(st, why)
OnUnary(st, e) == Combine(st, e.k \in UnaryOps, <<e.arg>>, <<"num">>, e.id, "num", "OnUnary")
OnBinary(st, e) == Combine(st, e.k \in BinaryOps, <<e.l, e.r>>, <<"num", "num">>, e.id, "num", "OnBinary")
OnIf(st, e) == Combine(st, TRUE, <<e.c, e.t, e.f>>, <<"log", "num", "num">>, e.id, "num", "OnIf")
OnSymbolicIf(st, e) == Combine(st, TRUE, <<e.c, e.t, e.f>>, <<"log", "sym", "sym">>, e.id, "sym", "OnSymbolicIf")
OnNot(st, e) == Combine(st, TRUE, <<e.arg>>, <<"log">>, e.id, "log", "OnNot")
OnBinaryLogical(st, e) == Combine(st, e.k \in BinLogOps, <<e.l, e.r>>, <<"log", "log">>, e.id, "log", "OnBinaryLogical")
OnRelational(st, e) == Combine(st, e.k \in RelOps, <<e.l, e.r>>, <<"num", "num">>, e.id, "log", "OnRelational")
OnLogicalCount(st, e) == Combine(st, e.k \in LogCountOps, <<e.l, e.r>>, <<"num", "cnt">>, e.id, "log", "OnLogicalCount")
OnImplication(st, e) == Combine(st, TRUE, <<e.c, e.t, e.f>>, <<"log", "log", "log">>, e.id, "log", "OnImplication")

\* Begin* / AddArg / End*
Begin(st, ok, fk, n, ak, why) ==
  IF CanBuild(st) /\ ok /\ n >= MinArgs(fk) THEN Push(st, F(fk, n, ak, 0)) ELSE Rej(st, why)
BeginCall(st, e) == Begin(st, In(e.f, st.h.nf), "call", e.n, "sym", "BeginCall")
BeginVarArg(st, e) == Begin(st, e.k \in VarArgOps, "vararg", e.n, "num", "BeginVarArg")
BeginSum(st, e) == Begin(st, TRUE, "sum", e.n, "num", "BeginSum")
BeginCount(st, e) == Begin(st, TRUE, "count", e.n, "log", "BeginCount")
BeginIteratedLogical(st, e) == Begin(st, e.k \in IterLogOps, "iterlog", e.n, "log", "BeginIteratedLogical")
BeginPairwise(st, e) == Begin(st, e.k \in PairwiseOps, "pairwise", e.n, "num", "BeginPairwise")
\* numberof: the first argument has already been built and comes with Begin
BeginNumberOfX(st, e, fk, ak) ==
  IF CanBuild(st) /\ e.n >= 1 /\ IsVal(st, 0, e.arg0, ak)
  THEN Replace(st, 1, F(fk, e.n - 1, ak, 0)) ELSE Rej(st, "BeginNumberOf")
AddArg(st, e) ==
  IF /\ Body(st) /\ st.pl = 0 /\ Depth(st) >= 2 /\ At(st, 1).t = "f"
     /\ At(st, 1).fk \notin {"PL", "CE"} /\ At(st, 1).left > 0
     /\ IsVal(st, 0, e.id, At(st, 1).ak)
  THEN Replace(st, 2, [At(st, 1) EXCEPT !.left = @ - 1]) ELSE Rej(st, "AddArg")
End(st, e, fk, vk) ==
  IF Body(st) /\ st.pl = 0 /\ IsFrame(st, 0, fk) /\ At(st, 0).left = 0 /\ e.id > 0
  THEN Replace(st, 1, V(e.id, vk)) ELSE Rej(st, "End " \o fk)
BeginPLTerm(st, e) ==
  IF CanBuild(st) /\ e.n >= 1 THEN Push(st, F("PL", e.n + 1, "", e.n)) ELSE Rej(st, "BeginPLTerm")
AddSlope(st, e) ==
  IF Body(st) /\ st.pl = 0 /\ IsFrame(st, 0, "PL") /\ At(st, 0).left > 0
  THEN Replace(st, 1, [At(st, 0) EXCEPT !.left = @ - 1]) ELSE Rej(st, "AddSlope")
AddBreakpoint(st, e) ==
  IF Body(st) /\ st.pl = 0 /\ IsFrame(st, 0, "PL") /\ At(st, 0).x > 0
  THEN Replace(st, 1, [At(st, 0) EXCEPT !.x = @ - 1]) ELSE Rej(st, "AddBreakpoint")
EndPLTerm(st, e) ==
  IF /\ Body(st) /\ st.pl = 0 /\ IsVal(st, 0, e.arg, "ref") /\ IsFrame(st, 1, "PL")
     /\ At(st, 1).left = 0 /\ At(st, 1).x = 0 /\ e.id > 0
  THEN Replace(st, 2, V(e.id, "num")) ELSE Rej(st, "EndPLTerm")

\* ------------------------------------------------------- terminal events
EndInput(st, e) == IF TopLevel(st) THEN [st EXCEPT !.ph = "done"] ELSE Rej(st, "EndInput")
ThrowKinds == {"ReadError", "BinaryReadError", "Error", "OverflowError", "bad_alloc"}
\* a read error is located inside the input (e.lines = number of lines, e.size = bytes)
Located(e) == CASE e.kind = "ReadError" -> e.line >= 0 /\ e.line <= e.lines + 1 /\ e.col >= 0
                [] e.kind = "BinaryReadError" -> e.off >= 0 /\ e.off <= e.size
                [] OTHER -> TRUE
Throw(st, e) ==
  IF st.ph \in {"start", "body"} /\ e.kind \in ThrowKinds /\ Located(e)
  THEN [st EXCEPT !.ph = "thrown"] ELSE Rej(st, "Throw")

Terminal(st) == st.ph \in {"done", "thrown"}

\* ------------------------------------------------------------ dispatcher
Step(st, e) ==
  IF st.ph \in {"done", "thrown"} THEN Rej(st, "event after the terminal event")
  ELSE IF st.ph = "start" /\ e.e \notin {"OnHeader", "Throw"} THEN Rej(st, "first event is not OnHeader")
  ELSE
  CASE e.e = "OnHeader" -> OnHeader(st, e)
    [] e.e = "OnNumber" -> OnNumber(st, e)
    [] e.e = "OnVariableRef" -> OnVariableRef(st, e)
    [] e.e = "AddArg" -> AddArg(st, e)
    [] e.e = "AddTerm" -> AddTerm(st, e)
    [] e.e = "OnBinary" -> OnBinary(st, e)
    [] e.e = "OnUnary" -> OnUnary(st, e)
    [] e.e = "OnVarBounds" -> OnVarBounds(st, e)
    [] e.e = "OnConBounds" -> OnConBounds(st, e)
    [] e.e = "OnAlgebraicCon" -> OnAlgebraicCon(st, e)
    [] e.e = "OnLogicalCon" -> OnLogicalCon(st, e)
    [] e.e = "OnObj" -> OnObj(st, e)
    [] e.e = "OnLinearConExpr" -> OnLinearConExpr(st, e)
    [] e.e = "OnLinearObjExpr" -> OnLinearObjExpr(st, e)
    [] e.e = "BeginCommonExpr" -> BeginCommonExpr(st, e)
    [] e.e = "EndCommonExpr" -> EndCommonExpr(st, e)
    [] e.e = "OnCommonExprRef" -> OnCommonExprRef(st, e)
    [] e.e = "OnComplementarity" -> OnComplementarity(st, e)
    [] e.e = "OnInitialValue" -> OnInitialValue(st, e)
    [] e.e = "OnInitialDualValue" -> OnInitialDualValue(st, e)
    [] e.e = "OnColumnSizes" -> OnColumnSizes(st, e)
    [] e.e = "ColSize" -> ColSize(st, e)
    [] e.e = "OnFunction" -> OnFunction(st, e)
    [] e.e = "OnIntSuffix" -> OnSuffix(st, e, "isuf")
    [] e.e = "OnDblSuffix" -> OnSuffix(st, e, "dsuf")
    [] e.e = "SetValue" -> SetValue(st, e)
    [] e.e = "OnBool" -> OnBool(st, e)
    [] e.e = "OnString" -> OnString(st, e)
    [] e.e = "OnIf" -> OnIf(st, e)
    [] e.e = "OnSymbolicIf" -> OnSymbolicIf(st, e)
    [] e.e = "OnNot" -> OnNot(st, e)
    [] e.e = "OnBinaryLogical" -> OnBinaryLogical(st, e)
    [] e.e = "OnRelational" -> OnRelational(st, e)
    [] e.e = "OnLogicalCount" -> OnLogicalCount(st, e)
    [] e.e = "OnImplication" -> OnImplication(st, e)
    [] e.e = "BeginCall" -> BeginCall(st, e)
    [] e.e = "EndCall" -> End(st, e, "call", "num")
    [] e.e = "BeginVarArg" -> BeginVarArg(st, e)
    [] e.e = "EndVarArg" -> End(st, e, "vararg", "num")
    [] e.e = "BeginSum" -> BeginSum(st, e)
    [] e.e = "EndSum" -> End(st, e, "sum", "num")
    [] e.e = "BeginCount" -> BeginCount(st, e)
    [] e.e = "EndCount" -> End(st, e, "count", "count")
    [] e.e = "BeginNumberOf" -> BeginNumberOfX(st, e, "numberof", "num")
    [] e.e = "EndNumberOf" -> End(st, e, "numberof", "num")
    [] e.e = "BeginSymbolicNumberOf" -> BeginNumberOfX(st, e, "numberofsym", "sym")
    [] e.e = "EndSymbolicNumberOf" -> End(st, e, "numberofsym", "num")
    [] e.e = "BeginIteratedLogical" -> BeginIteratedLogical(st, e)
    [] e.e = "EndIteratedLogical" -> End(st, e, "iterlog", "log")
    [] e.e = "BeginPairwise" -> BeginPairwise(st, e)
    [] e.e = "EndPairwise" -> End(st, e, "pairwise", "log")
    [] e.e = "BeginPLTerm" -> BeginPLTerm(st, e)
    [] e.e = "AddSlope" -> AddSlope(st, e)
    [] e.e = "AddBreakpoint" -> AddBreakpoint(st, e)
    [] e.e = "EndPLTerm" -> EndPLTerm(st, e)
    [] e.e = "EndInput" -> EndInput(st, e)
    [] e.e = "Throw" -> Throw(st, e)
    [] OTHER -> Rej(st, "unknown event " \o e.e)

Enabled(st, e) == Step(st, e).ph # "rej"

\* Run a whole execution.  Result: [st, at]: the final state and the index of
\* the first event that was not enabled (0 = all enabled).
RECURSIVE RunFrom(_, _, _)
RunFrom(st, evs, i) ==
  IF i > Len(evs) THEN [st |-> st, at |-> 0]
  ELSE LET s2 == Step(st, evs[i]) IN
       IF s2.ph = "rej" THEN [st |-> s2, at |-> i] ELSE RunFrom(s2, evs, i + 1)
Run(evs) == RunFrom(Init0, evs, 1)
=============================================================================
