------------------------------- MODULE ValCvt -------------------------------
(* The value presolver (include/mp/valcvt*.h) as a state machine.             *)
(* Nodes hold integer arrays; the link list is an ordered chain of entries    *)
(*   Copy(src range, dest range)            overwrite                         *)
(*   One2Many(src index, dest range)        distribute / collect              *)
(*   Many2One(src range, dest index)        distribute / collect              *)
(*   Range2Slack(con src, con target, slack var)                              *)
(* A presolve transfer cleans all nodes, stores the input in the source       *)
(* terminal nodes and runs the entries forwards; a postsolve transfer cleans, *)
(* stores into the destination terminals and runs the entries backwards.      *)
(* Writes other than Copy use the conflict rule of ValueNode::SetNum:         *)
(* keep the larger of two non-zero values, a non-zero value beats zero.       *)
EXTENDS Integers, Sequences, FiniteSets

CONSTANTS NodeSize,      \* function: node name -> declared size
          Links,         \* sequence of entries (records, see below)
          SrcNodes, DestNodes,   \* terminal node names
          DoCleanUp      \* TRUE in the real design; FALSE = a design mutation for self-tests

Nodes == DOMAIN NodeSize
Zero(n) == [i \in 1..NodeSize[n] |-> 0]
Clean == [n \in Nodes |-> Zero(n)]

SetNum(old, v) == IF old # 0 THEN (IF v > old /\ v # 0 THEN v ELSE old) ELSE v

\* kinds of values: "sol" (duals etc.), "basis", "iis", "generic"
Low == 3  Upp == 4  Equ == 5
RevBasis(s) == IF s = Low THEN Upp ELSE IF s = Upp THEN Low ELSE s
RevIIS(s) == IF s = 1 THEN 3 ELSE IF s = 3 THEN 1 ELSE s

\* entry forms
\* [t |-> "copy", sn, s0, dn, d0, len]     (1-based start positions)
\* [t |-> "o2m",  sn, si, dn, d0, len]
\* [t |-> "m2o",  sn, s0, len, dn, di]
\* [t |-> "r2s",  sn, si, dn, di, vn, vi]  (constraint src, constraint target, slack variable node)
Put(vals, n, i, v) == [vals EXCEPT ![n][i] = v]
Set(vals, n, i, v) == [vals EXCEPT ![n][i] = SetNum(vals[n][i], v)]

RECURSIVE CopyRange(_, _, _, _, _, _)
CopyRange(vals, fn, f0, tn, t0, len) ==
  IF len = 0 THEN vals ELSE CopyRange(Put(vals, tn, t0, vals[fn][f0]), fn, f0 + 1, tn, t0 + 1, len - 1)
RECURSIVE SetMany(_, _, _, _, _)
SetMany(vals, tn, t0, len, v) ==
  IF len = 0 THEN vals ELSE SetMany(Set(vals, tn, t0, v), tn, t0 + 1, len - 1, v)
RECURSIVE CollectMany(_, _, _, _, _, _)
CollectMany(vals, tn, ti, fn, f0, len) ==
  IF len = 0 THEN vals ELSE CollectMany(Set(vals, tn, ti, vals[fn][f0]), tn, ti, fn, f0 + 1, len - 1)

Fwd(vals, e, kind) ==
  CASE e.t = "copy" -> CopyRange(vals, e.sn, e.s0, e.dn, e.d0, e.len)
    [] e.t = "o2m" -> SetMany(vals, e.dn, e.d0, e.len, vals[e.sn][e.si])
    [] e.t = "m2o" -> CollectMany(vals, e.dn, e.di, e.sn, e.s0, e.len)
    [] e.t = "r2s" ->
         LET v == vals[e.sn][e.si]
         IN CASE kind = "basis" -> Set(Set(vals, e.vn, e.vi, RevBasis(v)), e.dn, e.di, Equ)
              [] kind = "iis" -> vals
              [] kind = "sol" -> Set(vals, e.dn, e.di, v)      \* the slack itself is computed from the body
              [] OTHER -> Set(Set(vals, e.dn, e.di, v), e.vn, e.vi, v)
Bwd(vals, e, kind) ==
  CASE e.t = "copy" -> CopyRange(vals, e.dn, e.d0, e.sn, e.s0, e.len)
    [] e.t = "o2m" -> CollectMany(vals, e.sn, e.si, e.dn, e.d0, e.len)
    [] e.t = "m2o" -> SetMany(vals, e.sn, e.s0, e.len, vals[e.dn][e.di])
    [] e.t = "r2s" ->
         CASE kind = "basis" -> Set(vals, e.sn, e.si, RevBasis(vals[e.vn][e.vi]))
           [] kind = "iis" -> IF vals[e.vn][e.vi] # 0 THEN Set(vals, e.sn, e.si, RevIIS(vals[e.vn][e.vi]))
                              ELSE Set(vals, e.sn, e.si, vals[e.dn][e.di])
           [] kind = "sol" -> Set(vals, e.sn, e.si, vals[e.dn][e.di])
           [] OTHER -> Set(Set(vals, e.sn, e.si, vals[e.dn][e.di]), e.sn, e.si, vals[e.vn][e.vi])

RECURSIVE RunFwd(_, _, _), RunBwd(_, _, _)
RunFwd(vals, i, kind) == IF i > Len(Links) THEN vals ELSE RunFwd(Fwd(vals, Links[i], kind), i + 1, kind)
RunBwd(vals, i, kind) == IF i = 0 THEN vals ELSE RunBwd(Bwd(vals, Links[i], kind), i - 1, kind)

\* store input vectors (a function terminal node -> sequence, cut / zero-extended to the node size)
Load(vals, terms, inp) ==
  [n \in Nodes |-> IF n \in terms THEN [i \in 1..NodeSize[n] |-> IF i <= Len(inp[n]) THEN inp[n][i] ELSE 0] ELSE vals[n]]

Presolve(vals, kind, inp) == RunFwd(Load(IF DoCleanUp THEN Clean ELSE vals, SrcNodes, inp), 1, kind)
Postsolve(vals, kind, inp) == RunBwd(Load(IF DoCleanUp THEN Clean ELSE vals, DestNodes, inp), Len(Links), kind)
=============================================================================
