-------------------------------- MODULE Graph --------------------------------
(* Property C20: the exported reformulation graph (cvt:writegraph) as an      *)
(* event log.  One action per record kind; the state is what has been         *)
(* declared so far.  A record that refers to something not declared yet, a    *)
(* second status for a constraint, a link range outside its item class, or a  *)
(* final set different from what the solver API received is a violation.      *)
(* Records are normalised by the recorder to                                   *)
(*   [k |-> "var", i, nl]            VAR_index (first occurrence = declaration)*)
(*   [k |-> "nlobj"/"obj"/"nlcon", i]                                          *)
(*   [k |-> "con", t, i, vars]       CON_TYPE creation (vars = variables used) *)
(*   [k |-> "status", t, i, unused, bridged, final]                            *)
(*   [k |-> "group", t, g]           CON_GROUP                                 *)
(*   [k |-> "link", src, dest]       node ranges [n, lo, hi]                   *)
(*   [k |-> "badjson"] / "comment" / "other"                                   *)
EXTENDS Integers, Sequences, FiniteSets

Empty == [nvar |-> 0, nvarnl |-> 0, nnlobj |-> 0, nobj |-> 0, nnlcon |-> 0,
          cons |-> {}, status |-> {}, finals |-> <<>>, groups |-> {}, links |-> <<>>, bad |-> {}]

Count(st, t) == Cardinality({c \in st.cons : c[1] = t})
AddBad(st, tag) == [st EXCEPT !.bad = @ \cup {tag}]

Apply(st, r) ==
  CASE r.k = "var" ->
         IF r.i < st.nvar THEN st                                   \* later update of a declared variable
         ELSE IF r.i = st.nvar THEN [st EXCEPT !.nvar = @ + 1, !.nvarnl = @ + r.nl]
         ELSE AddBad(st, <<"var-gap", r.i>>)
    [] r.k = "nlobj" -> IF r.i = st.nnlobj THEN [st EXCEPT !.nnlobj = @ + 1] ELSE IF r.i < st.nnlobj THEN st ELSE AddBad(st, <<"nlobj-gap", r.i>>)
    [] r.k = "obj" -> IF r.i = st.nobj THEN [st EXCEPT !.nobj = @ + 1] ELSE IF r.i < st.nobj THEN st ELSE AddBad(st, <<"obj-gap", r.i>>)
    [] r.k = "nlcon" -> IF r.i = st.nnlcon THEN [st EXCEPT !.nnlcon = @ + 1] ELSE AddBad(st, <<"nlcon-order", r.i>>)
    [] r.k = "con" ->
         LET s1 == IF r.i = Count(st, r.t) THEN [st EXCEPT !.cons = @ \cup {<<r.t, r.i>>}] ELSE AddBad(st, <<"con-index", r.t, r.i>>)
         IN IF \E j \in 1..Len(r.vars) : r.vars[j] >= st.nvar \/ r.vars[j] < 0
              THEN AddBad(s1, <<"con-before-var", r.t, r.i>>) ELSE s1
    [] r.k = "status" ->
         LET key == <<r.t, r.i>>
             s1 == IF key \notin st.cons THEN AddBad(st, <<"status-unknown-con", r.t, r.i>>)
                   ELSE IF key \in st.status THEN AddBad(st, <<"status-twice", r.t, r.i>>)
                   ELSE [st EXCEPT !.status = @ \cup {key}]
             s2 == IF r.final = 1 THEN [s1 EXCEPT !.finals = Append(@, key)] ELSE s1
         IN IF (r.final = 1) # (r.bridged = 0 /\ r.unused = 0) THEN AddBad(s2, <<"status-inconsistent", r.t, r.i>>) ELSE s2
    [] r.k = "group" -> [st EXCEPT !.groups = @ \cup {<<r.t, r.g>>}]
    [] r.k = "link" -> [st EXCEPT !.links = Append(@, r)]
    [] r.k = "badjson" -> AddBad(st, <<"bad-json", r.line>>)
    [] r.k = "comment" -> st
    [] OTHER -> AddBad(st, <<"unknown-record", r.k>>)

\* final checks, given what the solver API received: api = [nvars, nobjs, cons : Seq([g, vars])]
\* and the NL header: hdr = [nv, ncons (algebraic + logical), nobj (objectives used)]
NodeSize(st, api, n) ==
  CASE n = "src_vars()" -> st.nvarnl
    [] n = "dest_vars()" -> st.nvar
    [] n = "src_cons()" -> st.nnlcon
    [] n = "src_objs()" -> st.nnlobj
    [] n = "dest_objs()" -> st.nobj
    [] OTHER -> -1
GroupOf(st, t) == IF \E p \in st.groups : p[1] = t THEN (CHOOSE p \in st.groups : p[1] = t)[2] ELSE -1
FinalsInGroup(st, g) == Cardinality({j \in 1..Len(st.finals) : GroupOf(st, st.finals[j][1]) = g})
RangeBad(st, api, rg) ==
  \* rg = [n, lo, hi, grp]; grp >= 0 for dest_cons(grp)
  LET size == IF rg.grp >= 0 THEN FinalsInGroup(st, rg.grp)
              ELSE IF NodeSize(st, api, rg.n) >= 0 THEN NodeSize(st, api, rg.n)
              ELSE Count(st, rg.n)                                  \* a constraint keeper's node
  IN rg.lo < 0 \/ rg.hi < rg.lo \/ rg.hi >= size
Finish(st, api, hdr, consvars) ==
  st.bad
  \cup {<<"link-range", j>> : j \in {j \in 1..Len(st.links) :
          \E q \in 1..Len(st.links[j].src) : RangeBad(st, api, st.links[j].src[q])}}
  \cup {<<"link-range", j>> : j \in {j \in 1..Len(st.links) :
          \E q \in 1..Len(st.links[j].dest) : RangeBad(st, api, st.links[j].dest[q])}}
  \* every delivered constraint is the target of an exported link into its group's solver-side node
  \cup {<<"delivered-con-unlinked", p[1], p[2]>> : p \in
          {p \in {g2[2] : g2 \in st.groups} \X (0..(Len(st.finals) - 1)) :
              /\ p[2] < FinalsInGroup(st, p[1])
              /\ ~\E q \in 1..Len(st.links) : \E d \in 1..Len(st.links[q].dest) :
                     st.links[q].dest[d].grp = p[1] /\ st.links[q].dest[d].lo <= p[2] /\ p[2] <= st.links[q].dest[d].hi}}
  \cup {<<"no-status", c[1], c[2]>> : c \in st.cons \ st.status}
  \cup (IF st.nvarnl # hdr.nv THEN {<<"nl-vars-missing", st.nvarnl>>} ELSE {})
  \cup (IF st.nnlcon # hdr.ncons THEN {<<"nl-cons-missing", st.nnlcon>>} ELSE {})
  \cup (IF st.nnlobj # hdr.nobj THEN {<<"nl-objs-missing", st.nnlobj>>} ELSE {})
  \cup (IF st.nvar # api.nvars THEN {<<"delivered-vars", st.nvar>>} ELSE {})
  \cup (IF st.nobj # api.nobjs THEN {<<"delivered-objs", st.nobj>>} ELSE {})
  \cup (IF Len(st.finals) # Len(api.cons) THEN {<<"final-count", Len(st.finals)>>} ELSE {})
  \* the j-th constraint marked final is the j-th constraint handed to the API: same group, same variables
  \cup {<<"final-mismatch", j>> : j \in {j \in 1..Len(st.finals) : j <= Len(api.cons) /\
          (GroupOf(st, st.finals[j][1]) # api.cons[j].g \/ st.finals[j] \notin DOMAIN consvars
           \/ consvars[st.finals[j]] # api.cons[j].vars)}}
=============================================================================
