CONSTANTS
  NodeSize <- TheNodeSize
  Links <- TheLinks
  SrcNodes = {"svar", "scon"}
  DestNodes = {"dvar", "dcon"}
  DoCleanUp = FALSE
SPECIFICATION Spec
INVARIANT HistoryIndependent
INVARIANT VarsIntact
INVARIANT RowsIntact
INVARIANT ImagesGetInput
CHECK_DEADLOCK FALSE
