------------------------------ MODULE TraceNames ------------------------------
EXTENDS Names, Json, IOUtils, TLC
Lines == ndJsonDeserialize(IOEnv.TRACE)
VARIABLES l
E == Lines[l]
Init == l = 1
Next == /\ l <= Len(Lines) /\ l' = l + 1
        /\ IF E.e = "Case" THEN PrintT(<<"VERDICT", ToJson([id |-> E.id, wrong |-> WrongNames(E), active |-> Active(E.mode, E.col, E.rowf)])>>)
           ELSE E.e = "Meta" \/ PrintT(<<"VERDICT", ToJson([id |-> -1, wrong |-> {<<"crash", 0>>}, active |-> FALSE])>>)
Spec == Init /\ [][Next]_<<l>>
Finished == (l = Len(Lines) + 1) => PrintT(<<"DONE", ToJson([n |-> Len(Lines)])>>)
=============================================================================
