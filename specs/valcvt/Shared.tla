------------------------------- MODULE Shared -------------------------------
(* C04, clause "a value returns to the original items it came from" for a     *)
(* flat constraint that several original constraints share: when two or three *)
(* constraints of the NL model contain the same functional expression f(x),   *)
(* the converter keeps ONE flat constraint for it and every one of those      *)
(* constraints is a source of it (include/mp/flat/convert_functional.h,       *)
(* autolinking on a hit in the expression map).  A solver answer that flags   *)
(* exactly the flat constraint(s) of f in the IIS must come back as a non-zero *)
(* .iis on every original constraint that contains f and on no other.         *)
(*                                                                            *)
(* A case: which of the three rows contain f, which contain another function  *)
(* g (whose flat constraint is not flagged).  GenShared enumerates them;      *)
(* TraceShared judges the .iis suffix of the real driver's .sol file.         *)
EXTENDS Integers, Sequences, FiniteSets
Funcs == {"abs", "max", "min", "exp"}
UsePatterns == {u \in [1..3 -> BOOLEAN] : \E k \in 1..3 : u[k]}
GPatterns == {[k \in 1..3 |-> FALSE], [k \in 1..3 |-> k = 1], [k \in 1..3 |-> k = 3]}
Cases == [f : Funcs, uses : UsePatterns, g : GPatterns]

\* judgement of one run: iis[k] is the .iis value the original constraint k got back (0 = none)
Wrong(c, iis, nflagged) ==
  (IF nflagged >= 1 THEN {} ELSE {"nothing-flagged"}) \cup
  {IF c.uses[k] THEN "lost" ELSE "stray" : k \in {k \in 1..3 : c.uses[k] # (iis[k] # 0)}}
=============================================================================
