------------------------------ MODULE GenShared ------------------------------
EXTENDS Shared, TLC, Json
VARIABLE c
Init == c \in Cases
Next == UNCHANGED c
Emit == PrintT(<<"CASE", ToJson([f |-> c.f, uses |-> [k \in 1..3 |-> c.uses[k]], g |-> [k \in 1..3 |-> c.g[k]]])>>)
=============================================================================
