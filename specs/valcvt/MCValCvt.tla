------------------------------ MODULE MCValCvt ------------------------------
(* Bounded design check of the value presolver on a conversion graph that has *)
(* every entry kind: two original variables copied through; three original    *)
(* constraints of which c1 is passed on unchanged, c2 (a range) becomes an    *)
(* equality plus slack variable, and c3 is redefined into two rows (One2Many);*)
(* an objective.  History: any sequence of <= 3 transfers of any kind and     *)
(* direction with values from a small set.                                    *)
EXTENDS ValCvt, TLC
VARIABLES vals, hist, last, fresh
vars == <<vals, hist, last, fresh>>
TheNodeSize == [svar |-> 2, scon |-> 3, fvar |-> 3, fcon |-> 3, frow |-> 4, dvar |-> 3, dcon |-> 4]
TheLinks == <<
  [t |-> "copy", sn |-> "svar", s0 |-> 1, dn |-> "fvar", d0 |-> 1, len |-> 2],
  [t |-> "copy", sn |-> "scon", s0 |-> 1, dn |-> "fcon", d0 |-> 1, len |-> 3],
  [t |-> "copy", sn |-> "fcon", s0 |-> 1, dn |-> "frow", d0 |-> 1, len |-> 1],
  [t |-> "r2s",  sn |-> "fcon", si |-> 2, dn |-> "frow", di |-> 2, vn |-> "fvar", vi |-> 3],
  [t |-> "o2m",  sn |-> "fcon", si |-> 3, dn |-> "frow", d0 |-> 3, len |-> 2],
  [t |-> "copy", sn |-> "fvar", s0 |-> 1, dn |-> "dvar", d0 |-> 1, len |-> 3],
  [t |-> "copy", sn |-> "frow", s0 |-> 1, dn |-> "dcon", d0 |-> 1, len |-> 4] >>
Kinds == {"sol", "basis", "iis", "generic"}
V == {0, 3, 4}
\* input vectors per terminal: empty, or any vector of the node's size (a few longer ones are added below)
Vecs(n) == {<<>>} \cup [1..NodeSize[n] -> V] \cup {[i \in 1..(NodeSize[n] + 1) |-> 4]}
Ins(terms) == IF terms = DestNodes THEN {[dvar |-> a, dcon |-> b] : a \in Vecs("dvar"), b \in Vecs("dcon")}
                                     ELSE {[svar |-> a, scon |-> b] : a \in Vecs("svar"), b \in Vecs("scon")}
InsOK(terms, inp) == TRUE
\* first transfer of a history: a small menu that leaves every node non-zero
Full(terms) == [n \in terms |-> [i \in 1..NodeSize[n] |-> 4]]

Init == vals = Clean /\ hist = 0 /\ last = <<>> /\ fresh = Clean
DoPost == \E k \in Kinds, inp \in Ins(DestNodes) :
            /\ InsOK(DestNodes, inp) /\ (hist = 0 => inp = Full(DestNodes))
            /\ hist < 2 /\ hist' = hist + 1
            /\ vals' = Postsolve(vals, k, inp)
            /\ fresh' = RunBwd(Load(Clean, DestNodes, inp), Len(Links), k)     \* the same transfer from the initial state
            /\ last' = <<"post", k, inp>>
DoPre == \E k \in Kinds, inp \in Ins(SrcNodes) :
            /\ InsOK(SrcNodes, inp) /\ (hist = 0 => inp = Full(SrcNodes))
            /\ hist < 2 /\ hist' = hist + 1
            /\ vals' = Presolve(vals, k, inp)
            /\ fresh' = RunFwd(Load(Clean, SrcNodes, inp), 1, k)
            /\ last' = <<"pre", k, inp>>
Next == DoPost \/ DoPre \/ (hist = 2 /\ UNCHANGED vars)
Spec == Init /\ [][Next]_vars

\* every transfer is independent of the transfers performed before it
HistoryIndependent == vals = fresh
\* an original variable gets exactly the solver's value of its image (Copy chain)
VarsIntact == (last # <<>> /\ last[1] = "post") =>
   \A i \in 1..2 : vals["svar"][i] = (IF i <= Len(last[3]["dvar"]) THEN last[3]["dvar"][i] ELSE 0)
\* c1 (copied through) gets exactly its row's value; c2 (range -> slack) the documented mapping
RowsIntact == (last # <<>> /\ last[1] = "post") =>
   LET dcon == [i \in 1..4 |-> IF i <= Len(last[3]["dcon"]) THEN last[3]["dcon"][i] ELSE 0]
       dvar == [i \in 1..4 |-> IF i <= Len(last[3]["dvar"]) THEN last[3]["dvar"][i] ELSE 0]
   IN /\ vals["scon"][1] = dcon[1]
      /\ last[2] = "sol" => vals["scon"][2] = dcon[2]
      /\ last[2] = "basis" => vals["scon"][2] = RevBasis(dvar[3])
      /\ last[2] = "iis" => vals["scon"][2] = (IF dvar[3] # 0 THEN RevIIS(dvar[3]) ELSE dcon[2])
\* values sent to the solver land on the images
ImagesGetInput == (last # <<>> /\ last[1] = "pre") =>
   LET scon == [i \in 1..3 |-> IF i <= Len(last[3]["scon"]) THEN last[3]["scon"][i] ELSE 0]
       svar == [i \in 1..2 |-> IF i <= Len(last[3]["svar"]) THEN last[3]["svar"][i] ELSE 0]
   IN /\ \A i \in 1..2 : vals["dvar"][i] = svar[i]
      /\ vals["dcon"][1] = scon[1]
      /\ last[2] = "basis" => (vals["dcon"][2] = Equ /\ vals["dvar"][3] = RevBasis(scon[2]))
      /\ last[2] \in {"generic"} => (vals["dcon"][3] = scon[3] /\ vals["dcon"][4] = scon[3])
=============================================================================
