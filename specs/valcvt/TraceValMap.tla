----------------------------- MODULE TraceValMap -----------------------------
(* One record per driver run: original linear constraints, delivered rows and *)
(* variables, the scripted answer, and what came back / what the solver got.  *)
EXTENDS ValMap, Json, IOUtils, TLC
Lines == ndJsonDeserialize(IOEnv.TRACE)
VARIABLES l
E == Lines[l]

Wrong(c) ==
  LET n0 == c.n0   nc == Len(c.ocons)
      im(i) == Image(c.ocons[i], c.rows, c.vars, n0)
      lin(i) == c.ocons[i].linear
      o == c.out   a == c.ans   g == c.got   inp == c.inp
  IN
  {<<"ambiguous", i>> : i \in {i \in 1..nc : lin(i) /\ ~Unambiguous(c.ocons[i], c.rows, c.vars, n0)}}
  \* (a row without finite bounds is not posted: it has no image and carries no demand)
  \cup {<<"noimage", i>> : i \in {i \in 1..nc : lin(i) /\ im(i).kind = "none" /\ ~(c.ocons[i].lb = -Inf /\ c.ocons[i].ub = Inf)}}
  \* exactly one value per original variable / constraint
  \cup (IF o.hasPrimal /\ Len(o.primal) # n0 THEN {<<"nprimal", Len(o.primal)>>} ELSE {})
  \cup (IF o.hasDual /\ Len(o.dual) # nc THEN {<<"ndual", Len(o.dual)>>} ELSE {})
  \cup {<<"primal", i>> : i \in {i \in 1..n0 : o.hasPrimal /\ Len(o.primal) = n0 /\ o.primal[i] # ExpPrimal(i, a)}}
  \cup {<<"dual", i>> : i \in {i \in 1..nc : o.hasDual /\ Len(o.dual) = nc /\ lin(i) /\ im(i).kind # "none" /\ o.dual[i] # ExpDual(im(i), a)}}
  \cup {<<"varstatus", i>> : i \in {i \in 1..n0 : o.hasBasis /\ At(o.varstt, i, 0) # At(a.varstt, i, 0)}}
  \cup {<<"constatus", i>> : i \in {i \in 1..nc : o.hasBasis /\ lin(i) /\ im(i).kind # "none" /\ At(o.constt, i, 0) # ExpConStatus(im(i), a)}}
  \cup {<<"variis", i>> : i \in {i \in 1..n0 : o.hasIIS /\ At(o.variis, i, 0) # At(a.variis, i, 0)}}
  \cup {<<"coniis", i>> : i \in {i \in 1..nc : o.hasIIS /\ lin(i) /\ im(i).kind # "none" /\ At(o.coniis, i, 0) # ExpConIIS(im(i), a)}}
  \* values sent to the solver land on the images
  \cup {<<"start", i>> : i \in {i \in 1..n0 : g.hasStart /\ At(g.x0, i, -777) # inp.x0[i]}}
  \cup {<<"pri", i>> : i \in {i \in 1..n0 : g.hasPri /\ At(g.pri, i, -777) # inp.pri[i]}}
  \cup {<<"basisin-var", i>> : i \in {i \in 1..n0 : g.hasBasis /\ At(g.varstt, i, -777) # inp.varstt[i]}}
  \cup {<<"basisin-row", i>> : i \in {i \in 1..nc : g.hasBasis /\ lin(i) /\ im(i).kind # "none" /\ At(g.constt, im(i).j, -777) # ExpRowStatusIn(im(i), inp.constt[i])}}
  \cup {<<"basisin-slack", i>> : i \in {i \in 1..nc : g.hasBasis /\ lin(i) /\ im(i).kind = "slack" /\ At(g.varstt, im(i).s, -777) # ExpSlackStatusIn(inp.constt[i])}}
  \cup {<<"dualstart", i>> : i \in {i \in 1..nc : g.hasDualStart /\ lin(i) /\ im(i).kind # "none" /\ At(g.y0, im(i).j, -777) # inp.y0[i]}}
  \cup {<<"lazy", i>> : i \in {i \in 1..nc : g.hasLazy /\ lin(i) /\ im(i).kind # "none" /\ At(g.lazy, im(i).j, -777) # inp.lazy[i]}}

\* ---- histories of direct pre-/postsolve calls on one converted model (API level).
\* x = [dir, kind, inVars, inCons, outVars, outCons, threw]; for "post" inCons/outVars.. are solver-side in,
\* original-side out; for "pre" the other way round.  Every output must be the function of ITS OWN input
\* that ValMap states - whatever was transferred before.
Clamp(v, lo, hi) == IF v < lo THEN lo ELSE IF v > hi THEN hi ELSE v
XferWrong(c, n) ==
  LET x == c.hist[n]   n0 == c.n0   nc == Len(c.ocons)
      im(i) == Image(c.ocons[i], c.rows, c.vars, n0)
      lin(i) == c.ocons[i].linear /\ im(i).kind # "none"
      ansLike == [x |-> x.inVars, y |-> x.inCons, varstt |-> x.inVars, constt |-> x.inCons, variis |-> x.inVars, coniis |-> x.inCons]
  IN IF x.threw THEN {<<"xfer-threw", n, 0>>}
     ELSE IF x.dir = "post" THEN
       {<<"xfer-var", n, i>> : i \in {i \in 1..n0 : At(x.outVars, i, 0) # At(x.inVars, i, 0)}}
       \cup {<<"xfer-con", n, i>> : i \in {i \in 1..nc : lin(i) /\
               CASE x.kind \in {"sol"} -> At(x.outCons, i, 0) # ExpDual(im(i), ansLike)
                 [] x.kind = "basis" -> At(x.outCons, i, 0) # ExpConStatus(im(i), ansLike)
                 [] x.kind = "iis" -> At(x.outCons, i, 0) # ExpConIIS(im(i), ansLike)
                 [] x.kind \in {"gint", "gdbl"} -> im(i).kind = "row" /\ At(x.outCons, i, 0) # At(x.inCons, im(i).j, 0)
                 [] OTHER -> FALSE}}
     ELSE
       \* a warm start is moved into the variable's bounds (ValuePresolver::PresolveSolution), other kinds pass unchanged
       {<<"xfer-var", n, i>> : i \in {i \in 1..n0 :
           At(x.outVars, i, 0) # (IF x.kind = "sol" THEN Clamp(At(x.inVars, i, 0), c.vars[i].lb, c.vars[i].ub) ELSE At(x.inVars, i, 0))}}
       \cup {<<"xfer-row", n, i>> : i \in {i \in 1..nc : lin(i) /\
               CASE x.kind \in {"sol", "lazy", "gint", "gdbl"} -> At(x.outCons, im(i).j, 0) # At(x.inCons, i, 0)
                 [] x.kind = "basis" -> At(x.outCons, im(i).j, 0) # ExpRowStatusIn(im(i), At(x.inCons, i, 0))
                 [] OTHER -> FALSE}}
       \cup {<<"xfer-slack", n, i>> : i \in {i \in 1..nc : lin(i) /\ im(i).kind = "slack" /\
               CASE x.kind = "basis" -> At(x.outVars, im(i).s, 0) # ExpSlackStatusIn(At(x.inCons, i, 0))
                 [] x.kind \in {"gint", "gdbl"} -> At(x.outVars, im(i).s, 0) # At(x.inCons, i, 0)
                 [] OTHER -> FALSE}}
HistWrong(c) == UNION {XferWrong(c, n) : n \in 1..Len(c.hist)}

Init == l = 1
Next == /\ l <= Len(Lines) /\ l' = l + 1
        /\ IF E.e = "Case" THEN PrintT(<<"VERDICT", ToJson([id |-> E.id, wrong |-> Wrong(E)])>>)
           ELSE IF E.e = "Hist" THEN PrintT(<<"VERDICT", ToJson([id |-> E.id, wrong |-> HistWrong(E)])>>)
           ELSE E.e = "Meta" \/ PrintT(<<"VERDICT", ToJson([id |-> -1, wrong |-> {<<"crash", 0>>}])>>)
Spec == Init /\ [][Next]_<<l>>
Finished == (l = Len(Lines) + 1) => PrintT(<<"DONE", ToJson([n |-> Len(Lines)])>>)
=============================================================================
