------------------------------- MODULE ValMap -------------------------------
(* Property C04, end-to-end part: what the modelling system gets back (and    *)
(* what the solver gets) for the items of the ORIGINAL model, as a function   *)
(* of the delivered model and the solver's answer only.                       *)
(*                                                                            *)
(* Original variables are the first n0 delivered variables.  An original      *)
(* linear constraint i (body B, range [l,u]) reaches the solver either as a   *)
(* row with the same body and range ("row" image), or - when ranges are not   *)
(* accepted - as the equality  B + s = u  with a slack s in [0, u-l]          *)
(* ("slack" image).  The image is found structurally, by comparing bodies.    *)
EXTENDS Integers, Sequences, FiniteSets

Inf == 500000000
\* basis statuses and IIS statuses (mp/common.h)
None == 0  Bas == 1  Sup == 2  Low == 3  Upp == 4  Equ == 5  Btw == 6
IISNon == 0  IISLow == 1  IISFix == 2  IISUpp == 3
RevBasis(s) == IF s = Low THEN Upp ELSE IF s = Upp THEN Low ELSE s
RevIIS(s) == IF s = IISLow THEN IISUpp ELSE IF s = IISUpp THEN IISLow ELSE s

\* bodies are sets of <<var, coef>> (integer data); rows = delivered linear-group rows in solver order
BodySet(lin) == {<<lin[j][1], lin[j][2]>> : j \in 1..Len(lin)}

\* image of original constraint c = [lin, lb, ub] among delivered rows r = [lin, lb, ub] and delivered vars v = [lb, ub]
RowImages(c, rows) == {j \in 1..Len(rows) : BodySet(rows[j].lin) = BodySet(c.lin) /\ rows[j].lb = c.lb /\ rows[j].ub = c.ub}
SlackImages(c, rows, vars, n0) ==
  {<<j, s>> \in (1..Len(rows)) \X ((n0 + 1)..Len(vars)) :
     /\ c.lb > -Inf /\ c.ub < Inf /\ c.lb < c.ub
     /\ BodySet(rows[j].lin) = BodySet(c.lin) \cup {<<s - 1, 1>>}
     /\ rows[j].lb = c.ub /\ rows[j].ub = c.ub
     /\ vars[s].lb = 0 /\ vars[s].ub = c.ub - c.lb}
Image(c, rows, vars, n0) ==
  IF RowImages(c, rows) # {} THEN [kind |-> "row", j |-> CHOOSE j \in RowImages(c, rows) : TRUE, s |-> 0]
  ELSE IF SlackImages(c, rows, vars, n0) # {}
    THEN LET p == CHOOSE p \in SlackImages(c, rows, vars, n0) : TRUE IN [kind |-> "slack", j |-> p[1], s |-> p[2]]
  ELSE [kind |-> "none", j |-> 0, s |-> 0]
\* the structural match is unambiguous in the generated models (distinct bodies)
Unambiguous(c, rows, vars, n0) == Cardinality(RowImages(c, rows)) + Cardinality(SlackImages(c, rows, vars, n0)) <= 1

At(seq, j, dflt) == IF j >= 1 /\ j <= Len(seq) THEN seq[j] ELSE dflt

\* ---- solver -> modelling system (postsolve).  ans = [x, y, varstt, constt, variis, coniis] for the
\* delivered variables / linear rows (sequences, possibly shorter / longer than the model / empty)
ExpPrimal(i, ans) == At(ans.x, i, 0)
ExpDual(im, ans) == At(ans.y, im.j, 0)
ExpConStatus(im, ans) == IF im.kind = "row" THEN At(ans.constt, im.j, 0) ELSE RevBasis(At(ans.varstt, im.s, 0))
ExpConIIS(im, ans) ==
  IF im.kind = "row" THEN At(ans.coniis, im.j, 0)
  ELSE IF At(ans.variis, im.s, 0) # 0 THEN RevIIS(At(ans.variis, im.s, 0)) ELSE At(ans.coniis, im.j, 0)

\* ---- modelling system -> solver (presolve).  in = [x0, varstt, constt, pri, lazy] for ORIGINAL items
ExpRowStatusIn(im, st) == IF im.kind = "row" THEN st ELSE Equ
ExpSlackStatusIn(st) == RevBasis(st)
=============================================================================
