------------------------------- MODULE GenVal -------------------------------
(* Cases for C04 / C19 / C20: small models whose linear rows have distinct    *)
(* bodies, of every row kind and order, optionally with a nonlinear and a     *)
(* logical constraint (so that several conversion levels exist), crossed with *)
(* how ranges reach the solver and which transfers the run performs.          *)
EXTENDS Integers, Sequences, FiniteSets, TLC, Json
Kinds == {"range", "le", "ge", "eq",
          "free"}        \* a linear row without finite bounds: nothing is posted for it
RowSeqs == UNION {[1..n -> Kinds] : n \in 2..4}
Extras == {"none", "abs", "logic", "abs+logic",
           "fixmaxc"}      \* a variable fixed by its bounds at 3 and the constant 3 as an operand of max(): the converter
                           \* makes a column for the constant - which must not be the user's fixed variable
RangeModes == {"native", "slack", "linear"}
Transfers == {"sol", "sol+basis", "iis", "inputs", "all"}
VARIABLES rows, extra, rmode, tr
Init == rows \in RowSeqs /\ extra \in Extras /\ rmode \in RangeModes /\ tr \in Transfers
Next == UNCHANGED <<rows, extra, rmode, tr>>
Emit == PrintT(<<"CASE", ToJson([rows |-> rows, extra |-> extra, rmode |-> rmode, tr |-> tr])>>)
=============================================================================
