------------------------------ MODULE MCGraph ------------------------------
(* Design check for Graph.tla: an abstract converter that declares items,     *)
(* reformulates constraints (registering links that are exported lazily),     *)
(* pushes the model (one status record per stored constraint, final ones are  *)
(* handed to the API in the same order) always produces a log that Finish     *)
(* accepts; and the check is not vacuous (EventuallyDone).                    *)
EXTENDS Graph, TLC
CONSTANTS MaxVars, MaxCons
VARIABLES st, cv, log, pending, bridged, api, pc, ndeliv
vars == <<st, cv, log, pending, bridged, api, pc, ndeliv>>
\* ndeliv: number of constraints delivered so far per group
Types == {"_a", "_b"}
GroupFn(t) == IF t = "_a" THEN 3 ELSE 6
Emit(r) == /\ st' = Apply(st, r) /\ log' = Append(log, r)
Init == /\ st = Empty /\ cv = [x \in {} |-> <<>>] /\ log = <<>> /\ pending = <<>> /\ bridged = {}
        /\ api = [nvars |-> 0, nobjs |-> 0, cons |-> <<>>] /\ pc = "build" /\ ndeliv = [g \in {3, 6} |-> 0]
DeclVar == /\ pc = "build" /\ st.nvar < MaxVars
           /\ Emit([k |-> "var", i |-> st.nvar, nl |-> IF st.nvar < 2 THEN 1 ELSE 0])
           /\ UNCHANGED <<cv, pending, bridged, api, pc, ndeliv>>
DeclCon == \E t \in Types, v \in 0..(MaxVars - 1) :
           /\ pc = "build" /\ Cardinality(st.cons) < MaxCons /\ v < st.nvar
           /\ Emit([k |-> "con", t |-> t, i |-> Count(st, t), vars |-> <<v>>])
           /\ cv' = [x \in DOMAIN cv \cup {<<t, Count(st, t)>>} |-> IF x = <<t, Count(st, t)>> THEN <<v>> ELSE cv[x]]
           /\ UNCHANGED <<pending, bridged, api, pc, ndeliv>>
\* reformulate a stored "_b" constraint into a new "_a" constraint; the link is only registered
Convert == \E c \in st.cons \ bridged :
           /\ pc = "build" /\ c[1] = "_b" /\ Cardinality(st.cons) < MaxCons
           /\ Emit([k |-> "con", t |-> "_a", i |-> Count(st, "_a"), vars |-> cv[c]])
           /\ cv' = [x \in DOMAIN cv \cup {<<"_a", Count(st, "_a")>>} |-> IF x = <<"_a", Count(st, "_a")>> THEN cv[c] ELSE cv[x]]
           /\ bridged' = bridged \cup {c}
           /\ pending' = Append(pending, [k |-> "link", src |-> <<[n |-> "_b", lo |-> c[2], hi |-> c[2], grp |-> -1]>>,
                                          dest |-> <<[n |-> "_a", lo |-> Count(st, "_a"), hi |-> Count(st, "_a"), grp |-> -1]>>])
           /\ UNCHANGED <<api, pc, ndeliv>>
Flush == /\ pending # <<>> /\ Emit(Head(pending)) /\ pending' = Tail(pending) /\ UNCHANGED <<cv, bridged, api, pc, ndeliv>>
StartPush == /\ pc = "build" /\ pending = <<>> /\ pc' = "push"
             /\ Emit([k |-> "group", t |-> "_a", g |-> 3]) /\ UNCHANGED <<cv, pending, bridged, api, ndeliv>>
Group2 == /\ pc = "push" /\ pc' = "status" /\ Emit([k |-> "group", t |-> "_b", g |-> 6]) /\ UNCHANGED <<cv, pending, bridged, api, ndeliv>>
\* statuses in keeper order: all "_a" by index, then all "_b"
NextToPush == LET todo == st.cons \ st.status
              IN CHOOSE c \in todo : \A d \in todo : (c[1] = "_a" /\ d[1] = "_b") \/ (c[1] = d[1] /\ c[2] <= d[2])
PushOne == /\ pc = "status" /\ st.cons \ st.status # {} /\ pending = <<>>
           /\ LET c == NextToPush  fin == IF c \in bridged THEN 0 ELSE 1
              IN /\ Emit([k |-> "status", t |-> c[1], i |-> c[2], unused |-> 0, bridged |-> 1 - fin, final |-> fin])
                 /\ api' = IF fin = 1 THEN [api EXCEPT !.cons = Append(@, [g |-> GroupFn(c[1]), vars |-> cv[c]])] ELSE api
                 /\ ndeliv' = IF fin = 1 THEN [ndeliv EXCEPT ![GroupFn(c[1])] = @ + 1] ELSE ndeliv
                 /\ pending' = IF fin = 1
                      THEN <<[k |-> "link", src |-> <<[n |-> c[1], lo |-> c[2], hi |-> c[2], grp |-> -1]>>,
                              dest |-> <<[n |-> "dest_cons", lo |-> ndeliv[GroupFn(c[1])], hi |-> ndeliv[GroupFn(c[1])], grp |-> GroupFn(c[1])]>>]>>
                      ELSE pending
           /\ UNCHANGED <<cv, bridged, pc>>
Done == /\ pc = "status" /\ st.cons \ st.status = {} /\ pending = <<>> /\ pc' = "done"
        /\ api' = [api EXCEPT !.nvars = st.nvar] /\ UNCHANGED <<st, cv, log, pending, bridged, ndeliv>>
Next == DeclVar \/ DeclCon \/ Convert \/ Flush \/ StartPush \/ Group2 \/ PushOne \/ Done \/ (pc = "done" /\ UNCHANGED vars)
Spec == Init /\ [][Next]_vars /\ WF_vars(Next)
Accepted == pc = "done" => Finish(st, api, [nv |-> IF st.nvar < 2 THEN st.nvar ELSE 2, ncons |-> 0, nobj |-> 0], cv) = {}
NoBadOnTheWay == st.bad = {}
EventuallyDone == <>(pc = "done")
=============================================================================
