------------------------------ MODULE TraceGraph ------------------------------
EXTENDS Graph, Json, IOUtils, TLC
Lines == ndJsonDeserialize(IOEnv.TRACE)
VARIABLES l, st, cv, id
\* cv: variables used by each created constraint (for the final comparison)
E == Lines[l]
Init == l = 1 /\ st = Empty /\ cv = <<>> /\ id = -1
Next ==
  /\ l <= Len(Lines) /\ l' = l + 1
  /\ CASE E.k = "reset" -> st' = Empty /\ cv' = [x \in {} |-> <<>>] /\ id' = E.id
       [] E.k = "done" ->
            /\ PrintT(<<"VERDICT", ToJson([id |-> id, wrong |-> Finish(st, E.api, E.hdr, cv),
                                           nrec |-> [vars |-> st.nvar, cons |-> Cardinality(st.cons), links |-> Len(st.links), finals |-> Len(st.finals)]])>>)
            /\ UNCHANGED <<st, cv, id>>
       [] E.k = "con" -> st' = Apply(st, E) /\ cv' = [x \in DOMAIN cv \cup {<<E.t, E.i>>} |-> IF x = <<E.t, E.i>> THEN E.vars ELSE cv[x]] /\ UNCHANGED id
       [] OTHER -> st' = Apply(st, E) /\ UNCHANGED <<cv, id>>
Spec == Init /\ [][Next]_<<l, st, cv, id>>
Finished == (l = Len(Lines) + 1) => PrintT(<<"DONE", ToJson([n |-> Len(Lines)])>>)
=============================================================================
