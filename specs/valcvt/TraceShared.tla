----------------------------- MODULE TraceShared -----------------------------
EXTENDS Shared, Json, IOUtils, TLC
Lines == ndJsonDeserialize(IOEnv.TRACE)
VARIABLE l
E == Lines[l]
Init == l = 1
Next == /\ l <= Len(Lines) /\ l' = l + 1
        /\ CASE E.e = "Run" -> LET c == [f |-> E.c.f, uses |-> [k \in 1..3 |-> E.c.uses[k]], g |-> [k \in 1..3 |-> E.c.g[k]]]
                                    w == Wrong(c, E.iis, E.nflagged)
                                IN w = {} \/ PrintT(<<"BAD", ToJson([line |-> l, id |-> E.id, wrong |-> w])>>)
             [] E.e = "Crash" -> PrintT(<<"BAD", ToJson([line |-> l, id |-> E.id, wrong |-> {"crash"}])>>)
             [] OTHER -> TRUE
Spec == Init /\ [][Next]_<<l>>
Finished == (l = Len(Lines) + 1) => PrintT(<<"DONE", ToJson([n |-> Len(Lines)])>>)
=============================================================================
