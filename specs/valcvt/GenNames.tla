------------------------------ MODULE GenNames ------------------------------
EXTENDS Integers, Sequences, FiniteSets, TLC, Json
Kinds == {"range", "le", "ge", "eq"}
\* "free": a linear row without finite bounds (AMPL writes them, e.g. for rows that only carry a name / a dual):
\* nothing is posted for it, and the rows after it keep their own names and values
RowSeqs == {<<"range", "le">>, <<"eq", "range", "ge">>, <<"le", "ge", "eq", "range">>, <<"range", "range">>, <<"ge", "eq">>,
            <<"free", "ge", "le">>, <<"eq", "free", "range">>}
Extras == {"none", "abs", "logic", "abs+logic",
           "sos1", "sos2+abs",
           "ite", "ite+max",
           "logic3"}        \* if-then-else with variable branches / and a max: multi-level conversions      \* an SOS set over the variables, given by the suffixes sosno / ref
RangeModes == {"native", "slack", "linear"}
Modes == 0..3
Files == {"absent", "present", "short", "crlf",
          "colonly", "rowonly",
          "rowcutlog"}      \* only one of the two name files was written
NameSets == {"plain", "derivedlike", "genericlike", "sluglike",
             "long"}        \* names of about 270 characters (AMPL items indexed over long string set members)
VARIABLES rows, extra, rmode, mode, files, nameset
Init == rows \in RowSeqs /\ extra \in Extras /\ rmode \in RangeModes /\ mode \in Modes /\ files \in Files /\ nameset \in NameSets
Next == UNCHANGED <<rows, extra, rmode, mode, files, nameset>>
Emit == PrintT(<<"CASE", ToJson([rows |-> rows, extra |-> extra, rmode |-> rmode, mode |-> mode, files |-> files, nameset |-> nameset])>>)
=============================================================================
