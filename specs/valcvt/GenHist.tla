------------------------------- MODULE GenHist -------------------------------
(* Histories of direct value transfers on one converted model (C04): every   *)
(* sequence of 1..3 (direction, kind) pairs.                                  *)
EXTENDS Integers, Sequences, TLC, Json
Dirs == {"pre", "post"}
Kinds == {"sol", "basis", "iis", "lazy", "gint", "gdbl"}
Steps == Dirs \X Kinds
Hists == UNION {[1..n -> Steps] : n \in 1..3}
VARIABLE h
Init == h \in Hists
Next == UNCHANGED h
Emit == PrintT(<<"CASE", ToJson([h |-> h])>>)
=============================================================================
