CONSTANTS MaxVars = 3
          MaxCons = 4
SPECIFICATION Spec
INVARIANT Accepted
INVARIANT NoBadOnTheWay
PROPERTY EventuallyDone
CHECK_DEADLOCK FALSE
