-------------------------------- MODULE Names --------------------------------
(* Property C19: names given to the solver are complete, faithful and unique. *)
(* Names are sequences of character codes (TLC has no string indexing).       *)
EXTENDS ValMap, SequencesExt

\* "_svar", "_sdvar", "_scon", "_slogcon", "_sobj" as character codes
SVAR    == <<95, 115, 118, 97, 114>>
SCON    == <<95, 115, 99, 111, 110>>
SLOGCON == <<95, 115, 108, 111, 103, 99, 111, 110>>
SOBJ    == <<95, 115, 111, 98, 106>>
RECURSIVE Digits(_)
Digits(k) == IF k < 10 THEN <<48 + k>> ELSE Digits(k \div 10) \o <<48 + (k % 10)>>
Gen(prefix, k) == prefix \o <<91>> \o Digits(k) \o <<93>>          \* prefix[k]

\* cvt:names: 0 none, 1 read if provided, 2 read else generic, 3 generic
Active(mode, col, rowf) == mode >= 2 \/ (mode = 1 /\ Len(col) + Len(rowf) > 0)
FileName(mode, file, idx, generic) ==
  IF mode = 3 THEN generic ELSE IF idx <= Len(file) THEN file[idx] ELSE generic

\* expected names of the original items (m = [nv, nalg, nlog, nobj], 1-based indices)
VarName(c, i) == FileName(c.mode, c.col, i, Gen(SVAR, i))
ConName(c, i) == FileName(c.mode, c.rowf, i, Gen(SCON, i))
LogConName(c, k) == FileName(c.mode, c.rowf, c.nalg + k, Gen(SLOGCON, k))
ObjName(c, k) == FileName(c.mode, c.rowf, c.nalg + c.nlog + k, Gen(SOBJ, k))
OrigNames(c) == {VarName(c, i) : i \in 1..c.nv} \cup {ConName(c, i) : i \in 1..c.nalg}
                \cup {LogConName(c, k) : k \in 1..c.nlog} \cup {ObjName(c, k) : k \in 1..c.nobj}

\* an SOS set comes from suffixes, not from a named item: the set and what is made of it are named after the
\* set ("SOS1_<n>_", "SOS2_<n>_..."), which counts as the item it comes from
SOSPREFIX == <<83, 79, 83>>
Derived(c, nm) == (\E o \in OrigNames(c) : IsPrefix(o, nm)) \/ IsPrefix(SOSPREFIX, nm)

\* delivered: c.vnames (Seq of names), c.cnames (Seq of names of ALL delivered constraints, any type),
\* c.rownames (names of the linear-group rows, aligned with c.rows), c.onames (objective names)
WrongNames(c) ==
  IF ~Active(c.mode, c.col, c.rowf) THEN {}
  ELSE
    LET n0 == c.nv
        im(i) == Image(c.ocons[i], c.rows, c.vars, n0)
    IN {<<"empty-var", i>> : i \in {i \in 1..Len(c.vnames) : c.vnames[i] = <<>>}}
       \cup {<<"empty-con", i>> : i \in {i \in 1..Len(c.cnames) : c.cnames[i] = <<>>}}
       \cup {<<"empty-obj", i>> : i \in {i \in 1..Len(c.onames) : c.onames[i] = <<>>}}
       \cup (IF Len(c.vnames) < Len(c.vars) THEN {<<"missing-var-names", Len(c.vnames)>>} ELSE {})
       \cup {<<"orig-var", i>> : i \in {i \in 1..n0 : i <= Len(c.vnames) /\ c.vnames[i] # VarName(c, i)}}
       \cup {<<"orig-con", i>> : i \in {i \in 1..c.nalg : c.ocons[i].linear /\ im(i).kind = "row" /\ c.rownames[im(i).j] # ConName(c, i)}}
       \cup {<<"slack-names", i>> : i \in {i \in 1..c.nalg : c.ocons[i].linear /\ im(i).kind = "slack" /\
                                          (~IsPrefix(ConName(c, i), c.rownames[im(i).j]) \/ ~IsPrefix(ConName(c, i), c.vnames[im(i).s]))}}
       \cup {<<"obj", k>> : k \in {k \in 1..Len(c.onames) : c.onames[k] # ObjName(c, c.objused + k - 1)}}
       \cup {<<"underived-var", i>> : i \in {i \in (n0 + 1)..Len(c.vnames) : c.vnames[i] # <<>> /\ ~Derived(c, c.vnames[i])}}
       \cup {<<"underived-con", i>> : i \in {i \in 1..Len(c.cnames) : c.cnames[i] # <<>> /\ ~Derived(c, c.cnames[i])}}
       \cup {<<"dup-var", i>> : i \in {i \in 1..Len(c.vnames) : \E j \in 1..(i - 1) : c.vnames[j] = c.vnames[i] /\ c.vnames[i] # <<>>}}
       \cup {<<"dup-con", i>> : i \in {i \in 1..Len(c.cnames) : \E j \in 1..(i - 1) : c.cnames[j] = c.cnames[i] /\ c.cnames[i] # <<>>}}
=============================================================================
