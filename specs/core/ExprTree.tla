------------------------------ MODULE ExprTree ------------------------------
(* Expression trees of include/mp/expr.h and their structural comparison       *)
(* (src/expr.cc mp::Equal / ExprComparator, std::hash<mp::Expr>), property C18.*)
(*                                                                            *)
(* A tree is a record [k |-> kind, s |-> scalars, c |-> children]: s is the    *)
(* sequence of scalar fields of the node in declaration order (constant,      *)
(* index, function reference, string content, PL slopes/breakpoints           *)
(* interleaved as stored in PLTerm::Impl::data), c the child expressions in   *)
(* argument order.  All scalars are atoms (strings), so two atoms are the     *)
(* same constant iff they are the same string.                                *)
(*                                                                            *)
(* Three layers:                                                              *)
(*  - StructEq / WellFormed / Mutants: the property (oracle, generators);     *)
(*  - the comparison MACHINE (variables todo, res; one action per visitor     *)
(*    method of ExprComparator): what the code does, step by step, as a       *)
(*    work-list over pairs of sub-expressions with short-circuit;             *)
(*  - Allowed / HashAllowed: what a recorded result of the real functions may *)
(*    be (trace validation).                                                  *)
EXTENDS Integers, Sequences, FiniteSets

----------------------------------------------------------------------------
(* kinds, by visitor class *)
Rng(q) == {q[i] : i \in 1..Len(q)}
UnarySeq   == <<"minus", "abs", "floor", "ceil", "sqrt", "pow2", "exp", "log", "log10",
                "sin", "sinh", "cos", "cosh", "tan", "tanh", "asin", "asinh", "acos",
                "acosh", "atan", "atanh">>
BinarySeq  == <<"add", "sub", "less", "mul", "div", "truncdiv", "mod", "pow",
                "powconstbase", "powconstexp", "atan2", "precision", "round", "trunc">>
IterNumSeq == <<"min", "max", "sum">>          \* numeric arguments, arity >= 0
BinLogSeq  == <<"or", "and", "iff">>
RelSeq     == <<"lt", "le", "eq", "ge", "gt", "ne">>
LCountSeq  == <<"atleast", "atmost", "exactly", "notatleast", "notatmost", "notexactly">>
IterLogSeq == <<"exists", "forall">>
PairwiseSeq == <<"alldiff", "notalldiff">>
UnaryOps == Rng(UnarySeq)
BinaryOps == Rng(BinarySeq)
IterNumOps == Rng(IterNumSeq)
BinLogOps == Rng(BinLogSeq)
RelOps == Rng(RelSeq)
LCountOps == Rng(LCountSeq)
IterLogOps == Rng(IterLogSeq)
PairwiseOps == Rng(PairwiseSeq)

NumericKinds == {"num", "var", "cexpr", "if", "plterm", "call", "numberof", "numberofsym", "count"}
                  \cup UnaryOps \cup BinaryOps \cup IterNumOps
LogicalKinds == {"bool", "not", "implication"} \cup BinLogOps \cup RelOps \cup LCountOps
                  \cup IterLogOps \cup PairwiseOps
SymbolicKinds == {"str", "ifsym"}
Kinds == NumericKinds \cup LogicalKinds \cup SymbolicKinds

\* kinds whose children are a variable-length argument list
VarArgKinds == IterNumOps \cup {"numberof", "numberofsym", "count", "call"} \cup IterLogOps \cup PairwiseOps
\* kinds the expression visitor documents as not supported ("All expressions
\* except OPNUMBEROFs and OPIFSYM are supported"; a string is only meaningful
\* as a call argument): comparing or hashing them may raise UnsupportedError
UnsupportedKinds == {"numberofsym", "ifsym"}

\* operator classes within which a kind can be exchanged for another one
\* without changing the sorts of the children (operator mutation)
OpClassSeqs == {UnarySeq, BinarySeq, IterNumSeq \o <<"numberof">>, BinLogSeq, RelSeq, LCountSeq,
                IterLogSeq, PairwiseSeq, <<"var", "cexpr">>}

N(k, s, c) == [k |-> k, s |-> s, c |-> c]

----------------------------------------------------------------------------
(* sorts *)
\* sort demanded by child slot i of a node of kind k with n children:
\* "N" numeric, "L" logical, "C" a count expression, "R" variable/common-expr
\* reference, "S" symbolic (numeric, string or symbolic if)
SlotSort(k, i) ==
  CASE k \in UnaryOps \cup BinaryOps \cup IterNumOps \cup RelOps \cup PairwiseOps \cup {"numberof"} -> "N"
    [] k \in {"not", "count"} \cup BinLogOps \cup IterLogOps \cup {"implication"} -> "L"
    [] k = "if" -> IF i = 1 THEN "L" ELSE "N"
    [] k = "ifsym" -> IF i = 1 THEN "L" ELSE "S"
    [] k = "plterm" -> "R"
    [] k \in {"call", "numberofsym"} -> "S"
    [] k \in LCountOps -> IF i = 1 THEN "N" ELSE "C"
    [] OTHER -> "none"

HasSort(t, srt) ==
  CASE srt = "N" -> t.k \in NumericKinds
    [] srt = "L" -> t.k \in LogicalKinds
    [] srt = "C" -> t.k = "count"
    [] srt = "R" -> t.k \in {"var", "cexpr"}
    [] srt = "S" -> t.k \in NumericKinds \cup SymbolicKinds
    [] OTHER -> FALSE

\* number of children / scalars a kind admits
ArityOK(k, n) ==
  CASE k \in {"num", "var", "cexpr", "bool", "str"} -> n = 0
    [] k \in UnaryOps \cup {"not", "plterm"} -> n = 1
    [] k \in BinaryOps \cup BinLogOps \cup RelOps \cup LCountOps -> n = 2
    [] k \in {"if", "implication", "ifsym"} -> n = 3
    [] k \in {"numberof", "numberofsym"} -> n >= 1
    [] OTHER -> n >= 0
ScalarsOK(k, n) ==
  CASE k \in {"num", "var", "cexpr", "bool", "str", "call"} -> n = 1
    [] k = "plterm" -> n >= 3 /\ n % 2 = 1        \* slope (bp slope)+, at least one breakpoint
    [] OTHER -> n = 0

RECURSIVE WellFormed(_)
WellFormed(t) ==
  /\ t.k \in Kinds
  /\ ArityOK(t.k, Len(t.c)) /\ ScalarsOK(t.k, Len(t.s))
  /\ \A i \in 1..Len(t.c) : HasSort(t.c[i], SlotSort(t.k, i)) /\ WellFormed(t.c[i])

RECURSIVE Size(_)
Size(t) == 1 + (LET RECURSIVE Sum(_)
                    Sum(i) == IF i > Len(t.c) THEN 0 ELSE Size(t.c[i]) + Sum(i + 1)
                IN Sum(1))

RECURSIVE Contains(_, _)
\* some node of t has a kind in ks
Contains(t, ks) == t.k \in ks \/ \E i \in 1..Len(t.c) : Contains(t.c[i], ks)
RECURSIVE HasAtom(_, _)
HasAtom(t, x) == (\E i \in 1..Len(t.s) : t.s[i] = x) \/ \E i \in 1..Len(t.c) : HasAtom(t.c[i], x)

----------------------------------------------------------------------------
(* the property *)
RECURSIVE StructEq(_, _)
\* same shape, operators, constants, variable and function references, argument order
StructEq(a, b) ==
  /\ a.k = b.k
  /\ a.s = b.s
  /\ Len(a.c) = Len(b.c)
  /\ \A i \in 1..Len(a.c) : StructEq(a.c[i], b.c[i])

B(x) == IF x THEN "T" ELSE "F"

\* May comparing/hashing t end in UnsupportedError?  Only if the traversal can
\* reach a documented-unsupported kind, or t itself is a bare string.
MayRefuse(t) == t.k = "str" \/ Contains(t, UnsupportedKinds)

\* results a recorded mp::Equal(a, b) may have: "T", "F" or "U" (UnsupportedError)
Allowed(a, b) ==
  IF a.k # b.k THEN {"F"}                       \* the kind check comes first and never refuses
  ELSE IF MayRefuse(a) \/ MayRefuse(b) THEN {B(StructEq(a, b)), "U"}
  ELSE {B(StructEq(a, b))}
\* hash results are opaque strings or "U"
HashMayRefuse(t) == Contains(t, UnsupportedKinds)     \* a bare string literal has a hash

----------------------------------------------------------------------------
(* the comparison machine: mp::Equal as a work-list of pairs.                 *)
(* An entry is [x, y, ctx]; ctx = "expr" for a pair handed to mp::Equal,      *)
(* "arg" for a pair of call arguments (ExprComparator::VisitCall looks at     *)
(* them itself), "len" for the final arity test of VisitVarArg.               *)
VARIABLES todo, res
mvars == <<todo, res>>

Entry(x, y, ctx) == [x |-> x, y |-> y, ctx |-> ctx]
Pairs(x, y, ctx) ==    \* children of x and y position by position, as far as both exist
  LET n == IF Len(x.c) < Len(y.c) THEN Len(x.c) ELSE Len(y.c)
  IN [i \in 1..n |-> Entry(x.c[i], y.c[i], ctx)]

MInit(a, b) == todo = <<Entry(a, b, "expr")>> /\ res = "run"

Top == Head(todo)
Running == res = "run" /\ todo # <<>>
Stop(r) == res' = r /\ todo' = <<>>
Continue(more) == todo' = more \o Tail(todo) /\ UNCHANGED res

\* mp::Equal: if (e1.kind() != e2.kind()) return false;
KindMismatch == Running /\ Top.ctx \in {"expr", "arg"} /\ Top.x.k # Top.y.k /\ Stop("F")
Same == Running /\ Top.ctx \in {"expr", "arg"} /\ Top.x.k = Top.y.k
\* VisitNumericConstant / VisitLogicalConstant / VisitVariable / VisitCommonExpr
VisitScalar == /\ Same /\ Top.x.k \in {"num", "bool", "var", "cexpr"}
               /\ IF Top.x.s = Top.y.s THEN Continue(<<>>) ELSE Stop("F")
\* VisitUnary, VisitBinary, VisitIf and their logical twins: children left to right
VisitFixed == /\ Same
              /\ Top.x.k \in UnaryOps \cup BinaryOps \cup {"if", "not", "implication"}
                              \cup BinLogOps \cup RelOps \cup LCountOps
              /\ Continue(Pairs(Top.x, Top.y, "expr"))
\* VisitPLTerm: number of breakpoints, slopes and breakpoints, then the argument
VisitPLTerm == /\ Same /\ Top.x.k = "plterm"
               /\ IF Top.x.s = Top.y.s THEN Continue(Pairs(Top.x, Top.y, "expr")) ELSE Stop("F")
\* VisitCall: function and arity, then the arguments
VisitCall == /\ Same /\ Top.x.k = "call" /\ Top.ctx = "expr"
             /\ IF Top.x.s = Top.y.s /\ Len(Top.x.c) = Len(Top.y.c)
                  THEN Continue(Pairs(Top.x, Top.y, "arg")) ELSE Stop("F")
\* a call argument: numeric -> Equal, string -> strcmp
VisitStringArg == /\ Same /\ Top.ctx = "arg" /\ Top.x.k = "str"
                  /\ IF Top.x.s = Top.y.s THEN Continue(<<>>) ELSE Stop("F")
VisitNestedCall == /\ Same /\ Top.ctx = "arg" /\ Top.x.k = "call"
                   /\ Continue(<<Entry(Top.x, Top.y, "expr")>>)
\* VisitVarArg (min, max, sum, numberof, count, exists, forall, alldiff, !alldiff)
VisitVarArg == /\ Same /\ Top.x.k \in VarArgKinds \ {"call", "numberofsym"}
               /\ Continue(Pairs(Top.x, Top.y, "expr") \o <<Entry(Top.x, Top.y, "len")>>)
ArityTest == /\ Running /\ Top.ctx = "len"
             /\ IF Len(Top.x.c) = Len(Top.y.c) THEN Continue(<<>>) ELSE Stop("F")
\* symbolic numberof, symbolic if, a bare string: VisitUnsupported
VisitUnsupported == /\ Same
                    /\ Top.x.k \in UnsupportedKinds \/ (Top.x.k = "str" /\ Top.ctx = "expr")
                    /\ Stop("U")
Finish == res = "run" /\ todo = <<>> /\ res' = "T" /\ UNCHANGED todo

MNext == KindMismatch \/ VisitScalar \/ VisitFixed \/ VisitPLTerm \/ VisitCall \/ VisitStringArg
           \/ VisitNestedCall \/ VisitVarArg \/ ArityTest \/ VisitUnsupported \/ Finish

----------------------------------------------------------------------------
(* generators: atoms, trees by sort and depth, single-point mutants *)
CONSTANTS NumAtoms, IdxAtoms, FuncAtoms, StrAtoms,   \* scalars (2 or more of each sort)
          MaxArgs,                                   \* longest argument list generated
          MaxBP,                                     \* most breakpoints of a PL term
          OpMut                                      \* "all": every other operator of the class,
                                                     \* "succ": the next one in the class

BoolAtoms == {"t", "f"}
\* atoms a scalar of kind k may be exchanged for
AtomsFor(k) == CASE k = "num" -> NumAtoms [] k \in {"var", "cexpr"} -> IdxAtoms
                 [] k = "bool" -> BoolAtoms [] k = "str" -> StrAtoms
                 [] k = "call" -> FuncAtoms [] k = "plterm" -> NumAtoms [] OTHER -> {}

SeqsOf(S, lo, hi) == UNION {[1..n -> S] : n \in lo..hi}

RefLeaves == {N(k, <<i>>, <<>>) : k \in {"var", "cexpr"}, i \in IdxAtoms}
NumLeaves == {N("num", <<x>>, <<>>) : x \in NumAtoms} \cup RefLeaves
LogLeaves == {N("bool", <<x>>, <<>>) : x \in BoolAtoms}
StrLeaves == {N("str", <<x>>, <<>>) : x \in StrAtoms}

\* child pools and bounds of a generation step
Pools(num, log, cnt, sym, maxargs, maxbp, natoms, fatoms) ==
  [num |-> num, log |-> log, cnt |-> cnt, sym |-> sym, maxargs |-> maxargs, maxbp |-> maxbp,
   natoms |-> natoms, fatoms |-> fatoms]

\* all trees with a root of one of the kinds ks over the child pools P
Rooted(ks, P) ==
  UNION {
    CASE k \in UnaryOps -> {N(k, <<>>, <<x>>) : x \in P.num}
      [] k \in BinaryOps \cup RelOps -> {N(k, <<>>, <<x, y>>) : x \in P.num, y \in P.num}
      [] k = "if" -> {N(k, <<>>, <<c, x, y>>) : c \in P.log, x \in P.num, y \in P.num}
      [] k = "plterm" -> {N(k, s, <<r>>) : s \in UNION {[1..(2 * n + 1) -> P.natoms] : n \in 1..P.maxbp},
                                             r \in {x \in P.num : x.k \in {"var", "cexpr"}}}
      [] k = "call" -> {N(k, <<f>>, args) : f \in P.fatoms, args \in SeqsOf(P.sym, 0, P.maxargs)}
      [] k \in IterNumOps \cup PairwiseOps -> {N(k, <<>>, args) : args \in SeqsOf(P.num, 0, P.maxargs)}
      [] k = "numberof" -> {N(k, <<>>, args) : args \in SeqsOf(P.num, 1, P.maxargs)}
      [] k = "numberofsym" -> {N(k, <<>>, args) : args \in SeqsOf(P.sym, 1, P.maxargs)}
      [] k \in {"count"} \cup IterLogOps -> {N(k, <<>>, args) : args \in SeqsOf(P.log, 0, P.maxargs)}
      [] k = "not" -> {N(k, <<>>, <<x>>) : x \in P.log}
      [] k \in BinLogOps -> {N(k, <<>>, <<x, y>>) : x \in P.log, y \in P.log}
      [] k \in LCountOps -> {N(k, <<>>, <<x, y>>) : x \in P.num, y \in P.cnt}
      [] k = "implication" -> {N(k, <<>>, <<c, x, y>>) : c \in P.log, x \in P.log, y \in P.log}
      [] k = "ifsym" -> {N(k, <<>>, <<c, x, y>>) : c \in P.log, x \in P.sym, y \in P.sym}
      [] OTHER -> {}
    : k \in ks }

\* complete layer: every kind over all leaves (logical counts over every count of leaves)
LeafPools == Pools(NumLeaves, LogLeaves, {}, NumLeaves \cup StrLeaves, MaxArgs, MaxBP, NumAtoms, FuncAtoms)
Counts1 == Rooted({"count"}, LeafPools)
Depth1 == Rooted(Kinds, [LeafPools EXCEPT !.cnt = Counts1])

\* sampled second layer: one default leaf per sort, one representative kind per
\* visitor method; a representative child is plugged into one slot of a parent
AnyOf(S) == CHOOSE x \in S : TRUE
DefNum == N("var", <<AnyOf(IdxAtoms)>>, <<>>)
DefLog == N("bool", <<"t">>, <<>>)
DefStr == N("str", <<AnyOf(StrAtoms)>>, <<>>)
DefCnt == N("count", <<>>, <<DefLog>>)
Default(srt) == CASE srt \in {"N", "R"} -> DefNum [] srt = "L" -> DefLog [] srt = "C" -> DefCnt
                  [] srt = "S" -> DefStr
RepKinds == {"minus", "add", "if", "plterm", "call", "max", "sum", "numberof", "numberofsym", "count",
             "not", "or", "lt", "atleast", "implication", "exists", "alldiff", "notalldiff", "ifsym"}
RepPools == Pools({DefNum}, {DefLog}, {DefCnt}, {DefStr, DefNum}, 1, 1, {AnyOf(NumAtoms)}, {AnyOf(FuncAtoms)})
RepChildren == Rooted(RepKinds, RepPools) \cup {N("num", <<AnyOf(NumAtoms)>>, <<>>), DefStr}
SlotsOf(k) == CASE k \in UnaryOps \cup {"not"} -> 1
                [] k \in BinaryOps \cup BinLogOps \cup RelOps \cup LCountOps -> 2
                [] k \in {"if", "implication", "ifsym"} -> 3
                [] k \in VarArgKinds -> 2
                [] OTHER -> 0
\* [t |-> tree, i |-> slot holding the plugged child]
Plugged(ks) ==
  UNION {UNION {{[t |-> N(k, IF k = "call" THEN <<AnyOf(FuncAtoms)>> ELSE <<>>,
                         [j \in 1..SlotsOf(k) |-> IF j = i THEN x ELSE Default(SlotSort(k, j))]),
                  i |-> i] :
                  x \in {y \in RepChildren : HasSort(y, SlotSort(k, i))}}
                : i \in 1..SlotsOf(k)} : k \in ks}

Replace(seq, i, v) == [seq EXCEPT ![i] = v]
SwapAdj(seq, i) == [seq EXCEPT ![i] = seq[i + 1], ![i + 1] = seq[i]]
ClassSeqOf(k) == IF \E q \in OpClassSeqs : k \in Rng(q) THEN CHOOSE q \in OpClassSeqs : k \in Rng(q) ELSE <<k>>
SuccIn(q, k) == LET i == CHOOSE j \in 1..Len(q) : q[j] = k IN q[(i % Len(q)) + 1]
OpAlternatives(k) == (IF OpMut = "all" THEN Rng(ClassSeqOf(k)) ELSE {SuccIn(ClassSeqOf(k), k)}) \ {k}

\* single-point mutants at the root, tagged with the kind of change
RootMutants(t) ==
     \* one constant / index / function / string / slope / breakpoint
     UNION {{[m |-> N(t.k, Replace(t.s, i, x), t.c), why |-> "scalar"] :
               x \in AtomsFor(t.k) \ {t.s[i]}} : i \in 1..Len(t.s)}
     \* the operator, within its class
  \cup {[m |-> N(k2, t.s, t.c), why |-> "op"] :
         k2 \in {k \in OpAlternatives(t.k) : ArityOK(k, Len(t.c))}}
     \* arity: last argument dropped or repeated
  \cup (IF t.k \in VarArgKinds /\ Len(t.c) > 0 /\ ArityOK(t.k, Len(t.c) - 1)
          THEN {[m |-> N(t.k, t.s, SubSeq(t.c, 1, Len(t.c) - 1)), why |-> "arity"]} ELSE {})
  \cup (IF t.k \in VarArgKinds /\ Len(t.c) > 0
          THEN {[m |-> N(t.k, t.s, Append(t.c, t.c[Len(t.c)])), why |-> "arity"]} ELSE {})
     \* a PL term with its last breakpoint (and slope) removed
  \cup (IF t.k = "plterm" /\ Len(t.s) > 3
          THEN {[m |-> N(t.k, SubSeq(t.s, 1, Len(t.s) - 2), t.c), why |-> "arity"]} ELSE {})
     \* argument order
  \cup {[m |-> N(t.k, t.s, SwapAdj(t.c, i)), why |-> "order"] :
         i \in {j \in 1..(Len(t.c) - 1) : /\ SlotSort(t.k, j) = SlotSort(t.k, j + 1)
                                          /\ t.c[j] # t.c[j + 1]}}
     \* slopes / breakpoints exchanged
  \cup (IF t.k = "plterm"
          THEN {[m |-> N(t.k, SwapAdj(t.s, i), t.c), why |-> "order"] :
                  i \in {j \in 1..(Len(t.s) - 1) : t.s[j] # t.s[j + 1]}} ELSE {})

RECURSIVE Mutants(_)
\* all single-point mutants: at the root or inside exactly one child
Mutants(t) ==
  RootMutants(t) \cup
  UNION {{[m |-> N(t.k, t.s, Replace(t.c, i, mm.m)), why |-> mm.why] : mm \in Mutants(t.c[i])} :
           i \in 1..Len(t.c)}
\* mutants inside child i only
DeepMutants(t, i) == {[m |-> N(t.k, t.s, Replace(t.c, i, mm.m)), why |-> mm.why] : mm \in Mutants(t.c[i])}
=============================================================================
