--------------------------- MODULE TraceDrvSignals ---------------------------
(* One line per run of the real driver (BackendApp + StdBackend, scripted     *)
(* backend): the scenario, the recorded events in order, exit status and      *)
(* whether a .sol file exists.  Every event has to be a transition of         *)
(* DrvSignals that is enabled where it occurs, with the recorded values; the  *)
(* invariants are evaluated after every transition.                           *)
EXTENDS DrvSignals, Json, IOUtils, TLC
Lines == ndJsonDeserialize(IOEnv.TRACE)
VARIABLES l

ActOf(e) == CASE e.e = "FinishOptionParsing" -> "FinishOptions"
              [] e.e = "SetInterrupter" -> "Register"
              [] e.e = "WriteProblem" -> "Export"
              [] e.e = "Solve" -> "BeginSolve"
              [] e.e = "Raised" -> "Deliver"
              [] e.e = "Killed" -> "Deliver"
              [] e.e = "Poll" -> "Poll"
              [] e.e = "ReportResults" -> "BeginReport"
              [] e.e = "BackendDtor" -> "Teardown"
              [] e.e = "End" -> "End"
              [] OTHER -> "?"

InvNames(s, st) ==
  (IF NotLost(s, st) THEN {} ELSE {"NotLost"}) \cup (IF Interruptible(s, st) THEN {} ELSE {"Interruptible"}) \cup
  (IF EveryCallback(s, st) THEN {} ELSE {"EveryCallback"}) \cup (IF Third(s, st) THEN {} ELSE {"Third"}) \cup
  (IF Exported(s, st) THEN {} ELSE {"Exported"}) \cup (IF AfterTeardown(s, st) THEN {} ELSE {"AfterTeardown"})

\* the recorded values of an event against the state after the transition
Observed(s, pre, st, e) ==
  CASE e.e = "Raised" -> (IF e.cb = (IF pre.reg THEN 1 ELSE 0) /\ e.bad = 0 THEN {} ELSE {IF pre.pc = "teardown" THEN "call-into-destroyed-backend" ELSE "callback"}) \cup
                         (IF e.stop = 1 \/ pre.pc = "teardown" THEN {} ELSE {"stop"}) \cup (IF st.exit = -1 THEN {} ELSE {"third-survived"})
    [] e.e = "Killed" -> IF st.exit = 1 /\ e.rc = 1 THEN {} ELSE {"third-exit"}
    [] e.e = "Poll"   -> IF (e.stop = 1) = st.stop THEN {} ELSE {"stop"}
    [] e.e = "End"    -> (IF e.rc = 0 THEN {} ELSE {"exit-status"}) \cup
                         (IF s.mode = "only" \/ e.sol THEN {} ELSE {"no-sol"})
    [] OTHER -> {}

RECURSIVE Walk(_, _, _, _)
Walk(s, st, ev, i) ==
  IF i > Len(ev) THEN (IF st.pc \in {"done", "exited"} THEN [why |-> {}, at |-> i, pc |-> st.pc] ELSE [why |-> {"incomplete"}, at |-> i, pc |-> st.pc])
  ELSE LET e == ev[i]  a == ActOf(e) IN
       IF a = "?" \/ ~Enabled("code", s, st, a) THEN [why |-> {"not-allowed:" \o e.e}, at |-> i, pc |-> st.pc]
       ELSE LET st2 == Apply(s, st, a)
                bad == InvNames(s, st2) \cup Observed(s, st, st2, e)
            IN IF bad # {} THEN [why |-> bad, at |-> i, pc |-> st.pc] ELSE Walk(s, st2, ev, i + 1)

E == Lines[l]
Init == l = 1
Next == /\ l <= Len(Lines) /\ l' = l + 1
        /\ LET r == Walk(E.s, St0, E.ev, 1)
           IN r.why = {} \/ PrintT(<<"BAD", ToJson([line |-> l, id |-> E.id, why |-> r.why, at |-> r.at, pc |-> r.pc])>>)
Spec == Init /\ [][Next]_<<l>>
Finished == (l = Len(Lines) + 1) => PrintT(<<"DONE", ToJson([n |-> Len(Lines)])>>)
=============================================================================
