---------------------------- MODULE TraceSizeUse ----------------------------
(* One record per call of a Begin* function of the real mp::ExprFactory.      *)
EXTENDS SizeUse, Json, IOUtils, TLC, Sequences
Lines == ndJsonDeserialize(IOEnv.TRACE)
VARIABLES l
E == Lines[l]
Init == l = 1
Next == /\ l <= Len(Lines) /\ l' = l + 1
        /\ CASE E.e = "Size" -> SizeOK(E.kind, E.n, [res |-> E.res, req8 |-> E.req8])
                                \/ PrintT(<<"BAD", ToJson([line |-> l, kind |-> E.kind, n |-> E.n, res |-> E.res, req8 |-> E.req8])>>)
             [] E.e = "Meta" -> TRUE
             [] OTHER -> PrintT(<<"BAD", ToJson([line |-> l, kind |-> "crash", n |-> 0, res |-> E.e, req8 |-> 0])>>)
Spec == Init /\ [][Next]_<<l>>
Finished == (l = Len(Lines) + 1) => PrintT(<<"DONE", ToJson([n |-> Len(Lines)])>>)
=============================================================================
