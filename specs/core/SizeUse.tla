------------------------------ MODULE SizeUse ------------------------------
(* Property C17, last sentence: "a size computed from file-provided counts is  *)
(* either the true size or an error" - at the places where the expression      *)
(* factory (include/mp/expr.h) turns a count read from an NL file into an      *)
(* allocation: iterated expressions (sum, count, numberof, min/max, calls,     *)
(* iterated logical, alldiff) and piecewise-linear terms.                      *)
(*                                                                             *)
(* One call  Begin<kind>(n)  is observed through the allocation request it     *)
(* makes (the harness replaces operator new: requests above 64 MB are refused  *)
(* with bad_alloc, none of them is served with less than was asked).  Sizes    *)
(* are in 8-byte words (TLC integers are 32 bit), saturated at Sat.            *)
(*   outcome o: [res |-> "ok" | "badalloc" | "overflow" | "other", req8]       *)
EXTENDS Integers

Sat == 2000000000
Kinds == {"sum", "count", "numberof", "call", "vararg", "itlogical", "pairwise", "plterm",
          \* mp::Problem (include/mp/problem.h): a block of n variables / common expressions added to a problem that
          \* already has some - the new total has to fit an int; at least one word is requested per item
          "addvars", "addvarsarr", "addcexprs"}
ProblemKinds == {"addvars", "addvarsarr", "addcexprs"}
\* words per item beyond the first / per breakpoint
Item8(kind) == IF kind = "plterm" THEN 2 ELSE 1
\* a lower bound of the true size: the items alone (the header is not counted)
Needed8(kind, n) ==
  LET k == IF kind = "plterm" \/ kind \in ProblemKinds THEN n ELSE n - 1
  IN IF k <= 0 THEN 0 ELSE IF k > Sat \div Item8(kind) THEN Sat ELSE Item8(kind) * k

\* true size representable in an int (the factory's size type): below 2^31 bytes = 2^28 words
Representable(kind, n) == Needed8(kind, n) < 268435456 - 64

SizeOK(kind, n, o) ==
  CASE o.res \in {"ok", "badalloc"} -> o.req8 >= Needed8(kind, n)      \* what was asked for covers the items
                                        /\ (kind \in ProblemKinds => n <= 2147483644)   \* 3 + n does not fit an int: error
    [] o.res = "overflow" -> n > 1000000                              \* an error is always allowed - but small counts must work
    [] OTHER -> FALSE
=============================================================================
