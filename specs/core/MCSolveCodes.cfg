SPECIFICATION Spec
INVARIANT Partition
INVARIANT Outside
INVARIANT Consistent
INVARIANT Reported
CHECK_DEADLOCK FALSE
