---------------------------- MODULE MCSolveCodes ----------------------------
(* Design check of SolveCodes: the documented ranges partition 0..999, the    *)
(* predicates are consistent with each other, and the abstract run reports    *)
(* exactly the backend's code.  Exhaustive over all codes and answer shapes.  *)
EXTENDS SolveCodes, TLC
VARIABLES code, hasObj, pc, iis, ray, dray, solcode, objShown
vars == <<code, hasObj, pc, iis, ray, dray, solcode, objShown>>

Init == /\ code \in Codes /\ hasObj \in BOOLEAN
        /\ pc = "classify" /\ iis = FALSE /\ ray = FALSE /\ dray = FALSE
        /\ solcode = -999 /\ objShown = FALSE
Classify == pc = "classify" /\ pc' = "suffixes" /\ UNCHANGED <<code, hasObj, iis, ray, dray, solcode, objShown>>
Suffixes == /\ pc = "suffixes" /\ pc' = "write"
            /\ ray' = WantsRay(code) /\ dray' = WantsDRay(code) /\ iis' = WantsIIS(code)
            /\ UNCHANGED <<code, hasObj, solcode, objShown>>
WriteSol == /\ pc = "write" /\ pc' = "done"
            /\ solcode' = code
            /\ objShown' \in ObjShownAllowed(code, hasObj)
            /\ UNCHANGED <<code, hasObj, iis, ray, dray>>
Next == Classify \/ Suffixes \/ WriteSol \/ (pc = "done" /\ UNCHANGED vars)
Spec == Init /\ [][Next]_vars

Partition == (code \in 0..999) => Cardinality({i \in 1..Len(Ranges) : Ranges[i].lo <= code /\ code <= Ranges[i].hi}) = 1
Outside == (code \notin 0..999) => Class(code) = "none"
Consistent ==
  /\ Solved(code) => Feasible(code)
  /\ InfOrUnb(code) <=> (Infeasible(code) \/ Unbounded(code) \/ IndiffInfOrUnb(code))
  /\ ~(Feasible(code) /\ Infeasible(code))
  /\ ~(Infeasible(code) /\ Unbounded(code))
  /\ Failure(code) => ~Feasible(code) /\ ~InfOrUnb(code)
Reported == pc = "done" =>
  /\ solcode = code
  /\ objShown => hasObj
  /\ objShown => (Feasible(code) \/ Class(code) = "uncertain")
  /\ (hasObj /\ Feasible(code)) => objShown
  /\ iis => InfOrUnb(code)
  /\ (ray /\ dray) => IndiffInfOrUnb(code)
=============================================================================
