----------------------------- MODULE TraceOptions -----------------------------
(* Trace validation for C11.  The first line is the option table as the real  *)
(* solver object reports it; every Run line is one call of the real           *)
(* BasicSolver::ParseOptions: the environment and argument texts it was       *)
(* given, the values of all options before and after (read back through       *)
(* GetIntOption / GetDblOption / GetStrOption), the echo lines and error      *)
(* reports in order, the return value / exception.  Options.tla predicts a    *)
(* run from its texts; as long as every item is well-formed the prediction is *)
(* exact, afterwards only the error accounting is checked.  A Crash line      *)
(* (sanitizer report: e.g. a read past the terminating NUL) is never accepted.*)
EXTENDS Options, Json, IOUtils, TLC
Lines == ndJsonDeserialize(IOEnv.TRACE)
VARIABLES l, tab, nwf          \* nwf: runs predicted exactly (all items well-formed) so far
vars == <<l, tab, nwf>>

E == Lines[l]
Bad(id, wrong) == PrintT(<<"BAD", ToJson([line |-> l, id |-> id, wrong |-> wrong])>>)
Step == l' = l + 1

\* stores arrive as sequences parallel to the table; wildcard values as arrays of [k, v]
Norm(s) == [i \in 1..Len(s) |-> IF tab[i].wild THEN Rng(s[i]) ELSE s[i]]
Mine == {i \in 1..Len(tab) : ~tab[i].builtin}
IsError(ev) == ev.k \in {"unknown", "flagarg", "othererror"}

Clauses == {"values", "events", "rc", "threw", "accounting", "untouched"}
Violated(e, r, n) ==
  CASE n = "values" -> r.wf /\ \E i \in Mine : Norm(e.final)[i] # r.store[i]
    [] n = "events" -> r.wf /\ e.ev # r.out
    \* returns true iff no error was reported
    [] n = "rc" -> r.wf /\ ~e.threw /\ e.rc # ~r.err
    \* with the throwing (default) error handler the first error ends the call
    [] n = "threw" -> r.wf /\ e.threw # (r.pc = "threw")
    \* whatever the text: the return value agrees with the reports that were made
    [] n = "accounting" -> ~e.threw /\ e.rc # ~(\E i \in 1..Len(e.ev) : IsError(e.ev[i]))
    \* built-in options are never named by a case
    [] n = "untouched" -> r.wf /\ \E i \in 1..Len(tab) : tab[i].builtin /\ r.store[i] # Norm(e.init)[i]

\* every registered name list is in the table as its first word (the name) with the other words as synonyms, in order
Registered(decl, opts) == \E i \in 1..Len(opts) : <<opts[i].name>> \o opts[i].syn = Words(decl)
TTable == /\ E.e = "Table" /\ Step /\ tab' = E.opts /\ UNCHANGED nwf
          /\ LET lost == {k \in 1..Len(E.decls) : ~Registered(E.decls[k], E.opts)}
             IN (lost = {} /\ Len(E.decls) = 6) \/ Bad(-1, {"table"})
TRun == /\ E.e = "Run" /\ Step /\ UNCHANGED tab
        /\ LET r == ParseAll(tab, Norm(E.init), E.env, E.echoOn, E.thr)
               wrong == {n \in Clauses : Violated(E, r, n)}
           IN \* all primed variables first: TLC then evaluates the rest as a predicate (short-circuit)
              /\ nwf' = IF r.wf THEN nwf + 1 ELSE nwf
              /\ wrong = {} \/ Bad(E.id, wrong)
TOther == /\ E.e \notin {"Table", "Run"} /\ Step /\ UNCHANGED <<tab, nwf>>
          /\ E.e = "Meta" \/ Bad(-1, {"crash"})

Init == l = 1 /\ tab = <<>> /\ nwf = 0
Next == l <= Len(Lines) /\ (TTable \/ TRun \/ TOther)
Spec == Init /\ [][Next]_vars
Finished == (l = Len(Lines) + 1) => PrintT(<<"DONE", ToJson([n |-> Len(Lines), exact |-> nwf])>>)
=============================================================================
