---------------------------- MODULE TraceExprTree ----------------------------
(* Trace validation for C18.  Every Pair line carries two expression trees as *)
(* read back from the real mp::Expr objects (a: built twice independently and *)
(* once with shared sub-expressions, b: built once) and what the real         *)
(* mp::Equal and std::hash<mp::Expr> answered for them.  Each answer must be  *)
(* one ExprTree.tla allows.  A line that is not explained is printed as a BAD *)
(* record naming the violated clauses, and validation continues.              *)
EXTENDS ExprTree, Json, IOUtils, TLC
Lines == ndJsonDeserialize(IOEnv.TRACE)
VARIABLES l
vars == <<l, todo, res>>

E == Lines[l]
Bad(id, wrong) == PrintT(<<"BAD", ToJson([line |-> l, id |-> id, wrong |-> wrong])>>)
Step == l' = l + 1 /\ UNCHANGED <<todo, res>>

Answers == {"T", "F"}
IsHash(h) == h \notin {"U", "X"}

\* clauses about one tree (a or b) and clauses about the pair
Clauses == {"wf", "readback", "same", "sharing", "reflexive_a", "reflexive_b", "ab", "ba", "a2b", "symmetric",
            "transitive", "hash_refused_a", "hash_refused_b", "hash_same", "hash_equal"}
Violated(e, n) ==
  LET a == e.a  b == e.b  q == e.eq  h == e.h IN
  CASE n = "wf" -> ~(WellFormed(a) /\ WellFormed(b))
    \* the build with shared sub-expressions is the same tree
    [] n = "readback" -> e.a3 # a
    \* two independent builds of one tree, both directions
    [] n = "same" -> q.a1a2 \notin Allowed(a, a) \/ q.a2a1 \notin Allowed(a, a)
    [] n = "sharing" -> q.a1a3 \notin Allowed(a, a)
    [] n = "reflexive_a" -> q.a1a1 \notin Allowed(a, a)
    [] n = "reflexive_b" -> q.bb \notin Allowed(b, b)
    \* true exactly when the trees are structurally the same
    [] n = "ab" -> q.a1b \notin Allowed(a, b)
    [] n = "ba" -> q.ba1 \notin Allowed(b, a)
    [] n = "a2b" -> q.a2b \notin Allowed(a, b)
    \* directly on the recorded answers, whatever the trees are
    [] n = "symmetric" -> q.a1b \in Answers /\ q.ba1 \in Answers /\ q.a1b # q.ba1
    [] n = "transitive" -> q.a1a2 = "T" /\ q.a2b = "T" /\ q.a1b = "F"
    \* hashing refuses only what it may refuse
    [] n = "hash_refused_a" -> \E x \in {h.a1, h.a2, h.a3} : ~IsHash(x) /\ ~(x = "U" /\ HashMayRefuse(a))
    [] n = "hash_refused_b" -> ~IsHash(h.b) /\ ~(h.b = "U" /\ HashMayRefuse(b))
    [] n = "hash_same" -> \E x \in {h.a2, h.a3} : IsHash(h.a1) /\ IsHash(x) /\ x # h.a1
    \* equal expressions have equal hashes: by the specification and by the recorded answer
    [] n = "hash_equal" -> /\ IsHash(h.a1) /\ IsHash(h.b) /\ h.a1 # h.b
                           /\ StructEq(a, b) \/ q.a1b = "T"

TPair == /\ E.e = "Pair" /\ Step
         /\ LET wrong == {n \in Clauses : Violated(E, n)}
            IN wrong = {} \/ Bad(E.id, wrong)
TOther == /\ E.e # "Pair" /\ Step
          /\ E.e = "Meta" \/ Bad(-1, {"crash"})        \* Crash or anything unknown

Init == l = 1 /\ todo = <<>> /\ res = "T"
Next == l <= Len(Lines) /\ (TPair \/ TOther)
Spec == Init /\ [][Next]_vars
Finished == (l = Len(Lines) + 1) => PrintT(<<"DONE", ToJson([n |-> Len(Lines)])>>)
=============================================================================
