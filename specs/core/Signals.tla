------------------------------- MODULE Signals -------------------------------
(* SIGINT / SIGTERM handling of a solver driver (property C15):               *)
(* mp::internal::SignalHandler in src/solver.cc / include/mp/solver-app-base.h*)
(*                                                                            *)
(* Two processes.  MAIN runs the life of a driver, one step per individual    *)
(* store of the real code:                                                    *)
(*   constructor   CtorOrder  (set_interrupter, message pointer, message size,*)
(*                 stop_ := 0, signal(SIGINT), signal(SIGTERM))               *)
(*   SetHandler    SetOrder   (handler_ := 0, data_ := d, handler_ := h),     *)
(*                 once or twice                                              *)
(*   solve / report (polling Interrupter::Stop())                             *)
(*   destructor    DtorOrder  (set_interrupter(0), stop_ := 1, handler_ := 0, *)
(*                 message size := 0)                                         *)
(* SIG delivers up to MaxSig signals; a signal may arrive right after any     *)
(* store (and at the marked places in solve / report / after the destructor)  *)
(* and then runs HandleSigInt to completion before MAIN continues (it is a    *)
(* signal handler on the same thread).  The orders of the stores are          *)
(* parameters, so that the order of the code as it is and other orders (the   *)
(* one the code had before its repair) can be checked with the same model.    *)
(*                                                                            *)
(* Every step appends an event to `log`, in the vocabulary of the recorded    *)
(* traces.  The property is stated once, as a monitor over such logs          *)
(* (Violations), and is used both as the invariants of the model and to judge *)
(* the logs recorded from the real code (TraceSignals).                       *)
EXTENDS Integers, Sequences, FiniteSets

CONSTANTS CtorOrder, SetOrder, DtorOrder,     \* sequences of store names
          MaxSig                               \* signals per run

Sigs == {"INT", "TERM"}

----------------------------------------------------------------------------
(* events *)
Ev(e, id, fn, data, stop, status, inst) ==
  [e |-> e, id |-> id, fn |-> fn, data |-> data, stop |-> stop, status |-> status, inst |-> inst]
\* MAIN has reached a label; inst: the signals whose disposition is HandleSigInt there (as observed)
Point(id, inst)  == Ev("Point", id, 0, 0, FALSE, 0, inst)
Raise(sig)       == Ev("Raise", sig, 0, 0, FALSE, 0, <<>>)      \* a signal is delivered
Callback(fn, d)  == Ev("Callback", "", fn, d, FALSE, 0, <<>>)   \* the registered callback runs: function id, data id
Poll(stop)       == Ev("Poll", "", 0, 0, stop, 0, <<>>)         \* solver.interrupter()->Stop()
Exit(status)     == Ev("Exit", "", 0, 0, FALSE, status, <<>>)   \* the process ends
InstSeq(S) == (IF "INT" \in S THEN <<"INT">> ELSE <<>>) \o (IF "TERM" \in S THEN <<"TERM">> ELSE <<>>)

----------------------------------------------------------------------------
(* the property, as a monitor over a log.                                     *)
(* Registration k registers callback k with data k.                           *)
MInit == [inst |-> {},            \* signals whose handler is installed (signal() done)
          delivered |-> 0,        \* deliveries since installation, before teardown starts
          complete |-> 0,         \* last complete registration (0: none)
          mid |-> FALSE, new |-> 0,   \* inside SetHandler call `new`
          tearing |-> FALSE,      \* destructor running
          destroyed |-> FALSE,    \* destructor done
          pending |-> FALSE,      \* a delivery whose callback has not been seen yet
          allowed |-> {},         \* callbacks (0 = none) this delivery may make
          at |-> "",              \* where it arrived
          last |-> "",            \* last label reached
          mustExit |-> FALSE,     \* a third delivery: the process has to end with status 1
          over |-> FALSE,
          viol |-> {}]

V(inv, at) == [inv |-> inv, at |-> at]
Flag(m, inv) == [m EXCEPT !.viol = @ \cup {V(inv, m.at)}]

\* a pending delivery ends when the next event is not its callback: was none allowed?
Settle(m) == IF m.pending /\ 0 \notin m.allowed
               THEN [Flag(m, "CurrentReg") EXCEPT !.pending = FALSE]
               ELSE [m EXCEPT !.pending = FALSE]

OnPoint(m0, id, instNow) ==
  LET m == [Settle(m0) EXCEPT !.last = id, !.inst = {instNow[i] : i \in 1..Len(instNow)}] IN
  CASE id = "ctor.end"     -> (IF m.inst = Sigs THEN m ELSE Flag([m EXCEPT !.at = id], "Installed"))   \* both signals are handled
    [] id = "set1.begin"   -> [m EXCEPT !.mid = TRUE, !.new = 1]
    [] id = "set2.begin"   -> [m EXCEPT !.mid = TRUE, !.new = 2]
    [] id = "set1.end"     -> [m EXCEPT !.mid = FALSE, !.complete = 1]
    [] id = "set2.end"     -> [m EXCEPT !.mid = FALSE, !.complete = 2]
    [] id = "dtor.begin"   -> [m EXCEPT !.tearing = TRUE]
    [] id = "dtor.end"     -> [m EXCEPT !.tearing = FALSE, !.destroyed = TRUE]
    [] OTHER -> m

\* which callback a delivery may / must make now
AllowedNow(m) ==
  IF m.destroyed THEN {0}
  ELSE IF m.tearing THEN {0, m.complete}
  ELSE IF m.mid THEN {0, m.complete, m.new}
  ELSE {m.complete}

OnRaise(m0, sig) ==
  LET m == [Settle(m0) EXCEPT !.at = m0.last] IN
  IF sig \notin m.inst THEN m                 \* not installed: default action, not our concern
  ELSE IF m.tearing \/ m.destroyed
    THEN [m EXCEPT !.pending = TRUE, !.allowed = AllowedNow(m)]
  ELSE IF m.delivered = 2       \* the third
    THEN [m EXCEPT !.delivered = 3, !.mustExit = TRUE]
  ELSE [m EXCEPT !.delivered = @ + 1, !.pending = TRUE, !.allowed = AllowedNow(m)]

OnCallback(m, fn, data) ==
  LET mm == [m EXCEPT !.pending = FALSE] IN
  IF m.mustExit THEN Flag(mm, "Third")
  ELSE IF m.destroyed THEN Flag(mm, "AfterDtor")
  ELSE IF ~(fn = data /\ fn \in {1, 2}) THEN Flag(mm, "Paired")        \* not a registered (callback, data) pair
  ELSE IF ~m.pending \/ fn \notin m.allowed THEN Flag(mm, "CurrentReg")
  ELSE mm

\* a delivery while the handling was installed and alive must be seen by every later poll
OnPoll(m0, stop) ==
  LET m == Settle(m0) IN
  IF m.mustExit THEN Flag(m, "Third")
  ELSE IF m.delivered >= 1 /\ ~m.tearing /\ ~m.destroyed /\ ~stop THEN Flag(m, "NotLost")    \* at: the last delivery
  ELSE m

OnExit(m0, status) ==
  LET m == [Settle(m0) EXCEPT !.over = TRUE] IN
  IF m.mustExit THEN (IF status = 1 THEN [m EXCEPT !.mustExit = FALSE] ELSE Flag(m, "Third"))
  ELSE IF status = 1 /\ ~m.tearing /\ ~m.destroyed THEN Flag(m, "Third")     \* ended before the third delivery
  ELSE IF status \notin {0, 1} THEN Flag(m, "Crash")
  ELSE m

Feed(m, ev) ==
  IF m.over THEN Flag(m, "AfterExit")
  ELSE CASE ev.e = "Point" -> (IF m.mustExit THEN Flag(OnPoint(m, ev.id, ev.inst), "Third") ELSE OnPoint(m, ev.id, ev.inst))
         [] ev.e = "Raise" -> OnRaise(m, ev.id)
         [] ev.e = "Callback" -> OnCallback(m, ev.fn, ev.data)
         [] ev.e = "Poll" -> OnPoll(m, ev.stop)
         [] ev.e = "Exit" -> OnExit(m, ev.status)
         [] OTHER -> Flag(m, "Crash")

RECURSIVE Monitor(_, _, _)
Monitor(m, lg, i) == IF i > Len(lg) THEN m ELSE Monitor(Feed(m, lg[i]), lg, i + 1)
Violations(lg) == Monitor(MInit, lg, 1).viol
Violated(lg, inv) == \E v \in Violations(lg) : v.inv = inv

----------------------------------------------------------------------------
(* the model *)
VARIABLES nreg,        \* registrations in this run (1 or 2)
          pc,          \* index of MAIN's next step in Prog(nreg)
          here,        \* label just reached at which a signal can be delivered ("" = none)
          iset,        \* solver.interrupter() is the handler object
          msgsize,     \* signal_message_size_ (0 / 1)
          inst,        \* dispositions changed to HandleSigInt
          stop, handler, data,        \* stop_, handler_, data_
          exited,      \* -1 running, else exit status
          nsig, sched, \* signals delivered so far: how many, where and which
          log
vars == <<nreg, pc, here, iset, msgsize, inst, stop, handler, data, exited, nsig, sched, log>>

Store(fn, what, reg) == [op |-> "store", what |-> what, reg |-> reg, id |-> fn \o "." \o what]
Mark(id) == [op |-> "mark", what |-> "", reg |-> 0, id |-> id]
Place(id) == [op |-> "place", what |-> "", reg |-> 0, id |-> id]     \* a place in the driver where a signal can arrive
PollStep == [op |-> "poll", what |-> "", reg |-> 0, id |-> ""]
ExitStep == [op |-> "exit", what |-> "", reg |-> 0, id |-> ""]
Stores(fn, order, reg) == [i \in 1..Len(order) |-> Store(fn, order[i], reg)]

SetCall(k, fn) == <<Mark(fn \o ".begin")>> \o Stores(fn, SetOrder, k) \o <<Mark(fn \o ".end"), PollStep>>
Prog(n) ==
  <<Mark("ctor.begin")>> \o Stores("ctor", CtorOrder, 0) \o <<Mark("ctor.end"), PollStep>>
  \o SetCall(1, "set1")
  \o (IF n = 2 THEN SetCall(2, "set2") ELSE <<>>)
  \o <<PollStep, Place("solve"), PollStep, Place("report"), PollStep>>
  \o <<Mark("dtor.begin")>> \o Stores("dtor", DtorOrder, 0) \o <<Mark("dtor.end"), PollStep>>
  \o <<Place("after"), PollStep, ExitStep>>

Init == /\ nreg \in {1, 2} /\ pc = 1 /\ here = ""
        /\ iset = FALSE /\ msgsize = 0 /\ inst = {}
        /\ stop = 1 /\ handler = 0 /\ data = 0        \* static initialisers
        /\ exited = -1 /\ nsig = 0 /\ sched = <<>> /\ log = <<>>

Cur == Prog(nreg)[pc]
Running == exited = -1 /\ pc <= Len(Prog(nreg))

\* one store of the constructor / SetHandler / destructor
DoStore ==
  /\ Running /\ Cur.op = "store"
  /\ LET w == Cur.what IN
     /\ iset' = IF w = "interrupter" THEN TRUE ELSE IF w = "interrupter0" THEN FALSE ELSE iset
     /\ msgsize' = IF w = "msgsize" THEN 1 ELSE IF w = "msgsize0" THEN 0 ELSE msgsize
     /\ inst' = IF w = "sigint" THEN inst \cup {"INT"} ELSE IF w = "sigterm" THEN inst \cup {"TERM"} ELSE inst
     /\ stop' = IF w = "stop0" THEN 0 ELSE IF w = "stop1" THEN 1 ELSE stop
     /\ handler' = IF w = "handler" THEN Cur.reg ELSE IF w = "handler0" THEN 0 ELSE handler
     /\ data' = IF w = "data" THEN Cur.reg ELSE data
  /\ log' = Append(log, Point(Cur.id, InstSeq(inst'))) /\ here' = Cur.id /\ pc' = pc + 1
  /\ UNCHANGED <<nreg, exited, nsig, sched>>
DoMark ==
  /\ Running /\ Cur.op = "mark"
  /\ log' = Append(log, Point(Cur.id, InstSeq(inst))) /\ here' = "" /\ pc' = pc + 1
  /\ UNCHANGED <<nreg, iset, msgsize, inst, stop, handler, data, exited, nsig, sched>>
DoPlace ==
  /\ Running /\ Cur.op = "place"
  /\ log' = Append(log, Point(Cur.id, InstSeq(inst))) /\ here' = Cur.id /\ pc' = pc + 1
  /\ UNCHANGED <<nreg, iset, msgsize, inst, stop, handler, data, exited, nsig, sched>>
\* solver.interrupter()->Stop(): the handler object's stop_ != 0, or BasicSolver's own "false"
DoPoll ==
  /\ Running /\ Cur.op = "poll"
  /\ log' = Append(log, Poll(iset /\ stop # 0)) /\ here' = "" /\ pc' = pc + 1
  /\ UNCHANGED <<nreg, iset, msgsize, inst, stop, handler, data, exited, nsig, sched>>
DoExit ==
  /\ Running /\ Cur.op = "exit"
  /\ exited' = 0 /\ log' = Append(log, Exit(0)) /\ here' = "" /\ pc' = pc + 1
  /\ UNCHANGED <<nreg, iset, msgsize, inst, stop, handler, data, nsig, sched>>

\* HandleSigInt, atomically with respect to MAIN
Deliver(sig) ==
  /\ exited = -1 /\ here # "" /\ nsig < MaxSig /\ sig \in inst
  /\ nsig' = nsig + 1 /\ sched' = Append(sched, [pt |-> here, sig |-> sig])
  /\ IF stop > 1
       THEN /\ exited' = 1                                        \* _exit(1)
            /\ log' = log \o <<Raise(sig), Exit(1)>>
            /\ UNCHANGED stop
       ELSE /\ stop' = stop + 1
            /\ log' = log \o <<Raise(sig)>> \o (IF handler # 0 THEN <<Callback(handler, data)>> ELSE <<>>)
            /\ UNCHANGED exited
  /\ UNCHANGED <<nreg, pc, here, iset, msgsize, inst, handler, data>>      \* (the re-arming signal() changes nothing)
DeliverInt == Deliver("INT")
DeliverTerm == Deliver("TERM")

Main == DoStore \/ DoMark \/ DoPlace \/ DoPoll \/ DoExit
Next == DoStore \/ DoMark \/ DoPlace \/ DoPoll \/ DoExit \/ DeliverInt \/ DeliverTerm
Spec == Init /\ [][Next]_vars
Terminated == exited # -1

\* the invariants of DESIGN.md, over the log so far
NotLost    == ~Violated(log, "NotLost")
Paired     == ~Violated(log, "Paired")
CurrentReg == ~Violated(log, "CurrentReg")
Third      == ~Violated(log, "Third")
AfterDtor  == ~Violated(log, "AfterDtor")
Installed  == ~Violated(log, "Installed")
WellFormedLog == ~Violated(log, "Crash") /\ ~Violated(log, "AfterExit")
=============================================================================
