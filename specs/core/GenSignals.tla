------------------------------ MODULE GenSignals ------------------------------
(* Schedule generator for C15: the model with the store order of the code as  *)
(* it is.  Every behaviour that has ended (normal exit or _exit(1) in the     *)
(* handler) is printed as one case: the number of registrations, the schedule *)
(* (at which label which signal is delivered), the log the model predicts for *)
(* it and the invariants the model predicts to be violated.  The harness      *)
(* replays the schedule on the real code with the guarded call-outs.          *)
EXTENDS Signals, Json, TLC
CtorCode == <<"interrupter", "msgptr", "msgsize", "stop0", "sigint", "sigterm">>
SetCode == <<"handler0", "data", "handler">>
DtorCode == <<"interrupter0", "stop1", "handler0", "msgsize0">>
Emit == Terminated =>
  PrintT(<<"CASE", ToJson([nreg |-> nreg, sched |-> sched, log |-> log,
                           pred |-> {v.inv : v \in Violations(log)}])>>)
=============================================================================
