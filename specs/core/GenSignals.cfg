CONSTANTS
  CtorOrder <- CtorCode
  SetOrder <- SetCode
  DtorOrder <- DtorCode
  MaxSig = 3
SPECIFICATION Spec
INVARIANT Emit
CHECK_DEADLOCK FALSE
