CONSTANTS
  CtorOrder <- CtorPinned
  SetOrder <- SetPinned
  DtorOrder <- DtorPinned
  MaxSig = 3
SPECIFICATION Spec
INVARIANT Emit
CHECK_DEADLOCK FALSE
