---- MODULE MCOptions_TTrace_1790460342 ----
EXTENDS Sequences, TLCExt, Toolbox, Naturals, TLC, MCOptions

_expression ==
    LET MCOptions_TEExpression == INSTANCE MCOptions_TEExpression
    IN MCOptions_TEExpression!expression
----

_trace ==
    LET MCOptions_TETrace == INSTANCE MCOptions_TETrace
    IN MCOptions_TETrace!trace
----

_inv ==
    ~(
        TLCGet("level") = Len(_TETrace)
        /\
        st = ([name |-> <<"z", "z">>, txt |-> <<"z", "z", "<20>", "f">>, store |-> <<-7, <<"i">>, FALSE, {}>>, out |-> <<>>, err |-> FALSE, cmd |-> FALSE, thr |-> FALSE, pc |-> "done", wf |-> FALSE, opt |-> 0, pos |-> 4, tab |-> <<[name |-> <<"a">>, syn |-> <<<<"b">>>>, type |-> "int", wild |-> FALSE], [name |-> <<"s">>, syn |-> <<>>, type |-> "str", wild |-> FALSE], [name |-> <<"f">>, syn |-> <<>>, type |-> "flag", wild |-> FALSE], [name |-> <<"w", "*">>, syn |-> <<>>, type |-> "dbl", wild |-> TRUE]>>, echoOn |-> TRUE, eq |-> FALSE])
        /\
        items = (<<[txt |-> <<"z", "z">>, k |-> "error", o |-> 0, key |-> <<>>, v |-> 0, errs |-> <<[k |-> "unknown", o |-> 0, key |-> <<"z", "z">>, v |-> 0]>>], [txt |-> <<"f">>, k |-> "set", o |-> 3, key |-> <<>>, v |-> TRUE, errs |-> <<>>]>>)
    )
----

_init ==
    /\ items = _TETrace[1].items
    /\ st = _TETrace[1].st
----

_next ==
    /\ \E i,j \in DOMAIN _TETrace:
        /\ \/ /\ j = i + 1
              /\ i = TLCGet("level")
        /\ items  = _TETrace[i].items
        /\ items' = _TETrace[j].items
        /\ st  = _TETrace[i].st
        /\ st' = _TETrace[j].st

\* Uncomment the ASSUME below to write the states of the error trace
\* to the given file in Json format. Note that you can pass any tuple
\* to `JsonSerialize`. For example, a sub-sequence of _TETrace.
    \* ASSUME
    \*     LET J == INSTANCE Json
    \*         IN J!JsonSerialize("MCOptions_TTrace_1790460342.json", _TETrace)

=============================================================================

 Note that you can extract this module `MCOptions_TEExpression`
  to a dedicated file to reuse `expression` (the module in the 
  dedicated `MCOptions_TEExpression.tla` file takes precedence 
  over the module `MCOptions_TEExpression` below).

---- MODULE MCOptions_TEExpression ----
EXTENDS Sequences, TLCExt, Toolbox, Naturals, TLC, MCOptions

expression == 
    [
        \* To hide variables of the `MCOptions` spec from the error trace,
        \* remove the variables below.  The trace will be written in the order
        \* of the fields of this record.
        items |-> items
        ,st |-> st
        
        \* Put additional constant-, state-, and action-level expressions here:
        \* ,_stateNumber |-> _TEPosition
        \* ,_itemsUnchanged |-> items = items'
        
        \* Format the `items` variable as Json value.
        \* ,_itemsJson |->
        \*     LET J == INSTANCE Json
        \*     IN J!ToJson(items)
        
        \* Lastly, you may build expressions over arbitrary sets of states by
        \* leveraging the _TETrace operator.  For example, this is how to
        \* count the number of times a spec variable changed up to the current
        \* state in the trace.
        \* ,_itemsModCount |->
        \*     LET F[s \in DOMAIN _TETrace] ==
        \*         IF s = 1 THEN 0
        \*         ELSE IF _TETrace[s].items # _TETrace[s-1].items
        \*             THEN 1 + F[s-1] ELSE F[s-1]
        \*     IN F[_TEPosition - 1]
    ]

=============================================================================



Parsing and semantic processing can take forever if the trace below is long.
 In this case, it is advised to uncomment the module below to deserialize the
 trace from a generated binary file.

\*
\*---- MODULE MCOptions_TETrace ----
\*EXTENDS IOUtils, TLC, MCOptions
\*
\*trace == IODeserialize("MCOptions_TTrace_1790460342.bin", TRUE)
\*
\*=============================================================================
\*

---- MODULE MCOptions_TETrace ----
EXTENDS TLC, MCOptions

trace == 
    <<
    ([st |-> [name |-> <<>>, txt |-> <<"z", "z", "<20>", "f">>, store |-> <<-7, <<"i">>, FALSE, {}>>, out |-> <<>>, err |-> FALSE, cmd |-> FALSE, thr |-> FALSE, pc |-> "skip", wf |-> TRUE, opt |-> 0, pos |-> 1, tab |-> <<[name |-> <<"a">>, syn |-> <<<<"b">>>>, type |-> "int", wild |-> FALSE], [name |-> <<"s">>, syn |-> <<>>, type |-> "str", wild |-> FALSE], [name |-> <<"f">>, syn |-> <<>>, type |-> "flag", wild |-> FALSE], [name |-> <<"w", "*">>, syn |-> <<>>, type |-> "dbl", wild |-> TRUE]>>, echoOn |-> TRUE, eq |-> FALSE],items |-> <<[txt |-> <<"z", "z">>, k |-> "error", o |-> 0, key |-> <<>>, v |-> 0, errs |-> <<[k |-> "unknown", o |-> 0, key |-> <<"z", "z">>, v |-> 0]>>], [txt |-> <<"f">>, k |-> "set", o |-> 3, key |-> <<>>, v |-> TRUE, errs |-> <<>>]>>]),
    ([st |-> [name |-> <<>>, txt |-> <<"z", "z", "<20>", "f">>, store |-> <<-7, <<"i">>, FALSE, {}>>, out |-> <<>>, err |-> FALSE, cmd |-> FALSE, thr |-> FALSE, pc |-> "name", wf |-> TRUE, opt |-> 0, pos |-> 1, tab |-> <<[name |-> <<"a">>, syn |-> <<<<"b">>>>, type |-> "int", wild |-> FALSE], [name |-> <<"s">>, syn |-> <<>>, type |-> "str", wild |-> FALSE], [name |-> <<"f">>, syn |-> <<>>, type |-> "flag", wild |-> FALSE], [name |-> <<"w", "*">>, syn |-> <<>>, type |-> "dbl", wild |-> TRUE]>>, echoOn |-> TRUE, eq |-> FALSE],items |-> <<[txt |-> <<"z", "z">>, k |-> "error", o |-> 0, key |-> <<>>, v |-> 0, errs |-> <<[k |-> "unknown", o |-> 0, key |-> <<"z", "z">>, v |-> 0]>>], [txt |-> <<"f">>, k |-> "set", o |-> 3, key |-> <<>>, v |-> TRUE, errs |-> <<>>]>>]),
    ([st |-> [name |-> <<"z", "z">>, txt |-> <<"z", "z", "<20>", "f">>, store |-> <<-7, <<"i">>, FALSE, {}>>, out |-> <<>>, err |-> FALSE, cmd |-> FALSE, thr |-> FALSE, pc |-> "eq", wf |-> TRUE, opt |-> 0, pos |-> 3, tab |-> <<[name |-> <<"a">>, syn |-> <<<<"b">>>>, type |-> "int", wild |-> FALSE], [name |-> <<"s">>, syn |-> <<>>, type |-> "str", wild |-> FALSE], [name |-> <<"f">>, syn |-> <<>>, type |-> "flag", wild |-> FALSE], [name |-> <<"w", "*">>, syn |-> <<>>, type |-> "dbl", wild |-> TRUE]>>, echoOn |-> TRUE, eq |-> FALSE],items |-> <<[txt |-> <<"z", "z">>, k |-> "error", o |-> 0, key |-> <<>>, v |-> 0, errs |-> <<[k |-> "unknown", o |-> 0, key |-> <<"z", "z">>, v |-> 0]>>], [txt |-> <<"f">>, k |-> "set", o |-> 3, key |-> <<>>, v |-> TRUE, errs |-> <<>>]>>]),
    ([st |-> [name |-> <<"z", "z">>, txt |-> <<"z", "z", "<20>", "f">>, store |-> <<-7, <<"i">>, FALSE, {}>>, out |-> <<>>, err |-> FALSE, cmd |-> FALSE, thr |-> FALSE, pc |-> "find", wf |-> TRUE, opt |-> 0, pos |-> 4, tab |-> <<[name |-> <<"a">>, syn |-> <<<<"b">>>>, type |-> "int", wild |-> FALSE], [name |-> <<"s">>, syn |-> <<>>, type |-> "str", wild |-> FALSE], [name |-> <<"f">>, syn |-> <<>>, type |-> "flag", wild |-> FALSE], [name |-> <<"w", "*">>, syn |-> <<>>, type |-> "dbl", wild |-> TRUE]>>, echoOn |-> TRUE, eq |-> FALSE],items |-> <<[txt |-> <<"z", "z">>, k |-> "error", o |-> 0, key |-> <<>>, v |-> 0, errs |-> <<[k |-> "unknown", o |-> 0, key |-> <<"z", "z">>, v |-> 0]>>], [txt |-> <<"f">>, k |-> "set", o |-> 3, key |-> <<>>, v |-> TRUE, errs |-> <<>>]>>]),
    ([st |-> [name |-> <<"z", "z">>, txt |-> <<"z", "z", "<20>", "f">>, store |-> <<-7, <<"i">>, FALSE, {}>>, out |-> <<>>, err |-> FALSE, cmd |-> FALSE, thr |-> FALSE, pc |-> "unknown", wf |-> TRUE, opt |-> 0, pos |-> 4, tab |-> <<[name |-> <<"a">>, syn |-> <<<<"b">>>>, type |-> "int", wild |-> FALSE], [name |-> <<"s">>, syn |-> <<>>, type |-> "str", wild |-> FALSE], [name |-> <<"f">>, syn |-> <<>>, type |-> "flag", wild |-> FALSE], [name |-> <<"w", "*">>, syn |-> <<>>, type |-> "dbl", wild |-> TRUE]>>, echoOn |-> TRUE, eq |-> FALSE],items |-> <<[txt |-> <<"z", "z">>, k |-> "error", o |-> 0, key |-> <<>>, v |-> 0, errs |-> <<[k |-> "unknown", o |-> 0, key |-> <<"z", "z">>, v |-> 0]>>], [txt |-> <<"f">>, k |-> "set", o |-> 3, key |-> <<>>, v |-> TRUE, errs |-> <<>>]>>]),
    ([st |-> [name |-> <<"z", "z">>, txt |-> <<"z", "z", "<20>", "f">>, store |-> <<-7, <<"i">>, FALSE, {}>>, out |-> <<>>, err |-> FALSE, cmd |-> FALSE, thr |-> FALSE, pc |-> "done", wf |-> FALSE, opt |-> 0, pos |-> 4, tab |-> <<[name |-> <<"a">>, syn |-> <<<<"b">>>>, type |-> "int", wild |-> FALSE], [name |-> <<"s">>, syn |-> <<>>, type |-> "str", wild |-> FALSE], [name |-> <<"f">>, syn |-> <<>>, type |-> "flag", wild |-> FALSE], [name |-> <<"w", "*">>, syn |-> <<>>, type |-> "dbl", wild |-> TRUE]>>, echoOn |-> TRUE, eq |-> FALSE],items |-> <<[txt |-> <<"z", "z">>, k |-> "error", o |-> 0, key |-> <<>>, v |-> 0, errs |-> <<[k |-> "unknown", o |-> 0, key |-> <<"z", "z">>, v |-> 0]>>], [txt |-> <<"f">>, k |-> "set", o |-> 3, key |-> <<>>, v |-> TRUE, errs |-> <<>>]>>])
    >>
----


=============================================================================

---- CONFIG MCOptions_TTrace_1790460342 ----
CONSTANTS
    MaxLen = 4

INVARIANT
    _inv

CHECK_DEADLOCK
    \* CHECK_DEADLOCK off because of PROPERTY or INVARIANT above.
    FALSE

INIT
    _init

NEXT
    _next

CONSTANT
    _TETrace <- _trace

ALIAS
    _expression
=============================================================================
\* Generated on Sat Sep 26 22:06:15 UTC 2026