------------------------------ MODULE MCOptions ------------------------------
(* Design check for C11 on a small table (int "a" with synonym "b", string    *)
(* "s", flag "f", wildcard real "w*").  Two families of initial states:       *)
(*  raw   every text of up to MaxLen characters over a 12-character alphabet  *)
(*        (names, upper case, blank, '=', '?', quote, digit, point), in       *)
(*        environment and command-line mode: the cursor never passes the NUL, *)
(*        the machine terminates, queries / unknown names / values to flags   *)
(*        never change a value;                                               *)
(*  items every sequence of up to 2 well-formed items rendered to text        *)
(*        (name or synonym in either case, with '=', blank or ' = ', quoted   *)
(*        or bare, query, unknown, value to a flag): the machine recovers     *)
(*        exactly the items - values, order of overriding, events, errors.    *)
EXTENDS Options, TLC
CONSTANT MaxLen
VARIABLES st, items
vars == <<st, items>>

T(a) == <<a>>
Tab == << [name |-> <<"a">>, syn |-> <<<<"b">>>>, type |-> "int", wild |-> FALSE],
          [name |-> <<"s">>, syn |-> <<>>, type |-> "str", wild |-> FALSE],
          [name |-> <<"f">>, syn |-> <<>>, type |-> "flag", wild |-> FALSE],
          [name |-> <<"w", "*">>, syn |-> <<>>, type |-> "dbl", wild |-> TRUE] >>
Init0 == << -7, <<"i">>, FALSE, {} >>
Alphabet == {"a", "B", "s", "f", "w", "z", "<20>", "=", "?", "'", "1", "."}
Texts == UNION {[1..n -> Alphabet] : n \in 0..MaxLen}

\* ---- well-formed items: [text, the abstract effect]
SetItems ==
  {[txt |-> nm \o sep \o val.t, k |-> "set", o |-> 1, key |-> <<>>, v |-> val.v, errs |-> <<>>] :
      nm \in {<<"a">>, <<"A">>, <<"b">>, <<"B">>}, sep \in {<<"=">>, <<"<20>">>, <<"<20>", "=", "<20>">>},
      val \in {[t |-> <<"1">>, v |-> 1], [t |-> <<"-", "1", "1">>, v |-> -11]}}
  \cup {[txt |-> <<"s">> \o sep \o val.t, k |-> "set", o |-> 2, key |-> <<>>, v |-> val.v, errs |-> <<>>] :
      sep \in {<<"=">>, <<"<20>">>},
      val \in {[t |-> <<"z", "1">>, v |-> <<"z", "1">>], [t |-> <<"'", "z", "<20>", "=", "'">>, v |-> <<"z", "<20>", "=">>],
               [t |-> <<"'", "'">>, v |-> <<>>]}}
  \cup {[txt |-> <<"f">>, k |-> "set", o |-> 3, key |-> <<>>, v |-> TRUE, errs |-> <<>>]}
  \cup {[txt |-> <<"w", "1", "=">> \o val.t, k |-> "set", o |-> 4, key |-> <<"1">>, v |-> val.v, errs |-> <<>>] :
      val \in {[t |-> <<"1", ".", "1">>, v |-> 1100], [t |-> <<".", "1">>, v |-> 100]}}
OtherItems ==
  {[txt |-> <<"a", "=", "?">>, k |-> "query", o |-> 1, key |-> <<>>, v |-> 0, errs |-> <<>>],
   [txt |-> <<"S", "<20>", "?">>, k |-> "query", o |-> 2, key |-> <<>>, v |-> 0, errs |-> <<>>],
   [txt |-> <<"w", "1", "=", "?">>, k |-> "query", o |-> 4, key |-> <<"1">>, v |-> 0, errs |-> <<>>],
   [txt |-> <<"z", "=", "1">>, k |-> "error", o |-> 0, key |-> <<>>, v |-> 0, errs |-> <<Unknown(<<"z">>), Unknown(<<"1">>)>>],
   [txt |-> <<"z", "z">>, k |-> "error", o |-> 0, key |-> <<>>, v |-> 0, errs |-> <<Unknown(<<"z", "z">>)>>],
   [txt |-> <<"w", "*", "=", "1">>, k |-> "error", o |-> 0, key |-> <<>>, v |-> 0,
    errs |-> <<Unknown(<<"w", "*">>), Unknown(<<"1">>)>>],
   [txt |-> <<"f", "=", "1">>, k |-> "error", o |-> 0, key |-> <<>>, v |-> 0, errs |-> <<FlagArg(<<"f">>)>>]}
Items == SetItems \cup OtherItems
\* an unknown name is only generated last: what follows it could be meant as its value
\* (the machine gives up on such texts, see StepUnknown)
IsUnknownItem(it) == it.k = "error" /\ it.errs[1].k = "unknown"
ItemSeqs == {q \in UNION {[1..n -> Items] : n \in 1..2} : \A i \in 1..(Len(q) - 1) : ~IsUnknownItem(q[i])}
RECURSIVE Render(_, _)
Render(is, i) == IF i > Len(is) THEN <<>> ELSE is[i].txt \o (IF i < Len(is) THEN <<"<20>">> ELSE <<>>) \o Render(is, i + 1)

\* ---- the reference semantics of a sequence of items (no text involved)
RECURSIVE Apply(_, _, _)
\* acc = [store, out, err]
Apply(is, i, acc) ==
  IF i > Len(is) THEN acc
  ELSE LET it == is[i] IN
    Apply(is, i + 1,
      CASE it.k = "set" ->
             [acc EXCEPT !.store[it.o] = IF it.o = 4 THEN {x \in @ : x.k # it.key} \cup {[k |-> it.key, v |-> it.v]} ELSE it.v,
                         !.out = Append(@, Echo(it.o, it.key, IF it.o = 3 THEN IV(0) ELSE IF it.o = 2 THEN SV(it.v) ELSE IV(it.v)))]
        [] it.k = "query" ->
             [acc EXCEPT !.out = Append(@, Echo(it.o, it.key,
                 IF it.o = 4 THEN IV(IF \E x \in acc.store[4] : x.k = it.key THEN (CHOOSE x \in acc.store[4] : x.k = it.key).v ELSE 0)
                 ELSE IF it.o = 2 THEN SV(acc.store[2]) ELSE IV(acc.store[it.o])))]
        [] it.k = "error" -> [acc EXCEPT !.out = @ \o it.errs, !.err = TRUE])
Expected == Apply(items, 1, [store |-> Init0, out |-> <<>>, err |-> FALSE])

Init == \/ /\ items = <<>>
           /\ \E txt \in Texts, m \in {<<FALSE, FALSE>>, <<TRUE, FALSE>>, <<FALSE, TRUE>>} :
                 st = Start(Tab, Init0, txt, m[1], TRUE, m[2], <<>>, FALSE)
        \/ /\ items \in ItemSeqs
           /\ st = Start(Tab, Init0, Render(items, 1), FALSE, TRUE, FALSE, <<>>, FALSE)

DoSkip == st.pc = "skip" /\ st' = StepSkip(st) /\ UNCHANGED items
DoName == st.pc = "name" /\ st' = StepName(st) /\ UNCHANGED items
DoEq == st.pc = "eq" /\ st' = StepEq(st) /\ UNCHANGED items
DoFind == st.pc = "find" /\ st' = StepFind(st) /\ UNCHANGED items
DoUnknown == st.pc = "unknown" /\ st' = StepUnknown(st) /\ UNCHANGED items
DoQuery == st.pc = "query" /\ st' = StepQuery(st) /\ UNCHANGED items
DoFlagArg == st.pc = "flagarg" /\ st' = StepFlagArg(st) /\ UNCHANGED items
DoParse == st.pc = "parse" /\ st' = StepParse(st) /\ UNCHANGED items
Stutter == Halted(st) /\ UNCHANGED vars
Step == DoSkip \/ DoName \/ DoEq \/ DoFind \/ DoUnknown \/ DoQuery \/ DoFlagArg \/ DoParse
Next == DoSkip \/ DoName \/ DoEq \/ DoFind \/ DoUnknown \/ DoQuery \/ DoFlagArg \/ DoParse \/ Stutter
Spec == Init /\ [][Next]_vars /\ WF_vars(Step)

\* ---- invariants
Cursor == CursorOK(st)
TableOK == \A i \in 1..Len(Tab) : Unambiguous(Tab, Tab[i].name)
Typed == /\ st.store[1] \in Int /\ st.store[3] \in BOOLEAN
         /\ \A x \in st.store[4] : x.v \in Int
         /\ \A x, y \in st.store[4] : x.k = y.k => x = y
\* Run (used by trace validation) is the same function as the stepwise machine
RunAgrees == Halted(st) => Run(st) = st
\* the parser recovers the items
Faithful == (items # <<>> /\ Halted(st)) =>
  /\ st.wf /\ st.pc = "done"
  /\ st.store = Expected.store
  /\ st.out = Expected.out
  /\ st.err = Expected.err
\* an error never appears without its report, and a report sets the flag
Accounting == st.err = (\E i \in 1..Len(st.out) : st.out[i].k \in {"unknown", "flagarg"})
\* with a throwing error handler the first error ends the parse
Throwing == (st.thr /\ st.err) => st.pc = "threw"

\* ---- action properties
StoreKept == [][st.pc \in {"skip", "name", "eq", "find", "unknown", "query", "flagarg"} => st'.store = st.store]_vars
ErrorsFlagged == [][(st.pc \in {"unknown", "flagarg"} /\ st'.wf) => (st'.err /\ Len(st'.out) = Len(st.out) + 1)]_vars
OnlyTarget == [][st.pc = "parse" => \A i \in 1..Len(Tab) : i # st.opt => st'.store[i] = st.store[i]]_vars
Monotone == [][st'.pos >= st.pos]_vars
Terminates == <>[]Halted(st)
=============================================================================
