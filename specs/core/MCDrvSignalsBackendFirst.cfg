CONSTANT Design = "backend_destroyed_first"
SPECIFICATION Spec
INVARIANT InvNotLost
INVARIANT InvInterruptible
INVARIANT InvEveryCallback
INVARIANT InvThird
INVARIANT InvExported
INVARIANT InvAfterTeardown
CHECK_DEADLOCK TRUE
