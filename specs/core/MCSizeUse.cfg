CONSTANT Design = "checked"
INIT Init
NEXT Next
INVARIANT Holds
