CONSTANTS
  NumAtoms = {"n0", "n1"}
  IdxAtoms = {"i0", "i1"}
  FuncAtoms = {"f0", "f1", "f3"}
  StrAtoms = {"sa", "sb"}
  MaxArgs = 2
  MaxBP = 1
  OpMut = "succ"
SPECIFICATION Spec
INVARIANT Finished
CHECK_DEADLOCK FALSE
