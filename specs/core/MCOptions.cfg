CONSTANT MaxLen = 4
SPECIFICATION Spec
INVARIANT Cursor
INVARIANT TableOK
INVARIANT Typed
INVARIANT RunAgrees
INVARIANT Faithful
INVARIANT Accounting
INVARIANT Throwing
PROPERTY StoreKept
PROPERTY ErrorsFlagged
PROPERTY OnlyTarget
PROPERTY Monotone
PROPERTY Terminates
CHECK_DEADLOCK FALSE
