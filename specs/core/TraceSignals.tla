----------------------------- MODULE TraceSignals -----------------------------
(* Trace validation for C15.  Every Run line is one child process of the      *)
(* harness: a schedule (which signal is raised at which label) replayed on    *)
(* the real SignalHandler, with the log of what happened there: labels        *)
(* reached (and the signal dispositions observed at them), deliveries,        *)
(* callback invocations (function id, data id), Stop() polls, exit status.    *)
(* The log is judged by the monitor of Signals.tla - the same one that states *)
(* the invariants of the model.  A log with violations is printed as a BAD    *)
(* record (invariant, label at which the offending signal arrived) and        *)
(* validation continues.  For information the line also carries the log the   *)
(* model (with the store order of the code as it is) predicted; DONE reports   *)
(* for how many schedules the real code did exactly what the model said.      *)
EXTENDS Integers, Sequences, Json, IOUtils, TLC
\* only the monitor part of Signals is used: its model variables are not needed here
S == INSTANCE Signals WITH CtorOrder <- <<>>, SetOrder <- <<>>, DtorOrder <- <<>>, MaxSig <- 0,
                           nreg <- 0, pc <- 0, here <- "", iset <- FALSE, msgsize <- 0, inst <- {}, stop <- 0,
                           handler <- 0, data <- 0, exited <- 0, nsig <- 0, sched <- <<>>, log <- <<>>
Lines == ndJsonDeserialize(IOEnv.TRACE)
VARIABLES l, agree, predicted
vars == <<l, agree, predicted>>

E == Lines[l]
Bad(id, viol) == PrintT(<<"BAD", ToJson([line |-> l, id |-> id, viol |-> viol])>>)

TRun == /\ E.e = "Run"
        /\ l' = l + 1
        /\ agree' = IF E.ev = E.model THEN agree + 1 ELSE agree
        /\ LET viol == S!Violations(E.ev) IN
           /\ predicted' = IF {v.inv : v \in viol} = {E.pred[i] : i \in 1..Len(E.pred)} THEN predicted + 1 ELSE predicted
           /\ viol = {} \/ Bad(E.id, viol)
TOther == /\ E.e # "Run"
          /\ l' = l + 1 /\ UNCHANGED <<agree, predicted>>
          /\ E.e = "Meta" \/ Bad(-1, {[inv |-> "Crash", at |-> "harness"]})

Init == l = 1 /\ agree = 0 /\ predicted = 0
Next == l <= Len(Lines) /\ (TRun \/ TOther)
Spec == Init /\ [][Next]_vars
Finished == (l = Len(Lines) + 1) =>
  PrintT(<<"DONE", ToJson([n |-> Len(Lines), agree |-> agree, predicted |-> predicted])>>)
=============================================================================
