CONSTANTS
  CtorOrder <- CtorCode
  SetOrder <- SetCode
  DtorOrder <- DtorCode
  MaxSig = 3
SPECIFICATION Spec
INVARIANT NotLost
INVARIANT Paired
INVARIANT CurrentReg
INVARIANT Third
INVARIANT AfterDtor
INVARIANT Installed
INVARIANT WellFormedLog
INVARIANT Ends
INVARIANT Bounded
CHECK_DEADLOCK FALSE
