CONSTANT Design = "export_skips_register"
SPECIFICATION Spec
INVARIANT InvNotLost
INVARIANT InvInterruptible
INVARIANT InvEveryCallback
INVARIANT InvThird
INVARIANT InvExported
CHECK_DEADLOCK TRUE
