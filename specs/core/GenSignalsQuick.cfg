CONSTANTS
  CtorOrder <- CtorPinned
  SetOrder <- SetPinned
  DtorOrder <- DtorPinned
  MaxSig = 2
SPECIFICATION Spec
INVARIANT Emit
CHECK_DEADLOCK FALSE
