--------------------------- MODULE TraceSolveCodes ---------------------------
(* Trace validation for C10: each driver run on the real code (scripted      *)
(* backend answering with one status code) must be a behaviour of SolveCodes. *)
(* Events per run: Case, Classify, [ComputeIIS], [Ray], [DRay], Sol, Exit.    *)
(* Table events carry the rows printed by the -! switch.                      *)
EXTENDS SolveCodes, Json, IOUtils, TLC
Lines == ndJsonDeserialize(IOEnv.TRACE)
VARIABLES l, cur, seen
\* cur: the running case; seen: which events were observed in it
vars == <<l, cur, seen>>
\* abort: the backend delivers the code by exception (StdBackend::Abort / MP_RAISE_WITH_CODE) instead of
\* SetStatus: no classification or solution reporting takes place, but the code written is still the code reported
\* alt: the number of further solutions the backend reports before the final result (written to <sol:stub>N.sol)
NoCase == [id |-> -1, code |-> 0, hasPrimal |-> FALSE, hasDual |-> FALSE, hasObj |-> FALSE, abort |-> FALSE, alt |-> 0]

E == Lines[l]
Bad(what) == PrintT(<<"BAD", ToJson([line |-> l, id |-> cur.id, code |-> cur.code, what |-> what])>>)
Step == l' = l + 1

TCase == /\ E.e = "Case" /\ Step
         /\ cur' = [id |-> E.id, code |-> E.code, hasPrimal |-> E.hasPrimal, hasDual |-> E.hasDual, hasObj |-> E.hasObj, abort |-> E.abort, alt |-> E.alt]
         /\ seen' = {}
TClassify ==
  /\ E.e = "Classify" /\ Step /\ UNCHANGED cur /\ seen' = seen \cup {"Classify"}
  /\ LET c == cur.code
         wrong == {n \in {"code", "solved", "sof", "inf", "unb", "indiff", "infunb"} :
                     CASE n = "code"   -> E.code # c
                       [] n = "solved" -> E.solved # Solved(c)
                       [] n = "sof"    -> E.sof \notin SolvedOrFeasibleAllowed(c)
                       [] n = "inf"    -> E.inf # Infeasible(c)
                       [] n = "unb"    -> E.unb # Unbounded(c)
                       [] n = "indiff" -> E.indiff # IndiffInfOrUnb(c)
                       [] n = "infunb" -> E.infunb # InfOrUnb(c)}
     IN wrong = {} \/ Bad([k |-> "classify", wrong |-> wrong])
TFlag == /\ E.e \in {"ComputeIIS", "Ray", "DRay"} /\ Step /\ UNCHANGED cur
         /\ seen' = seen \cup {E.e}
         /\ "Classify" \in seen \/ Bad([k |-> "order", ev |-> E.e])
TSol ==
  /\ E.e = "Sol" /\ Step /\ UNCHANGED cur /\ seen' = seen \cup {"Sol"}
  /\ LET c == cur.code
         wrong == {n \in {"present", "code", "obj", "nprimal", "ndual"} :
                     CASE n = "present" -> ~E.present
                       [] n = "code"    -> E.present /\ E.code # c
                       [] n = "obj"     -> E.present /\ E.objShown \notin (IF cur.abort THEN {FALSE} ELSE ObjShownAllowed(c, cur.hasObj))
                       [] n = "nprimal" -> E.present /\ ~cur.abort /\ E.nprimal # (IF cur.hasPrimal THEN E.nvars ELSE 0)
                       [] n = "ndual"   -> E.present /\ ~cur.abort /\ E.ndual # (IF cur.hasDual THEN E.ncons ELSE 0)}
     IN wrong = {} \/ Bad([k |-> "sol", wrong |-> wrong])
\* the files of the further solutions: as many as reported, each readable, each with the code the backend reported
TAlt ==
  /\ E.e = "Alt" /\ Step /\ UNCHANGED cur /\ seen' = seen \cup {"Alt"}
  /\ LET wrong == {n \in {"count", "readable", "code"} :
                     CASE n = "count"    -> E.n # cur.alt
                       [] n = "readable" -> E.unreadable # 0
                       [] n = "code"     -> \E i \in 1..Len(E.codes) : E.codes[i] # cur.code}
     IN wrong = {} \/ Bad([k |-> "alt", wrong |-> wrong])
TExit ==
  /\ E.e = "Exit" /\ Step /\ UNCHANGED <<cur, seen>>
  /\ LET c == cur.code
         wrong == {n \in {"rc", "classify", "sol", "iis", "ray", "dray", "alt"} :
                     CASE n = "rc"       -> ~cur.abort /\ E.rc # 0
                       [] n = "classify" -> ~cur.abort /\ "Classify" \notin seen
                       [] n = "sol"      -> "Sol" \notin seen
                       [] n = "alt"      -> cur.alt > 0 /\ "Alt" \notin seen
                       [] n = "iis"      -> ~cur.abort /\ ("ComputeIIS" \in seen) # WantsIIS(c)
                       [] n = "ray"      -> ~cur.abort /\ ("Ray" \in seen) # WantsRay(c)
                       [] n = "dray"     -> ~cur.abort /\ ("DRay" \in seen) # WantsDRay(c)}
     IN wrong = {} \/ Bad([k |-> "exit", wrong |-> wrong])
\* -! table: every documented range appears with its bounds
TTable ==
  /\ E.e = "Table" /\ Step /\ UNCHANGED <<cur, seen>>
  /\ LET rows == {<<E.rows[i].lo, E.rows[i].hi>> : i \in 1..Len(E.rows)}
         missing == {i \in 1..Len(Ranges) : <<Ranges[i].lo, Ranges[i].hi>> \notin rows}
         extra == {r \in rows : r[1] # r[2] /\ ~\E i \in 1..Len(Ranges) : <<Ranges[i].lo, Ranges[i].hi>> = r}
         \* every single code of the table is listed under its own class: the last range row before it contains it
         Under(i) == LET before == {j \in 1..(i - 1) : E.rows[j].lo # E.rows[j].hi}
                     IN before # {} /\ LET j == CHOOSE j \in before : \A q \in before : q <= j
                                       IN E.rows[j].lo <= E.rows[i].lo /\ E.rows[i].lo <= E.rows[j].hi
         misplaced == {E.rows[i].lo : i \in {i \in 1..Len(E.rows) : E.rows[i].lo = E.rows[i].hi /\ ~Under(i)}}
         \* ... and the scripted backend's own codes, registered at the first / last code of a class, are there
         own == {200, 299, 400, 500, 501, 421}
         unlisted == {c \in own : ~\E i \in 1..Len(E.rows) : E.rows[i].lo = c /\ E.rows[i].hi = c}
     IN (missing = {} /\ extra = {} /\ misplaced = {} /\ unlisted = {})
        \/ Bad([k |-> "table", missing |-> missing, extra |-> extra, misplaced |-> misplaced, unlisted |-> unlisted])
TOther == /\ E.e \notin {"Case", "Classify", "ComputeIIS", "Ray", "DRay", "Sol", "Alt", "Exit", "Table"}
          /\ Step /\ UNCHANGED <<cur, seen>>
          /\ E.e = "Meta" \/ Bad([k |-> "event", ev |-> E.e])

Init == l = 1 /\ cur = NoCase /\ seen = {}
Next == l <= Len(Lines) /\ (TCase \/ TClassify \/ TFlag \/ TSol \/ TAlt \/ TExit \/ TTable \/ TOther)
Spec == Init /\ [][Next]_vars
Finished == (l = Len(Lines) + 1) => PrintT(<<"DONE", ToJson([n |-> Len(Lines)])>>)
=============================================================================
