----------------------------- MODULE MCExprTree -----------------------------
(* Design check for C18: the comparison machine of ExprTree (the visitor      *)
(* methods of ExprComparator as a work-list) run on every pair               *)
(*   (t, t), (t, m), (m, t)   for t in the complete first layer and the       *)
(* sampled second layer, m every single-point mutant of t, plus cross pairs   *)
(* of representatives, always terminates and answers exactly structural       *)
(* identity (TLA+'s own equality of the two records is the independent        *)
(* reference), refusing only documented-unsupported kinds.  Also checks the   *)
(* generators: every tree and mutant is well-formed, every mutant differs.    *)
EXTENDS ExprTree, TLC
VARIABLES a, b
vars == <<a, b, todo, res>>

Universe == Depth1 \cup {p.t : p \in Plugged(RepKinds)}
Cross == RepChildren \cup {p.t : p \in Plugged({"call"})}

Init == /\ a \in Universe
        /\ \/ b = a
           \/ b \in {mm.m : mm \in Mutants(a)}
           \/ a \in Cross /\ b \in Cross
        /\ \/ MInit(a, b)
           \/ MInit(b, a)
Keep == UNCHANGED <<a, b>>
DoKindMismatch == KindMismatch /\ Keep
DoVisitScalar == VisitScalar /\ Keep
DoVisitFixed == VisitFixed /\ Keep
DoVisitPLTerm == VisitPLTerm /\ Keep
DoVisitCall == VisitCall /\ Keep
DoVisitStringArg == VisitStringArg /\ Keep
DoVisitNestedCall == VisitNestedCall /\ Keep
DoVisitVarArg == VisitVarArg /\ Keep
DoArityTest == ArityTest /\ Keep
DoVisitUnsupported == VisitUnsupported /\ Keep
DoFinish == Finish /\ Keep
Step == MNext /\ Keep
Stutter == res # "run" /\ UNCHANGED vars
Next == DoKindMismatch \/ DoVisitScalar \/ DoVisitFixed \/ DoVisitPLTerm \/ DoVisitCall \/ DoVisitStringArg
          \/ DoVisitNestedCall \/ DoVisitVarArg \/ DoArityTest \/ DoVisitUnsupported \/ DoFinish \/ Stutter
Spec == Init /\ [][Next]_vars /\ WF_vars(Step)

Fresh == res = "run" /\ Len(todo) = 1 /\ todo[1].ctx = "expr" /\ todo[1].x = a
Done == res # "run"

\* generators
GenOK == Fresh =>
  /\ WellFormed(a) /\ WellFormed(b)
  /\ \A mm \in Mutants(a) : WellFormed(mm.m) /\ ~StructEq(a, mm.m) /\ mm.m # a
\* the oracle is structural identity
OracleOK == StructEq(a, b) = (a = b) /\ StructEq(b, a) = StructEq(a, b) /\ StructEq(a, a)
\* the machine answers the oracle, and refuses only what may be refused
Answer == Done =>
  /\ res \in Allowed(a, b) /\ res \in Allowed(b, a)
  /\ res \in {"T", "F", "U"}
  /\ (~MayRefuse(a) /\ ~MayRefuse(b)) => res = B(a = b)
  /\ res = "T" => a = b
\* exactly one visitor method applies to a pair (the machine is deterministic)
Deterministic == res = "run" =>
  Cardinality({i \in 1..11 :
     CASE i = 1 -> ENABLED KindMismatch [] i = 2 -> ENABLED VisitScalar [] i = 3 -> ENABLED VisitFixed
       [] i = 4 -> ENABLED VisitPLTerm [] i = 5 -> ENABLED VisitCall [] i = 6 -> ENABLED VisitStringArg
       [] i = 7 -> ENABLED VisitNestedCall [] i = 8 -> ENABLED VisitVarArg [] i = 9 -> ENABLED ArityTest
       [] i = 10 -> ENABLED VisitUnsupported [] i = 11 -> ENABLED Finish}) = 1
\* the work-list never grows beyond the two trees
Bounded == Len(todo) <= Size(a) + Size(b) + 2
Terminates == <>[]Done
=============================================================================
