------------------------------- MODULE Options -------------------------------
(* Solver option parsing (property C11): src/solver.cc                        *)
(* BasicSolver::ParseOptions / ParseOptionString, SolverOptionManager::       *)
(* FindOption, internal::OptionHelper<T>::Parse.                              *)
(*                                                                            *)
(* Texts are sequences of characters; a character is a 1-character string, a  *)
(* byte without a printable form is written "<hh>" (so "<20>" is a blank,     *)
(* "<22>" a double quote).  The option table is a parameter (a sequence of    *)
(* records [name, syn, type, wild, builtin] with names as texts); the values  *)
(* of the options are kept in `store` (a sequence parallel to the table):     *)
(*   int -> integer, dbl -> integer (value * 1000), str -> text,              *)
(*   flag -> BOOLEAN, wildcard dbl -> set of [k |-> key body, v |-> value*1000]*)
(*                                                                            *)
(* The tokeniser is a machine over a record st with one step per stage of     *)
(* the loop body of ParseOptionString:                                        *)
(*   skip -> name -> eq -> find -> (unknown | query | flagarg | parse) -> skip *)
(* `pos` is the cursor (1-based; Len(txt)+1 is the terminating NUL).          *)
(* The same step function drives the design check (MCOptions: one TLC action  *)
(* per stage) and trace validation (TraceOptions: Run to completion).         *)
(*                                                                            *)
(* Only *well-formed* items are predicted exactly.  The first item that is    *)
(* not well-formed (no digits where a number is due, a number or closing      *)
(* quote followed by a non-blank, an unterminated quote, an empty value, a    *)
(* number outside the modelled grid, an ambiguous unknown assignment) sets    *)
(* wf = FALSE and ends the prediction: from there on the property only        *)
(* demands termination without memory errors and a consistent error count.    *)
EXTENDS Integers, Sequences, FiniteSets

Rng(q) == {q[i] : i \in 1..Len(q)}

----------------------------------------------------------------------------
(* characters *)
Space  == {"<20>", "<09>", "<0a>", "<0b>", "<0c>", "<0d>"}      \* isspace() in the C locale
Quotes == {"'", "<22>"}
Digits == {"0", "1", "2", "3", "4", "5", "6", "7", "8", "9"}
DigitVal == [d \in Digits |-> CASE d = "0" -> 0 [] d = "1" -> 1 [] d = "2" -> 2 [] d = "3" -> 3 [] d = "4" -> 4
                                [] d = "5" -> 5 [] d = "6" -> 6 [] d = "7" -> 7 [] d = "8" -> 8 [] d = "9" -> 9]
UpperSeq == <<"A", "B", "C", "D", "E", "F", "G", "H", "I", "J", "K", "L", "M", "N", "O", "P", "Q", "R", "S",
              "T", "U", "V", "W", "X", "Y", "Z">>
LowerSeq == <<"a", "b", "c", "d", "e", "f", "g", "h", "i", "j", "k", "l", "m", "n", "o", "p", "q", "r", "s",
              "t", "u", "v", "w", "x", "y", "z">>
LowTab == [c \in Rng(UpperSeq) |-> LowerSeq[CHOOSE i \in 1..26 : UpperSeq[i] = c]]
Low(c) == IF c \in DOMAIN LowTab THEN LowTab[c] ELSE c
LowerT(t) == [i \in 1..Len(t) |-> Low(t[i])]
SameNoCase(t, u) == Len(t) = Len(u) /\ \A i \in 1..Len(t) : Low(t[i]) = Low(u[i])       \* strcasecmp == 0

NUL == "NUL"
At(t, p) == IF p >= 1 /\ p <= Len(t) THEN t[p] ELSE NUL
Blank(c) == c \in Space \/ c = NUL

RECURSIVE SkipWhile(_, _, _)
\* first position >= p whose character is not in S; at most the NUL
SkipWhile(t, p, S) == IF p <= Len(t) /\ t[p] \in S THEN SkipWhile(t, p + 1, S) ELSE p
RECURSIVE SkipUntil(_, _, _)
\* first position >= p whose character is in S; at most the NUL
SkipUntil(t, p, S) == IF p <= Len(t) /\ t[p] \notin S THEN SkipUntil(t, p + 1, S) ELSE p
Sub(t, a, b) == IF a > b THEN <<>> ELSE SubSeq(t, a, b)       \* characters a..b

\* the words of a text: maximal runs of non-blank characters (how a registered name list "name syn1 syn2" is split)
RECURSIVE WordsFrom(_, _)
WordsFrom(t, p) ==
  LET a == SkipWhile(t, p, Space)  b == SkipUntil(t, a, Space)
  IN IF a > Len(t) THEN <<>> ELSE <<Sub(t, a, b - 1)>> \o WordsFrom(t, b)
Words(t) == WordsFrom(t, 1)

----------------------------------------------------------------------------
(* the option table *)
IsPrefix(h, t) == Len(h) <= Len(t) /\ \A i \in 1..Len(h) : t[i] = h[i]
IsSuffix(h, t) == Len(h) <= Len(t) /\ \A i \in 1..Len(h) : t[Len(t) - Len(h) + i] = h[i]
StarAt(n) == CHOOSE i \in 1..Len(n) : n[i] = "*"
WHead(n) == Sub(n, 1, StarAt(n) - 1)
WTail(n) == Sub(n, StarAt(n) + 1, Len(n))
\* SolverOption::wc_match for one pattern (case-sensitive)
WMatches(n, key) == IsPrefix(WHead(n), key) /\ IsSuffix(WTail(n), key) /\ Len(key) > Len(WTail(n))
\* ... with a body that does not overlap head and tail (anything else is not a well-formed key)
WProper(n, key) == Len(key) > Len(WHead(n)) + Len(WTail(n))
WBody(n, key) == Sub(key, Len(WHead(n)) + 1, Len(key) - Len(WTail(n)))
Patterns(o) == {o.name} \cup Rng(o.syn)

\* SolverOptionManager::FindOption(name, wildcardvalues = true): 0 = not found
ByName(tab, nm) == {i \in 1..Len(tab) : SameNoCase(tab[i].name, nm)}
BySyn(tab, nm) == {i \in 1..Len(tab) : \E j \in 1..Len(tab[i].syn) : SameNoCase(tab[i].syn[j], nm)}
ByWild(tab, nm) == {i \in 1..Len(tab) : tab[i].wild /\ \E n \in Patterns(tab[i]) : WMatches(n, nm)}
Find(tab, nm) ==
  IF ByName(tab, nm) # {} THEN (LET i == CHOOSE i \in ByName(tab, nm) : TRUE IN IF tab[i].wild THEN 0 ELSE i)
  ELSE IF BySyn(tab, nm) \cup ByWild(tab, nm) # {} THEN CHOOSE i \in BySyn(tab, nm) \cup ByWild(tab, nm) : TRUE
  ELSE 0
\* the lookup does not depend on the order of the table
Unambiguous(tab, nm) == Cardinality(ByName(tab, nm)) <= 1 /\
                        (ByName(tab, nm) = {} => Cardinality(BySyn(tab, nm) \cup ByWild(tab, nm)) <= 1)
KeyBody(o, nm) == LET n == CHOOSE n \in Patterns(o) : WMatches(n, nm) IN WBody(n, nm)
KeyProper(o, nm) == \A n \in Patterns(o) : WMatches(n, nm) => WProper(n, nm)
IsKnownName(tab, nm) == Find(tab, nm) # 0

----------------------------------------------------------------------------
(* typed values: OptionHelper<T>::Parse as (ok, value, next position).        *)
(* ok = FALSE: not a well-formed value of the modelled grid.                  *)
RECURSIVE NumVal(_, _, _)
NumVal(t, a, b) == IF a > b THEN 0 ELSE NumVal(t, a, b - 1) * 10 + DigitVal[t[b]]     \* digits a..b
Pow10(n) == CASE n = 0 -> 1 [] n = 1 -> 10 [] n = 2 -> 100 [] n = 3 -> 1000

\* strtol(s, &end, 10): optional sign, digits
ParseInt(t, p) ==
  LET neg == At(t, p) = "-"
      p1 == IF At(t, p) \in {"+", "-"} THEN p + 1 ELSE p
      p2 == SkipWhile(t, p1, Digits)
      n  == p2 - p1
  IN IF n = 0 \/ n > 6 \/ ~Blank(At(t, p2)) THEN [ok |-> FALSE, v |-> 0, p |-> p]
     ELSE [ok |-> TRUE, v |-> (IF neg THEN -1 ELSE 1) * NumVal(t, p1, p2 - 1), p |-> p2]
\* strtod(s, &end) on plain decimals: optional sign, digits, optional point and digits; value * 1000
ParseDbl(t, p) ==
  LET neg == At(t, p) = "-"
      p1 == IF At(t, p) \in {"+", "-"} THEN p + 1 ELSE p
      p2 == SkipWhile(t, p1, Digits)
      ni == p2 - p1
      dot == At(t, p2) = "."
      p3 == IF dot THEN SkipWhile(t, p2 + 1, Digits) ELSE p2
      nf == IF dot THEN p3 - p2 - 1 ELSE 0
  IN IF ni + nf = 0 \/ ni > 6 \/ nf > 3 \/ ~Blank(At(t, p3)) THEN [ok |-> FALSE, v |-> 0, p |-> p]
     ELSE [ok |-> TRUE,
           v |-> (IF neg THEN -1 ELSE 1) * (NumVal(t, p1, p2 - 1) * 1000 + NumVal(t, p2 + 1, p3 - 1) * Pow10(3 - nf)),
           p |-> p3]
\* a string: on the command line everything up to the end (or a newline);
\* otherwise quoted up to the matching quote, or a bare word
ParseStr(t, p, cmd) ==
  IF cmd THEN LET e == SkipUntil(t, p, {"<0a>"}) IN [ok |-> e > p, v |-> Sub(t, p, e - 1), p |-> e]
  ELSE IF At(t, p) \in Quotes
    THEN LET q == SkipUntil(t, p + 1, {t[p]})            \* the matching quote, or the NUL: never beyond
         IN IF q > Len(t) THEN [ok |-> FALSE, v |-> <<>>, p |-> q]                \* unterminated
            ELSE [ok |-> Blank(At(t, q + 1)), v |-> Sub(t, p + 1, q - 1), p |-> q + 1]
    ELSE LET e == SkipUntil(t, p, Space) IN [ok |-> e > p, v |-> Sub(t, p, e - 1), p |-> e]

----------------------------------------------------------------------------
(* the machine *)
\* events reported while parsing (echo lines and error-handler calls), in order
\* (values are tagged so that events with values of different types can be compared)
IV(n) == [t |-> "i", i |-> n, s |-> <<>>]
SV(s) == [t |-> "s", i |-> 0, s |-> s]
Echo(o, key, v) == [k |-> "echo", o |-> o, key |-> key, v |-> v]     \* "  name = value": option, wildcard key body, value
Unknown(nm) == [k |-> "unknown", o |-> 0, key |-> nm, v |-> IV(0)]    \* the name as typed
FlagArg(nm) == [k |-> "flagarg", o |-> 0, key |-> nm, v |-> IV(0)]    \* the name as typed

Start(tab, store, txt, cmd, echoOn, thr, out, err) ==
  [tab |-> tab, store |-> store, txt |-> txt, pos |-> 1, cmd |-> cmd, echoOn |-> echoOn, thr |-> thr,
   out |-> out, err |-> err, wf |-> TRUE, pc |-> "skip", name |-> <<>>, eq |-> FALSE, opt |-> 0]

Tagged(ty, v) == IF ty = "str" THEN SV(v) ELSE IF ty = "flag" THEN IV(0) ELSE IV(v)
Stored(st, o, key) ==    \* what echo_with_value prints
  IF st.tab[o].wild
    THEN IV(IF \E r \in st.store[o] : r.k = key THEN (CHOOSE r \in st.store[o] : r.k = key).v ELSE 0)
    ELSE Tagged(st.tab[o].type, st.store[o])
Say(st, ev) == IF st.echoOn THEN Append(st.out, ev) ELSE st.out
Fail(st, ev) == [st EXCEPT !.out = Append(st.out, ev), !.err = TRUE, !.pc = IF st.thr THEN "threw" ELSE "skip"]
GiveUp(st) == [st EXCEPT !.wf = FALSE, !.pc = "done"]

\* if (!*(s = SkipSpaces(s))) return;
StepSkip(st) == LET p == SkipWhile(st.txt, st.pos, Space)
                IN [st EXCEPT !.pos = p, !.pc = IF p > Len(st.txt) THEN "done" ELSE "name"]
\* while (*s && !isspace(*s) && *s != '=') ++s;
StepName(st) == LET e == SkipUntil(st.txt, st.pos, Space \cup {"="})
                IN [st EXCEPT !.name = Sub(st.txt, st.pos, e - 1), !.pos = e, !.pc = "eq"]
\* s = SkipSpaces(s); if (*s == '=') { s = SkipSpaces(s + 1); equal_sign = true; }
StepEq(st) == LET p == SkipWhile(st.txt, st.pos, Space)
              IN IF At(st.txt, p) = "=" THEN [st EXCEPT !.pos = SkipWhile(st.txt, p + 1, Space), !.eq = TRUE, !.pc = "find"]
                 ELSE [st EXCEPT !.pos = p, !.eq = FALSE, !.pc = "find"]
\* FindOption; then dispatch: unknown, query, value to a flag, value
StepFind(st) ==
  LET o == Find(st.tab, st.name)
      q == At(st.txt, st.pos) = "?" /\ Blank(At(st.txt, st.pos + 1))
  IN IF ~Unambiguous(st.tab, st.name) THEN GiveUp(st)
     ELSE IF o = 0 THEN [st EXCEPT !.opt = 0, !.pc = "unknown"]
     ELSE IF st.tab[o].wild /\ ~KeyProper(st.tab[o], st.name) THEN GiveUp(st)
     ELSE [st EXCEPT !.opt = o, !.pc = IF q THEN "query" ELSE IF st.eq /\ st.tab[o].type = "flag" THEN "flagarg" ELSE "parse"]
\* HandleUnknownOption(name); continue;  -- the value of "unknown=value" is then read as a name;
\* if that value is itself a known name, what the user meant is not determined: give up
StepUnknown(st) ==
  LET e == SkipUntil(st.txt, st.pos, Space \cup {"="})
      nextTok == Sub(st.txt, st.pos, e - 1)
  IN IF st.name = <<>> \/ (nextTok # <<>> /\ IsKnownName(st.tab, nextTok)) THEN GiveUp(st)
     ELSE Fail(st, Unknown(st.name))
\* name=? : print the current value, change nothing
StepQuery(st) ==
  LET key == IF st.tab[st.opt].wild THEN KeyBody(st.tab[st.opt], st.name) ELSE <<>>
  IN [st EXCEPT !.pos = st.pos + 1, !.out = Say(st, Echo(st.opt, key, Stored(st, st.opt, key))), !.pc = "skip"]
\* ReportError("Option ... doesn't accept an argument"); s = SkipNonSpaces(s);
StepFlagArg(st) == [Fail(st, FlagArg(st.name)) EXCEPT !.pos = SkipUntil(st.txt, st.pos, Space)]
\* opt->Parse(s, flags & FROM_COMMAND_LINE); echo
StepParse(st) ==
  LET o == st.opt  ty == st.tab[o].type IN
  IF ty = "flag" THEN [st EXCEPT !.store[o] = TRUE, !.out = Say(st, Echo(o, <<>>, IV(0))), !.pc = "skip"]
  ELSE LET r == CASE ty = "int" -> ParseInt(st.txt, st.pos)
                  [] ty = "dbl" -> ParseDbl(st.txt, st.pos)
                  [] ty = "str" -> ParseStr(st.txt, st.pos, st.cmd)
       IN IF ~r.ok THEN [GiveUp(st) EXCEPT !.pos = r.p]
          ELSE IF st.tab[o].wild
            THEN LET key == KeyBody(st.tab[o], st.name)
                     rest == {x \in st.store[o] : x.k # key}
                 IN [st EXCEPT !.store[o] = rest \cup {[k |-> key, v |-> r.v]}, !.pos = r.p,
                               !.out = Say(st, Echo(o, key, IV(r.v))), !.pc = "skip"]
            ELSE [st EXCEPT !.store[o] = r.v, !.pos = r.p, !.out = Say(st, Echo(o, <<>>, Tagged(ty, r.v))), !.pc = "skip"]

Halted(st) == st.pc \in {"done", "threw"}
StepOf(st) == CASE st.pc = "skip" -> StepSkip(st) [] st.pc = "name" -> StepName(st) [] st.pc = "eq" -> StepEq(st)
                [] st.pc = "find" -> StepFind(st) [] st.pc = "unknown" -> StepUnknown(st)
                [] st.pc = "query" -> StepQuery(st) [] st.pc = "flagarg" -> StepFlagArg(st)
                [] st.pc = "parse" -> StepParse(st)
RECURSIVE Run(_)
Run(st) == IF Halted(st) THEN st ELSE Run(StepOf(st))

\* the cursor never passes the terminating NUL
CursorOK(st) == st.pos >= 1 /\ st.pos <= Len(st.txt) + 1

----------------------------------------------------------------------------
(* BasicSolver::ParseOptions: the sources in their order.                     *)
(* env = [mp, exe, nam : [set, txt], exeKnown, argv : Seq(text), argvFile : Seq(BOOLEAN)] *)
(* (an option file named inside an environment text is an inclusion at that   *)
(* place: the trace carries the text with the file's content spliced in)      *)
Sources(env) ==
  (IF env.mp.set THEN <<[txt |-> env.mp.txt, cmd |-> FALSE]>> ELSE <<>>) \o
  (IF env.exeKnown /\ env.exe.set THEN <<[txt |-> env.exe.txt, cmd |-> FALSE]>>
   ELSE IF env.nam.set THEN <<[txt |-> env.nam.txt, cmd |-> FALSE]>> ELSE <<>>) \o
  \* an argument may be "tech:optionfile=<path>": env.argvFile[i] says so and env.argv[i] is then the CONTENT of the
  \* file, whose lines are options text like that of the environment variables (not "already split by the shell")
  [i \in 1..Len(env.argv) |-> [txt |-> env.argv[i], cmd |-> ~env.argvFile[i]]]

RECURSIVE RunSources(_, _, _, _, _, _)
\* result of the previous source r (a halted st), remaining sources from index i
RunSources(r, srcs, i, tab, echoOn, thr) ==
  IF i > Len(srcs) \/ r.pc = "threw" \/ ~r.wf THEN r
  ELSE RunSources(Run(Start(tab, r.store, srcs[i].txt, srcs[i].cmd, echoOn, thr, r.out, r.err)),
                  srcs, i + 1, tab, echoOn, thr)
ParseAll(tab, init, env, echoOn, thr) ==
  RunSources([store |-> init, out |-> <<>>, err |-> FALSE, wf |-> TRUE, pc |-> "done"],
             Sources(env), 1, tab, echoOn, thr)
=============================================================================
