CONSTANTS
  NumAtoms = {"n0", "n1"}
  IdxAtoms = {"i0", "i1"}
  FuncAtoms = {"f0", "f1", "f3"}
  StrAtoms = {"sa", "sb"}
  MaxArgs = 2
  MaxBP = 1
  OpMut = "succ"
  ExtraNum = {"n2", "n3", "nan", "inf", "big", "den"}
  ExtraStr = {"sc", "se", "sl"}
  ExtraIdx = {"i2"}
INIT Init
NEXT Next
INVARIANT Emit
CHECK_DEADLOCK FALSE
