------------------------------ MODULE MCSafeInt ------------------------------
(* Design check of the C17 oracle itself: on a range where TLC's native       *)
(* integers are exact, the BigInt arithmetic used for 32/64-bit operands must *)
(* agree with them, and the small-width Result must agree with BigResult.     *)
(* One state per operand pair; the invariant is the cross-check.              *)
EXTENDS SafeInt, TLC
CONSTANT R            \* operand range -R..R
VARIABLES a, b, op
Init == a \in -R..R /\ b \in -R..R /\ op \in Ops
Next == UNCHANGED <<a, b, op>>
BigAgrees ==
  /\ BigExact(op, BigOfInt(a), BigOfInt(b)) = BigOfInt(Exact(op, a, b))
  /\ BigLeq(BigOfInt(a), BigOfInt(b)) = (a <= b)
SmallAgrees ==
  \A signed \in BOOLEAN :
    LET inr(v) == MinOf(8, signed) <= v /\ v <= MaxOf(8, signed)
    IN (inr(a) /\ inr(b)) =>
        LET r == Result(8, signed, op, a, b)
            br == BigResult(8, signed, op, BigOfInt(a), BigOfInt(b))
        IN IF r = Overflow THEN br.ov ELSE ~br.ov /\ BigOfInt(r) = Big(br.neg, br.d)
\* never both an exact value and an overflow; result always in range
Sound ==
  \A signed \in BOOLEAN : \A W \in {8, 16} :
    LET r == Result(W, signed, op, a, b)
    IN r # Overflow => (r = Exact(op, a, b) /\ MinOf(W, signed) <= r /\ r <= MaxOf(W, signed))
=============================================================================
