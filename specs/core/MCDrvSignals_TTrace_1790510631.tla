---- MODULE MCDrvSignals_TTrace_1790510631 ----
EXTENDS Sequences, TLCExt, Toolbox, MCDrvSignals, Naturals, TLC

_expression ==
    LET MCDrvSignals_TEExpression == INSTANCE MCDrvSignals_TEExpression
    IN MCDrvSignals_TEExpression!expression
----

_trace ==
    LET MCDrvSignals_TETrace == INSTANCE MCDrvSignals_TETrace
    IN MCDrvSignals_TETrace!trace
----

_inv ==
    ~(
        TLCGet("level") = Len(_TETrace)
        /\
        st = ([pc |-> "teardown", reg |-> TRUE, exported |-> 1, delivered |-> 1, cbs |-> 1, late |-> 1, stop |-> TRUE, exit |-> -1])
        /\
        s = ([mode |-> "only", nfiles |-> 1, where |-> "teardown", sig |-> "INT", nsig |-> 1])
    )
----

_init ==
    /\ s = _TETrace[1].s
    /\ st = _TETrace[1].st
----

_next ==
    /\ \E i,j \in DOMAIN _TETrace:
        /\ \/ /\ j = i + 1
              /\ i = TLCGet("level")
        /\ s  = _TETrace[i].s
        /\ s' = _TETrace[j].s
        /\ st  = _TETrace[i].st
        /\ st' = _TETrace[j].st

\* Uncomment the ASSUME below to write the states of the error trace
\* to the given file in Json format. Note that you can pass any tuple
\* to `JsonSerialize`. For example, a sub-sequence of _TETrace.
    \* ASSUME
    \*     LET J == INSTANCE Json
    \*         IN J!JsonSerialize("MCDrvSignals_TTrace_1790510631.json", _TETrace)

=============================================================================

 Note that you can extract this module `MCDrvSignals_TEExpression`
  to a dedicated file to reuse `expression` (the module in the 
  dedicated `MCDrvSignals_TEExpression.tla` file takes precedence 
  over the module `MCDrvSignals_TEExpression` below).

---- MODULE MCDrvSignals_TEExpression ----
EXTENDS Sequences, TLCExt, Toolbox, MCDrvSignals, Naturals, TLC

expression == 
    [
        \* To hide variables of the `MCDrvSignals` spec from the error trace,
        \* remove the variables below.  The trace will be written in the order
        \* of the fields of this record.
        s |-> s
        ,st |-> st
        
        \* Put additional constant-, state-, and action-level expressions here:
        \* ,_stateNumber |-> _TEPosition
        \* ,_sUnchanged |-> s = s'
        
        \* Format the `s` variable as Json value.
        \* ,_sJson |->
        \*     LET J == INSTANCE Json
        \*     IN J!ToJson(s)
        
        \* Lastly, you may build expressions over arbitrary sets of states by
        \* leveraging the _TETrace operator.  For example, this is how to
        \* count the number of times a spec variable changed up to the current
        \* state in the trace.
        \* ,_sModCount |->
        \*     LET F[s \in DOMAIN _TETrace] ==
        \*         IF s = 1 THEN 0
        \*         ELSE IF _TETrace[s].s # _TETrace[s-1].s
        \*             THEN 1 + F[s-1] ELSE F[s-1]
        \*     IN F[_TEPosition - 1]
    ]

=============================================================================



Parsing and semantic processing can take forever if the trace below is long.
 In this case, it is advised to uncomment the module below to deserialize the
 trace from a generated binary file.

\*
\*---- MODULE MCDrvSignals_TETrace ----
\*EXTENDS IOUtils, MCDrvSignals, TLC
\*
\*trace == IODeserialize("MCDrvSignals_TTrace_1790510631.bin", TRUE)
\*
\*=============================================================================
\*

---- MODULE MCDrvSignals_TETrace ----
EXTENDS MCDrvSignals, TLC

trace == 
    <<
    ([st |-> [pc |-> "options", reg |-> FALSE, exported |-> 0, delivered |-> 0, cbs |-> 0, late |-> 0, stop |-> FALSE, exit |-> -1],s |-> [mode |-> "only", nfiles |-> 1, where |-> "teardown", sig |-> "INT", nsig |-> 1]]),
    ([st |-> [pc |-> "setup", reg |-> FALSE, exported |-> 0, delivered |-> 0, cbs |-> 0, late |-> 0, stop |-> FALSE, exit |-> -1],s |-> [mode |-> "only", nfiles |-> 1, where |-> "teardown", sig |-> "INT", nsig |-> 1]]),
    ([st |-> [pc |-> "setup", reg |-> TRUE, exported |-> 0, delivered |-> 0, cbs |-> 0, late |-> 0, stop |-> FALSE, exit |-> -1],s |-> [mode |-> "only", nfiles |-> 1, where |-> "teardown", sig |-> "INT", nsig |-> 1]]),
    ([st |-> [pc |-> "setup", reg |-> TRUE, exported |-> 1, delivered |-> 0, cbs |-> 0, late |-> 0, stop |-> FALSE, exit |-> -1],s |-> [mode |-> "only", nfiles |-> 1, where |-> "teardown", sig |-> "INT", nsig |-> 1]]),
    ([st |-> [pc |-> "teardown", reg |-> TRUE, exported |-> 1, delivered |-> 0, cbs |-> 0, late |-> 0, stop |-> FALSE, exit |-> -1],s |-> [mode |-> "only", nfiles |-> 1, where |-> "teardown", sig |-> "INT", nsig |-> 1]]),
    ([st |-> [pc |-> "teardown", reg |-> TRUE, exported |-> 1, delivered |-> 1, cbs |-> 1, late |-> 1, stop |-> TRUE, exit |-> -1],s |-> [mode |-> "only", nfiles |-> 1, where |-> "teardown", sig |-> "INT", nsig |-> 1]])
    >>
----


=============================================================================

---- CONFIG MCDrvSignals_TTrace_1790510631 ----
CONSTANTS
    Design = "backend_destroyed_first"

INVARIANT
    _inv

CHECK_DEADLOCK
    \* CHECK_DEADLOCK off because of PROPERTY or INVARIANT above.
    FALSE

INIT
    _init

NEXT
    _next

CONSTANT
    _TETrace <- _trace

ALIAS
    _expression
=============================================================================
\* Generated on Sun Sep 27 12:03:52 UTC 2026