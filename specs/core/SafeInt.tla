------------------------------- MODULE SafeInt -------------------------------
(* Checked integer arithmetic (include/mp/safeint.h), property C17.           *)
(* The specification of one operation: the mathematically exact result if it  *)
(* is representable in the W-bit (un)signed target type, otherwise Overflow.  *)
(* Small widths (8, 16) are stated over TLC integers; wide ones (32, 64) over *)
(* BigInt so that nothing in the oracle can itself wrap.                      *)
EXTENDS Integers, Sequences, BigInt

Ops == {"add", "sub", "mul"}
Overflow == 1000000                   \* small widths: a sentinel outside every 16-bit range
BigOverflow == [ov |-> TRUE, neg |-> FALSE, d |-> <<>>]
BigOk(x) == [ov |-> FALSE, neg |-> x.neg, d |-> x.d]

RECURSIVE Pow2(_)
Pow2(n) == IF n = 0 THEN 1 ELSE 2 * Pow2(n - 1)

MinOf(W, signed) == IF signed THEN -Pow2(W - 1) ELSE 0
MaxOf(W, signed) == IF signed THEN Pow2(W - 1) - 1 ELSE Pow2(W) - 1

AbsOf(v) == IF v < 0 THEN -v ELSE v
Exact(op, a, b) == CASE op = "add" -> a + b
                     [] op = "sub" -> a - b
                     [] op = "mul" ->
                          \* TLC integers are 32-bit: a product that cannot fit any
                          \* 16-bit type is replaced by an out-of-range value of the right sign
                          IF b # 0 /\ AbsOf(a) > 200000 \div AbsOf(b)
                            THEN (IF (a < 0) # (b < 0) THEN -300000 ELSE 300000)
                            ELSE a * b

\* W <= 16 so |Exact| < 2^31
Result(W, signed, op, a, b) ==
  LET r == Exact(op, a, b)
  IN IF MinOf(W, signed) <= r /\ r <= MaxOf(W, signed) THEN r ELSE Overflow

\* checked narrowing SafeInt<T>(U v): v is any value of a source type
Narrow(W, signed, v) ==
  IF MinOf(W, signed) <= v /\ v <= MaxOf(W, signed) THEN v ELSE Overflow

BigExact(op, x, y) == CASE op = "add" -> BigAdd(x, y)
                        [] op = "sub" -> BigSub(x, y)
                        [] op = "mul" -> BigMul(x, y)
BigResult(W, signed, op, x, y) ==
  LET r == BigExact(op, x, y)
  IN IF BigInRange(r, W, signed) THEN BigOk(r) ELSE BigOverflow
BigNarrow(W, signed, x) == IF BigInRange(x, W, signed) THEN BigOk(x) ELSE BigOverflow

=============================================================================
