---------------------------- MODULE MCDrvSignals ----------------------------
(* Design check of DrvSignals and generator of the scenarios to run.          *)
EXTENDS DrvSignals, TLC, Json
CONSTANT Design
VARIABLES s, st
vars == <<s, st>>
Init == s \in Scenarios /\ st = St0
Next == \/ \E a \in Acts : Enabled(Design, s, st, a) /\ st' = ApplyD(Design, s, st, a) /\ UNCHANGED s
        \/ st.pc \in {"done", "exited"} /\ UNCHANGED vars
Spec == Init /\ [][Next]_vars /\ WF_vars(Next)
InvNotLost == NotLost(s, st)
InvInterruptible == Interruptible(s, st)
InvEveryCallback == EveryCallback(s, st)
InvThird == Third(s, st)
InvExported == Exported(s, st)
InvAfterTeardown == AfterTeardown(s, st)
Terminates == <>(st.pc \in {"done", "exited"})
Emit == st = St0 => PrintT(<<"CASE", ToJson(s)>>)
=============================================================================
