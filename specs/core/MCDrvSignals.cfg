CONSTANT Design = "code"
SPECIFICATION Spec
INVARIANT InvNotLost
INVARIANT InvInterruptible
INVARIANT InvEveryCallback
INVARIANT InvThird
INVARIANT InvExported
INVARIANT InvAfterTeardown
INVARIANT Emit
PROPERTY Terminates
CHECK_DEADLOCK TRUE
