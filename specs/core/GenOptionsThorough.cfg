CONSTANTS
  MaxLen = 4
  NameLen = 5
  MaxSteps = 3
INIT Init
NEXT Next
INVARIANT Emit
CHECK_DEADLOCK FALSE
