------------------------------ MODULE MCSignals ------------------------------
(* Design check for C15: TLC explores every schedule of up to MaxSig signals  *)
(* (SIGINT / SIGTERM) against every step of constructor, one or two           *)
(* registrations, solve, report, destructor and the time after it, and checks *)
(* the monitor invariants.  MCSignals.cfg uses an order of the stores for     *)
(* which they hold; MCSignalsPinned.cfg the order of the code as it is, for   *)
(* which TLC reports the schedules that break them (the predictions that the  *)
(* binding run then confirms on the real code).                               *)
EXTENDS Signals, TLC
\* the order of the stores in the code as it is
CtorPinned == <<"interrupter", "msgptr", "msgsize", "sigint", "sigterm", "stop0">>
SetPinned == <<"handler", "data">>
DtorPinned == <<"interrupter0", "stop1", "handler0", "msgsize0">>
\* an order that meets the invariants: the counter is cleared before the handlers are
\* installed; a registration first withdraws the old callback, then stores the data,
\* then publishes the new callback
CtorSafe == <<"interrupter", "msgptr", "msgsize", "stop0", "sigint", "sigterm">>
SetSafe == <<"handler0", "data", "handler">>
\* every run ends, and with a defined status
Ends == pc > Len(Prog(nreg)) => exited = 0
Bounded == nsig <= MaxSig /\ stop \in 0..3
=============================================================================
