------------------------------ MODULE MCSignals ------------------------------
(* Design check for C15: TLC explores every schedule of up to MaxSig signals  *)
(* (SIGINT / SIGTERM) against every step of constructor, one or two           *)
(* registrations, solve, report, destructor and the time after it, and checks *)
(* the monitor invariants.  MCSignals.cfg uses the order of the stores of the *)
(* code as it is; MCSignalsBeforeFix.cfg the order the code had before two    *)
(* defects found by this check were repaired, for which TLC reports the       *)
(* schedules that break the invariants.                                       *)
EXTENDS Signals, TLC
\* the order of the stores in the code as it is (after the fixes a92d15d and b1f2273 in /repo):
\* the counter is cleared before the handlers are installed; a registration first
\* withdraws the old callback, then stores the data, then publishes the new callback
CtorCode == <<"interrupter", "msgptr", "msgsize", "stop0", "sigint", "sigterm">>
SetCode == <<"handler0", "data", "handler">>
DtorCode == <<"interrupter0", "stop1", "handler0", "msgsize0">>
\* the order before those fixes: stop_ := 0 after signal(), handler_ before data_.
\* MCSignalsBeforeFix.cfg must FAIL (NotLost, Paired, Third): the self-test that the
\* invariants can tell the two orders apart.
CtorBefore == <<"interrupter", "msgptr", "msgsize", "sigint", "sigterm", "stop0">>
SetBefore == <<"handler", "data">>
\* every run ends, and with a defined status
Ends == pc > Len(Prog(nreg)) => exited = 0
Bounded == nsig <= MaxSig /\ stop \in 0..3
=============================================================================
