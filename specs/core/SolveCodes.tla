----------------------------- MODULE SolveCodes -----------------------------
(* Solve-result codes (property C10): the documented ranges, the driver's     *)
(* classification predicates, what a run reports for a given solver answer.   *)
(* One run of a driver on a fixed model is modelled as the sequence            *)
(*   Start(answer) -> Classify -> [IIS] -> [Ray] -> [DRay] -> WriteSol -> Exit *)
(* where the optional steps are enabled by the class of the code.             *)
EXTENDS Integers, Sequences, FiniteSets

Codes == -200..999

\* documented ranges (doc/source/features-guide.rst, mp::sol::Status)
Ranges == << [lo |-> 0,   hi |-> 99,  cls |-> "solved"],
             [lo |-> 100, hi |-> 199, cls |-> "uncertain"],
             [lo |-> 200, hi |-> 299, cls |-> "infeasible"],
             [lo |-> 300, hi |-> 349, cls |-> "unbounded_feas"],
             [lo |-> 350, hi |-> 399, cls |-> "unbounded_nofeas"],
             [lo |-> 400, hi |-> 449, cls |-> "limit_feas"],
             [lo |-> 450, hi |-> 469, cls |-> "limit_inf_unb"],
             [lo |-> 470, hi |-> 499, cls |-> "limit_nofeas"],
             [lo |-> 500, hi |-> 999, cls |-> "failure"] >>

Class(c) == IF \E i \in 1..Len(Ranges) : Ranges[i].lo <= c /\ c <= Ranges[i].hi
            THEN LET i == CHOOSE i \in 1..Len(Ranges) : Ranges[i].lo <= c /\ c <= Ranges[i].hi
                 IN Ranges[i].cls
            ELSE "none"

Solved(c)         == Class(c) = "solved"
\* "feasible solution available": a solution candidate is indicated
Feasible(c)       == Class(c) \in {"solved", "unbounded_feas", "limit_feas"}
Infeasible(c)     == Class(c) = "infeasible"
Unbounded(c)      == Class(c) \in {"unbounded_feas", "unbounded_nofeas"}
IndiffInfOrUnb(c) == Class(c) = "limit_inf_unb"
InfOrUnb(c)       == Infeasible(c) \/ Unbounded(c) \/ IndiffInfOrUnb(c)
Limit(c)          == Class(c) \in {"limit_feas", "limit_inf_unb", "limit_nofeas"}
Failure(c)        == Class(c) = "failure"

\* The statement lists three classes for showing the objective.  For 100-199
\* ("solved?", a candidate is returned but an error is likely) the documents do
\* not settle it, so both outcomes are allowed there.
ObjShownAllowed(c, hasObj) ==
  IF ~hasObj THEN {FALSE}
  ELSE IF Feasible(c) THEN {TRUE}
  ELSE IF Class(c) = "uncertain" THEN {TRUE, FALSE}
  ELSE {FALSE}
SolvedOrFeasibleAllowed(c) ==
  IF Feasible(c) THEN {TRUE} ELSE IF Class(c) = "uncertain" THEN {TRUE, FALSE} ELSE {FALSE}

\* which optional reporting steps a run performs (with alg:iisfind=1, alg:rays=3)
WantsIIS(c)  == InfOrUnb(c)
WantsRay(c)  == Unbounded(c) \/ IndiffInfOrUnb(c)
WantsDRay(c) == Infeasible(c) \/ IndiffInfOrUnb(c)
=============================================================================
