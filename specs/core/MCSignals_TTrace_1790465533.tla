---- MODULE MCSignals_TTrace_1790465533 ----
EXTENDS MCSignals, Sequences, TLCExt, Toolbox, Naturals, TLC

_expression ==
    LET MCSignals_TEExpression == INSTANCE MCSignals_TEExpression
    IN MCSignals_TEExpression!expression
----

_trace ==
    LET MCSignals_TETrace == INSTANCE MCSignals_TETrace
    IN MCSignals_TETrace!trace
----

_inv ==
    ~(
        TLCGet("level") = Len(_TETrace)
        /\
        here = ("ctor.sigint")
        /\
        handler = (0)
        /\
        data = (0)
        /\
        log = (<<[stop |-> FALSE, e |-> "Point", id |-> "ctor.begin", fn |-> 0, data |-> 0, status |-> 0, inst |-> <<>>], [stop |-> FALSE, e |-> "Point", id |-> "ctor.interrupter", fn |-> 0, data |-> 0, status |-> 0, inst |-> <<>>], [stop |-> FALSE, e |-> "Point", id |-> "ctor.msgptr", fn |-> 0, data |-> 0, status |-> 0, inst |-> <<>>], [stop |-> FALSE, e |-> "Point", id |-> "ctor.msgsize", fn |-> 0, data |-> 0, status |-> 0, inst |-> <<>>], [stop |-> FALSE, e |-> "Point", id |-> "ctor.sigint", fn |-> 0, data |-> 0, status |-> 0, inst |-> <<"INT">>], [stop |-> FALSE, e |-> "Raise", id |-> "INT", fn |-> 0, data |-> 0, status |-> 0, inst |-> <<>>], [stop |-> FALSE, e |-> "Raise", id |-> "INT", fn |-> 0, data |-> 0, status |-> 0, inst |-> <<>>], [stop |-> FALSE, e |-> "Exit", id |-> "", fn |-> 0, data |-> 0, status |-> 1, inst |-> <<>>]>>)
        /\
        msgsize = (1)
        /\
        iset = (TRUE)
        /\
        nsig = (2)
        /\
        pc = (6)
        /\
        sched = (<<[sig |-> "INT", pt |-> "ctor.sigint"], [sig |-> "INT", pt |-> "ctor.sigint"]>>)
        /\
        stop = (2)
        /\
        nreg = (1)
        /\
        inst = ({"INT"})
        /\
        exited = (1)
    )
----

_init ==
    /\ handler = _TETrace[1].handler
    /\ log = _TETrace[1].log
    /\ iset = _TETrace[1].iset
    /\ pc = _TETrace[1].pc
    /\ data = _TETrace[1].data
    /\ sched = _TETrace[1].sched
    /\ here = _TETrace[1].here
    /\ stop = _TETrace[1].stop
    /\ nsig = _TETrace[1].nsig
    /\ msgsize = _TETrace[1].msgsize
    /\ exited = _TETrace[1].exited
    /\ nreg = _TETrace[1].nreg
    /\ inst = _TETrace[1].inst
----

_next ==
    /\ \E i,j \in DOMAIN _TETrace:
        /\ \/ /\ j = i + 1
              /\ i = TLCGet("level")
        /\ handler  = _TETrace[i].handler
        /\ handler' = _TETrace[j].handler
        /\ log  = _TETrace[i].log
        /\ log' = _TETrace[j].log
        /\ iset  = _TETrace[i].iset
        /\ iset' = _TETrace[j].iset
        /\ pc  = _TETrace[i].pc
        /\ pc' = _TETrace[j].pc
        /\ data  = _TETrace[i].data
        /\ data' = _TETrace[j].data
        /\ sched  = _TETrace[i].sched
        /\ sched' = _TETrace[j].sched
        /\ here  = _TETrace[i].here
        /\ here' = _TETrace[j].here
        /\ stop  = _TETrace[i].stop
        /\ stop' = _TETrace[j].stop
        /\ nsig  = _TETrace[i].nsig
        /\ nsig' = _TETrace[j].nsig
        /\ msgsize  = _TETrace[i].msgsize
        /\ msgsize' = _TETrace[j].msgsize
        /\ exited  = _TETrace[i].exited
        /\ exited' = _TETrace[j].exited
        /\ nreg  = _TETrace[i].nreg
        /\ nreg' = _TETrace[j].nreg
        /\ inst  = _TETrace[i].inst
        /\ inst' = _TETrace[j].inst

\* Uncomment the ASSUME below to write the states of the error trace
\* to the given file in Json format. Note that you can pass any tuple
\* to `JsonSerialize`. For example, a sub-sequence of _TETrace.
    \* ASSUME
    \*     LET J == INSTANCE Json
    \*         IN J!JsonSerialize("MCSignals_TTrace_1790465533.json", _TETrace)

=============================================================================

 Note that you can extract this module `MCSignals_TEExpression`
  to a dedicated file to reuse `expression` (the module in the 
  dedicated `MCSignals_TEExpression.tla` file takes precedence 
  over the module `MCSignals_TEExpression` below).

---- MODULE MCSignals_TEExpression ----
EXTENDS MCSignals, Sequences, TLCExt, Toolbox, Naturals, TLC

expression == 
    [
        \* To hide variables of the `MCSignals` spec from the error trace,
        \* remove the variables below.  The trace will be written in the order
        \* of the fields of this record.
        handler |-> handler
        ,log |-> log
        ,iset |-> iset
        ,pc |-> pc
        ,data |-> data
        ,sched |-> sched
        ,here |-> here
        ,stop |-> stop
        ,nsig |-> nsig
        ,msgsize |-> msgsize
        ,exited |-> exited
        ,nreg |-> nreg
        ,inst |-> inst
        
        \* Put additional constant-, state-, and action-level expressions here:
        \* ,_stateNumber |-> _TEPosition
        \* ,_handlerUnchanged |-> handler = handler'
        
        \* Format the `handler` variable as Json value.
        \* ,_handlerJson |->
        \*     LET J == INSTANCE Json
        \*     IN J!ToJson(handler)
        
        \* Lastly, you may build expressions over arbitrary sets of states by
        \* leveraging the _TETrace operator.  For example, this is how to
        \* count the number of times a spec variable changed up to the current
        \* state in the trace.
        \* ,_handlerModCount |->
        \*     LET F[s \in DOMAIN _TETrace] ==
        \*         IF s = 1 THEN 0
        \*         ELSE IF _TETrace[s].handler # _TETrace[s-1].handler
        \*             THEN 1 + F[s-1] ELSE F[s-1]
        \*     IN F[_TEPosition - 1]
    ]

=============================================================================



Parsing and semantic processing can take forever if the trace below is long.
 In this case, it is advised to uncomment the module below to deserialize the
 trace from a generated binary file.

\*
\*---- MODULE MCSignals_TETrace ----
\*EXTENDS MCSignals, IOUtils, TLC
\*
\*trace == IODeserialize("MCSignals_TTrace_1790465533.bin", TRUE)
\*
\*=============================================================================
\*

---- MODULE MCSignals_TETrace ----
EXTENDS MCSignals, TLC

trace == 
    <<
    ([here |-> "",handler |-> 0,data |-> 0,log |-> <<>>,msgsize |-> 0,iset |-> FALSE,nsig |-> 0,pc |-> 1,sched |-> <<>>,stop |-> 1,nreg |-> 1,inst |-> {},exited |-> -1]),
    ([here |-> "",handler |-> 0,data |-> 0,log |-> <<[stop |-> FALSE, e |-> "Point", id |-> "ctor.begin", fn |-> 0, data |-> 0, status |-> 0, inst |-> <<>>]>>,msgsize |-> 0,iset |-> FALSE,nsig |-> 0,pc |-> 2,sched |-> <<>>,stop |-> 1,nreg |-> 1,inst |-> {},exited |-> -1]),
    ([here |-> "ctor.interrupter",handler |-> 0,data |-> 0,log |-> <<[stop |-> FALSE, e |-> "Point", id |-> "ctor.begin", fn |-> 0, data |-> 0, status |-> 0, inst |-> <<>>], [stop |-> FALSE, e |-> "Point", id |-> "ctor.interrupter", fn |-> 0, data |-> 0, status |-> 0, inst |-> <<>>]>>,msgsize |-> 0,iset |-> TRUE,nsig |-> 0,pc |-> 3,sched |-> <<>>,stop |-> 1,nreg |-> 1,inst |-> {},exited |-> -1]),
    ([here |-> "ctor.msgptr",handler |-> 0,data |-> 0,log |-> <<[stop |-> FALSE, e |-> "Point", id |-> "ctor.begin", fn |-> 0, data |-> 0, status |-> 0, inst |-> <<>>], [stop |-> FALSE, e |-> "Point", id |-> "ctor.interrupter", fn |-> 0, data |-> 0, status |-> 0, inst |-> <<>>], [stop |-> FALSE, e |-> "Point", id |-> "ctor.msgptr", fn |-> 0, data |-> 0, status |-> 0, inst |-> <<>>]>>,msgsize |-> 0,iset |-> TRUE,nsig |-> 0,pc |-> 4,sched |-> <<>>,stop |-> 1,nreg |-> 1,inst |-> {},exited |-> -1]),
    ([here |-> "ctor.msgsize",handler |-> 0,data |-> 0,log |-> <<[stop |-> FALSE, e |-> "Point", id |-> "ctor.begin", fn |-> 0, data |-> 0, status |-> 0, inst |-> <<>>], [stop |-> FALSE, e |-> "Point", id |-> "ctor.interrupter", fn |-> 0, data |-> 0, status |-> 0, inst |-> <<>>], [stop |-> FALSE, e |-> "Point", id |-> "ctor.msgptr", fn |-> 0, data |-> 0, status |-> 0, inst |-> <<>>], [stop |-> FALSE, e |-> "Point", id |-> "ctor.msgsize", fn |-> 0, data |-> 0, status |-> 0, inst |-> <<>>]>>,msgsize |-> 1,iset |-> TRUE,nsig |-> 0,pc |-> 5,sched |-> <<>>,stop |-> 1,nreg |-> 1,inst |-> {},exited |-> -1]),
    ([here |-> "ctor.sigint",handler |-> 0,data |-> 0,log |-> <<[stop |-> FALSE, e |-> "Point", id |-> "ctor.begin", fn |-> 0, data |-> 0, status |-> 0, inst |-> <<>>], [stop |-> FALSE, e |-> "Point", id |-> "ctor.interrupter", fn |-> 0, data |-> 0, status |-> 0, inst |-> <<>>], [stop |-> FALSE, e |-> "Point", id |-> "ctor.msgptr", fn |-> 0, data |-> 0, status |-> 0, inst |-> <<>>], [stop |-> FALSE, e |-> "Point", id |-> "ctor.msgsize", fn |-> 0, data |-> 0, status |-> 0, inst |-> <<>>], [stop |-> FALSE, e |-> "Point", id |-> "ctor.sigint", fn |-> 0, data |-> 0, status |-> 0, inst |-> <<"INT">>]>>,msgsize |-> 1,iset |-> TRUE,nsig |-> 0,pc |-> 6,sched |-> <<>>,stop |-> 1,nreg |-> 1,inst |-> {"INT"},exited |-> -1]),
    ([here |-> "ctor.sigint",handler |-> 0,data |-> 0,log |-> <<[stop |-> FALSE, e |-> "Point", id |-> "ctor.begin", fn |-> 0, data |-> 0, status |-> 0, inst |-> <<>>], [stop |-> FALSE, e |-> "Point", id |-> "ctor.interrupter", fn |-> 0, data |-> 0, status |-> 0, inst |-> <<>>], [stop |-> FALSE, e |-> "Point", id |-> "ctor.msgptr", fn |-> 0, data |-> 0, status |-> 0, inst |-> <<>>], [stop |-> FALSE, e |-> "Point", id |-> "ctor.msgsize", fn |-> 0, data |-> 0, status |-> 0, inst |-> <<>>], [stop |-> FALSE, e |-> "Point", id |-> "ctor.sigint", fn |-> 0, data |-> 0, status |-> 0, inst |-> <<"INT">>], [stop |-> FALSE, e |-> "Raise", id |-> "INT", fn |-> 0, data |-> 0, status |-> 0, inst |-> <<>>]>>,msgsize |-> 1,iset |-> TRUE,nsig |-> 1,pc |-> 6,sched |-> <<[sig |-> "INT", pt |-> "ctor.sigint"]>>,stop |-> 2,nreg |-> 1,inst |-> {"INT"},exited |-> -1]),
    ([here |-> "ctor.sigint",handler |-> 0,data |-> 0,log |-> <<[stop |-> FALSE, e |-> "Point", id |-> "ctor.begin", fn |-> 0, data |-> 0, status |-> 0, inst |-> <<>>], [stop |-> FALSE, e |-> "Point", id |-> "ctor.interrupter", fn |-> 0, data |-> 0, status |-> 0, inst |-> <<>>], [stop |-> FALSE, e |-> "Point", id |-> "ctor.msgptr", fn |-> 0, data |-> 0, status |-> 0, inst |-> <<>>], [stop |-> FALSE, e |-> "Point", id |-> "ctor.msgsize", fn |-> 0, data |-> 0, status |-> 0, inst |-> <<>>], [stop |-> FALSE, e |-> "Point", id |-> "ctor.sigint", fn |-> 0, data |-> 0, status |-> 0, inst |-> <<"INT">>], [stop |-> FALSE, e |-> "Raise", id |-> "INT", fn |-> 0, data |-> 0, status |-> 0, inst |-> <<>>], [stop |-> FALSE, e |-> "Raise", id |-> "INT", fn |-> 0, data |-> 0, status |-> 0, inst |-> <<>>], [stop |-> FALSE, e |-> "Exit", id |-> "", fn |-> 0, data |-> 0, status |-> 1, inst |-> <<>>]>>,msgsize |-> 1,iset |-> TRUE,nsig |-> 2,pc |-> 6,sched |-> <<[sig |-> "INT", pt |-> "ctor.sigint"], [sig |-> "INT", pt |-> "ctor.sigint"]>>,stop |-> 2,nreg |-> 1,inst |-> {"INT"},exited |-> 1])
    >>
----


=============================================================================

---- CONFIG MCSignals_TTrace_1790465533 ----
CONSTANTS
    CtorOrder <- CtorBefore
    SetOrder <- SetBefore
    DtorOrder <- DtorCode
    MaxSig = 3

INVARIANT
    _inv

CHECK_DEADLOCK
    \* CHECK_DEADLOCK off because of PROPERTY or INVARIANT above.
    FALSE

INIT
    _init

NEXT
    _next

CONSTANT
    _TETrace <- _trace

ALIAS
    _expression
=============================================================================
\* Generated on Sat Sep 26 23:32:14 UTC 2026