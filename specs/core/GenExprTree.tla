----------------------------- MODULE GenExprTree -----------------------------
(* Case generator for C18.  Every initial state is one case                  *)
(*   [fam, rel, a, b]                                                         *)
(* printed as <<"CASE", json>>; the harness builds a (twice, independently,   *)
(* and once with shared sub-expressions) and b through the real ExprFactory.  *)
(* Families:                                                                  *)
(*  d1     every tree of the complete first layer with itself and with every  *)
(*         single-point mutant (constant, index, function, string, operator,  *)
(*         arity, argument order, slope/breakpoint);                          *)
(*  d2     a representative of every kind plugged into every slot of a        *)
(*         representative of every kind, with itself and with every mutant    *)
(*         inside the plugged child;                                          *)
(*  atoms  all pairs of scalars of a sort (incl. the special doubles and      *)
(*         strings) in every scalar position;                                 *)
(*  cross  pairs of representatives of different kinds.                       *)
EXTENDS ExprTree, Json, TLC
CONSTANTS ExtraNum, ExtraStr, ExtraIdx      \* additional atoms for the atoms family
VARIABLE c

Case(fam, rel, x, y) == [fam |-> fam, rel |-> rel, a |-> x, b |-> y]

D1 == UNION {{Case("d1", "same", t, t)} \cup {Case("d1", mm.why, t, mm.m) : mm \in Mutants(t)} : t \in Depth1}
D2 == UNION {{Case("d2", "same", p.t, p.t)} \cup {Case("d2", mm.why, p.t, mm.m) : mm \in DeepMutants(p.t, p.i)}
               : p \in Plugged(RepKinds)}

AllNum == NumAtoms \cup ExtraNum
AllStr == StrAtoms \cup ExtraStr
AllIdx == IdxAtoms \cup ExtraIdx
n0 == AnyOf(NumAtoms)
\* contexts with one scalar hole
NumCtx(x) == {N("num", <<x>>, <<>>),
              N("minus", <<>>, <<N("num", <<x>>, <<>>)>>),
              N("plterm", <<x, n0, n0>>, <<DefNum>>), N("plterm", <<n0, x, n0>>, <<DefNum>>),
              N("plterm", <<n0, n0, x>>, <<DefNum>>), N("plterm", <<n0, n0, n0, n0, x>>, <<DefNum>>),
              N("plterm", <<n0, n0, n0, x, n0>>, <<DefNum>>),
              N("call", <<AnyOf(FuncAtoms)>>, <<DefStr, N("num", <<x>>, <<>>)>>),
              N("sum", <<>>, <<DefNum, N("num", <<x>>, <<>>)>>),
              N("le", <<>>, <<N("num", <<x>>, <<>>), DefNum>>)}
StrCtx(x) == {N("call", <<AnyOf(FuncAtoms)>>, <<N("str", <<x>>, <<>>)>>),
              N("call", <<AnyOf(FuncAtoms)>>, <<DefNum, N("str", <<x>>, <<>>)>>),
              N("str", <<x>>, <<>>),
              N("ifsym", <<>>, <<DefLog, N("str", <<x>>, <<>>), DefNum>>),
              N("numberofsym", <<>>, <<N("str", <<x>>, <<>>), DefStr>>)}
IdxCtx(x) == {N("var", <<x>>, <<>>), N("cexpr", <<x>>, <<>>),
              N("plterm", <<n0, n0, n0>>, <<N("cexpr", <<x>>, <<>>)>>),
              N("abs", <<>>, <<N("var", <<x>>, <<>>)>>)}
FunCtx(x) == {N("call", <<x>>, <<>>), N("call", <<x>>, <<DefNum>>),
              N("call", <<AnyOf(FuncAtoms)>>, <<N("call", <<x>>, <<DefStr>>)>>)}
\* position by position: the i-th context of x with the i-th context of y
SameShape(t, v) == v.k = t.k /\ Len(v.c) = Len(t.c) /\ Len(v.s) = Len(t.s)
PairUp(Ctx(_), S) ==
  UNION {UNION {UNION {{Case("atoms", IF x = y THEN "same" ELSE "scalar", t, u) :
                          u \in {v \in Ctx(y) : SameShape(t, v)}} : t \in Ctx(x)}
                  : y \in S} : x \in S}
\* only pairs that are the same tree or differ in exactly the hole
OneHole(cs) == {cc \in cs : cc.rel = "same" => cc.a = cc.b}
Atoms == OneHole(PairUp(NumCtx, AllNum) \cup PairUp(StrCtx, AllStr) \cup PairUp(IdxCtx, AllIdx)
                   \cup PairUp(FunCtx, FuncAtoms))

CrossSet == RepChildren
CrossCases == {cc \in {Case("cross", "cross", x, y) : x \in CrossSet, y \in CrossSet} : cc.a # cc.b}

Cases == D1 \cup D2 \cup Atoms \cup CrossCases

Init == c \in Cases /\ todo = <<>> /\ res = "T"
Next == UNCHANGED <<c, todo, res>>
Emit == PrintT(<<"CASE", ToJson(c)>>)
=============================================================================
