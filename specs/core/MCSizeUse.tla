------------------------------ MODULE MCSizeUse ------------------------------
(* Design check of the use-site clause of C17: the way the expression factory *)
(* sizes its nodes - header + item * count, computed with checked int          *)
(* arithmetic - satisfies SizeOK for every count; the same computation done    *)
(* in wrapping 32-bit unsigned arithmetic before a checked narrowing           *)
(* (Design = "wrap32") does not: TLC must find the count.                      *)
EXTENDS SizeUse, TLC
CONSTANT Design
VARIABLES kind, n
P2(k) == 2 ^ k
Counts == {1, 2, 3, 100, 65536, 1000000} \cup
          UNION {{P2(k) - 1, P2(k), P2(k) + 1, P2(k) + 5} : k \in {24, 26, 27, 28, 29, 30}} \cup
          {2147483647, 2147483646, P2(28) + P2(27), P2(29) + P2(28)}
Hdr8(k) == IF k = "plterm" THEN 3 ELSE IF k = "call" THEN 3 ELSE 1
Cap8 == 8388608              \* the 64 MB above which the harness refuses an allocation
Items(k, c) == IF k = "plterm" THEN c ELSE c - 1
\* item * count in words, exactly, saturated (no TLC overflow: compare before multiplying)
Exact8(k, c) == Needed8(k, c)
\* int overflow of the byte count: words >= 2^28
Checked(k, c) ==
  IF Exact8(k, c) >= P2(28) - Hdr8(k) THEN [res |-> "overflow", req8 |-> 0]
  ELSE LET w == Hdr8(k) + Exact8(k, c) IN [res |-> IF w > Cap8 THEN "badalloc" ELSE "ok", req8 |-> w]
\* bytes modulo 2^32 = words modulo 2^29, then narrowed to int with a check
Wrap32(k, c) ==
  LET w0 == ((Items(k, c) % P2(29)) * Item8(k)) % P2(29)
  IN IF w0 >= P2(28) - Hdr8(k) THEN [res |-> "overflow", req8 |-> 0]
     ELSE LET w == Hdr8(k) + w0 IN [res |-> IF w > Cap8 THEN "badalloc" ELSE "ok", req8 |-> w]
Outcome == IF Design = "checked" THEN Checked(kind, n) ELSE Wrap32(kind, n)
Init == kind \in Kinds /\ n \in Counts
Next == UNCHANGED <<kind, n>>
Holds == SizeOK(kind, n, Outcome)
\* non-vacuity: all three outcomes occur among the counts
Seen == \A r \in {"ok", "badalloc", "overflow"} : \E k \in Kinds, c \in Counts : Checked(k, c).res = r
ASSUME Seen
=============================================================================
