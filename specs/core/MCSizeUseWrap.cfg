CONSTANT Design = "wrap32"
INIT Init
NEXT Next
INVARIANT Holds
