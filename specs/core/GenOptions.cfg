CONSTANTS
  MaxLen = 4
  NameLen = 4
  MaxSteps = 3
INIT Init
NEXT Next
INVARIANT Emit
CHECK_DEADLOCK FALSE
