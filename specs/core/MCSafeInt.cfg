CONSTANT R = 300
INIT Init
NEXT Next
INVARIANT BigAgrees
INVARIANT SmallAgrees
INVARIANT Sound
