---------------------------- MODULE TraceSafeInt ----------------------------
(* Trace validation for C17: every line recorded from the real templates in   *)
(* include/mp/safeint.h must be explained by SafeInt.tla.  A line that is not *)
(* is printed as a BAD record (with its line number) and validation continues, *)
(* so that distinct violations are all reported.                              *)
EXTENDS SafeInt, Json, IOUtils, TLC
Lines == ndJsonDeserialize(IOEnv.TRACE)
VARIABLES l
vars == <<l>>

RowOK(e) ==
  \A i \in 1..Len(e.r) :
     e.r[i] = Result(e.W, e.s, e.op, e.a, e.b0 + i - 1)
RowBad(e) == {i \in 1..Len(e.r) : e.r[i] # Result(e.W, e.s, e.op, e.a, e.b0 + i - 1)}

ToBig(j) == Big(j.neg, j.d)
WideOK(e) == e.r = BigResult(e.W, e.s, e.op, ToBig(e.a), ToBig(e.b))
NarrowOK(e) == \A i \in 1..Len(e.r) : e.r[i] = Narrow(e.W, e.s, e.v0 + i - 1)
WNarrowOK(e) == e.r = BigNarrow(e.W, e.s, ToBig(e.v))
AbsOK(e) == \A i \in 1..Len(e.r) : e.r[i] = AbsOf(e.v0 + i - 1)
WAbsOK(e) == Big(FALSE, e.r.d) = Big(FALSE, e.v.d) /\ ~e.r.neg

LineOK(e) ==
  CASE e.e = "Row" -> RowOK(e)
    [] e.e = "Wide" -> WideOK(e)
    [] e.e = "Narrow" -> NarrowOK(e)
    [] e.e = "WNarrow" -> WNarrowOK(e)
    [] e.e = "Abs" -> AbsOK(e)
    [] e.e = "WAbs" -> WAbsOK(e)
    [] e.e = "Meta" -> TRUE
    [] OTHER -> FALSE            \* Crash, Hang, anything unknown

Detail(e) == IF e.e = "Row" THEN RowBad(e) ELSE {}

Init == l = 1
Next == /\ l <= Len(Lines)
        /\ l' = l + 1
        /\ LineOK(Lines[l]) \/ PrintT(<<"BAD", ToJson([line |-> l, at |-> Detail(Lines[l])])>>)
Spec == Init /\ [][Next]_vars

\* evaluated in every state; prints the verdict exactly once, in the last one
Finished == (l = Len(Lines) + 1) => PrintT(<<"DONE", ToJson([n |-> Len(Lines)])>>)
=============================================================================
