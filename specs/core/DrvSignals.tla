----------------------------- MODULE DrvSignals -----------------------------
(* Property C15 at the level of a whole driver run (include/mp/backend-app.h, *)
(* StdBackend::RunFromNLFile in include/mp/backend-std.h): the steps between  *)
(* "the driver has installed its interrupt handling" and the end of the run - *)
(* option parsing, registration of the backend's interrupt callback           *)
(* (SetupTimerAndInterrupter -> SetInterrupter -> SignalHandler::SetHandler), *)
(* model export (tech:writemodel / tech:writemodelonly), Solve, the report -  *)
(* and signals arriving at one of three places of such a run.                 *)
(*                                                                            *)
(* Signals.tla decides the store-by-store races inside SignalHandler; this    *)
(* module decides that every kind of run reaches Solve with the callback      *)
(* registered, so that a signal during Solve is not lost to the backend, for  *)
(* every export mode.                                                         *)
(*                                                                            *)
(* The machine is written as Enabled / Apply over a state record so that the  *)
(* model checker (MCDrvSignals) and the trace validator (TraceDrvSignals)     *)
(* run the same transitions.                                                  *)
EXTENDS Integers, Sequences

Modes  == {"none", "export", "only"}      \* no export / export, then solve / export only
Wheres == {"options", "solve", "report", "teardown"}  \* where the signals of the scenario arrive (teardown: while the
                                                       \* backend is being destroyed, after the run)
\* inherit: the disposition of SIGINT / SIGTERM the process was started with ("ignored": a background job of a
\* non-interactive shell).  The driver installs its handling either way, so the field appears in no transition.
Scenarios ==
  {s \in [mode : Modes, nfiles : 1..2, where : Wheres, sig : {"INT", "TERM"}, nsig : 0..3, inherit : {"default", "ignored"}] :
     /\ (s.mode = "none" => s.nfiles = 1)
     /\ (s.mode = "only" => s.where \in {"options", "teardown"})
     /\ (s.where = "teardown" => s.nsig = 1)
     /\ (s.nsig = 0 => s.where = "solve" /\ s.sig = "INT" /\ s.inherit = "default")}

St0 == [pc |-> "options", reg |-> FALSE, exported |-> 0, delivered |-> 0, cbs |-> 0, late |-> 0, stop |-> FALSE, exit |-> -1]

Acts == {"FinishOptions", "Register", "Export", "BeginSolve", "Deliver", "Poll", "BeginReport", "Teardown", "End"}

\* Design = "code": the order of RunFromNLFile as it is.  "export_skips_register": a run with an export file goes to
\* Solve without registering; "backend_destroyed_first": the driver object destroys the backend before the signal
\* handler object, so the callback is still registered while the backend goes (design self-tests: the invariants
\* must reject both).
AllDelivered(s, st, w) == s.where = w => st.delivered = s.nsig \/ st.exit # -1

Enabled(design, s, st, a) ==
  CASE a = "FinishOptions" -> st.pc = "options"
    [] a = "Register"      -> st.pc = "setup" /\ ~st.reg /\ (design = "export_skips_register" => s.mode = "none")
    [] a = "Export"        -> st.pc = "setup" /\ s.mode # "none" /\ st.exported < s.nfiles
    [] a = "BeginSolve"    -> /\ st.pc = "setup" /\ s.mode # "only"
                              /\ (st.reg \/ (design = "export_skips_register" /\ s.mode = "export"))
                              /\ (s.mode = "export" => st.exported = s.nfiles)
                              /\ AllDelivered(s, st, "options")
    [] a = "Deliver"       -> /\ st.delivered < s.nsig
                              /\ \/ s.where = "options" /\ st.pc = "setup"
                                 \/ s.where = "solve" /\ st.pc = "solve"
                                 \/ s.where = "report" /\ st.pc = "report"
                                 \/ s.where = "teardown" /\ st.pc = "teardown"
    [] a = "Poll"          -> st.pc = "solve"
    [] a = "BeginReport"   -> st.pc = "solve" /\ AllDelivered(s, st, "solve")
    \* the driver object goes: the handler object first (it withdraws the callback), then the backend
    [] a = "Teardown"      -> \/ st.pc = "report" /\ AllDelivered(s, st, "report")
                              \/ st.pc = "setup" /\ s.mode = "only" /\ st.exported = s.nfiles /\ AllDelivered(s, st, "options")
    [] a = "End"           -> st.pc = "teardown" /\ AllDelivered(s, st, "teardown")
    [] OTHER -> FALSE

ApplyD(design, s, st, a) ==
  CASE a = "FinishOptions" -> [st EXCEPT !.pc = "setup"]
    [] a = "Register"      -> [st EXCEPT !.reg = TRUE]
    [] a = "Export"        -> [st EXCEPT !.exported = @ + 1]
    [] a = "BeginSolve"    -> [st EXCEPT !.pc = "solve"]
    [] a = "Deliver"       -> IF st.delivered = 2                                  \* the third one ends the process
                                THEN [st EXCEPT !.delivered = 3, !.pc = "exited", !.exit = 1]
                                ELSE [st EXCEPT !.delivered = @ + 1, !.stop = TRUE, !.cbs = @ + (IF st.reg THEN 1 ELSE 0),
                                                !.late = @ + (IF st.reg /\ st.pc = "teardown" THEN 1 ELSE 0)]
    [] a = "Poll"          -> st
    [] a = "BeginReport"   -> [st EXCEPT !.pc = "report"]
    [] a = "Teardown"      -> [st EXCEPT !.pc = "teardown", !.reg = IF design = "backend_destroyed_first" THEN st.reg ELSE FALSE]
    [] a = "End"           -> [st EXCEPT !.pc = "done", !.exit = 0]
Apply(s, st, a) == ApplyD("code", s, st, a)

----------------------------------------------------------------------------
(* the property *)
NotLost       (s, st) == st.delivered > 0 /\ st.exit = -1 => st.stop            \* observed by the stop query
Interruptible (s, st) == st.pc = "solve" => st.reg                              \* a signal during Solve finds the backend's callback
EveryCallback (s, st) == st.pc \in {"solve", "report"} /\ st.delivered < 3 /\ s.where \in {"solve", "report"} => st.cbs = st.delivered
Third         (s, st) == st.delivered = 3 <=> st.exit = 1
Exported      (s, st) == st.pc \in {"solve", "report", "teardown", "done"} /\ s.mode # "none" => st.exported = s.nfiles
AfterTeardown (s, st) == st.late = 0                                           \* no call into a backend that is being destroyed
=============================================================================
