------------------------------ MODULE GenOptions ------------------------------
(* Case generator for C11 (abstract cases; checks/c11.py renders them to      *)
(* bytes, TraceOptions re-tokenises the bytes, so nothing depends on the      *)
(* rendering being faithful to the class).                                    *)
(*  cls   every sequence of lexical classes up to MaxLen, those starting with  *)
(*        an option name up to NameLen, plus the longer ones that start like  *)
(*        an assignment to a string option:                                   *)
(*          K name of an int / real / wildcard option   S name of a string    *)
(*          option   F flag name   U unknown word   _ blanks   = ? q (quote)  *)
(*          n number   w word   x junk bytes (non-ASCII, control, very long)  *)
(*        (contains unterminated quotes, missing values, '=?', trailing '=')  *)
(*  hist  histories: up to MaxSteps (source, item) steps over the sources     *)
(*        mp_options, <exe>_options, <solver>_options, argv[1], argv[2], with *)
(*        the executable name known or not; items: assignments of two values  *)
(*        to every option type, queries, an unknown name, a value to a flag.  *)
EXTENDS Integers, Sequences, Json, TLC
CONSTANTS MaxLen,      \* all class sequences up to this length
          NameLen,     \* ... and those starting with an option name up to this length
          MaxSteps
VARIABLE c

Classes == {"K", "S", "F", "U", "_", "=", "?", "q", "n", "w", "x"}
Seqs(S, lo, hi) == UNION {[1..n -> S] : n \in lo..hi}
ClsCases ==
  {[fam |-> "cls", s |-> s] : s \in Seqs(Classes, 1, MaxLen)}
  \cup {[fam |-> "cls", s |-> <<n>> \o s] : n \in {"K", "S", "F", "U"}, s \in Seqs(Classes, MaxLen, NameLen - 1)}
  \cup {[fam |-> "cls", s |-> p \o s] : p \in {<<"S", "=">>, <<"S", "_">>}, s \in Seqs(Classes, MaxLen - 1, MaxLen - 1)}
  \cup {[fam |-> "cls", s |-> <<"S", "=", "q">> \o s] : s \in Seqs(Classes, MaxLen - 1, MaxLen - 1)}

Srcs == {"mp", "exe", "nam", "a1", "a2"}
CoreItems == {[k |-> "set", o |-> "int", v |-> 1], [k |-> "set", o |-> "int", v |-> 2],
              [k |-> "set", o |-> "str", v |-> 1], [k |-> "set", o |-> "wild", v |-> 1],
              [k |-> "set", o |-> "flag", v |-> 1], [k |-> "query", o |-> "int", v |-> 0],
              [k |-> "unknown", o |-> "none", v |-> 0]}
MoreItems == {[k |-> "set", o |-> o, v |-> v] : o \in {"int2", "dbl", "str", "wild"}, v \in {1, 2}}
               \cup {[k |-> "query", o |-> o, v |-> 0] : o \in {"str", "wild", "flag"}}
               \cup {[k |-> "flagarg", o |-> "flag", v |-> 0]}
OrderItems == {[k |-> "set", o |-> "int", v |-> 1], [k |-> "set", o |-> "int", v |-> 2],
               [k |-> "query", o |-> "int", v |-> 0]}
Steps(items) == {[src |-> s, it |-> i] : s \in Srcs, i \in items}
HistCases ==
  {[fam |-> "hist", exeKnown |-> e, h |-> h] : e \in BOOLEAN, h \in Seqs(Steps(CoreItems), 1, 2)}
  \cup {[fam |-> "hist", exeKnown |-> e, h |-> h] : e \in BOOLEAN, h \in Seqs(Steps(MoreItems), 1, 1)}
  \cup {[fam |-> "hist", exeKnown |-> TRUE, h |-> h] : h \in Seqs(Steps(OrderItems), 3, MaxSteps)}

Init == c \in ClsCases \cup HistCases
Next == UNCHANGED c
Emit == PrintT(<<"CASE", ToJson(c)>>)
=============================================================================
