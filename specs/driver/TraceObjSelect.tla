--------------------------- MODULE TraceObjSelect ---------------------------
(* Trace validation for C12.  Per run: Case, Vars?, Obj*, Sol?, Exit.         *)
EXTENDS ObjSelect, Json, IOUtils, TLC
Lines == ndJsonDeserialize(IOEnv.TRACE)
VARIABLES l, cur, objs, vlb, vub, sol
vars == <<l, cur, objs, vlb, vub, sol>>
E == Lines[l]
Step == l' = l + 1
Bad(what) == PrintT(<<"BAD", ToJson([line |-> l, id |-> cur.id, what |-> what])>>)
NoSol == [present |-> FALSE, objno |-> -2, code |-> -2, msgError |-> FALSE]

TCase == E.e = "Case" /\ Step /\ cur' = E /\ objs' = <<>> /\ vlb' = <<>> /\ vub' = <<>> /\ sol' = NoSol
TVars == E.e = "Vars" /\ Step /\ vlb' = E.lb /\ vub' = E.ub /\ UNCHANGED <<cur, objs, sol>>
TObj  == /\ E.e = "Obj" /\ Step /\ UNCHANGED <<cur, vlb, vub, sol>>
         /\ objs' = Append(objs, E)
         /\ E.i = Len(objs) \/ Bad([k |-> "objindex", i |-> E.i])   \* objectives arrive as 0,1,2,...
TSol  == E.e = "Sol" /\ Step /\ sol' = E /\ UNCHANGED <<cur, objs, vlb, vub>>

\* which original objectives the delivered list corresponds to: the sequences in
\* Allowed(...) that match semantically
Matches(seq) ==
  /\ Len(seq) = Len(objs)
  /\ \A j \in 1..Len(seq) :
       SameObjective(cur.objs[seq[j]], [max |-> objs[j].max = 1, lin |-> objs[j].lin, quad |-> objs[j].quad], vlb, vub)
TExit ==
  /\ E.e = "Exit" /\ Step /\ UNCHANGED <<cur, objs, vlb, vub, sol>>
  /\ LET al == Allowed(cur.N, cur.objno, cur.multi)
         good == {s \in al : Matches(s)}
         isErr == E.rc # 0 \/ (sol.present /\ sol.code >= 500)
     IN IF isErr
          THEN \/ (ErrorExpected(cur.N, cur.objno, cur.multi) /\ sol.present /\ sol.msgError /\ Len(objs) = 0)
               \/ Bad([k |-> "unexpected-error", rc |-> E.rc, code |-> sol.code])
          ELSE /\ \/ good # {} \/ Bad([k |-> "wrong-objectives", n |-> Len(objs)])
               /\ \/ good = {}
                  \/ ~sol.present
                  \/ \E s \in good : sol.objno \in EchoAllowed(cur.N, cur.objno, cur.multi, s)
                  \/ Bad([k |-> "echo", objno |-> sol.objno])
               /\ sol.present \/ Bad([k |-> "no-sol"])
TOther == /\ E.e \notin {"Case", "Vars", "Obj", "Sol", "Exit"} /\ Step /\ UNCHANGED <<cur, objs, vlb, vub, sol>>
          /\ E.e = "Meta" \/ Bad([k |-> "event", ev |-> E.e])

Init == l = 1 /\ cur = [id |-> -1] /\ objs = <<>> /\ vlb = <<>> /\ vub = <<>> /\ sol = NoSol
Next == l <= Len(Lines) /\ (TCase \/ TVars \/ TObj \/ TSol \/ TExit \/ TOther)
Spec == Init /\ [][Next]_vars
Finished == (l = Len(Lines) + 1) => PrintT(<<"DONE", ToJson([n |-> Len(Lines)])>>)
=============================================================================
