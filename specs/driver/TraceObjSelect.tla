--------------------------- MODULE TraceObjSelect ---------------------------
(* Trace validation for C12.  Per run: Case, Vars?, Obj*, Sol?, Exit.         *)
EXTENDS ObjSelect, Json, IOUtils, TLC
Lines == ndJsonDeserialize(IOEnv.TRACE)
VARIABLES l, cur, objs, vlb, vub, sol, seen
\* seen: for each group of runs that differ only in the ORDER of the options, the outcome of the first one
vars == <<l, cur, objs, vlb, vub, sol, seen>>
E == Lines[l]
Step == l' = l + 1
Bad(what) == PrintT(<<"BAD", ToJson([line |-> l, id |-> cur.id, what |-> what])>>)
NoSol == [present |-> FALSE, objno |-> -2, code |-> -2, msgError |-> FALSE]

TCase == E.e = "Case" /\ Step /\ cur' = E /\ objs' = <<>> /\ vlb' = <<>> /\ vub' = <<>> /\ sol' = NoSol /\ UNCHANGED seen
TVars == E.e = "Vars" /\ Step /\ vlb' = E.lb /\ vub' = E.ub /\ UNCHANGED <<cur, objs, sol, seen>>
TObj  == /\ E.e = "Obj" /\ Step /\ UNCHANGED <<cur, vlb, vub, sol, seen>>
         /\ objs' = Append(objs, E)
         /\ E.i = Len(objs) \/ Bad([k |-> "objindex", i |-> E.i])   \* objectives arrive as 0,1,2,...
TSol  == E.e = "Sol" /\ Step /\ sol' = E /\ UNCHANGED <<cur, objs, vlb, vub, seen>>

\* which original objectives the delivered list corresponds to: the sequences in
\* Allowed(...) that match semantically
Matches(seq) ==
  /\ Len(seq) = Len(objs)
  /\ \A j \in 1..Len(seq) :
       SameObjective(cur.objs[seq[j]], [max |-> objs[j].max = 1, lin |-> objs[j].lin, quad |-> objs[j].quad], vlb, vub)
TExit ==
  /\ E.e = "Exit" /\ Step /\ UNCHANGED <<cur, objs, vlb, vub, sol>>
  /\ LET al == Allowed(cur.N, cur.objno, cur.multi)
         good == {s \in al : Matches(s)}
         isErr == E.rc # 0 \/ (sol.present /\ sol.code >= 500)
         outcome == [good |-> good, echo |-> sol.objno, err |-> isErr]
     IN /\ seen' = IF cur.grp \in DOMAIN seen THEN seen ELSE [g \in DOMAIN seen \cup {cur.grp} |-> IF g = cur.grp THEN outcome ELSE seen[g]]
        \* the delivered objectives are a function of the option VALUES: runs that differ only in the
        \* order in which objno / multiobj were given must agree
        /\ \/ cur.grp \notin DOMAIN seen
           \/ (seen[cur.grp].err = isErr /\ seen[cur.grp].echo = sol.objno /\ (isErr \/ seen[cur.grp].good \cap good # {}))
           \/ Bad([k |-> "order-dependent", echo |-> sol.objno, n |-> Len(objs)])
        /\ IF isErr
          THEN \/ (ErrorExpected(cur.N, cur.objno, cur.multi) /\ sol.present /\ sol.msgError /\ Len(objs) = 0)
               \/ Bad([k |-> "unexpected-error", rc |-> E.rc, code |-> sol.code])
          ELSE /\ \/ good # {} \/ Bad([k |-> "wrong-objectives", n |-> Len(objs)])
               /\ \/ good = {}
                  \/ ~sol.present
                  \/ \E s \in good : sol.objno \in EchoAllowed(cur.N, cur.objno, cur.multi, s)
                  \/ Bad([k |-> "echo", objno |-> sol.objno])
               /\ sol.present \/ Bad([k |-> "no-sol"])
               \* with names given, a delivered objective carries the name of the objective it is
               /\ \/ cur.names = <<>> \/ good = {}
                  \/ \E s \in good : \A j \in 1..Len(s) : objs[j].name = cur.names[s[j]]
                  \/ Bad([k |-> "objective-name", got |-> [j \in 1..Len(objs) |-> objs[j].name]])
TOther == /\ E.e \notin {"Case", "Vars", "Obj", "Sol", "Exit"} /\ Step /\ UNCHANGED <<cur, objs, vlb, vub, sol, seen>>
          /\ E.e = "Meta" \/ Bad([k |-> "event", ev |-> E.e])

Init == l = 1 /\ cur = [id |-> -1] /\ objs = <<>> /\ vlb = <<>> /\ vub = <<>> /\ sol = NoSol /\ seen = [g \in {} |-> 0]
Next == l <= Len(Lines) /\ (TCase \/ TVars \/ TObj \/ TSol \/ TExit \/ TOther)
Spec == Init /\ [][Next]_vars
Finished == (l = Len(Lines) + 1) => PrintT(<<"DONE", ToJson([n |-> Len(Lines)])>>)
=============================================================================
