----------------------------- MODULE TraceDriver -----------------------------
EXTENDS Driver, Json, IOUtils, TLC
Lines == ndJsonDeserialize(IOEnv.TRACE)
VARIABLES l
E == Lines[l]
Why(s, o) ==
  {w \in {"hang", "crash", "malformed-sol", "dims", "sol-missing", "code-class", "no-message", "unexpected-sol", "exit-status", "no-diagnostic",
          "alt-malformed", "alt-count"} :
     CASE w = "hang" -> o.hang
       [] w = "crash" -> o.crash
       [] w = "alt-malformed" -> o.altBad # 0
       [] w = "alt-count" -> o.altBad = 0 /\ ~AltOK(s, o)
       [] w = "malformed-sol" -> o.sol = "malformed"
       [] w = "dims" -> o.sol = "ok" /\ ~o.dimsOK
       [] w = "sol-missing" -> CanWriteSol(s) /\ o.sol # "ok"
       [] w = "code-class" -> CanWriteSol(s) /\ o.sol = "ok" /\
                               ~(IF Failing(s) \/ (NamesBad(s) /\ o.code >= 500) THEN o.code >= 500 /\ o.code <= 999
                                 ELSE IF s.model \in {"infeas", "infeas_nested"} THEN (o.code >= 200 /\ o.code <= 299) \/ o.code = Scripted
                                 ELSE o.code = Scripted)
       [] w = "no-message" -> CanWriteSol(s) /\ o.sol = "ok" /\ (Failing(s) \/ (s.model \in {"infeas", "infeas_nested"} /\ o.code # Scripted)) /\ ~o.msgNonEmpty
       [] w = "unexpected-sol" -> ~CanWriteSol(s) /\ o.sol # "absent"
       [] w = "exit-status" -> ~CanWriteSol(s) /\ (WantsSol(s) \/ ~HeaderReadable(s)) /\ o.exit = 0
       [] w = "no-diagnostic" -> ~CanWriteSol(s) /\ (IF WantsSol(s) THEN ~o.stderrNonEmpty ELSE Failing(s) /\ ~o.stderrNonEmpty /\ ~o.stdoutNonEmpty)}
Init == l = 1
Next == /\ l <= Len(Lines) /\ l' = l + 1
        /\ IF E.e = "Run"
             THEN PrintT(<<"VERDICT", ToJson([id |-> E.id, ok |-> Accept(E.s, E.o), why |-> Why(E.s, E.o)])>>)
             ELSE E.e = "Meta" \/ PrintT(<<"VERDICT", ToJson([id |-> -1, ok |-> FALSE, why |-> {"crash"}])>>)
Spec == Init /\ [][Next]_<<l>>
Finished == (l = Len(Lines) + 1) => PrintT(<<"DONE", ToJson([n |-> Len(Lines)])>>)
=============================================================================
