------------------------------- MODULE Driver -------------------------------
(* Property C09: every driver run ends in a well-formed result or a diagnosed *)
(* failure.  A run is a phase machine                                         *)
(*   CmdLine -> OpenNL -> Header (solution handler exists from here on)       *)
(*           -> Options -> Body -> Names -> Convert -> Solve -> Report -> Exit *)
(* with a failure edge out of every phase.  A failure is reported in the      *)
(* .sol file (result code of the matching class) once the handler exists and  *)
(* the file can be written, otherwise on stderr with a non-zero exit status.  *)
EXTENDS Integers, Sequences, FiniteSets

Models == {"ok_lp", "ok_logic", "infeas", "unsupported", "needbounds",
           "trunc_header", "trunc_body", "bad_opcode", "bad_index", "empty", "missing",
           "infeas_nested",    \* infeasibility found while propagating into a nested expression
           "ok_noobj",         \* valid model without objective
           "ok_obj2",          \* valid model with two objectives, the second one selected (objno=2)
           "ok_quad",          \* valid model whose only constraint is quadratic (no linear row: no dual vector)
           "ok_powce",         \* valid model with (1+1)^x: the base of a power is a constant EXPRESSION, not a literal
           "bad_powvar"}       \* x^x written with the constant-exponent opcode: not supported, to be diagnosed
Opts == {"none", "valid", "unknown", "illtyped", "objno_range",
         "solcount",           \* valid: sol:count=1 (multiple-solution suffixes)
         "optfile_self",       \* tech:optionfile naming a file that includes itself
         "optfile_missing",    \* tech:optionfile naming a file that does not exist
         "solstub",            \* valid: sol:stub=alt sol:count=1, the solver reports NAlt further solutions
         "warn2"}              \* valid; the solver adds two warnings (the solve message gets empty lines inside)
Modes == {"ampl", "wantsol", "plain",
          "wantsol7",          \* stand-alone, wantsol=7: .sol file plus the tables of variables and duals on the terminal
          "print"}             \* stand-alone, wantsol=6: the tables only
Names == {"absent", "present", "short", "crlf",
          "emptyfirst"}        \* malformed: the names files start with an empty line
Outs == {"ok", "blocked",
         "full"}               \* the result path accepts open() but fails on write/close (device full)
\* how the problem is named on the command line: "m" (as AMPL does), or a stub with dots in the file name and in a
\* directory name ("run.2/m.v2"): the result still goes to <stub>.sol
Stubs == {"plain", "dotted"}
NewValues == {"infeas_nested", "ok_noobj", "ok_obj2", "solcount", "optfile_self", "optfile_missing", "emptyfirst", "full", "solstub", "warn2",
              "ok_quad", "wantsol7", "print", "ok_powce", "bad_powvar", "dotted"}
Scripted == 0                  \* the result code the scripted solver reports
NAlt == 3                      \* further solutions the scripted solver reports in a "solstub" scenario
\* the scenario space: the complete product of the round-1 values, plus every scenario that uses
\* exactly one of the values added later (keeps the run count linear in the additions)
NewCount(s) == Cardinality({f \in {"model", "opt", "mode", "names", "out", "stub"} : s[f] \in NewValues})
\* ... plus the pairs of later values that touch the same mechanism (solution counting x objectives)
Paired(s) == \/ s.model \in {"ok_noobj", "ok_obj2"} /\ s.opt \in {"solcount", "solstub"} /\ s.names \in {"absent", "present"} /\ s.out = "ok"
             \* ... and the printed tables x the models that have no objective / no linear row / fail late
             \/ s.model \in {"ok_quad", "ok_noobj", "infeas_nested"} /\ s.mode \in {"wantsol7", "print"} /\ s.opt \in {"none", "valid"}
                /\ s.names \in {"absent", "present"} /\ s.out = "ok"
Scenarios == {s \in [model : Models, opt : Opts, mode : Modes, names : Names, out : Outs, stub : Stubs] :
                (NewCount(s) <= 1 \/ (Paired(s) /\ s.stub = "plain"))}

HeaderReadable(s) == s.model \notin {"trunc_header", "empty", "missing"}
BodyBad(s) == s.model \in {"trunc_body", "bad_opcode", "bad_index"}
OptBad(s) == s.opt \in {"unknown", "illtyped", "objno_range", "optfile_self", "optfile_missing"}
ConvBad(s) == s.model \in {"unsupported", "needbounds", "bad_powvar"}
Failing(s) == ~HeaderReadable(s) \/ BodyBad(s) \/ OptBad(s) \/ ConvBad(s)
WantsSol(s) == s.mode \in {"ampl", "wantsol", "wantsol7"}
CanWriteSol(s) == WantsSol(s) /\ s.out = "ok" /\ HeaderReadable(s)
\* a malformed names file may be ignored or diagnosed - but the run must end in one of the two
NamesBad(s) == s.names = "emptyfirst"

\* observed outcome o: [hang, crash, exit, sol ("absent" | "ok" | "malformed"), code, dimsOK,
\*                      msgNonEmpty, stderrNonEmpty, stdoutNonEmpty,
\*                      altN (further .sol files found), altBad (of them: unparsable or wrong dimensions),
\*                      nsol (value of the problem suffix nsol in the main file, -1 = absent), altSeq]
\* further solution files: every one that exists is complete and has the header's dimensions; a run
\* that is asked for them and ends with the solver's own code wrote all of them and says how many
AltOK(s, o) ==
  /\ o.altBad = 0
  /\ s.opt # "solstub" => o.altN = 0
  /\ (s.opt = "solstub" /\ o.sol = "ok" /\ o.code = Scripted /\ s.model \in {"ok_lp", "ok_logic", "ok_noobj", "ok_obj2", "ok_quad"})
        => (o.altN = NAlt /\ o.nsol = NAlt /\ o.altSeq)      \* altSeq: the files are <stub>1.sol .. <stub>N.sol
WellFormed(s, o) ==
  /\ ~o.hang /\ ~o.crash
  /\ o.sol # "malformed"
  /\ o.sol = "ok" => o.dimsOK
Accept(s, o) ==
  /\ WellFormed(s, o)
  /\ AltOK(s, o)
  /\ IF CanWriteSol(s)
       THEN /\ o.sol = "ok"
            /\ IF Failing(s) \/ (NamesBad(s) /\ o.code >= 500) THEN o.code >= 500 /\ o.code <= 999 /\ o.msgNonEmpty
               ELSE IF s.model \in {"infeas", "infeas_nested"} THEN (o.code >= 200 /\ o.code <= 299 /\ o.msgNonEmpty) \/ o.code = Scripted
               ELSE o.code = Scripted
     ELSE IF WantsSol(s)
       \* the result file cannot be produced: header unreadable or the path is blocked
       THEN o.sol = "absent" /\ o.exit # 0 /\ o.stderrNonEmpty
     ELSE \* no .sol requested: the result / diagnostic goes to the terminal
          /\ o.sol = "absent"
          /\ Failing(s) => (o.stderrNonEmpty \/ o.stdoutNonEmpty)
          /\ ~HeaderReadable(s) => o.exit # 0
=============================================================================
