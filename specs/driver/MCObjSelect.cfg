CONSTANT MaxN = 3
SPECIFICATION Spec
INVARIANT Correct
INVARIANT Unique
INVARIANT Emit
CHECK_DEADLOCK FALSE
