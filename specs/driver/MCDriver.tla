------------------------------ MODULE MCDriver ------------------------------
(* Design check: the phase machine with "report where it can be reported"     *)
(* satisfies Accept for every scenario, and generates the scenarios.          *)
EXTENDS Driver, TLC, Json
VARIABLES s, pc, handler, o
vars == <<s, pc, handler, o>>
NoOutcome == [hang |-> FALSE, crash |-> FALSE, exit |-> -1, sol |-> "absent", code |-> -1, dimsOK |-> TRUE,
              msgNonEmpty |-> FALSE, stderrNonEmpty |-> FALSE, stdoutNonEmpty |-> FALSE, altN |-> 0, altBad |-> 0, nsol |-> -1, altSeq |-> TRUE]
Init == s \in Scenarios /\ pc = "open" /\ handler = FALSE /\ o = NoOutcome

\* a failure with result class `code` detected in the current phase
Fail(code) ==
  /\ pc' = "done" /\ UNCHANGED <<s, handler>>
  /\ IF handler /\ WantsSol(s) /\ s.out = "ok"
       THEN o' = [o EXCEPT !.sol = "ok", !.code = code, !.msgNonEmpty = TRUE, !.exit = 0]
     ELSE IF WantsSol(s)
       THEN o' = [o EXCEPT !.exit = 1, !.stderrNonEmpty = TRUE]
     ELSE o' = [o EXCEPT !.exit = IF handler THEN 0 ELSE 1, !.stderrNonEmpty = ~handler, !.stdoutNonEmpty = handler]
Step(next) == pc' = next /\ UNCHANGED <<s, handler, o>>

Open    == pc = "open"    /\ IF s.model \in {"missing", "empty", "trunc_header"} THEN Fail(500) ELSE (pc' = "options" /\ handler' = TRUE /\ UNCHANGED <<s, o>>)
Options == pc = "options" /\ IF OptBad(s) THEN Fail(500) ELSE Step("body")
Body    == pc = "body"    /\ IF BodyBad(s) THEN Fail(500) ELSE Step("convert")
Convert == pc = "convert" /\ IF ConvBad(s) THEN Fail(500) ELSE IF s.model \in {"infeas", "infeas_nested"} THEN Fail(200) ELSE Step("report")
Report  == /\ pc = "report" /\ pc' = "done" /\ UNCHANGED <<s, handler>>
           \* (the further solutions are written while the solver reports them, before the final result)
           /\ IF WantsSol(s) /\ s.out = "ok" THEN o' = [o EXCEPT !.sol = "ok", !.code = Scripted, !.msgNonEmpty = TRUE, !.exit = 0,
                                                               !.altN = IF s.opt = "solstub" THEN NAlt ELSE 0,
                                                               !.nsol = IF s.opt = "solstub" THEN NAlt ELSE -1]
              ELSE IF WantsSol(s) THEN o' = [o EXCEPT !.exit = 1, !.stderrNonEmpty = TRUE]
              ELSE o' = [o EXCEPT !.exit = 0, !.stdoutNonEmpty = TRUE]
Next == Open \/ Options \/ Body \/ Convert \/ Report \/ (pc = "done" /\ UNCHANGED vars)
Spec == Init /\ [][Next]_vars /\ WF_vars(Next)

Accepted == pc = "done" => Accept(s, o)
Terminates == <>(pc = "done")
Emit == pc = "open" => PrintT(<<"CASE", ToJson(s)>>)
=============================================================================
