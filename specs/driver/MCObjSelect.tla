---------------------------- MODULE MCObjSelect ----------------------------
(* Design check: the abstract driver (reader filter + echo) satisfies C12 for *)
(* every N, objno, multi; and emits the generated cases for the real driver.  *)
EXTENDS ObjSelect, TLC, Json
CONSTANT MaxN
VARIABLES N, objno, multi, pc, kept, echo, err
vars == <<N, objno, multi, pc, kept, echo, err>>

Init == /\ N \in 0..MaxN /\ objno \in {Unset} \cup 0..(MaxN + 1) /\ multi \in {Unset, 0, 1}
        /\ pc = "header" /\ kept = <<>> /\ echo = -2 /\ err = FALSE
\* the implementation's rules, step by step (solver-base.h, solver-io.h, nl-reader.h)
EffMulti == multi = 1 /\ objno = Unset
EffObjno == IF objno = Unset THEN 1 ELSE objno
Header == /\ pc = "header"
          /\ IF objno # Unset /\ objno > N THEN err' = TRUE /\ pc' = "done" ELSE err' = FALSE /\ pc' = "read"
          /\ UNCHANGED <<N, objno, multi, kept, echo>>
NeedObj(i) == EffMulti \/ EffObjno - 1 = i - 1
ReadObjs == /\ pc = "read" /\ pc' = "sol"
            /\ kept' = SelectSeq([k \in 1..N |-> k], LAMBDA k : IF EffMulti THEN TRUE ELSE k = EffObjno)
            /\ UNCHANGED <<N, objno, multi, echo, err>>
WriteSol == /\ pc = "sol" /\ pc' = "done"
            /\ echo' = IF kept = <<>> THEN -1 ELSE EffObjno - 1
            /\ UNCHANGED <<N, objno, multi, kept, err>>
Next == Header \/ ReadObjs \/ WriteSol \/ (pc = "done" /\ UNCHANGED vars)
Spec == Init /\ [][Next]_vars

Correct == pc = "done" =>
  IF err THEN ErrorExpected(N, objno, multi)
  ELSE /\ kept \in Allowed(N, objno, multi)
       /\ echo \in EchoAllowed(N, objno, multi, kept)
Unique == ErrorExpected(N, objno, multi) <=> (Allowed(N, objno, multi) = {})
\* case generator: one CASE per initial state
Emit == pc = "header" => PrintT(<<"CASE", ToJson([N |-> N, objno |-> objno, multi |-> multi])>>)
=============================================================================
