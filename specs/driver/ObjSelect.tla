----------------------------- MODULE ObjSelect -----------------------------
(* Objective selection (property C12).  An NL file carries N objectives; the  *)
(* options obj:no (objno) and obj:multi (multiobj) decide which of them the   *)
(* solver receives.  The run is modelled as                                    *)
(*   Options -> Header(range check) -> ReadObjs(filter O/G segments)           *)
(*           -> Deliver(flatten + push) -> WriteSol(echo)                      *)
(* Objectives are small integer functions over NV original variables so that  *)
(* "exactly the k-th objective" is decided semantically: the delivered         *)
(* objective, evaluated with the fixed auxiliary variables the converter       *)
(* introduces for constants, must equal the original at every grid point.      *)
EXTENDS Integers, Sequences, FiniteSets

NV == 3
Grid == [1..NV -> 0..2]
Unset == -1

\* original objective: [max, lin (function var -> coef), const, q (coef of x1*x2)]
EvalOrig(o, x) == o.const + o.q * x[1] * x[2] + o.lin[1] * x[1] + o.lin[2] * x[2] + o.lin[3] * x[3]

\* which objectives a correct driver delivers: set of allowed index sequences
\* (1-based); an out-of-range objno must be rejected instead.  objno: Unset or 0..; multi: Unset, 0, 1.
ErrorExpected(N, objno, multi) == objno # Unset /\ objno > N
Allowed(N, objno, multi) ==
  IF ErrorExpected(N, objno, multi) THEN {}
  ELSE IF multi = 1 /\ objno = Unset THEN {[k \in 1..N |-> k]}
  ELSE IF multi = 1 /\ objno # Unset
        \* both given: the statement does not say which wins; either is accepted
        THEN {[k \in 1..N |-> k]} \cup {IF objno = 0 THEN <<>> ELSE <<objno>>}
  ELSE LET k == IF objno = Unset THEN 1 ELSE objno
       IN IF k = 0 \/ N = 0 THEN {<<>>} ELSE {<<k>>}

\* objective number a correct driver echoes in the .sol ("objno" line is 0-based;
\* -1 when no objective was used)
EchoAllowed(N, objno, multi, delivered) ==
  IF multi = 1 THEN -1..(N - 1)              \* not fixed by the statement for multi-objective runs
  ELSE IF delivered = <<>> THEN {-1} ELSE {delivered[1] - 1}

\* delivered objective d: [max, lin : Seq(<<coef, var>>), quad : Seq(<<coef, v1, v2>>)]
\* over the delivered variables; xs is the full delivered assignment (1-based)
RECURSIVE SumLin(_, _, _)
SumLin(lin, xs, i) == IF i > Len(lin) THEN 0 ELSE lin[i][1] * xs[lin[i][2] + 1] + SumLin(lin, xs, i + 1)
RECURSIVE SumQuad(_, _, _)
SumQuad(q, xs, i) == IF i > Len(q) THEN 0 ELSE q[i][1] * xs[q[i][2] + 1] * xs[q[i][3] + 1] + SumQuad(q, xs, i + 1)
EvalDelivered(d, xs) == SumLin(d.lin, xs, 1) + SumQuad(d.quad, xs, 1)

\* delivered variables beyond the originals must be fixed (lb = ub): they carry constants
Extend(x, lb, ub) == [i \in 1..Len(lb) |-> IF i <= NV THEN x[i] ELSE lb[i]]
AuxFixed(lb, ub) == \A i \in (NV + 1)..Len(lb) : lb[i] = ub[i]

SameObjective(o, d, lb, ub) ==
  /\ o.max = d.max
  /\ AuxFixed(lb, ub)
  /\ \A x \in Grid : EvalOrig(o, x) = EvalDelivered(d, Extend(x, lb, ub))
=============================================================================
