SPECIFICATION Spec
INVARIANT Accepted
INVARIANT Emit
PROPERTY Terminates
CHECK_DEADLOCK FALSE
