-------------------------- MODULE TracePLDelivered --------------------------
(* C13 at the level of a whole conversion: the PLConstraint the solver is     *)
(* handed for a smooth function of an original variable (include/mp/flat/     *)
(* redef/MIP/lin_approx.h: FuncConConverter_MIP -> PLApproximate with the     *)
(* variable's bounds, its integrality and cvt:plapprox:reltol).               *)
(* One line per delivered PLConstraint of a model with one or two function    *)
(* terms (same function; integer and continuous arguments in either order,    *)
(* equal or different bounds).  The deviation is MEASURED outside (permille of *)
(* tol * max(1, |f|), at every breakpoint and 7 interior points per segment - *)
(* every integer point for an integer argument); the judgement is here, with  *)
(* the limit of PLShape.                                                      *)
EXTENDS PLShape, Json, IOUtils, TLC
Lines == ndJsonDeserialize(IOEnv.TRACE)
VARIABLES l
E == Lines[l]
Wrong(e) ==
  (IF e.covered THEN {} ELSE {"domain"}) \cup        \* the breakpoints span the argument's bounds as delivered
  (IF e.increasing THEN {} ELSE {"order"}) \cup
  (IF e.worst <= ErrLimit THEN {} ELSE {"err"}) \cup
  (IF e.nsamples > 0 THEN {} ELSE {"nosample"})
Init == l = 1
Next == /\ l <= Len(Lines) /\ l' = l + 1
        /\ CASE E.e = "PL" -> Wrong(E) = {} \/ PrintT(<<"BAD", ToJson([line |-> l, id |-> E.id, wrong |-> Wrong(E)])>>)
             [] E.e = "Missing" -> PrintT(<<"BAD", ToJson([line |-> l, id |-> E.id, wrong |-> {"missing"}])>>)
             [] OTHER -> TRUE
Spec == Init /\ [][Next]_<<l>>
Finished == (l = Len(Lines) + 1) => PrintT(<<"DONE", ToJson([n |-> Len(Lines)])>>)
=============================================================================
