--------------------------- MODULE TracePLShape ---------------------------
(* Trace validation for C13: every call of the real mp::PLApproximate recorded *)
(* by harness/h_pl.cc must be a run of the PLShape call machine that ends in a  *)
(* result violating no clause, or in a diagnosed refusal.  Events per call:     *)
(*   Call, then  Throw  |  Clip [Period] Pts+ Done  |  Hang | Crash.            *)
(* A line the spec cannot explain is printed as BAD and validation continues.   *)
EXTENDS PLShape, Json, IOUtils, TLC
Lines == ndJsonDeserialize(IOEnv.TRACE)
VARIABLES l, s, cnt
\* cnt: how often each interesting situation was met (non-vacuity, reported in DONE)
vars == <<l, s, cnt>>
Cnt0 == [done |-> 0, periodic |-> 0, onePerInt |-> 0, intArg |-> 0, refused |-> 0, skipped |-> 0]

E == Lines[l]
Bad(what) == PrintT(<<"BAD", ToJson([line |-> l, id |-> s.id, what |-> what])>>)
Step == l' = l + 1
Order(ev) == Bad([k |-> "order", ev |-> ev, pc |-> s.pc])

TCall ==
  /\ E.e = "Call" /\ Step
  /\ s' = Start(E.id, E.int) /\ UNCHANGED cnt
  \* (a disjunction with Bad must come after every primed variable is determined:
  \*  only then does TLC evaluate it as a plain, short-circuit boolean)
  /\ Resting(s) \/ Bad([k |-> "unfinished", pc |-> s.pc])
TClip ==
  /\ E.e = "Clip" /\ Step /\ UNCHANGED cnt
  /\ IF CanClip(s) /\ E.id = s.id
       THEN s' = Clip(s, E.lo, E.hi, E.cl, E.fl, E.clv, E.flv)
       ELSE s' = s /\ Order("Clip")
TPeriod ==
  /\ E.e = "Period" /\ Step /\ UNCHANGED cnt
  /\ IF CanPeriod(s) /\ E.id = s.id
       THEN s' = Period(s, E.remLo, E.remHi,
                        [Lpos |-> E.Lpos, integral |-> E.integral, nlo |-> E.nlo, nhi |-> E.nhi,
                         fLo |-> E.fLo, cHi |-> E.cHi, pem |-> E.pem])
       ELSE s' = s /\ Order("Period")
TPts ==
  /\ E.e = "Pts" /\ Step /\ UNCHANGED cnt
  /\ IF CanPts(s) /\ E.id = s.id
       THEN s' = IF s.isInt /\ ~s.per THEN Pts(s, E.xa, E.xr, E.xv, E.yx, E.em)
                                      ELSE Pts(s, E.xa, E.xr, <<>>, <<>>, E.em)
       ELSE s' = s /\ Order("Pts")
\* the result is complete: decide the clauses
TDone ==
  /\ E.e = "Done" /\ Step
  /\ IF CanDone(s) /\ E.id = s.id
       THEN /\ s' = Finish(s)
            /\ cnt' = [cnt EXCEPT !.done = @ + 1,
                                  !.periodic = @ + (IF s.per THEN 1 ELSE 0),
                                  !.intArg = @ + (IF s.isInt /\ ~s.per THEN 1 ELSE 0),
                                  !.onePerInt = @ + (IF s.isInt /\ ~s.per /\ s.allInt /\ s.n = s.flv - s.clv + 1 THEN 1 ELSE 0)]
            /\ LET wrong == SViolated(s) \cup (IF E.n # s.n \/ E.ny # s.n \/ E.per # s.per THEN {"record"} ELSE {})
               IN wrong = {} \/ Bad([k |-> "shape", wrong |-> wrong, n |-> s.n, per |-> s.per, isInt |-> s.isInt,
                                     diag |-> E.diag])
       ELSE s' = s /\ Order("Done") /\ UNCHANGED cnt
TThrow ==
  /\ E.e = "Throw" /\ Step
  /\ IF CanRefuse(s) /\ E.id = s.id
       THEN /\ s' = Refuse(s) /\ cnt' = [cnt EXCEPT !.refused = @ + 1]
            /\ E.kind \in DiagnosedRefusals \/ Bad([k |-> "throw", kind |-> E.kind])
       ELSE s' = s /\ Order("Throw") /\ UNCHANGED cnt
\* the call did not return
TDead ==
  /\ E.e \in {"Hang", "Crash"} /\ Step
  /\ s' = Die(s) /\ UNCHANGED cnt
  /\ Bad([k |-> "noreturn", ev |-> E.e])
\* the harness gave up on a case after many hangs in the same run: counted, never silent
TSkipped ==
  /\ E.e = "Skipped" /\ Step /\ UNCHANGED s
  /\ cnt' = [cnt EXCEPT !.skipped = @ + 1]
  /\ Resting(s) \/ Bad([k |-> "unfinished", pc |-> s.pc])
TOther ==
  /\ E.e \notin {"Call", "Clip", "Period", "Pts", "Done", "Throw", "Hang", "Crash", "Skipped"}
  /\ Step /\ UNCHANGED <<s, cnt>>
  /\ E.e = "Meta" \/ Bad([k |-> "event", ev |-> E.e])

Init == l = 1 /\ s = Blank /\ cnt = Cnt0
Next == l <= Len(Lines) /\ (TCall \/ TClip \/ TPeriod \/ TPts \/ TDone \/ TThrow \/ TDead \/ TSkipped \/ TOther)
Spec == Init /\ [][Next]_vars
Finished == (l = Len(Lines) + 1) =>
              PrintT(<<"DONE", ToJson([n |-> Len(Lines), open |-> ~Resting(s), cnt |-> cnt])>>)
=============================================================================
