------------------------------- MODULE GenPL -------------------------------
(* Case generator for C13: TLC enumerates the abstract case space             *)
(*   17 function types x parameter menu x interval grid x tolerance x int/cont *)
(* and prints one CASE record per selected case.  Tier "thorough" selects all; *)
(* "quick" a seeded stratified sample: in every stratum (function, parameter,  *)
(* interval) a fixed number of the 12 (tolerance, integrality) combinations,   *)
(* chosen by a hash of the seed.  checks/c13.py concretises the indices        *)
(* (parameter values, interval end points, 10^-tol) and nothing else.          *)
EXTENDS Integers, Sequences, TLC, Json, IOUtils

\* from the environment (checks/c13.py): VERIF seed reduced to 0..999, and how many of
\* the 12 (tolerance, integrality) combinations per stratum (12 = everything)
Seed == atoi(IOEnv.GEN_SEED)
PerStratum == atoi(IOEnv.GEN_PER)

\* function types with the size of their parameter menu (checks/c13.py: PARAMS)
Fns == << [fn |-> "Exp", np |-> 1],   [fn |-> "Log", np |-> 1],
          [fn |-> "ExpA", np |-> 4],  [fn |-> "LogA", np |-> 3],
          [fn |-> "Pow", np |-> 10],
          [fn |-> "Sin", np |-> 1],   [fn |-> "Cos", np |-> 1],   [fn |-> "Tan", np |-> 1],
          [fn |-> "Asin", np |-> 1],  [fn |-> "Acos", np |-> 1],  [fn |-> "Atan", np |-> 1],
          [fn |-> "Sinh", np |-> 1],  [fn |-> "Cosh", np |-> 1],  [fn |-> "Tanh", np |-> 1],
          [fn |-> "Asinh", np |-> 1], [fn |-> "Acosh", np |-> 1], [fn |-> "Atanh", np |-> 1] >>

\* the interval grid by class (checks/c13.py: INTERVALS has the end points, same order)
IvClass == << "huge", "huge", "huge", "zeroedge", "zeroedge", "tinymag", "tinywidth", "tinywidth",
              "trivial", "point", "empty", "nonfloat", "nonfloat", "nonfloat", "straddle0", "straddle0",
              "plain", "plain", "plain", "plain", "halfint", "halfint", "ints", "ints", "ints",
              "f32merge", "f32merge", "f32edge", "nonfloat", "period", "period", "period", "pole", "pole",
              "clip", "clip", "clip", "clip", "clip", "large", "large", "nonfloat" >>
NIv == Len(IvClass)
Tols == 1..6            \* tolerance 10^-t

VARIABLE c
Cases == { [f |-> f, p |-> p, iv |-> iv, tol |-> t, int |-> b] :
             f \in 1..Len(Fns), p \in 0..9, iv \in 1..NIv, t \in Tols, b \in BOOLEAN }

\* position of (tol, int) within its stratum, rotated by a hash of seed and stratum
Slot(k) == (k.tol - 1) * 2 + (IF k.int THEN 1 ELSE 0)
Rot(k) == ((Seed + 1) * 7919 + k.f * 104729 + k.p * 1299709 + k.iv * 15485863) % 12
Selected(k) == /\ k.p < Fns[k.f].np
               /\ ((Slot(k) + Rot(k)) % 12) < PerStratum

Init == c \in {k \in Cases : Selected(k)}
Next == UNCHANGED c
Emit == PrintT(<<"CASE", ToJson([fn |-> Fns[c.f].fn, p |-> c.p, iv |-> c.iv, ivc |-> IvClass[c.iv],
                                 tol |-> c.tol, int |-> c.int])>>)
=============================================================================
