------------------------------- MODULE PLShape -------------------------------
(* Piecewise-linear approximation of a univariate function (property C13,      *)
(* mp::PLApproximate in src/mp/flat/piecewise_linear.cpp): the STRUCTURAL part. *)
(*                                                                             *)
(* Decided here: breakpoints strictly increasing; first/last breakpoint equal  *)
(* the reported domain grDomOut (for a periodic result: the reported remainder *)
(* range); the period factor range covers the argument interval; the integer   *)
(* shortcut (one breakpoint per integer => exactly the consecutive integers of *)
(* the domain, each with the function's own value); the number of breakpoints  *)
(* is within the declared bound; the call returns a result or a diagnosed       *)
(* refusal.  The error bound itself is decided on MEASUREMENTS: the harness     *)
(* evaluates the result and the function (same libm call) at the breakpoints,  *)
(* at seven interior points of every segment (every/nine integers for integer  *)
(* arguments) and, for periodic results, at 400 points of the argument interval*)
(* plus both sides of the period boundaries through x = n*L + remainder; each  *)
(* deviation is logged in permille of the allowed one, tol * max(1, |f|).      *)
(* Clauses "err"/"perr": no measured deviation exceeds ErrLimit.  This is a    *)
(* sampled observation, not a proof over the reals (DESIGN.md section 6).      *)
(*                                                                             *)
(* Doubles are abstracted per call into atoms: `a` identifies a value (equal   *)
(* doubles <=> equal a), `r` is its rank in the sorted table of the call's     *)
(* values (x < y <=> r(x) < r(y)); NaN has a = r = -1.  Floor/ceil values are   *)
(* saturated ints.  yx[i] is the observation "y[i] has the bits of f(x[i])".   *)
EXTENDS Integers, Sequences, FiniteSets

NI     == 2000000000       \* xv entry of a breakpoint that is not an integer value
MaxPts == 1000000          \* declared bound on the number of breakpoints of one result

Clauses == {"inc", "count", "first", "last", "factor", "shortcut", "err", "perr"}
\* measured deviation, permille (floor) of the allowed deviation: 1000 = anything below 1.001 x allowed
ErrLimit == 1000

NoAtom == [a |-> -1, r |-> -1]
NoFac  == [Lpos |-> TRUE, integral |-> TRUE, nlo |-> 0, nhi |-> 0, fLo |-> 0, cHi |-> 0, pem |-> 0]

-----------------------------------------------------------------------------
(* 1. The clauses on a complete abstract result R:                             *)
(*    isInt, per : BOOLEAN          argument integer? periodic result?         *)
(*    lo, hi     : atoms of grDomOut.lbx / ubx                                 *)
(*    cl, fl     : atoms of ceil(lbx) / floor(ubx);  clv, flv their int values *)
(*    remLo, remHi : atoms of periodRemainderRange (periodic only)             *)
(*    fac : [nlo, nhi] = periodicFactorRange;                                  *)
(*          fLo = floor((lbx - remHi)/L), cHi = ceil((ubx - remLo)/L)          *)
(*    xa, xr     : atoms / ranks of the breakpoints                            *)
(*    xv, yx     : integer value (or NI) and exactness per breakpoint          *)
(*                 (present iff isInt /\ ~per)                                 *)
(*    em         : per breakpoint, worst measured deviation at it and inside   *)
(*                 the segment ending there; fac.pem: worst deviation measured *)
(*                 on the argument interval through the period reduction       *)
NPts(R) == Len(R.xr)
WantInt(R) == R.isInt /\ ~R.per

Increasing(R) == /\ \A i \in 1..NPts(R) : R.xr[i] >= 0
                 /\ \A i \in 1..NPts(R) - 1 : R.xr[i] < R.xr[i + 1]

CountOK(R) == NPts(R) >= 1 /\ NPts(R) <= MaxPts

\* the PL starts where the reported domain starts (an empty result is CountOK's business).  For an integer argument the
\* reported domain is a set of integers, so its first integer is also accepted.
FirstOK(R) == NPts(R) >= 1 =>
              /\ R.xa[1] >= 0
              /\ IF R.per THEN R.xa[1] = R.remLo.a
                 ELSE R.xa[1] = R.lo.a \/ (R.isInt /\ R.xa[1] = R.cl.a)
LastOK(R)  == NPts(R) >= 1 =>
              /\ R.xa[NPts(R)] >= 0
              /\ IF R.per THEN R.xa[NPts(R)] = R.remHi.a
                 ELSE R.xa[NPts(R)] = R.hi.a \/ (R.isInt /\ R.xa[NPts(R)] = R.fl.a)

\* x = n*L + rmd, rmd in [remLo, remHi]: every n needed to write a point of
\* [lbx, ubx] that way lies in [fLo + 1, cHi - 1]; the reported range must
\* contain those, be a non-empty range of integers, and L > 0.
FactorOK(R) == R.per => /\ R.fac.Lpos /\ R.fac.integral
                        /\ R.fac.nlo <= R.fac.nhi
                        /\ R.fac.nlo <= R.fac.fLo + 1
                        /\ R.fac.nhi >= R.fac.cHi - 1

\* "it uses one breakpoint per integer": integer argument, as many breakpoints as
\* the reported domain has integers, all of them at integer values
OnePerInteger(R) == /\ WantInt(R)
                    /\ NPts(R) = R.flv - R.clv + 1
                    /\ \A i \in 1..NPts(R) : R.xv[i] # NI
ShortcutOK(R) == OnePerInteger(R) =>
                   \A i \in 1..NPts(R) : R.xv[i] = R.clv + i - 1 /\ R.yx[i]

ErrOK(R)  == \A i \in 1..NPts(R) : R.em[i] <= ErrLimit
PErrOK(R) == R.per => R.fac.pem <= ErrLimit

Holds(c, R) == CASE c = "inc"      -> Increasing(R)
                 [] c = "count"    -> CountOK(R)
                 [] c = "first"    -> FirstOK(R)
                 [] c = "last"     -> LastOK(R)
                 [] c = "factor"   -> FactorOK(R)
                 [] c = "shortcut" -> ShortcutOK(R)
                 [] c = "err"      -> ErrOK(R)
                 [] c = "perr"     -> PErrOK(R)
Violated(R) == {c \in Clauses : ~Holds(c, R)}

-----------------------------------------------------------------------------
(* 2. One approximation call as a state machine, as far as it is observable:   *)
(*      idle -Call-> init -Clip-> clipped [-Period-> periodic] -Pts*-> approx   *)
(*           -Done-> done            (the integer shortcut, when taken, is      *)
(*      init -Throw-> refused         visible in the points only)               *)
(*    The breakpoints arrive in chunks; the state keeps the running summary     *)
(*    from which the clauses are decided at Done (SViolated).  MCPLShape checks *)
(*    that the summary decides exactly Violated(R).                            *)
Blank == [pc |-> "idle", id |-> -1, isInt |-> FALSE, per |-> FALSE,
          lo |-> NoAtom, hi |-> NoAtom, cl |-> NoAtom, fl |-> NoAtom, clv |-> 0, flv |-> 0,
          remLo |-> NoAtom, remHi |-> NoAtom, fac |-> NoFac,
          n |-> 0, firstA |-> -1, lastA |-> -1, lastR |-> -1,
          incOK |-> TRUE, allInt |-> TRUE, consec |-> TRUE, exact |-> TRUE, errOK |-> TRUE]

Resting(s)   == s.pc \in {"idle", "done", "refused", "dead"}
CanClip(s)   == s.pc = "init"
CanPeriod(s) == s.pc = "clipped"
CanPts(s)    == s.pc \in {"clipped", "periodic", "approx"}
CanDone(s)   == s.pc = "approx"
CanRefuse(s) == s.pc = "init"

Start(id, isInt) == [Blank EXCEPT !.pc = "init", !.id = id, !.isInt = isInt]

Clip(s, lo, hi, cl, fl, clv, flv) ==
  [s EXCEPT !.pc = "clipped", !.lo = lo, !.hi = hi, !.cl = cl, !.fl = fl, !.clv = clv, !.flv = flv]

Period(s, remLo, remHi, fac) ==
  [s EXCEPT !.pc = "periodic", !.per = TRUE, !.remLo = remLo, !.remHi = remHi, !.fac = fac]

\* a chunk of breakpoints: xa, xr always; xv, yx (same length) iff integer & non-periodic
Pts(s, xa, xr, xv, yx, em) ==
  LET k == Len(xr)
      w == s.isInt /\ ~s.per
  IN [s EXCEPT
        !.pc = "approx",
        !.n = s.n + k,
        !.firstA = IF s.n = 0 /\ k > 0 THEN xa[1] ELSE s.firstA,
        !.lastA  = IF k > 0 THEN xa[k] ELSE s.lastA,
        !.lastR  = IF k > 0 THEN xr[k] ELSE s.lastR,
        !.incOK  = /\ s.incOK
                   /\ \A i \in 1..k : xr[i] >= 0
                   /\ (s.n > 0 /\ k > 0) => s.lastR < xr[1]
                   /\ \A i \in 1..k - 1 : xr[i] < xr[i + 1],
        !.allInt = s.allInt /\ (w => \A i \in 1..k : xv[i] # NI),
        !.consec = s.consec /\ (w => \A i \in 1..k : xv[i] = s.clv + s.n + i - 1),
        !.exact  = s.exact /\ (w => \A i \in 1..k : yx[i]),
        !.errOK  = s.errOK /\ Len(em) = k /\ \A i \in 1..k : em[i] <= ErrLimit]

Finish(s) == [s EXCEPT !.pc = "done"]
Refuse(s) == [s EXCEPT !.pc = "refused"]
Die(s)    == [s EXCEPT !.pc = "dead"]

\* refusals that are a diagnosis (mp::Error: unsupported range, infeasible domain);
\* any other exception escaping the call is not a result
DiagnosedRefusals == {"infeas", "mp"}

SHolds(c, s) ==
  CASE c = "inc"      -> s.incOK
    [] c = "count"    -> s.n >= 1 /\ s.n <= MaxPts
    [] c = "first"    -> s.n >= 1 =>
                         /\ s.firstA >= 0
                         /\ IF s.per THEN s.firstA = s.remLo.a
                            ELSE s.firstA = s.lo.a \/ (s.isInt /\ s.firstA = s.cl.a)
    [] c = "last"     -> s.n >= 1 =>
                         /\ s.lastA >= 0
                         /\ IF s.per THEN s.lastA = s.remHi.a
                            ELSE s.lastA = s.hi.a \/ (s.isInt /\ s.lastA = s.fl.a)
    [] c = "factor"   -> s.per => /\ s.fac.Lpos /\ s.fac.integral
                                  /\ s.fac.nlo <= s.fac.nhi
                                  /\ s.fac.nlo <= s.fac.fLo + 1
                                  /\ s.fac.nhi >= s.fac.cHi - 1
    [] c = "shortcut" -> (s.isInt /\ ~s.per /\ s.n = s.flv - s.clv + 1 /\ s.allInt)
                            => (s.consec /\ s.exact)
    [] c = "err"      -> s.errOK
    [] c = "perr"     -> s.per => s.fac.pem <= ErrLimit
SViolated(s) == {c \in Clauses : ~SHolds(c, s)}

\* the machine run on a complete result R, its points split after position k
RunOn(R, k) ==
  LET s0 == Clip(Start(0, R.isInt), R.lo, R.hi, R.cl, R.fl, R.clv, R.flv)
      s1 == IF R.per THEN Period(s0, R.remLo, R.remHi, R.fac) ELSE s0
      w  == WantInt(R)
      sub(q, a, b) == IF a > b THEN <<>> ELSE SubSeq(q, a, b)
      n  == NPts(R)
      s2 == Pts(s1, sub(R.xa, 1, k), sub(R.xr, 1, k),
                IF w THEN sub(R.xv, 1, k) ELSE <<>>, IF w THEN sub(R.yx, 1, k) ELSE <<>>, sub(R.em, 1, k))
      s3 == Pts(s2, sub(R.xa, k + 1, n), sub(R.xr, k + 1, n),
                IF w THEN sub(R.xv, k + 1, n) ELSE <<>>, IF w THEN sub(R.yx, k + 1, n) ELSE <<>>, sub(R.em, k + 1, n))
  IN Finish(s3)
=============================================================================
