CONSTANT HMax = 4
SPECIFICATION Spec
INVARIANT IdealSatisfies
INVARIANT CorruptionCaught
INVARIANT SummaryAgrees
INVARIANT Progress
CHECK_DEADLOCK FALSE
