------------------------------ MODULE MCPLShape ------------------------------
(* Design check of PLShape.  An IDEAL approximation call (the algorithm sketch: *)
(* clip, optional periodic reduction, breakpoints appended left to right up to  *)
(* the end of the domain, integer shortcut) is run on a small value space and   *)
(* must satisfy every clause (the conjunction is satisfiable and agrees with    *)
(* the algorithm's intent); then ONE corruption is applied to its result and    *)
(* the clause that guards against it must reject it.  On every reachable result *)
(* (ideal or corrupted) and every split of the breakpoints into two chunks the  *)
(* incremental summary used by trace validation decides exactly Violated(R).    *)
(* Values are half units: v in 0..HMax stands for v/2, so that non-integer      *)
(* domain ends exist; atom = rank = v (the identity abstraction).              *)
EXTENDS PLShape, TLC
CONSTANT HMax
VARIABLES pc, R, expect
vars == <<pc, R, expect>>

H == 0..HMax
At(v) == [a |-> v, r |-> v]
CeilV(v) == v + (v % 2)
FloorV(v) == v - (v % 2)
XV(v) == IF v % 2 = 0 THEN v \div 2 ELSE NI
Last(q) == q[Len(q)]

R0 == [isInt |-> FALSE, per |-> FALSE, lo |-> NoAtom, hi |-> NoAtom, cl |-> NoAtom, fl |-> NoAtom,
       clv |-> 0, flv |-> 0, remLo |-> NoAtom, remHi |-> NoAtom, fac |-> NoFac,
       xa |-> <<>>, xr |-> <<>>, xv |-> <<>>, yx |-> <<>>, em |-> <<>>]

\* points of R from a sequence of values, all exact
WithPts(r, q) == [r EXCEPT !.xa = q, !.xr = q, !.em = [i \in 1..Len(q) |-> 0],
                           !.xv = IF r.isInt /\ ~r.per THEN [i \in 1..Len(q) |-> XV(q[i])] ELSE <<>>,
                           !.yx = IF r.isInt /\ ~r.per THEN [i \in 1..Len(q) |-> TRUE] ELSE <<>>]

Init == pc = "init" /\ expect = "none" /\ \E b \in BOOLEAN : R = [R0 EXCEPT !.isInt = b]

ClipStep ==
  /\ pc = "init" /\ pc' = "clipped" /\ UNCHANGED expect
  /\ \E lo \in H, hi \in H :
       /\ lo <= hi
       /\ R' = [R EXCEPT !.lo = At(lo), !.hi = At(hi), !.cl = At(CeilV(lo)), !.fl = At(FloorV(hi)),
                         !.clv = CeilV(lo) \div 2, !.flv = FloorV(hi) \div 2]

PeriodStep ==
  /\ pc = "clipped" /\ pc' = "approx" /\ UNCHANGED expect
  /\ \E rl \in 0..1, ru \in (HMax - 1)..HMax, fLo \in -1..0, w \in 1..2, dl \in 0..1, dh \in 0..1, pe \in {0, ErrLimit} :
       LET cHi == fLo + w
           nlo == fLo + 1 - dl
           nhi == cHi - 1 + dh
       IN /\ rl < ru /\ nlo <= nhi
          /\ R' = WithPts([R EXCEPT !.per = TRUE, !.remLo = At(rl), !.remHi = At(ru),
                                    !.fac = [Lpos |-> TRUE, integral |-> TRUE, nlo |-> nlo, nhi |-> nhi,
                                             fLo |-> fLo, cHi |-> cHi, pem |-> pe]], <<rl>>)

NonPeriodicStep ==
  /\ pc = "clipped" /\ pc' = "approx" /\ UNCHANGED expect
  /\ R' = WithPts(R, <<R.lo.a>>)

Target == IF R.per THEN R.remHi.a ELSE R.hi.a

ApproxStep ==
  /\ pc = "approx" /\ UNCHANGED expect
  /\ IF Last(R.xa) = Target THEN pc' = "approximated" /\ UNCHANGED R
     ELSE /\ pc' = pc
          \* the step is accepted with a measured deviation anywhere up to the limit
          /\ \E p \in H, e \in {0, ErrLimit} :
                /\ Last(R.xa) < p /\ p <= Target
                /\ R' = [WithPts(R, Append(R.xa, p)) EXCEPT !.em = Append(R.em, e)]

\* ConsiderIntegrality: N integers in the domain, N <= number of breakpoints
ShortcutStep ==
  /\ pc = "approximated" /\ pc' = "done" /\ UNCHANGED expect
  /\ LET N == R.flv - R.clv + 1
     IN IF R.isInt /\ ~R.per /\ N >= 1 /\ N <= NPts(R)
        THEN R' = WithPts(R, [i \in 1..N |-> 2 * (R.clv + i - 1)])
        ELSE UNCHANGED R

Drop(q, i) == [j \in 1..Len(q) - 1 |-> IF j < i THEN q[j] ELSE q[j + 1]]
Ins(q, i, v) == [j \in 1..Len(q) + 1 |-> IF j < i THEN q[j] ELSE IF j = i THEN v ELSE q[j - 1]]
WithX(r, q) == [r EXCEPT !.xa = q, !.xr = q, !.em = [i \in 1..Len(q) |-> 0],
                         !.xv = IF WantInt(r) THEN [i \in 1..Len(q) |-> XV(q[i])] ELSE <<>>,
                         !.yx = IF WantInt(r) THEN [i \in 1..Len(q) |-> TRUE] ELSE <<>>]

Corrupt ==
  /\ pc = "done" /\ pc' = "corrupt"
  /\ LET n == NPts(R) IN
     \/ \* the end point of the domain is not appended
        /\ n >= 2 /\ ~(R.isInt /\ ~R.per /\ R.xa[n - 1] = R.fl.a)
        /\ R' = WithX(R, Drop(R.xa, n)) /\ expect' = "last"
     \/ \* the start point is lost
        /\ n >= 2 /\ ~(R.isInt /\ ~R.per /\ R.xa[2] = R.cl.a)
        /\ R' = WithX(R, Drop(R.xa, 1)) /\ expect' = "first"
     \/ \* a breakpoint is emitted twice (no de-duplication)
        /\ \E i \in 1..n : R' = WithX(R, Ins(R.xa, i, R.xa[i])) /\ expect' = "inc"
     \/ \* two neighbours out of order
        /\ \E i \in 1..n - 1 :
             R' = WithX(R, [j \in 1..n |-> IF j = i THEN R.xa[i + 1] ELSE IF j = i + 1 THEN R.xa[i] ELSE R.xa[j]])
        /\ expect' = "inc"
     \/ \* nothing is returned
        /\ R' = WithX(R, <<>>) /\ expect' = "count"
     \/ \* shortcut value taken at the wrong integer
        /\ OnePerInteger(R)
        /\ \E i \in 1..n : R' = [R EXCEPT !.yx[i] = FALSE]
        /\ expect' = "shortcut"
     \/ \* shortcut starts one integer late (same count)
        /\ OnePerInteger(R) /\ n >= 1
        /\ R' = [R EXCEPT !.xv = [i \in 1..n |-> R.xv[i] + 1]]
        /\ expect' = "shortcut"
     \/ \* a step accepted although the deviation on it exceeds the tolerance
        /\ \E i \in 1..n : R' = [R EXCEPT !.em[i] = ErrLimit + 1] /\ expect' = "err"
     \/ \* the reduction to the remainder range is off (shifted period, wrong remainder end)
        /\ R.per /\ R' = [R EXCEPT !.fac.pem = ErrLimit + 1] /\ expect' = "perr"
     \/ \* factor range misses the first / last needed period, or is not integral
        /\ R.per
        /\ \/ R' = [R EXCEPT !.fac.nlo = R.fac.fLo + 2, !.fac.nhi = R.fac.fLo + 3]
           \/ R' = [R EXCEPT !.fac.nhi = R.fac.cHi - 2, !.fac.nlo = R.fac.cHi - 3]
           \/ R' = [R EXCEPT !.fac.integral = FALSE]
           \/ R' = [R EXCEPT !.fac.nlo = R.fac.nhi + 1]
        /\ expect' = "factor"

Next == ClipStep \/ PeriodStep \/ NonPeriodicStep \/ ApproxStep \/ ShortcutStep \/ Corrupt
        \/ (pc = "corrupt" /\ UNCHANGED vars)
Spec == Init /\ [][Next]_vars

IdealSatisfies == pc = "done" => Violated(R) = {}
CorruptionCaught == pc = "corrupt" => expect \in Violated(R)
SummaryAgrees == pc \in {"done", "corrupt"} =>
                   \A k \in 0..NPts(R) : SViolated(RunOn(R, k)) = Violated(R)
\* the ideal machine produces increasing points all along
Progress == pc \in {"approx", "approximated"} => Increasing(R)
=============================================================================
