// Concretisation of the abstract solve message of SolFormat.tla and the way a
// delivered message is recorded (shared by h_solrt and h_solread).
#ifndef H_SOLMSG_H_
#define H_SOLMSG_H_
#include "h_solcommon.h"

namespace vh {

// "@Lnnn" stands for a line of nnn printable characters
inline std::string long_line(int n) {
  std::string s;
  for (int i = 0; i < n; ++i) s += (char)('A' + (i * 7 + i / 26) % 26);
  return s;
}
inline std::string concrete_line(const std::string &l) {
  if (l.size() > 2 && l[0] == '@' && l[1] == 'L') return long_line(atoi(l.c_str() + 2));
  return l;
}
inline std::string abstract_line(const std::string &l) {
  if (l.size() >= 200 && l == long_line((int)l.size())) return "@L" + std::to_string(l.size());
  return l;
}
// msg = [nbs, lines, crlf, trail]
inline std::string concrete_message(const J &m) {
  std::string eol = m["crlf"].b ? "\r\n" : "\n";
  std::string s(m["nbs"].i(), '\b');
  const auto &ls = m["lines"].a;
  for (size_t i = 0; i < ls.size(); ++i) {
    if (i) s += eol;
    s += concrete_line(ls[i].s);
  }
  if (m["trail"].b) s += eol;
  return s;
}
// a delivered message: its lines (the final '\n' is the terminator of the last
// line; "endsnl" records whether it was there)
inline std::string message_fields(const char *s) {
  std::string t(s);
  bool endsnl = !t.empty() && t.back() == '\n';
  if (endsnl) t.pop_back();
  std::vector<std::string> ls = split_nl(t);
  for (auto &l : ls) l = abstract_line(l);
  return "\"lines\":" + jstrs(ls) + ",\"endsnl\":" + (endsnl ? "true" : "false");
}

}  // namespace vh
#endif
