// C01, encoding stage: calls the REAL ZZI encoder (src/mp/flat/encodings.cpp) the way sos2.h does, for histories of
// SOS2 sets converted one after the other by the same converter object; records every returned column.
//   h_zzi <histories.txt> <out.ndjson>      histories: one per line, "d1 d2 d3" (members - 1 of each set)
#include <cmath>
#include <cstdio>
#include <sstream>
#include <string>
#include <vector>
#include "mp/flat/redef/encodings.h"

int main(int argc, char **argv) {
  if (argc < 3) return 2;
  FILE *in = fopen(argv[1], "r"), *out = fopen(argv[2], "w");
  if (!in || !out) return 2;
  char line[256];
  int hist = 0;
  while (fgets(line, sizeof line, in)) {
    ++hist;
    auto enc = mp::MakeZZIEncoding();          // one converter = one encoder object
    std::istringstream ss(line);
    int d, pos = 0;
    while (ss >> d) {
      ++pos;
      int r = (int)std::ceil(std::log2((double)d));
      std::string lo = "[", hi = "[";
      for (int k = 1; k <= r; ++k)
        for (int which = 0; which < 2; ++which) {      // the order of sos2.h: lower row, then upper row
          std::vector<double> col = mp::GetExtendedColumn(*enc, r, k, which, d + which);
          std::string s = "[";
          for (size_t i = 0; i < col.size(); ++i) { if (i) s += ","; s += std::to_string((long)col[i]); }
          (which ? hi : lo) += std::string(k > 1 ? "," : "") + s + "]";
        }
      fprintf(out, "{\"e\":\"Set\",\"hist\":%d,\"pos\":%d,\"d\":%d,\"lo\":%s],\"hi\":%s]}\n", hist, pos, d, lo.c_str(), hi.c_str());
    }
    fflush(out);
  }
  fclose(out);
  return 0;
}
