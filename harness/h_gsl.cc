// C16 harness: loads the REAL AMPL/GSL binding (src/gsl/amplgsl.cc, compiled against
// harness/gsl_shim/funcadd.h and the system libgsl), discovers the functions through
// AmplExports::Addfunc, calls their registered function pointers and records the
// outcome of each call as ndjson.  No judgement here: TraceFuncCall.tla decides.
//
//   h_gsl --list                         registration data {name,type,nargs} per function
//   h_gsl <calls.txt> <out.ndjson> [timeout_s [timeout_after_hangs_ms]]
//     after two Hang records of one function its remaining calls get the second, shorter
//     limit (a run over a function that loops on many inputs stays bounded); after twelve
//     its remaining calls are not made and get a Skipped record each
// call line:  id name mode dig nargs a1 .. an
//   mode v = value only, d = first derivatives, h = first and second
//   dig  '-' = NULL, else a string of 0/1 (1 = argument constant, partials not needed)
// Every call is made three times on fresh arglists: once with derivs/hes pre-filled with
// NaN and twice pre-filled with a finite sentinel.  The first two give two Ret records
// (fill "nan" / "val"; in the latter a partial that still holds the sentinel bits is
// flagged unwritten), the last two are compared bit by bit (determinism observation).  Calls run in a
// forked child with a per-call alarm; a child killed by SIGALRM gives a Hang record for
// the call in progress, any other abnormal end a Crash record, and a new child resumes
// with the next call.  derivs/hes are pre-filled with NaN so that a partial the
// function does not write is visible as NaN instead of an arbitrary number.
#include <cmath>
#include <cstdio>
#include <cstdlib>
#include <cstring>
#include <map>
#include <string>
#include <vector>
#include <signal.h>
#include <sys/mman.h>
#include <sys/resource.h>
#include <sys/time.h>
#include <sys/wait.h>
#include <unistd.h>

#include "funcadd.h"

struct Fn { std::string name; rfunc f; int type; int nargs; void *info; };
static std::vector<Fn> fns;
static std::map<std::string, int> by_name;
static std::vector<void *> tempmem;

static void add_func(const char *name, rfunc f, int type, int nargs, void *funcinfo, AmplExports *) {
  by_name[name] = (int)fns.size();
  fns.push_back({name, f, type, nargs, funcinfo});
}
static void at_reset_(AmplExports *, Exitfunc *, void *) {}
static void *tempmem_(TMInfo *, size_t size) { void *p = malloc(size); tempmem.push_back(p); return p; }

static AmplExports AE;
static TMInfo TMI;

static void load() {
  memset(&AE, 0, sizeof AE);
  AE.StdErr = stderr;
  AE.ASLdate = 20111028;
  AE.Addfunc = add_func;
  AE.AtReset = at_reset_;
  AE.AtExit = at_reset_;
  AE.Tempmem = tempmem_;
  AE.SnprintF = snprintf;
  AE.VsnprintF = vsnprintf;
  AE.SprintF = sprintf;
  AE.PrintF = printf;
  AE.FprintF = fprintf;
  AE.Strtod = strtod;
  funcadd_ASL(&AE);
}

struct Call { long id; int fn; char mode; std::string dig; std::vector<double> a; bool measure = false; };

struct Out { double v; std::vector<double> d, h; std::string err; bool haserr; const char *sv; };

static const double SENTINEL = -8.0776519e+33;   // finite, not a value any formula here yields

static Out call_once(const Fn &f, const Call &c, bool nanfill) {
  Out o; o.sv = nullptr;
  int n = (int)c.a.size();
  std::vector<double> ra(c.a);
  std::vector<char> dig(c.dig.begin(), c.dig.end());
  for (auto &ch : dig) ch = ch == '1';
  arglist al; memset(&al, 0, sizeof al);
  al.n = al.nr = n;
  al.ra = n ? ra.data() : nullptr;
  al.dig = (c.dig != "-" && n) ? dig.data() : nullptr;
  al.funcinfo = f.info;
  al.AE = &AE; al.TMI = &TMI;
  const double poison = nanfill ? std::nan("") : SENTINEL;
  if (c.mode != 'v') { o.d.assign(n ? n : 1, poison); al.derivs = o.d.data(); }
  if (c.mode == 'h') { o.h.assign(n ? n * (n + 1) / 2 : 1, poison); al.hes = o.h.data(); }
  if (f.type & FUNCADD_STRING_VALUED) {
    typedef const char *(*SF)(arglist *);
    o.sv = ((SF)f.f)(&al); o.v = 0;
  } else {
    o.v = f.f(&al);
  }
  if (c.mode != 'v') o.d.resize(n);
  if (c.mode == 'h') o.h.resize(n * (n + 1) / 2);
  o.haserr = al.Errmsg != nullptr;
  if (al.Errmsg) o.err = al.Errmsg;
  return o;
}

static bool same(const std::vector<double> &a, const std::vector<double> &b) {
  return a.size() == b.size() && (a.empty() || memcmp(a.data(), b.data(), a.size() * sizeof(double)) == 0);
}

static std::string flags(const std::vector<double> &v, bool unwritten) {
  std::string s = "[";
  for (size_t i = 0; i < v.size(); ++i) {
    bool b = unwritten ? memcmp(&v[i], &SENTINEL, sizeof(double)) == 0 : std::isnan(v[i]);
    s += (i ? "," : "") + std::string(b ? "true" : "false");
  }
  return s + "]";
}

// ---- agreement of the returned partials with numerical differentiation (observation only) ----
// For a call that reported no error, with every argument one of the plain values 0, +-0.25..3
// (the caller says so: measure flag), each requested partial is compared with one-sided
// difference quotients of the binding's OWN values on the left and on the right (steps h, h/2,
// h/4 with h = 1e-4 * max(1,|x|), Richardson-extrapolated; the second partials from the binding's
// own first partials).  A side is "stable" when the extrapolations from (h, h/2) and (h/2, h/4)
// agree to 1e-3 relative; only then can it contradict.  Classes per partial and side:
//   "ok"  stable and |returned - numerical| <= 1e-3 * scale      scale = max(1, |returned|, |numerical|)
//   "bad" stable and |returned - numerical| >  1e-2 * scale
//   "unk" anything else (a neighbouring value not computed, unstable quotient, in between)
// FuncCall.tla (clause "agree") judges: no "bad" when no error was reported.
// The second partials are classified under both readings of "upper triangle" (hl/hr: by columns,
// index i + j(j+1)/2 as in the ASL documentation; hlr/hrr: by rows, index i(2n-i-1)/2 + j as the
// repository's own gsl-test reads it); they differ only for three or more arguments.
struct Agree { std::vector<std::string> dl, dr, hl, hr, hlr, hrr; std::string worst; };
static std::string cls_of(double ret, double num, bool stable, double &gap) {
  if (!stable || !std::isfinite(ret) || !std::isfinite(num)) return "unk";
  double scale = std::max(1.0, std::max(std::fabs(ret), std::fabs(num)));
  gap = std::fabs(ret - num) / scale;
  return gap <= 1e-3 ? "ok" : gap > 1e-2 ? "bad" : "unk";
}
// one-sided Richardson derivative of g along argument j; sgn = +1 right, -1 left
template <class G> static bool onesided(G g, double g0, const std::vector<double> &x, int j, int sgn, double &est) {
  double h = 1e-4 * std::max(1.0, std::fabs(x[j]));
  double q[3];
  for (int k = 0; k < 3; ++k) {
    std::vector<double> y(x);
    double hk = h / (1 << k);
    y[j] = x[j] + sgn * hk;
    double gv;
    if (!g(y, gv) || !std::isfinite(gv)) return false;
    q[k] = (gv - g0) / (sgn * hk);
  }
  double a = 2 * q[1] - q[0], b = 2 * q[2] - q[1];
  est = b;
  return std::fabs(a - b) <= 1e-3 * std::max(1.0, std::max(std::fabs(a), std::fabs(b)));
}
static Agree measure(const Fn &f, const Call &c, const Out &o) {
  Agree A;
  int n = (int)c.a.size();
  A.dl.assign(o.d.size(), "unk"); A.dr = A.dl;
  A.hl.assign(o.h.size(), "unk"); A.hr = A.hl; A.hlr = A.hl; A.hrr = A.hl;
  auto isconst = [&](int i) { return c.dig != "-" && i < (int)c.dig.size() && c.dig[i] == '1'; };
  auto value_at = [&](const std::vector<double> &y, double &v) {
    Call c2 = c; c2.a = y; c2.mode = 'v';
    Out o2 = call_once(f, c2, true);
    v = o2.v; return !o2.haserr;
  };
  double worstgap = -1;
  char wb[256];
  for (int i = 0; i < n && i < (int)o.d.size(); ++i) {
    if (isconst(i)) continue;
    for (int sgn : {-1, 1}) {
      double est = 0, gap = 0;
      bool st = onesided(value_at, o.v, c.a, i, sgn, est);
      std::string cl = cls_of(o.d[i], est, st, gap);
      (sgn < 0 ? A.dl : A.dr)[i] = cl;
      if (cl == "bad" && gap > worstgap) {
        worstgap = gap;
        snprintf(wb, sizeof wb, "d/dx%d returned %.12g, %s-sided numerical %.12g", i + 1, o.d[i], sgn < 0 ? "left" : "right", est);
        A.worst = wb;
      }
    }
  }
  if (c.mode == 'h')
    for (int j = 0; j < n; ++j)
      for (int i = 0; i <= j; ++i) {
        if (isconst(i) || isconst(j)) continue;
        size_t idx = (size_t)i + (size_t)j * (j + 1) / 2;
        size_t idxr = (size_t)i * (2 * n - i - 1) / 2 + j;
        if (idx >= o.h.size() || idxr >= o.h.size()) continue;
        auto deriv_at = [&](const std::vector<double> &y, double &v) {
          Call c2 = c; c2.a = y; c2.mode = 'd';
          Out o2 = call_once(f, c2, true);
          if (o2.haserr || i >= (int)o2.d.size()) return false;
          v = o2.d[i]; return true;
        };
        for (int sgn : {-1, 1}) {
          double est = 0, gap = 0;
          bool st = onesided(deriv_at, o.d[i], c.a, j, sgn, est);
          std::string cl = cls_of(o.h[idx], est, st, gap);
          (sgn < 0 ? A.hl : A.hr)[idx] = cl;
          double gapr = 0;
          std::string clr = cls_of(o.h[idxr], est, st, gapr);
          (sgn < 0 ? A.hlr : A.hrr)[idxr] = clr;
          if (cl == "bad" && clr == "bad" && gap > worstgap) {
            worstgap = gap;
            snprintf(wb, sizeof wb, "d2/dx%ddx%d returned %.12g, %s-sided numerical (of the returned d/dx%d) %.12g", i + 1, j + 1, o.h[idx],
                     sgn < 0 ? "left" : "right", i + 1, est);
            A.worst = wb;
          }
        }
      }
  return A;
}
static std::string jlist(const std::vector<std::string> &v) {
  std::string s = "[";
  for (size_t i = 0; i < v.size(); ++i) s += (i ? ",\"" : "\"") + v[i] + "\"";
  return s + "]";
}

static void emit(FILE *outf, const Fn &f, const Call &c, const Out &o, const char *fill, bool det, const Agree *ag = nullptr) {
  const char *val = (f.type & FUNCADD_STRING_VALUED) ? (o.sv ? "str" : "nullstr")
                    : std::isnan(o.v) ? "nan" : std::isinf(o.v) ? "inf" : "fin";
  const char *err = !o.haserr ? "none" : o.err.size() && o.err[0] == '\'' ? "deriv"
                    : o.err.size() && o.err[0] == '"' ? "hes" : "eval";
  bool uw = std::string(fill) == "val";
  std::string s = "{\"e\":\"Ret\",\"id\":" + std::to_string(c.id) + ",\"fill\":\"" + fill + "\",\"val\":\"" + val +
                  "\",\"err\":\"" + err + "\",\"dn\":" + flags(o.d, false) + ",\"hn\":" + flags(o.h, false);
  s += ",\"du\":" + (uw ? flags(o.d, true) : flags(std::vector<double>(o.d.size(), 0.0), false));
  s += ",\"hu\":" + (uw ? flags(o.h, true) : flags(std::vector<double>(o.h.size(), 0.0), false));
  s += std::string(",\"det\":") + (det ? "true" : "false");
  {
    Agree none;
    none.dl.assign(o.d.size(), "unk"); none.dr = none.dl; none.hl.assign(o.h.size(), "unk"); none.hr = none.hl;
    none.hlr = none.hl; none.hrr = none.hl;
    const Agree &a = ag ? *ag : none;
    s += ",\"dl\":" + jlist(a.dl) + ",\"dr\":" + jlist(a.dr) + ",\"hl\":" + jlist(a.hl) + ",\"hr\":" + jlist(a.hr) + ",\"hlr\":" + jlist(a.hlr) + ",\"hrr\":" + jlist(a.hrr);
    s += ",\"worst\":\"" + a.worst + "\"";
  }
  std::string m = o.err.substr(0, 90);
  for (auto &ch : m) if (ch == '"' || ch == '\\' || (unsigned char)ch < 32 || (unsigned char)ch > 126) ch = ' ';
  s += ",\"msg\":\"" + m + "\"}\n";
  fwrite(s.data(), 1, s.size(), outf);
}

// functions of one family: the same name up to the last '_' segment (gsl_sf_debye_1 .. _6, gsl_sf_bessel_J0 / J1 ...)
static std::string family(const std::string &n) { size_t p = n.rfind('_'); return p == std::string::npos ? n : n.substr(0, p); }
static bool benign(const Call &c) { for (double a : c.a) if (!std::isfinite(a) || std::fabs(a) > 3) return false; return true; }

static void record(FILE *outf, const Fn &f, const Call &c) {
  Out o0 = call_once(f, c, true), o1 = call_once(f, c, false), o2 = call_once(f, c, false);
  bool det = memcmp(&o1.v, &o2.v, sizeof(double)) == 0 && same(o1.d, o2.d) && same(o1.h, o2.h) &&
             o1.haserr == o2.haserr && o1.err == o2.err;
  // ... and once more after the other functions of its family were evaluated at the same arguments (a result may
  // not depend on what was called before): only for small finite arguments, value requests to the others
  if (det && benign(c) && !(f.type & (FUNCADD_STRING_VALUED | FUNCADD_RANDOM_VALUED))) {
    std::string fam = family(f.name);
    std::vector<size_t> sib;
    for (size_t j = 0; j < fns.size() && sib.size() < 12; ++j) {
      const Fn &g = fns[j];
      if (&g == &f || g.nargs != f.nargs || (g.type & (FUNCADD_STRING_VALUED | FUNCADD_RANDOM_VALUED)) || family(g.name) != fam) continue;
      sib.push_back(j);
    }
    if (!sib.empty()) {
      // in a child of its own (one of the others may hang or die at these arguments: that is reported at its own
      // case, here it only means "no observation"); the child answers 1 = same result as before, 0 = different
      int pp[2];
      struct itimerval zero = {{0, 0}, {0, 0}}, old;
      setitimer(ITIMER_REAL, &zero, &old);          // this call's own time limit does not run while the child does
      if (pipe(pp) == 0) {
        fflush(outf);
        pid_t pid = fork();
        if (pid == 0) {
          close(pp[0]);
          alarm(1);
          // history: f and the others somewhere else first (every real argument moved by 1/2), then the others at
          // these arguments, then f at these arguments again
          { Call cs = c; cs.mode = 'v'; cs.measure = false;
            for (size_t q = 0; q < cs.a.size(); ++q) if (q >= cs.dig.size() || cs.dig[q] != '1') cs.a[q] += 0.5;
            call_once(f, cs, false);
            for (size_t j : sib) { Call cg = cs; cg.fn = (int)j; call_once(fns[j], cg, false); } }
          for (size_t j : sib) { Call cg = c; cg.fn = (int)j; cg.mode = 'v'; cg.measure = false; call_once(fns[j], cg, false); }
          Out o3 = call_once(f, c, false);
          char same3 = memcmp(&o1.v, &o3.v, sizeof(double)) == 0 && same(o1.d, o3.d) && same(o1.h, o3.h) && o1.haserr == o3.haserr && o1.err == o3.err;
          if (write(pp[1], &same3, 1) != 1) _exit(3);
          _exit(0);
        }
        close(pp[1]);
        char ans = 1;
        ssize_t got = pid > 0 ? read(pp[0], &ans, 1) : 0;
        close(pp[0]);
        int st = 0;
        if (pid > 0) waitpid(pid, &st, 0);
        if (got == 1 && WIFEXITED(st) && WEXITSTATUS(st) == 0) det = ans != 0;
      }
      setitimer(ITIMER_REAL, &old, nullptr);
    }
  }
  emit(outf, f, c, o0, "nan", det);
  bool meas = c.measure && c.mode != 'v' && !o1.haserr && !(f.type & (FUNCADD_STRING_VALUED | FUNCADD_RANDOM_VALUED)) && std::isfinite(o1.v);
  if (meas) {
    Agree ag = measure(f, c, o1);
    emit(outf, f, c, o1, "val", det, &ag);
  } else
    emit(outf, f, c, o1, "val", det);
  fflush(outf);
  for (void *p : tempmem) free(p);
  tempmem.clear();
}

int main(int argc, char **argv) {
  load();
  if (argc >= 2 && std::string(argv[1]) == "--list") {
    for (auto &f : fns)
      printf("{\"name\":\"%s\",\"type\":%d,\"nargs\":%d,\"random\":%s,\"string\":%s}\n", f.name.c_str(), f.type, f.nargs,
             (f.type & FUNCADD_RANDOM_VALUED) ? "true" : "false", (f.type & FUNCADD_STRING_VALUED) ? "true" : "false");
    return 0;
  }
  if (argc < 3) { fprintf(stderr, "usage: h_gsl --list | <calls.txt> <out.ndjson> [timeout_s]\n"); return 2; }
  FILE *in = fopen(argv[1], "r");
  FILE *outf = fopen(argv[2], "w");
  if (!in || !outf) { perror("open"); return 2; }
  int tmo = argc > 3 ? atoi(argv[3]) : 5;
  int tmo2_ms = argc > 4 ? atoi(argv[4]) : tmo * 1000;
  std::vector<int> hangs(fns.size(), 0);
  std::vector<Call> calls;
  char line[2048];
  while (fgets(line, sizeof line, in)) {
    Call c; char name[128], dig[32]; int n = 0, off = 0;
    if (sscanf(line, "%ld %127s %c %31s %d%n", &c.id, name, &c.mode, dig, &n, &off) != 5) continue;
    auto it = by_name.find(name);
    if (it == by_name.end()) { fprintf(outf, "{\"e\":\"Crash\",\"id\":%ld,\"what\":\"function not registered\"}\n", c.id); continue; }
    c.fn = it->second; c.dig = dig;
    if (c.mode == 'D' || c.mode == 'H') { c.measure = true; c.mode = (char)tolower(c.mode); }   // upper case: measure agreement
    char *p = line + off;
    for (int i = 0; i < n; ++i) { char *q; c.a.push_back(strtod(p, &q)); p = q; }
    calls.push_back(c);
  }
  long *cur = (long *)mmap(nullptr, sizeof(long), PROT_READ | PROT_WRITE, MAP_SHARED | MAP_ANONYMOUS, -1, 0);
  size_t next = 0;
  while (next < calls.size()) {
    *cur = (long)next;
    fflush(outf);
    pid_t pid = fork();
    if (pid < 0) { perror("fork"); return 2; }
    if (pid == 0) {
      struct rlimit rl = {3UL << 30, 3UL << 30};
      setrlimit(RLIMIT_AS, &rl);
      for (size_t i = next; i < calls.size(); ++i) {
        *cur = (long)i;
        if (hangs[calls[i].fn] >= 12) {
          fprintf(outf, "{\"e\":\"Skipped\",\"id\":%ld}\n", calls[i].id);
          fflush(outf);
          continue;
        }
        int ms = hangs[calls[i].fn] >= 2 ? tmo2_ms : tmo * 1000;
        struct itimerval it = {{0, 0}, {ms / 1000, (ms % 1000) * 1000}};
        setitimer(ITIMER_REAL, &it, nullptr);
        record(outf, fns[calls[i].fn], calls[i]);
      }
      *cur = (long)calls.size();
      _exit(0);
    }
    int status = 0;
    waitpid(pid, &status, 0);
    size_t at = (size_t)*cur;
    if (at >= calls.size() && WIFEXITED(status) && WEXITSTATUS(status) == 0) break;
    if (at >= calls.size()) at = calls.size() - 1;
    if (WIFSIGNALED(status) && WTERMSIG(status) == SIGALRM) {
      int ms = hangs[calls[at].fn] >= 2 ? tmo2_ms : tmo * 1000;
      ++hangs[calls[at].fn];
      fprintf(outf, "\n{\"e\":\"Hang\",\"id\":%ld,\"timeout_ms\":%d}\n", calls[at].id, ms);
    }
    else
      fprintf(outf, "\n{\"e\":\"Crash\",\"id\":%ld,\"what\":\"%s %d\"}\n", calls[at].id,
              WIFSIGNALED(status) ? "signal" : "exit", WIFSIGNALED(status) ? WTERMSIG(status) : WEXITSTATUS(status));
    next = at + 1;
  }
  fclose(outf);
  return 0;
}
