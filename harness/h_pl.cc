// C13 harness: calls the REAL mp::PLApproximate (src/mp/flat/piecewise_linear.cpp)
// for each case of a case file and records what came back as ndjson.
// No judgement here: TracePLShape.tla decides.  Doubles never reach TLC; they are
// mapped per case to atoms (identity) and ranks (order) of a sorted table, to small
// ints (floor/ceil values, saturated) and to booleans observed with the same libm call.
//
// usage: h_pl <cases.txt> <out.ndjson> [timeout_s]
// case line:  id fn param lo hi tol isint      (doubles as C hex floats or decimals)
// Each case runs in a forked child (alarm + RLIMIT_AS): a timeout becomes a Hang
// record, a signal/abnormal exit a Crash record.  After four Hang records in one run
// the limit drops to 1 s (a regular call takes milliseconds), so that a run over code
// that loops on many inputs stays bounded; after thirty the remaining cases are not run
// and get a Skipped record each (the run already carries thirty rejected records).
#include <algorithm>
#include <cmath>
#include <cstdio>
#include <cstdlib>
#include <cstring>
#include <functional>
#include <map>
#include <string>
#include <vector>
#include <signal.h>
#include <sys/resource.h>
#include <sys/wait.h>
#include <unistd.h>

#include "mp/flat/constr_std.h"
#include "mp/flat/redef/MIP/core/lin_approx_core.h"

using namespace mp;

static const long NI = 2000000000L;     // "not an integer value" sentinel (PLShape!NI)
static const double SAT = 5e8;          // saturation of logged floor/ceil values

struct Case { long id; std::string fn; double prm, lo, hi, tol; int isint; };

static long sat(double v) {
  if (std::isnan(v)) return NI;
  if (v > SAT) return (long)SAT;
  if (v < -SAT) return -(long)SAT;
  return (long)v;
}
static bool is_intval(double v) { return std::isfinite(v) && std::floor(v) == v && std::fabs(v) <= SAT; }

// per-case atom table: identity (a) = order of first registration, order (r) = rank
struct Atoms {
  std::vector<double> vals;
  std::vector<double> sorted;
  std::map<long, long> ids;
  long next = 0;
  void add(double v) { if (!std::isnan(v)) vals.push_back(v); }
  void freeze() {
    sorted = vals; std::sort(sorted.begin(), sorted.end());
    sorted.erase(std::unique(sorted.begin(), sorted.end()), sorted.end());
    for (double v : vals) atom(v);        // ids in order of first registration
  }
  long rank(double v) const {
    if (std::isnan(v)) return -1;
    return std::lower_bound(sorted.begin(), sorted.end(), v) - sorted.begin();
  }
  long atom(double v) {
    if (std::isnan(v)) return -1;
    long r = rank(v);
    auto it = ids.find(r);
    if (it != ids.end()) return it->second;
    return ids[r] = next++;
  }
  std::string ar(double v) {
    char b[64]; long a = atom(v); snprintf(b, sizeof b, "{\"a\":%ld,\"r\":%ld}", a, rank(v)); return b;
  }
};

static bool same_bits(double a, double b) { return std::memcmp(&a, &b, sizeof a) == 0; }

template <class Con>
static void run_case(const Case &c, const Con &con, const std::function<double(double)> &f, std::string &out,
                     const std::function<double(double)> &singdist = [](double) { return INFINITY; }) {
  PLApproxParams p;
  p.grDom = {c.lo, c.hi, -1e6, 1e6};      // y range as the converter passes it by default (+-cvt:plapprox:domain)
  p.ubErr = c.tol;
  p.is_x_int = c.isint != 0;
  char b[1800];
  const char *kind = nullptr; std::string what;
  try {
    PLApproximate(con, p);
  } catch (const mp::Error &e) {
    kind = e.exit_code() == 200 ? "infeas" : "mp"; what = e.what();
  } catch (const std::exception &e) {
    kind = "std"; what = e.what();
  } catch (...) {
    kind = "unknown";
  }
  if (kind) {
    for (auto &ch : what) if (ch == '"' || ch == '\\' || (unsigned char)ch < 32) ch = ' ';
    snprintf(b, sizeof b, "{\"e\":\"Throw\",\"id\":%ld,\"kind\":\"%s\",\"what\":\"%.200s\"}\n", c.id, kind, what.c_str());
    out += b;
    return;
  }
  const auto &x = p.plPoints.x_;
  const auto &y = p.plPoints.y_;
  double lo = p.grDomOut.lbx, hi = p.grDomOut.ubx;
  // ---- measured deviation (observation only; PLShape's clauses "err"/"perr" judge it) ----
  // dev(t, v): |v - f(t)| in permille (floor) of the allowed deviation tol * max(1, |f(t)|),
  // saturated; f is the same libm call the approximator uses.  Points where f itself is
  // undefined (NaN) are counted, not measured.
  const long SATPM = 999999;
  long undef = 0, nsamples = 0;
  // seglen: length of the segment the point lies on (diagnosis label only: the approximator drops
  // breakpoints closer than 1e-4 to the previous one, known finding); 0 = a breakpoint itself
  // sing: distance of the point to the nearest singular point of f (pole / vertical tangent), same purpose
  struct Worst { long pm = -1; double t = 0, f = 0, v = 0, seglen = 0, sing = INFINITY; } worst, pworst;
  double curseg = 0;
  auto dev = [&](double t, double v, Worst &w) -> long {
    double ft = f(t);
    if (std::isnan(ft)) { ++undef; return 0; }
    ++nsamples;
    long pm;
    if (std::isnan(v)) pm = SATPM;
    else if (std::isinf(ft) || std::isinf(v)) pm = (ft == v) ? 0 : SATPM;
    else {
      double r = std::fabs(v - ft) / (c.tol * std::max(1.0, std::fabs(ft))) * 1000.0;
      pm = r >= (double)SATPM ? SATPM : (long)std::floor(r);
    }
    if (pm > w.pm) { w.pm = pm; w.t = t; w.f = ft; w.v = v; w.seglen = curseg; w.sing = singdist(t); }
    return pm;
  };
  bool contArg = !p.is_x_int || p.fUsePeriod;     // the remainder of a periodic argument is not integer
  // em[i]: worst deviation at breakpoint i and inside the segment that ends there
  std::vector<long> em(x.size(), 0);
  for (size_t i = 0; i < x.size() && i < y.size(); ++i) {
    curseg = 0;
    long m = dev(x[i], y[i], worst);
    if (i > 0 && x[i] > x[i - 1]) {
      double x0 = x[i - 1], x1 = x[i], y0 = y[i - 1], y1 = y[i];
      curseg = x1 - x0;
      auto pl = [&](double t) { return y0 + (y1 - y0) * ((t - x0) / (x1 - x0)); };
      if (contArg) {
        for (int k = 1; k < 8; ++k) { double t = x0 + (x1 - x0) * k / 8.0; if (t > x0 && t < x1) m = std::max(m, dev(t, pl(t), worst)); }
      } else {
        double a = std::ceil(x0), b = std::floor(x1);
        if (a == x0) a += 1;
        if (b == x1) b -= 1;
        double cnt = b - a + 1;
        if (cnt >= 1) {
          int K = cnt <= 9 ? (int)cnt : 9;
          for (int k = 0; k < K; ++k) {
            double t = K == 1 ? a : std::floor(a + (b - a) * k / (K - 1));
            m = std::max(m, dev(t, pl(t), worst));
          }
        }
      }
    }
    em[i] = m;
  }
  // periodic: the argument interval seen through x = n*L + remainder
  long pem = 0;
  if (p.fUsePeriod && x.size() >= 2 && x.size() == y.size()) {
    double L = p.periodLength, rl = p.periodRemainderRange.lb;
    auto plper = [&](double t, bool &ok) {
      double n = std::floor((t - rl) / L), r = t - n * L;
      ok = n >= p.periodicFactorRange.lb && n <= p.periodicFactorRange.ub;   // else: clause "factor"
      // a remainder outside the breakpoint hull: rounding (clamped), or a point the result does not cover
      // (pole neighbourhoods of tan; the piece behind a dropped last breakpoint is clause "last")
      double slackr = 1e-9 * L * (1 + std::fabs(n));
      if (r < x.front() - slackr || r > x.back() + slackr) ok = false;
      if (r < x.front()) r = x.front();
      if (r > x.back()) r = x.back();
      size_t j = std::upper_bound(x.begin(), x.end(), r) - x.begin();
      if (j == 0) j = 1;
      if (j >= x.size()) j = x.size() - 1;
      curseg = x[j] - x[j - 1];
      return y[j - 1] + (y[j] - y[j - 1]) * ((r - x[j - 1]) / (x[j] - x[j - 1]));
    };
    auto probe = [&](double t) {
      if (p.is_x_int) t = std::round(t);
      if (!(t >= lo && t <= hi)) return;
      bool ok; double v = plper(t, ok);
      if (ok) pem = std::max(pem, dev(t, v, pworst));
    };
    // measured on the part of the argument interval within +-1e6: beyond that t - n*L is not exact enough in doubles
    double plo = std::max(lo, -1e6), phi = std::min(hi, 1e6);
    if (L > 0 && std::isfinite(L) && plo <= phi) {
      for (int k = 0; k <= 400; ++k) probe(plo + (phi - plo) * k / 400.0);
      double n0 = std::ceil((plo - rl) / L), n1 = std::floor((phi - rl) / L);
      double nb = n1 - n0 + 1;
      for (int k = 0; k < 200 && k < nb; ++k) {        // period boundaries (all, or 200 spread over the range)
        double n = nb <= 200 ? n0 + k : std::floor(n0 + (n1 - n0) * k / 199.0);
        double bnd = n * L + rl;
        probe(bnd); probe(std::nextafter(bnd, -INFINITY)); probe(std::nextafter(bnd, INFINITY));
        probe(bnd - 1e-7 * L); probe(bnd + 1e-7 * L);
      }
    }
  }
  Atoms A;
  A.add(lo); A.add(hi); A.add(std::ceil(lo)); A.add(std::floor(hi));
  if (p.fUsePeriod) { A.add(p.periodRemainderRange.lb); A.add(p.periodRemainderRange.ub); }
  for (double v : x) A.add(v);
  A.freeze();
  out += "{\"e\":\"Clip\",\"id\":" + std::to_string(c.id) + ",\"lo\":" + A.ar(lo) + ",\"hi\":" + A.ar(hi) +
         ",\"cl\":" + A.ar(std::ceil(lo)) + ",\"fl\":" + A.ar(std::floor(hi)) +
         ",\"clv\":" + std::to_string(sat(std::ceil(lo))) + ",\"flv\":" + std::to_string(sat(std::floor(hi))) + "}\n";
  if (p.fUsePeriod) {
    double L = p.periodLength, rl = p.periodRemainderRange.lb, ru = p.periodRemainderRange.ub;
    double nlo = p.periodicFactorRange.lb, nhi = p.periodicFactorRange.ub;
    // the argument interval in period units, seen from the two ends of the remainder
    // range (long double, with a relative slack of 1e-9 periods towards acceptance so
    // that an end lying on a period boundary up to rounding is not an alarm)
    long double qlo = ((long double)lo - ru) / L, qhi = ((long double)hi - rl) / L;
    long double slack = 1e-9L;
    double fLo = (double)std::floor(qlo + slack * (1 + std::fabs(qlo)));
    double cHi = (double)std::ceil(qhi - slack * (1 + std::fabs(qhi)));
    bool integral = std::isfinite(nlo) && std::isfinite(nhi) && std::floor(nlo) == nlo && std::floor(nhi) == nhi;
    snprintf(b, sizeof b,
             "{\"e\":\"Period\",\"id\":%ld,\"Lpos\":%s,\"nlo\":%ld,\"nhi\":%ld,\"integral\":%s,\"fLo\":%ld,\"cHi\":%ld,",
             c.id, (L > 0 && std::isfinite(L)) ? "true" : "false", sat(nlo), sat(nhi), integral ? "true" : "false",
             sat(fLo), sat(cHi));
    out += b;
    out += "\"pem\":" + std::to_string(pem) + ",";
    out += "\"remLo\":" + A.ar(rl) + ",\"remHi\":" + A.ar(ru) + "}\n";
  }
  const size_t CH = 1000;
  bool wantint = p.is_x_int && !p.fUsePeriod;
  for (size_t i0 = 0; i0 < x.size() || i0 == 0; i0 += CH) {
    size_t i1 = std::min(x.size(), i0 + CH);
    std::string xa = "[", xr = "[", xv = "[", yx = "[", ems = "[";
    for (size_t i = i0; i < i1; ++i) {
      const char *sep = i == i0 ? "" : ",";
      xa += sep + std::to_string(A.atom(x[i]));
      xr += sep + std::to_string(A.rank(x[i]));
      ems += sep + std::to_string(em[i]);
      if (wantint) {
        bool iv = is_intval(x[i]);
        xv += sep + std::to_string(iv ? (long)x[i] : NI);
        // exactness observed with the very libm call the approximator uses
        bool ex = i < y.size() && same_bits(y[i], f(x[i]));
        yx += sep + std::string(ex ? "true" : "false");
      }
    }
    out += "{\"e\":\"Pts\",\"id\":" + std::to_string(c.id) + ",\"xa\":" + xa + "],\"xr\":" + xr + "],\"em\":" + ems + "]";
    if (wantint) out += ",\"xv\":" + xv + "],\"yx\":" + yx + "]";
    out += "}\n";
    if (x.empty()) break;
  }
  // diagnosis labels only (never judged here): how a first/last breakpoint relates to the reported end
  double tlo = p.fUsePeriod ? p.periodRemainderRange.lb : lo, thi = p.fUsePeriod ? p.periodRemainderRange.ub : hi;
  bool have = !x.empty();
  bool firstF32 = have && x.front() != tlo && x.front() == (double)(float)tlo;
  bool lastF32 = have && x.back() != thi && x.back() == (double)(float)thi;
  bool lastNear = have && x.back() != thi && std::fabs(thi - x.back()) <= 1e-4;   // independent of the float diagnosis
  bool firstNear = have && x.front() != tlo && std::fabs(tlo - x.front()) <= 1e-4;
  bool mid = x.size() == 1 && tlo != thi && x[0] == (tlo + thi) / 2.0;
  char wb[700];
  snprintf(wb, sizeof wb, "\"samples\":%ld,\"undef\":%ld,\"worst\":{\"pm\":%ld,\"t\":\"%.17g\",\"f\":\"%.17g\",\"pl\":\"%.17g\",\"seglen\":\"%.6g\",\"minstep\":%s,\"sing\":%s},"
           "\"pworst\":{\"pm\":%ld,\"t\":\"%.17g\",\"f\":\"%.17g\",\"pl\":\"%.17g\",\"seglen\":\"%.6g\",\"minstep\":%s,\"sing\":%s},",
           nsamples, undef, worst.pm, worst.t, worst.f, worst.v, worst.seglen, (worst.seglen > 0 && worst.seglen <= 2.5e-4) ? "true" : "false",
           worst.sing <= 2e-3 ? "true" : "false",
           pworst.pm, pworst.t, pworst.f, pworst.v, pworst.seglen, (pworst.seglen > 0 && pworst.seglen <= 2.5e-4) ? "true" : "false",
           pworst.sing <= 2e-3 ? "true" : "false");
  snprintf(b, sizeof b, "{\"e\":\"Done\",\"id\":%ld,\"n\":%zu,\"ny\":%zu,\"per\":%s,\"diag\":{%s\"mid\":%s,\"firstF32\":%s,"
           "\"lastF32\":%s,\"firstNear\":%s,\"lastNear\":%s,\"single\":%s}}\n", c.id, x.size(), y.size(),
           p.fUsePeriod ? "true" : "false", wb, mid ? "true" : "false", firstF32 ? "true" : "false", lastF32 ? "true" : "false",
           firstNear ? "true" : "false", lastNear ? "true" : "false", x.size() == 1 ? "true" : "false");
  out += b;
}

static void dispatch(const Case &c, std::string &out) {
  const double a = c.prm;
  const std::string &f = c.fn;
  auto d0 = [](double x) { return std::fabs(x); };
  auto d1 = [](double x) { return std::fabs(x - 1); };
  auto dpm1 = [](double x) { return std::min(std::fabs(x - 1), std::fabs(x + 1)); };
  auto dpole = [](double x) { double h = M_PI / 2, k = std::round((x - h) / M_PI); return std::fabs(x - (h + k * M_PI)); };
  auto none = [](double) { return (double)INFINITY; };
  bool powsing = a < 0 || std::floor(a) != a;
  if (f == "Exp") run_case(c, ExpConstraint({0}), [](double x) { return std::exp(x); }, out);
  else if (f == "Log") run_case(c, LogConstraint({0}), [](double x) { return std::log(x); }, out, d0);
  else if (f == "ExpA") run_case(c, ExpAConstraint({0}, DblParamArray1{a}), [a](double x) { return std::pow(a, x); }, out);
  else if (f == "LogA") { double la = std::log(a);
    run_case(c, LogAConstraint({0}, DblParamArray1{a}), [la](double x) { return std::log(x) / la; }, out, d0); }
  else if (f == "Pow") run_case(c, PowConstraint({0}, DblParamArray1{a}), [a](double x) { return std::pow(x, a); }, out, powsing ? std::function<double(double)>(d0) : std::function<double(double)>(none));
  else if (f == "Sin") run_case(c, SinConstraint({0}), [](double x) { return std::sin(x); }, out);
  else if (f == "Cos") run_case(c, CosConstraint({0}), [](double x) { return std::cos(x); }, out);
  else if (f == "Tan") run_case(c, TanConstraint({0}), [](double x) { return std::tan(x); }, out, dpole);
  else if (f == "Asin") run_case(c, AsinConstraint({0}), [](double x) { return std::asin(x); }, out, dpm1);
  else if (f == "Acos") run_case(c, AcosConstraint({0}), [](double x) { return std::acos(x); }, out, dpm1);
  else if (f == "Atan") run_case(c, AtanConstraint({0}), [](double x) { return std::atan(x); }, out);
  else if (f == "Sinh") run_case(c, SinhConstraint({0}), [](double x) { return std::sinh(x); }, out);
  else if (f == "Cosh") run_case(c, CoshConstraint({0}), [](double x) { return std::cosh(x); }, out);
  else if (f == "Tanh") run_case(c, TanhConstraint({0}), [](double x) { return std::tanh(x); }, out);
  else if (f == "Asinh") run_case(c, AsinhConstraint({0}), [](double x) { return std::asinh(x); }, out);
  else if (f == "Acosh") run_case(c, AcoshConstraint({0}), [](double x) { return std::acosh(x); }, out, d1);
  else if (f == "Atanh") run_case(c, AtanhConstraint({0}), [](double x) { return std::atanh(x); }, out, dpm1);
  else out += "{\"e\":\"Crash\",\"id\":" + std::to_string(c.id) + ",\"what\":\"unknown function type\"}\n";
}

int main(int argc, char **argv) {
  if (argc < 3) { fprintf(stderr, "usage: h_pl <cases.txt> <out.ndjson> [timeout_s]\n"); return 2; }
  FILE *in = fopen(argv[1], "r");
  FILE *outf = fopen(argv[2], "w");
  if (!in || !outf) { perror("open"); return 2; }
  int tmo = argc > 3 ? atoi(argv[3]) : 20;
  char line[1024];
  int nhang = 0;
  while (fgets(line, sizeof line, in)) {
    int lim = nhang >= 4 ? 1 : tmo;
    Case c; char fn[64], sp[64], sl[64], sh[64], st[64];
    if (sscanf(line, "%ld %63s %63s %63s %63s %63s %d", &c.id, fn, sp, sl, sh, st, &c.isint) != 7) continue;
    c.fn = fn; c.prm = strtod(sp, 0); c.lo = strtod(sl, 0); c.hi = strtod(sh, 0); c.tol = strtod(st, 0);
    if (nhang >= 30) { fprintf(outf, "{\"e\":\"Skipped\",\"id\":%ld}\n", c.id); continue; }
    fprintf(outf, "{\"e\":\"Call\",\"id\":%ld,\"fn\":\"%s\",\"int\":%s}\n", c.id, fn, c.isint ? "true" : "false");
    fflush(outf);
    pid_t pid = fork();
    if (pid < 0) { perror("fork"); return 2; }
    if (pid == 0) {
      struct rlimit rl = {3UL << 30, 3UL << 30};
      setrlimit(RLIMIT_AS, &rl);
      alarm(lim);
      std::string out;
      dispatch(c, out);
      fwrite(out.data(), 1, out.size(), outf);
      fflush(outf);
      _exit(0);
    }
    int status = 0;
    waitpid(pid, &status, 0);
    if (WIFSIGNALED(status) && WTERMSIG(status) == SIGALRM) {
      ++nhang;
      fprintf(outf, "{\"e\":\"Hang\",\"id\":%ld,\"timeout_s\":%d}\n", c.id, lim);
    }
    else if (WIFSIGNALED(status))
      fprintf(outf, "{\"e\":\"Crash\",\"id\":%ld,\"what\":\"signal %d\"}\n", c.id, WTERMSIG(status));
    else if (WEXITSTATUS(status) != 0)
      fprintf(outf, "{\"e\":\"Crash\",\"id\":%ld,\"what\":\"exit %d\"}\n", c.id, WEXITSTATUS(status));
    fflush(outf);
  }
  fclose(outf);
  return 0;
}
