// C13 harness: calls the REAL mp::PLApproximate (src/mp/flat/piecewise_linear.cpp)
// for each case of a case file and records what came back as ndjson.
// No judgement here: TracePLShape.tla decides.  Doubles never reach TLC; they are
// mapped per case to atoms (identity) and ranks (order) of a sorted table, to small
// ints (floor/ceil values, saturated) and to booleans observed with the same libm call.
//
// usage: h_pl <cases.txt> <out.ndjson> [timeout_s]
// case line:  id fn param lo hi tol isint      (doubles as C hex floats or decimals)
// Each case runs in a forked child (alarm + RLIMIT_AS): a timeout becomes a Hang
// record, a signal/abnormal exit a Crash record.  After four Hang records in one run
// the limit drops to 1 s (a regular call takes milliseconds), so that a run over code
// that loops on many inputs stays bounded; after thirty the remaining cases are not run
// and get a Skipped record each (the run already carries thirty rejected records).
#include <algorithm>
#include <cmath>
#include <cstdio>
#include <cstdlib>
#include <cstring>
#include <functional>
#include <map>
#include <string>
#include <vector>
#include <signal.h>
#include <sys/resource.h>
#include <sys/wait.h>
#include <unistd.h>

#include "mp/flat/constr_std.h"
#include "mp/flat/redef/MIP/core/lin_approx_core.h"

using namespace mp;

static const long NI = 2000000000L;     // "not an integer value" sentinel (PLShape!NI)
static const double SAT = 5e8;          // saturation of logged floor/ceil values

struct Case { long id; std::string fn; double prm, lo, hi, tol; int isint; };

static long sat(double v) {
  if (std::isnan(v)) return NI;
  if (v > SAT) return (long)SAT;
  if (v < -SAT) return -(long)SAT;
  return (long)v;
}
static bool is_intval(double v) { return std::isfinite(v) && std::floor(v) == v && std::fabs(v) <= SAT; }

// per-case atom table: identity (a) = order of first registration, order (r) = rank
struct Atoms {
  std::vector<double> vals;
  std::vector<double> sorted;
  std::map<long, long> ids;
  long next = 0;
  void add(double v) { if (!std::isnan(v)) vals.push_back(v); }
  void freeze() {
    sorted = vals; std::sort(sorted.begin(), sorted.end());
    sorted.erase(std::unique(sorted.begin(), sorted.end()), sorted.end());
    for (double v : vals) atom(v);        // ids in order of first registration
  }
  long rank(double v) const {
    if (std::isnan(v)) return -1;
    return std::lower_bound(sorted.begin(), sorted.end(), v) - sorted.begin();
  }
  long atom(double v) {
    if (std::isnan(v)) return -1;
    long r = rank(v);
    auto it = ids.find(r);
    if (it != ids.end()) return it->second;
    return ids[r] = next++;
  }
  std::string ar(double v) {
    char b[64]; long a = atom(v); snprintf(b, sizeof b, "{\"a\":%ld,\"r\":%ld}", a, rank(v)); return b;
  }
};

static bool same_bits(double a, double b) { return std::memcmp(&a, &b, sizeof a) == 0; }

template <class Con>
static void run_case(const Case &c, const Con &con, const std::function<double(double)> &f, std::string &out) {
  PLApproxParams p;
  p.grDom = {c.lo, c.hi, -1e6, 1e6};      // y range as the converter passes it by default (+-cvt:plapprox:domain)
  p.ubErr = c.tol;
  p.is_x_int = c.isint != 0;
  char b[512];
  const char *kind = nullptr; std::string what;
  try {
    PLApproximate(con, p);
  } catch (const mp::Error &e) {
    kind = e.exit_code() == 200 ? "infeas" : "mp"; what = e.what();
  } catch (const std::exception &e) {
    kind = "std"; what = e.what();
  } catch (...) {
    kind = "unknown";
  }
  if (kind) {
    for (auto &ch : what) if (ch == '"' || ch == '\\' || (unsigned char)ch < 32) ch = ' ';
    snprintf(b, sizeof b, "{\"e\":\"Throw\",\"id\":%ld,\"kind\":\"%s\",\"what\":\"%.200s\"}\n", c.id, kind, what.c_str());
    out += b;
    return;
  }
  const auto &x = p.plPoints.x_;
  const auto &y = p.plPoints.y_;
  double lo = p.grDomOut.lbx, hi = p.grDomOut.ubx;
  Atoms A;
  A.add(lo); A.add(hi); A.add(std::ceil(lo)); A.add(std::floor(hi));
  if (p.fUsePeriod) { A.add(p.periodRemainderRange.lb); A.add(p.periodRemainderRange.ub); }
  for (double v : x) A.add(v);
  A.freeze();
  out += "{\"e\":\"Clip\",\"id\":" + std::to_string(c.id) + ",\"lo\":" + A.ar(lo) + ",\"hi\":" + A.ar(hi) +
         ",\"cl\":" + A.ar(std::ceil(lo)) + ",\"fl\":" + A.ar(std::floor(hi)) +
         ",\"clv\":" + std::to_string(sat(std::ceil(lo))) + ",\"flv\":" + std::to_string(sat(std::floor(hi))) + "}\n";
  if (p.fUsePeriod) {
    double L = p.periodLength, rl = p.periodRemainderRange.lb, ru = p.periodRemainderRange.ub;
    double nlo = p.periodicFactorRange.lb, nhi = p.periodicFactorRange.ub;
    // the argument interval in period units, seen from the two ends of the remainder
    // range (long double, with a relative slack of 1e-9 periods towards acceptance so
    // that an end lying on a period boundary up to rounding is not an alarm)
    long double qlo = ((long double)lo - ru) / L, qhi = ((long double)hi - rl) / L;
    long double slack = 1e-9L;
    double fLo = (double)std::floor(qlo + slack * (1 + std::fabs(qlo)));
    double cHi = (double)std::ceil(qhi - slack * (1 + std::fabs(qhi)));
    bool integral = std::isfinite(nlo) && std::isfinite(nhi) && std::floor(nlo) == nlo && std::floor(nhi) == nhi;
    snprintf(b, sizeof b,
             "{\"e\":\"Period\",\"id\":%ld,\"Lpos\":%s,\"nlo\":%ld,\"nhi\":%ld,\"integral\":%s,\"fLo\":%ld,\"cHi\":%ld,",
             c.id, (L > 0 && std::isfinite(L)) ? "true" : "false", sat(nlo), sat(nhi), integral ? "true" : "false",
             sat(fLo), sat(cHi));
    out += b;
    out += "\"remLo\":" + A.ar(rl) + ",\"remHi\":" + A.ar(ru) + "}\n";
  }
  const size_t CH = 1000;
  bool wantint = p.is_x_int && !p.fUsePeriod;
  for (size_t i0 = 0; i0 < x.size() || i0 == 0; i0 += CH) {
    size_t i1 = std::min(x.size(), i0 + CH);
    std::string xa = "[", xr = "[", xv = "[", yx = "[";
    for (size_t i = i0; i < i1; ++i) {
      const char *sep = i == i0 ? "" : ",";
      xa += sep + std::to_string(A.atom(x[i]));
      xr += sep + std::to_string(A.rank(x[i]));
      if (wantint) {
        bool iv = is_intval(x[i]);
        xv += sep + std::to_string(iv ? (long)x[i] : NI);
        // exactness observed with the very libm call the approximator uses
        bool ex = i < y.size() && same_bits(y[i], f(x[i]));
        yx += sep + std::string(ex ? "true" : "false");
      }
    }
    out += "{\"e\":\"Pts\",\"id\":" + std::to_string(c.id) + ",\"xa\":" + xa + "],\"xr\":" + xr + "]";
    if (wantint) out += ",\"xv\":" + xv + "],\"yx\":" + yx + "]";
    out += "}\n";
    if (x.empty()) break;
  }
  // diagnosis labels only (never judged here): how a first/last breakpoint relates to the reported end
  double tlo = p.fUsePeriod ? p.periodRemainderRange.lb : lo, thi = p.fUsePeriod ? p.periodRemainderRange.ub : hi;
  bool have = !x.empty();
  bool firstF32 = have && x.front() != tlo && x.front() == (double)(float)tlo;
  bool lastF32 = have && x.back() != thi && x.back() == (double)(float)thi;
  bool lastNear = have && x.back() != thi && std::fabs(thi - x.back()) <= 1e-4;   // independent of the float diagnosis
  bool firstNear = have && x.front() != tlo && std::fabs(tlo - x.front()) <= 1e-4;
  bool mid = x.size() == 1 && tlo != thi && x[0] == (tlo + thi) / 2.0;
  snprintf(b, sizeof b, "{\"e\":\"Done\",\"id\":%ld,\"n\":%zu,\"ny\":%zu,\"per\":%s,\"diag\":{\"mid\":%s,\"firstF32\":%s,"
           "\"lastF32\":%s,\"firstNear\":%s,\"lastNear\":%s,\"single\":%s}}\n", c.id, x.size(), y.size(),
           p.fUsePeriod ? "true" : "false", mid ? "true" : "false", firstF32 ? "true" : "false", lastF32 ? "true" : "false",
           firstNear ? "true" : "false", lastNear ? "true" : "false", x.size() == 1 ? "true" : "false");
  out += b;
}

static void dispatch(const Case &c, std::string &out) {
  const double a = c.prm;
  const std::string &f = c.fn;
  if (f == "Exp") run_case(c, ExpConstraint({0}), [](double x) { return std::exp(x); }, out);
  else if (f == "Log") run_case(c, LogConstraint({0}), [](double x) { return std::log(x); }, out);
  else if (f == "ExpA") run_case(c, ExpAConstraint({0}, DblParamArray1{a}), [a](double x) { return std::pow(a, x); }, out);
  else if (f == "LogA") { double la = std::log(a);
    run_case(c, LogAConstraint({0}, DblParamArray1{a}), [la](double x) { return std::log(x) / la; }, out); }
  else if (f == "Pow") run_case(c, PowConstraint({0}, DblParamArray1{a}), [a](double x) { return std::pow(x, a); }, out);
  else if (f == "Sin") run_case(c, SinConstraint({0}), [](double x) { return std::sin(x); }, out);
  else if (f == "Cos") run_case(c, CosConstraint({0}), [](double x) { return std::cos(x); }, out);
  else if (f == "Tan") run_case(c, TanConstraint({0}), [](double x) { return std::tan(x); }, out);
  else if (f == "Asin") run_case(c, AsinConstraint({0}), [](double x) { return std::asin(x); }, out);
  else if (f == "Acos") run_case(c, AcosConstraint({0}), [](double x) { return std::acos(x); }, out);
  else if (f == "Atan") run_case(c, AtanConstraint({0}), [](double x) { return std::atan(x); }, out);
  else if (f == "Sinh") run_case(c, SinhConstraint({0}), [](double x) { return std::sinh(x); }, out);
  else if (f == "Cosh") run_case(c, CoshConstraint({0}), [](double x) { return std::cosh(x); }, out);
  else if (f == "Tanh") run_case(c, TanhConstraint({0}), [](double x) { return std::tanh(x); }, out);
  else if (f == "Asinh") run_case(c, AsinhConstraint({0}), [](double x) { return std::asinh(x); }, out);
  else if (f == "Acosh") run_case(c, AcoshConstraint({0}), [](double x) { return std::acosh(x); }, out);
  else if (f == "Atanh") run_case(c, AtanhConstraint({0}), [](double x) { return std::atanh(x); }, out);
  else out += "{\"e\":\"Crash\",\"id\":" + std::to_string(c.id) + ",\"what\":\"unknown function type\"}\n";
}

int main(int argc, char **argv) {
  if (argc < 3) { fprintf(stderr, "usage: h_pl <cases.txt> <out.ndjson> [timeout_s]\n"); return 2; }
  FILE *in = fopen(argv[1], "r");
  FILE *outf = fopen(argv[2], "w");
  if (!in || !outf) { perror("open"); return 2; }
  int tmo = argc > 3 ? atoi(argv[3]) : 20;
  char line[1024];
  int nhang = 0;
  while (fgets(line, sizeof line, in)) {
    int lim = nhang >= 4 ? 1 : tmo;
    Case c; char fn[64], sp[64], sl[64], sh[64], st[64];
    if (sscanf(line, "%ld %63s %63s %63s %63s %63s %d", &c.id, fn, sp, sl, sh, st, &c.isint) != 7) continue;
    c.fn = fn; c.prm = strtod(sp, 0); c.lo = strtod(sl, 0); c.hi = strtod(sh, 0); c.tol = strtod(st, 0);
    if (nhang >= 30) { fprintf(outf, "{\"e\":\"Skipped\",\"id\":%ld}\n", c.id); continue; }
    fprintf(outf, "{\"e\":\"Call\",\"id\":%ld,\"fn\":\"%s\",\"int\":%s}\n", c.id, fn, c.isint ? "true" : "false");
    fflush(outf);
    pid_t pid = fork();
    if (pid < 0) { perror("fork"); return 2; }
    if (pid == 0) {
      struct rlimit rl = {3UL << 30, 3UL << 30};
      setrlimit(RLIMIT_AS, &rl);
      alarm(lim);
      std::string out;
      dispatch(c, out);
      fwrite(out.data(), 1, out.size(), outf);
      fflush(outf);
      _exit(0);
    }
    int status = 0;
    waitpid(pid, &status, 0);
    if (WIFSIGNALED(status) && WTERMSIG(status) == SIGALRM) {
      ++nhang;
      fprintf(outf, "{\"e\":\"Hang\",\"id\":%ld,\"timeout_s\":%d}\n", c.id, lim);
    }
    else if (WIFSIGNALED(status))
      fprintf(outf, "{\"e\":\"Crash\",\"id\":%ld,\"what\":\"signal %d\"}\n", c.id, WTERMSIG(status));
    else if (WEXITSTATUS(status) != 0)
      fprintf(outf, "{\"e\":\"Crash\",\"id\":%ld,\"what\":\"exit %d\"}\n", c.id, WEXITSTATUS(status));
    fflush(outf);
  }
  fclose(outf);
  return 0;
}
