// C02 harness: read NL byte strings with the REAL reader in every configuration
//   {ReadNLString (memory), ReadNLFile (disk)} x flags {0, READ_BOUNDS_FIRST}
//   x handler {recording checker, mp::Problem builder, NullNLHandler}
// under ASan+UBSan with production defines, and log what the handler was told.
// One ndjson "Read" record per (input, flags, handler) with the memory stream "a"
// and the file stream "b"; the terminal event is EndInput or Throw{kind,...}.
// Each input is processed in a forked child: a crash / sanitizer report / timeout
// becomes a Crash / Hang record naming the configuration and the batch goes on.
// Nothing is judged here (specs/nl/TraceNLProtocol.tla does that).
//
//   h_nlread run LIST OUT WORKDIR
//       LIST: one input per line: <path> <role> <base>
#include <sys/wait.h>
#include <unistd.h>

#include <cstring>
#include <fstream>
#include <new>

#include "mp/nl-reader.h"
#include "mp/problem.h"

#include "h_nlcrash.h"
#include "h_nljson.h"
#include "h_nlrec.h"

// Absurd allocation sizes (hostile counts) must surface as std::bad_alloc, as
// they do in production, not as an ASan "allocation-size-too-big" abort.  The
// memory still comes from malloc, which ASan instruments.
static const size_t kMaxAlloc = (size_t)256 << 20;
static void *Alloc(size_t n) {
  if (n > kMaxAlloc) throw std::bad_alloc();
  void *p = malloc(n ? n : 1);
  if (!p) throw std::bad_alloc();
  return p;
}
void *operator new(size_t n) { return Alloc(n); }
void *operator new[](size_t n) { return Alloc(n); }
void *operator new(size_t n, const std::nothrow_t &) noexcept { return n > kMaxAlloc ? nullptr : malloc(n ? n : 1); }
void *operator new[](size_t n, const std::nothrow_t &) noexcept { return n > kMaxAlloc ? nullptr : malloc(n ? n : 1); }
void operator delete(void *p) noexcept { free(p); }
void operator delete[](void *p) noexcept { free(p); }
void operator delete(void *p, size_t) noexcept { free(p); }
void operator delete[](void *p, size_t) noexcept { free(p); }

static std::string Terminal(bool threw, long long lines, long long size) {
  vrec::Recorder r;
  if (!threw) { r.EndInput(); return r.evs; }
  vrec::RecordThrow(r, lines, size);
  return r.evs;
}

// Runs one read; returns the JSON array body of the observed events.
template <typename ReadFn>
static std::string Observe(const char *handler, ReadFn read, long long lines, long long size) {
  if (!strcmp(handler, "rec")) {
    // no reader can make more notifications than its input has bytes: beyond ~100 log bytes per input byte the read
    // is running away (repeating a segment without end) - recorded as such, never as an ordinary exception
    vrec::Recorder rec(vrec::HexNum, nullptr, (size_t)(100 * size + 65536));
    try {
      read(rec);
    } catch (...) {
      if (rec.truncated) { rec.truncated = false; rec.max_bytes = (size_t)-1; rec.Begin("Runaway"); rec.End(); }
      else vrec::RecordThrow(rec, lines, size);
    }
    return rec.evs;
  }
  if (!strcmp(handler, "prob")) {
    try {
      mp::Problem problem;
      mp::internal::NLProblemBuilder<mp::Problem> builder(problem);
      read(builder);
    } catch (...) {
      return Terminal(true, lines, size);
    }
    return Terminal(false, lines, size);
  }
  try {
    mp::NullNLHandler<int> h;
    read(h);
  } catch (...) {
    return Terminal(true, lines, size);
  }
  return Terminal(false, lines, size);
}

static void RunInput(const std::string &path, const std::string &role, const std::string &base, FILE *out) {
  std::string data;
  {
    std::ifstream f(path, std::ios::binary);
    data.assign((std::istreambuf_iterator<char>(f)), std::istreambuf_iterator<char>());
  }
  long long size = (long long)data.size(), lines = 0;
  for (char c : data) lines += c == '\n';
  std::string name = path.substr(path.rfind('/') + 1);
  static const char *handlers[] = {"rec", "prob", "null"};
  for (int flags = 0; flags < 2; ++flags) {
    for (const char *h : handlers) {
      char ctx[240];
      snprintf(ctx, sizeof ctx, "input %s flags %d handler %s path mem", name.c_str(), flags, h);
      nlc::Ctx(ctx);
      // the in-memory input lives in an exactly sized heap block (bytes + the terminating NUL): a read of even one
      // byte behind the terminator is a heap-buffer-overflow for ASan (a std::string's capacity slack would hide it)
      char *exact = (char *)malloc(data.size() + 1);
      memcpy(exact, data.data(), data.size());
      exact[data.size()] = 0;
      std::string a = Observe(h, [&](auto &handler) {
        mp::ReadNLString(mp::NLStringRef(exact, data.size()), handler, path, flags);
      }, lines, size);
      free(exact);
      snprintf(ctx, sizeof ctx, "input %s flags %d handler %s path file", name.c_str(), flags, h);
      nlc::Ctx(ctx);
      std::string b = Observe(h, [&](auto &handler) { mp::ReadNLFile(path, handler, flags); }, lines, size);
      std::string line = "{\"e\":\"Read\",\"input\":" + vj::esc(name) + ",\"role\":" + vj::esc(role) + ",\"base\":" + vj::esc(base) +
                         ",\"size\":" + std::to_string(size) + ",\"flags\":" + std::to_string(flags) + ",\"handler\":\"" + h +
                         "\",\"a\":[" + a + "],\"b\":[" + b + "]}\n";
      fputs(line.c_str(), out);
      fflush(out);
    }
  }
}

int main(int argc, char **argv) {
  if (argc < 5 || strcmp(argv[1], "run")) {
    fprintf(stderr, "usage: h_nlread run LIST OUT WORKDIR\n");
    return 2;
  }
  std::ifstream list(argv[2]);
  FILE *out = fopen(argv[3], "w");
  if (!out) { perror(argv[3]); return 2; }
  std::string work = argv[4], errfile = work + "/stderr.txt";
  nlc::OpenCtx(work + "/ctx.txt");
  std::string path, role, base;
  while (list >> path >> role >> base) {
    fflush(out);
    nlc::Ctx(("input " + path).c_str());
    pid_t pid = fork();
    if (pid < 0) { perror("fork"); return 2; }
    if (pid == 0) {
      if (!freopen(errfile.c_str(), "w", stderr)) _exit(96);
      alarm(30);
      int rc = 0;
      try {
        RunInput(path, role, base, out);
      } catch (const std::exception &e) {
        fprintf(stderr, "harness exception: %s\n", e.what());
        rc = 95;
      }
      fflush(out);
      _exit(rc);
    }
    int st = 0;
    waitpid(pid, &st, 0);
    fseek(out, 0, SEEK_END);
    nlc::Report(out, st, errfile, "\"input\":" + vj::esc(path.substr(path.rfind('/') + 1)) + ",\"role\":" + vj::esc(role) + ",");
  }
  fclose(out);
  return 0;
}
