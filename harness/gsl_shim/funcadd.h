/* Minimal stand-in for the AMPL Solver Library's funcadd.h, written for the
 * C16 harness because ASL is absent from this sandbox.  It declares exactly
 * what src/gsl/amplgsl.cc uses of the documented imported-function interface:
 *   - arglist   (n, nr, at, ra, sa, derivs, hes, dig, funcinfo, AE, f, tva,
 *                Errmsg, TMI, Private, nin, nout, nsin, nsout)
 *   - AmplExports (ASLdate, Addfunc, AtReset, Tempmem, SnprintF, VsnprintF, ...)
 *   - rfunc, real, Exitfunc, TMInfo, the FUNCADD_* type flags and the
 *     addfunc / at_reset convenience macros.
 * `addrandinit` is deliberately NOT defined, so amplgsl.cc takes its
 * `rng = gsl_rng_alloc(gsl_rng_env_setup())` branch.
 * Conventions (from the ASL documentation, relied upon by the harness):
 *   derivs[i]            = d f / d ra[i],  i < n
 *   hes[i + j*(j+1)/2]   = d2 f / d ra[i] d ra[j],  i <= j   (upper triangle)
 *   dig && dig[i]        : partials w.r.t. ra[i] are not needed (argument constant)
 *   Errmsg               : NULL = no error; text starting with ' = first derivatives
 *                          cannot be computed; starting with " = second derivatives;
 *                          anything else = the value cannot be computed.
 */
#ifndef VERIF_GSL_SHIM_FUNCADD_H_
#define VERIF_GSL_SHIM_FUNCADD_H_

#include <stdarg.h>
#include <stddef.h>
#include <stdio.h>

#ifdef __cplusplus
extern "C" {
#endif

typedef double real;
typedef void Char;
typedef struct arglist arglist;
typedef struct AmplExports AmplExports;
typedef struct TMInfo TMInfo;
typedef struct function function;
typedef struct TVA TVA;

typedef real (*rfunc)(arglist *);
typedef real (ufunc)(arglist *);
typedef void Exitfunc(void *);
typedef void (*RandSeedSetter)(void *, unsigned long);

enum FUNCADD_TYPE {          /* bits of the `type` argument of Addfunc */
  FUNCADD_REAL_VALUED = 0,
  FUNCADD_STRING_ARGS = 1,
  FUNCADD_STRING_VALUED = 2,
  FUNCADD_RANDOM_VALUED = 4,
  FUNCADD_012ARGS = 8,
  FUNCADD_OUTPUT_ARGS = 16,
  FUNCADD_TUPLE_VALUED = 32,
  FUNCADD_NO_ARGLIST = 8,
  FUNCADD_NO_DUPWARN = 64,
  FUNCADD_NONRAND_BUILTIN = 128
};

struct arglist {
  int n;              /* number of args */
  int nr;             /* number of real input args */
  int *at;            /* argument types */
  real *ra;           /* pure real args */
  const char **sa;    /* symbolic args */
  real *derivs;       /* for partial derivatives (if nonzero) */
  real *hes;          /* for second partials (if nonzero) */
  char *dig;          /* if (dig && dig[i]) partials w.r.t. ra[i] will not be used */
  Char *funcinfo;     /* for use by the function (if desired) */
  AmplExports *AE;    /* functions made visible */
  function *f;        /* for internal use by AMPL */
  TVA *tva;           /* for internal use by AMPL */
  char *Errmsg;       /* error indication, see above */
  TMInfo *TMI;        /* used in Tempmem calls */
  Char *Private;
  int nin, nout, nsin, nsout;
};

struct TMInfo { void *opaque; };

struct AmplExports {
  FILE *StdErr;
  void (*Addfunc)(const char *name, rfunc f, int type, int nargs, void *funcinfo, AmplExports *ae);
  long ASLdate;
  int (*FprintF)(FILE *, const char *, ...);
  int (*PrintF)(const char *, ...);
  int (*SprintF)(char *, const char *, ...);
  int (*VfprintF)(FILE *, const char *, va_list);
  int (*VsprintF)(char *, const char *, va_list);
  double (*Strtod)(const char *, char **);
  void (*AtExit)(AmplExports *ae, Exitfunc *, void *);
  void (*AtReset)(AmplExports *ae, Exitfunc *, void *);
  void *(*Tempmem)(TMInfo *, size_t);
  int (*SnprintF)(char *, size_t, const char *, ...);
  int (*VsnprintF)(char *, size_t, const char *, va_list);
  void (*Addrandinit)(AmplExports *ae, RandSeedSetter, void *);
};

#define addfunc(a, b, c, d, e) (*ae->Addfunc)(a, b, c, d, e, ae)
#define at_reset(a, b) (*ae->AtReset)(ae, a, b)
#define at_exit(a, b) (*ae->AtExit)(ae, a, b)

/* the entry point every imported-function library defines */
void funcadd_ASL(AmplExports *ae);

#ifdef __cplusplus
}
#endif
#endif
