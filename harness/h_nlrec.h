// Recording NLHandler shared by h_nlrt (C03) and h_nlread (C02).
// Every callback of the NLHandler concept is appended, in call order, to a JSON
// array of events (vocabulary: DESIGN.md Appendix A, "NL reader").  Expression
// handles are the handler's own running counter (0 = the null handle).  The
// handler does not check anything: all judgement is in specs/nl/NLProtocol.tla
// and TraceNL*.tla.  Numbers go through a caller-supplied encoder (atom index
// for C03, bit pattern for C02).
#ifndef H_NLREC_H_
#define H_NLREC_H_
#include <cmath>
#include <cstdint>
#include <cstring>
#include <string>

#include "mp/nl-reader.h"
#include "mp/safeint.h"
#include <typeinfo>
#include "h_nljson.h"

namespace vrec {

inline const char *KindName(mp::expr::Kind k) {
  using namespace mp::expr;
  switch (k) {
#define VK(x) case x: return #x;
  VK(NUMBER) VK(VARIABLE) VK(COMMON_EXPR)
  VK(MINUS) VK(ABS) VK(FLOOR) VK(CEIL) VK(SQRT) VK(POW2) VK(EXP) VK(LOG) VK(LOG10)
  VK(SIN) VK(SINH) VK(COS) VK(COSH) VK(TAN) VK(TANH) VK(ASIN) VK(ASINH) VK(ACOS) VK(ACOSH)
  VK(ATAN) VK(ATANH)
  VK(ADD) VK(SUB) VK(LESS) VK(MUL) VK(DIV) VK(TRUNC_DIV) VK(MOD) VK(POW) VK(POW_CONST_BASE)
  VK(POW_CONST_EXP) VK(ATAN2) VK(PRECISION) VK(ROUND) VK(TRUNC)
  VK(IF) VK(PLTERM) VK(CALL) VK(MIN) VK(MAX) VK(SUM) VK(NUMBEROF) VK(NUMBEROF_SYM) VK(COUNT)
  VK(BOOL) VK(NOT) VK(OR) VK(AND) VK(IFF) VK(LT) VK(LE) VK(EQ) VK(GE) VK(GT) VK(NE)
  VK(ATLEAST) VK(ATMOST) VK(EXACTLY) VK(NOT_ATLEAST) VK(NOT_ATMOST) VK(NOT_EXACTLY)
  VK(IMPLICATION) VK(EXISTS) VK(FORALL) VK(ALLDIFF) VK(NOT_ALLDIFF) VK(STRING) VK(IFSYM)
#undef VK
  default: return "UNKNOWN";
  }
}

// number encoder: appends the JSON encoding of a double
typedef void (*NumFn)(void *ctx, double v, std::string &out);

inline void HexNum(void *, double v, std::string &out) {
  uint64_t u;
  memcpy(&u, &v, 8);
  char b[32];
  snprintf(b, sizeof b, "\"%016llx\"", (unsigned long long)u);
  out += b;
}

class Recorder {
 public:
  std::string evs;       // comma separated JSON objects
  int nev = 0;
  int next_id = 0;
  NumFn num_fn;
  void *num_ctx;
  size_t max_bytes;      // stop recording detail beyond this (hostile inputs)
  bool truncated = false;

  explicit Recorder(NumFn f = HexNum, void *ctx = nullptr, size_t maxb = 8u << 20)
    : num_fn(f), num_ctx(ctx), max_bytes(maxb) {}

  void Begin(const char *name) {
    if (evs.size() > max_bytes) { truncated = true; throw std::length_error("recorder: event log too large"); }
    if (nev++) evs += ',';
    evs += "{\"e\":\""; evs += name; evs += '"';
  }
  void I(const char *k, long long v) { evs += ",\""; evs += k; evs += "\":"; evs += std::to_string(v); }
  void D(const char *k, double v) { evs += ",\""; evs += k; evs += "\":"; num_fn(num_ctx, v, evs); }
  void S(const char *k, const char *s, size_t n) { evs += ",\""; evs += k; evs += "\":"; evs += vj::esc(s, n); }
  void S(const char *k, const char *s) { S(k, s, strlen(s)); }
  void B(const char *k, bool v) { evs += ",\""; evs += k; evs += "\":"; evs += v ? "true" : "false"; }
  void End() { evs += '}'; }
  int NewId() { return ++next_id; }

  // ------------------------------------------------------------ handler types
  typedef int Expr;
  typedef int NumericExpr;
  typedef int LogicalExpr;
  typedef int CountExpr;
  typedef int Reference;

  struct LinearExprHandler {
    Recorder *r;
    void AddTerm(int var_index, double coef) { r->Begin("AddTerm"); r->I("v", var_index); r->D("c", coef); r->End(); }
  };
  typedef LinearExprHandler LinearObjHandler;
  typedef LinearExprHandler LinearConHandler;
  struct ColumnSizeHandler {
    Recorder *r;
    void Add(int size) { r->Begin("ColSize"); r->I("n", size); r->End(); }
  };
  struct IntSuffixHandler {
    Recorder *r;
    void SetValue(int index, int value) { r->Begin("SetValue"); r->S("t", "i"); r->I("i", index); r->I("v", value); r->End(); }
  };
  struct DblSuffixHandler {
    Recorder *r;
    void SetValue(int index, double value) { r->Begin("SetValue"); r->S("t", "d"); r->I("i", index); r->D("v", value); r->End(); }
  };
  struct ArgHandler {
    Recorder *r;
    void AddArg(int arg) { r->Begin("AddArg"); r->I("id", arg); r->End(); }
  };
  typedef ArgHandler NumericArgHandler;
  typedef ArgHandler VarArgHandler;
  typedef ArgHandler CallArgHandler;
  typedef ArgHandler NumberOfArgHandler;
  typedef ArgHandler CountArgHandler;
  typedef ArgHandler LogicalArgHandler;
  typedef ArgHandler PairwiseArgHandler;
  typedef ArgHandler SymbolicArgHandler;
  struct PLTermHandler {
    Recorder *r;
    void AddSlope(double v) { r->Begin("AddSlope"); r->D("v", v); r->End(); }
    void AddBreakpoint(double v) { r->Begin("AddBreakpoint"); r->D("v", v); r->End(); }
  };

  // ------------------------------------------------------------ callbacks
  void OnHeader(const mp::NLHeader &h) {
    Begin("OnHeader");
    I("fmt", h.format); I("nopts", h.num_ampl_options);
    evs += ",\"opts\":[";
    for (int i = 0; i < mp::MAX_AMPL_OPTIONS; ++i) {
      if (i) evs += ',';
      long o = h.ampl_options[i];   // keep within what TLC can hold
      evs += std::to_string(o > 2147483647L ? 2147483647L : o < -2147483647L ? -2147483647L : o);
    }
    evs += ']';
    D("vbtol", h.ampl_vbtol);
    I("nv", h.num_vars); I("nac", h.num_algebraic_cons); I("no", h.num_objs);
    I("nr", h.num_ranges); I("neq", h.num_eqns); I("nlc", h.num_logical_cons);
    I("nnlc", h.num_nl_cons); I("nnlo", h.num_nl_objs); I("ncc", h.num_compl_conds);
    I("nnlcc", h.num_nl_compl_conds); I("ncdi", h.num_compl_dbl_ineqs);
    I("ncvnz", h.num_compl_vars_with_nz_lb); I("nnlnet", h.num_nl_net_cons);
    I("nlinnet", h.num_linear_net_cons); I("nlvc", h.num_nl_vars_in_cons);
    I("nlvo", h.num_nl_vars_in_objs); I("nlvb", h.num_nl_vars_in_both);
    I("nlnv", h.num_linear_net_vars); I("nf", h.num_funcs); I("arith", h.arith_kind);
    I("flags", h.flags); I("nbv", h.num_linear_binary_vars); I("niv", h.num_linear_integer_vars);
    I("nlvbi", h.num_nl_integer_vars_in_both); I("nlvci", h.num_nl_integer_vars_in_cons);
    I("nlvoi", h.num_nl_integer_vars_in_objs);
    I("nzc", h.num_con_nonzeros > 2147483647u ? -1 : (long long)h.num_con_nonzeros);
    I("nzo", h.num_obj_nonzeros > 2147483647u ? -1 : (long long)h.num_obj_nonzeros);
    S("nzs", (std::to_string(h.num_con_nonzeros) + "," + std::to_string(h.num_obj_nonzeros)).c_str());
    I("maxcn", h.max_con_name_len); I("maxvn", h.max_var_name_len);
    evs += ",\"nce\":[" + std::to_string(h.num_common_exprs_in_both) + "," +
           std::to_string(h.num_common_exprs_in_cons) + "," + std::to_string(h.num_common_exprs_in_objs) + "," +
           std::to_string(h.num_common_exprs_in_single_cons) + "," +
           std::to_string(h.num_common_exprs_in_single_objs) + "]";
    End();
  }
  bool NeedObj(int) const { return true; }
  int resulting_obj_index(int i) const { return i; }

  void OnObj(int index, mp::obj::Type type, NumericExpr expr) {
    Begin("OnObj"); I("i", index); I("max", (int)type); I("expr", expr); End();
  }
  void OnAlgebraicCon(int index, NumericExpr expr) { Begin("OnAlgebraicCon"); I("i", index); I("expr", expr); End(); }
  void OnLogicalCon(int index, LogicalExpr expr) { Begin("OnLogicalCon"); I("i", index); I("expr", expr); End(); }
  LinearExprHandler BeginCommonExpr(int index, int num_linear_terms) {
    Begin("BeginCommonExpr"); I("i", index); I("nlin", num_linear_terms); End();
    return LinearExprHandler{this};
  }
  void EndCommonExpr(int index, NumericExpr expr, int position) {
    Begin("EndCommonExpr"); I("i", index); I("expr", expr); I("pos", position); End();
  }
  void OnComplementarity(int con_index, int var_index, mp::ComplInfo info) {
    int flags = (std::isinf(info.con_ub()) ? 1 : 0) | (std::isinf(info.con_lb()) ? 2 : 0);
    Begin("OnComplementarity"); I("c", con_index); I("v", var_index); I("flags", flags); End();
  }
  LinearObjHandler OnLinearObjExpr(int obj_index, int num_linear_terms) {
    Begin("OnLinearObjExpr"); I("i", obj_index); I("n", num_linear_terms); End();
    return LinearObjHandler{this};
  }
  LinearConHandler OnLinearConExpr(int con_index, int num_linear_terms) {
    Begin("OnLinearConExpr"); I("i", con_index); I("n", num_linear_terms); End();
    return LinearConHandler{this};
  }
  void OnVarBounds(int index, double lb, double ub) { Begin("OnVarBounds"); I("i", index); D("lb", lb); D("ub", ub); End(); }
  void OnConBounds(int index, double lb, double ub) { Begin("OnConBounds"); I("i", index); D("lb", lb); D("ub", ub); End(); }
  void OnInitialValue(int var_index, double value) { Begin("OnInitialValue"); I("i", var_index); D("x", value); End(); }
  void OnInitialDualValue(int con_index, double value) { Begin("OnInitialDualValue"); I("i", con_index); D("x", value); End(); }
  ColumnSizeHandler OnColumnSizes() { Begin("OnColumnSizes"); End(); return ColumnSizeHandler{this}; }
  void OnFunction(int index, fmt::StringRef name, int num_args, mp::func::Type type) {
    Begin("OnFunction"); I("i", index); S("name", name.data(), name.size()); I("nargs", num_args); I("type", (int)type); End();
  }
  IntSuffixHandler OnIntSuffix(fmt::StringRef name, mp::suf::Kind kind, int num_values) {
    Begin("OnIntSuffix"); S("name", name.data(), name.size()); I("kind", (int)kind); I("n", num_values); End();
    return IntSuffixHandler{this};
  }
  DblSuffixHandler OnDblSuffix(fmt::StringRef name, mp::suf::Kind kind, int num_values) {
    Begin("OnDblSuffix"); S("name", name.data(), name.size()); I("kind", (int)kind); I("n", num_values); End();
    return DblSuffixHandler{this};
  }

  NumericExpr OnNumber(double value) { int id = NewId(); Begin("OnNumber"); D("v", value); I("id", id); End(); return id; }
  Reference OnVariableRef(int var_index) { int id = NewId(); Begin("OnVariableRef"); I("i", var_index); I("id", id); End(); return id; }
  Reference OnCommonExprRef(int expr_index) { int id = NewId(); Begin("OnCommonExprRef"); I("i", expr_index); I("id", id); End(); return id; }
  NumericExpr OnUnary(mp::expr::Kind kind, NumericExpr arg) {
    int id = NewId(); Begin("OnUnary"); S("k", KindName(kind)); I("arg", arg); I("id", id); End(); return id;
  }
  int Bin(const char *ev, mp::expr::Kind kind, int lhs, int rhs) {
    int id = NewId(); Begin(ev); S("k", KindName(kind)); I("l", lhs); I("r", rhs); I("id", id); End(); return id;
  }
  int Tern(const char *ev, int c, int t, int f) {
    int id = NewId(); Begin(ev); I("c", c); I("t", t); I("f", f); I("id", id); End(); return id;
  }
  NumericExpr OnBinary(mp::expr::Kind kind, NumericExpr lhs, NumericExpr rhs) { return Bin("OnBinary", kind, lhs, rhs); }
  NumericExpr OnIf(LogicalExpr c, NumericExpr t, NumericExpr f) { return Tern("OnIf", c, t, f); }
  PLTermHandler BeginPLTerm(int num_breakpoints) { Begin("BeginPLTerm"); I("n", num_breakpoints); End(); return PLTermHandler{this}; }
  NumericExpr EndPLTerm(PLTermHandler, Reference arg) { int id = NewId(); Begin("EndPLTerm"); I("arg", arg); I("id", id); End(); return id; }
  CallArgHandler BeginCall(int func_index, int num_args) { Begin("BeginCall"); I("f", func_index); I("n", num_args); End(); return ArgHandler{this}; }
  int EndX(const char *ev) { int id = NewId(); Begin(ev); I("id", id); End(); return id; }
  NumericExpr EndCall(CallArgHandler) { return EndX("EndCall"); }
  VarArgHandler BeginVarArg(mp::expr::Kind kind, int num_args) {
    Begin("BeginVarArg"); S("k", KindName(kind)); I("n", num_args); End(); return ArgHandler{this};
  }
  NumericExpr EndVarArg(VarArgHandler) { return EndX("EndVarArg"); }
  NumericArgHandler BeginSum(int num_args) { Begin("BeginSum"); I("n", num_args); End(); return ArgHandler{this}; }
  NumericExpr EndSum(NumericArgHandler) { return EndX("EndSum"); }
  CountArgHandler BeginCount(int num_args) { Begin("BeginCount"); I("n", num_args); End(); return ArgHandler{this}; }
  CountExpr EndCount(CountArgHandler) { return EndX("EndCount"); }
  NumberOfArgHandler BeginNumberOf(int num_args, NumericExpr arg0) {
    Begin("BeginNumberOf"); I("n", num_args); I("arg0", arg0); End(); return ArgHandler{this};
  }
  NumericExpr EndNumberOf(NumberOfArgHandler) { return EndX("EndNumberOf"); }
  SymbolicArgHandler BeginSymbolicNumberOf(int num_args, Expr arg0) {
    Begin("BeginSymbolicNumberOf"); I("n", num_args); I("arg0", arg0); End(); return ArgHandler{this};
  }
  NumericExpr EndSymbolicNumberOf(SymbolicArgHandler) { return EndX("EndSymbolicNumberOf"); }
  LogicalExpr OnBool(bool value) { int id = NewId(); Begin("OnBool"); B("v", value); I("id", id); End(); return id; }
  LogicalExpr OnNot(LogicalExpr arg) { int id = NewId(); Begin("OnNot"); I("arg", arg); I("id", id); End(); return id; }
  LogicalExpr OnBinaryLogical(mp::expr::Kind kind, LogicalExpr lhs, LogicalExpr rhs) { return Bin("OnBinaryLogical", kind, lhs, rhs); }
  LogicalExpr OnRelational(mp::expr::Kind kind, NumericExpr lhs, NumericExpr rhs) { return Bin("OnRelational", kind, lhs, rhs); }
  LogicalExpr OnLogicalCount(mp::expr::Kind kind, NumericExpr lhs, CountExpr rhs) { return Bin("OnLogicalCount", kind, lhs, rhs); }
  LogicalExpr OnImplication(LogicalExpr c, LogicalExpr t, LogicalExpr f) { return Tern("OnImplication", c, t, f); }
  LogicalArgHandler BeginIteratedLogical(mp::expr::Kind kind, int num_args) {
    Begin("BeginIteratedLogical"); S("k", KindName(kind)); I("n", num_args); End(); return ArgHandler{this};
  }
  LogicalExpr EndIteratedLogical(LogicalArgHandler) { return EndX("EndIteratedLogical"); }
  PairwiseArgHandler BeginPairwise(mp::expr::Kind kind, int num_args) {
    Begin("BeginPairwise"); S("k", KindName(kind)); I("n", num_args); End(); return ArgHandler{this};
  }
  LogicalExpr EndPairwise(PairwiseArgHandler) { return EndX("EndPairwise"); }
  Expr OnString(fmt::StringRef value) {
    int id = NewId();
    Begin("OnString"); S("s", value.data(), value.size() > 200 ? 200 : value.size()); I("len", (long long)value.size()); I("id", id); End();
    return id;
  }
  Expr OnSymbolicIf(LogicalExpr c, Expr t, Expr f) { return Tern("OnSymbolicIf", c, t, f); }
  void EndInput() { Begin("EndInput"); End(); }
};

// Classify the exception in flight (call inside a catch (...) block) and append
// the terminal Throw event.  lines/size describe the input (for "located").
inline void RecordThrow(Recorder &r, long long lines, long long size) {
  std::string kind = "other", msg, type;
  long long line = -1, col = -1, off = -1;
  try {
    throw;
  } catch (const mp::ReadError &e) {
    kind = "ReadError"; line = e.line(); col = e.column(); msg = e.what();
  } catch (const mp::BinaryReadError &e) {
    kind = "BinaryReadError"; off = (long long)(e.offset() > 2147483647u ? 2147483647u : e.offset()); msg = e.what();
  } catch (const mp::OverflowError &e) {
    kind = "OverflowError"; msg = e.what();
  } catch (const mp::Error &e) {
    kind = "Error"; msg = e.what();
  } catch (const std::bad_alloc &e) {
    kind = "bad_alloc"; msg = e.what();
  } catch (const std::exception &e) {
    kind = "std_exception"; type = typeid(e).name(); msg = e.what();   // e.g. std::length_error out of a container
  } catch (...) {
    kind = "other:unknown";
  }
  // the message keeps only what follows the "name:line:col: " prefix bytes that are printable
  if (msg.size() > 160) msg.resize(160);
  if (r.nev++) r.evs += ',';
  r.evs += "{\"e\":\"Throw\",\"kind\":" + vj::esc(kind) + ",\"line\":" + std::to_string(line) +
           ",\"col\":" + std::to_string(col) + ",\"off\":" + std::to_string(off) +
           ",\"lines\":" + std::to_string(lines) + ",\"size\":" + std::to_string(size) +
           ",\"type\":" + vj::esc(type) + ",\"msg\":" + vj::esc(msg) + "}";
}

}  // namespace vrec
#endif
