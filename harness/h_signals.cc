// C15 harness: replays signal schedules on the real mp::internal::SignalHandler
// (src/solver.cc) using the guarded call-outs mp::internal::verif_signal_point.
// One child process per schedule: it lives the life of a driver (construct the
// handler, register one or two callbacks, solve, report, destroy) and raise()s
// the scheduled signals at exactly the scheduled labels; it logs every label
// reached (with the signal dispositions observed there), every delivery, every
// callback invocation (function id, data id) and every Stop() poll.  The
// parent adds the exit status.  No judgement here: TraceSignals.tla decides.
//
// usage: h_signals <schedules.txt> <out.ndjson>
// schedules.txt: one per line:  id nreg n  pt1 sig1 ... ptn sign
#include <csignal>
#include <cstdio>
#include <cstdlib>
#include <cstring>
#include <fstream>
#include <sstream>
#include <string>
#include <vector>
#include <fcntl.h>
#include <sys/wait.h>
#include <unistd.h>

#include "mp/solver-app-base.h"

#ifndef AMPL_MP_VERIF
# error "h_signals needs the call-outs compiled in (-DAMPL_MP_VERIF)"
#endif

struct Step { std::string pt; int sig; };
static std::vector<Step> sched;
static int log_fd = -1;
static int set_call = 0;        // which SetHandler call is running (1, 2)

static void out(const char *s) { ssize_t r = write(log_fd, s, strlen(s)); (void)r; }

static bool installed(int sig) {
  struct sigaction sa;
  if (sigaction(sig, nullptr, &sa) != 0) return false;
  return sa.sa_handler != SIG_DFL && sa.sa_handler != SIG_IGN;
}

// a label: log it, then deliver what the schedule says for it
static void label(const char *name, bool deliver) {
  char buf[160];
  snprintf(buf, sizeof(buf), "P %s %d %d\n", name, installed(SIGINT) ? 1 : 0, installed(SIGTERM) ? 1 : 0);
  out(buf);
  if (!deliver) return;
  for (const Step &s : sched)
    if (s.pt == name && installed(s.sig)) {       // not installed: default action would just kill us
      out(s.sig == SIGINT ? "R INT\n" : "R TERM\n");
      raise(s.sig);                               // handled synchronously, on this thread
    }
}

// call-out ids -> labels: "<function>.<store just made>", in the order of the
// stores in src/solver.cc (id 7 occurs twice in SetHandler: after handler_ = 0
// and after data_ = data)
static const char *CTOR[] = {"", "ctor.interrupter", "ctor.msgptr", "ctor.msgsize", "ctor.stop0", "ctor.sigint", "ctor.sigterm"};
static const char *DTOR[] = {"dtor.interrupter0", "dtor.stop1", "dtor.handler0", "dtor.msgsize0"};
static int sevens = 0;          // call-outs with id 7 seen in the running SetHandler call
static void hook(int id) {
  char name[40];
  if (id >= 1 && id <= 6) snprintf(name, sizeof(name), "%s", CTOR[id]);
  else if (id == 7) { ++sevens; snprintf(name, sizeof(name), "set%d.%s", set_call, sevens == 1 ? "handler0" : sevens == 2 ? "data" : "extra"); }
  else if (id == 8) snprintf(name, sizeof(name), "set%d.handler", set_call);
  else if (id >= 9 && id <= 12) snprintf(name, sizeof(name), "%s", DTOR[id - 9]);
  else snprintf(name, sizeof(name), "hook.%d", id);
  label(name, true);
}

static int d1, d2;                                 // the data registered with callback 1 / 2
static int data_id(void *p) { return p == &d1 ? 1 : p == &d2 ? 2 : p == nullptr ? 0 : -1; }
static void callback(int fn, void *p) {            // async-signal-safe: write only
  char buf[32]; int n = 0;
  buf[n++] = 'C'; buf[n++] = ' '; buf[n++] = (char)('0' + fn); buf[n++] = ' ';
  int d = data_id(p);
  if (d < 0) { buf[n++] = '-'; buf[n++] = '1'; } else buf[n++] = (char)('0' + d);
  buf[n++] = '\n';
  ssize_t r = write(log_fd, buf, n); (void)r;
}
static bool cb1(void *p) { callback(1, p); return true; }
static bool cb2(void *p) { callback(2, p); return true; }

static void poll(mp::BasicSolver &s) { out(s.interrupter()->Stop() ? "L 1\n" : "L 0\n"); }

static void child(int nreg) {
  int devnull = open("/dev/null", O_WRONLY);
  if (devnull >= 0) dup2(devnull, 1);              // the "<BREAK>" message
  alarm(20);
  mp::internal::verif_signal_point = hook;
  mp::BasicSolver s;
  {
    label("ctor.begin", false);
    mp::internal::SignalHandler sh(s);
    label("ctor.end", false);
    poll(s);
    set_call = 1; sevens = 0; label("set1.begin", false);
    s.interrupter()->SetHandler(cb1, &d1);
    label("set1.end", false);
    poll(s);
    if (nreg == 2) {
      set_call = 2; sevens = 0; label("set2.begin", false);
      s.interrupter()->SetHandler(cb2, &d2);
      label("set2.end", false);
      poll(s);
    }
    poll(s); label("solve", true); poll(s);
    label("report", true); poll(s);
    label("dtor.begin", false);
  }
  label("dtor.end", false);
  poll(s);
  label("after", true);
  poll(s);
  _exit(0);
}

static std::string json_events(const std::string &text, int status) {
  std::ostringstream os;
  std::istringstream is(text);
  std::string line;
  bool first = true;
  auto ev = [&](const char *e, const std::string &id, int fn, int data, bool stop, int st, const std::string &inst) {
    os << (first ? "" : ",") << "{\"e\":\"" << e << "\",\"id\":\"" << id << "\",\"fn\":" << fn << ",\"data\":" << data
       << ",\"stop\":" << (stop ? "true" : "false") << ",\"status\":" << st << ",\"inst\":[" << inst << "]}";
    first = false;
  };
  while (std::getline(is, line)) {
    std::istringstream ls(line);
    std::string k; ls >> k;
    if (k == "P") {
      std::string id; int i = 0, t = 0; ls >> id >> i >> t;
      std::string inst = i ? "\"INT\"" : "";
      if (t) inst += std::string(i ? "," : "") + "\"TERM\"";
      ev("Point", id, 0, 0, false, 0, inst);
    } else if (k == "R") { std::string sig; ls >> sig; ev("Raise", sig, 0, 0, false, 0, ""); }
    else if (k == "C") { int fn = 0, d = 0; ls >> fn >> d; ev("Callback", "", fn, d, false, 0, ""); }
    else if (k == "L") { int v = 0; ls >> v; ev("Poll", "", 0, 0, v != 0, 0, ""); }
    else ev("Garbage", line.substr(0, 40), 0, 0, false, 0, "");
  }
  ev("Exit", "", 0, 0, false, status, "");
  return os.str();
}

int main(int argc, char **argv) {
  if (argc < 3) { fprintf(stderr, "usage: h_signals <schedules.txt> <out.ndjson>\n"); return 2; }
  std::ifstream in(argv[1]);
  FILE *outf = fopen(argv[2], "w");
  if (!in || !outf) return 3;
  std::string line;
  while (std::getline(in, line)) {
    if (line.empty()) continue;
    std::istringstream ls(line);
    long id; int nreg, n;
    if (!(ls >> id >> nreg >> n)) { fprintf(stderr, "bad schedule line\n"); return 3; }
    sched.clear();
    for (int i = 0; i < n; ++i) {
      std::string pt, sig; ls >> pt >> sig;
      sched.push_back({pt, sig == "INT" ? SIGINT : SIGTERM});
    }
    int fds[2];
    if (pipe(fds) != 0) return 3;
    fflush(outf);
    pid_t pid = fork();
    if (pid < 0) return 3;
    if (pid == 0) { close(fds[0]); log_fd = fds[1]; child(nreg); _exit(0); }
    close(fds[1]);
    std::string text; char buf[4096]; ssize_t r;
    while ((r = read(fds[0], buf, sizeof(buf))) > 0) text.append(buf, (size_t)r);
    close(fds[0]);
    int st = 0;
    waitpid(pid, &st, 0);
    int status = WIFEXITED(st) ? WEXITSTATUS(st) : 1000 + (WIFSIGNALED(st) ? WTERMSIG(st) : 0);
    fprintf(outf, "{\"e\":\"Run\",\"id\":%ld,\"ev\":[%s]}\n", id, json_events(text, status).c_str());
  }
  fclose(outf);
  return 0;
}
