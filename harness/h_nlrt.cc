// C03 harness: abstract NL model (CASE json from specs/nl/GenNL.tla)
//   -> feeder over the model -> REAL mp::WriteNLFile (text / binary, comments,
//      bounds first/last, column-size mode)
//   -> REAL mp::ReadNLFile with the recording handler (h_nlrec.h) and
//      mp::NameProvider for .col/.row
//   -> one ndjson "Exec" record per written file with every callback.
// Nothing is judged here; specs/nl/TraceNLRoundTrip.tla does that.
//
//   h_nlrt atoms SEED N                 print the number table (json)
//   h_nlrt run CASES OUT WORKDIR SEED N [KEEPDIR]
//       CASES: one case per line, each with "cfgs": [[comments, boundsfirst, colsizes, readflags], ...]
//       every case runs in a forked child (a crash becomes a Crash record)
//       KEEPDIR: keep every written file as KEEPDIR/<id>_<cfg>_<t|b>.nl (inputs for C02)
#include <sys/wait.h>
#include <unistd.h>

#include <cfloat>
#include <climits>
#include <cmath>
#include <cstdint>
#include <fstream>
#include <random>
#include <unordered_map>

#include "mp/nl-opcodes.h"
#include "mp/nl-reader.h"
#include "mp/nl-writer2.h"
#include "mp/nl-writer2.hpp"

#include "h_nlcrash.h"
#include "h_nljson.h"
#include "h_nlrec.h"

// ----------------------------------------------------------------- atoms
static uint64_t Bits(double d) { uint64_t u; memcpy(&u, &d, 8); return u; }
static double FromBits(uint64_t u) { double d; memcpy(&d, &u, 8); return d; }
static uint64_t KeyOf(double d) { return d == 0 ? 0 : Bits(d); }   // identity up to the sign of zero

struct Atoms {
  std::vector<double> v;
  std::unordered_map<uint64_t, int> idx;
  int nfixed = 0;
  bool Add(double d) {
    if (std::isnan(d)) return false;
    uint64_t k = Bits(d);             // exact bits here: +0.0 and -0.0 are both entries
    for (double e : v) if (Bits(e) == k) return false;
    v.push_back(d);
    return true;
  }
  void Build(unsigned seed, int n) {
    // reserved: 0 = +0.0, 1 = +inf, 2 = -inf, 3 = 1.0, 4 = -0.0, 5 = DBL_MAX, 6 = -DBL_MAX (NLModel.tla)
    Add(0.0); Add(INFINITY); Add(-INFINITY); Add(1.0); Add(-0.0); Add(DBL_MAX); Add(-DBL_MAX);
    const double pos[] = {
      2, 3, 10, 0.5, 0.1, 0.2, 0.3, 0.1 + 0.2, 1.0 / 3, 2.0 / 3, 1.5, 2.5, 0.25, 1e-3, 1e-4, 1e-5, 9.5e-5, 0.00012345,
      12345, 123456, 1234567, 1e5, 1e6, 1e15, 1e16, 1e17, 1e21, 1e22, 1e23, 8.41e21, 1e100, 1e-100, 1e300, 1e-300, 1e308, 1e-308,
      32766, 32767, 32768, 32769, 32767.5, 65535, 65536, 2147483646., 2147483647., 2147483648., 2147483649., 2147483647.5,
      4294967295., 4294967296., 9007199254740991., 9007199254740992., 9007199254740994., 4503599627370496.5, 4503599627370497.5,
      1e15 + 0.3, 123456789.12345678, 1.0000000000000002, 0.99999999999999989, 1.7976931348623157e308, 1.7976931348623155e308,
      8.98846567431158e307, DBL_MIN, DBL_MIN / 2, 5e-324, 1.5e-323, 2.2250738585072011e-308, 2.2250738585072009e-308,
      4.9406564584124654e-324, 3.141592653589793, 2.718281828459045, 6.02214076e23, 6.62607015e-34, 0.3333333333333333,
      0.30000000000000004, 0.1f, 16777217., (double)FLT_MAX, (double)FLT_MIN, 1.1, 2.2, 3.3, 100, 1000, 999999, 9999999,
      99999.5, 0.001953125, 5e-5, 123e-20, 7e-10, 1234567890123456789., 12345678901234567890., 1e19, 1.8446744073709552e19,
      4.35, 0.57, 1.005, 2.675, 1e-7, 17.000000000000004, 0.7071067811865476, 1.4142135623730951 };
    for (double d : pos) { Add(d); Add(-d); }
    // powers of two (the shortest-digits printer treats them specially: the gap below is half the gap above)
    for (int e = -100; e <= 70; ++e) { Add(std::ldexp(1.0, e)); if (e % 4 == 0) Add(-std::ldexp(1.0, e)); }
    for (int e = -1070; e <= 1020; e += 10) { Add(std::ldexp(1.0, e)); Add(std::ldexp(1.0, e + 3)); }
    nfixed = (int)v.size();
    std::mt19937_64 rng(seed * 2654435761u + 12345);
    while ((int)v.size() < n) {
      double d;
      switch (rng() % 6) {
      case 0: d = FromBits(rng()); break;                                         // any bit pattern
      case 1: d = FromBits((rng() & 0x800fffffffffffffull) | ((uint64_t)(rng() % 40) << 52)); break;  // tiny / subnormal range
      case 2: d = (double)(int64_t)(rng() % 2000000) - 1000000; break;            // small integers
      case 3: d = ((double)(int64_t)(rng() % 20000000000ll) - 1e10) / (double)(1 + rng() % 1000); break;
      case 4: { int digits = 1 + rng() % 17; double m = (double)(rng() % (uint64_t)std::pow(10.0, digits));
                d = m * std::pow(10.0, (int)(rng() % 60) - 30); if (rng() & 1) d = -d; break; }
      default: d = std::ldexp((double)(rng() >> 11) / 9007199254740992.0 + 0.5, (int)(rng() % 2000) - 1000); if (rng() & 1) d = -d;
      }
      if (std::isinf(d)) continue;
      Add(d);
    }
    for (int i = (int)v.size() - 1; i >= 0; --i) idx[KeyOf(v[i])] = i;   // first index wins; -0.0 maps to atom 0
  }
  int Find(double d) const {
    if (std::isnan(d)) return -1;
    auto it = idx.find(KeyOf(d));
    return it == idx.end() ? -1 : it->second;
  }
};
static Atoms g_atoms;
static void AtomNum(void *, double v, std::string &out) { out += std::to_string(g_atoms.Find(v)); }

// ----------------------------------------------------------------- feeder
struct OpInfo { mp::nl::Opcode oc; bool iterated; };
static const std::unordered_map<std::string, OpInfo> &OpMap() {
  static std::unordered_map<std::string, OpInfo> m;
  if (m.empty()) {
#define OPF(x) m[#x] = OpInfo{mp::nl::x, false};
#define OPN(x) m[#x] = OpInfo{mp::nl::x, true};
    OPF(ADD) OPF(SUB) OPF(MUL) OPF(DIV) OPF(MOD) OPF(POW) OPF(LESS) OPN(MIN) OPN(MAX) OPF(FLOOR) OPF(CEIL) OPF(ABS)
    OPF(MINUS) OPF(OR) OPF(AND) OPF(LT) OPF(LE) OPF(EQ) OPF(GE) OPF(GT) OPF(NE) OPF(NOT) OPF(IF) OPF(TANH) OPF(TAN)
    OPF(SQRT) OPF(SINH) OPF(SIN) OPF(LOG10) OPF(LOG) OPF(EXP) OPF(COSH) OPF(COS) OPF(ATANH) OPF(ATAN2) OPF(ATAN)
    OPF(ASINH) OPF(ASIN) OPF(ACOSH) OPF(ACOS) OPN(SUM) OPF(TRUNC_DIV) OPF(PRECISION) OPF(ROUND) OPF(TRUNC) OPN(COUNT)
    OPN(NUMBEROF) OPN(NUMBEROF_SYM) OPF(ATLEAST) OPF(ATMOST) OPF(IFSYM) OPF(EXACTLY) OPF(NOT_ATLEAST) OPF(NOT_ATMOST)
    OPF(NOT_EXACTLY) OPN(FORALL) OPN(EXISTS) OPF(IMPLICATION) OPF(IFF) OPN(ALLDIFF) OPN(NOT_ALLDIFF) OPF(POW_CONST_EXP)
    OPF(POW2) OPF(POW_CONST_BASE)
#undef OPF
#undef OPN
  }
  return m;
}

struct Cfg { bool binary, comments, bounds_first; int colsizes; int read_flags; };

class Feeder : public mp::NLFeeder<Feeder, const vj::Value *> {
  const vj::Value &c_, &m_, &h_;
  Cfg cfg_;
  std::vector<std::string> descr_;   // keeps description strings alive
 public:
  Feeder(const vj::Value &c, Cfg cfg) : c_(c), m_(c.at("m")), h_(c.at("hdr")), cfg_(cfg) {}
  double At(const vj::Value &a) const { return g_atoms.v.at(a.num()); }
  int nv() const { return h_.at("nv").num(); }

  mp::NLHeader Header() {
    mp::NLHeader h;
    h.format = cfg_.binary ? mp::NLHeader::BINARY : mp::NLHeader::TEXT;
    h.prob_name = "verif_case";
    h.num_ampl_options = h_.at("nopts").num();
    for (int i = 0; i < mp::MAX_AMPL_OPTIONS; ++i) h.ampl_options[i] = h_.at("opts")[i].num();
    h.ampl_vbtol = At(h_.at("vbtol"));
    h.flags = h_.at("flags").num();
    h.num_vars = h_.at("nv").num();
    h.num_algebraic_cons = h_.at("nac").num();
    h.num_objs = h_.at("no").num();
    h.num_ranges = h_.at("nr").num();
    h.num_eqns = h_.at("neq").num();
    h.num_logical_cons = h_.at("nlc").num();
    h.num_nl_cons = h_.at("nnlc").num();
    h.num_nl_objs = h_.at("nnlo").num();
    h.num_compl_conds = h_.at("ncc").num();
    h.num_nl_compl_conds = h_.at("nnlcc").num();
    h.num_compl_dbl_ineqs = h_.at("ncdi").num();
    h.num_compl_vars_with_nz_lb = h_.at("ncvnz").num();
    h.num_nl_net_cons = h_.at("nnlnet").num();
    h.num_linear_net_cons = h_.at("nlinnet").num();
    h.num_nl_vars_in_cons = h_.at("nlvc").num();
    h.num_nl_vars_in_objs = h_.at("nlvo").num();
    h.num_nl_vars_in_both = h_.at("nlvb").num();
    h.num_linear_net_vars = h_.at("nlnv").num();
    h.num_funcs = h_.at("nf").num();
    h.num_linear_binary_vars = h_.at("nbv").num();
    h.num_linear_integer_vars = h_.at("niv").num();
    h.num_nl_integer_vars_in_both = h_.at("nlvbi").num();
    h.num_nl_integer_vars_in_cons = h_.at("nlvci").num();
    h.num_nl_integer_vars_in_objs = h_.at("nlvoi").num();
    h.num_con_nonzeros = h_.at("nzc").num();
    h.num_obj_nonzeros = h_.at("nzo").num();
    h.num_common_exprs_in_both = h_.at("nce")[0].num();
    h.num_common_exprs_in_cons = h_.at("nce")[1].num();
    h.num_common_exprs_in_objs = h_.at("nce")[2].num();
    h.num_common_exprs_in_single_cons = h_.at("nce")[3].num();
    h.num_common_exprs_in_single_objs = h_.at("nce")[4].num();
    return h;
  }
  bool WantNLComments() const { return cfg_.comments; }
  int OutputPrecision() const { return 0; }
  bool WantBoundsFirst() const { return cfg_.bounds_first; }
  int WantColumnSizes() const { return cfg_.colsizes; }

  const char *Keep(std::string s) { descr_.push_back(std::move(s)); return descr_.back().c_str(); }
  const char *ObjDescription(int i) { return Keep("obj " + std::to_string(i)); }
  const char *ConDescription(int i) { return Keep("con[" + std::to_string(i) + "]"); }
  int ObjType(int i) { return m_.at("objs")[i].at("max").num(); }

  template <class W>
  void PutLin(W &factory, const vj::Value &lin) {
    if (lin.size() == 0) return;
    auto w = factory.MakeVectorWriter(lin.size());
    for (size_t j = 0; j < lin.size(); ++j) w.Write(lin[j][0].num(), At(lin[j][1]));
  }

  // expression trees
  template <class W>
  void PutArgs(W &w, const vj::Value &args) {
    for (size_t j = 0; j < args.size(); ++j) {
      if (j % 2 == 1) w.EPut(&args[j]);        // through Feeder::FeedExpr
      else PutTree(w, args[j]);
    }
  }
  template <class W>
  void PutTree(W &w, const vj::Value &t) {
    const std::string &k = t.at("k").str();
    if (k == "num") w.NPut(At(t.at("a")));
    else if (k == "bool") w.NPut(t.at("v").boolean() ? 1.0 : 0.0);
    else if (k == "var") w.VPut(t.at("i").num(), t.at("i").num() < nv() ? "x" : "defvar");
    else if (k == "str") w.StrPut(t.at("s").str().c_str());
    else if (k == "call") {
      const vj::Value &args = t.at("args");
      auto a = w.FuncPut(t.at("f").num(), (int)args.size(), "call");
      PutArgs(a, args);
    } else if (k == "pl") {
      const vj::Value &s = t.at("s"), &b = t.at("b");
      auto a = w.OPutN(mp::nl::PLTERM, 2 * (int)s.size());
      for (size_t j = 0; j < b.size(); ++j) { a.NPut(At(s[j])); a.NPut(At(b[j])); }
      a.NPut(At(s[s.size() - 1]));
      a.VPut(t.at("v").num(), "plvar");
    } else if (k == "op") {
      auto it = OpMap().find(t.at("op").str());
      if (it == OpMap().end()) throw std::runtime_error("feeder: unknown operator " + t.at("op").str());
      const vj::Value &args = t.at("args");
      if (it->second.iterated) { auto a = w.OPutN(it->second.oc, (int)args.size()); PutArgs(a, args); }
      else if (args.size() == 1) { auto a = w.OPut1(it->second.oc); PutArgs(a, args); }
      else if (args.size() == 2) { auto a = w.OPut2(it->second.oc); PutArgs(a, args); }
      else if (args.size() == 3) { auto a = w.OPut3(it->second.oc); PutArgs(a, args); }
      else throw std::runtime_error("feeder: bad arity");
    } else throw std::runtime_error("feeder: unknown node " + k);
  }
  template <class W> void FeedExpr(Expr e, W &w) { PutTree(w, *e); }

  template <class W> void FeedObjGradient(int i, W &gw) { PutLin(gw, m_.at("objs")[i].at("lin")); }
  template <class W> void FeedObjExpression(int i, W &ew) { PutTree(ew, m_.at("objs")[i].at("expr")); }
  template <class W> void FeedDefinedVariables(int k, W &dvw) {
    const vj::Value &dvs = m_.at("dvs");
    for (size_t j = 0; j < dvs.size(); ++j) {
      if (dvs[j].at("grp").num() != k) continue;
      const vj::Value &lin = dvs[j].at("lin");
      auto dv = dvw.StartDefVar(nv() + (int)j, (int)lin.size(), Keep("dv" + std::to_string(j)));
      auto lw = dv.GetLinExprWriter();
      for (size_t q = 0; q < lin.size(); ++q) lw.Write(lin[q][0].num(), At(lin[q][1]));
      auto ew = dv.GetExprWriter();
      PutTree(ew, dvs[j].at("expr"));
    }
  }
  template <class W> void FeedVarBounds(W &vbw) {
    const vj::Value &vars = m_.at("vars");
    for (size_t i = 0; i < vars.size(); ++i) vbw.WriteLbUb(At(vars[i].at("lb")), At(vars[i].at("ub")));
  }
  template <class W> void FeedConBounds(W &cbw) {
    const vj::Value &cons = m_.at("cons");
    for (size_t i = 0; i < cons.size(); ++i) {
      AlgConRange bnd;
      if (cons[i].at("k").num() > 0) { bnd.k = cons[i].at("k").num(); bnd.cvar = cons[i].at("cv").num(); }
      else { bnd.L = At(cons[i].at("lb")); bnd.U = At(cons[i].at("ub")); }
      cbw.WriteAlgConRange(bnd);
    }
  }
  template <class W> void FeedLinearConExpr(int i, W &w) { PutLin(w, m_.at("cons")[i].at("lin")); }
  template <class W> void FeedConExpression(int i, W &ew) {
    int nac = (int)m_.at("cons").size();
    if (i < nac) PutTree(ew, m_.at("cons")[i].at("expr"));
    else PutTree(ew, m_.at("lcons")[i - nac].at("expr"));
  }
  struct FuncDefX {
    const vj::Value *f;
    const char *Name() { return f->at("name").str().c_str(); }
    int NumArgs() { return f->at("nargs").num(); }
    int Type() { return f->at("type").num(); }
  };
  FuncDefX Function(int i) { return FuncDefX{&m_.at("funcs")[i]}; }
  template <class W> void FeedColumnSizes(W &csw) {
    if (!WantColumnSizes()) return;
    const vj::Value &cs = c_.at("colsz");
    for (size_t i = 0; i < cs.size(); ++i) csw.Write(cs[i].num());
  }
  template <class W> void FeedInitialGuesses(W &w) { PutLin(w, m_.at("x0")); }
  template <class W> void FeedInitialDualGuesses(W &w) { PutLin(w, m_.at("d0")); }
  template <class W> void FeedSuffixes(W &swf) {
    const vj::Value &sufs = m_.at("sufs");
    for (size_t i = 0; i < sufs.size(); ++i) {
      const vj::Value &s = sufs[i], &vals = s.at("vals");
      if (s.at("real").boolean()) {
        auto sw = swf.StartDblSuffix(s.at("name").str().c_str(), s.at("kind").num() | 4, (int)vals.size());
        for (size_t j = 0; j < vals.size(); ++j) sw.Write(vals[j][0].num(), At(vals[j][1]));
      } else {
        auto sw = swf.StartIntSuffix(s.at("name").str().c_str(), s.at("kind").num(), (int)vals.size());
        for (size_t j = 0; j < vals.size(); ++j) sw.Write(vals[j][0].num(), vals[j][1].num());
      }
    }
  }
  template <class W> void FeedRowAndObjNames(W &wrt) {
    const vj::Value &n = m_.at("rownames");
    if (n.size() && wrt) for (size_t i = 0; i < n.size(); ++i) wrt << n[i].str().c_str();
  }
  template <class W> void FeedColNames(W &wrt) {
    const vj::Value &n = m_.at("colnames");
    if (n.size() && wrt) for (size_t i = 0; i < n.size(); ++i) wrt << n[i].str().c_str();
  }
};

struct QuietUtils : mp::NLUtils {
  std::string warnings;
  void log_message(const char *, ...) override {}
  void log_warning(const char *format, ...) override { warnings += format; warnings += ';'; }
  void myexit(const std::string &msg) override { throw std::runtime_error("NLUtils::myexit: " + msg); }
};

static std::string NamesJson(const std::string &file, int expect) {
  std::string out = "[";
  try {
    mp::NameProvider np(file, "_gen", expect);
    size_t n = np.number_read();
    for (size_t i = 0; i < n; ++i) {
      fmt::StringRef s = np.name(i);
      if (i) out += ',';
      out += vj::esc(s.data(), s.size());
    }
  } catch (const std::exception &e) {
    return std::string("[\"<error: ") + vj::esc(e.what()).substr(1);   // a string that cannot be a name
  }
  return out + "]";
}

static long long CountLines(const std::string &path, long long *size) {
  std::ifstream f(path, std::ios::binary);
  long long n = 0, sz = 0;
  char c;
  while (f.get(c)) { ++sz; if (c == '\n') ++n; }
  *size = sz;
  return n;
}

static void RunCase(const vj::Value &c, FILE *out, const std::string &work, const char *keepdir) {
  const vj::Value &cfgs = c.at("cfgs");
  std::string stub = work + "/m";
  int nv = c.at("hdr").at("nv").num();
  int nrows = c.at("hdr").at("nac").num() + c.at("hdr").at("nlc").num() + c.at("hdr").at("no").num();
  for (size_t q = 0; q < cfgs.size(); ++q) {
    for (int binary = 0; binary < 2; ++binary) {
      Cfg cfg{binary != 0, cfgs[q][0].num() != 0, cfgs[q][1].num() != 0, cfgs[q][2].num(), cfgs[q][3].num()};
      char ctx[200];
      snprintf(ctx, sizeof ctx, "case %d cfg %d %s", c.at("id").num(), (int)q, binary ? "binary" : "text");
      nlc::Ctx(ctx);
      std::string line = "{\"e\":\"Exec\",\"case\":" + std::to_string(c.at("id").num()) + ",\"q\":" + std::to_string(q) +
          ",\"fmt\":" + std::to_string(binary) + ",\"comments\":" + (cfg.comments ? "true" : "false") +
          ",\"bf\":" + (cfg.bounds_first ? "true" : "false") + ",\"cs\":" + std::to_string(cfg.colsizes) +
          ",\"rf\":" + std::to_string(cfg.read_flags);
      int wr = -1;
      std::string wrmsg;
      QuietUtils utils;
      try {
        Feeder feeder(c, cfg);
        auto res = mp::WriteNLFile(stub, feeder, utils);
        wr = (int)res.first;
        wrmsg = res.second;
      } catch (const std::exception &e) {
        wr = -2;
        wrmsg = e.what();
      }
      line += ",\"wr\":" + std::to_string(wr) + ",\"wrmsg\":" + vj::esc(wrmsg + utils.warnings);
      vrec::Recorder rec(AtomNum, nullptr);
      if (wr == (int)NLW2_WriteNL_OK) {
        std::string nl = stub + ".nl";
        if (keepdir) {
          char nm[300];
          snprintf(nm, sizeof nm, "%s/%d_%d_%c.nl", keepdir, c.at("id").num(), (int)q, binary ? 'b' : 't');
          std::ifstream src(nl, std::ios::binary);
          std::ofstream dst(nm, std::ios::binary);
          dst << src.rdbuf();
        }
        long long size = 0, lines = CountLines(nl, &size);
        try {
          mp::ReadNLFile(nl, rec, cfg.read_flags);
        } catch (...) {
          vrec::RecordThrow(rec, lines, size);
        }
        line += ",\"col\":" + NamesJson(stub + ".col", nv) + ",\"row\":" + NamesJson(stub + ".row", nrows);
      } else {
        line += ",\"col\":[],\"row\":[]";
      }
      line += ",\"evs\":[" + rec.evs + "]}\n";
      fputs(line.c_str(), out);
      fflush(out);
    }
  }
}

int main(int argc, char **argv) {
  if (argc >= 4 && !strcmp(argv[1], "atoms")) {
    g_atoms.Build((unsigned)atoi(argv[2]), atoi(argv[3]));
    printf("{\"nfixed\":%d,\"atoms\":[", g_atoms.nfixed);
    for (size_t i = 0; i < g_atoms.v.size(); ++i)
      printf("%s\"%016llx\"", i ? "," : "", (unsigned long long)Bits(g_atoms.v[i]));
    printf("]}\n");
    return 0;
  }
  if (argc < 7 || strcmp(argv[1], "run")) {
    fprintf(stderr, "usage: h_nlrt atoms SEED N | run CASES OUT WORKDIR SEED N [KEEPDIR]\n");
    return 2;
  }
  const char *cases = argv[2], *outp = argv[3];
  std::string work = argv[4];
  g_atoms.Build((unsigned)atoi(argv[5]), atoi(argv[6]));
  const char *keepdir = argc > 7 ? argv[7] : nullptr;
  FILE *out = fopen(outp, "w");
  if (!out) { perror(outp); return 2; }
  std::ifstream in(cases);
  std::string text;
  std::string errfile = work + "/stderr.txt";
  nlc::OpenCtx(work + "/ctx.txt");
  while (std::getline(in, text)) {
    if (text.empty()) continue;
    fflush(out);
    int id = -1;
    size_t p = text.find("\"id\":");
    if (p != std::string::npos) id = atoi(text.c_str() + p + 5);
    nlc::Ctx(("case " + std::to_string(id)).c_str());
    pid_t pid = fork();
    if (pid < 0) { perror("fork"); return 2; }
    if (pid == 0) {
      if (!freopen(errfile.c_str(), "w", stderr)) _exit(96);
      alarm(120);
      int rc = 0;
      try {
        vj::P c = vj::parse(text);
        RunCase(*c, out, work, keepdir);
      } catch (const std::exception &e) {
        fprintf(stderr, "harness exception: %s\n", e.what());
        rc = 95;
      }
      fflush(out);
      _exit(rc);
    }
    int st = 0;
    waitpid(pid, &st, 0);
    fseek(out, 0, SEEK_END);
    nlc::Report(out, st, errfile, "\"case\":" + std::to_string(id) + ",");
  }
  fclose(out);
  return 0;
}
