#include "mp/backend-app.h"
#include "../vtrace.h"
std::unique_ptr<mp::BasicBackend> CreateScriptedBackend();
int main(int, char **argv) {
  return mp::RunBackendApp(argv, CreateScriptedBackend);
}
