#include <csignal>
#include <fstream>
#include "scripted_backend.h"
#include <fstream>
#include "mp/env.h"
#include "mp/flat/model_api_base.h"

namespace {
verif::RecModel *g_model = nullptr;
volatile sig_atomic_t g_cb = 0, g_cb_bad = 0;
// the backend's interrupt callback, registered with the model object as data
bool InterruptScripted(void *p) {
  if (p && p == g_model) ++g_cb; else ++g_cb_bad;
  return true;
}
}  // namespace

std::unique_ptr<mp::BasicBackend> CreateScriptedBackend() {
  return std::unique_ptr<mp::BasicBackend>{new mp::ScriptedBackend()};
}

namespace mp {

std::unique_ptr<BasicModelManager> CreateScriptedModelMgr(RecCommon &, Env &, pre::BasicValuePresolver *&);

void Script::Load() {
  const char *p = getenv("VERIF_ANSWER");
  if (!p || !*p) return;
  std::ifstream in(p);
  if (!in) return;
  have = true;
  std::string line;
  while (std::getline(in, line)) {
    std::istringstream ss(line);
    std::string key; ss >> key;
    auto dbls = [&](std::vector<double> &v) { std::string t; while (ss >> t) v.push_back(t == "inf" ? INFINITY : t == "-inf" ? -INFINITY : t == "nan" ? NAN : atof(t.c_str())); };
    auto ints = [&](std::vector<int> &v) { int t; while (ss >> t) v.push_back(t); };
    if (key == "status") { ss >> status; std::getline(ss, status_msg); if (status_msg.size() && status_msg[0] == ' ') status_msg.erase(0, 1); }
    else if (key == "primal") { has_primal = true; std::string t; auto pos = ss.tellg(); ss >> t; if (t == "auto") primal_auto = true; else { ss.clear(); ss.seekg(pos); dbls(primal); } }
    else if (key == "dual") { std::string t; auto pos = ss.tellg(); ss >> t; if (t == "auto") dual_auto = true; else { ss.clear(); ss.seekg(pos); int g; ss >> g; dbls(dual[g]); } }
    else if (key == "objvals") { has_obj = true; dbls(objvals); }
    else if (key == "varstt") { has_basis = true; std::string t; auto pos = ss.tellg(); ss >> t; if (t == "auto") varstt_auto = true; else { ss.clear(); ss.seekg(pos); ints(varstt); } }
    else if (key == "constt") { has_basis = true; int g; ss >> g; ints(constt[g]); }
    else if (key == "variis") { has_iis = true; ints(variis); }
    else if (key == "coniis") { has_iis = true; int g; ss >> g; ints(coniis[g]); }
    else if (key == "interm") ss >> n_interm;
    else if (key == "raise") ss >> raise_at;
    else if (key == "abort") ss >> abort_code;
    else if (key == "warn") ss >> n_warn;
    else if (key == "poll") ss >> poll_stop;
    else if (key == "sig") { std::string nm; ss >> sig_where >> nm >> sig_n; sig_no = nm == "TERM" ? SIGTERM : SIGINT; }
    else if (key == "hist") {        // hist <pre|post> <kind> | vars v.. | cons <g> v.. | cons <g> v..
      Xfer x; ss >> x.dir >> x.kind;
      std::string t; std::vector<double> *cur = nullptr;
      while (ss >> t) {
        if (t == "|") { std::string w; ss >> w; if (w == "vars") cur = &x.vars; else { int g; ss >> g; cur = &x.cons[g]; } }
        else if (cur) cur->push_back(atof(t.c_str()));
      }
      hist.push_back(x);
    }
  }
}

ScriptedBackend::ScriptedBackend() {
  set_lp(&model_);
  script_.Load();
  pre::BasicValuePresolver *pPre;
  auto data = CreateScriptedModelMgr(*this, *this, pPre);
  SetMM(std::move(data));
  SetValuePresolver(pPre);
  copy_common_info_to_other();
}
ScriptedBackend::~ScriptedBackend() {
  // the backend is going: from here on nothing may call into it any more (sig teardown ...: a signal arrives now)
  Ev("BackendDtor");
  RaiseAt("teardown");
  g_model = nullptr;
}

void ScriptedBackend::Ev(const char *name) {
  if (auto f = lp()->rec) { fprintf(f, "{\"e\":\"%s\"}\n", name); fflush(f); }
}
void ScriptedBackend::EvInts(const char *name, ArrayRef<int> v) {
  if (auto f = lp()->rec) { fprintf(f, "{\"e\":\"%s\",\"v\":%s}\n", name, verif::jints(v).c_str()); fflush(f); }
}
void ScriptedBackend::EvDbls(const char *name, ArrayRef<double> v) {
  if (auto f = lp()->rec) { fprintf(f, "{\"e\":\"%s\",\"v\":%s}\n", name, verif::jdbls(v).c_str()); fflush(f); }
}
template <class MV> void ScriptedBackend::EvMap(const char *name, const MV &mv) {
  auto f = lp()->rec; if (!f) return;
  std::string s = "{";
  bool first = true;
  for (const auto &kv : mv.GetConValues().GetMap()) {
    if (!first) s += ","; first = false;
    s += "\"" + std::to_string(kv.first) + "\":" + verif::jdbls(kv.second);
  }
  fprintf(f, "{\"e\":\"%s\",\"vars\":%s,\"cons\":%s}}\n", name, verif::jdbls(mv.GetVarValues()()).c_str(), s.c_str());
  fflush(f);
}

void ScriptedBackend::InitCustomOptions() {
  Ev("InitCustomOptions");
  set_option_header("SCRIPTED Options for AMPL\n--------------------------\n");
  AddStoredOption("tech:idummy idummy", "Integer dummy option.", opts_.dummy_);
  AddStoredOption("tech:sdummy sdummy", "String dummy option.", opts_.sdummy_);
  AddStoredOption("tech:ddummy ddummy", "Double dummy option.", opts_.ddummy_);
  AddSolveResults({{sol::FAILURE + 1, "fatal error 1"},
                   {sol::LIMIT_FEAS_NEW + 1, "AI iteration limit, feasible solution"},
                   // codes that are the FIRST code of their class (they belong under that class in the -! table)
                   {sol::INFEASIBLE, "scripted: infeasible, plain"},
                   {sol::LIMIT_FEAS, "scripted: limit, first code"},
                   {sol::FAILURE, "scripted: failure, first code"},
                   {sol::INFEASIBLE + 99, "scripted: infeasible, last code"}});
}

void ScriptedBackend::SetInterrupter(mp::Interrupter *inter) {
  Ev("SetInterrupter");
  inter_ = inter;
  g_model = lp();
  inter->SetHandler(InterruptScripted, lp());
}

void ScriptedBackend::DoWriteProblem(const std::string &name) {
  if (auto f = lp()->rec) { fprintf(f, "{\"e\":\"WriteProblem\",\"file\":%s}\n", verif::jstr(name.c_str()).c_str()); fflush(f); }
  std::ofstream out(name);
  out << "scripted model export\n";
  if (!out) MP_RAISE("cannot write " + name);
}

// sig <where> <INT|TERM> <n>: n signals arrive at this place, one after the other; after each one record how many
// times the registered callback ran (with the registered data / with something else) and what Stop() says
void ScriptedBackend::RaiseAt(const char *where) {
  if (script_.sig_where != where) return;
  for (int i = 0; i < script_.sig_n; ++i) {
    int cb0 = g_cb, bad0 = g_cb_bad;
    if (auto f = lp()->rec) { fprintf(f, "{\"e\":\"Raise\",\"at\":\"%s\",\"sig\":\"%s\"}\n", where, script_.sig_no == SIGTERM ? "TERM" : "INT"); fflush(f); }
    fflush(stdout);
    raise(script_.sig_no);
    if (auto f = lp()->rec) {
      fprintf(f, "{\"e\":\"Raised\",\"cb\":%d,\"bad\":%d,\"stop\":%d}\n", (int)(g_cb - cb0), (int)(g_cb_bad - bad0), (int)interrupter()->Stop());
      fflush(f);
    }
  }
}

void ScriptedBackend::Solve() {
  Ev("Solve");
  RaiseAt("solve");
  for (int i = 0; i < script_.poll_stop; ++i)
    if (auto f = lp()->rec) { fprintf(f, "{\"e\":\"Poll\",\"stop\":%d}\n", (int)interrupter()->Stop()); fflush(f); }
  if (script_.raise_at == 1) MP_RAISE("scripted failure in Solve");
  if (script_.abort_code >= 0) Abort(script_.abort_code, "scripted abort " + std::to_string(script_.abort_code));
}

ArrayRef<double> ScriptedBackend::PrimalSolution() {
  if (!script_.has_primal) return std::vector<double>{};
  if (script_.primal_auto) {
    std::vector<double> x(lp()->nvars);
    for (size_t i = 0; i < x.size(); ++i) x[i] = i + 1;
    return x;
  }
  return script_.primal;
}

pre::ValueMapDbl ScriptedBackend::DualSolution() {
  std::map<int, std::vector<double>> m;
  if (script_.dual_auto) {
    for (auto &kv : lp()->ncons_by_group) {
      std::vector<double> y(kv.second);
      for (size_t i = 0; i < y.size(); ++i) y[i] = 1000 * kv.first + i + 1;
      m[kv.first] = y;
    }
  } else
    m = script_.dual;
  if (m.empty()) return {};
  return pre::ValueMapDbl{m};
}

static std::string MapJSON(const pre::ValueMapInt &vm) {
  std::string s = "{"; bool first = true;
  for (const auto &kv : vm.GetMap()) { if (!first) s += ","; first = false; s += "\"" + std::to_string(kv.first) + "\":" + verif::jints(kv.second); }
  return s + "}";
}
static std::string MapJSON(const pre::ValueMapDbl &vm) {
  std::string s = "{"; bool first = true;
  for (const auto &kv : vm.GetMap()) { if (!first) s += ","; first = false; s += "\"" + std::to_string(kv.first) + "\":" + verif::jdbls(kv.second); }
  return s + "}";
}

void ScriptedBackend::MarkLazyOrUserCuts(ArrayRef<int> a) {
  // documented: presolve the values if needed
  auto mv = GetValuePresolver().PresolveLazyUserCutFlags({{}, a});
  if (auto f = lp()->rec) { fprintf(f, "{\"e\":\"LazyUserCuts\",\"in\":%s,\"cons\":%s}\n", verif::jints(a).c_str(), MapJSON(mv.GetConValues()).c_str()); fflush(f); }
}

SolutionBasis ScriptedBackend::GetBasis() {
  if (!script_.has_basis) return {};
  std::vector<int> varstt = script_.varstt;
  if (script_.varstt_auto) { varstt.assign(lp()->nvars, 0); for (size_t i = 0; i < varstt.size(); ++i) varstt[i] = 1 + (int)(i % 6); }
  std::map<int, std::vector<int>> cm = script_.constt;
  auto mv = GetValuePresolver().PostsolveBasis({std::move(varstt), pre::ValueMapInt{cm}});
  auto vs = mv.GetVarValues()();
  auto cs = mv.GetConValues()();
  if (auto f = lp()->rec) { fprintf(f, "{\"e\":\"GetBasis\",\"vars\":%s,\"cons\":%s}\n", verif::jints(vs).c_str(), verif::jints(cs).c_str()); fflush(f); }
  return {std::move(vs), std::move(cs)};
}

void ScriptedBackend::SetBasis(SolutionBasis basis) {
  auto mv = GetValuePresolver().PresolveBasis({basis.varstt, basis.constt});
  if (auto f = lp()->rec) {
    fprintf(f, "{\"e\":\"SetBasis\",\"in_vars\":%s,\"in_cons\":%s,\"vars\":%s,\"cons\":%s}\n", verif::jints(basis.varstt).c_str(),
            verif::jints(basis.constt).c_str(), verif::jints(mv.GetVarValues()()).c_str(), MapJSON(mv.GetConValues()).c_str());
    fflush(f);
  }
}

void ScriptedBackend::AddPrimalDualStart(Solution sol0_unpres) {
  auto mv = GetValuePresolver().PresolveSolution({sol0_unpres.primal, sol0_unpres.dual});
  if (auto f = lp()->rec) {
    fprintf(f, "{\"e\":\"PrimalDualStart\",\"in_x\":%s,\"in_y\":%s,\"x\":%s,\"y\":%s}\n", verif::jdbls(sol0_unpres.primal).c_str(),
            verif::jdbls(sol0_unpres.dual).c_str(), verif::jdbls(mv.GetVarValues()()).c_str(), MapJSON(mv.GetConValues()).c_str());
    fflush(f);
  }
}

void ScriptedBackend::AddMIPStart(ArrayRef<double> x0_unpres, ArrayRef<int> sparsity_unpres) {
  auto mv = GetValuePresolver().PresolveSolution({x0_unpres});
  auto ms = GetValuePresolver().PresolveGenericInt({sparsity_unpres});
  if (auto f = lp()->rec) {
    fprintf(f, "{\"e\":\"MIPStart\",\"in_x\":%s,\"in_sp\":%s,\"x\":%s,\"sp\":%s}\n", verif::jdbls(x0_unpres).c_str(),
            verif::jints(sparsity_unpres).c_str(), verif::jdbls(mv.GetVarValues()()).c_str(), verif::jints(ms.GetVarValues()()).c_str());
    fflush(f);
  }
}

void ScriptedBackend::VarPriorities(ArrayRef<int> priority) {
  auto mv = GetValuePresolver().PresolveGenericInt({priority});   // as real drivers do
  if (auto f = lp()->rec) {
    fprintf(f, "{\"e\":\"VarPriorities\",\"in\":%s,\"vars\":%s}\n", verif::jints(priority).c_str(), verif::jints(mv.GetVarValues()()).c_str());
    fflush(f);
  }
}

IIS ScriptedBackend::GetIIS() {
  if (!script_.has_iis) return {};
  std::map<int, std::vector<int>> cm = script_.coniis;
  auto mv = GetValuePresolver().PostsolveIIS({script_.variis, pre::ValueMapInt{cm}});
  if (auto f = lp()->rec) { fprintf(f, "{\"e\":\"GetIIS\",\"vars\":%s,\"cons\":%s}\n", verif::jints(mv.GetVarValues()()).c_str(), verif::jints(mv.GetConValues()()).c_str()); fflush(f); }
  return {mv.GetVarValues()(), mv.GetConValues()()};
}

template <class T> static std::vector<T> conv(const std::vector<double> &v) { return std::vector<T>(v.begin(), v.end()); }
template <class T> static std::map<int, std::vector<T>> convm(const std::map<int, std::vector<double>> &m) {
  std::map<int, std::vector<T>> r; for (auto &kv : m) r[kv.first] = conv<T>(kv.second); return r;
}

/// Perform the scripted history of direct pre-/postsolve calls and log every result
void ScriptedBackend::RunHistory() {
  auto f = lp()->rec;
  int n = 0;
  for (const auto &x : script_.hist) {
    ++n;
    bool pre = x.dir == "pre";
    std::string vars, cons;
    auto &vp = GetValuePresolver();
    auto dbl_in = [&]() { return pre ? pre::ModelValuesDbl{x.vars, x.cons.count(0) ? x.cons.at(0) : std::vector<double>{}}
                                     : pre::ModelValuesDbl{x.vars, pre::ValueMapDbl{x.cons}}; };
    auto int_in = [&]() { return pre ? pre::ModelValuesInt{conv<int>(x.vars), x.cons.count(0) ? conv<int>(x.cons.at(0)) : std::vector<int>{}}
                                     : pre::ModelValuesInt{conv<int>(x.vars), pre::ValueMapInt{convm<int>(x.cons)}}; };
    auto out_dbl = [&](const pre::ModelValuesDbl &mv) { vars = verif::jdbls(mv.GetVarValues()()); cons = MapJSON(mv.GetConValues()); };
    auto out_int = [&](const pre::ModelValuesInt &mv) { vars = verif::jints(mv.GetVarValues()()); cons = MapJSON(mv.GetConValues()); };
    try {
      if (x.kind == "sol") out_dbl(pre ? vp.PresolveSolution(dbl_in()) : vp.PostsolveSolution(dbl_in()));
      else if (x.kind == "gdbl") out_dbl(pre ? vp.PresolveGenericDbl(dbl_in()) : vp.PostsolveGenericDbl(dbl_in()));
      else if (x.kind == "basis") out_int(pre ? vp.PresolveBasis(int_in()) : vp.PostsolveBasis(int_in()));
      else if (x.kind == "iis") out_int(pre ? vp.PresolveIIS(int_in()) : vp.PostsolveIIS(int_in()));
      else if (x.kind == "lazy") out_int(pre ? vp.PresolveLazyUserCutFlags(int_in()) : vp.PostsolveLazyUserCutFlags(int_in()));
      else if (x.kind == "gint") out_int(pre ? vp.PresolveGenericInt(int_in()) : vp.PostsolveGenericInt(int_in()));
      else continue;
      if (f) fprintf(f, "{\"e\":\"Xfer\",\"i\":%d,\"dir\":\"%s\",\"kind\":\"%s\",\"vars\":%s,\"cons\":%s}\n", n, x.dir.c_str(), x.kind.c_str(), vars.c_str(), cons.c_str());
    } catch (const std::exception &ex) {
      if (f) fprintf(f, "{\"e\":\"Xfer\",\"i\":%d,\"dir\":\"%s\",\"kind\":\"%s\",\"throw\":%s}\n", n, x.dir.c_str(), x.kind.c_str(), verif::jstr(ex.what()).c_str());
    }
    if (f) fflush(f);
  }
}

void ScriptedBackend::ReportResults() {
  Ev("ReportResults");
  RaiseAt("report");
  RunHistory();
  if (script_.raise_at == 2) MP_RAISE("scripted failure in ReportResults");
  SetStatus({script_.status, script_.status_msg});
  if (auto f = lp()->rec) {   // observe the library's own classification of this code
    fprintf(f, "{\"e\":\"Classify\",\"code\":%d,\"solved\":%s,\"sof\":%s,\"inf\":%s,\"unb\":%s,\"indiff\":%s,\"infunb\":%s}\n",
            SolveCode(), IsProblemSolved() ? "true" : "false", IsProblemSolvedOrFeasible() ? "true" : "false",
            IsProblemInfeasible() ? "true" : "false", IsProblemUnbounded() ? "true" : "false",
            IsProblemIndiffInfOrUnb() ? "true" : "false", IsProblemInfOrUnb() ? "true" : "false");
    fflush(f);
  }
  for (int i = 0; i < script_.n_warn; ++i)     // like a real backend noting ignored options, numerical trouble, ...
    AddWarning("ScriptedWarning" + std::to_string(i + 1), "scripted warning " + std::to_string(i + 1) + ",\nsecond line.\n");
  for (int i = 0; i < script_.n_interm; ++i) {
    std::vector<double> x(lp()->nvars, (double)(i + 1));
    auto mv = GetValuePresolver().PostsolveSolution({x, {}, std::vector<double>{(double)(10 + i)}});
    ReportIntermediateSolution({mv.GetVarValues()(), mv.GetConValues()(), mv.GetObjValues()()});
  }
  BaseBackend::ReportResults();
}

}  // namespace mp
