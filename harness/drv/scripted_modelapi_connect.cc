#include "mp/flat/redef/MIP/converter_mip.h"
#include "mp/flat/model_api_connect.h"
#include "rec_modelapi.h"
namespace mp {
std::unique_ptr<BasicModelManager> CreateScriptedModelMgr(RecCommon &cc, Env &e, pre::BasicValuePresolver *&pPre) {
  return CreateModelMgrWithFlatConverter<RecModelAPI, MIPFlatConverter>(cc, e, pPre);
}
}  // namespace mp
