#ifndef VERIF_SCRIPTED_BACKEND_H
#define VERIF_SCRIPTED_BACKEND_H
#include <map>
#include <sstream>
#include <string>
#include <vector>
#include "mp/backend-mip.h"
#include "mp/flat/backend_flat.h"
#include "rec_common.h"

namespace mp {

/// The scripted "solver answer", read from the file named by VERIF_ANSWER.
/// Line-based: <key> [group] values...   ("auto" = index-coded values of the right length)
struct Script {
  bool have = false;
  int status = -1; std::string status_msg = "not solved";
  bool has_primal = false, primal_auto = false; std::vector<double> primal;
  std::map<int, std::vector<double>> dual; bool dual_auto = false;
  bool has_obj = false; std::vector<double> objvals;
  bool varstt_auto = false, has_basis = false; std::vector<int> varstt; std::map<int, std::vector<int>> constt;
  bool has_iis = false; std::vector<int> variis; std::map<int, std::vector<int>> coniis;
  int n_interm = 0;          // intermediate solutions to report (MULTISOL)
  int raise_at = 0;          // 1: throw in Solve, 2: throw in ReportResults
  int n_warn = 0;            // ReportResults adds this many different warnings (AddWarning)
  int abort_code = -1;       // >= 0: Solve() ends with StdBackend::Abort(code, ...) (a result delivered by exception)
  int poll_stop = 0;         // poll interrupter this many times in Solve
  std::string sig_where; int sig_no = 0, sig_n = 0;   // sig <options|solve|report> <INT|TERM> <n>: raise the signal n times there
  /// a history of direct value transfers to perform on the converted model (C04):
  /// each = direction, kind, variable values, constraint values per group
  struct Xfer { std::string dir, kind; std::vector<double> vars; std::map<int, std::vector<double>> cons; };
  std::vector<Xfer> hist;
  void Load();
};

class ScriptedBackend : public FlatBackend<MIPBackend<ScriptedBackend>>, public RecCommon {
  using BaseBackend = FlatBackend<MIPBackend<ScriptedBackend>>;

public:
  ScriptedBackend();
  ~ScriptedBackend();
  static const char *GetAMPLSolverName() { return "scripted"; }
  static const char *GetAMPLSolverLongName() { return "AMPL-SCRIPTED"; }
  static const char *GetSolverName() { return "x-SCRIPTED"; }
  std::string GetSolverVersion() { return "0.0.1"; }
  std::string set_external_libs() override { return ""; }
  static const char *GetBackendName() { return "ScriptedBackend"; }
  static const char *GetBackendLongName() { return nullptr; }

  void InitCustomOptions() override;
  void InitOptionParsing() override { Ev("InitOptionParsing"); }
  void FinishOptionParsing() override { Ev("FinishOptionParsing"); RaiseAt("options"); }

  USING_STD_FEATURES;
  ALLOW_STD_FEATURE(MULTIOBJ, true)
  void ObjPriorities(ArrayRef<int> p) override { EvInts("ObjPriorities", p); }
  void ObjWeights(ArrayRef<double> w) override { EvDbls("ObjWeights", w); }
  void ObjAbsTol(ArrayRef<double> w) override { EvDbls("ObjAbsTol", w); }
  void ObjRelTol(ArrayRef<double> w) override { EvDbls("ObjRelTol", w); }
  ALLOW_STD_FEATURE(MULTISOL, true)
  ALLOW_STD_FEATURE(LAZY_USER_CUTS, true)
  void MarkLazyOrUserCuts(ArrayRef<int> a) override;
  ALLOW_STD_FEATURE(BASIS, true)
  SolutionBasis GetBasis() override;
  void SetBasis(SolutionBasis) override;
  ALLOW_STD_FEATURE(WARMSTART, true)
  void AddPrimalDualStart(Solution) override;
  ALLOW_STD_FEATURE(MIPSTART, true)
  void AddMIPStart(ArrayRef<double> x0, ArrayRef<int> sparsity) override;
  ALLOW_STD_FEATURE(VAR_PRIORITIES, true)
  void VarPriorities(ArrayRef<int> p) override;
  ALLOW_STD_FEATURE(RAYS, true)
  ArrayRef<double> Ray() override { Ev("Ray"); return std::vector<double>(lp()->nvars, 1.0); }
  ArrayRef<double> DRay() override { Ev("DRay"); return std::vector<double>{}; }
  ALLOW_STD_FEATURE(WRITE_PROBLEM, true)
  void DoWriteProblem(const std::string &name) override;
  ALLOW_STD_FEATURE(IIS, true)
  void ComputeIIS() override { Ev("ComputeIIS"); }
  IIS GetIIS() override;

  bool IsMIP() const override { return lp()->nvars_int > 0; }
  bool IsQCP() const override { return lp()->nquadcons > 0; }

  void SetInterrupter(mp::Interrupter *inter) override;
  void Solve() override;
  ArrayRef<double> GetObjectiveValues() override { return script_.has_obj ? script_.objvals : std::vector<double>{}; }

protected:
  ArrayRef<double> PrimalSolution() override;
  pre::ValueMapDbl DualSolution() override;
  void ReportResults() override;
  void RunHistory();
  void RaiseAt(const char *where);

  void Ev(const char *name);
  void EvInts(const char *name, ArrayRef<int> v);
  void EvDbls(const char *name, ArrayRef<double> v);
  template <class MV> void EvMap(const char *name, const MV &mv);

private:
  verif::RecModel model_;
  Script script_;
  mp::Interrupter *inter_ = nullptr;
  struct Options { int dummy_ = 0; std::string sdummy_; double ddummy_ = 0; } opts_;
};

}  // namespace mp
#endif
