#include "mp/model-mgr-with-std-pb.hpp"
