#ifndef VERIF_REC_MODELAPI_H
#define VERIF_REC_MODELAPI_H
#include <type_traits>
#include "mp/env.h"
#include "mp/flat/constr_std.h"
#include "mp/flat/model_api_base.h"
#include "rec_common.h"

namespace mp {

// ---- serialisers over the constraints' public accessors (independent of the
// library's own WriteJSON, which is part of what C20 checks)
namespace vser {
using verif::jnum; using verif::jdbls; using verif::jints; using verif::jstr;

inline std::string ser(const LinTerms &lt) {
  std::string r = "[";
  for (size_t i = 0; i < lt.size(); ++i) {
    if (i) r += ",";
    r += "[" + jnum(lt.coef(i)) + "," + std::to_string(lt.var(i)) + "]";
  }
  return r + "]";
}
inline std::string ser(const QuadTerms &qt) {
  std::string r = "[";
  for (int i = 0; i < qt.size(); ++i) {
    if (i) r += ",";
    r += "[" + jnum(qt.coef(i)) + "," + std::to_string(qt.var1(i)) + "," + std::to_string(qt.var2(i)) + "]";
  }
  return r + "]";
}
inline std::string body(const LinTerms &lt) { return "\"lin\":" + ser(lt) + ",\"quad\":[]"; }
inline std::string body(const QuadAndLinTerms &q) {
  return "\"lin\":" + ser(q.GetLinTerms()) + ",\"quad\":" + ser(q.GetQPTerms());
}
template <class Body> std::string expr(const AlgebraicExpression<Body> &e) {
  return "{" + body(e.GetBody()) + ",\"c\":" + jnum(e.constant_term()) + "}";
}

template <class Body, class RR>
std::string ser(const AlgebraicConstraint<Body, RR> &c) {
  return std::string("{\"k\":\"alg\",") + body(c.GetBody()) + ",\"cmp\":" + std::to_string(c.kind()) +
         ",\"lb\":" + jnum(c.lb()) + ",\"ub\":" + jnum(c.ub()) + "}";
}
template <class Con> std::string ser(const IndicatorConstraint<Con> &c) {
  return std::string("{\"k\":\"ind\",\"b\":") + std::to_string(c.get_binary_var()) + ",\"bv\":" +
         std::to_string(c.get_binary_value()) + ",\"con\":" + ser(c.get_constraint()) + "}";
}
template <int t> std::string ser(const SOS_1or2_Constraint<t> &c) {
  auto rng = c.get_sum_of_vars_range();
  return std::string("{\"k\":\"sos\",\"t\":") + std::to_string(t) + ",\"vars\":" + jints(c.get_vars()) +
         ",\"w\":" + jdbls(c.get_weights()) + ",\"rlb\":" + jnum(rng.lb_) + ",\"rub\":" + jnum(rng.ub_) + "}";
}
template <class E> std::string ser(const ComplementarityConstraint<E> &c) {
  return std::string("{\"k\":\"compl\",\"expr\":") + expr(c.GetExpression()) + ",\"var\":" +
         std::to_string(c.GetVariable()) + "}";
}
inline std::string ser(const LinearFunctionalConstraint &c) {
  return std::string("{\"k\":\"linfunc\",\"res\":") + std::to_string(c.GetResultVar()) + ",\"expr\":" +
         expr(c.GetAffineExpr()) + "}";
}
inline std::string ser(const QuadraticFunctionalConstraint &c) {
  return std::string("{\"k\":\"quadfunc\",\"res\":") + std::to_string(c.GetResultVar()) + ",\"expr\":" +
         expr(c.GetQuadExpr()) + "}";
}
// parameters
template <class N, size_t S> std::string prm(const std::array<N, S> &p) { return jdbls(p); }
inline std::string prm(const std::vector<double> &p) { return jdbls(p); }
inline std::string prm(const PLConParams &p) {
  const auto &pp = p.GetPLPoints();
  return "{\"x\":" + jdbls(pp.x_) + ",\"y\":" + jdbls(pp.y_) + ",\"pre\":" + jnum(pp.PreSlope()) +
         ",\"post\":" + jnum(pp.PostSlope()) + "}";
}
template <class Con> std::string ser(const ConditionalConstraint<Con> &c) {
  return std::string("{\"k\":\"cond\",\"res\":") + std::to_string(c.GetResultVar()) + ",\"ctx\":" +
         std::to_string((int)c.GetContext().GetValue()) + ",\"con\":" + ser(c.GetConstraint()) + "}";
}
template <class A, class P, class N, class I>
std::string ser(const CustomFunctionalConstraint<A, P, N, I> &c) {
  return std::string("{\"k\":\"func\",\"res\":") + std::to_string(c.GetResultVar()) + ",\"ctx\":" +
         std::to_string((int)c.GetContext().GetValue()) + ",\"args\":" + jints(c.GetArguments()) +
         ",\"params\":" + prm(c.GetParameters()) + "}";
}
}  // namespace vser

template <class T> struct verif_is_alg : std::false_type {};
template <class B, class R> struct verif_is_alg<AlgebraicConstraint<B, R>> : std::true_type {
  static constexpr bool quad = !std::is_same<B, LinTerms>::value;
};

class RecModelAPI : public RecCommon, public EnvKeeper, public BasicFlatModelAPI {
  using BaseModelAPI = BasicFlatModelAPI;
  std::map<std::string, int> type_count_, type_announced_;
  const FlatModelInfo *fmi_ = nullptr;

public:
  RecModelAPI(Env &e) : EnvKeeper(e) {}
  static const char *GetTypeName() { return "RecModelAPI"; }
  void InitCustomOptions() {}

  void InitProblemModificationPhase(const FlatModelInfo *fmi) {
    fmi_ = fmi;
    if (auto f = lp()->rec) fprintf(f, "{\"e\":\"InitProblemModificationPhase\"}\n");
  }
  void FinishProblemModificationPhase() {
    if (auto f = lp()->rec) {
      // what the converter announced (FlatModelInfo) next to what it delivered: per constraint group and per type
      if (fmi_) {
        std::string g = "{", t = "{";
        for (int k = 0; k < 12; ++k) {
          int an = fmi_->GetNumberOfConstraintsOfGroup(k);
          auto it = lp()->ncons_by_group.find(k);
          int de = it == lp()->ncons_by_group.end() ? 0 : it->second;
          if (an || de) g += std::string(g.size() > 1 ? "," : "") + "\"" + std::to_string(k) + "\":[" + std::to_string(an) + "," + std::to_string(de) + "]";
        }
        for (auto &kv : type_announced_)
          t += std::string(t.size() > 1 ? "," : "") + verif::jstr(kv.first.c_str()) + ":[" + std::to_string(kv.second) + "," + std::to_string(type_count_[kv.first]) + "]";
        fprintf(f, "{\"e\":\"ModelInfo\",\"groups\":%s},\"types\":%s}}\n", g.c_str(), t.c_str());
      }
      fprintf(f, "{\"e\":\"FinishProblemModificationPhase\"}\n"); fflush(f);
    }
  }

  void AddVariables(const VarArrayDef &v) {
    auto m = lp();
    m->nvars = v.size();
    m->nvars_int = 0;
    for (int i = 0; i < v.size(); ++i) if (v.ptype()[i] == var::INTEGER) ++m->nvars_int;
    if (auto f = m->rec) {
      std::string lb = "[", ub = "[", ty = "[", nm = "[";
      for (int i = 0; i < v.size(); ++i) {
        const char *sep = i ? "," : "";
        lb += sep + verif::jnum(v.plb()[i]); ub += sep + verif::jnum(v.pub()[i]);
        ty += sep + std::to_string((int)(v.ptype()[i] == var::INTEGER));
        if (v.pnames()) nm += sep + verif::jstr(v.pnames()[i]);
      }
      fprintf(f, "{\"e\":\"Vars\",\"n\":%d,\"lb\":%s],\"ub\":%s],\"ty\":%s],\"names\":%s}\n", v.size(), lb.c_str(),
              ub.c_str(), ty.c_str(), v.pnames() ? (nm + "]").c_str() : "null");
    }
  }
  void SetLinearObjective(int iobj, const LinearObjective &lo) {
    lp()->nobjs = std::max(lp()->nobjs, iobj + 1);
    if (auto f = lp()->rec)
      fprintf(f, "{\"e\":\"Obj\",\"i\":%d,\"max\":%d,\"lin\":%s,\"quad\":[],\"name\":%s}\n", iobj,
              (int)(lo.obj_sense() == obj::MAX), vser::ser(lo.GetLinTerms()).c_str(), verif::jstr(lo.name()).c_str());
  }
  static int AcceptsQuadObj() {
    const char *p = getenv("VERIF_QUADOBJ");
    return p ? atoi(p) : 2;
  }
  void SetQuadraticObjective(int iobj, const QuadraticObjective &qo) {
    lp()->nobjs = std::max(lp()->nobjs, iobj + 1);
    if (auto f = lp()->rec)
      fprintf(f, "{\"e\":\"Obj\",\"i\":%d,\"max\":%d,\"lin\":%s,\"quad\":%s,\"name\":%s}\n", iobj,
              (int)(qo.obj_sense() == obj::MAX), vser::ser(qo.GetLinTerms()).c_str(),
              vser::ser(qo.GetQPTerms()).c_str(), verif::jstr(qo.name()).c_str());
  }

  USE_BASE_CONSTRAINT_HANDLERS(BaseModelAPI)

  /// every constraint type is natively accepted; the *set* is then chosen at
  /// run time through the library's own acc:* options
  template <class Con>
  static ConstraintAcceptanceLevel AcceptanceLevel(const Con *) {
    // UnaryEncodingConstraint is the converter's internal bookkeeping item; no solver API takes it
    if constexpr (std::is_same<Con, UnaryEncodingConstraint>::value) return NotAccepted;
    else return Recommended;
  }

  template <class Con> static constexpr int GroupNumber(const Con *) {
    if constexpr (verif_is_alg<Con>::value)
      return verif_is_alg<Con>::quad ? CG_Quadratic : CG_Linear;
    else if constexpr (std::is_same<Con, SOS1Constraint>::value || std::is_same<Con, SOS2Constraint>::value)
      return CG_SOS;
    else if constexpr (std::is_same<Con, QuadraticConeConstraint>::value ||
                       std::is_same<Con, RotatedQuadraticConeConstraint>::value ||
                       std::is_same<Con, ExponentialConeConstraint>::value ||
                       std::is_same<Con, PowerConeConstraint>::value ||
                       std::is_same<Con, GeometricConeConstraint>::value)
      return CG_Conic;
    else
      return CG_General;
  }

  template <class Con> void AddConstraint(const Con &c) {
    auto m = lp();
    int g = GroupNumber((const Con *)nullptr);
    int idx_in_group = m->ncons_by_group[g]++;
    ++m->ncons_total;
    if (g == CG_Quadratic) ++m->nquadcons;
    std::string tn = Con::GetTypeName();
    int k = type_count_[tn]++;
    if (fmi_) type_announced_[tn] = fmi_->GetNumberOfConstraints(typeid(Con));
    if (auto f = m->rec)
      fprintf(f, "{\"e\":\"Con\",\"type\":%s,\"grp\":%d,\"gi\":%d,\"ti\":%d,\"name\":%s,\"d\":%s}\n",
              verif::jstr(tn.c_str()).c_str(), g, idx_in_group, k, verif::jstr(c.name()).c_str(),
              vser::ser(c).c_str());
  }

  static constexpr bool AcceptsNonconvexQC() { return true; }
  static bool CanMixConicQCAndQC() { const char *p = getenv("VERIF_MIXCONIC"); return p ? atoi(p) : true; }
  static constexpr bool CanSOCPCornerCasesFromQC() { return false; }
};

}  // namespace mp
#endif
