// Scripted driver ("h_drv"): a real mp driver (BackendApp + FlatBackend<MIPBackend>
// + MIPFlatConverter) whose "solver" is a recording ModelAPI and whose answers
// come from a script file.  Observes, decides nothing.
#ifndef VERIF_REC_COMMON_H
#define VERIF_REC_COMMON_H
#include <cmath>
#include <cstdio>
#include <cstdlib>
#include <map>
#include <string>
#include <vector>
#include "mp/backend-to-model-api.h"
#include "mp/format.h"

namespace verif {

/// The "solver model": just counts, shared between ModelAPI and Backend.
struct RecModel {
  int nvars = 0, nvars_int = 0, nobjs = 0;
  std::map<int, int> ncons_by_group;     // group -> number delivered
  int ncons_total = 0;
  int nquadcons = 0;
  FILE *rec = nullptr;                   // ndjson log (VERIF_REC)
  RecModel() {
    const char *p = getenv("VERIF_REC");
    if (p && *p) rec = fopen(p, "a");
  }
  ~RecModel() { if (rec) fclose(rec); }
  void flush() { if (rec) fflush(rec); }
};

/// JSON number: exact (%.17g) or a string for non-finite values
inline std::string jnum(double v) {
  if (std::isnan(v)) return "\"nan\"";
  if (std::isinf(v)) return v > 0 ? "\"inf\"" : "\"-inf\"";
  char b[40]; snprintf(b, sizeof b, "%.17g", v); return b;
}
inline std::string jstr(const char *s) {
  if (!s) return "null";
  std::string r = "\"";
  for (; *s; ++s) {
    unsigned char c = (unsigned char)*s;
    if (c == '"' || c == '\\') { r += '\\'; r += (char)c; }
    else if (c < 0x20) { char b[8]; snprintf(b, sizeof b, "\\u%04x", c); r += b; }
    else r += (char)c;
  }
  return r + "\"";
}
template <class V> std::string jdbls(const V &v) {
  std::string r = "["; bool f = true;
  for (auto x : v) { if (!f) r += ","; f = false; r += jnum((double)x); }
  return r + "]";
}
template <class V> std::string jints(const V &v) {
  std::string r = "["; bool f = true;
  for (auto x : v) { if (!f) r += ","; f = false; r += std::to_string((long long)x); }
  return r + "]";
}

}  // namespace verif

namespace mp {
struct RecCommonInfo {
  verif::RecModel *lp() const { return lp_; }
  void set_lp(verif::RecModel *lp) { lp_ = lp; }
private:
  verif::RecModel *lp_ = nullptr;
};
class RecCommon : public Backend2ModelAPIConnector<RecCommonInfo> {
public:
  static constexpr double Infinity() { return INFINITY; }
  static constexpr double MinusInfinity() { return -INFINITY; }
  void GetSolverOption(const char *, int &v) const { v = 0; }
  void SetSolverOption(const char *, int) {}
  void GetSolverOption(const char *, double &v) const { v = 0; }
  void SetSolverOption(const char *, double) {}
  void GetSolverOption(const char *, std::string &v) const { v.clear(); }
  void SetSolverOption(const char *, const std::string &) {}
};
}  // namespace mp
#endif
