// C17 harness: drives the real templates of include/mp/safeint.h and records
// one ndjson line per row of results.  No judgement here: TraceSafeInt.tla decides.
#include <cstdint>
#include <cstdio>
#include <cstdlib>
#include <random>
#include <string>
#include <type_traits>
#include <vector>
#include "mp/safeint.h"
#include "vtrace.h"

using mp::SafeInt;
static FILE *out;
static const long OV = 1000000;

template <typename T> long do_op(int op, T a, T b) {
  try {
    SafeInt<T> x(a), y(b);
    T r = op == 0 ? val(x + y) : op == 1 ? val(x - y) : val(x * y);
    return (long)r;
  } catch (const mp::OverflowError &) { return OV; }
}
static const char *OPS[] = {"add", "sub", "mul"};

// complete rows: a fixed, b over [b0, b0+n)
template <typename T> void rows(int W, const std::vector<long> &as, long blo, long bhi, long chunk) {
  bool s = std::is_signed<T>::value;
  for (int op = 0; op < 3; ++op)
    for (long a : as)
      for (long b0 = blo; b0 <= bhi; b0 += chunk) {
        fprintf(out, "{\"e\":\"Row\",\"W\":%d,\"s\":%s,\"op\":\"%s\",\"a\":%ld,\"b0\":%ld,\"r\":[", W,
                s ? "true" : "false", OPS[op], a, b0);
        for (long b = b0; b < b0 + chunk && b <= bhi; ++b)
          fprintf(out, "%s%ld", b == b0 ? "" : ",", do_op<T>(op, (T)a, (T)b));
        fprintf(out, "]}\n");
      }
}

template <typename T, typename U> void narrow_rows(int W, int SW, long lo, long hi, long chunk) {
  bool s = std::is_signed<T>::value, ss = std::is_signed<U>::value;
  for (long v0 = lo; v0 <= hi; v0 += chunk) {
    fprintf(out, "{\"e\":\"Narrow\",\"W\":%d,\"s\":%s,\"SW\":%d,\"ss\":%s,\"v0\":%ld,\"r\":[", W,
            s ? "true" : "false", SW, ss ? "true" : "false", v0);
    for (long v = v0; v < v0 + chunk && v <= hi; ++v) {
      long r;
      try { r = (long)val(SafeInt<T>((U)v)); } catch (const mp::OverflowError &) { r = OV; }
      fprintf(out, "%s%ld", v == v0 ? "" : ",", r);
    }
    fprintf(out, "]}\n");
  }
}

template <typename T> void abs_rows(int W, long lo, long hi, long chunk) {
  for (long v0 = lo; v0 <= hi; v0 += chunk) {
    fprintf(out, "{\"e\":\"Abs\",\"W\":%d,\"v0\":%ld,\"r\":[", W, v0);
    for (long v = v0; v < v0 + chunk && v <= hi; ++v)
      fprintf(out, "%s%ld", v == v0 ? "" : ",", (long)mp::SafeAbs((T)v));
    fprintf(out, "]}\n");
  }
}

// ---- wide types: values as sign + little-endian magnitude bytes
static std::string big(bool neg, unsigned long long mag, bool ov = false) {
  std::string s = std::string("{\"ov\":") + (ov ? "true" : "false") + ",\"neg\":" +
                  ((neg && mag) ? "true" : "false") + ",\"d\":[";
  bool first = true;
  while (mag) { s += (first ? "" : ","); s += std::to_string(mag & 255); mag >>= 8; first = false; }
  return s + "]}";
}
template <typename T> std::string bigof(T v) {
  if (std::is_signed<T>::value && v < 0) return big(true, 0ULL - (unsigned long long)v);
  return big(false, (unsigned long long)v);
}
template <typename T> void wide(int W, const std::vector<T> &vals) {
  bool s = std::is_signed<T>::value;
  for (int op = 0; op < 3; ++op)
    for (T a : vals) for (T b : vals) {
      std::string r;
      try {
        SafeInt<T> x(a), y(b);
        T v = op == 0 ? val(x + y) : op == 1 ? val(x - y) : val(x * y);
        r = bigof<T>(v);
      } catch (const mp::OverflowError &) { r = big(false, 0, true); }
      fprintf(out, "{\"e\":\"Wide\",\"W\":%d,\"s\":%s,\"op\":\"%s\",\"a\":%s,\"b\":%s,\"r\":%s}\n", W,
              s ? "true" : "false", OPS[op], bigof<T>(a).c_str(), bigof<T>(b).c_str(), r.c_str());
    }
}
template <typename T, typename U> void wnarrow(int W, const std::vector<U> &vals) {
  bool s = std::is_signed<T>::value;
  for (U v : vals) {
    std::string r;
    try { r = bigof<T>(val(SafeInt<T>(v))); } catch (const mp::OverflowError &) { r = big(false, 0, true); }
    fprintf(out, "{\"e\":\"WNarrow\",\"W\":%d,\"s\":%s,\"SW\":%d,\"ss\":%s,\"v\":%s,\"r\":%s}\n", W, s ? "true" : "false",
            (int)sizeof(U) * 8, std::is_signed<U>::value ? "true" : "false", bigof<U>(v).c_str(), r.c_str());
  }
}
template <typename T> void wabs(int W, const std::vector<T> &vals) {
  for (T v : vals)
    fprintf(out, "{\"e\":\"WAbs\",\"W\":%d,\"v\":%s,\"r\":%s}\n", W, bigof<T>(v).c_str(),
            big(false, (unsigned long long)mp::SafeAbs(v)).c_str());
}

template <typename T> std::vector<T> boundary(std::mt19937_64 &rng, int nrand) {
  typedef std::numeric_limits<T> L;
  std::vector<T> v;
  auto add = [&](long double x) {
    if (x >= (long double)L::min() && x <= (long double)L::max()) v.push_back((T)x);
  };
  for (int d = 0; d <= 2; ++d) { v.push_back(L::min() + d); v.push_back(L::max() - d); }
  for (int d = -3; d <= 3; ++d) add(d);
  int W = sizeof(T) * 8;
  for (int k : {W / 2 - 1, W / 2, W - 2, W - 1}) for (int d = -1; d <= 1; ++d) {
    add(ldexpl(1.0L, k) + d); add(-ldexpl(1.0L, k) + d);
  }
  // integer square roots of max: products right at the edge
  unsigned long long m = (unsigned long long)L::max(), r = (unsigned long long)sqrtl((long double)m);
  for (int d = -1; d <= 1; ++d) { add((long double)(r + d)); add(-(long double)(r + d)); }
  add((long double)(m / 2)); add((long double)(m / 2 + 1)); add((long double)(m / 3)); add((long double)(m / 3 + 1));
  if (std::is_signed<T>::value) { add(-(long double)(m / 2)); add(-(long double)(m / 2) - 1); add(-(long double)(m / 3) - 1); }
  for (int i = 0; i < nrand; ++i) {
    unsigned long long x = rng();
    int sh = rng() % (sizeof(T) * 8);
    v.push_back((T)(x >> sh) * ((std::is_signed<T>::value && (rng() & 1)) ? (T)-1 : (T)1));
  }
  return v;
}

int main(int argc, char **argv) {
  if (argc < 4) { fprintf(stderr, "usage: h_safeint <out.ndjson> <tier> <seed>\n"); return 2; }
  out = fopen(argv[1], "w");
  vtrace_install(out);
  bool thorough = std::string(argv[2]) == "thorough";
  std::mt19937_64 rng(strtoull(argv[3], 0, 10));
  fprintf(out, "{\"e\":\"Meta\",\"tier\":\"%s\"}\n", argv[2]);
  // 8-bit: complete, both signednesses, the *same templates*
  { std::vector<long> a; for (long x = -128; x <= 127; ++x) a.push_back(x); rows<int8_t>(8, a, -128, 127, 256); }
  { std::vector<long> a; for (long x = 0; x <= 255; ++x) a.push_back(x); rows<uint8_t>(8, a, 0, 255, 256); }
  // 16-bit: boundary set x full range (quick: strided full range), both positions via symmetry of the set
  std::vector<long> b16s = {-32768, -32767, -32766, -16385, -16384, -16383, -257, -256, -255, -182, -181, -180, -129, -128, -127, -3, -2, -1, 0, 1, 2, 3, 127, 128, 129, 180, 181, 182, 255, 256, 257, 16383, 16384, 16385, 32765, 32766, 32767};
  std::vector<long> b16u = {0, 1, 2, 3, 127, 128, 129, 180, 181, 182, 254, 255, 256, 257, 32767, 32768, 32769, 21845, 21846, 65533, 65534, 65535};
  for (int i = 0; i < (thorough ? 64 : 6); ++i) { b16s.push_back((long)(rng() % 65536) - 32768); b16u.push_back(rng() % 65536); }
  if (thorough) { rows<int16_t>(16, b16s, -32768, 32767, 1024); rows<uint16_t>(16, b16u, 0, 65535, 1024); }
  else {
    // quick: every boundary a against windows of b around each boundary and a seeded stride sample
    for (long c : b16s) { long lo = std::max(-32768L, c - 8), hi = std::min(32767L, c + 8); rows<int16_t>(16, b16s, lo, hi, 32); }
    for (long c : b16u) { long lo = std::max(0L, c - 8), hi = std::min(65535L, c + 8); rows<uint16_t>(16, b16u, lo, hi, 32); }
  }
  // narrowing: all (source,target) pairs of the small types, complete
  narrow_rows<int8_t, int16_t>(8, 16, -32768, 32767, 4096);  narrow_rows<int8_t, uint16_t>(8, 16, 0, 65535, 4096);
  narrow_rows<uint8_t, int16_t>(8, 16, -32768, 32767, 4096); narrow_rows<uint8_t, uint16_t>(8, 16, 0, 65535, 4096);
  narrow_rows<int8_t, uint8_t>(8, 8, 0, 255, 256);           narrow_rows<uint8_t, int8_t>(8, 8, -128, 127, 256);
  narrow_rows<int16_t, uint16_t>(16, 16, 0, 65535, 4096);    narrow_rows<uint16_t, int16_t>(16, 16, -32768, 32767, 4096);
  narrow_rows<int16_t, int8_t>(16, 8, -128, 127, 256);       narrow_rows<uint16_t, uint8_t>(16, 8, 0, 255, 256);
  narrow_rows<uint16_t, int8_t>(16, 8, -128, 127, 256);      narrow_rows<int16_t, uint8_t>(16, 8, 0, 255, 256);
  abs_rows<int8_t>(8, -128, 127, 256); abs_rows<int16_t>(16, -32768, 32767, 4096);
  // wide types
  int nr = thorough ? 40 : 8;
  auto vi = boundary<int>(rng, nr); auto vu = boundary<unsigned>(rng, nr);
  auto vl = boundary<long>(rng, nr); auto vz = boundary<size_t>(rng, nr);
  auto vll = boundary<long long>(rng, nr);
  wide<int>(32, vi); wide<unsigned>(32, vu); wide<long>(64, vl); wide<size_t>(64, vz);
  wnarrow<int, long>(32, vl); wnarrow<int, size_t>(32, vz); wnarrow<int, unsigned>(32, vu); wnarrow<int, long long>(32, vll);
  wnarrow<unsigned, long>(32, vl); wnarrow<unsigned, size_t>(32, vz); wnarrow<unsigned, int>(32, vi);
  wnarrow<long, size_t>(64, vz); wnarrow<long, int>(64, vi); wnarrow<long, unsigned>(64, vu);
  wnarrow<size_t, long>(64, vl); wnarrow<size_t, int>(64, vi); wnarrow<size_t, unsigned>(64, vu);
  wnarrow<int8_t, int>(8, vi); wnarrow<int8_t, size_t>(8, vz); wnarrow<uint8_t, long>(8, vl);
  wnarrow<int16_t, long>(16, vl); wnarrow<uint16_t, int>(16, vi); wnarrow<int16_t, size_t>(16, vz);
  wabs<int>(32, vi); wabs<long>(64, vl);
  fclose(out);
  return 0;
}
