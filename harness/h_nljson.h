// Minimal JSON reader/writer helpers for the NL harnesses (h_nlrt, h_nlread).
// Only what the CASE records printed by GenNL.tla need: objects, arrays,
// strings (with \" \\ \n \t \uXXXX escapes), integers, booleans, null.
#ifndef H_NLJSON_H_
#define H_NLJSON_H_
#include <cstdio>
#include <cstdlib>
#include <cstring>
#include <map>
#include <memory>
#include <stdexcept>
#include <string>
#include <vector>

namespace vj {

struct Value;
typedef std::shared_ptr<Value> P;
struct Value {
  enum Type { NUL, BOOL, INT, STR, ARR, OBJ } type = NUL;
  bool b = false;
  long long i = 0;
  std::string s;
  std::vector<P> a;
  std::map<std::string, P> o;

  const Value &at(const char *k) const {
    auto it = o.find(k);
    if (it == o.end()) throw std::runtime_error(std::string("json: missing key ") + k);
    return *it->second;
  }
  bool has(const char *k) const { return o.count(k) != 0; }
  const Value &operator[](size_t k) const { return *a.at(k); }
  size_t size() const { return a.size(); }
  int num() const { if (type != INT) throw std::runtime_error("json: not an int"); return (int)i; }
  bool boolean() const { if (type != BOOL) throw std::runtime_error("json: not a bool"); return b; }
  const std::string &str() const { if (type != STR) throw std::runtime_error("json: not a string"); return s; }
};

class Parser {
  const char *p_, *end_;
  void ws() { while (p_ < end_ && (*p_ == ' ' || *p_ == '\n' || *p_ == '\t' || *p_ == '\r')) ++p_; }
  [[noreturn]] void fail(const char *m) { throw std::runtime_error(std::string("json: ") + m); }
  std::string str() {
    std::string r;
    ++p_;  // opening quote
    while (p_ < end_ && *p_ != '"') {
      char c = *p_++;
      if (c != '\\') { r += c; continue; }
      if (p_ >= end_) fail("bad escape");
      char e = *p_++;
      switch (e) {
      case 'n': r += '\n'; break;
      case 't': r += '\t'; break;
      case 'r': r += '\r'; break;
      case 'b': r += '\b'; break;
      case 'f': r += '\f'; break;
      case 'u': {
        if (end_ - p_ < 4) fail("bad \\u");
        unsigned v = (unsigned)strtoul(std::string(p_, 4).c_str(), nullptr, 16);
        p_ += 4;
        if (v < 0x100) r += (char)v;      // one byte, the inverse of esc() below (names are byte strings)
        else if (v < 0x800) { r += (char)(0xC0 | (v >> 6)); r += (char)(0x80 | (v & 0x3F)); }
        else { r += (char)(0xE0 | (v >> 12)); r += (char)(0x80 | ((v >> 6) & 0x3F)); r += (char)(0x80 | (v & 0x3F)); }
        break;
      }
      default: r += e;
      }
    }
    if (p_ >= end_) fail("unterminated string");
    ++p_;
    return r;
  }
 public:
  Parser(const char *b, const char *e) : p_(b), end_(e) {}
  P parse() {
    ws();
    if (p_ >= end_) fail("unexpected end");
    P v = std::make_shared<Value>();
    char c = *p_;
    if (c == '{') {
      v->type = Value::OBJ;
      ++p_; ws();
      if (*p_ == '}') { ++p_; return v; }
      for (;;) {
        ws();
        if (*p_ != '"') fail("expected key");
        std::string k = str();
        ws();
        if (*p_++ != ':') fail("expected :");
        v->o[k] = parse();
        ws();
        if (*p_ == ',') { ++p_; continue; }
        if (*p_ == '}') { ++p_; break; }
        fail("expected , or }");
      }
    } else if (c == '[') {
      v->type = Value::ARR;
      ++p_; ws();
      if (*p_ == ']') { ++p_; return v; }
      for (;;) {
        v->a.push_back(parse());
        ws();
        if (*p_ == ',') { ++p_; continue; }
        if (*p_ == ']') { ++p_; break; }
        fail("expected , or ]");
      }
    } else if (c == '"') {
      v->type = Value::STR;
      v->s = str();
    } else if (c == 't' && end_ - p_ >= 4 && !strncmp(p_, "true", 4)) {
      v->type = Value::BOOL; v->b = true; p_ += 4;
    } else if (c == 'f' && end_ - p_ >= 5 && !strncmp(p_, "false", 5)) {
      v->type = Value::BOOL; v->b = false; p_ += 5;
    } else if (c == 'n' && end_ - p_ >= 4 && !strncmp(p_, "null", 4)) {
      p_ += 4;
    } else if (c == '-' || (c >= '0' && c <= '9')) {
      char *e = nullptr;
      v->type = Value::INT;
      v->i = strtoll(p_, &e, 10);
      if (e == p_) fail("bad number");
      p_ = e;
      if (p_ < end_ && (*p_ == '.' || *p_ == 'e' || *p_ == 'E')) fail("non-integer number");
    } else {
      fail("unexpected character");
    }
    return v;
  }
};

inline P parse(const std::string &s) { return Parser(s.data(), s.data() + s.size()).parse(); }

// JSON string escaping for arbitrary bytes (bytes >= 0x80 and controls as \u00XX,
// so that the output is pure ASCII and always valid JSON)
inline std::string esc(const char *s, size_t n) {
  std::string r = "\"";
  char buf[8];
  for (size_t i = 0; i < n; ++i) {
    unsigned char c = (unsigned char)s[i];
    if (c == '"') r += "\\\"";
    else if (c == '\\') r += "\\\\";
    else if (c < 0x20 || c >= 0x7f) { snprintf(buf, sizeof buf, "\\u%04x", c); r += buf; }
    else r += (char)c;
  }
  return r + "\"";
}
inline std::string esc(const std::string &s) { return esc(s.data(), s.size()); }

}  // namespace vj
#endif
