// C11 harness: runs option texts through the real BasicSolver::ParseOptions
// (src/solver.cc) on a solver with a table of int / real / string / flag /
// wildcard options and records what happened.  No judgement here:
// TraceOptions.tla decides.
//
// usage: h_options <cases.tsv> <out.ndjson>
// cases.tsv:  id \t echo(0/1) \t thr(0/1) \t exeKnown(0/1) \t mp \t exe \t nam \t argv
//   mp/exe/nam: "-" (variable not set) or hex of the text; argv: "-" or hex;hex;...
// Every text is handed to the library in a heap block of exactly its size
// (setenv / malloc), so that a read past the terminating NUL is an ASan error.
// A worker process does the work; when it dies the parent records a Crash line
// for the case and starts a new worker behind it.
#include <cmath>
#include <cstdio>
#include <cstdlib>
#include <cstring>
#include <fstream>
#include <map>
#include <sstream>
#include <string>
#include <vector>
#include <sys/mman.h>
#include <sys/wait.h>
#include <unistd.h>

#include "mp/solver.h"
#include "vtrace.h"

static std::string hex(const std::string &s) {
  static const char *d = "0123456789abcdef";
  std::string r;
  for (unsigned char c : s) { r += d[c >> 4]; r += d[c & 15]; }
  return r;
}
static std::string unhex(const std::string &h) {
  std::string r;
  for (size_t i = 0; i + 1 < h.size(); i += 2) r += (char)strtol(h.substr(i, 2).c_str(), nullptr, 16);
  return r;
}

struct Event { char kind; std::string text; };       // 'o' output, 'e' error handler call

// The solver under test: nothing but an option table around the real machinery.
struct Recorder : mp::ErrorHandler, mp::OutputHandler {
  std::vector<Event> events;
  void HandleOutput(fmt::CStringRef s) override { events.push_back({'o', s.c_str()}); }
  void HandleError(fmt::CStringRef s) override { events.push_back({'e', s.c_str()}); }
};

static const char *DECLS[] = {"alg:iter iterlim maxit", "alg:mode\tmode", "tol:gap  gap mipgap ", "tech:log logfile\nlog_file",
                              "tech:quiet quiet silent", "lim:*:wt limit_*_w\twt*"};
class TestSolver : public mp::BasicSolver {
 public:
  Recorder rec;
  int iter = -7, mode = -8;
  double gap = -1.5;
  std::string log = "init";
  bool quiet = false;
  std::map<std::string, double> wt;

  int GetInt(const mp::SolverOption &o) const { return std::string(o.name()) == "alg:iter" ? iter : mode; }
  void SetInt(const mp::SolverOption &o, int v) { (std::string(o.name()) == "alg:iter" ? iter : mode) = v; }
  double GetGap(const mp::SolverOption &) const { return gap; }
  void SetGap(const mp::SolverOption &, double v) { gap = v; }
  std::string GetLog(const mp::SolverOption &) const { return log; }
  void SetLog(const mp::SolverOption &, fmt::StringRef v) { log = v.to_string(); }
  double GetWt(const mp::SolverOption &o) const {
    auto it = wt.find(o.wc_keybody_last());
    return it == wt.end() ? 0 : it->second;
  }
  void SetWt(const mp::SolverOption &o, double v) { wt[o.wc_keybody_last()] = v; }

  struct FlagOption : mp::SolverOption {
    bool &value;
    explicit FlagOption(bool &v)
      : SolverOption(DECLS[4], "Single-word phrase: be quiet.", mp::ValueArrayRef(), true), value(v) {}
    void Write(fmt::Writer &w) override { w << value; }
    void Parse(const char *&, bool) override { value = true; }
    Option_Type type() override { return Option_Type::BOOL; }
  };

  TestSolver() : BasicSolver("vsolver", "Verif Solver", 20240320, 0) {
    // the name lists as registered: names separated by white space of any kind and amount
    AddIntOption(DECLS[0], "Iteration limit.", &TestSolver::GetInt, &TestSolver::SetInt);
    AddIntOption(DECLS[1], "Mode.", &TestSolver::GetInt, &TestSolver::SetInt);
    AddDblOption(DECLS[2], "Gap.", &TestSolver::GetGap, &TestSolver::SetGap);
    AddStrOption(DECLS[3], "Log file.", &TestSolver::GetLog, &TestSolver::SetLog);
    AddOption(OptionPtr(new FlagOption(quiet)));
    // synonyms whose text around the * differs in length from the standard name
    AddDblOption(DECLS[5], "Weight of limit *.", &TestSolver::GetWt, &TestSolver::SetWt);
    set_output_handler(&rec);
  }
};

static const char *type_name(mp::SolverOption &o) {
  if (o.is_flag()) return "flag";
  switch (o.type()) {
  case mp::SolverOption::BOOL: return "flag";
  case mp::SolverOption::INT: return "int";
  case mp::SolverOption::DBL: return "dbl";
  case mp::SolverOption::STRING: return "str";
  }
  return "?";
}

static void print_table(FILE *out) {
  TestSolver s;
  fprintf(out, "{\"e\":\"Table\",\"opts\":[");
  bool first = true;
  for (auto i = s.option_begin(), e = s.option_end(); i != e; ++i) {
    mp::SolverOption &o = const_cast<mp::SolverOption &>(*i);
    fprintf(out, "%s{\"name\":\"%s\",\"syn\":[", first ? "" : ",", hex(o.name()).c_str());
    first = false;
    for (size_t k = 0; k < o.inline_synonyms().size(); ++k)
      fprintf(out, "%s\"%s\"", k ? "," : "", hex(o.inline_synonyms()[k]).c_str());
    fprintf(out, "],\"type\":\"%s\",\"wild\":%s}", type_name(o), o.is_wildcard() ? "true" : "false");
  }
  fprintf(out, "],\"decls\":[");
  for (size_t k = 0; k < sizeof(DECLS) / sizeof(*DECLS); ++k) fprintf(out, "%s\"%s\"", k ? "," : "", hex(DECLS[k]).c_str());
  fprintf(out, "]}\n");
}

static std::string num(double v) {                 // JSON has no nan / inf
  if (v != v) return "\"nan\"";
  if (v - v != 0) return v > 0 ? "\"inf\"" : "\"-inf\"";
  char buf[40]; snprintf(buf, sizeof(buf), "%.17g", v); return buf;
}

static std::string store_json(TestSolver &s) {
  // read every value back through the public accessors
  std::ostringstream os;
  os.precision(17);
  os << "{\"alg:iter\":" << s.GetIntOption("alg:iter") << ",\"alg:mode\":" << s.GetIntOption("alg:mode")
     << ",\"tol:gap\":" << num(s.GetDblOption("tol:gap")) << ",\"tech:log\":\"" << hex(s.GetStrOption("tech:log"))
     << "\",\"tech:quiet\":" << (s.quiet ? "true" : "false") << ",\"lim:*:wt\":[";
  bool first = true;
  for (auto &kv : s.wt) {
    os << (first ? "" : ",") << "{\"k\":\"" << hex(kv.first) << "\",\"v\":" << num(kv.second) << "}";
    first = false;
  }
  os << "]}";
  return os.str();
}

static std::vector<std::string> split(const std::string &s, char sep) {
  std::vector<std::string> r; std::string cur;
  for (char c : s) { if (c == sep) { r.push_back(cur); cur.clear(); } else cur += c; }
  r.push_back(cur);
  return r;
}

static void set_or_unset(const char *name, const std::string &field) {
  if (field == "-") unsetenv(name);
  else setenv(name, unhex(field).c_str(), 1);
}

static void run_case(FILE *out, const std::vector<std::string> &f) {
  bool echo = f[1] == "1", thr = f[2] == "1", exe_known = f[3] == "1";
  set_or_unset("mp_options", f[4]);
  set_or_unset("vexe_options", f[5]);
  set_or_unset("vsolver_options", f[6]);
  std::vector<char *> argv;
  if (f[7] != "-")
    for (const std::string &h : split(f[7], ';')) {
      std::string t = unhex(h);
      char *p = (char *)malloc(t.size() + 1);          // exactly sized
      memcpy(p, t.c_str(), t.size() + 1);
      argv.push_back(p);
    }
  argv.push_back(nullptr);
  TestSolver s;
  s.set_exe_path(exe_known ? "/opt/verif/bin/vexe.exe" : "");
  if (!thr) s.set_error_handler(&s.rec);                   // record and go on; default: throw mp::Error
  std::string init = store_json(s);
  std::string threw;
  bool rc = false;
  try {
    rc = s.ParseOptions(argv.data(), echo ? 0 : (unsigned)mp::BasicSolver::NO_OPTION_ECHO);
  } catch (const mp::Error &e) {
    threw = "mp::Error"; s.rec.events.push_back({'e', e.what()});
  } catch (const std::exception &e) {
    threw = "std::exception"; s.rec.events.push_back({'x', e.what()});
  }
  std::string fin = store_json(s);
  fprintf(out, "{\"e\":\"Run\",\"id\":%s,\"threw\":\"%s\",\"rc\":%s,\"init\":%s,\"final\":%s,\"ev\":[", f[0].c_str(),
          threw.c_str(), rc ? "true" : "false", init.c_str(), fin.c_str());
  for (size_t i = 0; i < s.rec.events.size(); ++i)
    fprintf(out, "%s{\"k\":\"%c\",\"t\":\"%s\"}", i ? "," : "", s.rec.events[i].kind, hex(s.rec.events[i].text).c_str());
  fprintf(out, "]}\n");
  for (char *p : argv) free(p);
}

int main(int argc, char **argv) {
  if (argc < 3) { fprintf(stderr, "usage: h_options <cases.tsv> <out.ndjson>\n"); return 2; }
  std::vector<std::vector<std::string>> cases;
  {
    std::ifstream in(argv[1]);
    std::string line;
    while (std::getline(in, line)) {
      if (line.empty()) continue;
      std::vector<std::string> f = split(line, '\t');
      if (f.size() != 8) { fprintf(stderr, "bad case line: %s\n", line.substr(0, 80).c_str()); return 3; }
      cases.push_back(f);
    }
  }
  FILE *out = fopen(argv[2], "w");
  if (!out) return 3;
  print_table(out);
  fflush(out);
  volatile long *progress = (volatile long *)mmap(nullptr, sizeof(long), PROT_READ | PROT_WRITE,
                                                  MAP_SHARED | MAP_ANONYMOUS, -1, 0);
  if (progress == MAP_FAILED) return 3;
  size_t start = 0;
  int crashes = 0;
  while (start < cases.size()) {
    fflush(out);
    pid_t pid = fork();
    if (pid < 0) return 3;
    if (pid == 0) {
      vtrace_install(out);
      for (size_t i = start; i < cases.size(); ++i) {
        *progress = (long)i;
        vtrace_ctx(cases[i][0].c_str());
        run_case(out, cases[i]);
        fflush(out);
      }
      _exit(0);
    }
    int st = 0;
    waitpid(pid, &st, 0);
    if (WIFEXITED(st) && WEXITSTATUS(st) == 0) break;
    long at = *progress;
    if (!(WIFEXITED(st) && WEXITSTATUS(st) == 97))
      fprintf(out, "\n{\"e\":\"Crash\",\"what\":\"worker status %d signal %d\",\"ctx\":\"%s\"}\n",
              WIFEXITED(st) ? WEXITSTATUS(st) : -1, WIFSIGNALED(st) ? WTERMSIG(st) : 0, cases[at][0].c_str());
    fflush(out);
    start = (size_t)at + 1;
    if (++crashes > 5000) { fprintf(out, "{\"e\":\"Crash\",\"what\":\"too many crashes\",\"ctx\":\"\"}\n"); break; }
  }
  fclose(out);
  return 0;
}
