// C17, use sites: calls the Begin* functions of the REAL mp::ExprFactory (include/mp/expr.h) with counts a
// hostile NL file could announce and records the allocation request each call makes.  operator new is replaced:
// it remembers the largest request and refuses requests above 64 MB with std::bad_alloc (nothing that large is
// ever touched).  No judgement here: TraceSizeUse.tla decides.
//   h_sizes <out.ndjson>
#include <cstdio>
#include <cstdlib>
#include <cstring>
#include <new>
#include <string>
#include <vector>
#include "mp/expr.h"
#include "mp/problem.h"
#include "mp/safeint.h"

static size_t g_max = 0;
static bool g_track = false;
static void *Alloc(size_t n) {
  if (g_track && n > g_max) g_max = n;
  if (n > ((size_t)64 << 20)) throw std::bad_alloc();
  void *p = malloc(n ? n : 1);
  if (!p) throw std::bad_alloc();
  return p;
}
void *operator new(size_t n) { return Alloc(n); }
void *operator new[](size_t n) { return Alloc(n); }
void operator delete(void *p) noexcept { free(p); }
void operator delete[](void *p) noexcept { free(p); }
void operator delete(void *p, size_t) noexcept { free(p); }
void operator delete[](void *p, size_t) noexcept { free(p); }

static FILE *out;
template <class F> static void probe(const char *kind, long n, F f) {
  const char *res = "ok";
  g_max = 0; g_track = true;
  try { f(); }
  catch (const mp::OverflowError &) { res = "overflow"; }
  catch (const std::bad_alloc &) { res = "badalloc"; }
  catch (...) { res = "other"; }
  g_track = false;
  // the factory allocates `new char*[bytes]`: the request is 8 * (intended bytes); report intended bytes / 8
  size_t words = (!strncmp(kind, "add", 3)) ? g_max / 8 : g_max / 8 / 8;
  if (words > 2000000000UL) words = 2000000000UL;
  fprintf(out, "{\"e\":\"Size\",\"kind\":\"%s\",\"n\":%ld,\"res\":\"%s\",\"req8\":%zu}\n", kind, n, res, words);
  fflush(out);
}

int main(int argc, char **argv) {
  if (argc < 2) return 2;
  out = fopen(argv[1], "w");
  fprintf(out, "{\"e\":\"Meta\"}\n");
  std::vector<long> ns = {1, 2, 3, 100, 65536, 1000000};
  for (int sh : {24, 26, 27, 28, 29, 30}) for (long d : {-1L, 0L, 1L, 5L}) ns.push_back((1L << sh) + d);
  for (long d : {0L, 1L, 2L}) { ns.push_back(2147483647L - d); ns.push_back((1L << 28) + (1L << 27) + d); ns.push_back((1L << 29) + (1L << 28) + d); }
  for (long n : ns) {
    if (n < 1 || n > 2147483647L) continue;
    int k = (int)n;
    { mp::ExprFactory f; probe("sum", n, [&] { f.BeginSum(k); }); }
    { mp::ExprFactory f; probe("count", n, [&] { f.BeginCount(k); }); }
    { mp::ExprFactory f; auto x = f.MakeVariable(0); probe("numberof", n, [&] { f.BeginNumberOf(k, x); }); }
    { mp::ExprFactory f; auto fn = f.AddFunction("f", -1, mp::func::NUMERIC); probe("call", n, [&] { f.BeginCall(fn, k); }); }
    { mp::ExprFactory f; probe("vararg", n, [&] { f.BeginIterated(mp::expr::MAX, k); }); }
    { mp::ExprFactory f; probe("itlogical", n, [&] { f.BeginIteratedLogical(mp::expr::EXISTS, k); }); }
    { mp::ExprFactory f; probe("pairwise", n, [&] { f.BeginPairwise(mp::expr::ALLDIFF, k); }); }
    { mp::ExprFactory f; probe("plterm", n, [&] { f.BeginPLTerm(k); }); }
  }
  // ---- mp::Problem: a block of n items added to a problem that already has 3 (old + n has to fit an int)
  for (long n : {1L, 2L, 100L, 65536L, 1L << 24, 1L << 27, (1L << 28) + 1, 1L << 30, 2147483644L, 2147483645L, 2147483646L, 2147483647L}) {
    int k = (int)n;
    { mp::Problem p; p.AddVars(3, mp::var::CONTINUOUS); probe("addvars", n, [&] { p.AddVars(k, mp::var::INTEGER); }); }
    { mp::Problem p; p.AddVars(3, mp::var::CONTINUOUS); p.AddCommonExprs(3); probe("addcexprs", n, [&] { p.AddCommonExprs(k); }); }
    if (n <= 100 || n >= 2147483644L) {        // the array form reads n bounds: small blocks, and the ones that cannot fit
      std::vector<double> lb(n <= 100 ? n : 1, 0.0), ub(n <= 100 ? n : 1, 1.0);
      std::vector<mp::var::Type> ty(n <= 100 ? n : 1, mp::var::CONTINUOUS);
      mp::Problem p; p.AddVars(3, mp::var::CONTINUOUS);
      probe("addvarsarr", n, [&] { p.AddVars(k, lb.data(), ub.data(), ty.data()); });
    }
  }
  fclose(out);
  return 0;
}
