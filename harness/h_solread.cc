// C14 harness: hostile .sol files for the REAL mp::ReadSOLFile (sol-reader2.hpp).
// Valid files of both formats (text, binary) are built from abstract solutions of
// the C05 generator; then structure mutations (count / length / suffix-header
// fields <- {0,1,n-1,n,n+1,511,512,513,2^31-1,-1}, over-long names and tables,
// truncation at and around every structural boundary, binary record-length
// mismatches, seeded byte flips) x declared problem sizes {0, smaller, equal,
// larger} x handlers that take all / some / none of the offered values, set an
// error, or refuse the options.  Every read runs in a forked child (ASan+UBSan):
// a crash becomes a Crash record.  Only records; TraceSolProtocol.tla decides.
//   usage: h_solread <cases.ndjson> <trace.ndjson> <seed> <workdir> <quick|thorough>
#include <algorithm>
#include <string>
#include <vector>
#include "mp/sol-reader2.hpp"
#include "mp/nl-solver.h"
extern "C" {
#include "api/c/nl-solver-c.h"
#include "api/c/sol-handler-c.h"
}
#include "mp/nl-utils.h"
#include "h_solcommon.h"
#include "h_solmsg.h"

using namespace vh;

// ------------------------------------------------------------------ file model
struct SufRec {
  long kind = 0, n = 0, namelen = 0, tablen = 0, tablines = 0;   // header fields as written
  bool real = false;
  std::string name;                       // actual name bytes (without terminator)
  std::string table;                      // actual table text (lines joined by \n)
  std::vector<std::pair<int, double>> vals;
};
struct SolFile {
  std::vector<std::string> msg;
  bool hasopts = true, vbtol = false, hasobjno = true;
  long count = 0, ncons = 0, nd = 0, nvars = 0, np = 0, objno = 0, code = 0;
  std::vector<long> opts;
  double vbtolv = 0.1;
  std::vector<double> dual, primal;
  std::vector<SufRec> sufs;
};
struct Bytes {
  std::string b;
  std::vector<size_t> bounds;                       // structural boundaries (for truncation)
  std::vector<std::pair<size_t, const char *>> marks;  // binary record markers: offset, which
  void mark_bound() { bounds.push_back(b.size()); }
  // binary only: where the elements of each vector lie (for "how many values does a truncated file hold")
  struct Span { size_t off, esz; long n; };
  Span dual{0, 8, 0}, primal{0, 8, 0};
  std::vector<Span> sufspans;
  // text only: the value lines (offset, length without the newline, which vector)
  struct VLine { size_t off, len; const char *which; };
  std::vector<VLine> vlines;
};
// number of elements of a span that are completely inside the first `size` bytes
static long avail_of(const Bytes::Span &sp, size_t size) {
  if (size <= sp.off) return 0;
  long k = (long)((size - sp.off) / sp.esz);
  return k > sp.n ? sp.n : k;
}
// "avail" field of the next Case records: values completely present in the file per vector (-1 = not stated)
static std::string G_AVAIL = "{\"dual\":-1,\"primal\":-1,\"suf\":[]}";
static std::string avail_json(const Bytes &b, size_t size) {
  std::string o = "{\"dual\":" + std::to_string(avail_of(b.dual, size)) + ",\"primal\":" + std::to_string(avail_of(b.primal, size)) + ",\"suf\":[";
  for (size_t i = 0; i < b.sufspans.size(); ++i) o += (i ? "," : "") + std::to_string(avail_of(b.sufspans[i], size));
  return o + "]}";
}

static std::vector<double> TABLE;   // doubles behind the atoms (values are irrelevant for C14)

static SolFile from_case(const J &c) {
  SolFile f;
  std::string m = concrete_message(c["msg"]);
  while (!m.empty() && m[0] == '\b') m.erase(0, 1);
  if (!m.empty()) {
    for (auto &l : split_nl(m)) {
      std::string t = l;
      if (!t.empty() && t.back() == '\r') t.pop_back();
      f.msg.push_back(t.empty() ? " " : t);
    }
  }
  for (auto &o : c["opts"].a) f.opts.push_back(o.l());
  f.hasopts = !f.opts.empty();
  f.vbtol = c["vbtol"].i() >= 0;
  f.count = (long)f.opts.size() + (f.vbtol ? 2 : 0);
  f.nvars = c["nvars"].i(); f.ncons = c["ncons"].i();
  for (auto &v : c["primal"].a) f.primal.push_back(TABLE[v.i() % 26]);   // finite entries only
  for (auto &v : c["dual"].a) f.dual.push_back(TABLE[v.i() % 26]);
  if (!f.hasopts) {                      // without the section both vectors are complete
    f.primal.resize(f.nvars, 1.5); f.dual.resize(f.ncons, -2.0);
  }
  f.np = (long)f.primal.size(); f.nd = (long)f.dual.size();
  f.objno = c["objno"].i() - 1; f.code = c["code"].i();
  for (auto &u : c["sufs"].a) {
    if (!u["out"].b) continue;
    SufRec s;
    s.real = u["real"].b;
    s.kind = u["kind"].i() | (s.real ? 4 : 0) | (u["iodecl"].b ? 8 : 0);
    s.name = u["name"].s;
    s.namelen = (long)s.name.size() + 1;
    for (size_t i = 0; i < u["table"].a.size(); ++i) { if (i) s.table += "\n"; s.table += u["table"].a[i].s; }
    s.tablen = s.table.empty() ? 0 : (long)s.table.size() + 1;
    s.tablines = s.table.empty() ? 0 : 1 + (long)std::count(s.table.begin(), s.table.end(), '\n');
    for (size_t i = 0; i < u["vals"].a.size(); ++i) {
      int v = u["vals"].a[i].i();
      double d = s.real ? TABLE[v % 26] : (double)v;
      if (d != 0) s.vals.push_back({(int)i, d});
    }
    s.n = (long)s.vals.size();
    f.sufs.push_back(s);
  }
  return f;
}

static void put_num(std::string &b, double v) { char t[40]; snprintf(t, sizeof t, "%.17g\n", v); b += t; }

static Bytes to_text(const SolFile &f) {
  Bytes o;
  for (auto &l : f.msg) o.b += l + "\n";
  o.b += "\n"; o.mark_bound();
  if (f.hasopts) {
    o.b += "Options\n"; o.mark_bound();
    o.b += std::to_string(f.count) + "\n";
    for (long v : f.opts) o.b += std::to_string(v) + "\n";
    o.mark_bound();
    o.b += std::to_string(f.ncons) + "\n" + std::to_string(f.nd) + "\n" + std::to_string(f.nvars) + "\n" + std::to_string(f.np) + "\n";
    if (f.vbtol) put_num(o.b, f.vbtolv);
    o.mark_bound();
  }
  for (size_t i = 0; i < f.dual.size(); ++i) { size_t st = o.b.size(); put_num(o.b, f.dual[i]); o.vlines.push_back({st, o.b.size() - st - 1, "dual"}); if (i == 0) o.bounds.push_back(o.b.size() - 3); }
  o.mark_bound();
  for (size_t i = 0; i < f.primal.size(); ++i) { size_t st = o.b.size(); put_num(o.b, f.primal[i]); o.vlines.push_back({st, o.b.size() - st - 1, "primal"}); if (i == 0) o.bounds.push_back(o.b.size() - 3); }
  o.mark_bound();
  if (f.hasobjno) { o.b += "objno " + std::to_string(f.objno) + " " + std::to_string(f.code) + "\n"; o.bounds.push_back(o.b.size() - 3); o.mark_bound(); }
  for (auto &s : f.sufs) {
    o.b += "suffix " + std::to_string(s.kind) + " " + std::to_string(s.n) + " " + std::to_string(s.namelen) + " " +
           std::to_string(s.tablen) + " " + std::to_string(s.tablines) + "\n";
    o.bounds.push_back(o.b.size() - 4); o.mark_bound();
    o.b += s.name + "\n"; o.bounds.push_back(o.b.size() - 2); o.mark_bound();
    if (!s.table.empty() || s.tablen) { o.b += s.table + "\n"; o.bounds.push_back(o.b.size() - 3); o.mark_bound(); }
    for (auto &v : s.vals) {
      char t[64];
      if (s.real) snprintf(t, sizeof t, "%d %.17g\n", v.first, v.second); else snprintf(t, sizeof t, "%d %d\n", v.first, (int)v.second);
      o.vlines.push_back({o.b.size(), strlen(t) - 1, "suf"});
      o.b += t;
    }
    o.mark_bound();
  }
  return o;
}

static void put32(std::string &b, long v) { int32_t x = (int32_t)v; b.append((const char *)&x, 4); }
static void put64(std::string &b, double v) { b.append((const char *)&v, 8); }
static void rec_open(Bytes &o, long len, const char *which) { o.marks.push_back({o.b.size(), which}); put32(o.b, len); }
static void rec_close(Bytes &o, long len, const char *which) { o.marks.push_back({o.b.size(), which}); put32(o.b, len); o.mark_bound(); }

static Bytes to_binary(const SolFile &f) {
  Bytes o;
  rec_open(o, 6, "hdr<"); o.b += "binary"; rec_close(o, 6, "hdr>");
  for (auto &l : f.msg) { rec_open(o, (long)l.size(), "msg<"); o.b += l; rec_close(o, (long)l.size(), "msg>"); }
  rec_open(o, 0, "end<"); rec_close(o, 0, "end>");
  if (f.hasopts) {
    // "Options", count, options..., ncons, nduals, nvars, nprimals, [vbtol]
    std::string r = "Options";
    put32(r, f.count);
    for (long v : f.opts) put32(r, v);
    put32(r, f.ncons); put32(r, f.nd); put32(r, f.nvars); put32(r, f.np);
    if (f.vbtol) put64(r, f.vbtolv);
    rec_open(o, (long)r.size(), "opt<"); o.b += r; o.bounds.push_back(o.b.size() - 9); rec_close(o, (long)r.size(), "opt>");
  }
  rec_open(o, (long)f.dual.size() * 8, "dual<");
  o.dual = {o.b.size(), 8, (long)f.dual.size()};
  for (double v : f.dual) put64(o.b, v);
  if (!f.dual.empty()) o.bounds.push_back(o.b.size() - 3);
  rec_close(o, (long)f.dual.size() * 8, "dual>");
  rec_open(o, (long)f.primal.size() * 8, "primal<");
  o.primal = {o.b.size(), 8, (long)f.primal.size()};
  for (double v : f.primal) put64(o.b, v);
  if (!f.primal.empty()) o.bounds.push_back(o.b.size() - 3);
  rec_close(o, (long)f.primal.size() * 8, "primal>");
  if (f.hasobjno) {
    rec_open(o, 8, "objno<"); put32(o.b, f.objno); put32(o.b, f.code); rec_close(o, 8, "objno>");
  }
  for (auto &s : f.sufs) {
    std::string r = std::string("\nSuffix\n", 8);
    put32(r, s.kind); put32(r, s.n); put32(r, s.namelen); put32(r, s.tablen);
    size_t hdr_end = r.size();
    // exactly namelen / tablen bytes follow the header (as far as that is possible)
    auto fit = [](std::string t, long len) { t += '\0'; if (len >= 0 && len < 100000) t.resize((size_t)len, '\0'); return t; };
    r += fit(s.name, s.namelen);
    size_t name_end = r.size();
    if (!s.table.empty() || s.tablen) r += fit(s.table, s.tablen);
    size_t tab_end = r.size();
    for (auto &v : s.vals) { put32(r, v.first); if (s.real) put64(r, v.second); else put32(r, (long)v.second); }
    rec_open(o, (long)r.size(), "suf<");
    size_t base = o.b.size();
    o.b += r;
    o.bounds.push_back(base + hdr_end - 2); o.bounds.push_back(base + hdr_end);
    o.bounds.push_back(base + name_end - 1); o.bounds.push_back(base + name_end);
    o.bounds.push_back(base + tab_end);
    o.sufspans.push_back({base + tab_end, (size_t)(s.real ? 12 : 8), (long)s.vals.size()});
    rec_close(o, (long)r.size(), "suf>");
  }
  return o;
}

// ------------------------------------------------------------------ handlers
// EASY: not a handler of the harness but the library's own one (SOLHandler_Easy of NLSolver::ReadSolution(), the
// reader of the "easy" model API), for a loaded model of the declared size whose variables are reordered in the NL file
// CAPI: a handler written against the C API (api/c/sol-handler-c.h) that reads everything it is offered, called
// through NLW2_Read2SOLHandler_C (the library wraps it in NLW2_SOLHandler_C_Impl)
enum Mode { ALL, SOME, NONE, SETERR, REFUSE, EASY, CAPI };
static const char *MODES[] = {"all", "some", "none", "seterr", "refuse", "easy", "capi"};

struct Rec : mp::SOLHandler {
  mp::NLHeader h_;
  Mode mode_ = ALL;
  mp::NLHeader Header() const { return h_; }
  void OnSolveMessage(const char *s, int nbs) {
    emit("{\"e\":\"OnSolveMessage\",\"len\":" + std::to_string(clamp32((long long)strlen(s))) + ",\"nbs\":" + std::to_string(clamp32(nbs)) + "}");
  }
  int OnAMPLOptions(const AMPLOptions &ao) {
    int ret = mode_ == REFUSE ? 7 : 0;
    emit("{\"e\":\"OnAMPLOptions\",\"n\":" + std::to_string(ao.options_.size()) + ",\"ret\":" + std::to_string(ret) + "}");
    return ret;
  }
  template <class VR> int take(VR &rd) {
    int offered = rd.Size(), want = mode_ == SOME ? offered / 2 : mode_ == NONE ? 0 : offered, n = 0;
    while (n < want && rd.Size()) {
      rd.ReadNext();
      if (rd.ReadResult() != NLW2_SOLRead_OK) break;
      ++n;
    }
    return n;
  }
  template <class VR> void vec(const char *name, VR &rd) {
    int offered = rd.Size();
    int n = take(rd);
    emit(std::string("{\"e\":\"") + name + "\",\"offered\":" + std::to_string(clamp32(offered)) + ",\"read\":" + std::to_string(n) +
         ",\"status\":" + std::to_string((int)rd.ReadResult()) + "}");
  }
  template <class VR> void OnDualSolution(VR &rd) { vec("OnDualSolution", rd); }
  template <class VR> void OnPrimalSolution(VR &rd) { vec("OnPrimalSolution", rd); }
  void OnObjno(int n) { emit("{\"e\":\"OnObjno\",\"n\":" + std::to_string(clamp32(n)) + "}"); }
  void OnSolveCode(int c) { emit("{\"e\":\"OnSolveCode\",\"c\":" + std::to_string(clamp32(c)) + "}"); }
  template <class SR> void suf(const char *name, SR &sr) {
    const auto &si = sr.SufInfo();
    int offered = sr.Size();
    int n;
    if (mode_ == SETERR) {       // like SOLHandler_Easy on a bad element index
      n = 0;
      if (sr.Size()) { sr.ReadNext(); if (sr.ReadResult() == NLW2_SOLRead_OK) n = 1; }
      if (sr.ReadResult() == NLW2_SOLRead_OK) sr.SetError(NLW2_SOLRead_Bad_Suffix, "bad suffix element index");
    } else n = take(sr);
    emit(std::string("{\"e\":\"") + name + "\",\"kind\":" + std::to_string(clamp32(si.Kind())) + ",\"namelen\":" + std::to_string(si.Name().size()) +
         ",\"tablen\":" + std::to_string(si.Table().size()) + ",\"offered\":" + std::to_string(clamp32(offered)) + ",\"read\":" + std::to_string(n) +
         ",\"status\":" + std::to_string((int)sr.ReadResult()) + "}");
  }
  template <class SR> void OnIntSuffix(SR &sr) { suf("OnIntSuffix", sr); }
  template <class SR> void OnDblSuffix(SR &sr) { suf("OnDblSuffix", sr); }
};

// ------------------------------------------------------------------ one read
static long NREAD = 0;
static std::string WD;
// ---- the C API handler: counts what it was offered / read
struct CState { int nv, nc; long nopt = -1, ndual = 0, nprimal = 0, nsuf = 0, dual_off = -1, primal_off = -1, sufbad = 0; };
extern "C" {
static NLHeader_C c_header(void *u) { NLHeader_C h; memset(&h, 0, sizeof h); h.pi.num_vars = ((CState *)u)->nv; h.pi.num_algebraic_cons = ((CState *)u)->nc; return h; }
static void c_msg(void *, const char *, int) {}
static int c_opts(void *u, AMPLOptions_C ao) { ((CState *)u)->nopt = ao.n_options_; return 0; }
static void c_dual(void *u, int n, void *api) { auto *s = (CState *)u; s->dual_off = n; while (n-- > 0) { NLW2_ReadSolVal(api); ++s->ndual; } }
static void c_primal(void *u, int n, void *api) { auto *s = (CState *)u; s->primal_off = n; while (n-- > 0) { NLW2_ReadSolVal(api); ++s->nprimal; } }
static void c_objno(void *, int) {}
static void c_code(void *, int) {}
static void c_isuf(void *u, NLW2_SuffixInfo_C si, void *api) {
  auto *s = (CState *)u; ++s->nsuf; int i, v;
  int nmax[4] = {s->nv, s->nc, 1 << 20, 1};
  while (NLW2_IntSuffixNNZ(api)) { NLW2_ReadIntSuffixEntry(api, &i, &v); if (i < 0 || i >= nmax[si.kind_ & 3]) { NLW2_ReportIntSuffixError(api, "bad suffix element index"); ++s->sufbad; return; } }
}
static void c_dsuf(void *u, NLW2_SuffixInfo_C si, void *api) {
  auto *s = (CState *)u; ++s->nsuf; int i; double v;
  int nmax[4] = {s->nv, s->nc, 1 << 20, 1};
  while (NLW2_DblSuffixNNZ(api)) { NLW2_ReadDblSuffixEntry(api, &i, &v); if (i < 0 || i >= nmax[si.kind_ & 3]) { NLW2_ReportDblSuffixError(api, "bad suffix element index"); ++s->sufbad; return; } }
}
}

static void one_read(const std::string &bytes, const SolFile &f, const char *fmt, const std::string &mut, const std::string &cls,
                     int dnv, int dnc, const char *dcls, Mode mode, int base) {
  std::string path = WD + "/r.sol";
  {
    FILE *fp = fopen(path.c_str(), "wb");
    fwrite(bytes.data(), 1, bytes.size(), fp);
    fclose(fp);
  }
  std::string hdrs = "[";
  for (size_t i = 0; i < f.sufs.size() && cls != "flip"; ++i) {   // after byte flips the headers are unknown
    auto &s = f.sufs[i];
    if (i) hdrs += ",";
    hdrs += "{\"kind\":" + std::to_string(clamp32(s.kind)) + ",\"n\":" + std::to_string(clamp32(s.n)) + ",\"namelen\":" + std::to_string(clamp32(s.namelen)) +
            ",\"tablen\":" + std::to_string(clamp32(s.tablen)) + "}";
  }
  hdrs += "]";
  emit("{\"e\":\"Case\",\"id\":" + std::to_string(NREAD) + ",\"base\":" + std::to_string(base) + ",\"fmt\":\"" + fmt + "\",\"mut\":" + jstr(mut) +
       ",\"cls\":" + jstr(cls) + ",\"nv\":" + std::to_string(dnv) + ",\"nc\":" + std::to_string(dnc) + ",\"decl\":\"" + dcls + "\",\"mode\":\"" + MODES[mode] +
       "\",\"valid\":" + (cls == "valid" ? "true" : "false") + ",\"size\":" + std::to_string(bytes.size()) + ",\"avail\":" + (std::string(fmt) == "binary" && std::string(dcls) == "equal" ? G_AVAIL : std::string("{\"dual\":-1,\"primal\":-1,\"suf\":[]}")) + ",\"hdrs\":" + hdrs + "}");
  ++NREAD;
  int rc = mode == CAPI ? run_isolated([&] {
    CState st; st.nv = dnv; st.nc = dnc;
    NLW2_NLUtils_C ut = NLW2_MakeNLUtils_C_Default();
    NLW2_NLSolver_C sv = NLW2_MakeNLSolver_C(&ut);
    std::string stub = WD + "/capi";
    NLW2_SetFileStub_C(&sv, stub.c_str());
    rename(path.c_str(), (stub + ".sol").c_str());
    NLW2_SOLHandler_C h = NLW2_MakeSOLHandler_C_Default();
    h.p_user_data_ = &st; h.Header = c_header; h.OnSolveMessage = c_msg; h.OnAMPLOptions = c_opts; h.OnDualSolution = c_dual;
    h.OnPrimalSolution = c_primal; h.OnObjno = c_objno; h.OnSolveCode = c_code; h.OnIntSuffix = c_isuf; h.OnDblSuffix = c_dsuf;
    int ok = NLW2_Read2SOLHandler_C(&sv, &h);
    const char *em = NLW2_GetErrorMessage_C(&sv);
    emit("{\"e\":\"CApi\",\"ok\":" + std::string(ok ? "true" : "false") + ",\"nopt\":" + std::to_string(st.nopt) + ",\"dualoff\":" + std::to_string(st.dual_off) +
         ",\"primaloff\":" + std::to_string(st.primal_off) + ",\"hasmsg\":" + (em && *em ? "true" : "false") + "}");
    rename((stub + ".sol").c_str(), path.c_str());
    NLW2_DestroySOLHandler_C_Default(&h);
    NLW2_DestroyNLSolver_C(&sv);
    NLW2_DestroyNLUtils_C_Default(&ut);
  }, WD + "/stderr.txt", 10)
  : mode == EASY ? run_isolated([&] {
    int n = dnv, nr = dnc;
    std::vector<double> lb(n, 0.0), ub(n, 10.0), rlb(nr, -1e3), rub(nr, 1e3), c(n, 1.0), av(nr, 1.0);
    std::vector<int> ty(n);
    for (int i = 0; i < n; ++i) ty[i] = i % 2 == 0 ? NLW2_VarTypeInteger : NLW2_VarTypeContinuous;   // integers go last in NL order
    std::vector<size_t> ast(nr + 1); std::vector<int> ai(nr);
    for (int r = 0; r < nr; ++r) { ast[r] = r; ai[r] = r % n; }
    ast[nr] = nr;
    mp::NLModel mdl("verifC14");
    mdl.SetCols({n, lb.data(), ub.data(), ty.data()});
    mdl.SetRows(nr, rlb.data(), rub.data(), {nr, NLW2_MatrixFormatRowwise, (size_t)nr, ast.data(), ai.data(), av.data()});
    mdl.SetLinearObjective(NLW2_ObjSenseMinimize, 0.0, c.data());
    mp::NLSolver nls;
    std::string stub = WD + "/easy";
    nls.SetFileStub(stub);
    const mp::NLModel &cmdl = mdl;      // (a non-const model would select the NLFeeder template)
    if (!nls.LoadModel(cmdl)) { emit(std::string("{\"e\":\"EasyLoadFailed\",\"msg\":") + jstr(nls.GetErrorMessage(), 120) + "}"); return; }
    rename(path.c_str(), (stub + ".sol").c_str());
    mp::NLSolution sol = nls.ReadSolution();
    size_t nsufbad = 0;
    for (const auto &sf : sol.suffixes_)
      if (((sf.kind_ & 3) == 0 && sf.values_.size() != (size_t)n)) ++nsufbad;     // variable suffixes: one value per variable
    emit("{\"e\":\"Easy\",\"ok\":" + std::string(sol ? "true" : "false") + ",\"nx\":" + std::to_string(sol.x_.size()) + ",\"ny\":" + std::to_string(sol.y_.size()) +
         ",\"sufbad\":" + std::to_string(nsufbad) + ",\"hasmsg\":" + (*nls.GetErrorMessage() ? "true" : "false") + "}");
    rename((stub + ".sol").c_str(), path.c_str());
  }, WD + "/stderr.txt", 10)
  : run_isolated([&] {
    Rec h;
    h.h_.num_vars = dnv; h.h_.num_algebraic_cons = dnc; h.mode_ = mode;
    mp::NLUtils ut;
    auto r = mp::ReadSOLFile(path, h, ut);
    emit("{\"e\":\"Result\",\"code\":" + std::to_string((int)r.first) + ",\"hasmsg\":" + (r.second.empty() ? "false" : "true") +
         ",\"msg\":" + jstr(r.second, 120) + "}");
  }, WD + "/stderr.txt", 10);
  if (rc) {   // keep the offending file for the replay
    std::string keep = WD + "/crash-" + std::to_string(NREAD - 1) + ".sol";
    rename(path.c_str(), keep.c_str());
  }
}

struct Mut { std::string label, cls; SolFile f; int fmtmask; };   // fmtmask 1=text 2=binary

static std::vector<long> values_for(long n) { return {0, 1, n - 1, n, n + 1, 511, 512, 513, 2147483647L, -1}; }

int main(int argc, char **argv) {
  if (argc < 6) { fprintf(stderr, "usage: h_solread <cases> <trace> <seed> <workdir> <tier>\n"); return 2; }
  auto cases = read_lines(argv[1]);
  g_out = fopen(argv[2], "w");
  if (!g_out) { perror(argv[2]); return 2; }
  unsigned long long seed = strtoull(argv[3], 0, 10);
  WD = argv[4];
  bool thorough = std::string(argv[5]) == "thorough";
  TABLE = make_atoms(seed).v;
  std::mt19937_64 rng(seed * 7919 + 17);
  emit("{\"e\":\"Meta\",\"harness\":\"h_solread\",\"seed\":" + std::to_string(seed) + "}");

  for (size_t k = 0; k < cases.size(); ++k) {
    J c = parse_json(cases[k]);
    SolFile f0 = from_case(c);
    // declared sizes: 0, smaller, equal, larger than the file's
    struct D { int nv, nc; const char *cls; };
    std::vector<D> decls = {{0, 0, "zero"}, {(int)std::max(0L, f0.nvars - 1), (int)std::max(0L, f0.ncons - 1), "smaller"},
                            {(int)f0.nvars, (int)f0.ncons, "equal"}, {(int)f0.nvars + 2, (int)f0.ncons + 2, "larger"}};
    auto pick_decl = [&]() { return decls[rng() % 4 == 0 ? rng() % 4 : 2 + rng() % 2]; };
    auto pick_mode = [&]() { unsigned r = rng() % 8; return r < 4 ? ALL : r == 4 ? SOME : r == 5 ? NONE : r == 6 ? SETERR : REFUSE; };
    bool easy_ok = f0.nvars >= 1;

    // ---- the valid file in both formats x all declared sizes x all handlers
    for (int fmt = 1; fmt <= 2; ++fmt) {
      Bytes b = fmt == 1 ? to_text(f0) : to_binary(f0);
      for (auto &d : decls)
        for (int m = ALL; m <= CAPI; ++m)
          if (m != EASY || d.nv > 0)
            one_read(b.b, f0, fmt == 1 ? "text" : "binary", "none", "valid", d.nv, d.nc, d.cls, (Mode)m, (int)k);
    }
    // ---- structure mutations
    std::vector<Mut> muts;
    auto add = [&](const std::string &label, const std::string &cls, const SolFile &f, int mask = 3) { muts.push_back({label, cls, f, mask}); };
    struct Fld { const char *name; long SolFile::*p; long n; };
    std::vector<Fld> flds = {{"count", &SolFile::count, f0.count}, {"ncons", &SolFile::ncons, f0.ncons}, {"nduals", &SolFile::nd, f0.nd},
                             {"nvars", &SolFile::nvars, f0.nvars}, {"nprimals", &SolFile::np, f0.np}};
    if (f0.hasopts)
      for (auto &fl : flds)
        for (long v : values_for(fl.n)) {
          if (v == fl.n) continue;
          SolFile f = f0; f.*(fl.p) = v;
          add(std::string(fl.name) + "=" + std::to_string(v), std::string("field:") + fl.name, f);
        }
    if (f0.hasopts && f0.opts.size() >= 2 && !f0.vbtol) { SolFile f = f0; f.opts[1] = 3; add("opt2=3", "field:vbtolflag", f); }
    { SolFile f = f0; f.hasopts = false; add("no-options", "section", f); }
    { SolFile f = f0; f.hasobjno = false; add("no-objno", "section", f); }
    for (size_t si = 0; si < f0.sufs.size() && si < 2; ++si) {
      size_t s = si == 0 ? 0 : f0.sufs.size() - 1;
      if (si == 1 && s == 0) break;
      struct SF { const char *name; long SufRec::*p; };
      for (SF sf : std::vector<SF>{{"kind", &SufRec::kind}, {"n", &SufRec::n}, {"namelen", &SufRec::namelen}, {"tablen", &SufRec::tablen}, {"tablines", &SufRec::tablines}}) {
        long n = f0.sufs[s].*(sf.p);
        for (long v : values_for(n)) {
          if (v == n) continue;
          SolFile f = f0; f.sufs[s].*(sf.p) = v;
          add("suf" + std::to_string(si) + "." + sf.name + "=" + std::to_string(v), std::string("suffix:") + sf.name, f);
        }
        for (long v : {16L, 4L, 15L}) if (std::string(sf.name) == "kind" && v != n) { SolFile f = f0; f.sufs[s].kind = v; add("suf" + std::to_string(si) + ".kind=" + std::to_string(v), "suffix:kind", f); }
      }
      // consistent over-long names and tables (header and content agree)
      for (long L : {509L, 510L, 511L, 512L, 513L, 600L, 2000L}) {
        SolFile f = f0; f.sufs[s].name = long_line((int)L); f.sufs[s].namelen = L + 1;
        add("suf" + std::to_string(si) + ".longname=" + std::to_string(L), "suffix:longname", f);
        SolFile g = f0; g.sufs[s].table = long_line((int)L); g.sufs[s].tablen = L + 1; g.sufs[s].tablines = 1;
        add("suf" + std::to_string(si) + ".longtable=" + std::to_string(L), "suffix:longtable", g);
      }
      { SolFile f = f0; f.sufs[s].name += std::string("\0more", 5); f.sufs[s].namelen = (long)f.sufs[s].name.size() + 1; add("suf" + std::to_string(si) + ".name-with-nul", "suffix:name", f); }
      { // binary: the name bytes are not NUL terminated (namelen counts only the characters)
        SolFile f = f0; f.sufs[s].namelen = (long)f.sufs[s].name.size();
        add("suf" + std::to_string(si) + ".name-unterminated", "suffix:name", f, 2); }
    }
    // ---- run the field mutations (each with a seeded declared size / handler; all of them in thorough)
    auto run_mut = [&](const Mut &m, int fmt, const Bytes &b, const std::string &label, const std::string &cls) {
      if (thorough) {       // every declared size class, seeded handler
        for (auto &d : decls)
          one_read(b.b, m.f, fmt == 1 ? "text" : "binary", label, cls, d.nv, d.nc, d.cls, pick_mode(), (int)k);
      } else {
        D d = pick_decl(); Mode md = pick_mode();
        one_read(b.b, m.f, fmt == 1 ? "text" : "binary", label, cls, d.nv, d.nc, d.cls, md, (int)k);
      }
      // the library's own handler, with the true sizes and (every other time) a larger model
      if (easy_ok && (thorough || rng() % 3 == 0)) {
        const D &d = decls[rng() % 2 ? 2 : 3];
        one_read(b.b, m.f, fmt == 1 ? "text" : "binary", label, cls, d.nv, d.nc, d.cls, EASY, (int)k);
      }
      // a handler written against the C API
      if (thorough || rng() % 3 == 0) {
        D d = pick_decl();
        one_read(b.b, m.f, fmt == 1 ? "text" : "binary", label, cls, d.nv, d.nc, d.cls, CAPI, (int)k);
      }
    };
    for (auto &m : muts)
      for (int fmt = 1; fmt <= 2; ++fmt) {
        if (!(m.fmtmask & fmt)) continue;
        // a binary suffix record with a name shorter than namelen-1 is padded by the serialiser? no: written as is
        Bytes b = fmt == 1 ? to_text(m.f) : to_binary(m.f);
        run_mut(m, fmt, b, m.label, m.cls);
      }
    // ---- truncations, record-length mismatches, byte flips of the valid file
    for (int fmt = 1; fmt <= 2; ++fmt) {
      Bytes b = fmt == 1 ? to_text(f0) : to_binary(f0);
      Mut base{"", "", f0, 3};
      std::vector<size_t> cuts;
      for (size_t bd : b.bounds) for (int d : {-1, 0, 1, 3}) { long p = (long)bd + d; if (p >= 0 && p < (long)b.b.size()) cuts.push_back((size_t)p); }
      std::sort(cuts.begin(), cuts.end()); cuts.erase(std::unique(cuts.begin(), cuts.end()), cuts.end());
      for (size_t ci = 0; ci < cuts.size(); ++ci) {
        if (!thorough && cuts.size() > 40 && rng() % cuts.size() >= 40) continue;
        Bytes t = b; t.b.resize(cuts[ci]);
        // truncation class: which section the cut falls in (index of the boundary)
        size_t sec = std::lower_bound(b.bounds.begin(), b.bounds.end(), cuts[ci]) - b.bounds.begin();
        if (fmt == 2) G_AVAIL = avail_json(b, cuts[ci]);
        run_mut(base, fmt, t, "cut@" + std::to_string(cuts[ci]), "trunc:sec" + std::to_string(std::min<size_t>(sec, 12)));
        G_AVAIL = "{\"dual\":-1,\"primal\":-1,\"suf\":[]}";
      }
      if (fmt == 1) {
        // a value line that is not a number and carries printf conversion specifiers (a reader that passes file
        // bytes on as a format string reads or writes through garbage pointers): first line of each vector
        static const char *FMT[] = {"%s%s%s%s%s%s%s%s%s%s%s%s", "x %n%n%n%n%n%n%n%n", "%d %d %d", "1.5%n", "%999999999s", "%*c%*c%n"};
        const char *seen[3] = {nullptr, nullptr, nullptr}; int ns = 0;
        for (auto &vl : b.vlines) {
          bool dup = false;
          for (int q = 0; q < ns; ++q) dup = dup || !strcmp(seen[q], vl.which);
          if (dup || ns >= 3) continue;
          seen[ns++] = vl.which;
          for (const char *fs : FMT) {
            Bytes t = b;
            t.b = b.b.substr(0, vl.off) + fs + b.b.substr(vl.off + vl.len);
            one_read(t.b, f0, "text", std::string("fmtline@") + vl.which, std::string("fmt:") + vl.which,
                     (int)f0.nvars, (int)f0.ncons, "equal", ALL, (int)k);
          }
        }
      }
      if (fmt == 1) {
        // every number of the file (after the message) replaced by one outside the range of int / long:
        // counts, option values, vector values, suffix indices and values, objno and solve code
        static const char *WIDE[] = {"99999999999999999999", "1e22", "-3147483648", "3147483648.5", "nan", "-1e400"};
        size_t start = b.b.find("\n\n");
        size_t ntok = 0;
        for (size_t p = start == std::string::npos ? 0 : start; p < b.b.size(); ) {
          bool tokstart = (isdigit((unsigned char)b.b[p]) || ((b.b[p] == '-' || b.b[p] == '+') && p + 1 < b.b.size() && isdigit((unsigned char)b.b[p + 1])))
                          && (p == 0 || b.b[p - 1] == ' ' || b.b[p - 1] == '\n');
          if (!tokstart) { ++p; continue; }
          size_t q = p + 1;
          while (q < b.b.size() && b.b[q] != ' ' && b.b[q] != '\n') ++q;
          size_t ls = b.b.rfind('\n', p); ls = ls == std::string::npos ? 0 : ls + 1;
          std::string which = !b.b.compare(ls, 6, "objno ") ? "objno" : !b.b.compare(ls, 7, "suffix ") ? "sufhead" : b.b.find(' ', ls) < b.b.find('\n', ls) ? "pair" : "scalar";
          const char *w = WIDE[(ntok + k) % 6];
          Bytes t = b;
          t.b = b.b.substr(0, p) + w + b.b.substr(q);
          one_read(t.b, f0, "text", "wide@" + std::to_string(ntok) + "=" + w, "wide:" + which,
                   (int)f0.nvars, (int)f0.ncons, "equal", ALL, (int)k);
          ++ntok; p = q;
        }
      }
      if (fmt == 2) {
        // the file ends inside / just before the last value of a vector: read with the true sizes by a handler that
        // takes everything (never sampled away)
        std::vector<std::pair<std::string, Bytes::Span>> spans = {{"dual", b.dual}, {"primal", b.primal}};
        for (size_t i = 0; i < b.sufspans.size(); ++i) spans.push_back({"suf" + std::to_string(i), b.sufspans[i]});
        for (auto &sp : spans) {
          if (sp.second.n < 1) continue;
          size_t last = sp.second.off + (size_t)(sp.second.n - 1) * sp.second.esz;
          for (size_t cut : {last, last + 1, last + sp.second.esz / 2, last + sp.second.esz - 1}) {
            if (cut >= b.b.size()) continue;
            Bytes t = b; t.b.resize(cut);
            G_AVAIL = avail_json(b, cut);
            one_read(t.b, f0, "binary", "partial@" + sp.first + "+" + std::to_string(cut - last), "partial:" + sp.first.substr(0, 3),
                     (int)f0.nvars, (int)f0.ncons, "equal", ALL, (int)k);
            G_AVAIL = "{\"dual\":-1,\"primal\":-1,\"suf\":[]}";
          }
        }
      }
      if (fmt == 2) {
        for (auto &mk : b.marks) {
          int32_t L; memcpy(&L, b.b.data() + mk.first, 4);
          for (long v : std::vector<long>{0, (long)L - 1, (long)L + 1, (long)L + 8, 2147483647L, -1}) {
            if (v == L) continue;
            if (!thorough && rng() % 3 != 0 && !(v == -1 || v == 2147483647L)) continue;
            Bytes t = b; int32_t x = (int32_t)v; memcpy(&t.b[mk.first], &x, 4);
            run_mut(base, fmt, t, std::string(mk.second) + "=" + (v == L - 1 ? "L-1" : v == L + 1 ? "L+1" : v == L + 8 ? "L+8" : std::to_string(v)),
                    std::string("reclen:") + mk.second);
          }
        }
      }
      int nflip = thorough ? 60 : 12;
      for (int i = 0; i < nflip && !b.b.empty(); ++i) {
        Bytes t = b;
        int nf = 1 + rng() % 3;
        for (int j = 0; j < nf; ++j) { size_t p = rng() % t.b.size(); t.b[p] = (char)(rng() % 4 == 0 ? rng() : (t.b[p] ^ (1 << (rng() % 8)))); }
        run_mut(base, fmt, t, "flip#" + std::to_string(i), "flip");
      }
    }
  }
  emit("{\"e\":\"End\",\"reads\":" + std::to_string(NREAD) + "}");
  fclose(g_out);
  return 0;
}
