// Crash bookkeeping for the NL harnesses.  Work runs in forked children; the
// child records what it is doing in a small context file before every step and
// lets the sanitizers print their full report to its stderr (a file).  The
// parent turns an abnormal child status into a Crash / Hang record that carries
// the context and the head of the report, so that one crash never loses a batch
// and the report says which configuration died.
#ifndef H_NLCRASH_H_
#define H_NLCRASH_H_
#include <fcntl.h>
#include <sys/wait.h>
#include <unistd.h>

#include <csignal>
#include <cstdio>
#include <cstring>
#include <fstream>
#include <string>

#include "h_nljson.h"

namespace nlc {
static int ctx_fd = -1;
inline void OpenCtx(const std::string &path) { ctx_fd = open(path.c_str(), O_CREAT | O_TRUNC | O_RDWR, 0644); }
inline void Ctx(const char *s) {
  char buf[256];
  memset(buf, 0, sizeof buf);
  strncpy(buf, s, sizeof buf - 1);
  if (ctx_fd >= 0 && pwrite(ctx_fd, buf, sizeof buf, 0) < 0) {}
}
inline std::string ReadCtx() {
  char buf[257];
  memset(buf, 0, sizeof buf);
  if (ctx_fd >= 0 && pread(ctx_fd, buf, 256, 0) < 0) {}
  return buf;
}
inline std::string Head(const std::string &file, size_t n) {
  std::ifstream f(file, std::ios::binary);
  std::string all((std::istreambuf_iterator<char>(f)), std::istreambuf_iterator<char>());
  return all.size() > n ? all.substr(0, n) : all;
}
// Appends a Crash/Hang record for an abnormal wait status; returns true if one was written.
inline bool Report(FILE *out, int st, const std::string &errfile, const std::string &extra_json) {
  if (WIFEXITED(st) && WEXITSTATUS(st) == 0) return false;
  bool hang = WIFSIGNALED(st) && WTERMSIG(st) == SIGALRM;
  fseek(out, 0, SEEK_END);
  fprintf(out, "\n{\"e\":\"%s\",%s\"status\":%d,\"ctx\":%s,\"stderr\":%s}\n", hang ? "Hang" : "Crash", extra_json.c_str(),
          WIFEXITED(st) ? WEXITSTATUS(st) : -WTERMSIG(st), vj::esc(ReadCtx()).c_str(), vj::esc(Head(errfile, 1800)).c_str());
  fflush(out);
  return true;
}
}  // namespace nlc
#endif
