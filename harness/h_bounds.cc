// C06 harness: creates argument variables with given domains in a REAL
// MIPFlatConverter (set up exactly as a driver does), asks it for the result of
// one functional constraint (AssignResult2Args = PreprocessConstraint +
// ComputeBoundsAndType + AddResultVariable) and records what it got: a constant,
// an existing variable, or a new variable with bounds and type.  No judgement.
#include <cstdio>
#include <fstream>
#include <sstream>
#include <string>
#include <vector>
#include "mp/flat/redef/MIP/converter_mip.h"
#include "mp/flat/problem_flattener.h"
#include "mp/problem.h"
#include "mp/solver.h"
#include "drv/rec_modelapi.h"
#include "vtrace.h"

using namespace mp;
using Cvt = FlatCvtImpl<MIPFlatConverter, RecModelAPI>;
using Flt = ProblemFltImpl<ProblemFlattener, Problem, Cvt>;

static double rd(std::istream &in) {
  std::string t; in >> t;
  if (t == "inf") return INFINITY;
  if (t == "-inf") return -INFINITY;
  return atof(t.c_str());
}

struct TestSolver : BasicSolver { TestSolver() : BasicSolver("verif", "verif", 0, 0) {} };

static std::vector<int> g_args;   // variable index of each argument (fixed variables may be shared)
template <class VC> static void report(FILE *out, long id, Cvt &cvt, const VC &r, int) {
  if (r.is_const()) {
    fprintf(out, "{\"e\":\"Res\",\"id\":%ld,\"kind\":\"const\",\"val\":%s}\n", id, verif::jnum(r.get_const()).c_str());
  } else {
    int v = r.get_var();
    int pos = -1;
    for (size_t j = 0; j < g_args.size(); ++j) if (g_args[j] == v) { pos = (int)j; break; }
    int nargs = pos >= 0 ? (int)g_args.size() + 1 : 0;
    if (pos >= 0) v = pos;          // alias: report the argument position
    fprintf(out, "{\"e\":\"Res\",\"id\":%ld,\"kind\":\"%s\",\"var\":%d,\"lb\":%s,\"ub\":%s,\"int\":%s}\n", id,
            pos >= 0 ? "alias" : "var", v, verif::jnum(cvt.lb(r.get_var())).c_str(), verif::jnum(cvt.ub(r.get_var())).c_str(),
            cvt.var_type(r.get_var()) == var::INTEGER ? "true" : "false");
  }
}

int main(int argc, char **argv) {
  if (argc < 3) { fprintf(stderr, "usage: h_bounds <cases.txt> <out.ndjson>\n"); return 2; }
  std::ifstream in(argv[1]);
  FILE *out = fopen(argv[2], "w");
  vtrace_install(out);
  std::string line;
  while (std::getline(in, line)) {
    if (line.empty()) continue;
    std::istringstream ss(line);
    long id; std::string type; int nargs;
    ss >> id >> type >> nargs;
    char ctx[128]; snprintf(ctx, sizeof ctx, "case %ld %s", id, type.c_str()); vtrace_ctx(ctx);
    try {
      TestSolver env;
      Flt flt(env);
      flt.InitOptions();
      env.ParseOptionString("cvt:cmp:eps=6.103515625e-05", 0);
      Cvt &cvt = flt.GetFlatCvt();
      std::vector<int> args;
      for (int i = 0; i < nargs; ++i) {
        double lb = rd(ss), ub = rd(ss); int isint; ss >> isint;
        args.push_back((int)cvt.AddVar(lb, ub, isint ? var::INTEGER : var::CONTINUOUS));
      }
      g_args = args;
      int np; ss >> np;
      std::vector<double> prm;
      for (int i = 0; i < np; ++i) prm.push_back(rd(ss));
      auto A1 = [&]() { return VarArray1{args[0]}; };
      if (type == "Max") report(out, id, cvt, cvt.AssignResult2Args(MaxConstraint(args)), nargs);
      else if (type == "Min") report(out, id, cvt, cvt.AssignResult2Args(MinConstraint(args)), nargs);
      else if (type == "Abs") report(out, id, cvt, cvt.AssignResult2Args(AbsConstraint(A1())), nargs);
      else if (type == "And") report(out, id, cvt, cvt.AssignResult2Args(AndConstraint(args)), nargs);
      else if (type == "Or") report(out, id, cvt, cvt.AssignResult2Args(OrConstraint(args)), nargs);
      else if (type == "Not") report(out, id, cvt, cvt.AssignResult2Args(NotConstraint(A1())), nargs);
      else if (type == "Div") report(out, id, cvt, cvt.AssignResult2Args(DivConstraint(VarArray2{args[0], args[1]})), nargs);
      else if (type == "IfThen") report(out, id, cvt, cvt.AssignResult2Args(IfThenConstraint(VarArrayN<3>{args[0], args[1], args[2]})), nargs);
      else if (type == "Implication") report(out, id, cvt, cvt.AssignResult2Args(ImplicationConstraint(VarArrayN<3>{args[0], args[1], args[2]})), nargs);
      else if (type == "AllDiff") report(out, id, cvt, cvt.AssignResult2Args(AllDiffConstraint(args)), nargs);
      else if (type == "NumberofConst") report(out, id, cvt, cvt.AssignResult2Args(NumberofConstConstraint(args, DblParamArray1{prm[0]})), nargs);
      else if (type == "NumberofVar") report(out, id, cvt, cvt.AssignResult2Args(NumberofVarConstraint(args)), nargs);
      else if (type == "Count") report(out, id, cvt, cvt.AssignResult2Args(CountConstraint(args)), nargs);
      else if (type == "Pow") report(out, id, cvt, cvt.AssignResult2Args(PowConstraint(A1(), DblParamArray1{prm[0]})), nargs);
      else if (type == "PL") {
        // prm = x1 y1 x2 y2 ...
        std::vector<double> x, y;
        for (size_t i = 0; i + 1 < prm.size(); i += 2) { x.push_back(prm[i]); y.push_back(prm[i + 1]); }
        report(out, id, cvt, cvt.AssignResult2Args(PLConstraint(A1(), PLConParams(PLPoints(x, y)))), nargs);
      } else if (type == "LinFunc" || type == "QuadFunc" || type.rfind("CondLin", 0) == 0 || type.rfind("CondQuad", 0) == 0) {
        // prm = const|rhs, then linear coefs (nargs), then for Quad: triples (c, i, j) of arg positions
        double c0 = prm[0];
        std::vector<double> lc(prm.begin() + 1, prm.begin() + 1 + nargs);
        LinTerms lt(lc, args);
        QuadTerms qt;
        for (size_t i = 1 + nargs; i + 3 <= prm.size(); i += 3)
          qt.add_term(prm[i], args[(int)prm[i + 1]], args[(int)prm[i + 2]]);
        if (type == "LinFunc") report(out, id, cvt, cvt.AssignResult2Args(LinearFunctionalConstraint(AffineExpr(lt, c0))), nargs);
        else if (type == "QuadFunc") report(out, id, cvt, cvt.AssignResult2Args(QuadraticFunctionalConstraint(QuadraticExpr(QuadAndLinTerms(lt, qt), c0))), nargs);
        else if (type == "CondLinLT") report(out, id, cvt, cvt.AssignResult2Args(CondLinConLT(LinConLT(lt, c0))), nargs);
        else if (type == "CondLinLE") report(out, id, cvt, cvt.AssignResult2Args(CondLinConLE(LinConLE(lt, c0))), nargs);
        else if (type == "CondLinEQ") report(out, id, cvt, cvt.AssignResult2Args(CondLinConEQ(LinConEQ(lt, c0))), nargs);
        else if (type == "CondLinGE") report(out, id, cvt, cvt.AssignResult2Args(CondLinConGE(LinConGE(lt, c0))), nargs);
        else if (type == "CondLinGT") report(out, id, cvt, cvt.AssignResult2Args(CondLinConGT(LinConGT(lt, c0))), nargs);
        else if (type == "CondQuadLE") report(out, id, cvt, cvt.AssignResult2Args(CondQuadConLE(QuadConLE(QuadAndLinTerms(lt, qt), c0))), nargs);
        else if (type == "CondQuadEQ") report(out, id, cvt, cvt.AssignResult2Args(CondQuadConEQ(QuadConEQ(QuadAndLinTerms(lt, qt), c0))), nargs);
        else if (type == "CondQuadGE") report(out, id, cvt, cvt.AssignResult2Args(CondQuadConGE(QuadConGE(QuadAndLinTerms(lt, qt), c0))), nargs);
        else fprintf(out, "{\"e\":\"Res\",\"id\":%ld,\"kind\":\"unknowntype\"}\n", id);
      } else
        fprintf(out, "{\"e\":\"Res\",\"id\":%ld,\"kind\":\"unknowntype\"}\n", id);
    } catch (const std::exception &ex) {
      fprintf(out, "{\"e\":\"Res\",\"id\":%ld,\"kind\":\"throw\",\"msg\":%s}\n", id, verif::jstr(ex.what()).c_str());
    }
    fflush(out);
  }
  fclose(out);
  return 0;
}
