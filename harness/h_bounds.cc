// C06 harness: creates argument variables with given domains in a REAL
// MIPFlatConverter (set up exactly as a driver does), asks it for the result of
// one functional constraint (AssignResult2Args = PreprocessConstraint +
// ComputeBoundsAndType + AddResultVariable) and records what it got: a constant,
// an existing variable, or a new variable with bounds and type.  No judgement.
#include <algorithm>
#include <cmath>
#include <cstdio>
#include <functional>
#include <fstream>
#include <memory>
#include <sstream>
#include <string>
#include <vector>
#include "mp/flat/redef/MIP/converter_mip.h"
#include "mp/flat/problem_flattener.h"
#include "mp/problem.h"
#include "mp/solver.h"
#include "drv/rec_modelapi.h"
#include "vtrace.h"

using namespace mp;
using Cvt = FlatCvtImpl<MIPFlatConverter, RecModelAPI>;
using Flt = ProblemFltImpl<ProblemFlattener, Problem, Cvt>;

static double rd(std::istream &in) {
  std::string t; in >> t;
  if (t == "inf") return INFINITY;
  if (t == "-inf") return -INFINITY;
  return atof(t.c_str());
}

struct TestSolver : BasicSolver { TestSolver() : BasicSolver("verif", "verif", 0, 0) {} };

static std::vector<int> g_args;   // variable index of each argument (fixed variables may be shared)
template <class VC> static void report(FILE *out, long id, Cvt &cvt, const VC &r, int) {
  if (r.is_const()) {
    fprintf(out, "{\"e\":\"Res\",\"id\":%ld,\"kind\":\"const\",\"val\":%s}\n", id, verif::jnum(r.get_const()).c_str());
  } else {
    int v = r.get_var();
    int pos = -1;
    for (size_t j = 0; j < g_args.size(); ++j) if (g_args[j] == v) { pos = (int)j; break; }
    int nargs = pos >= 0 ? (int)g_args.size() + 1 : 0;
    if (pos >= 0) v = pos;          // alias: report the argument position
    // rv: the variable's own index (two requests to one converter answered with the same variable);
    // alb / aub: the arguments' domains as they are after the call
    std::string albs, aubs;
    for (size_t j = 0; j < g_args.size(); ++j) {
      albs += (j ? "," : "") + verif::jnum(cvt.lb(g_args[j]));
      aubs += (j ? "," : "") + verif::jnum(cvt.ub(g_args[j]));
    }
    fprintf(out, "{\"e\":\"Res\",\"id\":%ld,\"kind\":\"%s\",\"var\":%d,\"lb\":%s,\"ub\":%s,\"int\":%s,\"rv\":%d,\"alb\":[%s],\"aub\":[%s]}\n", id,
            pos >= 0 ? "alias" : "var", v, verif::jnum(cvt.lb(r.get_var())).c_str(), verif::jnum(cvt.ub(r.get_var())).c_str(),
            cvt.var_type(r.get_var()) == var::INTEGER ? "true" : "false", r.get_var(), albs.c_str(), aubs.c_str());
  }
}

// functions that need reals: the converter's answer plus measured margins at sample points (no judgement:
// Bounds!TranscBad decides).  margins in units of 1e-6 * max(1,|f|), floor, saturated.
static long margin(double num, double scale) {
  if (std::isnan(num)) return -999999999;
  double m = std::floor(num / (1e-6 * scale));
  if (m > 999999999.0) return 999999999;
  if (m < -999999999.0) return -999999999;
  return (long)m;
}
template <class VC> static void report_transc(FILE *out, long id, Cvt &cvt, const VC &r, bool aint,
                                              const std::function<double(double)> &f) {
  double lb, ub; bool isint = false; const char *kind;
  int alias = -1;
  if (r.is_const()) { kind = "const"; lb = ub = r.get_const(); }
  else {
    int v = r.get_var();
    for (size_t j = 0; j < g_args.size(); ++j) if (g_args[j] == v) alias = (int)j;
    kind = alias >= 0 ? "alias" : "var";
    lb = cvt.lb(v); ub = cvt.ub(v); isint = cvt.var_type(v) == var::INTEGER;
  }
  // the argument's own domain as it is after the call (the converter may narrow it: log)
  double xlo = cvt.lb(g_args[0]), xhi = cvt.ub(g_args[0]);
  std::vector<double> xs;
  auto add = [&](double x) { if (aint) x = std::round(x); if (std::isfinite(x) && x >= xlo && x <= xhi) xs.push_back(x); };
  if (std::isfinite(xlo)) { add(xlo); add(xlo + 1e-9 * std::max(1.0, std::fabs(xlo))); add(std::ceil(xlo)); }
  if (std::isfinite(xhi)) { add(xhi); add(xhi - 1e-9 * std::max(1.0, std::fabs(xhi))); add(std::floor(xhi)); }
  if (std::isfinite(xlo) && std::isfinite(xhi)) for (int k = 1; k < 8; ++k) add(xlo + (xhi - xlo) * k / 8.0);
  for (double x : {-1e6, -1000.0, -100.0, -20.0, -10.0, -3.0, -2.0, -1.5, -1.0, -0.75, -0.5, -0.25, -1e-3, -1e-9, 0.0, 1e-9, 1e-3,
                   0.25, 0.5, 0.75, 1.0, 1.5, 2.0, 3.0, 10.0, 20.0, 100.0, 1000.0, 1e6}) add(x);
  for (int k = -8; k <= 8; ++k) { add(k * M_PI / 2); add(k * M_PI / 2 + 1e-7); add(k * M_PI / 2 - 1e-7); }
  std::sort(xs.begin(), xs.end()); xs.erase(std::unique(xs.begin(), xs.end()), xs.end());
  std::string s = "[";
  for (size_t i = 0; i < xs.size(); ++i) {
    double x = xs[i], fv = f(x);
    bool defd = !std::isnan(fv);
    double scale = std::max(1.0, std::isfinite(fv) ? std::fabs(fv) : 1.0);
    double lo_ref = alias >= 0 ? x : lb, hi_ref = alias >= 0 ? x : ub;
    long mlo = !defd ? 0 : (fv >= lo_ref && std::isinf(fv - lo_ref)) ? 999999999 : margin(fv - lo_ref, scale);
    long mhi = !defd ? 0 : (hi_ref >= fv && std::isinf(hi_ref - fv)) ? 999999999 : margin(hi_ref - fv, scale);
    if (defd && fv == lo_ref) mlo = 0;      // inf - inf
    if (defd && fv == hi_ref) mhi = 0;
    char b[200];
    snprintf(b, sizeof b, "%s{\"x\":\"%.17g\",\"f\":\"%.17g\",\"lo\":%ld,\"hi\":%ld,\"isint\":%s,\"defd\":%s}", i ? "," : "", x, fv, mlo, mhi,
             (std::isfinite(fv) && std::floor(fv) == fv) ? "true" : "false", defd ? "true" : "false");
    s += b;
  }
  s += "]";
  fprintf(out, "{\"e\":\"Res\",\"id\":%ld,\"kind\":\"%s\",\"var\":%d,\"lb\":%s,\"ub\":%s,\"int\":%s,\"xlo\":%s,\"xhi\":%s,\"samples\":%s}\n", id, kind,
          alias >= 0 ? alias : 0, verif::jnum(lb).c_str(), verif::jnum(ub).c_str(), isint ? "true" : "false",
          verif::jnum(xlo).c_str(), verif::jnum(xhi).c_str(), s.c_str());
}

int main(int argc, char **argv) {
  if (argc < 3) { fprintf(stderr, "usage: h_bounds <cases.txt> <out.ndjson>\n"); return 2; }
  std::ifstream in(argv[1]);
  FILE *out = fopen(argv[2], "w");
  vtrace_install(out);
  std::string line;
  // a type prefixed with '+' is asked of the PREVIOUS line's converter, over its argument variables
  std::unique_ptr<TestSolver> envp;
  std::unique_ptr<Flt> fltp;
  while (std::getline(in, line)) {
    if (line.empty()) continue;
    std::istringstream ss(line);
    long id; std::string type; int nargs;
    ss >> id >> type >> nargs;
    bool cont = !type.empty() && type[0] == '+';
    if (cont) type.erase(0, 1);
    char ctx[128]; snprintf(ctx, sizeof ctx, "case %ld %s", id, type.c_str()); vtrace_ctx(ctx);
    try {
      if (!cont || !fltp) {
        fltp.reset(); envp.reset();
        envp.reset(new TestSolver);
        fltp.reset(new Flt(*envp));
        fltp->InitOptions();
        envp->ParseOptionString("cvt:cmp:eps=6.103515625e-05", 0);
        g_args.clear();
        cont = false;
      }
      Flt &flt = *fltp;
      Cvt &cvt = flt.GetFlatCvt();
      std::vector<int> args;
      for (int i = 0; i < nargs; ++i) {
        double lb = rd(ss), ub = rd(ss); int isint; ss >> isint;
        if (!cont) args.push_back((int)cvt.AddVar(lb, ub, isint ? var::INTEGER : var::CONTINUOUS));
      }
      if (cont) args = g_args;
      g_args = args;
      bool aint = false;
      {
        std::istringstream s2(line); long i2; std::string t2; int n2; s2 >> i2 >> t2 >> n2;
        if (n2 >= 1) { rd(s2); rd(s2); int ii; s2 >> ii; aint = ii != 0; }
      }
      int np; ss >> np;
      std::vector<double> prm;
      for (int i = 0; i < np; ++i) prm.push_back(rd(ss));
      auto A1 = [&]() { return VarArray1{args[0]}; };
      if (type == "Max") report(out, id, cvt, cvt.AssignResult2Args(MaxConstraint(args)), nargs);
      else if (type == "Min") report(out, id, cvt, cvt.AssignResult2Args(MinConstraint(args)), nargs);
      else if (type == "Abs") report(out, id, cvt, cvt.AssignResult2Args(AbsConstraint(A1())), nargs);
      else if (type == "And") report(out, id, cvt, cvt.AssignResult2Args(AndConstraint(args)), nargs);
      else if (type == "Or") report(out, id, cvt, cvt.AssignResult2Args(OrConstraint(args)), nargs);
      else if (type == "Not") report(out, id, cvt, cvt.AssignResult2Args(NotConstraint(A1())), nargs);
      else if (type == "Div") report(out, id, cvt, cvt.AssignResult2Args(DivConstraint(VarArray2{args[0], args[1]})), nargs);
      else if (type == "IfThen") report(out, id, cvt, cvt.AssignResult2Args(IfThenConstraint(VarArrayN<3>{args[0], args[1], args[2]})), nargs);
      else if (type == "Implication") report(out, id, cvt, cvt.AssignResult2Args(ImplicationConstraint(VarArrayN<3>{args[0], args[1], args[2]})), nargs);
      else if (type == "AllDiff") report(out, id, cvt, cvt.AssignResult2Args(AllDiffConstraint(args)), nargs);
      else if (type == "NumberofConst") report(out, id, cvt, cvt.AssignResult2Args(NumberofConstConstraint(args, DblParamArray1{prm[0]})), nargs);
      else if (type == "NumberofVar") report(out, id, cvt, cvt.AssignResult2Args(NumberofVarConstraint(args)), nargs);
      else if (type == "Count") report(out, id, cvt, cvt.AssignResult2Args(CountConstraint(args)), nargs);
      else if (type == "Pow") report(out, id, cvt, cvt.AssignResult2Args(PowConstraint(A1(), DblParamArray1{prm[0]})), nargs);
#define TR(NAME, CON, F) else if (type == NAME) report_transc(out, id, cvt, cvt.AssignResult2Args(CON), aint, F);
      TR("Exp", ExpConstraint(A1()), [](double x) { return std::exp(x); })
      TR("Log", LogConstraint(A1()), [](double x) { return std::log(x); })
      TR("ExpA", ExpAConstraint(A1(), DblParamArray1{prm[0]}), [&](double x) { return std::pow(prm[0], x); })
      TR("LogA", LogAConstraint(A1(), DblParamArray1{prm[0]}), [&](double x) { return std::log(x) / std::log(prm[0]); })
      TR("PowR", PowConstraint(A1(), DblParamArray1{prm[0]}), [&](double x) { return std::pow(x, prm[0]); })
      TR("Sin", SinConstraint(A1()), [](double x) { return std::sin(x); })
      TR("Cos", CosConstraint(A1()), [](double x) { return std::cos(x); })
      TR("Tan", TanConstraint(A1()), [](double x) { return std::tan(x); })
      TR("Asin", AsinConstraint(A1()), [](double x) { return std::asin(x); })
      TR("Acos", AcosConstraint(A1()), [](double x) { return std::acos(x); })
      TR("Atan", AtanConstraint(A1()), [](double x) { return std::atan(x); })
      TR("Sinh", SinhConstraint(A1()), [](double x) { return std::sinh(x); })
      TR("Cosh", CoshConstraint(A1()), [](double x) { return std::cosh(x); })
      TR("Tanh", TanhConstraint(A1()), [](double x) { return std::tanh(x); })
      TR("Asinh", AsinhConstraint(A1()), [](double x) { return std::asinh(x); })
      TR("Acosh", AcoshConstraint(A1()), [](double x) { return std::acosh(x); })
      TR("Atanh", AtanhConstraint(A1()), [](double x) { return std::atanh(x); })
#undef TR
      else if (type == "PL") {
        // prm = x1 y1 x2 y2 ...
        std::vector<double> x, y;
        for (size_t i = 0; i + 1 < prm.size(); i += 2) { x.push_back(prm[i]); y.push_back(prm[i + 1]); }
        report(out, id, cvt, cvt.AssignResult2Args(PLConstraint(A1(), PLConParams(PLPoints(x, y)))), nargs);
      } else if (type == "LinFunc" || type == "QuadFunc" || type.rfind("CondLin", 0) == 0 || type.rfind("CondQuad", 0) == 0) {
        // prm = const|rhs, then linear coefs (nargs), then for Quad: triples (c, i, j) of arg positions
        double c0 = prm[0];
        std::vector<double> lc(prm.begin() + 1, prm.begin() + 1 + nargs);
        LinTerms lt(lc, args);
        QuadTerms qt;
        for (size_t i = 1 + nargs; i + 3 <= prm.size(); i += 3)
          qt.add_term(prm[i], args[(int)prm[i + 1]], args[(int)prm[i + 2]]);
        if (type == "LinFunc") report(out, id, cvt, cvt.AssignResult2Args(LinearFunctionalConstraint(AffineExpr(lt, c0))), nargs);
        else if (type == "QuadFunc") report(out, id, cvt, cvt.AssignResult2Args(QuadraticFunctionalConstraint(QuadraticExpr(QuadAndLinTerms(lt, qt), c0))), nargs);
        else if (type == "CondLinLT") report(out, id, cvt, cvt.AssignResult2Args(CondLinConLT(LinConLT(lt, c0))), nargs);
        else if (type == "CondLinLE") report(out, id, cvt, cvt.AssignResult2Args(CondLinConLE(LinConLE(lt, c0))), nargs);
        else if (type == "CondLinEQ") report(out, id, cvt, cvt.AssignResult2Args(CondLinConEQ(LinConEQ(lt, c0))), nargs);
        else if (type == "CondLinGE") report(out, id, cvt, cvt.AssignResult2Args(CondLinConGE(LinConGE(lt, c0))), nargs);
        else if (type == "CondLinGT") report(out, id, cvt, cvt.AssignResult2Args(CondLinConGT(LinConGT(lt, c0))), nargs);
        else if (type == "CondQuadLE") report(out, id, cvt, cvt.AssignResult2Args(CondQuadConLE(QuadConLE(QuadAndLinTerms(lt, qt), c0))), nargs);
        else if (type == "CondQuadEQ") report(out, id, cvt, cvt.AssignResult2Args(CondQuadConEQ(QuadConEQ(QuadAndLinTerms(lt, qt), c0))), nargs);
        else if (type == "CondQuadGE") report(out, id, cvt, cvt.AssignResult2Args(CondQuadConGE(QuadConGE(QuadAndLinTerms(lt, qt), c0))), nargs);
        else fprintf(out, "{\"e\":\"Res\",\"id\":%ld,\"kind\":\"unknowntype\"}\n", id);
      } else
        fprintf(out, "{\"e\":\"Res\",\"id\":%ld,\"kind\":\"unknowntype\"}\n", id);
    } catch (const std::exception &ex) {
      fprintf(out, "{\"e\":\"Res\",\"id\":%ld,\"kind\":\"throw\",\"msg\":%s}\n", id, verif::jstr(ex.what()).c_str());
    }
    fflush(out);
  }
  fltp.reset(); envp.reset();
  fclose(out);
  return 0;
}
