// C18 harness: builds pairs of expression trees through the real mp::ExprFactory
// and records what mp::Equal and std::hash<mp::Expr> answer.  No judgement
// here: TraceExprTree.tla decides.
//
// usage: h_exprtree <cases.tsv> <out.ndjson>
// cases.tsv, one case per line:  id \t fam \t rel \t prefixA \t prefixB
//   prefix form of a tree:  kind ns s1..sns nc child1..childnc   (blank separated)
// For every case a is built twice independently (a1 with the primary rendering
// of the atoms, a2 with the alternate one, e.g. -0.0 for 0.0), once with shared
// sub-expressions (a3), and b once.  The trees are then read back from the real
// objects (kind(), value(), arg(i), ...) and printed next to the answers.
// A worker process does the work; if it dies (sanitizer report, SIGSEGV) the
// parent records a Crash line for the case it was working on and starts a new
// worker behind it, so that every crashing case is reported.
#include <cmath>
#include <cstdint>
#include <cstdio>
#include <cstdlib>
#include <cstring>
#include <fstream>
#include <map>
#include <sstream>
#include <string>
#include <vector>
#include <sys/mman.h>
#include <sys/wait.h>
#include <unistd.h>

#include "mp/expr.h"
#include "vtrace.h"

namespace ex = mp::expr;
using mp::Expr;

// ---- atoms ------------------------------------------------------------
struct NumAtom { const char *name; double v, alt; };
static const double kNaN = std::nan("");
// Both builds use the same NaN: whether NaNs with different payloads are "the
// same constant" is not settled by the property, so no case depends on it.
static const NumAtom NUMS[] = {
  {"n0", 0.0, -0.0}, {"n1", 1.0, 1.0}, {"n2", 1.0000000000000002, 1.0000000000000002},
  {"n3", -2.5, -2.5}, {"nan", kNaN, kNaN}, {"inf", INFINITY, INFINITY},
  {"big", 1.7976931348623157e308, 1.7976931348623157e308}, {"den", 4.9406564584124654e-324, 4.9406564584124654e-324},
};
struct IdxAtom { const char *name; int v; };
static const IdxAtom IDXS[] = {{"i0", 0}, {"i1", 1}, {"i2", 2147483647}};
struct StrAtom { const char *name; std::string v; };
static std::vector<StrAtom> STRS;
struct FuncAtom { const char *name; const char *fname; int nargs; mp::func::Type type; };
static const FuncAtom FUNCS[] = {{"f0", "foo", -1, mp::func::SYMBOLIC}, {"f1", "bar", -1, mp::func::SYMBOLIC},
                                 {"f2", "foo", 2, mp::func::NUMERIC},
                                 // a second table entry with the signature of f0: a different function all the same
                                 {"f3", "foo", -1, mp::func::SYMBOLIC}};

struct KindName { const char *name; ex::Kind kind; };
static const KindName KINDS[] = {
  {"num", ex::NUMBER}, {"var", ex::VARIABLE}, {"cexpr", ex::COMMON_EXPR},
  {"minus", ex::MINUS}, {"abs", ex::ABS}, {"floor", ex::FLOOR}, {"ceil", ex::CEIL}, {"sqrt", ex::SQRT},
  {"pow2", ex::POW2}, {"exp", ex::EXP}, {"log", ex::LOG}, {"log10", ex::LOG10}, {"sin", ex::SIN},
  {"sinh", ex::SINH}, {"cos", ex::COS}, {"cosh", ex::COSH}, {"tan", ex::TAN}, {"tanh", ex::TANH},
  {"asin", ex::ASIN}, {"asinh", ex::ASINH}, {"acos", ex::ACOS}, {"acosh", ex::ACOSH}, {"atan", ex::ATAN},
  {"atanh", ex::ATANH},
  {"add", ex::ADD}, {"sub", ex::SUB}, {"less", ex::LESS}, {"mul", ex::MUL}, {"div", ex::DIV},
  {"truncdiv", ex::TRUNC_DIV}, {"mod", ex::MOD}, {"pow", ex::POW}, {"powconstbase", ex::POW_CONST_BASE},
  {"powconstexp", ex::POW_CONST_EXP}, {"atan2", ex::ATAN2}, {"precision", ex::PRECISION},
  {"round", ex::ROUND}, {"trunc", ex::TRUNC},
  {"if", ex::IF}, {"plterm", ex::PLTERM}, {"call", ex::CALL}, {"min", ex::MIN}, {"max", ex::MAX},
  {"sum", ex::SUM}, {"numberof", ex::NUMBEROF}, {"numberofsym", ex::NUMBEROF_SYM}, {"count", ex::COUNT},
  {"bool", ex::BOOL}, {"not", ex::NOT}, {"or", ex::OR}, {"and", ex::AND}, {"iff", ex::IFF},
  {"lt", ex::LT}, {"le", ex::LE}, {"eq", ex::EQ}, {"ge", ex::GE}, {"gt", ex::GT}, {"ne", ex::NE},
  {"atleast", ex::ATLEAST}, {"atmost", ex::ATMOST}, {"exactly", ex::EXACTLY},
  {"notatleast", ex::NOT_ATLEAST}, {"notatmost", ex::NOT_ATMOST}, {"notexactly", ex::NOT_EXACTLY},
  {"implication", ex::IMPLICATION}, {"exists", ex::EXISTS}, {"forall", ex::FORALL},
  {"alldiff", ex::ALLDIFF}, {"notalldiff", ex::NOT_ALLDIFF}, {"str", ex::STRING}, {"ifsym", ex::IFSYM},
};
static std::map<std::string, ex::Kind> kind_by_name;
static std::map<int, const char *> name_by_kind;

[[noreturn]] static void die(const std::string &m) {
  fprintf(stderr, "h_exprtree: %s\n", m.c_str());
  _exit(3);
}

// ---- building -----------------------------------------------------------
struct Builder {
  mp::ExprFactory &f;
  std::vector<mp::Function> &funcs;
  const std::vector<std::string> &tok;
  size_t pos = 0;
  bool alt;                                   // alternate rendering of atoms
  std::map<std::string, Expr> *memo;          // non-null: share equal sub-expressions
  Builder(mp::ExprFactory &f, std::vector<mp::Function> &fn, const std::vector<std::string> &t, bool alt,
          std::map<std::string, Expr> *memo) : f(f), funcs(fn), tok(t), alt(alt), memo(memo) {}

  const std::string &next() { if (pos >= tok.size()) die("truncated tree"); return tok[pos++]; }
  int nexti() { return atoi(next().c_str()); }

  double num(const std::string &a) {
    for (const NumAtom &n : NUMS) if (a == n.name) return alt ? n.alt : n.v;
    die("number atom " + a);
  }
  int idx(const std::string &a) {
    for (const IdxAtom &n : IDXS) if (a == n.name) return n.v;
    die("index atom " + a);
  }
  const std::string &str(const std::string &a) {
    for (const StrAtom &n : STRS) if (a == n.name) return n.v;
    die("string atom " + a);
  }
  mp::Function func(const std::string &a) {
    for (size_t i = 0; i < sizeof(FUNCS) / sizeof(*FUNCS); ++i) if (a == FUNCS[i].name) return funcs[i];
    die("function atom " + a);
  }

  Expr build() {
    size_t start = pos;
    if (memo) {                                // look ahead to the end of this subtree
      size_t save = pos; skip(); size_t end = pos; pos = save;
      std::string key;
      for (size_t i = start; i < end; ++i) { key += tok[i]; key += ' '; }
      auto it = memo->find(key);
      if (it != memo->end()) { pos = end; return it->second; }
      Expr e = build1();
      (*memo)[key] = e;
      return e;
    }
    return build1();
  }
  void skip() {
    next(); int ns = nexti(); for (int i = 0; i < ns; ++i) next();
    int nc = nexti(); for (int i = 0; i < nc; ++i) skip();
  }
  template <typename T> T as(Expr e, const char *what) {
    T t = mp::Cast<T>(e);
    if (!t) die(std::string("child is not ") + what);
    return t;
  }
  mp::NumericExpr N(Expr e) { return as<mp::NumericExpr>(e, "numeric"); }
  mp::LogicalExpr L(Expr e) { return as<mp::LogicalExpr>(e, "logical"); }

  Expr build1() {
    std::string k = next();
    auto ki = kind_by_name.find(k);
    if (ki == kind_by_name.end()) die("kind " + k);
    ex::Kind kind = ki->second;
    int ns = nexti();
    std::vector<std::string> s;
    for (int i = 0; i < ns; ++i) s.push_back(next());
    int nc = nexti();
    std::vector<Expr> c;
    for (int i = 0; i < nc; ++i) c.push_back(build());
    auto need = [&](int wantS, int wantC) {
      if ((wantS >= 0 && ns != wantS) || (wantC >= 0 && nc != wantC)) die("shape of " + k);
    };
    switch (kind) {
    case ex::NUMBER: need(1, 0); return f.MakeNumericConstant(num(s[0]));
    case ex::VARIABLE: need(1, 0); return f.MakeVariable(idx(s[0]));
    case ex::COMMON_EXPR: need(1, 0); return f.MakeCommonExpr(idx(s[0]));
    case ex::BOOL: need(1, 0); return f.MakeLogicalConstant(s[0] == "t");
    case ex::STRING: need(1, 0); return f.MakeStringLiteral(str(s[0]));
    case ex::IF: need(0, 3); return f.MakeIf(L(c[0]), N(c[1]), N(c[2]));
    case ex::IFSYM: need(0, 3); return f.MakeSymbolicIf(L(c[0]), c[1], c[2]);
    case ex::IMPLICATION: need(0, 3); return f.MakeImplication(L(c[0]), L(c[1]), L(c[2]));
    case ex::NOT: need(0, 1); return f.MakeNot(L(c[0]));
    case ex::PLTERM: {
      if (ns < 3 || ns % 2 == 0 || nc != 1) die("shape of plterm");
      int nbp = (ns - 1) / 2;
      mp::ExprFactory::PLTermBuilder b = f.BeginPLTerm(nbp);
      for (int i = 0; i < nbp; ++i) { b.AddSlope(num(s[2 * i])); b.AddBreakpoint(num(s[2 * i + 1])); }
      b.AddSlope(num(s[2 * nbp]));
      return f.EndPLTerm(b, as<mp::Reference>(c[0], "a reference"));
    }
    case ex::CALL: {
      need(1, -1);
      mp::ExprFactory::CallExprBuilder b = f.BeginCall(func(s[0]), nc);
      for (Expr a : c) b.AddArg(a);
      return f.EndCall(b);
    }
    case ex::MIN: case ex::MAX: case ex::SUM: {
      need(0, -1);
      mp::ExprFactory::IteratedExprBuilder b = kind == ex::SUM ? f.BeginSum(nc) : f.BeginIterated(kind, nc);
      for (Expr a : c) b.AddArg(N(a));
      return kind == ex::SUM ? f.EndSum(b) : f.EndIterated(b);
    }
    case ex::NUMBEROF: {
      if (ns != 0 || nc < 1) die("shape of numberof");
      mp::ExprFactory::NumberOfExprBuilder b = f.BeginNumberOf(nc, N(c[0]));
      for (int i = 1; i < nc; ++i) b.AddArg(N(c[i]));
      return f.EndNumberOf(b);
    }
    case ex::NUMBEROF_SYM: {
      if (ns != 0 || nc < 1) die("shape of numberofsym");
      mp::ExprFactory::SymbolicNumberOfExprBuilder b = f.BeginSymbolicNumberOf(nc, c[0]);
      for (int i = 1; i < nc; ++i) b.AddArg(c[i]);
      return f.EndSymbolicNumberOf(b);
    }
    case ex::COUNT: {
      need(0, -1);
      mp::ExprFactory::CountExprBuilder b = f.BeginCount(nc);
      for (Expr a : c) b.AddArg(L(a));
      return f.EndCount(b);
    }
    case ex::EXISTS: case ex::FORALL: {
      need(0, -1);
      mp::ExprFactory::IteratedLogicalExprBuilder b = f.BeginIteratedLogical(kind, nc);
      for (Expr a : c) b.AddArg(L(a));
      return f.EndIteratedLogical(b);
    }
    case ex::ALLDIFF: case ex::NOT_ALLDIFF: {
      need(0, -1);
      mp::ExprFactory::PairwiseExprBuilder b = f.BeginPairwise(kind, nc);
      for (Expr a : c) b.AddArg(N(a));
      return f.EndPairwise(b);
    }
    default: break;
    }
    if (kind >= ex::FIRST_UNARY && kind <= ex::LAST_UNARY) { need(0, 1); return f.MakeUnary(kind, N(c[0])); }
    if (kind >= ex::FIRST_BINARY && kind <= ex::LAST_BINARY) { need(0, 2); return f.MakeBinary(kind, N(c[0]), N(c[1])); }
    if (kind >= ex::FIRST_BINARY_LOGICAL && kind <= ex::LAST_BINARY_LOGICAL) { need(0, 2); return f.MakeBinaryLogical(kind, L(c[0]), L(c[1])); }
    if (kind >= ex::FIRST_RELATIONAL && kind <= ex::LAST_RELATIONAL) { need(0, 2); return f.MakeRelational(kind, N(c[0]), N(c[1])); }
    if (kind >= ex::FIRST_LOGICAL_COUNT && kind <= ex::LAST_LOGICAL_COUNT) {
      need(0, 2);
      return f.MakeLogicalCount(kind, N(c[0]), as<mp::CountExpr>(c[1], "a count"));
    }
    die("unhandled kind " + k);
  }
};

// ---- reading the real objects back ---------------------------------------
struct Dumper {
  std::vector<mp::Function> &funcs;
  std::string out;
  explicit Dumper(std::vector<mp::Function> &f) : funcs(f) {}

  static std::string num(double v) {
    if (v != v) return "nan";
    for (const NumAtom &n : NUMS) if (n.v == v) return n.name;     // 0.0 == -0.0: the same constant
    return "?num";
  }
  static std::string idx(int v) {
    for (const IdxAtom &n : IDXS) if (n.v == v) return n.name;
    return "?idx";
  }
  static std::string str(const char *v) {
    for (const StrAtom &n : STRS) if (n.v == v) return n.name;
    return "?str";
  }
  std::string func(mp::Function fn) {
    // which table entry: by the address of the entry's own copy of the name (not by operator==, which is under test)
    for (size_t i = 0; i < funcs.size(); ++i) if (funcs[i].name() == fn.name()) return FUNCS[i].name;
    return "?func";
  }
  void node(const char *k, const std::vector<std::string> &s, const std::vector<Expr> &c) {
    out += "{\"k\":\""; out += k; out += "\",\"s\":[";
    for (size_t i = 0; i < s.size(); ++i) { if (i) out += ","; out += "\"" + s[i] + "\""; }
    out += "],\"c\":[";
    for (size_t i = 0; i < c.size(); ++i) { if (i) out += ","; dump(c[i]); }
    out += "]}";
  }
  template <typename E> std::vector<Expr> args(E e) {
    std::vector<Expr> c;
    for (typename E::iterator i = e.begin(), end = e.end(); i != end; ++i) c.push_back(*i);
    return c;
  }
  void dump(Expr e) {
    ex::Kind kind = e.kind();
    auto it = name_by_kind.find(kind);
    const char *k = it == name_by_kind.end() ? "?kind" : it->second;
    using mp::internal::UncheckedCast;
    switch (kind) {
    case ex::NUMBER: return node(k, {num(UncheckedCast<mp::NumericConstant>(e).value())}, {});
    case ex::VARIABLE: case ex::COMMON_EXPR: return node(k, {idx(UncheckedCast<mp::Reference>(e).index())}, {});
    case ex::BOOL: return node(k, {UncheckedCast<mp::LogicalConstant>(e).value() ? "t" : "f"}, {});
    case ex::STRING: return node(k, {str(UncheckedCast<mp::StringLiteral>(e).value())}, {});
    case ex::IF: { auto x = UncheckedCast<mp::IfExpr>(e); return node(k, {}, {x.condition(), x.then_expr(), x.else_expr()}); }
    case ex::IFSYM: { auto x = UncheckedCast<mp::SymbolicIfExpr>(e); return node(k, {}, {x.condition(), x.then_expr(), x.else_expr()}); }
    case ex::IMPLICATION: { auto x = UncheckedCast<mp::ImplicationExpr>(e); return node(k, {}, {x.condition(), x.then_expr(), x.else_expr()}); }
    case ex::NOT: return node(k, {}, {UncheckedCast<mp::NotExpr>(e).arg()});
    case ex::PLTERM: {
      auto x = UncheckedCast<mp::PLTerm>(e);
      std::vector<std::string> s;
      for (int i = 0; i < x.num_breakpoints(); ++i) { s.push_back(num(x.slope(i))); s.push_back(num(x.breakpoint(i))); }
      s.push_back(num(x.slope(x.num_breakpoints())));
      return node(k, s, {x.arg()});
    }
    case ex::CALL: { auto x = UncheckedCast<mp::CallExpr>(e); return node(k, {func(x.function())}, args(x)); }
    case ex::MIN: case ex::MAX: case ex::SUM: case ex::NUMBEROF: return node(k, {}, args(UncheckedCast<mp::IteratedExpr>(e)));
    case ex::NUMBEROF_SYM: return node(k, {}, args(UncheckedCast<mp::SymbolicNumberOfExpr>(e)));
    case ex::COUNT: return node(k, {}, args(UncheckedCast<mp::CountExpr>(e)));
    case ex::EXISTS: case ex::FORALL: return node(k, {}, args(UncheckedCast<mp::IteratedLogicalExpr>(e)));
    case ex::ALLDIFF: case ex::NOT_ALLDIFF: return node(k, {}, args(UncheckedCast<mp::PairwiseExpr>(e)));
    default: break;
    }
    if (kind >= ex::FIRST_UNARY && kind <= ex::LAST_UNARY) return node(k, {}, {UncheckedCast<mp::UnaryExpr>(e).arg()});
    if (kind >= ex::FIRST_BINARY && kind <= ex::LAST_BINARY) { auto x = UncheckedCast<mp::BinaryExpr>(e); return node(k, {}, {x.lhs(), x.rhs()}); }
    if (kind >= ex::FIRST_BINARY_LOGICAL && kind <= ex::LAST_BINARY_LOGICAL) { auto x = UncheckedCast<mp::BinaryLogicalExpr>(e); return node(k, {}, {x.lhs(), x.rhs()}); }
    if (kind >= ex::FIRST_RELATIONAL && kind <= ex::LAST_RELATIONAL) { auto x = UncheckedCast<mp::RelationalExpr>(e); return node(k, {}, {x.lhs(), x.rhs()}); }
    if (kind >= ex::FIRST_LOGICAL_COUNT && kind <= ex::LAST_LOGICAL_COUNT) { auto x = UncheckedCast<mp::LogicalCountExpr>(e); return node(k, {}, {x.lhs(), x.rhs()}); }
    node("?kind", {}, {});
  }
};

// ---- observations ----------------------------------------------------------
static std::string equal(Expr x, Expr y) {
  try { return mp::Equal(x, y) ? "T" : "F"; }
  catch (const mp::UnsupportedError &) { return "U"; }
  catch (const std::exception &e) { return std::string("X"); }
}
static std::string hash(Expr x) {
  try {
    char buf[32];
    snprintf(buf, sizeof(buf), "%016zx", std::hash<Expr>()(x));
    return buf;
  }
  catch (const mp::UnsupportedError &) { return "U"; }
  catch (const std::exception &e) { return std::string("X"); }
}

static std::vector<std::string> split(const std::string &s, char sep) {
  std::vector<std::string> r; std::string cur;
  std::istringstream is(s);
  while (std::getline(is, cur, sep)) r.push_back(cur);
  return r;
}
static std::vector<std::string> words(const std::string &s) {
  std::vector<std::string> r; std::istringstream is(s); std::string w;
  while (is >> w) r.push_back(w);
  return r;
}

static void run_case(FILE *out, const std::vector<std::string> &fld) {
  mp::ExprFactory f;
  std::vector<mp::Function> funcs;
  for (const FuncAtom &fa : FUNCS) funcs.push_back(f.AddFunction(fa.fname, fa.nargs, fa.type));
  std::vector<std::string> ta = words(fld[3]), tb = words(fld[4]);
  Expr a1 = Builder(f, funcs, ta, false, nullptr).build();
  Expr b = Builder(f, funcs, tb, false, nullptr).build();
  Expr a2 = Builder(f, funcs, ta, true, nullptr).build();
  std::map<std::string, Expr> memo;
  Expr a3 = Builder(f, funcs, ta, false, &memo).build();
  Dumper da(funcs), db(funcs), d3(funcs);
  da.dump(a1); db.dump(b); d3.dump(a3);
  // the answers of the real code
  std::string a1a2 = equal(a1, a2), a2a1 = equal(a2, a1), a1a3 = equal(a1, a3), a1b = equal(a1, b),
              ba1 = equal(b, a1), a2b = equal(a2, b), a1a1 = equal(a1, a1), bb = equal(b, b);
  std::string ha1 = hash(a1), ha2 = hash(a2), ha3 = hash(a3), hb = hash(b);
  fprintf(out, "{\"e\":\"Pair\",\"id\":%s,\"fam\":\"%s\",\"rel\":\"%s\",\"a\":%s,\"b\":%s,\"a3\":%s,"
               "\"eq\":{\"a1a2\":\"%s\",\"a2a1\":\"%s\",\"a1a3\":\"%s\",\"a1b\":\"%s\",\"ba1\":\"%s\",\"a2b\":\"%s\",\"a1a1\":\"%s\",\"bb\":\"%s\"},"
               "\"h\":{\"a1\":\"%s\",\"a2\":\"%s\",\"a3\":\"%s\",\"b\":\"%s\"},\"shared\":%d}\n",
          fld[0].c_str(), fld[1].c_str(), fld[2].c_str(), da.out.c_str(), db.out.c_str(), d3.out.c_str(),
          a1a2.c_str(), a2a1.c_str(), a1a3.c_str(), a1b.c_str(), ba1.c_str(), a2b.c_str(), a1a1.c_str(), bb.c_str(),
          ha1.c_str(), ha2.c_str(), ha3.c_str(), hb.c_str(), (int)memo.size());
}

int main(int argc, char **argv) {
  if (argc < 3) { fprintf(stderr, "usage: h_exprtree <cases.tsv> <out.ndjson>\n"); return 2; }
  for (const KindName &k : KINDS) { kind_by_name[k.name] = k.kind; name_by_kind[k.kind] = k.name; }
  STRS = {{"sa", "abc"}, {"sb", "abd"}, {"sc", "ab"}, {"se", ""}, {"sl", std::string(5000, 'x') + "y"}};
  std::vector<std::vector<std::string>> cases;
  {
    std::ifstream in(argv[1]);
    std::string line;
    while (std::getline(in, line)) {
      if (line.empty()) continue;
      std::vector<std::string> fld = split(line, '\t');
      if (fld.size() != 5) die("bad case line: " + line.substr(0, 80));
      cases.push_back(fld);
    }
  }
  FILE *out = fopen(argv[2], "w");
  if (!out) die("cannot open output");
  fprintf(out, "{\"e\":\"Meta\",\"cases\":%zu}\n", cases.size());
  fflush(out);
  // progress shared with the worker: index of the case being worked on
  volatile long *progress = (volatile long *)mmap(nullptr, sizeof(long), PROT_READ | PROT_WRITE,
                                                  MAP_SHARED | MAP_ANONYMOUS, -1, 0);
  if (progress == MAP_FAILED) die("mmap");
  size_t start = 0;
  int crashes = 0;
  while (start < cases.size()) {
    fflush(out);
    pid_t pid = fork();
    if (pid < 0) die("fork");
    if (pid == 0) {
      vtrace_install(out);
      for (size_t i = start; i < cases.size(); ++i) {
        *progress = (long)i;
        vtrace_ctx(cases[i][0].c_str());
        run_case(out, cases[i]);
        fflush(out);          // a sanitizer may end the process without flushing
      }
      fflush(out);
      _exit(0);
    }
    int st = 0;
    waitpid(pid, &st, 0);
    if (WIFEXITED(st) && WEXITSTATUS(st) == 0) break;
    if (WIFEXITED(st) && WEXITSTATUS(st) == 3) return 3;          // malformed input: harness problem
    long at = *progress;
    // the worker may have written its own Crash record (vtrace, status 97); otherwise write one
    if (!(WIFEXITED(st) && WEXITSTATUS(st) == 97))
      fprintf(out, "\n{\"e\":\"Crash\",\"what\":\"worker status %d signal %d\",\"ctx\":\"%s\"}\n",
              WIFEXITED(st) ? WEXITSTATUS(st) : -1, WIFSIGNALED(st) ? WTERMSIG(st) : 0, cases[at][0].c_str());
    fflush(out);
    start = (size_t)at + 1;
    if (++crashes > 2000) { fprintf(out, "{\"e\":\"Crash\",\"what\":\"too many crashes\",\"ctx\":\"\"}\n"); break; }
  }
  fclose(out);
  return 0;
}
