// Crash handling shared by all harnesses: a crash, a sanitizer abort or an
// uncaught exception becomes an explicit {"e":"Crash"} record (which every
// Trace*.tla rejects) instead of a silently short trace.
#ifndef VTRACE_H_
#define VTRACE_H_
#include <csignal>
#include <cstdio>
#include <cstdlib>
#include <cstring>
#include <exception>
#include <unistd.h>

static FILE *vtrace_file_ = nullptr;
static char vtrace_ctx_[256] = "";

inline void vtrace_ctx(const char *s) { strncpy(vtrace_ctx_, s, sizeof(vtrace_ctx_) - 1); }

inline void vtrace_crash_(const char *what) {
  if (vtrace_file_) {
    fprintf(vtrace_file_, "\n{\"e\":\"Crash\",\"what\":\"%s\",\"ctx\":\"%s\"}\n", what, vtrace_ctx_);
    fflush(vtrace_file_);
  }
  _exit(97);
}
inline void vtrace_sig_(int s) {
  vtrace_crash_(s == SIGSEGV ? "SIGSEGV" : s == SIGABRT ? "SIGABRT" : s == SIGFPE ? "SIGFPE" : s == SIGBUS ? "SIGBUS" : "signal");
}
inline void vtrace_term_() { vtrace_crash_("terminate"); }
extern "C" inline void __asan_on_error() { vtrace_crash_("asan"); }

inline void vtrace_install(FILE *f) {
  vtrace_file_ = f;
  std::set_terminate(vtrace_term_);
  signal(SIGSEGV, vtrace_sig_); signal(SIGABRT, vtrace_sig_);
  signal(SIGFPE, vtrace_sig_); signal(SIGBUS, vtrace_sig_); signal(SIGILL, vtrace_sig_);
}
#endif
