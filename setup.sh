#!/bin/sh
# Offline setup after a fresh restore: pre-build every harness from /repo's
# current tree (fills the ccache under .build/, so that the checks' own
# rebuild-from-source step is fast).
cd "$(dirname "$0")"
mkdir -p .build out evidence
python3 tools/prebuild.py
