#!/usr/bin/env python3
"""C13 (structural part) - piecewise-linear approximations: breakpoints strictly increasing,
start/end at the reported domain, period bookkeeping, integer shortcut, bounded size,
the call returns (PLShape.tla).  The real-valued error bound is NOT decided here."""
import concurrent.futures as cf
import json, math, os, sys, time
sys.path.insert(0, os.path.join(os.path.dirname(os.path.abspath(__file__)), "..", "tools"))
from vlib import *

PID = "C13"
PL = os.path.join(SPECS, "pl")
PI = math.pi

# ---- concretisation tables (indices come from GenPL.tla; same order) ----
PARAMS = {
    "ExpA": [2.0, 10.0, 0.5, 1.5],
    "LogA": [2.0, 10.0, 0.5],
    "Pow": [-3.0, -2.0, -1.0, -0.5, 0.5, 1.5, 2.0, 3.0, 4.0, 5.0],
}
INTERVALS = [
    (-1e6, 1e6), (-1e100, 1e100), (-1e30, 1e30),                    # huge
    (0.0, 1e6), (-1e6, 0.0),                                        # zeroedge
    (1e-9, 1e-3),                                                   # tinymag
    (1.0, 1.0 + 1e-5), (0.5, 0.5 + 2e-6),                           # tinywidth
    (0.25, 0.25 + 5e-7),                                            # trivial (< 1e-6 wide)
    (2.0, 2.0),                                                     # point
    (3.0, 1.0),                                                     # empty
    (0.1, 0.7), (-0.3, 0.3), (1.0 / 3, 2.0 / 3),                    # nonfloat
    (-1.0, 1.0), (-1e-3, 1e-3),                                     # straddle0
    (-10.0, 10.0), (0.0, 1.0), (1.0, 10.0), (1.0, 100.0),           # plain
    (0.5, 3.5), (-2.5, 7.25),                                       # halfint
    (3.0, 7.0), (0.0, 20.0), (-5.0, 5.0),                           # ints
    (100.0, 100.000002), (1000.0001, 1000.0002),                    # f32merge
    (16777216.0, 16777218.0),                                       # f32edge
    (123456.789, 123457.789),                                       # nonfloat
    (-PI / 2, 1.5 * PI), (3.0, 4.0), (-7.0, 7.0),                   # period
    (1.5, 1.6), (-1.5707, 1.5707),                                  # pole
    (-0.999, 0.999), (-0.9999999, 0.9999999), (0.9, 1.1), (1e-7, 2.0), (-14.5, 14.5),   # clip
    (1e5, 1e6), (-1e6, -1e5),                                       # large
    (12.3456789012345, 13.9),                                       # nonfloat
]


def concretise(k):
    prm = PARAMS.get(k["fn"], [0.0])[k["p"]]
    lo, hi = INTERVALS[k["iv"] - 1]
    return prm, lo, hi, 10.0 ** (-k["tol"])


def case_key(k):
    return "%s:p%d:iv%d:t%d:%s" % (k["fn"], k["p"], k["iv"], k["tol"], "int" if k["int"] else "cont")


def run_shard(exe, d, i, cases, tmo):
    cf_ = os.path.join(d, "cases-%d.txt" % i)
    tr = os.path.join(d, "trace-%d.ndjson" % i)
    with open(cf_, "w") as f:
        for k in cases:
            prm, lo, hi, tol = concretise(k)
            f.write("%d %s %s %s %s %s %d\n" % (k["id"], k["fn"], float(prm).hex(), float(lo).hex(), float(hi).hex(),
                                                float(tol).hex(), 1 if k["int"] else 0))
    rc, so, se = run_harness(exe, [cf_, tr, str(tmo)], timeout=tmo * 8 + len(cases) + 120)
    lines = sanitize_trace(tr, rc, se)
    return tr, lines


# ---- converter level: the PLConstraint delivered for a function of an original variable ----
CVT_FUNCS = {   # name: (expression of argument a, python function, [(lb, ub)] away from singular points)
    "exp":   (lambda a: ("o", 44, a), math.exp, [(0, 5), (-3, 2)]),
    "log":   (lambda a: ("o", 43, a), math.log, [(1, 20), (2, 9)]),
    "sqrt":  (lambda a: ("o", 39, a), math.sqrt, [(1, 16), (4, 30)]),
    "pow15": (lambda a: ("o", 76, a, ("n", 1.5)), lambda x: x ** 1.5, [(1, 9), (2, 30)]),
    "log10": (lambda a: ("o", 42, a), math.log10, [(1, 50), (3, 12)]),
    "tanh":  (lambda a: ("o", 37, a), math.tanh, [(-2, 2), (0, 3)]),
    "atan":  (lambda a: ("o", 49, a), math.atan, [(-3, 3), (0, 6)]),
    "sinh":  (lambda a: ("o", 40, a), math.sinh, [(0, 3), (-2, 2)]),
    "cosh":  (lambda a: ("o", 45, a), math.cosh, [(0, 3), (-2, 2)]),
    "asinh": (lambda a: ("o", 50, a), math.asinh, [(-4, 4), (0, 9)]),
    "acosh": (lambda a: ("o", 52, a), math.acosh, [(2, 9), (3, 20)]),
}
CVT_OFF = ["acc:exp=0", "acc:log=0", "acc:pow=0", "acc:expa=0", "acc:loga=0", "acc:tanh=0", "acc:atan=0", "acc:sinh=0", "acc:cosh=0",
           "acc:asinh=0", "acc:acosh=0"]
# the two terms of a model: (integer?, which of the function's intervals); one term = single
CVT_ARR = {"c": [(0, 0)], "i": [(1, 0)], "i+c": [(1, 0), (0, 0)], "c+i": [(0, 0), (1, 0)], "c+c'": [(0, 0), (0, 1)], "i+i'": [(1, 0), (1, 1)],
           "i'+c": [(1, 1), (0, 0)]}


def pl_eval(xs, ys, t):
    import bisect
    j = min(max(bisect.bisect_right(xs, t), 1), len(xs) - 1)
    x0, x1, y0, y1 = xs[j - 1], xs[j], ys[j - 1], ys[j]
    return y0 if x1 == x0 else y0 + (y1 - y0) * (t - x0) / (x1 - x0)


def converter_stage(tier, v, d):
    """Whole conversions: models with one or two terms f(x) of original variables, the functions not accepted by the
    solver; every delivered PLConstraint is measured against f on the delivered bounds of its argument."""
    import drv, targets as tg
    exe = tg.get("h_drv")
    cases = []
    for fn, (mk, f, ivs) in sorted(CVT_FUNCS.items()):
        for arr, terms in sorted(CVT_ARR.items()):
            for tol in ((0.01, 0.1, 0.001) if tier == "thorough" else (0.01,)):
                mvars, expr = [], None
                for isint, which in terms:
                    lb, ub = ivs[which]
                    mvars.append({"lb": lb, "ub": ub, "int": bool(isint)})
                    t = mk(("v", len(mvars) - 1))
                    expr = t if expr is None else ("o", 0, expr, t)
                # the terms sit in the objective (a constraint  exp(x) + ... <= c  would be taken for a cone)
                m = {"vars": mvars, "cons": [{"lb": None, "ub": 1000, "lin": [[i, 1] for i in range(len(mvars))]}], "lcons": [],
                     "objs": [{"max": len(cases) % 2 == 0, "lin": [], "expr": expr}]}
                cases.append({"id": len(cases), "model": m, "opts": CVT_OFF + ["cvt:plapprox:reltol=%g" % tol], "answer": "status 0 ok\n",
                              "fn": fn, "arr": arr, "tol": tol})
    runs = drv.run_cases(exe, PID + "-cvt", cases)
    lines = []
    for c, r in zip(cases, runs):
        f = CVT_FUNCS[c["fn"]][1]
        perm = r["nlinfo"]["perm"]                       # model variable -> file position
        nv = len(c["model"]["vars"])
        vars_ev = next((e for e in r["rec"] if e["e"] == "Vars"), None)
        pls = [e for e in r["rec"] if e["e"] == "Con" and e["type"] == "PLConstraint"]
        got = {}
        for e in pls:
            a = e["d"]["args"][0]
            if a < nv:
                got[a] = e
        for mi in range(nv):
            a = perm[mi]
            e = got.get(a)
            if e is None or vars_ev is None or r["rc"] != 0:
                lines.append({"e": "Missing", "id": c["id"], "arg": mi, "rc": r["rc"]})
                continue
            xs, ys = e["d"]["params"]["x"], e["d"]["params"]["y"]
            lb, ub = vars_ev["lb"][a], vars_ev["ub"][a]
            isint = vars_ev["ty"][a] == 1
            if isint:
                pts = [float(t) for t in range(int(math.ceil(lb)), int(math.floor(ub)) + 1)]
            else:
                pts = [lb, ub] + [t for t in xs if lb <= t <= ub]
                for x0, x1 in zip(xs, xs[1:]):
                    pts += [x0 + (x1 - x0) * k / 8 for k in range(1, 8) if lb <= x0 + (x1 - x0) * k / 8 <= ub]
            worst, wt = 0, None
            for t in pts:
                ft = f(t)
                pm = int(math.floor(min(999999.0, abs(pl_eval(xs, ys, t) - ft) / (c["tol"] * max(1.0, abs(ft))) * 1000.0)))
                if pm > worst:
                    worst, wt = pm, t
            lines.append({"e": "PL", "id": c["id"], "arg": mi, "isint": isint, "nbp": len(xs),
                          "covered": bool(xs and xs[0] <= lb + 1e-9 * max(1, abs(lb)) and xs[-1] >= ub - 1e-9 * max(1, abs(ub))),
                          "increasing": all(x0 < x1 for x0, x1 in zip(xs, xs[1:])),
                          "worst": worst, "at": repr(wt), "nsamples": len(pts)})
    tp = os.path.join(d, "delivered-%s.ndjson" % tier)
    with open(tp, "w") as fh:
        for e in lines:
            fh.write(json.dumps(e) + "\n")
    ok, res = validate_trace("TracePLDelivered", "TracePLDelivered.cfg", tp, cwd=PL)
    done = printed_json(res, "DONE")
    if len(done) != 1 or done[0]["n"] != len(lines):
        raise Broken("TracePLDelivered did not consume the trace\n" + res.out[-2000:])
    byline = {i + 1: e for i, e in enumerate(lines)}
    for b in printed_json(res, "BAD"):
        e, c = byline[b["line"]], cases[b["id"]]
        for w in sorted(b["wrong"]):
            v.violation("cvt-%s:%s:%s:%s" % (w, c["fn"], c["arr"], "int" if e.get("isint") else "cont"),
                        "conversion of %s, terms %s, reltol %g: the PLConstraint delivered for term %d is rejected (%s): %s"
                        % (c["fn"], c["arr"], c["tol"], e["arg"], w, json.dumps(e)[:300]), {"case": {k: c[k] for k in ("fn", "arr", "tol", "model", "opts")}, "record": e})
    npl = sum(1 for e in lines if e["e"] == "PL")
    return {"models": len(cases), "delivered_pl_measured": npl, "states": res.distinct, "transitions": res.generated,
            "bad": len(printed_json(res, "BAD"))}


def run(tier):
    t0 = time.time()
    mc = tlc("MCPLShape", "MCPLShape.cfg", cwd=PL, workers=NPROC)
    tlc_must_pass(mc, "MCPLShape")
    # (B) cases from TLC
    gen = tlc("GenPL", "GenPL.cfg", cwd=PL, workers=1,
              env={"GEN_SEED": seed() % 1000, "GEN_PER": 12 if tier == "thorough" else 3})
    tlc_must_pass(gen, "GenPL")
    cases = printed_json(gen, "CASE")
    if len(cases) < 1000:
        raise Broken("GenPL produced only %d cases" % len(cases))
    cases.sort(key=lambda k: (k["fn"], k["p"], k["iv"], k["tol"], k["int"]))
    for i, k in enumerate(cases):
        k["id"] = i
    import targets
    exe = targets.get("h_pl")
    d = os.path.join(BUILD, "c13-" + tier)
    os.makedirs(d, exist_ok=True)
    # (C) run the real code in parallel shards, validate each shard's trace with TLC
    nsh = NPROC if tier == "thorough" else min(NPROC, 8)
    shards = [cases[i::nsh] for i in range(nsh)]
    tmo = 20 if tier == "thorough" else 5
    with cf.ThreadPoolExecutor(max_workers=nsh) as ex:
        runs = list(ex.map(lambda a: run_shard(exe, d, a[0], a[1], tmo), enumerate(shards)))

    def validate(tr):
        return validate_trace("TracePLShape", "TracePLShape.cfg", tr, cwd=PL, xmx="3g", timeout=1500)
    with cf.ThreadPoolExecutor(max_workers=min(nsh, 4)) as ex:
        vals = list(ex.map(lambda r: validate(r[0]), runs))
    v = Verdict(PID)
    states = trans = nbad = npts = 0
    met = {}
    outcomes = {}
    for (tr, lines), (ok, res) in zip(runs, vals):
        done = printed_json(res, "DONE")
        if len(done) != 1 or done[0]["n"] != len(lines) or done[0]["open"]:
            raise Broken("TracePLShape did not consume %s\n%s" % (tr, res.out[-2500:]))
        states += res.distinct; trans += res.generated
        for kk, vv in done[0]["cnt"].items():
            met[kk] = met.get(kk, 0) + vv
        for e in lines:
            if e["e"] in ("Done", "Throw", "Hang", "Crash"):
                o = e["e"] if e["e"] != "Throw" else "Throw/" + e["kind"]
                if e["e"] == "Done":
                    o = "Done/periodic" if e["per"] else "Done"
                    npts += e["n"]
                outcomes[o] = outcomes.get(o, 0) + 1
        for b in printed_json(res, "BAD"):
            nbad += 1
            w = b["what"]
            e = lines[b["line"] - 1]
            if b["id"] < 0 or b["id"] >= len(cases):
                v.violation("trace:%s" % w["k"], "rejected outside a call: " + json.dumps(e)[:300], {"what": w})
                continue
            k = cases[b["id"]]
            prm, lo, hi, tol = concretise(k)
            inp = "%s(prm=%r) on [%r, %r], tol %g, %s argument" % (k["fn"], prm, lo, hi, tol, "integer" if k["int"] else "continuous")
            payload = {"case": k, "input": {"fn": k["fn"], "param": prm, "lo": lo, "hi": hi, "tol": tol, "int": k["int"]},
                       "what": w, "trace_line": {kk: (vv if not isinstance(vv, list) else vv[:12]) for kk, vv in e.items()}}
            if w["k"] == "shape":
                dg = w.get("diag", {})
                for cl in sorted(w["wrong"]):
                    tag = cl
                    # diagnosis labels (recorded by the harness, not judged): which way the end is off
                    if cl == "first":
                        tag += "/mid" if dg.get("mid") else "/near" if dg.get("firstNear") else "/f32" if dg.get("firstF32") else ""
                    if cl == "last":
                        tag += "/mid" if dg.get("mid") else "/near" if dg.get("lastNear") else "/f32" if dg.get("lastF32") else ""
                    if cl == "count" and w["n"] == 0:
                        tag += "/empty"
                    if cl in ("err", "perr"):
                        ww = dg.get("worst" if cl == "err" else "pworst", {})
                        pm = ww.get("pm", 0)
                        tag += "/x%s" % ("1000+" if pm >= 999999 else "10+" if pm >= 10000 else "2+" if pm >= 2000 else "1+")
                        # diagnosis labels: the worst point lies on a segment of the minimal length the approximator keeps /
                        # within 2e-3 of a pole or vertical tangent of the function
                        tag += "/minstep" if ww.get("minstep") else "/sing" if ww.get("sing") else "/seg" if float(ww.get("seglen", 0)) > 0 else "/point"
                    extra = ""
                    if cl in ("err", "perr"):
                        ww = dg.get("worst" if cl == "err" else "pworst", {})
                        extra = "; measured deviation %.3f x allowed at x=%s: f=%s, approximation=%s" % (
                            ww.get("pm", 0) / 1000.0, ww.get("t"), ww.get("f"), ww.get("pl"))
                    v.violation("%s:%s" % (tag, case_key(k)),
                                "clause '%s' violated by the result of PLApproximate %s (%d breakpoints%s)%s" %
                                (tag, inp, w["n"], ", periodic" if w["per"] else "", extra), payload)
            elif w["k"] == "throw":
                v.violation("throw/%s:%s" % (w["kind"], case_key(k)),
                            "PLApproximate %s ended with an undiagnosed exception: %s" % (inp, e.get("what", "")), payload)
            elif w["k"] == "noreturn":
                v.violation("%s:%s" % (w["ev"].lower(), case_key(k)),
                            "PLApproximate %s did not return (%s)" % (inp, json.dumps(e)[:200]), payload)
            else:
                v.violation("%s:%s" % (w["k"], case_key(k)), "trace rejected (%s) for %s" % (json.dumps(w)[:200], inp), payload)
    byclause = {}
    for key, _, _ in v.viol:
        byclause[key.split(":")[0]] = byclause.get(key.split(":")[0], 0) + 1
    log("[%s] rejected by clause: %s" % (PID.lower(), json.dumps(byclause, sort_keys=True)))
    cvt = converter_stage(tier, v, outdir(PID))
    rcode, nnew = v.finish()
    if rcode == 0 and cvt["delivered_pl_measured"] < 100:
        raise Broken("converter stage measured only %d delivered PLConstraints" % cvt["delivered_pl_measured"])
    # non-vacuity: the situations the clauses speak about must have occurred (unless the
    # run already reports violations, e.g. every periodic call hanging)
    if met.get("skipped") and rcode == 0:
        raise Broken("cases were skipped although nothing was rejected: %s" % met)
    if rcode == 0:
        for need in ("done", "periodic", "onePerInt", "refused"):
            if not met.get(need):
                raise Broken("no call in this run met the situation '%s' (clause vacuous): %s" % (need, met))
    # concatenated trace kept for inspection / replay
    with open(os.path.join(outdir(PID), "trace-%s.ndjson" % tier), "w") as f:
        for tr, _ in runs:
            f.write(open(tr).read())
    sample_lines = [json.dumps(e)[:300] for e in runs[0][1][:6]]
    write_evidence(PID, tier, {
        "states": mc.distinct + gen.distinct + states, "transitions": mc.generated + gen.generated + trans,
        "traces_validated_against_impl": len(cases),
        "samples": [dict(cases[0], input=concretise(cases[0])), dict(cases[len(cases) // 2], input=concretise(cases[len(cases) // 2])), sample_lines],
        "evaluations": len(cases), "breakpoints_checked": npts, "outcomes": outcomes, "situations_met": met,
        "exhaustive": tier == "thorough",
        "explanation": "cases generated by TLC (GenPL: 17 function types x parameter menu (31 function/parameter pairs) x %d argument intervals x tolerances 1e-1..1e-6 x integer/continuous; %s); each case calls the real mp::PLApproximate in a forked child; the recorded result (atoms/ranks of breakpoints and reported domain, period fields, integer-shortcut observations) is validated by TLC as a run of the PLShape call machine. Decided: strict increase, first/last breakpoint = reported domain (remainder range if periodic), period factor range covers the argument interval, integer shortcut, size bound, termination/diagnosed refusal. NOT decided: the real-valued error bound." %
                       (len(INTERVALS), "all of them" if tier == "thorough" else "seeded stratified sample: three of the twelve (tolerance, integrality) combinations per (function, parameter, interval) stratum"),
        "design_check": {"module": "MCPLShape", "distinct_states": mc.distinct},
        "converter_level": cvt,
        "rejected": nbad, "rejected_by_clause": byclause, "violations_new": nnew,
    }, time.time() - t0, violations=nnew,
        assumptions=["y range passed to PLApproximate is the converter's default +-1e6 (cvt:plapprox:domain)",
                     "exactness of shortcut values is observed by calling the same libm function as the approximator, in the same binary",
                     "period coverage is decided on floor/ceil of (end - remainder end)/period computed in long double with 1e-9 relative slack"])
    return rcode


if __name__ == "__main__":
    main_wrapper(PID, run)
