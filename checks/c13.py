#!/usr/bin/env python3
"""C13 (structural part) - piecewise-linear approximations: breakpoints strictly increasing,
start/end at the reported domain, period bookkeeping, integer shortcut, bounded size,
the call returns (PLShape.tla).  The real-valued error bound is NOT decided here."""
import concurrent.futures as cf
import json, math, os, sys, time
sys.path.insert(0, os.path.join(os.path.dirname(os.path.abspath(__file__)), "..", "tools"))
from vlib import *

PID = "C13"
PL = os.path.join(SPECS, "pl")
PI = math.pi

# ---- concretisation tables (indices come from GenPL.tla; same order) ----
PARAMS = {
    "ExpA": [2.0, 10.0, 0.5, 1.5],
    "LogA": [2.0, 10.0, 0.5],
    "Pow": [-3.0, -2.0, -1.0, -0.5, 0.5, 1.5, 2.0, 3.0, 4.0, 5.0],
}
INTERVALS = [
    (-1e6, 1e6), (-1e100, 1e100), (-1e30, 1e30),                    # huge
    (0.0, 1e6), (-1e6, 0.0),                                        # zeroedge
    (1e-9, 1e-3),                                                   # tinymag
    (1.0, 1.0 + 1e-5), (0.5, 0.5 + 2e-6),                           # tinywidth
    (0.25, 0.25 + 5e-7),                                            # trivial (< 1e-6 wide)
    (2.0, 2.0),                                                     # point
    (3.0, 1.0),                                                     # empty
    (0.1, 0.7), (-0.3, 0.3), (1.0 / 3, 2.0 / 3),                    # nonfloat
    (-1.0, 1.0), (-1e-3, 1e-3),                                     # straddle0
    (-10.0, 10.0), (0.0, 1.0), (1.0, 10.0), (1.0, 100.0),           # plain
    (0.5, 3.5), (-2.5, 7.25),                                       # halfint
    (3.0, 7.0), (0.0, 20.0), (-5.0, 5.0),                           # ints
    (100.0, 100.000002), (1000.0001, 1000.0002),                    # f32merge
    (16777216.0, 16777218.0),                                       # f32edge
    (123456.789, 123457.789),                                       # nonfloat
    (-PI / 2, 1.5 * PI), (3.0, 4.0), (-7.0, 7.0),                   # period
    (1.5, 1.6), (-1.5707, 1.5707),                                  # pole
    (-0.999, 0.999), (-0.9999999, 0.9999999), (0.9, 1.1), (1e-7, 2.0), (-14.5, 14.5),   # clip
    (1e5, 1e6), (-1e6, -1e5),                                       # large
    (12.3456789012345, 13.9),                                       # nonfloat
]


def concretise(k):
    prm = PARAMS.get(k["fn"], [0.0])[k["p"]]
    lo, hi = INTERVALS[k["iv"] - 1]
    return prm, lo, hi, 10.0 ** (-k["tol"])


def case_key(k):
    return "%s:p%d:iv%d:t%d:%s" % (k["fn"], k["p"], k["iv"], k["tol"], "int" if k["int"] else "cont")


def run_shard(exe, d, i, cases, tmo):
    cf_ = os.path.join(d, "cases-%d.txt" % i)
    tr = os.path.join(d, "trace-%d.ndjson" % i)
    with open(cf_, "w") as f:
        for k in cases:
            prm, lo, hi, tol = concretise(k)
            f.write("%d %s %s %s %s %s %d\n" % (k["id"], k["fn"], float(prm).hex(), float(lo).hex(), float(hi).hex(),
                                                float(tol).hex(), 1 if k["int"] else 0))
    rc, so, se = run_harness(exe, [cf_, tr, str(tmo)], timeout=tmo * 8 + len(cases) + 120)
    lines = sanitize_trace(tr, rc, se)
    return tr, lines


def run(tier):
    t0 = time.time()
    mc = tlc("MCPLShape", "MCPLShape.cfg", cwd=PL, workers=NPROC)
    tlc_must_pass(mc, "MCPLShape")
    # (B) cases from TLC
    gen = tlc("GenPL", "GenPL.cfg", cwd=PL, workers=1,
              env={"GEN_SEED": seed() % 1000, "GEN_PER": 12 if tier == "thorough" else 3})
    tlc_must_pass(gen, "GenPL")
    cases = printed_json(gen, "CASE")
    if len(cases) < 1000:
        raise Broken("GenPL produced only %d cases" % len(cases))
    cases.sort(key=lambda k: (k["fn"], k["p"], k["iv"], k["tol"], k["int"]))
    for i, k in enumerate(cases):
        k["id"] = i
    import targets
    exe = targets.get("h_pl")
    d = os.path.join(BUILD, "c13-" + tier)
    os.makedirs(d, exist_ok=True)
    # (C) run the real code in parallel shards, validate each shard's trace with TLC
    nsh = NPROC if tier == "thorough" else min(NPROC, 8)
    shards = [cases[i::nsh] for i in range(nsh)]
    tmo = 20 if tier == "thorough" else 5
    with cf.ThreadPoolExecutor(max_workers=nsh) as ex:
        runs = list(ex.map(lambda a: run_shard(exe, d, a[0], a[1], tmo), enumerate(shards)))

    def validate(tr):
        return validate_trace("TracePLShape", "TracePLShape.cfg", tr, cwd=PL, xmx="3g", timeout=1500)
    with cf.ThreadPoolExecutor(max_workers=min(nsh, 4)) as ex:
        vals = list(ex.map(lambda r: validate(r[0]), runs))
    v = Verdict(PID)
    states = trans = nbad = npts = 0
    met = {}
    outcomes = {}
    for (tr, lines), (ok, res) in zip(runs, vals):
        done = printed_json(res, "DONE")
        if len(done) != 1 or done[0]["n"] != len(lines) or done[0]["open"]:
            raise Broken("TracePLShape did not consume %s\n%s" % (tr, res.out[-2500:]))
        states += res.distinct; trans += res.generated
        for kk, vv in done[0]["cnt"].items():
            met[kk] = met.get(kk, 0) + vv
        for e in lines:
            if e["e"] in ("Done", "Throw", "Hang", "Crash"):
                o = e["e"] if e["e"] != "Throw" else "Throw/" + e["kind"]
                if e["e"] == "Done":
                    o = "Done/periodic" if e["per"] else "Done"
                    npts += e["n"]
                outcomes[o] = outcomes.get(o, 0) + 1
        for b in printed_json(res, "BAD"):
            nbad += 1
            w = b["what"]
            e = lines[b["line"] - 1]
            if b["id"] < 0 or b["id"] >= len(cases):
                v.violation("trace:%s" % w["k"], "rejected outside a call: " + json.dumps(e)[:300], {"what": w})
                continue
            k = cases[b["id"]]
            prm, lo, hi, tol = concretise(k)
            inp = "%s(prm=%r) on [%r, %r], tol %g, %s argument" % (k["fn"], prm, lo, hi, tol, "integer" if k["int"] else "continuous")
            payload = {"case": k, "input": {"fn": k["fn"], "param": prm, "lo": lo, "hi": hi, "tol": tol, "int": k["int"]},
                       "what": w, "trace_line": {kk: (vv if not isinstance(vv, list) else vv[:12]) for kk, vv in e.items()}}
            if w["k"] == "shape":
                dg = w.get("diag", {})
                for cl in sorted(w["wrong"]):
                    tag = cl
                    # diagnosis labels (recorded by the harness, not judged): which way the end is off
                    if cl == "first":
                        tag += "/mid" if dg.get("mid") else "/near" if dg.get("firstNear") else "/f32" if dg.get("firstF32") else ""
                    if cl == "last":
                        tag += "/mid" if dg.get("mid") else "/near" if dg.get("lastNear") else "/f32" if dg.get("lastF32") else ""
                    if cl == "count" and w["n"] == 0:
                        tag += "/empty"
                    if cl in ("err", "perr"):
                        ww = dg.get("worst" if cl == "err" else "pworst", {})
                        pm = ww.get("pm", 0)
                        tag += "/x%s" % ("1000+" if pm >= 999999 else "10+" if pm >= 10000 else "2+" if pm >= 2000 else "1+")
                        # diagnosis labels: the worst point lies on a segment of the minimal length the approximator keeps /
                        # within 2e-3 of a pole or vertical tangent of the function
                        tag += "/minstep" if ww.get("minstep") else "/sing" if ww.get("sing") else "/seg" if float(ww.get("seglen", 0)) > 0 else "/point"
                    extra = ""
                    if cl in ("err", "perr"):
                        ww = dg.get("worst" if cl == "err" else "pworst", {})
                        extra = "; measured deviation %.3f x allowed at x=%s: f=%s, approximation=%s" % (
                            ww.get("pm", 0) / 1000.0, ww.get("t"), ww.get("f"), ww.get("pl"))
                    v.violation("%s:%s" % (tag, case_key(k)),
                                "clause '%s' violated by the result of PLApproximate %s (%d breakpoints%s)%s" %
                                (tag, inp, w["n"], ", periodic" if w["per"] else "", extra), payload)
            elif w["k"] == "throw":
                v.violation("throw/%s:%s" % (w["kind"], case_key(k)),
                            "PLApproximate %s ended with an undiagnosed exception: %s" % (inp, e.get("what", "")), payload)
            elif w["k"] == "noreturn":
                v.violation("%s:%s" % (w["ev"].lower(), case_key(k)),
                            "PLApproximate %s did not return (%s)" % (inp, json.dumps(e)[:200]), payload)
            else:
                v.violation("%s:%s" % (w["k"], case_key(k)), "trace rejected (%s) for %s" % (json.dumps(w)[:200], inp), payload)
    byclause = {}
    for key, _, _ in v.viol:
        byclause[key.split(":")[0]] = byclause.get(key.split(":")[0], 0) + 1
    log("[%s] rejected by clause: %s" % (PID.lower(), json.dumps(byclause, sort_keys=True)))
    rcode, nnew = v.finish()
    # non-vacuity: the situations the clauses speak about must have occurred (unless the
    # run already reports violations, e.g. every periodic call hanging)
    if met.get("skipped") and rcode == 0:
        raise Broken("cases were skipped although nothing was rejected: %s" % met)
    if rcode == 0:
        for need in ("done", "periodic", "onePerInt", "refused"):
            if not met.get(need):
                raise Broken("no call in this run met the situation '%s' (clause vacuous): %s" % (need, met))
    # concatenated trace kept for inspection / replay
    with open(os.path.join(outdir(PID), "trace-%s.ndjson" % tier), "w") as f:
        for tr, _ in runs:
            f.write(open(tr).read())
    sample_lines = [json.dumps(e)[:300] for e in runs[0][1][:6]]
    write_evidence(PID, tier, {
        "states": mc.distinct + gen.distinct + states, "transitions": mc.generated + gen.generated + trans,
        "traces_validated_against_impl": len(cases),
        "samples": [dict(cases[0], input=concretise(cases[0])), dict(cases[len(cases) // 2], input=concretise(cases[len(cases) // 2])), sample_lines],
        "evaluations": len(cases), "breakpoints_checked": npts, "outcomes": outcomes, "situations_met": met,
        "exhaustive": tier == "thorough",
        "explanation": "cases generated by TLC (GenPL: 17 function types x parameter menu (31 function/parameter pairs) x %d argument intervals x tolerances 1e-1..1e-6 x integer/continuous; %s); each case calls the real mp::PLApproximate in a forked child; the recorded result (atoms/ranks of breakpoints and reported domain, period fields, integer-shortcut observations) is validated by TLC as a run of the PLShape call machine. Decided: strict increase, first/last breakpoint = reported domain (remainder range if periodic), period factor range covers the argument interval, integer shortcut, size bound, termination/diagnosed refusal. NOT decided: the real-valued error bound." %
                       (len(INTERVALS), "all of them" if tier == "thorough" else "seeded stratified sample: three of the twelve (tolerance, integrality) combinations per (function, parameter, interval) stratum"),
        "design_check": {"module": "MCPLShape", "distinct_states": mc.distinct},
        "rejected": nbad, "rejected_by_clause": byclause, "violations_new": nnew,
    }, time.time() - t0, violations=nnew,
        assumptions=["y range passed to PLApproximate is the converter's default +-1e6 (cvt:plapprox:domain)",
                     "exactness of shortcut values is observed by calling the same libm function as the approximator, in the same binary",
                     "period coverage is decided on floor/ceil of (end - remainder end)/period computed in long double with 1e-9 relative slack"])
    return rcode


if __name__ == "__main__":
    main_wrapper(PID, run)
