#!/usr/bin/env python3
"""C12 - the solver receives exactly the objective(s) the user selected (ObjSelect.tla)."""
import json, os, random, re, sys, time
sys.path.insert(0, os.path.join(os.path.dirname(os.path.abspath(__file__)), "..", "tools"))
from vlib import *
import targets, drv

PID = "C12"
NV = 3
CLASSES = ["lin", "lin+const", "lin+quad", "const", "quad", "all", "zero"]


def mk_obj(k, cls, rnd):
    """objective k (1-based) with distinct integer data"""
    lin = [0, 0, 0]
    if cls in ("lin", "lin+const", "lin+quad", "all"):
        lin = [10 * k + 1, -(10 * k + 2), 10 * k + 3]
        if rnd.random() < 0.3:
            lin[rnd.randrange(3)] = 0
    const = (100 * k + 7) * (1 if k % 2 else -1) if cls in ("lin+const", "const", "all") else 0
    q = (k + 4) * (1 if rnd.random() < 0.5 else -1) if cls in ("lin+quad", "quad", "all") else 0
    return {"max": rnd.random() < 0.5, "lin": lin, "const": const, "q": q}


def nl_model(objs):
    m = {"vars": [{"lb": 0, "ub": 2}, {"lb": 0, "ub": 2}, {"lb": 0, "ub": 2}],
         "cons": [{"lb": 1, "ub": None, "lin": [[0, 1], [1, 1], [2, 1]]}], "objs": []}
    for o in objs:
        e = None
        if o["q"] != 0:
            e = ["o", 2, ["n", o["q"]], ["o", 2, ["v", 0], ["v", 1]]]
        if o["const"] != 0:
            e = ["n", o["const"]] if e is None else ["o", 0, ["n", o["const"]], e]
        m["objs"].append({"max": o["max"], "lin": [[j, c] for j, c in enumerate(o["lin"]) if c != 0], "expr": e})
    return m


def as_int(x):
    if isinstance(x, (int, float)) and float(x) == int(x) and abs(x) < 2**30:
        return int(x)
    return 2000000000   # sentinel: not representable on the integer grid (never equal to anything)


def nonlinear_stage(tier, v):
    """Stage 2, 'its nonlinear part': GenNL models whose objective is a functional expression (either sense,
    either sign of its coefficient) get a linear decoy objective before or after it; objno selects the generated
    one; the delivered objective TOGETHER with the delivered definitions of its auxiliary variables must take the
    NL objective's value at every feasible grid point (Reform!PointVerdict, verdicts obj-*)."""
    import cvtcases
    dexe = targets.get("h_drv")
    gen2, g2 = cvtcases.generate()
    cfgs, acc = cvtcases.configs(dexe)
    rnd = random.Random(seed() + 5)
    lin_cfgs = [c_ for c_ in cfgs if c_[0] == "mip-linear"] or cfgs
    strata = {}
    for g_ in gen2:
        if g_["use"] in ("objmin", "objmax"):
            strata.setdefault((g_["kind"], g_["op"], g_["use"], g_["k"] if g_["kind"] == "prod" else 0), []).append(g_)
    cases = []
    for key_ in sorted(strata):
        # products (k * F * G) under the configurations that linearise everything: there the coefficient's sign
        # decides which half of F's definition must be delivered
        n_ = (12 if tier == "thorough" else 4) if key_[0] == "prod" else (4 if tier == "thorough" else 1)
        pool_ = strata[key_]
        if key_[0] == "prod":
            # half of the picks over all-binary domains (the delivered model stays small enough to be decided)
            small_ = [g_ for g_ in pool_ if all(p_ == "bin" for p_ in g_["pat"])]
            pool_ = rnd.sample(small_, min(len(small_), n_ // 2)) + rnd.sample(pool_, min(len(pool_), n_ - n_ // 2))
            n_ = len(pool_)
        for g_ in rnd.sample(pool_, min(len(pool_), n_)):
            name_, opts_ = lin_cfgs[rnd.randrange(len(lin_cfgs))] if key_[0] == "prod" and rnd.random() < 0.8 else cfgs[rnd.randrange(len(cfgs))]
            pos = rnd.choice(["first", "last", "last1"])
            sel = {"first": [rnd.choice(["objno=2", "obj:no=2"])], "last": [], "last1": ["objno=1"]}[pos]
            cases.append({"id": len(cases), "gen": g_, "cfgname": name_, "opts": [o for o in opts_ if not (g_["kind"] == "mono" and o.startswith("acc:expa="))] + sel,
                          "decoy": "first" if pos == "first" else "last"})
    recs, stats = cvtcases.run_and_record(dexe, PID + "n", cases)
    res = validate_parallel("TraceReform", "TraceReform.cfg", recs, os.path.join(SPECS, "flat"), "c12n")
    verdicts = [x for r in res for x in printed_json(r, "VERDICT")]
    if len(verdicts) != len(recs):
        raise Broken("nonlinear stage: verdict count %d != %d" % (len(verdicts), len(recs)))
    tally = {}
    for vd in verdicts:
        tally[vd["v"]] = tally.get(vd["v"], 0) + 1
        # per point: <<point, "cut-off" | "extra" | "obj-count" | "obj-sense" | "obj-worse" | "obj-better">>;
        # feasibility verdicts are C01's business
        opts_ = [pt for pt in vd["pts"] if isinstance(pt, list) and len(pt) == 2 and str(pt[1]).startswith("obj-")] if vd["v"] == "violation" else []
        if not opts_:
            continue
        vd = dict(vd, v=sorted({pt[1] for pt in opts_})[0], pts=opts_)
        c = cases[vd["id"]]
        g_ = c["gen"]
        v.violation("nl:%s:%s:%s:%s:%s:k%s:%s:%s" % (vd["v"], g_["kind"], g_["op"], g_["sh"], g_["use"], g_["k"], c["cfgname"], c["decoy"]),
                    "model %s/%s shape=%s domains=%s use=%s k=%s with a linear decoy objective %s, options %s: the delivered objective with the delivered definitions of its auxiliary variables does not take the selected objective's value (%s) at %s" %
                    (g_["kind"], g_["op"], g_["sh"], g_["pat"], g_["use"], g_["k"], c["decoy"], c["opts"], vd["v"], json.dumps(vd["pts"])[:300]),
                    {"gen": g_, "opts": c["opts"], "decoy": c["decoy"], "verdict": vd})
    return {"cases": len(cases), "strata": len(strata), "verdicts": tally, "run_stats": stats}, sum(r.distinct for r in res)


def run(tier):
    t0 = time.time()
    sd = os.path.join(SPECS, "driver")
    mc = tlc("MCObjSelect", "MCObjSelect.cfg", cwd=sd, workers=NPROC)
    tlc_must_pass(mc, "MCObjSelect")
    abstract = printed_json(mc, "CASE")
    if len(abstract) < 50:
        raise Broken("generator produced too few cases: %d" % len(abstract))
    rnd = random.Random(seed())
    reps = 6 if tier == "thorough" else 2
    cases = []
    grp = 0
    for a in sorted(abstract, key=lambda a: (a["N"], a["objno"], a["multi"])):
        for rep in range(reps):
            objs = [mk_obj(k + 1, rnd.choice(CLASSES) if rep else CLASSES[(k + a["objno"] + 1) % len(CLASSES)], rnd) for k in range(a["N"])]
            om = rnd.choice(["obj:multi=%d", "multiobj=%d"]) % a["multi"] if a["multi"] != -1 else None
            on = rnd.choice(["obj:no=%d", "objno=%d"]) % a["objno"] if a["objno"] != -1 else None
            grp += 1
            variants = []
            if om and on:       # both given: every order, and split over environment / command line
                variants = [([om, on], {}), ([on, om], {}), ([om], {"scripted_options": on}), ([on], {"scripted_options": om})]
            else:
                variants = [([o for o in (om, on) if o], {})]
            for opts, env in variants:
                cases.append({"id": len(cases), "model": nl_model(objs), "opts": opts, "env": env,
                              "answer": "status 0 ok\nprimal 1 1 1\nobjvals 1\n",
                              "abs": dict(a, objs=objs, grp=grp, names=[])})
            if rep == 0:        # the same selection with names: read from .col/.row (cvt:names=2) or generic (cvt:names=3)
                for nmode, onames in ((2, ["Cost%d" % (k + 1) for k in range(a["N"])]), (3, ["_sobj[%d]" % (k + 1) for k in range(a["N"])])):
                    grp += 1
                    cases.append({"id": len(cases), "model": nl_model(objs), "opts": variants[0][0] + ["cvt:names=%d" % nmode], "env": variants[0][1],
                                  "files": {".col": "x\ny\nz\n", ".row": "".join(n_ + "\n" for n_ in ["Row1"] + ["Cost%d" % (k + 1) for k in range(a["N"])])},
                                  "answer": "status 0 ok\nprimal 1 1 1\nobjvals 1\n",
                                  "abs": dict(a, objs=objs, grp=grp, names=onames)})
    exe = targets.get("h_drv")
    results = drv.run_cases(exe, PID, cases)
    trace = os.path.join(outdir(PID), "trace-%s.ndjson" % tier)
    with open(trace, "w") as f:
        f.write(json.dumps({"e": "Meta", "tier": tier}) + "\n")
        for c, r in zip(cases, results):
            f.write(json.dumps(dict(e="Case", id=c["id"], **c["abs"])) + "\n")
            inv = {p: i for i, p in enumerate(r["nlinfo"]["perm"])}   # NL index -> original index
            mapv = lambda v: inv.get(v, v)
            for ev in r["rec"]:
                if ev["e"] == "Vars":
                    n = ev["n"]
                    lb = [0] * n; ub = [0] * n
                    for i in range(n):
                        lb[mapv(i)] = as_int(ev["lb"][i]) if not isinstance(ev["lb"][i], str) else -2000000000
                        ub[mapv(i)] = as_int(ev["ub"][i]) if not isinstance(ev["ub"][i], str) else 2000000000
                    f.write(json.dumps({"e": "Vars", "lb": lb, "ub": ub}) + "\n")
                elif ev["e"] == "Obj":
                    f.write(json.dumps({"e": "Obj", "i": ev["i"], "max": ev["max"], "name": ev.get("name") or "",
                                        "lin": [[as_int(cf), mapv(v)] for cf, v in ev["lin"]],
                                        "quad": [[as_int(cf), mapv(v1), mapv(v2)] for cf, v1, v2 in ev["quad"]]}) + "\n")
                elif ev["e"] in ("Crash", "BadRecLine"):
                    f.write(json.dumps({"e": "Crash"}) + "\n")
            s = r["sol"]
            if s:
                f.write(json.dumps({"e": "Sol", "present": True, "objno": s["objno"] if s["objno"] is not None else -9,
                                    "code": s["code"] if s["code"] is not None else -9,
                                    "msgError": bool(re.search(r"objno|obj:no", s["msg"]))}) + "\n")
            elif r["sol_present"]:
                f.write(json.dumps({"e": "Sol", "present": False, "objno": -9, "code": -9, "msgError": False}) + "\n")
            f.write(json.dumps({"e": "Exit", "rc": r["rc"] if not r["hang"] else 124}) + "\n")
    ok, res = validate_trace("TraceObjSelect", "TraceObjSelect.cfg", trace, cwd=sd)
    if len(printed_json(res, "DONE")) != 1:
        raise Broken("TraceObjSelect did not consume the trace\n" + res.out[-2500:])
    v = Verdict(PID)
    bad = printed_json(res, "BAD")
    for b in bad:
        c = cases[b["id"]]["abs"] if b["id"] >= 0 else {}
        key = "%s:N%s:objno%s:multi%s" % (b["what"]["k"], c.get("N"), c.get("objno"), c.get("multi"))
        v.violation(key, "case %s (%s, opts %s): %s" % (b["id"], {k: c.get(k) for k in ("N", "objno", "multi")},
                                                        cases[b["id"]]["opts"] if b["id"] >= 0 else "", json.dumps(b["what"])),
                    {"case": c, "opts": cases[b["id"]]["opts"] if b["id"] >= 0 else None, "what": b["what"]})
    nstats, nstates = nonlinear_stage(tier, v)
    rcode, nnew = v.finish()
    if rcode == 0 and nstats["verdicts"].get("ok", 0) < nstats["cases"] // 3:
        raise Broken("nonlinear stage vacuous: %s" % nstats)
    write_evidence(PID, tier, {
        "nonlinear_stage": nstats,
        "states": mc.distinct + res.distinct + nstates, "transitions": mc.generated + res.generated,
        "traces_validated_against_impl": len(cases),
        "samples": [cases[5]["abs"], cases[-1]["abs"], open(trace).read().splitlines()[1:6]],
        "evaluations": len(cases), "abstract_cases": len(abstract), "exhaustive": True,
        "explanation": "TLC enumerates all (N in 0..3, objno in unset/0..4, multiobj in unset/0/1), each also with names given (.col/.row read with cvt:names=2, generic with cvt:names=3: the delivered objective carries the name of the objective it is); each is concretised to NL files with distinct integer objectives (sense, linear, constant, bilinear parts); the real driver's delivered objectives are compared semantically (all grid points) with the selected originals by TLC; stage 2: GenNL models whose objective is a functional expression (every operator, either sense, either coefficient sign) with a linear decoy objective before / after it: the delivered objective together with the delivered definitions of its auxiliary variables takes the selected objective's value at every feasible grid point (Reform.tla)",
        "rejected": len(bad), "violations_new": nnew,
    }, time.time() - t0, violations=nnew,
        assumptions=["objective constants are delivered as fixed auxiliary variables (checked: AuxFixed)", "text NL input only in this check"])
    return rcode

if __name__ == "__main__":
    main_wrapper(PID, run)
