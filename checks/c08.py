#!/usr/bin/env python3
"""C08 - the matrix-based ("easy") model API writes the given LP/QP and un-permutes
solutions (specs/nl/EasyModel.tla)."""
import concurrent.futures as cf
import json, os, random, re, shutil, sys, time
sys.path.insert(0, os.path.join(os.path.dirname(os.path.abspath(__file__)), "..", "tools"))
from vlib import *
import targets

PID = "C08"
NLDIR = os.path.join(SPECS, "nl")

WHAT = {
    "unreadable": "the written .nl file is rejected by mp's own NL reader",
    "loadfail": "NLSolver::LoadModel failed",
    "hdr.nlvo": "header num_nl_vars_in_objs is not the number of variables of the nonlinear objective",
    "hdr.nlio": "header num_nl_integer_vars_in_objs is not the number of nonlinear integer variables",
    "hdr.nbin": "header num_linear_binary_vars is not the size of the linear binary block",
    "hdr.nint": "header num_linear_integer_vars is not the size of the linear integer block",
    "type": "the type/nonlinearity an NL reader infers from (position, header counts) is not that of the original column",
    "nlblock": "the variables of the nonlinear objective expression are not exactly positions 0..num_nl_vars_in_objs-1",
    "vbounds": "variable bounds of column j are not at its permuted position",
    "cbounds": "row ranges differ", "clin": "row coefficients differ (on permuted variables)",
    "cnl": "a linear row got a nonlinear part", "colsizes": "Jacobian column sizes (k segment) differ",
    "osense": "objective sense differs", "obj": "the read-back objective differs from the given one as a function on {-1,0,1,2}^n",
    "x0": "primal warm start does not follow its variables", "y0": "dual warm start differs",
    "suf": "suffix values do not follow their items", "colnames": "column names do not follow their columns",
    "rownames": "row/objective names differ", "perm": "the reported permutation is not a permutation with its inverse",
    "wfile": "NLSolver::LoadModel and NLModel::WriteNL wrote different files",
}


def chunks(lst, n):
    return [lst[i:i + n] for i in range(0, len(lst), n)]


def pick_prevs(cases):
    """Every second case is run on NLSolver / PreprocessData objects that have handled a
    different generated model before (object reuse; the expected records do not change)."""
    rnd = random.Random(seed())
    prevs = {}
    byn = {}
    for k in cases:
        byn.setdefault(k["n"], []).append(k)
    for i, c in enumerate(cases):
        if i % 2 == 0:
            continue
        pool = byn[c["n"]] if i % 4 == 1 else cases
        prevs[c["id"]] = pool[rnd.randrange(len(pool))]
    return prevs


def run_cases(exe, cases, d, prevs):
    """Runs the harness on chunks of the case list in parallel; returns the trace lines in case order."""
    work = os.path.join(BUILD, "c08work")
    shutil.rmtree(work, ignore_errors=True)
    os.makedirs(work)
    parts = chunks(cases, max(20, (len(cases) + 4 * NPROC - 1) // (4 * NPROC)))

    def one(i):
        w = os.path.join(work, "p%d" % i)
        os.makedirs(w)
        cf_, tr = os.path.join(w, "cases.ndjson"), os.path.join(w, "trace.ndjson")
        with open(cf_, "w") as f:
            for c in parts[i]:
                if c["id"] in prevs:    # history: the objects handled another model first
                    f.write('{"prev":' + json.dumps(prevs[c["id"]]) + "}\n")
                f.write(json.dumps(c) + "\n")
        rc, so, se = run_harness(exe, [cf_, tr, w, "30"], timeout=900)
        return sanitize_trace(tr, rc, se)

    with cf.ThreadPoolExecutor(max_workers=NPROC) as ex:
        res = list(ex.map(one, range(len(parts))))
    lines = [{"e": "Meta", "cases": len(cases), "chunks": len(parts)}]
    for r in res:
        lines += [e for e in r if e.get("e") != "Meta"]
    shutil.rmtree(work, ignore_errors=True)
    return lines


def run(tier):
    t0 = time.time()
    # (A) design check of the spec itself
    mc = tlc("MCEasyModel", "MCEasyModel.cfg", cwd=NLDIR, workers=NPROC)
    tlc_must_pass(mc, "MCEasyModel")
    log("[C08] design check MCEasyModel: %d states, %.1fs" % (mc.distinct, mc.wall))
    # (B) TLC generates the abstract cases
    gen = tlc("GenEasy", "GenEasy.cfg", cwd=NLDIR, workers=NPROC, env={"TIER": tier, "SEED": seed()}, timeout=1500)
    tlc_must_pass(gen, "GenEasy")
    cases = sorted(printed_json(gen, "CASE"), key=lambda c: c["id"])
    if len(cases) < 100 or len(set(c["id"] for c in cases)) != len(cases):
        raise Broken("GenEasy produced %d cases (ids not unique?)" % len(cases))
    log("[C08] GenEasy: %d cases, %.1fs" % (len(cases), gen.wall))
    # (C) the real code, then trace validation
    exe = targets.get("h_easy")
    d = outdir(PID)
    t1 = time.time()
    # objective data in units of 2^omag: every fifth case has integer-valued objective coefficients beyond 32 bits
    for i_, c_ in enumerate(cases):
        c_["omag"] = 30 if i_ % 5 == 2 else 0
    # every fourth case: the user-facing calls go through the C API
    for i_, c_ in enumerate(cases):
        c_["capi"] = (i_ % 4 == 1)
    # every sixth case: the .sol file offers only the first half of the primal values (none in every 18th)
    for i_, c_ in enumerate(cases):
        n_ = len(c_["sol"]["x"])
        c_["sol"]["nx"] = n_ if i_ % 6 != 3 else (0 if i_ % 18 == 3 else n_ // 2)
    # a solver answers a binary NL file with a binary .sol file: every second case in binary format gets one
    for i_, c_ in enumerate(cases):
        c_["sol"]["binary"] = (not c_["text"]) and i_ % 2 == 0
    prevs = pick_prevs(cases)
    lines = run_cases(exe, cases, d, prevs)
    log("[C08] h_easy: %d records, %.1fs" % (len(lines), time.time() - t1))
    trace = os.path.join(d, "trace-%s.ndjson" % tier)
    with open(trace, "w") as f:
        for e in lines:
            f.write(json.dumps(e) + "\n")
    ok, res = validate_trace("TraceEasyModel", "TraceEasyModel.cfg", trace, cwd=NLDIR, timeout=1500)
    log("[C08] TraceEasyModel: %d states, %.1fs" % (res.distinct, res.wall))
    done = printed_json(res, "DONE")
    if len(done) != 1 or done[0]["n"] != len(lines):
        raise Broken("TraceEasyModel did not consume the trace\n" + res.out[-2500:])
    byid = {c["id"]: c for c in cases}
    v = Verdict(PID)
    bad = printed_json(res, "BAD")
    keys = []
    permbad = set(b["id"] for b in bad if "perm" in b["wrong"])
    for b in bad:
        e = lines[b["line"] - 1]
        for w in sorted(b["wrong"]):
            if w == "noperm" and b["id"] in permbad:
                continue        # consequence of the rejected permutation record of the same case
            if w in ("case", "event", "noperm") or b["id"] < 0:
                raise Broken("trace/generator inconsistency: %s at line %d: %s" % (w, b["line"], json.dumps(e)[:300]))
            key = "%s@%s" % (w, b["tag"])
            keys.append(key)
            what = WHAT.get(w, w)
            if w.startswith("crash") or w.startswith("hang") or w.startswith("throw"):
                what = "the call sequence died (%s): %s" % (w, (e.get("summary") or e.get("what") or "")[:200])
            elif w.startswith("sol.") or w.startswith("solve."):
                what = "%s: returned solution field '%s' is not the .sol content in caller order" % (
                    "ReadSolution()" if w.startswith("sol.") else "Solve(model,...)", w.split(".")[1])
            elif w.startswith("missing."):
                what = "no %s record" % w.split(".")[1]
            v.violation(key, "case %d (%s): %s" % (b["id"], b["tag"], what),
                        {"case": byid.get(b["id"]), "observed": e if e.get("e") != "Case" else None, "wrong": b["wrong"]})
    with open(os.path.join(d, "keys-%s.json" % tier), "w") as f:
        json.dump(sorted(set(keys)), f, indent=0)
    rcode, nnew = v.finish()
    badids = set(b["id"] for b in bad)
    kinds = {}
    for e in lines:
        kinds[e["e"]] = kinds.get(e["e"], 0) + 1
    wrongs = {}
    for k in keys:
        w = k.split("@")[0]
        wrongs[w] = wrongs.get(w, 0) + 1
    sample = lambda c: {k: c[k] for k in ("id", "tag", "type", "lb", "ub", "Q", "hasC", "c", "c0", "rows")}
    write_evidence(PID, tier, {
        "states": mc.distinct + gen.distinct + res.distinct,
        "transitions": mc.generated + gen.generated + res.generated,
        "traces_validated_against_impl": len(cases),
        "samples": [sample(cases[0]), sample(cases[len(cases) // 2]), sample(cases[-1]),
                    [json.dumps(e)[:400] for e in lines[1:7]]],
        "cases": len(cases), "cases_on_reused_objects": len(prevs), "cases_fully_accepted": len(cases) - len(badids),
        "cases_by_n": {str(n): sum(1 for c in cases if c["n"] == n) for n in (1, 2, 3, 4)},
        "records_by_kind": kinds, "rejected_fields": wrongs,
        "exhaustive": tier == "thorough",
        "explanation": "TLC generates matrix models: n<=4 columns x all type patterns x Hessian entry patterns (none, every diagonal "
                       "subset, single off-diagonal i<j / i>j, both triangles, duplicates, outer-only / inner-only variables, full, "
                       "triangular) with linear part given / not given / zero, offset, both declared formats, text/binary, comments, "
                       "row matrices, warm starts, suffixes of all kinds, names rotated; each is written by the real NLModel/NLSolver, "
                       "read back by the real mp::ReadNLFile (every fourth case through the C API of the same calls; every second case on NLSolver/PreprocessData objects that handled a different generated model before), a .sol is returned through ReadSolution() and the one-call Solve(); "
                       "TLC decides legality of the NL image under the reported permutation and equality of the objective as a "
                       "function on {-1,0,1,2}^n" + ("" if tier == "thorough" else " (quick: n=4 sampled 1/17)"),
        "design_check": {"module": "MCEasyModel", "distinct_states": mc.distinct},
        "rejected": len(bad), "violations_new": nnew,
    }, time.time() - t0, violations=nnew,
        assumptions=["objective semantics: c0 + c.x + 1/2 * sum over ALL given Hessian entries v*x_i*x_j (duplicates add) for both declared formats (nl-model.h: 0.5 x'Qx; shipped MIQP example)",
                     "all data are small integers; coefficients n/4 are exact in doubles; Hessian values and row coefficients are nonzero; in every fifth case the objective data (offset, linear and Hessian values) are multiplied by 2^30 when the model is built and what is read back of the objective is divided by it (exact), so that integer-valued constants beyond the 32-bit range are written",
                     "the NL image is observed through mp::ReadNLFile (include/mp/nl-reader.h) with a recording handler, .col/.row as text lines",
                     "the solver is a shell command that copies a prepared text .sol into place",
                     "a variable is nonlinear iff it occurs as either index of a Hessian entry; binary = integer type with bounds [0,1]"])
    return rcode


if __name__ == "__main__":
    main_wrapper(PID, run)
