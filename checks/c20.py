#!/usr/bin/env python3
"""C20 - the exported reformulation graph is well-formed and complete (Graph.tla)."""
import json, os, random, sys, time
sys.path.insert(0, os.path.join(os.path.dirname(os.path.abspath(__file__)), "..", "tools"))
sys.path.insert(0, os.path.dirname(os.path.abspath(__file__)))
from vlib import *
import targets, drv, cvtcases, nlgen, graphnorm
import importlib
c04 = importlib.import_module("c04")
c19 = importlib.import_module("c19")

PID = "C20"
HOSTILE = (['x"q', "y\\b", "z\ttab"], ['c"1', "c\\2", 'c{3}', "c,4", "c:5"], ['L"0'], ['o"bj'])


def run(tier):
    t0 = time.time()
    sd = os.path.join(SPECS, "valcvt")
    mc = tlc("MCGraph", "MCGraph.cfg", cwd=sd, workers=NPROC)
    tlc_must_pass(mc, "MCGraph")
    g = tlc("GenNames", "GenNames.cfg", cwd=sd, workers=NPROC)
    tlc_must_pass(g, "GenNames")
    gen = printed_json(g, "CASE")
    gen.sort(key=lambda c: json.dumps(c, sort_keys=True))
    rnd = random.Random(seed())
    exe = targets.get("h_drv_asan" if tier == "thorough" else "h_drv")   # thorough: ASan/UBSan build
    cfgs, acc = cvtcases.configs(exe)
    linear_opts = dict(cfgs)["mip-linear"]
    cases = []
    n1 = 1500 if tier == "thorough" else 260
    for i in sorted(rnd.sample(range(len(gen)), n1)):
        a = gen[i]
        m, _ = c04.build(dict(a, tr="sol"), rnd)
        nv, nalg, nlog, nobj = len(m["vars"]), len(m["cons"]), len(m.get("lcons", [])), len(m["objs"])
        hostile = rnd.random() < 0.35
        vn, cn, ln, on = (HOSTILE[0][:nv], HOSTILE[1][:nalg], HOSTILE[2][:nlog], HOSTILE[3][:nobj]) if hostile else c19.nameset(a["nameset"], nv, nalg, nlog, nobj)
        files = {}
        if a["files"] != "absent":
            files = {}
            if a["files"] != "rowonly":
                files[".col"] = "".join(n + "\n" for n in vn)
            if a["files"] != "colonly":
                files[".row"] = "".join(n + "\n" for n in cn + ln + on)
        opts = {"native": [], "slack": [acc["LinConRange"]["opt"] + "=0"], "linear": list(linear_opts)}[a["rmode"]]
        opts += ["cvt:names=%d" % a["mode"], "cvt:writegraph=graph.jsonl"]
        cases.append({"id": len(cases), "model": m, "opts": opts, "answer": "status 0 ok\n", "files": files,
                      "tag": "names:%s:%s:%s:mode%s:%s:%s" % ("-".join(a["rows"]), a["extra"], a["rmode"], a["mode"], a["files"], "hostile" if hostile else a["nameset"]),
                      "hdr": {"nv": nv, "ncons": nalg + nlog, "nobj": nobj}})
    # models of the converter-family generator under its acceptance configurations
    gen2, g2 = cvtcases.generate()
    # half of them compositions of two models: several constraints of one type with different fates
    # (delivered / reformulated / unused) are what the status and delivered-set clauses are about
    n2 = 3000 if tier == "thorough" else 700
    for c in cvtcases.sample(gen2, (cfgs, acc), n2, seed() + 1, pair_every=2):
        cvtcases.prepare(c)
        gm = c["gen"]
        m = c["model"]
        cases.append({"id": len(cases), "model": m, "opts": [cvtcases.EPS_OPT] + c["opts"] + ["cvt:writegraph=graph.jsonl"], "answer": "status 0 ok\n", "files": {},
                      "tag": "gen:%s:%s:%s:%s:%s:k%s:%s" % (gm["kind"], gm["op"], gm["sh"], "-".join(gm["pat"]), gm["use"], gm["k"], c["cfgname"]),
                      "hdr": {"nv": len(m["vars"]), "ncons": len(m["cons"]) + len(m["lcons"]), "nobj": len(m["objs"])}})
    # ... and compositions of two models with the same root operator but different uses, under the configurations
    # that keep the operator (several constraints of one type with different fates)
    keep_cfgs = [c_ for c_ in cfgs if c_[0] in ("native", "native-nocones", "level1")]
    for j, gm in enumerate(cvtcases.same_op_pairs(gen2, 1200 if tier == "thorough" else 260, seed() + 2)):
        c = cvtcases.prepare({"gen": gm})
        name_, opts_ = keep_cfgs[j % len(keep_cfgs)]
        m = c["model"]
        cases.append({"id": len(cases), "model": m, "opts": [cvtcases.EPS_OPT] + list(opts_) + ["cvt:writegraph=graph.jsonl"], "answer": "status 0 ok\n", "files": {},
                      "tag": "gen:%s:%s:%s:%s:%s:k%s:%s" % (gm["kind"], gm["op"], gm["sh"], "-".join(gm["pat"]), gm["use"], gm["k"], name_),
                      "hdr": {"nv": len(m["vars"]), "ncons": len(m["cons"]) + len(m["lcons"]), "nobj": len(m["objs"])}})
    # a second run into the same file: the export file of every third case exists before the run, holding the
    # export of an earlier conversion (or something that is no export at all); the file has to describe this run only
    first = drv.run_cases(exe, PID, cases[:8])
    stale = next((r["graph_text"] for r in first if r.get("graph_text", "").count("\n") > 5), None)
    if stale is None:
        raise Broken("no export from the first cases to use as the earlier contents of the file")
    nprior = 0
    for c in cases:
        if c["id"] % 3 == 1:
            c["extra_files"] = {"graph.jsonl": stale if c["id"] % 2 else "this is no graph export\n{\"broken\": [1, 2\n"}
            nprior += 1
    runs = drv.run_cases(exe, PID, cases)
    evs = []
    nrun = 0
    skipped = 0
    for c, r in zip(cases, runs):
        converted = any(e["e"] == "FinishProblemModificationPhase" for e in r["rec"])
        if r["hang"] or r["rc"] < 0 or r["rc"] in (97, 98, 99, 134, 139):
            evs.append({"k": "reset", "id": c["id"]}); evs.append({"k": "badjson", "line": 0})
            evs.append({"k": "done", "api": {"nvars": 0, "nobjs": 0, "cons": []}, "hdr": c["hdr"]})
            continue
        if not converted or "graph_text" not in r:
            skipped += 1          # refused conversions write no complete graph; C01/C09 cover refusals
            continue
        nrun += 1
        api = {"nvars": 0, "nobjs": 0, "cons": []}
        for ev in r["rec"]:
            if ev["e"] == "Vars":
                api["nvars"] = ev["n"]
            elif ev["e"] == "Obj":
                api["nobjs"] = max(api["nobjs"], ev["i"] + 1)
            elif ev["e"] == "Con":
                api["cons"].append({"g": ev["grp"], "vars": graphnorm.api_con_vars(ev["d"])})
        evs.append({"k": "reset", "id": c["id"]})
        for e in graphnorm.normalise(r["graph_text"]):
            if e["k"] == "con":
                e["vars"] = sorted(e["vars"])
            evs.append(e)
        evs.append({"k": "done", "api": api, "hdr": c["hdr"]})
    # one TLC process per chunk of whole runs
    chunks, cur = [], []
    for e in evs:
        if e["k"] == "reset" and len(cur) > 4000:
            chunks.append(cur); cur = []
        cur.append(e)
    if cur: chunks.append(cur)
    d = os.path.join(BUILD, "traces"); os.makedirs(d, exist_ok=True)
    import concurrent.futures as cf
    def one(k):
        p = os.path.join(d, "c20-%d-%d.ndjson" % (os.getpid(), k))
        with open(p, "w") as f:
            for e in chunks[k]:
                f.write(json.dumps(e) + "\n")
        r = tlc("TraceGraph", "TraceGraph.cfg", cwd=sd, env={"TRACE": p}, workers=1, deadlock=False, xmx="3g")
        if r.rc != 0 or len(printed_json(r, "DONE")) != 1:
            raise Broken("TraceGraph failed on %s rc=%s\n%s" % (p, r.rc, r.out[-2500:]))
        os.remove(p)
        return r
    with cf.ThreadPoolExecutor(max_workers=NPROC) as ex:
        res = list(ex.map(one, range(len(chunks))))
    verdicts = [v for r in res for v in printed_json(r, "VERDICT")]
    v = Verdict(PID)
    nbad = 0
    for vd in verdicts:
        if not vd["wrong"]:
            continue
        nbad += 1
        c = cases[vd["id"]]
        for w in vd["wrong"]:
            key = "%s:%s" % (w[0], c["tag"])
            v.violation(key, "%s: %s in the export of 'h_drv m -AMPL %s'" % (c["tag"], json.dumps(w), " ".join(c["opts"])),
                        {"tag": c["tag"], "opts": c["opts"], "files": c["files"], "wrong": w})
    rcode, nnew = v.finish()
    if rcode == 0 and nrun < len(cases) // 2:
        raise Broken("only %d of %d runs produced a graph" % (nrun, len(cases)))
    write_evidence(PID, tier, {
        "states": mc.distinct + g.distinct + g2.distinct + sum(r.distinct for r in res), "transitions": mc.generated + g.generated + g2.generated + sum(r.generated for r in res),
        "traces_validated_against_impl": nrun, "samples": [cases[0]["tag"], cases[-1]["tag"], evs[1:6]],
        "evaluations": nrun, "export_records_validated": len(evs), "runs_without_graph": skipped, "rejected_runs": nbad,
        "design_check": {"module": "MCGraph", "distinct_states": mc.distinct},
        "runs_into_an_existing_file": nprior,
        "explanation": "every record of the cvt:writegraph export of each real conversion is consumed by the state machine Graph.tla (declaration before use, consecutive indices, exactly one status per stored constraint, link ranges inside the final item-class sizes, NL and delivered items all present) and the sequence of constraints marked final is compared with the AddConstraint calls the ModelAPI received (group and variables); names with JSON-hostile characters are included",
        "violations_new": nnew,
    }, time.time() - t0, violations=nnew,
        assumptions=["each export line is parsed by Python's strict json module before TLC sees it", "a final constraint is matched to an API call by position, constraint group and variable multiset"])
    return rcode

if __name__ == "__main__":
    main_wrapper(PID, run)
