#!/usr/bin/env python3
"""C02 - NL reader is total, memory-safe and reports only validated data
(specs/nl/NLProtocol.tla, MCNLProtocol.tla, TraceNLProtocol.tla; harness/h_nlread.cc).

(A) TLC model-checks the callback-protocol automaton on small headers.
(B) TLC-generated abstract models (GenNL.tla) are serialised by the REAL NLW2 writer
    (harness h_nlrt: text, binary); this script derives the byte-swapped twins, the
    page-size paddings and the structure-aware hostile mutations (seeded).
(C) h_nlread reads every input {memory, file} x flags x handler under ASan+UBSan; TLC
    validates every recorded stream against NLProtocol (TraceNLProtocol.tla)."""
import base64, concurrent.futures as cf
import json, os, random, re, shutil, struct, sys, time
sys.path.insert(0, os.path.join(os.path.dirname(os.path.abspath(__file__)), "..", "tools"))
sys.path.insert(0, os.path.dirname(os.path.abspath(__file__)))
from vlib import *
import targets
import c03

PID = "C02"
NL = os.path.join(SPECS, "nl")
NATOMS = 320
PAGE = os.sysconf("SC_PAGE_SIZE")
INT_MAX = 2147483647


# ------------------------------------------------------------------ NL file structure
def op_classes():
    """opcode -> arity class, read from the specification's table (NLModel.tla)."""
    txt = open(os.path.join(NL, "NLModel.tla")).read()
    return {int(c): k for _, c, k in re.findall(r'<<"(\w+)", (\d+), "(\w+)">>', txt)}


FIXED = {"unary": 1, "not": 1, "binary": 2, "rel": 2, "binlog": 2, "logcount": 2, "if": 3, "ifsym": 3, "impl": 3}


class BinNL:
    """Walks a (valid, little-endian) binary NL file and lists its fields:
    (offset, size, type in 'c','i','h','d','s', role)."""

    def __init__(self, data, classes):
        self.d, self.cls, self.fields = data, classes, []
        p = 0
        for _ in range(10):
            p = data.index(b"\n", p) + 1
        self.hlen = p
        nums = [int(x) for x in re.findall(rb"-?\d+", data.split(b"\n")[1].split(b"#")[0])]
        self.nv, self.nac = nums[0], nums[1]
        self.pos = p
        self.walk()

    def f(self, size, typ, role):
        if self.pos + size > len(self.d):
            raise ValueError("walk past the end")
        self.fields.append((self.pos, size, typ, role))
        v = self.d[self.pos:self.pos + size]
        self.pos += size
        return v

    def ch(self, role):
        return chr(self.f(1, "c", role)[0])

    def i(self, role):
        return struct.unpack("<i", self.f(4, "i", role))[0]

    def string(self):
        n = self.i("len")
        if n:
            self.f(n, "s", "bytes")

    def const(self, c):
        if c == "n": self.f(8, "d", "val")
        elif c == "s": self.f(2, "h", "val")
        elif c == "l": self.f(4, "i", "val")
        else: raise ValueError("constant expected")

    def expr(self):
        c = self.ch("ecode")
        if c in "nsl":
            self.const(c)
        elif c == "v":
            self.i("index")
        elif c == "h":
            self.string()
        elif c == "f":
            self.i("index")
            for _ in range(self.i("count")):
                self.expr()
        elif c == "o":
            k = self.cls.get(self.i("opcode"))
            if k in FIXED:
                for _ in range(FIXED[k]):
                    self.expr()
            elif k == "pl":
                n = self.i("count")
                for _ in range(2 * n - 1):
                    self.const(self.ch("ecode"))
                self.expr()
            elif k is not None:
                for _ in range(self.i("count")):
                    self.expr()
            else:
                raise ValueError("opcode")
        else:
            raise ValueError("expression code %r" % c)

    def lin(self, n):
        for _ in range(n):
            self.i("index"); self.f(8, "d", "val")

    def bounds(self, n):
        for _ in range(n):
            t = self.ch("btype")
            if t == "0": self.f(8, "d", "val"); self.f(8, "d", "val")
            elif t in "124": self.f(8, "d", "val")
            elif t == "5": self.i("val"); self.i("index")
            elif t != "3": raise ValueError("bound type")

    def walk(self):
        while self.pos < len(self.d):
            c = self.ch("seg")
            if c in "CL": self.i("index"); self.expr()
            elif c == "O": self.i("index"); self.i("val"); self.expr()
            elif c == "V":
                self.i("index"); n = self.i("count"); self.i("val"); self.lin(n); self.expr()
            elif c == "F": self.i("index"); self.i("val"); self.i("val"); self.string()
            elif c == "S":
                kind = self.i("val"); n = self.i("count"); self.string()
                for _ in range(n):
                    self.i("index")
                    if kind & 4: self.f(8, "d", "val")
                    else: self.i("val")
            elif c == "b": self.bounds(self.nv)
            elif c == "r": self.bounds(self.nac)
            elif c in "kK":
                for _ in range(self.i("count")): self.i("val")
            elif c in "JG": self.i("index"); self.lin(self.i("count"))
            elif c in "xd": self.lin(self.i("count"))
            else: raise ValueError("segment %r" % c)


def byteswap(data, walk):
    """The same problem written on a machine of the other endianness: every binary
    field reversed and the header's arithmetic kind 1 -> 2."""
    b = bytearray(data)
    for off, size, typ, _ in walk.fields:
        if typ in "ihd":
            b[off:off + size] = b[off:off + size][::-1]
    lines = bytes(b[:walk.hlen]).split(b"\n")
    m = re.match(rb"^( \d+ \d+ )1( \d+.*)$", lines[5], re.S)
    if not m:
        raise ValueError("arith kind not found in header line 6: %r" % lines[5])
    lines[5] = m.group(1) + b"2" + m.group(2)
    return b"\n".join(lines) + bytes(b[walk.hlen:])


def pad_to(data, size):
    """Same content, given size: lengthen the comment of the first header line."""
    i = data.index(b"\n")
    return data[:i] + b"\t#" + b"p" * (size - len(data) - 2) + data[i:] if size - len(data) >= 2 else None


def hostile_ints(rnd, maxima):
    base = [0, 1, -1, INT_MAX, INT_MAX - 1, -INT_MAX - 1, 65535, 32768, 83, 82, 64, 255]
    for m in maxima:
        base += [m - 1, m, m + 1]
    return base


def mutate_text(data, rnd, maxima):
    kind = rnd.choice(["int", "int", "int", "int", "trunc", "trunc", "seg", "nul", "dropline", "dupline", "bigint", "hdr", "hdrline",
                       "str", "str", "wide"])
    lines = data.split(b"\n")
    if kind == "str":            # string literals "h<len>:<chars>": hostile lengths, and the input ending inside the literal
        lits = [(m.start(), m.end(), int(m.group(1))) for m in re.finditer(rb"(?m)^h(\d+):", data)]
        if not lits:
            kind = "trunc"
        else:
            st, en, ln = rnd.choice(lits)
            how = rnd.choice(["len", "len", "cut", "cut", "cutlen"])
            if how == "len":
                v = rnd.choice([ln + 1, ln + 2, ln + 100, 2000000000, INT_MAX, 0, max(0, ln - 1), 65536])
                return data[:st] + b"h%d:" % v + data[en:], "strlen@%d=%d" % (st, v)
            cut = en + rnd.randrange(0, ln + 1)
            if how == "cut":
                return data[:cut], "strcut@%d" % cut
            v = rnd.choice([ln + 50, 2000000000])
            return (data[:st] + b"h%d:" % v + data[en:])[:cut + len(b"%d" % v) - len(b"%d" % ln)], "strcutlen@%d=%d" % (st, v)
    if kind == "hdrline":        # every count of one header line becomes the same hostile value
        i = rnd.randrange(1, 10)
        v = rnd.choice([INT_MAX, INT_MAX, INT_MAX - 1, 1073741824, 0, 65536])
        parts = lines[i].split(b"#", 1)
        parts[0] = re.sub(rb"\d+", str(v).encode(), parts[0])
        lines[i] = b"#".join(parts)
        return b"\n".join(lines), "hdrline@%d=%d" % (i, v)
    if kind == "wide":           # any number of the file becomes one outside the range of int / long / double
        toks = [(m.start(), m.end()) for m in re.finditer(rb"(?<![\w.#])[-+]?\d[\d.]*(?:e[-+]?\d+)?(?![\w.])", data)]
        if not toks:
            return None
        s, e = rnd.choice(toks)
        w = rnd.choice(WIDE)
        return data[:s] + w + data[e:], "wide@%d=%s" % (s, w.decode())
    if kind in ("int", "bigint", "hdr"):
        toks = []
        off = 0
        for li, line in enumerate(lines):
            body = line.split(b"#")[0]
            if kind != "hdr" or li < 10:
                for m in re.finditer(rb"(?<![\w.])[-+]?\d+(?![\w.])", body):
                    toks.append((off + m.start(), off + m.end()))
            off += len(line) + 1
        if not toks:
            return None
        s, e = rnd.choice(toks)
        v = rnd.choice(hostile_ints(rnd, maxima)) if kind != "bigint" else rnd.choice([2147483648, 4294967296, 99999999999999999999, -2147483649])
        return data[:s] + str(v).encode() + data[e:], "%s@%d=%d" % (kind, s, v)
    if kind == "trunc":
        cut = rnd.choice([rnd.randrange(len(data)), data.rfind(b"\n", 0, rnd.randrange(1, len(data))) + 1, len(data) - 1, len(data) - 2])
        return data[:max(0, cut)], "trunc@%d" % cut
    if kind == "seg":
        segs = [i for i, l in enumerate(lines) if i >= 10 and l[:1].isalpha()]
        if not segs:
            return None
        i = rnd.choice(segs)
        c = rnd.choice(b"CLOVFGJSbrkKxdRzovnfh")
        lines[i] = bytes([c]) + lines[i][1:]
        return b"\n".join(lines), "seg@%d=%c" % (i, c)
    if kind == "nul":
        p = rnd.randrange(len(data))
        if rnd.random() < 0.5:
            return data[:p] + b"\0" + data[p:], "nul+@%d" % p
        return data[:p] + b"\0" + data[p + 1:], "nul=@%d" % p
    i = rnd.randrange(len(lines))
    if kind == "dropline":
        return b"\n".join(lines[:i] + lines[i + 1:]), "drop@%d" % i
    return b"\n".join(lines[:i + 1] + lines[i:]), "dup@%d" % i


def string_mutations(data):
    """Every text input with a string literal "h<len>:<chars>" (first and last literal): hostile lengths, and the
    input ending at every position inside the literal, with the true and with a hostile length."""
    lits = [(m.start(), m.end(), int(m.group(1))) for m in re.finditer(rb"(?m)^h(\d+):", data)]
    out = []
    for st, en, ln in ([lits[0], lits[-1]] if len(lits) > 1 else lits):
        for v in (ln + 1, ln + 100, 2000000000, INT_MAX, 0, max(0, ln - 1)):
            out.append((data[:st] + b"h%d:" % v + data[en:], "strlen@%d=%d" % (st, v)))
        for k in sorted({0, 1, ln // 2, max(0, ln - 1), ln}):
            out.append((data[:en + k], "strcut@%d+%d" % (st, k)))
            big = data[:st] + b"h2000000000:" + data[en:]
            out.append((big[:st + len(b"h2000000000:") + k], "strcutbig@%d+%d" % (st, k)))
    return out


WIDE = [b"99999999999999999999", b"-99999999999999999999", b"9223372036854775808", b"-9223372036854775809", b"1e30", b"-1e30",
        b"1e400", b"2147483648", b"1e19", b"nan", b"inf"]


def wide_number_mutations(data):
    """Every numeric field of the first header line (format arguments and AMPL options, which the reader converts
    from double to long) replaced by numbers outside the range of int / long / double."""
    nl = data.find(b"\n")
    first = data[:nl].split(b"#")[0]
    out = []
    for m in list(re.finditer(rb"(?<![\w.])[-+]?[\d.]+(?:e[-+]?\d+)?(?![\w.])", first))[1:]:
        for w in WIDE:
            out.append((data[:m.start()] + w + data[m.end():], "wide@%d=%s" % (m.start(), w.decode())))
    return out


def mutate_binary(data, walk, rnd, maxima):
    kind = rnd.choice(["field", "field", "field", "field", "field", "trunc", "trunc", "seg", "nul", "hdrint"])
    if kind == "field":
        cands = [f for f in walk.fields if f[3] in ("index", "count", "opcode", "len", "val", "btype", "ecode") and f[2] in "ihc"]
        if not cands:
            return None
        off, size, typ, role = rnd.choice(cands)
        if typ == "i":
            v = rnd.choice(hostile_ints(rnd, maxima))
            return data[:off] + struct.pack("<i", v) + data[off + 4:], "%s@%d=%d" % (role, off, v)
        if typ == "h":
            v = rnd.choice([0, -1, 32767, -32768])
            return data[:off] + struct.pack("<h", v) + data[off + 2:], "%s@%d=%d" % (role, off, v)
        c = rnd.choice(b"0123456789nslvfoh\0CJ")
        return data[:off] + bytes([c]) + data[off + 1:], "%s@%d=%d" % (role, off, c)
    if kind == "trunc":
        offs = [f[0] for f in walk.fields] + [f[0] + f[1] - 1 for f in walk.fields]
        cut = rnd.choice([rnd.choice(offs), rnd.randrange(len(data)), len(data) - 1])
        return data[:cut], "trunc@%d" % cut
    if kind == "seg":
        segs = [f for f in walk.fields if f[3] == "seg"]
        off = rnd.choice(segs)[0]
        c = rnd.choice(b"CLOVFGJSbrkKxdRz\0")
        return data[:off] + bytes([c]) + data[off + 1:], "seg@%d=%d" % (off, c)
    if kind == "nul":
        p = rnd.randrange(len(data))
        return data[:p] + b"\0" + data[p:], "nul+@%d" % p
    r = mutate_text(data[:walk.hlen], rnd, maxima)   # the header is text in both formats
    for _ in range(5):
        if r and r[1].startswith(("int", "hdr", "bigint", "hdrline")):
            break
        r = mutate_text(data[:walk.hlen], rnd, maxima)
    return (r[0] + data[walk.hlen:], "hdr:" + r[1]) if r else None


# ------------------------------------------------------------------ inputs
def make_inputs(tier, rnd, exe):
    rc, so, se = run_harness(exe, ["atoms", str(seed()), str(NATOMS)], timeout=60)
    info = json.loads(so)
    nsim = 60 if tier != "thorough" else 600
    cases, exh, sim = c03.generate(tier, info["nfixed"], nsim, natoms=NATOMS)
    # base models: a spread over the families (every family, a sample of each), all simulated ones
    fams = {}
    for c in cases:
        fams.setdefault(c["tag"].split(":")[0], []).append(c)
    per = 6 if tier != "thorough" else 40
    bases = []
    for f, cs in sorted(fams.items()):
        bases += cs if f == "sim" else rnd.sample(cs, min(per, len(cs)))
    # ... and one operator case of every arity class of the specification's table (each class has its own
    # reader callback; a seeded sample of six alone can leave a class out)
    txt = open(os.path.join(NL, "NLModel.tla")).read()
    cls_of = {n: k for n, _, k in re.findall(r'<<"(\w+)", (\d+), "(\w+)">>', txt)}
    have = {cls_of.get(c["tag"].split(":")[1]) for c in bases if c["tag"].startswith("op:")}
    byc = {}
    for c in fams.get("op", []):
        byc.setdefault(cls_of.get(c["tag"].split(":")[1]), []).append(c)
    for k in sorted(k for k in byc if k is not None and k not in have):
        bases.append(rnd.choice(byc[k]))
    for c in bases:
        c["cfgs"] = [rnd.choice(c03.ALL_CFGS)]
    work = os.path.join(BUILD, "run", PID, "gen")
    shutil.rmtree(os.path.join(BUILD, "run", PID), ignore_errors=True)
    keep = os.path.join(BUILD, "run", PID, "inputs")
    os.makedirs(work); os.makedirs(keep)
    cin = os.path.join(work, "cases.ndjson")
    with open(cin, "w") as f:
        for c in bases:
            f.write(json.dumps({k: c[k] for k in ("id", "cfgs", "m", "hdr", "colsz")}) + "\n")
    rc, so, se = run_harness(exe, ["run", cin, os.path.join(work, "exec.ndjson"), work, str(seed()), str(NATOMS), keep], timeout=900)
    classes = op_classes()
    nmut = {"t": 12, "b": 12, "s": 6} if tier != "thorough" else {"t": 60, "b": 60, "s": 30}
    inputs = []          # (path, role, base) in processing order; "swap" directly follows its "bin"
    stats = {"text": 0, "bin": 0, "swap": 0, "pad": 0, "mut": 0, "unwalkable": 0}

    def emit(name, data, role, base):
        p = os.path.join(keep, name)
        with open(p, "wb") as f:
            f.write(data)
        inputs.append((p, role, base))
        stats[role] += 1

    for c in bases:
        h = c["hdr"]
        maxima = sorted({h["nv"], h["nac"], h["no"], h["nlc"], h["nf"], h["nv"] + sum(h["nce"]), h["nac"] + h["nlc"]})
        base = "c%d" % c["id"]
        group = []
        tp, bp = os.path.join(keep, "%d_0_t.nl" % c["id"]), os.path.join(keep, "%d_0_b.nl" % c["id"])
        if not (os.path.exists(tp) and os.path.exists(bp)):
            continue        # the writer died on this model (C03 reports that)
        text, binary = open(tp, "rb").read(), open(bp, "rb").read()
        os.remove(tp); os.remove(bp)
        n0 = len(inputs)
        emit(base + "_t.nl", text, "text", base)
        emit(base + "_b.nl", binary, "bin", base)
        try:
            walk = BinNL(binary, classes)
            swapped = byteswap(binary, walk)
            emit(base + "_s.nl", swapped, "swap", base)
        except (ValueError, struct.error, IndexError) as ex:
            raise Broken("cannot walk the binary file of case %s (%s): %s" % (c["id"], c["tag"], ex))
        for k, (tagc, data) in enumerate((("t", text), ("b", binary), ("s", swapped))):
            if (c["id"] + k) % 3 == 0 or tier == "thorough":
                target = ((len(data) + 2) // PAGE + 1) * PAGE
                for dlt in (-1, 0, 1):
                    pdat = pad_to(data, target + dlt)
                    if pdat is not None:
                        emit("%s_%s_pad%+d.nl" % (base, tagc, dlt), pdat, "pad", base)
            for j in range(nmut[tagc]):
                if tagc == "t":
                    r = mutate_text(data, rnd, maxima)
                else:
                    r = mutate_binary(binary, walk, rnd, maxima)
                    if r and tagc == "s":
                        # mutate the native file, then swap what can still be swapped field by field
                        try:
                            r = (byteswap(r[0], BinNL(r[0], classes)), r[1])
                        except (ValueError, struct.error, IndexError):
                            b2 = bytearray(swapped)
                            mdat = r[0]
                            if len(mdat) == len(binary):
                                for q in range(len(binary)):
                                    if mdat[q] != binary[q]:
                                        b2[q] = mdat[q]
                                r = (bytes(b2), r[1])
                            else:
                                r = (swapped[:len(mdat)], r[1])
                if r and r[0] not in (text, binary, swapped):
                    emit("%s_%s_m%d.nl" % (base, tagc, j), r[0], "mut", base)
            if tagc == "t":
                for j2, (mdat, _lab) in enumerate(string_mutations(data)):
                    emit("%s_t_str%d.nl" % (base, j2), mdat, "mut", base)
                if len([1 for q in inputs if "_t_wide" in q[0]]) < (400 if tier != "thorough" else 4000):
                    for j2, (mdat, _lab) in enumerate(wide_number_mutations(data)):
                        emit("%s_t_wide%d.nl" % (base, j2), mdat, "mut", base)
    # a few degenerate byte strings
    edge = [b"", b"g", b"b", b"\0", b"g3 1 1 0\n", b"b3 1 1 0\n 1 0 0\n", b"g3 1 1 0\n" + b" 0\n" * 9, b"x" * 10,
            b"g" + b"9" * 400 + b"\n", b"g3 1 1 0\n 1 0 0\n 0 0\n 0 0\n 0 0 0\n 0 0 0 1\n 0 0 0 0 0\n 0 0\n 0 0\n 0 0 0 0 0\n",
            b"g3 1 1 0\n 1 0 0\n 0 0\n 0 0\n 0 0 0\n 0 0 0 1\n 0 0 0 0 0\n 0 0\n 0 0\n 0 0 0 0 0\nb\n3\n",
            b"b3 1 1 0\n 1 0 0\n 0 0\n 0 0\n 0 0 0\n 0 0 1 1\n 0 0 0 0 0\n 0 0\n 0 0\n 0 0 0 0 0\nb3"]
    for j, data in enumerate(edge):
        emit("edge_%s_m%d.nl" % ("t" if data[:1] != b"b" else "b", j), data, "mut", "edge")
    return inputs, stats, exh, sim, len(bases)


def crash_summary(e):
    return c03.crash_key(e)


def run(tier):
    t0 = time.time()
    rnd = random.Random(seed())
    exe_rt = targets.get("h_nlrt")      # (builds share object files: one after the other)
    exe = targets.get("h_nlread")
    with cf.ThreadPoolExecutor(max_workers=2) as ex:
        # (A) design check of the automaton, concurrently with input generation
        fmc = ex.submit(tlc, "MCNLProtocol", "MCNLProtocolQuick.cfg" if tier != "thorough" else "MCNLProtocol.cfg", NL, None, NPROC)
        fin = ex.submit(make_inputs, tier, rnd, exe_rt)
        inputs, stats, exh, sim, nbases = fin.result()
        mc = fmc.result()
    tlc_must_pass(mc, "MCNLProtocol")
    # (C) read everything, in parallel chunks (a chunk = whole bases, so twins stay adjacent)
    d = outdir(PID)
    nchunks = max(1, min(NPROC, 8))
    groups = {}
    for it in inputs:
        groups.setdefault(it[2], []).append(it)
    chunks = [[] for _ in range(nchunks)]
    for i, g in enumerate(groups.values()):
        chunks[i % nchunks] += g

    def run_chunk(i):
        w = os.path.join(BUILD, "run", PID, "r%d" % i)
        os.makedirs(w, exist_ok=True)
        lst = os.path.join(w, "list.txt")
        with open(lst, "w") as f:
            for p, role, base in chunks[i]:
                f.write("%s %s %s\n" % (p, role, base))
        trace = os.path.join(d, "trace-%s-%d.ndjson" % (tier, i))
        rc, so, se = run_harness(exe, ["run", lst, trace, w], timeout=2400)
        lines = sanitize_trace(trace, rc, se)
        ok, res = validate_trace("TraceNLProtocol", "TraceNLProtocol.cfg", trace, cwd=NL, xmx="4g", timeout=2400)
        if len(printed_json(res, "DONE")) != 1:
            raise Broken("TraceNLProtocol did not reach the end of %s\n%s" % (trace, res.out[-2500:]))
        return trace, lines, res

    with cf.ThreadPoolExecutor(max_workers=nchunks) as ex:
        results = list(ex.map(run_chunk, range(nchunks)))

    found = {}

    def report(key, desc, payload):
        if key in found:
            found[key][2] += 1
        else:
            found[key] = [desc, payload, 1]

    def payload_for(name):
        p = os.path.join(BUILD, "run", PID, "inputs", name)
        try:
            data = open(p, "rb").read()
        except OSError:
            return {"input": name}
        return {"input": name, "size": len(data), "bytes_base64": base64.b64encode(data[:20000]).decode(),
                "text": data[:3000].decode("latin-1")}

    nread = nbad = states = trans = 0
    callbacks = {}
    terminals = {}
    seen = set()
    for trace, lines, res in results:
        states += res.distinct
        trans += res.generated
        for e in lines:
            if e["e"] == "Read":
                nread += 1
                seen.add(e["input"])
                if e["handler"] == "rec":
                    for ev in e["a"]:
                        callbacks[ev["e"]] = callbacks.get(ev["e"], 0) + 1
                t = e["a"][-1] if e["a"] else {"e": "none"}
                k = t["e"] if t["e"] != "Throw" else t["kind"]
                terminals[k] = terminals.get(k, 0) + 1
            elif e["e"] in ("Crash", "Hang"):
                seen.add(e.get("input"))
        for b in printed_json(res, "BAD"):
            nbad += 1
            w = b["what"]
            line = lines[b["line"] - 1]
            if w["k"] == "event":
                fmtk = "text" if "_t" in str(line.get("input", "")) else "binary"
                m = re.search(r"flags (\d) handler (\w+) path (\w+)", line.get("ctx", ""))
                where = "%s/%s" % (m.group(2), m.group(3)) if m else "?"
                key = "%s:%s@%s/%s" % (line["e"].lower(), crash_summary(line) if line["e"] == "Crash" else "timeout", where, fmtk)
                report(key, "reading %s (%s) [%s]: %s" % (line.get("input"), line.get("role"), line.get("ctx"),
                                                          (line.get("stderr") or "")[:900]),
                       dict(payload_for(line.get("input", "")), record=line))
                continue
            fmtk = "text" if "_t" in w["input"] else "binary"
            for p in w["problems"]:
                k = p["k"]
                if k == "protocol":
                    sub = "%s:%s" % (p["ev"]["e"], re.sub(r"\W+", "_", p["why"]))
                elif k in ("terminal", "validinput", "noterminal"):
                    t = p["last"]
                    sub = t.get("kind", t["e"])
                else:
                    sub = ""
                key = "%s:%s@%s/%s/%s" % (k, sub, w["handler"], fmtk, w["role"])
                report(key, "input %s (%s) flags=%s handler=%s: %s" % (w["input"], w["role"], w["flags"], w["handler"], json.dumps(p)[:700]),
                       dict(payload_for(w["input"]), flags=w["flags"], handler=w["handler"], problem=p))
    miss = [os.path.basename(p) for p, _, _ in inputs if os.path.basename(p) not in seen]
    if miss:
        raise Broken("%d inputs were not read, e.g. %s" % (len(miss), miss[:3]))
    if terminals.get("EndInput", 0) == 0 or terminals.get("ReadError", 0) == 0 or terminals.get("BinaryReadError", 0) == 0:
        raise Broken("vacuous run: terminal events %s" % terminals)
    spec_events = set(re.findall(r'e\.e = "(\w+)" ->', open(os.path.join(NL, "NLProtocol.tla")).read()))
    unseen = sorted(spec_events - set(callbacks))
    if unseen:
        raise Broken("callbacks never observed in this run: %s" % unseen)
    v = Verdict(PID)
    for key in sorted(found):
        desc, payload, cnt = found[key]
        v.violation(key, "[%s] %s (%d record(s))" % (key, desc, cnt), payload)
    rcode, nnew = v.finish()
    sample = next(e for e in results[0][1] if e["e"] == "Read" and e["role"] == "mut" and e["handler"] == "rec")
    write_evidence(PID, tier, {
        "states": mc.distinct + exh.distinct + sim.distinct + states,
        "transitions": mc.generated + exh.generated + sim.generated + trans,
        "traces_validated_against_impl": 2 * nread,
        "samples": [{"input": sample["input"], "flags": sample["flags"], "events": sample["a"][-6:]}],
        "inputs": len(inputs), "inputs_by_role": stats, "base_models": nbases,
        "read_configurations_per_input": 12, "terminal_events_memory_path": terminals, "callbacks_observed": callbacks,
        "explanation": "valid NL files written by the real NLW2 writer from TLC-generated models (text, binary, byte-swapped), "
                       "padded to page size -1/0/+1, and seeded structure-aware mutations (truncation, hostile "
                       "counts/indices/opcodes/lengths, segment letters, NUL bytes, header numbers); each read from memory and "
                       "from disk x flags {0, READ_BOUNDS_FIRST} x {recording handler, mp::Problem builder, NullNLHandler} "
                       "under ASan+UBSan; every stream validated by TLC against the protocol automaton",
        "design_check": {"module": "MCNLProtocol", "distinct_states": mc.distinct, "states_generated": mc.generated},
        "rejected_records": nbad, "violations_new": nnew,
    }, time.time() - t0, violations=nnew,
        assumptions=["memory safety is what ASan/UBSan observe on the generated inputs (structure mutations, not all byte strings)",
                     "allocations above 256 MB raise std::bad_alloc in the harness (hostile counts), as an exhausted heap would",
                     "byte-swapped files are derived from native ones by reversing every binary field"])
    return rcode


if __name__ == "__main__":
    main_wrapper(PID, run)
