#!/usr/bin/env python3
"""C17 - checked integer arithmetic is exact or raises overflow (SafeInt.tla)."""
import json, os, sys, time
sys.path.insert(0, os.path.join(os.path.dirname(os.path.abspath(__file__)), "..", "tools"))
from vlib import *

PID = "C17"

def describe(e, at):
    """key + human description of one rejected line (keys are what known_findings match)."""
    kind = e["e"]
    if kind == "Row":
        sgn = "s" if e["s"] else "u"
        keys = []
        for i in at:
            b = e["b0"] + i - 1
            keys.append(("%s%d:%s:%d:%d" % (sgn, e["W"], e["op"], e["a"], b),
                         "SafeInt<%sint%d_t>: %d %s %d gave %s" % ("" if e["s"] else "u", e["W"], e["a"], e["op"], b,
                                                                 "OverflowError" if e["r"][i-1] == 1000000 else e["r"][i-1])))
        return keys
    def bv(j):
        v = sum(d << (8*i) for i, d in enumerate(j["d"]))
        return "Overflow" if j.get("ov") else str(-v if j["neg"] else v)
    sgn = "s" if e.get("s", True) else "u"
    if kind == "Wide":
        return [("%s%d:%s:%s:%s" % (sgn, e["W"], e["op"], bv(e["a"]), bv(e["b"])),
                 "SafeInt %s%d: %s %s %s gave %s" % (sgn, e["W"], bv(e["a"]), e["op"], bv(e["b"]), bv(e["r"])))]
    if kind == "WNarrow":
        return [("narrow:%s%d<-%s%d:%s" % (sgn, e["W"], "s" if e["ss"] else "u", e["SW"], bv(e["v"])),
                 "SafeInt<%s%d>(%s%d %s) gave %s" % (sgn, e["W"], "s" if e["ss"] else "u", e["SW"], bv(e["v"]), bv(e["r"])))]
    return [("%s:%s" % (kind, json.dumps(e)[:80]), "line rejected: " + json.dumps(e)[:300])]


def run(tier):
    t0 = time.time()
    # (A) design check of the oracle
    mc = tlc("MCSafeInt", "MCSafeInt.cfg", cwd=os.path.join(SPECS, "core"), workers=NPROC)
    tlc_must_pass(mc, "MCSafeInt")
    # (B/C) run the real templates, validate the recorded trace
    import targets; exe = targets.get("h_safeint")
    d = outdir(PID)
    trace = os.path.join(d, "trace-%s.ndjson" % tier)
    rc, so, se = run_harness(exe, [trace, tier, str(seed())], timeout=900)
    lines = sanitize_trace(trace, rc, se)
    ok, res = validate_trace("TraceSafeInt", "TraceSafeInt.cfg", trace, cwd=os.path.join(SPECS, "core"), xmx="12g")
    done = printed_json(res, "DONE")
    if len(done) != 1:
        raise Broken("TraceSafeInt did not reach the end of the trace\n" + res.out[-2000:])
    if done[0]["n"] != len(lines):
        raise Broken("line count mismatch %s vs %s" % (done[0]["n"], len(lines)))
    v = Verdict(PID)
    badl = printed_json(res, "BAD")
    for b in badl:
        e = lines[b["line"] - 1]
        if e["e"] == "Crash":
            v.violation("crash", "harness crashed (sanitizer/UB?): " + json.dumps(e)[:800], e)
            continue
        for key, desc in describe(e, b.get("at", [])):
            v.violation(key, desc, {"line": e if e["e"] != "Row" else {k: e[k] for k in ("W", "s", "op", "a")}})
    # (D) use sites: the sizes the expression factory computes from file-provided counts (SizeUse.tla)
    ms = tlc("MCSizeUse", "MCSizeUse.cfg", cwd=os.path.join(SPECS, "core"), workers=NPROC)
    tlc_must_pass(ms, "MCSizeUse")
    mw = tlc("MCSizeUse", "MCSizeUseWrap.cfg", cwd=os.path.join(SPECS, "core"), workers=NPROC)
    if mw.rc != 12 or mw.violated != "Holds":
        raise Broken("MCSizeUse with wrapping 32-bit arithmetic should violate Holds: rc=%s\n%s" % (mw.rc, mw.out[-1500:]))
    exe2 = targets.get("h_sizes")
    trace2 = os.path.join(d, "sizes-%s.ndjson" % tier)
    rc2, so2, se2 = run_harness(exe2, [trace2], timeout=600)
    lines2 = sanitize_trace(trace2, rc2, se2)
    ok2, res2 = validate_trace("TraceSizeUse", "TraceSizeUse.cfg", trace2, cwd=os.path.join(SPECS, "core"))
    done2 = printed_json(res2, "DONE")
    if len(done2) != 1 or done2[0]["n"] != len(lines2):
        raise Broken("TraceSizeUse did not reach the end of the trace\n" + res2.out[-2000:])
    nsz = sum(1 for e in lines2 if e["e"] == "Size")
    by_res = {}
    for e in lines2:
        if e["e"] == "Size": by_res[e["res"]] = by_res.get(e["res"], 0) + 1
    bad2 = printed_json(res2, "BAD")
    if not bad2 and not v.viol and (nsz < 300 or any(by_res.get(r, 0) < 20 for r in ("ok", "badalloc", "overflow"))):
        raise Broken("h_sizes: too few calls / outcomes not all exercised: %s" % by_res)
    for b in bad2:
        if b["kind"] == "crash":
            v.violation("size-crash", "h_sizes crashed: " + json.dumps(lines2[b["line"] - 1])[:800], lines2[b["line"] - 1])
        else:
            v.violation("size:%s:%d" % (b["kind"], b["n"]),
                        "ExprFactory::Begin<%s>(%d): %s, %d words requested - fewer than the %d-argument node needs"
                        % (b["kind"], b["n"], b["res"], b["req8"], b["n"]), b)
    rcode, nnew = v.finish()
    nvals = sum(len(e["r"]) if isinstance(e.get("r"), list) else 1 for e in lines if e["e"] != "Meta")
    kinds = {}
    for e in lines:
        kinds[e["e"]] = kinds.get(e["e"], 0) + (len(e["r"]) if isinstance(e.get("r"), list) else 1)
    samples = [next(json.dumps(e)[:300] for e in lines if e["e"] == k) for k in ("Row", "Wide", "WNarrow", "Narrow")]
    write_evidence(PID, tier, {
        "states": mc.distinct + res.distinct + ms.distinct + res2.distinct, "transitions": mc.generated + res.generated + ms.generated + res2.generated,
        "traces_validated_against_impl": 2, "samples": samples,
        "evaluations": nvals, "results_by_kind": kinds,
        "use_site_calls": nsz, "use_site_outcomes": by_res,
        "exhaustive": True,
        "explanation": "8-bit signed and unsigned instantiations enumerated completely (all operand pairs x add/sub/mul); "
                       "all small narrowing pairs completely; 16-bit boundary x " + ("full range" if tier == "thorough" else "boundary windows") +
                       "; int/unsigned/long/size_t boundary+seeded pairs decided with BigInt.tla; use sites: every Begin* of mp::ExprFactory with boundary counts up to 2^31-1, "
                       "the allocation request it makes compared with the node size (SizeUse.tla)",
        "design_check": {"module": "MCSafeInt", "distinct_states": mc.distinct, "MCSizeUse": ms.distinct,
                         "self_test": "wrapping 32-bit size arithmetic violates Holds"},
        "rejected_lines": len(badl), "violations_new": nnew,
    }, time.time() - t0, violations=nnew,
        assumptions=["g++ integer promotion semantics for 8/16-bit instantiations are those of the production build",
                     "UBSan (signed-integer-overflow) turns a wrap in int/long arithmetic into a crash record"])
    return rcode

if __name__ == "__main__":
    main_wrapper(PID, run)
