#!/usr/bin/env python3
"""C01 - the delivered model is equivalent to the NL model (FlatSem.tla, Reform.tla)."""
import json, os, random, re, sys, time
sys.path.insert(0, os.path.join(os.path.dirname(os.path.abspath(__file__)), "..", "tools"))
from vlib import *
import targets, drv, nlgen, flatmunge as fm
import cvtcases

PID = "C01"


def encoding_stage(tier, v):
    """ZZI.tla: the logarithmic SOS2 encoding (PL -> SOS2 -> linear rows).  Design check (it IS an SOS2 encoding for
    d = 2..8), then every history of up to three sets converted by one converter object: the columns the real encoder
    returns are the ones of the spec, whatever was converted before."""
    sd = os.path.join(SPECS, "flat")
    mc = tlc("MCZZI", "MCZZI.cfg", cwd=sd, workers=NPROC)
    tlc_must_pass(mc, "MCZZI")
    hists = sorted((c["h"] for c in printed_json(mc, "CASE")), key=lambda h: (len(h), h))
    if len(hists) != 8 + 64 + 512:
        raise Broken("MCZZI produced %d histories" % len(hists))
    d = outdir(PID)
    hp, tp = os.path.join(d, "zzi-hist.txt"), os.path.join(d, "zzi-%s.ndjson" % tier)
    with open(hp, "w") as f:
        for h in hists:
            f.write(" ".join(map(str, h)) + "\n")
    exe = targets.get("h_zzi")
    rc, so, se = run_harness(exe, [hp, tp], timeout=300)
    lines = sanitize_trace(tp, rc, se)
    ok, res = validate_trace("TraceZZI", "TraceZZI.cfg", tp, cwd=sd)
    done = printed_json(res, "DONE")
    if len(done) != 1 or done[0]["n"] != len(lines):
        raise Broken("TraceZZI did not consume the trace\n" + res.out[-2000:])
    if len(lines) < 1500:
        raise Broken("h_zzi recorded only %d sets" % len(lines))
    seen = set()
    for b in printed_json(res, "BAD"):
        key = "zzi:d%d:%s" % (b["d"], "first" if b["pos"] == 1 else "later")
        if key in seen:
            continue
        seen.add(key)
        v.violation(key, "the rows the ZZI encoder gives for an SOS2 set with %d members (set %d of the history %s) do not encode SOS2: lower %s, upper %s"
                    % (b["d"] + 1, b["pos"], hists[b["hist"] - 1] if b["hist"] else "?", b["lo"], b["hi"]), b)
    return {"histories": len(hists), "calls": len(lines), "states": mc.distinct + res.distinct, "transitions": mc.generated + res.generated,
            "bad": len(printed_json(res, "BAD"))}


def run(tier):
    t0 = time.time()
    exe = targets.get("h_drv_asan" if tier == "thorough" else "h_drv")   # thorough: ASan/UBSan build
    gen, gres = cvtcases.generate()
    configs = cvtcases.configs(exe)
    n = int(os.environ.get("VERIF_C01_N", "0")) or (9000 if tier == "thorough" else 1100)
    cases = cvtcases.sample(gen, configs, n, seed(), stratify=True)
    # cone recognition only happens when the solver takes cones: every cone-shaped model also under "native"
    # (thorough: under every configuration)
    for g in gen:
        if g["kind"] == "cone":
            for name, opts in configs[0]:
                if name == "native" or tier == "thorough":
                    cases.append({"id": len(cases), "gen": g, "cfgname": name, "opts": list(opts)})
    # reified comparisons with constants below / inside / above the operand's range: a seeded sample under the
    # configurations that linearise them (indicators, big-M, fully linear)
    cmps = [g for g in gen if g["kind"] == "cmp"]
    lin_cfgs = [c_ for c_ in configs[0] if c_[0].startswith("mip-")]
    rndc = random.Random(seed() + 17)
    for g in rndc.sample(cmps, min(len(cmps), 3000 if tier == "thorough" else 400)):
        name, opts = lin_cfgs[rndc.randrange(len(lin_cfgs))]
        cases.append({"id": len(cases), "gen": g, "cfgname": name, "opts": list(opts)})
    # products of functional expressions with either sign of the coefficient, under the configurations that keep
    # the quadratic term and linearise the functions (which half of a function's definition is kept depends on
    # the context the product hands down)
    prods = [g for g in gen if g["kind"] == "prod"]
    for g in rndc.sample(prods, min(len(prods), 3000 if tier == "thorough" else 500)):
        name, opts = lin_cfgs[rndc.randrange(len(lin_cfgs))]
        cases.append({"id": len(cases), "gen": g, "cfgname": name, "opts": list(opts)})
    # a^F with a functional expression F: the exponential stays with the solver (it takes ExpA), F is linearised
    monos = [g for g in gen if g["kind"] == "mono"]
    for g in rndc.sample(monos, min(len(monos), 2268 if tier == "thorough" else 400)):
        name, opts = lin_cfgs[rndc.randrange(len(lin_cfgs))]
        cases.append({"id": len(cases), "gen": g, "cfgname": name, "opts": [o for o in opts if not o.startswith("acc:expa=")]})
    # piecewise-linear terms under the fully linear configuration: PL -> SOS2 -> the logarithmic (ZZI) encoding,
    # whose matrix is built incrementally (the first set converted decides its initial state)
    pls = [g for g in gen if g["op"] in ("pl", "pl1", "plneg", "plpos") and g["kind"] in ("num", "dvar")]
    lin_only = [c_ for c_ in configs[0] if c_[0] == "mip-linear"][0]
    for g in rndc.sample(pls, min(len(pls), 3000 if tier == "thorough" else 300)):
        cases.append({"id": len(cases), "gen": g, "cfgname": lin_only[0], "opts": list(lin_only[1])})
    # two equality comparisons of one variable whose constants differ by 1/2 (all of them, rotating configurations)
    for j_, g in enumerate(g_ for g_ in gen if g_["kind"] == "eqpair"):
        name, opts = configs[0][j_ % len(configs[0])]
        cases.append({"id": len(cases), "gen": g, "cfgname": name, "opts": list(opts)})
    recs, stats = cvtcases.run_and_record(exe, PID, cases)
    res = validate_parallel("TraceReform", "TraceReform.cfg", recs, os.path.join(SPECS, "flat"), "c01")
    verdicts = [v for r in res for v in printed_json(r, "VERDICT")]
    byid = {c["id"]: c for c in cases}
    v = Verdict(PID)
    tally = {}
    for vd in verdicts:
        tally[vd["v"]] = tally.get(vd["v"], 0) + 1
        if vd["v"] in ("ok", "inconclusive"):
            continue
        c = byid.get(vd["id"], {})
        g = c.get("gen", {})
        key = "%s:%s:%s:%s:%s:%s:k%s:%s" % (vd["v"], g.get("kind"), g.get("op"), g.get("sh"), "-".join(g.get("pat", [])), g.get("use"), g.get("k"), c.get("cfgname"))
        v.violation(key, "model %s/%s shape=%s domains=%s use=%s k=%s under config %s %s: %s at %s" %
                    (g.get("kind"), g.get("op"), g.get("sh"), g.get("pat"), g.get("use"), g.get("k"), c.get("cfgname"), c.get("opts"), vd["v"], json.dumps(vd["pts"])[:300]),
                    {"gen": g, "opts": c.get("opts"), "verdict": vd})
    if len(verdicts) != len(recs):
        raise Broken("verdict count %d != record count %d" % (len(verdicts), len(recs)))
    zzi = encoding_stage(tier, v)
    rcode, nnew = v.finish()
    write_evidence(PID, tier, {
        "states": gres.distinct + sum(r.distinct for r in res), "transitions": gres.generated + sum(r.generated for r in res),
        "traces_validated_against_impl": len(recs),
        "samples": [{"gen": {k: cases[i]["gen"][k] for k in ("kind", "op", "sh", "pat", "use", "k")}, "config": cases[i]["cfgname"], "opts": cases[i]["opts"]} for i in (0, len(cases) // 2, len(cases) - 1)],
        "evaluations": len(recs), "verdicts": tally, "generated_models": len(gen), "configs": [c[0] for c in configs[0]],
        "run_stats": stats, "encoding_stage": zzi,
        "explanation": "TLC generates the abstract models (GenNL.tla); each sampled (model, acceptance/option configuration) is converted by the real driver; TLC evaluates NL model and delivered model at every grid point of the original domain, searching auxiliary values (FlatSem.tla/Reform.tla)",
        "violations_new": nnew,
    }, time.time() - t0, violations=nnew,
        assumptions=["integer / half-integer data and small domains; results outside the exact grid are counted inconclusive, never alarms",
                     "auxiliary variables are searched on the 1/D grid within their delivered bounds (clipped at +-%d => inconclusive when it matters)" % fm.AUXW])
    return rcode

if __name__ == "__main__":
    main_wrapper(PID, run)
