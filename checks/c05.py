#!/usr/bin/env python3
"""C05 - a .sol written by mp::WriteSolFile is read back as the same solution by mp::ReadSOLFile (SolFormat.tla)."""
import json, os, shutil, sys, time
sys.path.insert(0, os.path.join(os.path.dirname(os.path.abspath(__file__)), "..", "tools"))
from vlib import *
import targets

PID = "C05"
NL = os.path.join(SPECS, "nl")


def dimsig(d):
    return ";".join("%s=%s" % (k, d[k]) for k in ("msg", "opt", "vec", "obj", "suf") if k in d)


def keys_of(b):
    """Stable keys of one rejected case: a number that came back as a different one is
    keyed by the atoms involved; everything else by the wrong fields and the shape of the case."""
    wrong = sorted(b["wrong"])
    if b.get("atoms") and set(wrong) <= {"dual", "primal", "sufs"}:
        return ["val:a%d>%s" % (a[0], "|".join(str(x) for x in a[1]) or "none") for a in b["atoms"]]
    return ["%s@%s" % ("+".join(wrong), dimsig(b["dims"]))]


def binding_selftest(lines, trace, nbad):
    """Corrupt one recorded field of an accepted case and drop one callback of another:
    the validator must reject both (shows the trace spec is bound to the record, not vacuous)."""
    out = [dict(e) for e in lines]
    idx = [i for i, e in enumerate(out) if e["e"] == "OnObjno"]
    i1, i2 = idx[len(idx) // 3], idx[2 * len(idx) // 3]
    out[i1]["n"] = out[i1]["n"] + 1
    del out[i2 + 1]                      # the OnSolveCode that follows
    p = trace + ".selftest"
    with open(p, "w") as f:
        for e in out:
            f.write(json.dumps(e) + "\n")
    ok, res = validate_trace("TraceSolRoundTrip", "TraceSolRoundTrip.cfg", p, cwd=NL, timeout=1000)
    n2 = len(printed_json(res, "BAD"))
    os.remove(p)
    if n2 < nbad + 2:
        raise Broken("binding self-test: corrupted trace not rejected (%d -> %d)" % (nbad, n2))
    return {"corrupted_lines": 2, "additional_rejections": n2 - nbad}


def run(tier):
    t0 = time.time()
    mc = tlc("MCSolFormat", "MCSolFormat.cfg", cwd=NL, workers=NPROC, timeout=600)
    tlc_must_pass(mc, "MCSolFormat")
    nmix = 200 if tier == "quick" else 4000
    gen = tlc("GenSol", "GenSol.cfg", cwd=NL, workers=1, env={"SEED": seed(), "NMIX": nmix}, timeout=600)
    tlc_must_pass(gen, "GenSol")
    cases = printed_json(gen, "CASE")
    if len(cases) < 700:
        raise Broken("GenSol produced only %d cases" % len(cases))
    exe = targets.get("h_solrt")
    wd = os.path.join(BUILD, "run", PID)
    shutil.rmtree(wd, ignore_errors=True)
    os.makedirs(wd)
    cf_ = os.path.join(wd, "cases.ndjson")
    with open(cf_, "w") as f:
        for c in cases:
            f.write(json.dumps(c) + "\n")
    trace = os.path.join(outdir(PID), "trace-%s.ndjson" % tier)
    rc, so, se = run_harness(exe, [cf_, trace, str(seed()), wd], timeout=900)
    lines = sanitize_trace(trace, rc, se)
    ok, res = validate_trace("TraceSolRoundTrip", "TraceSolRoundTrip.cfg", trace, cwd=NL, timeout=1000)
    done = printed_json(res, "DONE")
    if len(done) != 1 or done[0]["n"] != len(lines):
        raise Broken("TraceSolRoundTrip did not consume the trace\n" + res.out[-2500:])
    ncase = sum(1 for e in lines if e["e"] == "Case")
    nres = sum(1 for e in lines if e["e"] == "Result")
    if ncase != len(cases):
        raise Broken("harness ran %d of %d cases" % (ncase, len(cases)))
    # vacuity: every callback kind, a rejection at a non-finite number and every case family occurred
    kinds = {}
    for e in lines:
        kinds[e["e"]] = kinds.get(e["e"], 0) + 1
    need = ["OnSolveMessage", "OnAMPLOptions", "OnDualSolution", "OnPrimalSolution", "OnObjno", "OnSolveCode", "OnIntSuffix", "OnDblSuffix", "Result"]
    if any(k not in kinds for k in need) or not any(e["e"] == "Result" and e["code"] != 0 for e in lines):
        raise Broken("vacuous run: event kinds %s" % kinds)
    bad = printed_json(res, "BAD")
    selftest = None
    if tier == "thorough":
        selftest = binding_selftest(lines, trace, len(bad))
    v = Verdict(PID)
    atoms = next((e for e in lines if e["e"] == "Atoms"), {"text": []})["text"]
    seen = set()
    for b in bad:
        case = cases[b["id"]] if 0 <= b["id"] < len(cases) else None
        for key in keys_of(b):
            if key in seen:
                continue
            seen.add(key)
            desc = "case %s (%s): wrong=%s result code %s" % (b["id"], b["tag"], sorted(b["wrong"]), b.get("code"))
            if key.startswith("val:"):
                a = int(key[5:].split(">")[0])
                desc = "number %s (atom %d) written by WriteSolFile came back as atoms %s; " % (
                    atoms[a] if a < len(atoms) else "?", a, key.split(">")[1]) + desc
            v.violation(key, desc, {"case": case, "bad": b, "sol_file": os.path.join(wd, "c%d.sol" % b["id"])})
    with open(os.path.join(outdir(PID), "keys-%s.json" % tier), "w") as f:
        json.dump(sorted(seen), f, indent=0)
    rcode, nnew = v.finish()
    fam = {}
    for c in cases:
        k = c["tag"].split(":")[0]
        fam[k] = fam.get(k, 0) + 1
    write_evidence(PID, tier, {
        "states": mc.distinct + gen.distinct + res.distinct,
        "transitions": mc.generated + gen.generated + res.generated,
        "traces_validated_against_impl": ncase,
        "samples": [cases[0], cases[len(cases) // 2], [json.dumps(e)[:300] for e in lines[2:11]]],
        "cases_by_family": fam, "callbacks_validated": len(lines), "results": nres,
        "exhaustive": False,
        "explanation": "TLC generates abstract solutions (all vector length combinations 0..3 x present/absent, every atom of the doubles table in primal/dual/suffix/vbtol position, message shapes x LF/CRLF x backspaces x trailing newline, option counts 0,3..9 and the vbtol form, suffix kind x int/real x iodecl x table shape x sparsity, multi-suffix sets, seeded mixes); each is written by the real WriteSolFile and read by the real ReadSOLFile; TLC validates the recorded callbacks against Normal(s) and the protocol automaton",
        "design_check": {"module": "MCSolFormat", "distinct_states": mc.distinct},
        "rejected_cases": len(bad), "violations_new": nnew, "events_by_kind": kinds, "binding_selftest": selftest,
    }, time.time() - t0, violations=nnew,
        assumptions=["the harness adapter hands WriteSolFile what SolutionWriterImpl hands it (status, message, option array of the NL header, value arrays, objno, the problem's suffix sets)",
                     "doubles are compared by the property's equivalence in the harness (exact for zero/integers/integral reals below 1e15, 1e-15 relative otherwise); the table of doubles is seeded",
                     "declared problem size of the reading handler = nvars/ncons of the written solution"])
    return rcode


if __name__ == "__main__":
    main_wrapper(PID, run)
