#!/usr/bin/env python3
"""C16 (call protocol part) - AMPL bindings of GSL (src/gsl/amplgsl.cc): no silent NaN in value /
requested partials, NaN and non-integer arguments and partials w.r.t. integer arguments are
reported, determinism, the call returns, measured agreement of the partials with one-sided
numerical differentiation at plain arguments (FuncCall.tla)."""
import concurrent.futures as cf
import glob, json, os, random, re, sys, time
sys.path.insert(0, os.path.join(os.path.dirname(os.path.abspath(__file__)), "..", "tools"))
from vlib import *

PID = "C16"
GSL = os.path.join(SPECS, "gsl")
PLAIN = ("zero", "half", "one", "two", "m1")     # FuncCall!Plain

# ---- concretisation of argument classes (real position, integer position) ----
TABLES = {
    "A": {"NaN": ("nan", "nan"), "nbig": (-1e10, -100000.0), "m1": (-1.0, -1.0), "ntiny": (-1e-10, -1e-10),
          "zero": (0.0, 0.0), "tiny": (1e-10, 1e-10), "half": (0.5, 0.5), "one": (1.0, 1.0), "two": (2.0, 2.0),
          "big": (1e10, 100000.0), "nonint": (1.5, 1.5)},
    "B": {"NaN": ("nan", "nan"), "nbig": (-1e300, -2147483648.0), "m1": (-1.0, -1.0), "ntiny": (-1e-300, -1e-300),
          "zero": (0.0, 0.0), "tiny": (1e-300, 1e-300), "half": (0.25, 0.75), "one": (1.0, 1.0), "two": (3.0, 3.0),
          "big": (1e300, 2147483647.0), "nonint": (2.5, -0.5)},
    # values whose %g text is long (error messages list the arguments)
    "C": {"NaN": ("nan", "nan"), "nbig": (-1234567.5, -1234567.0), "m1": (-1.0, -1.0), "ntiny": (-1.234567e-7, -1.234567e-7),
          "zero": (0.0, 0.0), "tiny": (1.234567e-7, 1.234567e-7), "half": (0.5, 0.5), "one": (1.0, 1.0), "two": (2.0, 2.0),
          "big": (1234567.5, 1234567.0), "nonint": (1.234567, 1.234567)},
}


def gsl_prototypes():
    """C prototypes of the GSL functions, from the installed headers: name -> parameter list."""
    txt = ""
    for f in sorted(glob.glob("/usr/include/gsl/gsl_sf*.h") + ["/usr/include/gsl/gsl_cdf.h", "/usr/include/gsl/gsl_randist.h",
                                                                "/usr/include/gsl/gsl_math.h", "/usr/include/gsl/gsl_sys.h"]):
        if os.path.exists(f):
            txt += re.sub(r"/\*.*?\*/", "", open(f, errors="replace").read(), flags=re.S) + "\n"
    txt = re.sub(r"\s+", " ", txt)
    protos = {}
    for m in re.finditer(r"\b((?:unsigned )?(?:double|int|size_t)) (gsl_\w+) ?\(([^()]*)\) ?;", txt):
        protos.setdefault(m.group(2), m.group(3))
    return protos


def int_positions(protos, name, nargs):
    """1-based positions of int / unsigned parameters of the C function the binding wraps
    (rng handle and gsl_mode_t are not AMPL arguments).  None = unknown (nothing claimed)."""
    if name not in protos:
        return None
    ps = protos[name].strip()
    ps = [p.strip() for p in ps.split(",")] if ps not in ("", "void") else []
    ps = [p for p in ps if "gsl_rng" not in p and "gsl_mode_t" not in p]
    if any("*" in p or "[" in p for p in ps) or len(ps) != nargs:
        return None
    return [i + 1 for i, p in enumerate(ps) if re.search(r"\b(int|size_t|unsigned)\b", p)]


def fmt(v):
    return v if isinstance(v, str) else float(v).hex()


def run_shard(exe, d, i, cases, tmo, tmo2):
    cfile = os.path.join(d, "calls-%d.txt" % i)
    raw = os.path.join(d, "raw-%d.ndjson" % i)
    tr = os.path.join(d, "trace-%d.ndjson" % i)
    with open(cfile, "w") as f:
        for k in cases:
            dig = "-" if not k["digc"] else "".join("1" if (j + 1) in k["ip"] else "0" for j in range(k["ar"]))
            # upper-case mode letter: the harness also measures agreement with numerical differentiation
            f.write("%d %s %s %s %d %s\n" % (k["id"], k["fn"], k["mode"].upper() if k["meas"] else k["mode"], dig or "-", k["ar"], " ".join(fmt(a) for a in k["args"])))
    rc, so, se = run_harness(exe, [cfile, raw, str(tmo), str(tmo2)], timeout=600 + tmo * 200)
    recs = sanitize_trace(raw, rc, se)
    byid = {}
    extra = []
    for e in recs:
        if "id" in e and e["e"] in ("Ret", "Hang", "Crash", "Skipped"):
            byid.setdefault(e["id"], []).append(e)
        else:
            extra.append(e)
    lines = []
    for k in cases:
        # the case is echoed from the generator, the outcome comes from the harness
        lines.append({"e": "Case", "id": k["id"], "fn": k["fn"], "ar": k["ar"], "ip": k["ip"], "rnd": k["rnd"], "str": k["str"],
                      "cls": k["cls"], "mode": k["mode"], "digc": k["digc"]})
        got = byid.get(k["id"], [])
        lines.extend(got if got else [{"e": "Crash", "id": k["id"], "what": "no record for this call"}])
    lines.extend(extra)
    with open(tr, "w") as f:
        for e in lines:
            f.write(json.dumps(e) + "\n")
    return tr, lines


def run(tier):
    t0 = time.time()
    mc = tlc("MCFuncCall", "MCFuncCall.cfg", cwd=GSL, workers=NPROC)
    tlc_must_pass(mc, "MCFuncCall")
    import targets
    exe = targets.get("h_gsl")
    d = os.path.join(BUILD, "c16-" + tier)
    os.makedirs(d, exist_ok=True)
    # registration data of the real library + C prototypes -> signatures
    rc, so, se = run_harness(exe, ["--list"], timeout=60)
    if rc != 0:
        raise Broken("h_gsl --list failed: " + se[-500:])
    funcs = [json.loads(x) for x in so.splitlines() if x.strip()]
    if len(funcs) < 300:
        raise Broken("only %d functions registered through Addfunc" % len(funcs))
    protos = gsl_prototypes()
    unknown = []
    for f in funcs:
        ip = int_positions(protos, f["name"], f["nargs"])
        if ip is None:
            unknown.append(f["name"]); ip = []
        f["ip"] = ip
    sigs = sorted({(f["nargs"], tuple(f["ip"])) for f in funcs})
    sigfile = os.path.join(d, "sigs.json")
    with open(sigfile, "w") as fh:
        json.dump([{"ar": a, "ip": list(ip)} for a, ip in sigs], fh)
    gen = tlc("GenFuncCall", "GenFuncCall.cfg", cwd=GSL, workers=1, env={"SIGS": sigfile}, xmx="4g")
    tlc_must_pass(gen, "GenFuncCall")
    bysig = {}
    for g in printed_json(gen, "CASE"):
        bysig.setdefault(g["sig"] - 1, []).append(g)
    for g in bysig.values():
        g.sort(key=lambda x: (x["mode"], x["digc"], x["cls"]))
    # every function gets the cases of its signature (quick: a seeded sample of them)
    rnd = random.Random(seed())
    tables = ["A", "B"] if tier == "thorough" else ["A"]
    per_fn = None if tier == "thorough" else 140
    cases = []
    for f in sorted(funcs, key=lambda x: x["name"]):
        gs = bysig[sigs.index((f["nargs"], tuple(f["ip"])))]
        for tb in tables:
            sel = gs
            if per_fn is not None and len(gs) > per_fn:
                sel = rnd.sample(gs, per_fn)
                # the calls at which agreement with numerical differentiation is measured are never sampled away
                sel += [g for g in gs if g["mode"] != "v" and all(c in PLAIN for c in g["cls"]) and g not in sel]
            for g in sel:
                args = [TABLES[tb][c][1 if (j + 1) in f["ip"] else 0] for j, c in enumerate(g["cls"])]
                cases.append({"id": len(cases), "fn": f["name"], "ar": f["nargs"], "ip": f["ip"], "rnd": f["random"], "str": f["string"],
                              "cls": g["cls"], "mode": g["mode"], "digc": g["digc"], "args": args, "tb": tb,
                              "meas": g["mode"] != "v" and all(c in PLAIN for c in g["cls"])})
    # every function with the same irregular class at every position, values with long texts (never sampled away)
    for f in sorted(funcs, key=lambda x: x["name"]):
        gs = bysig[sigs.index((f["nargs"], tuple(f["ip"])))]
        for g in gs:
            if f["nargs"] >= 3 and g["mode"] == "v" and len(set(g["cls"])) == 1 and g["cls"][0] not in ("half", "one", "two"):
                args = [TABLES["C"][c][1 if (j + 1) in f["ip"] else 0] for j, c in enumerate(g["cls"])]
                cases.append({"id": len(cases), "fn": f["name"], "ar": f["nargs"], "ip": f["ip"], "rnd": f["random"], "str": f["string"],
                              "cls": g["cls"], "mode": g["mode"], "digc": g["digc"], "args": args, "tb": "C", "meas": False})
    # run the real bindings (shards of whole functions), validate
    nsh = NPROC
    order = sorted(range(len(cases)), key=lambda i: cases[i]["fn"])
    shards = [[] for _ in range(nsh)]
    fnshard = {}
    for i in order:
        fn = cases[i]["fn"]
        if fn not in fnshard:
            fnshard[fn] = len(fnshard) % nsh
        shards[fnshard[fn]].append(cases[i])
    # time limit per call; after two hangs of a function its remaining calls get the short limit
    tmo, tmo2 = (10, 1000) if tier == "thorough" else (2, 300)
    with cf.ThreadPoolExecutor(max_workers=nsh) as ex:
        runs = list(ex.map(lambda a: run_shard(exe, d, a[0], a[1], tmo, tmo2), enumerate(shards)))
    with cf.ThreadPoolExecutor(max_workers=min(nsh, 6)) as ex:
        vals = list(ex.map(lambda r: validate_trace("TraceFuncCall", "TraceFuncCall.cfg", r[0], cwd=GSL, xmx="3g", timeout=2400), runs))
    v = Verdict(PID)
    states = trans = nbad = nskip = 0
    outcomes = {}
    for (tr, lines), (ok, res) in zip(runs, vals):
        done = printed_json(res, "DONE")
        if len(done) != 1 or done[0]["n"] != len(lines) or done[0]["open"]:
            raise Broken("TraceFuncCall did not consume %s\n%s" % (tr, res.out[-2500:]))
        states += res.distinct; trans += res.generated
        nskip += done[0]["skipped"]
        for e in lines:
            if e["e"] == "Ret":
                o = "Ret/" + e["err"]
                outcomes[o] = outcomes.get(o, 0) + 1
            elif e["e"] in ("Hang", "Crash"):
                outcomes[e["e"]] = outcomes.get(e["e"], 0) + 1
        for b in printed_json(res, "BAD"):
            nbad += 1
            w = b["what"]
            e = lines[b["line"] - 1]
            cid = e.get("id", b["id"])
            if not isinstance(cid, int) or cid < 0 or cid >= len(cases):
                v.violation("trace:%s" % w["k"], "rejected outside a call: " + json.dumps(e)[:300], {"what": w})
                continue
            k = cases[cid]
            call = "%s(%s) mode=%s%s" % (k["fn"], ", ".join(str(a) for a in k["args"]), k["mode"], " dig=int-constant" if k["digc"] else "")
            ck = "%s:%s%s:%s:%s" % (k["fn"], k["mode"], "c" if k["digc"] else "", ",".join(k["cls"]), k["tb"])
            payload = {"case": k, "outcome": e, "what": w}
            if w["k"] == "outcome":
                for cl in sorted(w["wrong"]):
                    if cl == "agree":
                        sides = [("d/dx%d %s" % (i + 1, sd)) for sd, q in (("left", e["dl"]), ("right", e["dr"])) for i, x in enumerate(q) if x == "bad"] + \
                                [("hes[%d] %s" % (i, sd)) for sd, q in (("left", e["hl"]), ("right", e["hr"])) for i, x in enumerate(q) if x == "bad" and "bad" in e["hlr"] + e["hrr"]]
                        kind = "kink" if any(x == "bad" for x in e["dl"] + e["hl"]) != any(x == "bad" for x in e["dr"] + e["hr"]) else "both"
                        v.violation("agree/%s:%s" % (kind, ck), "clause 'agree' violated by %s: no error reported, but %s contradicted by numerical differentiation of the binding's own values (%s)" %
                                    (call, ", ".join(sides), e.get("worst", "")), payload)
                        continue
                    v.violation("%s:%s" % (cl, ck), "clause '%s' violated by %s (derivs/hes pre-filled with %s) -> value %s, Errmsg %s%s, NaN partials %s / %s, unwritten partials %s / %s, deterministic %s" %
                                (cl, call, "NaN" if e["fill"] == "nan" else "a sentinel", e["val"], e["err"], (" (" + e["msg"] + ")") if e.get("msg") else "",
                                 [i for i, x in enumerate(e["dn"]) if x], [i for i, x in enumerate(e["hn"]) if x],
                                 [i for i, x in enumerate(e["du"]) if x], [i for i, x in enumerate(e["hu"]) if x], e["det"]), payload)
            elif w["k"] == "noreturn":
                v.violation("%s:%s" % (w["ev"].lower(), ck), "%s did not return: %s" % (call, json.dumps(e)[:200]), payload)
            else:
                v.violation("%s:%s" % (w["k"], ck), "trace rejected (%s) at %s" % (json.dumps(w)[:200], call), payload)
    byclause = {}
    for key, _, _ in v.viol:
        byclause[key.split(":")[0]] = byclause.get(key.split(":")[0], 0) + 1
    log("[%s] rejected by clause: %s" % (PID.lower(), json.dumps(byclause, sort_keys=True)))
    rcode, nnew = v.finish()
    # non-vacuity statistics: how often the antecedent of each clause occurred
    met = {"nan_argument": 0, "nonint_at_integer_position": 0, "partial_wrt_integer_requested": 0,
           "no_error_value_only": 0, "no_error_with_first_partials": 0, "no_error_with_second_partials": 0,
           "integer_positions_constant": 0, "nonrandom": 0, "partials_confirmed_by_numerical_differentiation": 0}
    for (tr, lines) in runs:
        cur = None
        for e in lines:
            if e["e"] == "Case":
                cur = e
                met["nan_argument"] += "NaN" in e["cls"]
                met["nonint_at_integer_position"] += "nonint" in e["cls"]
                met["partial_wrt_integer_requested"] += e["mode"] != "v" and bool(e["ip"]) and not e["digc"]
                met["integer_positions_constant"] += e["digc"]
                met["nonrandom"] += not e["rnd"]
            elif e["e"] == "Ret" and cur is not None and e["err"] == "none" and e["fill"] == "val":
                met[{"v": "no_error_value_only", "d": "no_error_with_first_partials", "h": "no_error_with_second_partials"}[cur["mode"]]] += 1
                met["partials_confirmed_by_numerical_differentiation"] += sum(x == "ok" for q in ("dl", "dr", "hl", "hr") for x in e[q])
    if rcode == 0 and not all(met.values()):
        raise Broken("a clause was vacuous in this run: %s" % met)
    if nskip and not v.viol:      # skipping only happens after repeated hangs, which are rejections (new or known)
        raise Broken("%d calls were skipped although nothing was rejected" % nskip)
    with open(os.path.join(outdir(PID), "trace-%s.ndjson" % tier), "w") as f:
        for tr, lines in runs:
            for e in lines[:4000]:
                f.write(json.dumps(e) + "\n")
    nint = sum(1 for f in funcs if f["ip"])
    write_evidence(PID, tier, {
        "states": mc.distinct + gen.distinct + states, "transitions": mc.generated + gen.generated + trans,
        "traces_validated_against_impl": len(cases),
        "samples": [{k: c[k] for k in ("fn", "ar", "ip", "cls", "mode", "digc", "args")} for c in (cases[0], cases[len(cases) // 3], cases[-1])] +
                   [json.dumps(e)[:300] for e in runs[0][1][:4]],
        "evaluations": len(cases), "functions": len(funcs), "functions_with_integer_arguments": nint,
        "signatures": len(sigs), "prototype_unknown": unknown, "outcomes": outcomes, "situations_met": met, "calls_skipped_after_hangs": nskip, "tables": tables,
        "exhaustive": False,
        "explanation": "all %d functions registered by the real amplgsl.cc through Addfunc (compiled against the funcadd.h shim and system libgsl); argument-class tuples x request modes enumerated by TLC per signature (GenFuncCall), %s; every call made three times in a forked child (derivs/hes pre-filled with NaN, then twice with a sentinel); each (case, outcome) pair validated by TLC against FuncCall.tla. Decided: Errmsg=NULL => no NaN in value/requested partials; NaN argument, non-integer at an integer position, partial w.r.t. an integer argument => error; determinism (non-random functions); the call returns. Agreement with numerical differentiation: measured at the calls whose arguments are all plain values (0, -1, 0.25..3) by one-sided Richardson quotients of the binding's own values / first partials on both sides, judged by clause 'agree' (a stable quotient that differs by more than 1e-2 relative contradicts; a kink shows as one side contradicting)." %
                       (len(funcs), "all of them with two concretisation tables" if tier == "thorough" else "a seeded sample of up to %d per function" % per_fn),
        "design_check": {"module": "MCFuncCall", "distinct_states": mc.distinct},
        "rejected": nbad, "rejected_by_clause": byclause, "violations_new": nnew,
    }, time.time() - t0, violations=nnew,
        assumptions=["harness/gsl_shim/funcadd.h reproduces the documented ASL arglist/AmplExports interface as far as amplgsl.cc uses it",
                     "integer-valued argument positions are those with int/unsigned/size_t type in the C prototype of the GSL function of the same name (system headers); functions without such a prototype get no integer positions",
                     "system libgsl %s stands for the GSL the bindings are shipped with" % "2.x"])
    return rcode


if __name__ == "__main__":
    main_wrapper(PID, run)
